(* C19 — Keys, addresses and signatures bind to exactly one key and one message.
   Statements only; proofs are in Proofs/SigWrapProofs.v, Proofs/HdPathProofs.v, Proofs/Eip712EncProofs.v.

   What is and is not claimed.  Unforgeability of ECDSA and collision resistance of Keccak-256 are cryptographic
   assumptions, not theorems; they appear nowhere below, neither as axioms nor as hypotheses.  The primitives
   (keccak, ECDSA verify/sign, point decompression, HMAC-SHA512, k*G, PBKDF2) are universally quantified function
   arguments.  What is proved is the LOGIC around them:
     * the verification wrapper accepts exactly what the property text allows (keccak of the message, or of its
       EIP-712 rendering, after the 65 -> 64 byte truncation);
     * every binding statement is a REDUCTION: a confusion at the level of the wrapper or of the typed-data hash
       exhibits an explicit primitive-level event (a collision of the hash, one signature valid for two digests,
       one signature valid under two keys);
     * the derivation as coded in hdkeychain (with its leading-zero stripping) is the fold of BIP-32 CKDpriv;
       derivation paths print/parse round trip; key encodings round trip. *)
From Coq Require Import String.
From Coq Require Import List NArith ZArith Bool.
From Evm Require Import SigWrap HdPath Eip712Enc SignDocFields SigWrapProofs HdPathProofs Eip712EncProofs Eip712WalkProofs Eip712ViewProofs SignDocFieldsProofs.
Import ListNotations.
Open Scope N_scope.

(* ================================================================= 1. signatures *)

(* PubKey.VerifySignature accepts (pk, msg, sig) iff the ECDSA primitive accepts the first 64 bytes of a 65-byte
   signature (else the signature as it is) for keccak(msg), or for keccak of the EIP-712 rendering of msg *)
Theorem C19_verify_sound : forall keccak ecdsa_verify eip712_bytes pk m s,
  verify keccak ecdsa_verify eip712_bytes pk m s = true ->
  ecdsa_verify pk (keccak m) (strip_v s) = true \/
  exists b, eip712_bytes m = Some b /\ ecdsa_verify pk (keccak b) (strip_v s) = true.
Proof. exact verify_sound. Qed.
Print Assumptions C19_verify_sound.

Theorem C19_verify_complete : forall keccak ecdsa_verify eip712_bytes pk m s,
  (ecdsa_verify pk (keccak m) (strip_v s) = true \/
   exists b, eip712_bytes m = Some b /\ ecdsa_verify pk (keccak b) (strip_v s) = true) ->
  verify keccak ecdsa_verify eip712_bytes pk m s = true.
Proof. exact verify_complete. Qed.
Print Assumptions C19_verify_complete.

Theorem C19_strip_v : forall s,
  (length s = 65%nat -> strip_v s = firstn 64 s) /\ (length s <> 65%nat -> strip_v s = s).
Proof. exact strip_v_spec. Qed.
Print Assumptions C19_strip_v.

(* only 64- and 65-byte signatures are ever accepted (go-ethereum's VerifySignature takes 64 bytes) *)
Theorem C19_verify_signature_length : forall keccak ecdsa_verify eip712_bytes,
  (forall pk d s, ecdsa_verify pk d s = true -> length s = 64%nat) ->
  forall pk m s, verify keccak ecdsa_verify eip712_bytes pk m s = true -> length s = 64%nat \/ length s = 65%nat.
Proof. exact verify_sig_length. Qed.
Print Assumptions C19_verify_signature_length.

(* one signature, one key, two messages: the messages share a signed form (the same message; one is the EIP-712
   rendering of the other; equal renderings -> section 4), or a keccak collision / one signature valid for two
   digests is exhibited *)
Theorem C19_verify_binds_message : forall keccak ecdsa_verify eip712_bytes pk m1 m2 s,
  verify keccak ecdsa_verify eip712_bytes pk m1 s = true -> verify keccak ecdsa_verify eip712_bytes pk m2 s = true ->
  (exists f, In f (signed_forms eip712_bytes m1) /\ In f (signed_forms eip712_bytes m2)) \/
  keccak_collision keccak \/ sig_two_digests ecdsa_verify.
Proof. exact verify_binds_message. Qed.
Print Assumptions C19_verify_binds_message.

(* one signature accepted under two keys is an event of the primitive: the wrapper hands the key through *)
Theorem C19_verify_binds_key : forall keccak ecdsa_verify eip712_bytes pk1 pk2 m1 m2 s,
  verify keccak ecdsa_verify eip712_bytes pk1 m1 s = true -> verify keccak ecdsa_verify eip712_bytes pk2 m2 s = true ->
  pk1 = pk2 \/ sig_two_keys ecdsa_verify.
Proof. exact verify_binds_key. Qed.
Print Assumptions C19_verify_binds_key.

(* Sign then Verify, for a functionally correct primitive pair — for every message that is not 32 bytes long *)
Theorem C19_sign_then_verify : forall keccak ecdsa_verify eip712_bytes ecdsa_sign pub_of,
  (forall sk d s, ecdsa_sign sk d = Some s -> length s = 65%nat /\ ecdsa_verify (pub_of sk) d (firstn 64 s) = true) ->
  forall sk m s, length m <> 32%nat -> sign keccak ecdsa_sign sk m = Some s ->
  verify keccak ecdsa_verify eip712_bytes (pub_of sk) m s = true /\
  verify keccak ecdsa_verify eip712_bytes (pub_of sk) m (firstn 64 s) = true.
Proof. exact sign_then_verify. Qed.
Print Assumptions C19_sign_then_verify.

(* The property's "verifies only for the exact message signed (or that message's EIP-712 rendering)", for
   signatures produced by PrivKey.Sign, over ALL functionally correct primitives.  FALSE of the faithful model:
   known finding C19/crypto/sign/32-byte-message-is-treated-as-digest (Sign uses a 32-byte message as the digest,
   Verify hashes every message). *)
Definition C19_sign_binds_message_full : Prop := sign_binds_message_full.
Theorem C19_sign_binds_message_refuted : ~ C19_sign_binds_message_full.
Proof. exact sign_binds_message_refuted. Qed.
Print Assumptions C19_sign_binds_message_refuted.

(* the strongest true weakening: every message whose length is not 32 *)
Theorem C19_sign_binds_message_partial : forall keccak ecdsa_verify eip712_bytes ecdsa_sign pub_of,
  (forall sk d s, ecdsa_sign sk d = Some s -> length s = 65%nat /\ ecdsa_verify (pub_of sk) d (firstn 64 s) = true) ->
  forall sk m s m', length m <> 32%nat -> sign keccak ecdsa_sign sk m = Some s ->
  verify keccak ecdsa_verify eip712_bytes (pub_of sk) m' s = true ->
  m' = m \/ eip712_bytes m' = Some m \/ keccak_collision keccak \/ sig_two_digests ecdsa_verify.
Proof. exact sign_binds_message_partial. Qed.
Print Assumptions C19_sign_binds_message_partial.

(* what happens at 32 bytes: the signature is accepted for every keccak-preimage of the message *)
Theorem C19_sign_32_verifies_for_preimage : forall keccak ecdsa_verify eip712_bytes ecdsa_sign pub_of,
  (forall sk d s, ecdsa_sign sk d = Some s -> length s = 65%nat /\ ecdsa_verify (pub_of sk) d (firstn 64 s) = true) ->
  forall sk pre s, length (keccak pre) = 32%nat -> sign keccak ecdsa_sign sk (keccak pre) = Some s ->
  verify keccak ecdsa_verify eip712_bytes (pub_of sk) pre s = true.
Proof. exact sign_32_verifies_for_preimage. Qed.
Print Assumptions C19_sign_32_verifies_for_preimage.

(* ================================================================= 2. addresses, key encodings *)

(* the address is the last 20 bytes of keccak256 of the uncompressed key X||Y *)
Theorem C19_address_def : forall keccak decompress,
  (forall x, length (keccak x) = 32%nat) ->
  forall pk xy, decompress pk = Some xy ->
  address keccak decompress pk = lastn 20 (keccak xy) /\ length (address keccak decompress pk) = 20%nat.
Proof. exact address_def. Qed.
Print Assumptions C19_address_def.

Theorem C19_address_invalid_key : forall keccak decompress pk,
  decompress pk = None -> address keccak decompress pk = [].
Proof. exact address_invalid_key. Qed.
Print Assumptions C19_address_invalid_key.

Theorem C19_address_binds_key : forall keccak decompress,
  (forall x, length (keccak x) = 32%nat) ->
  forall pk1 pk2 xy1 xy2, decompress pk1 = Some xy1 -> decompress pk2 = Some xy2 ->
  address keccak decompress pk1 = address keccak decompress pk2 ->
  xy1 = xy2 \/ (xy1 <> xy2 /\ lastn 20 (keccak xy1) = lastn 20 (keccak xy2)).
Proof. exact address_binds_key. Qed.
Print Assumptions C19_address_binds_key.

(* protobuf: Unmarshal (Marshal key) = key, for every key (also the empty one and keys with leading zero bytes) *)
Theorem C19_proto_roundtrip : forall key, len key < VARINT_MAX -> proto_dec (proto_enc key) = DOk key.
Proof. exact proto_roundtrip. Qed.
Print Assumptions C19_proto_roundtrip.

(* amino: Unmarshal (Marshal key) = the key, for keys of the right size; never across key kinds *)
Theorem C19_amino_roundtrip : forall pub key,
  length key = key_size pub -> amino_dec pub (amino_enc pub key) = Some key.
Proof. exact amino_roundtrip_key. Qed.
Print Assumptions C19_amino_roundtrip.

Theorem C19_amino_rejects_wrong_size : forall pub key,
  len key < VARINT_MAX -> length key <> key_size pub -> amino_dec pub (amino_enc pub key) = None.
Proof. exact amino_rejects_wrong_size. Qed.
Print Assumptions C19_amino_rejects_wrong_size.

Theorem C19_amino_kind_separated : forall pub key, amino_dec (negb pub) (amino_enc pub key) = None.
Proof. exact amino_kind_separated. Qed.
Print Assumptions C19_amino_kind_separated.

Theorem C19_encodings_injective : forall pub k1 k2,
  length k1 = key_size pub -> length k2 = key_size pub ->
  (amino_enc pub k1 = amino_enc pub k2 -> k1 = k2) /\ (proto_enc k1 = proto_enc k2 -> k1 = k2).
Proof. exact encodings_injective. Qed.
Print Assumptions C19_encodings_injective.

Theorem C19_generate : forall bz,
  length (generate bz) = 32%nat /\ (length bz = 32%nat -> generate bz = bz).
Proof. exact generate_spec. Qed.
Print Assumptions C19_generate.

(* ================================================================= 3. HD derivation *)

(* Derive, as coded in btcutil/hdkeychain (keys kept with leading zero bytes stripped, right-aligned again for
   hardened children), is the fold of BIP-32 CKDpriv over the path from the BIP-32 master key, ser256 of the
   result; for every seed of 16..64 bytes and every path of at most 255 elements *)
Theorem C19_derive_is_fold_ckd : forall hmac512 point,
  (forall k d, Forall byte (hmac512 k d)) ->
  forall seed p, (16 <= length seed <= 64)%nat -> (length p <= 255)%nat ->
  derive_seed hmac512 point seed p =
  match master_spec hmac512 seed with
  | None => HErrUnusableSeed
  | Some kc => match fold_ckd hmac512 point kc p with
               | None => HErrInvalidChild
               | Some kc' => HOk (ser256 (fst kc'))
               end
  end.
Proof. exact derive_is_fold_ckd. Qed.
Print Assumptions C19_derive_is_fold_ckd.

Theorem C19_derive_agrees_with_bip32 : forall hmac512 point,
  (forall k d, Forall byte (hmac512 k d)) ->
  forall seed p key, (16 <= length seed <= 64)%nat -> (length p <= 255)%nat ->
  (derive_seed hmac512 point seed p = HOk key <-> bip32_spec hmac512 point seed p = Some key).
Proof. exact derive_agrees_with_bip32. Qed.
Print Assumptions C19_derive_agrees_with_bip32.

(* the mnemonic entry point: the path is parsed first, then BIP-39 gives the seed, then the fold *)
Theorem C19_derive_full : forall hmac512 point bip39_seed mnemonic pass path p seed,
  parse_path path = POk p -> bip39_seed mnemonic pass = Some seed ->
  derive hmac512 point bip39_seed mnemonic pass path = derive_seed hmac512 point seed p.
Proof. exact derive_full. Qed.
Print Assumptions C19_derive_full.

(* DerivationPath.String and ParseDerivationPath round trip, for every non-empty path of uint32 components *)
Theorem C19_path_roundtrip : forall p,
  p <> [] -> Forall (fun c => c <= MAXU32) p -> parse_path (print_path p) = POk p.
Proof. exact path_roundtrip. Qed.
Print Assumptions C19_path_roundtrip.

(* hardened-index arithmetic: every parsed component is a uint32; the quote adds 2^31 without overflow *)
Theorem C19_parse_component_range : forall s v, parse_component s = Some v -> v <= MAXU32.
Proof. exact parse_component_range. Qed.
Print Assumptions C19_parse_component_range.

Theorem C19_parse_component_hardened : forall s v,
  has_suffix_quote (trim s) = true -> parse_component s = Some v -> HARD <= v.
Proof. exact parse_component_hardened. Qed.
Print Assumptions C19_parse_component_hardened.

Theorem C19_parse_print_component : forall c, c <= MAXU32 -> parse_component (print_component c) = Some c.
Proof. exact parse_print_component. Qed.
Print Assumptions C19_parse_print_component.

Theorem C19_parse_path_range : forall s p, parse_path s = POk p -> Forall (fun c => c <= MAXU32) p /\ p <> [].
Proof. exact parse_path_range. Qed.
Print Assumptions C19_parse_path_range.

(* ================================================================= 4. EIP-712 typed-data hashing *)

(* THE REDUCTION (hashStruct / encodeData over a tree of typed members).  Two well-formed typed values of
   compatible shape with equal encodings are equal, or an explicit collision x <> y, H x = H y is exhibited.
   H is any function with 32-byte output; it is NOT assumed injective or collision resistant. *)
Theorem C19_typed_hash_injective_or_collision : forall H,
  (forall x, length (H x) = 32%nat) ->
  forall t1 t2, wf t1 -> wf t2 -> compat t1 t2 -> enc_word H t1 = enc_word H t2 -> t1 = t2 \/ collision H.
Proof. exact enc_word_injective_or_collision. Qed.
Print Assumptions C19_typed_hash_injective_or_collision.

(* encodeType: the type string (followed by anything) determines the type's name and its members' names and
   types — also in go-ethereum's "Name)" form of a member-less type *)
Theorem C19_type_string_injective : forall n1 fs1 r1 n2 fs2 r2,
  ident_ok n1 = true -> fields_ok fs1 = true -> ident_ok n2 = true -> fields_ok fs2 = true ->
  one_type_str n1 fs1 ++ r1 = one_type_str n2 fs2 ++ r2 -> n1 = n2 /\ fs1 = fs2 /\ r1 = r2.
Proof. exact one_type_str_inj. Qed.
Print Assumptions C19_type_string_injective.

Theorem C19_encode_type_injective : forall T1 T2 ty1 ty2 fs1 fs2,
  tymap_ok T1 = true -> tymap_ok T2 = true -> assoc ty1 T1 = Some fs1 -> assoc ty2 T2 = Some fs2 ->
  encode_type T1 ty1 = encode_type T2 ty2 -> ty1 = ty2 /\ fs1 = fs2.
Proof. exact encode_type_inj. Qed.
Print Assumptions C19_encode_type_injective.

(* every typed reading is well formed, and two readings — under possibly DIFFERENT type maps — are of compatible
   shape: the hypotheses of the reduction are always met by what HashStruct hashes *)
Theorem C19_readings_well_formed_and_compatible : forall k1 k2 T1 T2 ty1 ty2 d1 d2 t1 t2,
  tymap_ok T1 = true -> tymap_ok T2 = true ->
  read_struct k1 T1 ty1 d1 = Some t1 -> read_struct k2 T2 ty2 d2 = Some t2 ->
  wf t1 /\ wf t2 /\ compat t1 t2.
Proof. exact readings_well_formed_and_compatible. Qed.
Print Assumptions C19_readings_well_formed_and_compatible.

(* HashStruct(primaryType, data): equal hashes under possibly different type maps => the same typed value (type
   name, type string, every member's name, type and value, recursively), or a collision *)
Theorem C19_hash_struct_injective_or_collision : forall H,
  (forall x, length (H x) = 32%nat) ->
  forall T1 T2 ty1 ty2 d1 d2 h,
  tymap_ok T1 = true -> tymap_ok T2 = true -> assoc ty1 T1 <> None -> assoc ty2 T2 <> None ->
  hash_struct H T1 ty1 d1 = Some h -> hash_struct H T2 ty2 d2 = Some h ->
  (exists t, typed_view T1 ty1 d1 = Some t /\ typed_view T2 ty2 d2 = Some t) \/ collision H.
Proof. exact hash_struct_injective_or_collision. Qed.
Print Assumptions C19_hash_struct_injective_or_collision.

(* x/cpc/eip712 EIP712HashingTypedMessage (what the staking precompile's signed messages are verified against):
   equal hashes => equal typed domain (chain id, verifying contract) and equal typed message, or a collision *)
Theorem C19_typed_message_hash_injective_or_collision : forall H,
  (forall x, length (H x) = 32%nat) ->
  forall T1 T2 p1 p2 dom1 dom2 m1 m2 h,
  tymap_ok T1 = true -> tymap_ok T2 = true ->
  assoc EIP712DOMAIN T1 <> None -> assoc EIP712DOMAIN T2 <> None -> assoc p1 T1 <> None -> assoc p2 T2 <> None ->
  typed_message_hash H T1 p1 dom1 m1 = Some h -> typed_message_hash H T2 p2 dom2 m2 = Some h ->
  ((exists td, typed_view T1 EIP712DOMAIN dom1 = Some td /\ typed_view T2 EIP712DOMAIN dom2 = Some td) /\
   (exists tm, typed_view T1 p1 m1 = Some tm /\ typed_view T2 p2 m2 = Some tm)) \/ collision H.
Proof. exact typed_message_hash_injective_or_collision. Qed.
Print Assumptions C19_typed_message_hash_injective_or_collision.

(* ================================================================= 5. the rendering of a sign document *)

(* GetEIP712BytesForMsg on an amino-JSON sign document (WrapTxToTypedData + TypedDataAndHash).
   doc_ok = the class of documents covered: every object key, at every depth, is a non-empty word-character string
   unique in its object (the model's domain), and the last "/"-token of every message's type name consists of word
   characters — true of every legacy-amino sign document of registered messages.
   doc_view = what is hashed: the typed EIP-712 domain (name, version, chainId, verifyingContract, salt) and the typed
   Tx message: EVERY member of the document — account_number, chain_id, fee{amount[]{denom,amount},gas}, memo,
   sequence, msg0..msgN with every nested field — with its name, its type and its value (a document with a member
   that is not declared in the derived types does not render at all: "extra data").

   Two documents with the same 66-byte rendering have the same view, or a collision of H is exhibited. *)
Theorem C19_render_injective_or_collision : forall H,
  (forall x, length (H x) = 32%nat) ->
  forall j1 j2 r, doc_ok j1 -> doc_ok j2 -> render H j1 = Some r -> render H j2 = Some r ->
  (exists v, doc_view j1 = Some v /\ doc_view j2 = Some v) \/ collision H.
Proof. exact render_injective. Qed.
Print Assumptions C19_render_injective_or_collision.

(* THE CAPSTONE, at the level of the JSON documents.  jsame (Proofs/Eip712ViewProofs.v) = the same members, with
   identical strings and booleans, the same integers (a JSON number or a numeric string, modulo 2^256 — equal
   outright within the int64 range, C19_same_integer), the same addresses, recursively through arrays and objects.
   Two sign documents of the covered class with the same rendering have member-wise equal flattened messages
   (m = the document with "msgs":[a,b,..] spelled "msg0":a,"msg1":b,..): the rendering is injective in chain id,
   account number, sequence, fee amount, gas limit, memo and every message field — or a collision of H is exhibited. *)
Theorem C19_render_injective_json : forall H,
  (forall x, length (H x) = 32%nat) ->
  forall j1 j2 r, doc_ok j1 -> doc_ok j2 -> render H j1 = Some r -> render H j2 = Some r ->
  (exists c1 T1 m1 c2 T2 m2, doc_parts j1 = Some (c1, T1, m1) /\ doc_parts j2 = Some (c2, T2, m2) /\ jsame (JObj m1) (JObj m2))
  \/ collision H.
Proof. exact render_injective_json. Qed.
Print Assumptions C19_render_injective_json.

(* the step from the typed view back to the document, for arbitrary type maps with distinct member names: two objects
   (unique keys at every depth) that are read to the same typed value have the same members — in particular no
   member that the types do not declare: the reader refuses data with more members than the type ("extra data") *)
Theorem C19_same_reading_same_members : forall k1 k2 T1 T2 ty1 ty2 d1 d2 t,
  tymap_nodup T1 = true -> tymap_nodup T2 = true -> valok (JObj d1) -> valok (JObj d2) ->
  read_struct k1 T1 ty1 d1 = Some t -> read_struct k2 T2 ty2 d2 = Some t -> jsame (JObj d1) (JObj d2).
Proof. exact read_struct_same. Qed.
Print Assumptions C19_same_reading_same_members.

Theorem C19_same_atom : forall ty v1 v2 t, read_prim ty v1 = Some t -> read_prim ty v2 = Some t -> atom_same v1 v2.
Proof. exact read_prim_same. Qed.
Print Assumptions C19_same_atom.

Theorem C19_same_integer : forall z1 z2,
  (z1 mod TWO256 = z2 mod TWO256)%Z -> (- 2 ^ 255 <= z1 < 2 ^ 255)%Z -> (- 2 ^ 255 <= z2 < 2 ^ 255)%Z -> z1 = z2.
Proof. exact same_mod_small. Qed.
Print Assumptions C19_same_integer.

(* derived type maps have distinct member names in every type (also Tx: five fixed members + msg0..msgN) and the
   flattened message keeps unique keys: the hypotheses of C19_same_reading_same_members hold for every document *)
Theorem C19_derived_types_distinct_members : forall j c T m,
  doc_ok j -> doc_parts j = Some (c, T, m) -> tymap_nodup T = true /\ valok (JObj m).
Proof. exact doc_types_nodup. Qed.
Print Assumptions C19_derived_types_distinct_members.

(* typed messages of the staking precompile: equal hashes => member-wise equal domain (incl. chainId) and message *)
Theorem C19_typed_message_hash_injective_json : forall H,
  (forall x, length (H x) = 32%nat) ->
  forall T1 T2 p1 p2 dom1 dom2 m1 m2 h,
  tymap_ok T1 = true -> tymap_ok T2 = true -> tymap_nodup T1 = true -> tymap_nodup T2 = true ->
  assoc EIP712DOMAIN T1 <> None -> assoc EIP712DOMAIN T2 <> None -> assoc p1 T1 <> None -> assoc p2 T2 <> None ->
  valok (JObj dom1) -> valok (JObj dom2) -> valok (JObj m1) -> valok (JObj m2) ->
  typed_message_hash H T1 p1 dom1 m1 = Some h -> typed_message_hash H T2 p2 dom2 m2 = Some h ->
  (jsame (JObj dom1) (JObj dom2) /\ jsame (JObj m1) (JObj m2)) \/ collision H.
Proof. exact typed_message_hash_injective_json. Qed.
Print Assumptions C19_typed_message_hash_injective_json.

(* the type derivation of ethereum/eip712/types.go always yields a well-formed type map containing the root types
   (an invariant of recursivelyAddTypesToRoot / addTypesToRoot / addMsgTypesToRoot over all documents of the class) *)
Theorem C19_derived_types_well_formed : forall j c T m,
  doc_ok j -> doc_parts j = Some (c, T, m) ->
  tymap_ok T = true /\ assoc TX T <> None /\ assoc EIP712DOMAIN T <> None.
Proof. exact doc_types_ok. Qed.
Print Assumptions C19_derived_types_well_formed.

(* the same statement for arbitrary (not derived) type maps, with their well-formedness as hypotheses *)
Theorem C19_render_injective_or_collision_any_types : forall H,
  (forall x, length (H x) = 32%nat) ->
  forall j1 j2 r c1 T1 m1 c2 T2 m2,
  doc_parts j1 = Some (c1, T1, m1) -> doc_parts j2 = Some (c2, T2, m2) ->
  tymap_ok T1 = true -> tymap_ok T2 = true ->
  assoc EIP712DOMAIN T1 <> None -> assoc EIP712DOMAIN T2 <> None -> assoc TX T1 <> None -> assoc TX T2 <> None ->
  render H j1 = Some r -> render H j2 = Some r ->
  ((exists td, typed_view T1 EIP712DOMAIN (cosmos_domain c1) = Some td /\ typed_view T2 EIP712DOMAIN (cosmos_domain c2) = Some td) /\
   (exists tm, typed_view T1 TX m1 = Some tm /\ typed_view T2 TX m2 = Some tm)) \/ collision H.
Proof. exact render_injective_or_collision. Qed.
Print Assumptions C19_render_injective_or_collision_any_types.

Theorem C19_render_parts : forall H j r,
  render H j = Some r ->
  exists c T m, doc_parts j = Some (c, T, m) /\ typed_data_bytes H T TX (cosmos_domain c) m = Some r.
Proof. exact render_parts. Qed.
Print Assumptions C19_render_parts.

(* ================================================================= non-vacuity *)

(* a toy primitive pair satisfies the correctness hypothesis of the signing theorems *)
Example C19_example_primitives_exist :
  forall sk d s, toy_sign sk d = Some s -> length s = 65%nat /\ toy_verify ((fun k => k) sk) d (firstn 64 s) = true.
Proof. exact toy_correct. Qed.

Example C19_example_paths :
  parse_path (bs "m/44'/60'/0'/0/7") = POk [HARD + 44; HARD + 60; HARD; 0; 7] /\
  print_path [HARD + 44; HARD + 60; HARD; 0; 7] = bs "m/44'/60'/0'/0/7" /\
  parse_path (bs "7") = POk [HARD + 44; HARD + 60; HARD; 0; 7] /\
  parse_path (bs "m/2147483648'") = PErr.
Proof. vm_compute. repeat split. Qed.

Example C19_example_encodings :
  amino_dec true (amino_enc true (repeat 7 33)) = Some (repeat 7 33) /\
  proto_dec (proto_enc (repeat 0 32)) = DOk (repeat 0 32) /\
  amino_dec true (amino_enc false (repeat 7 32)) = None.
Proof. vm_compute. repeat split. Qed.

(* the type maps of the staking precompile's typed messages and the base types of a sign document are well formed;
   a hash function with 32-byte output exists (constant), so the reduction's hypotheses are satisfiable *)
Example C19_example_tymap_ok :
  tymap_ok base_types = true /\
  tymap_ok [ (bs "EIP712Domain", [(bs "name", bs "string"); (bs "version", bs "string"); (bs "chainId", bs "uint256");
                                   (bs "verifyingContract", bs "address")]);
             (bs "StakingMessage", [(bs "action", bs "string"); (bs "delegator", bs "address"); (bs "validator", bs "string");
                                     (bs "amount", bs "uint256"); (bs "denom", bs "string"); (bs "oldValidator", bs "string")]) ] = true.
Proof. vm_compute. split; reflexivity. Qed.

Example C19_example_hash_exists : forall x : bytes, length ((fun _ => repeat 0 32) x) = 32%nat.
Proof. reflexivity. Qed.

(* a concrete sign document of the covered class renders (here under a constant 32-byte "hash"), and its view is
   the typed Tx message: the hypotheses of C19_render_injective_or_collision are satisfiable *)
Definition C19_example_doc : json :=
  JObj [ (bs "account_number", JStr (bs "1")); (bs "chain_id", JStr (bs "evermint_80808-1"));
         (bs "fee", JObj [ (bs "amount", JArr [JObj [(bs "amount", JStr (bs "5")); (bs "denom", JStr (bs "wei"))]]);
                           (bs "gas", JStr (bs "200000")) ]);
         (bs "memo", JStr (bs "hello"));
         (bs "msgs", JArr [ JObj [ (bs "type", JStr (bs "cosmos-sdk/MsgSend"));
                                   (bs "value", JObj [ (bs "amount", JArr [JObj [(bs "amount", JStr (bs "1")); (bs "denom", JStr (bs "wei"))]]);
                                                       (bs "from_address", JStr (bs "evm1from")); (bs "to_address", JStr (bs "evm1to")) ]) ] ]);
         (bs "sequence", JStr (bs "2")) ].

Example C19_example_doc_ok : doc_ok C19_example_doc.
Proof.
  split; [vm_compute; reflexivity|]. cbn. constructor; [|constructor].
  intros root E. vm_compute in E. inversion E. reflexivity.
Qed.

Example C19_example_doc_renders :
  render (fun _ => repeat 0 32) C19_example_doc <> None /\ doc_view C19_example_doc <> None.
Proof. vm_compute. split; discriminate. Qed.

(* the member-wise relation of the capstone discriminates: two documents differing in one string member are unrelated *)
Example C19_example_jsame_discriminates :
  ~ jsame (JObj [(bs "memo", JStr (bs "a"))]) (JObj [(bs "memo", JStr (bs "b"))]).
Proof. apply jsame_discriminates; [vm_compute; discriminate | reflexivity | reflexivity]. Qed.

(* ================================================================= 5. protobuf sign documents: every field is bound *)

(* ethereum/eip712/encoding.go decodeProtobufSignDoc hands legacytx.StdSignBytes(...) of SOME fields to the renderer of
   section 4 and refuses the document when certain others are set.  Model/SignDocFields.v enumerates the fields of a
   SIGN_MODE_DIRECT sign document (TxBody, AuthInfo with SignerInfo / Fee / Tip, chain id, account number: the list the
   driver reads by reflection from the SDK's message descriptors and compares with pb_table on every run) and models
   the guards.  A and MI are the payloads the step does not look into (Any, ModeInfo); msgs_ok / chain_ok stand for the
   further refusals of message unpacking / validatePayloadMessages / ParseChainID. *)

(* every signed field is either rendered or the document is refused: two accepted documents that hand the same legacy
   document to the renderer agree on every field, except the two envelope fields of the signature (public key and sign
   mode of the signer info -- SIGN_MODE_LEGACY_AMINO_JSON does not sign them either) *)
Theorem C19_protobuf_doc_binds_every_field : forall (A MI : Type) msgs_ok chain_ok (f : pbfield) d1 d2 s,
  pb_decode A MI msgs_ok chain_ok d1 = Some s -> pb_decode A MI msgs_ok chain_ok d2 = Some s ->
  f <> F_si_mode_info -> f <> F_si_public_key -> pb_get A MI f d1 = pb_get A MI f d2.
Proof.
  intros A MI msgs_ok chain_ok f d1 d2 s H1 H2 N1 N2.
  apply (pb_decode_binds_field A MI msgs_ok chain_ok f d1 d2 s H1 H2).
  intros C. apply (class_same_iff f) in C. destruct C; contradiction.
Qed.
Print Assumptions C19_protobuf_doc_binds_every_field.

(* the same in one piece, with the completeness of the enumeration: same rendering input => the same document once
   public key and sign mode are blanked *)
Theorem C19_protobuf_doc_binds : forall (A MI : Type) msgs_ok chain_ok d1 d2 s,
  pb_decode A MI msgs_ok chain_ok d1 = Some s -> pb_decode A MI msgs_ok chain_ok d2 = Some s ->
  strip_envelope A MI d1 = strip_envelope A MI d2.
Proof. exact pb_decode_binds. Qed.
Print Assumptions C19_protobuf_doc_binds.

Theorem C19_protobuf_fields_are_the_document : forall (A MI : Type) (d1 d2 : pbdoc A MI),
  (forall f, pb_get A MI f d1 = pb_get A MI f d2) -> d1 = d2.
Proof. exact fields_complete. Qed.
Print Assumptions C19_protobuf_fields_are_the_document.

(* field by field: a rendered field is found in the legacy document, a refused one has one admissible value *)
Theorem C19_protobuf_rendered_field : forall (A MI : Type) msgs_ok chain_ok f d s,
  pb_decode A MI msgs_ok chain_ok d = Some s -> pb_class f = PRendered -> sd_get A MI f s = Some (pb_get A MI f d).
Proof. exact rendered_in_stddoc. Qed.
Print Assumptions C19_protobuf_rendered_field.

Theorem C19_protobuf_refused_field : forall (A MI : Type) msgs_ok chain_ok f d s,
  pb_decode A MI msgs_ok chain_ok d = Some s -> pb_class f = PRefused -> pb_forced A MI f = Some (pb_get A MI f d).
Proof. exact refused_is_forced. Qed.
Print Assumptions C19_protobuf_refused_field.

Theorem C19_protobuf_field_classes : forall f,
  (pb_class f = PRendered \/ pb_class f = PRefused \/ pb_class f = PSame) /\
  (pb_class f = PSame <-> (f = F_si_mode_info \/ f = F_si_public_key)) /\ In f all_fields.
Proof. intros f. split; [apply class_cases|]. split; [apply class_same_iff|apply all_fields_complete]. Qed.
Print Assumptions C19_protobuf_field_classes.

Theorem C19_protobuf_table_paths_distinct : NoDup (map fst pb_table).
Proof. exact pb_table_paths_distinct. Qed.
Print Assumptions C19_protobuf_table_paths_distinct.

(* the guard matters: without its extension-options term two documents that differ in body.extension_options hand the
   same legacy document to the renderer (the code as it is refuses the second) *)
Theorem C19_protobuf_ext_guard_needed :
  exists d1 d2 s,
    pb_decode_without_ext_guard N N (fun _ => true) (fun _ => true) d1 = Some s /\
    pb_decode_without_ext_guard N N (fun _ => true) (fun _ => true) d2 = Some s /\
    pb_get N N F_ext d1 <> pb_get N N F_ext d2 /\
    pb_decode N N (fun _ => true) (fun _ => true) d2 = None.
Proof. exact pb_decode_without_ext_guard_not_binding. Qed.
Print Assumptions C19_protobuf_ext_guard_needed.

(* non-vacuity: an accepted document, and one refused for each guard *)
Example C19_example_protobuf_doc :
  pb_decode N N (fun l => negb (is_nil l)) (fun _ => true) (ext_unbound_doc []) =
    Some (mkStd (bs "evermint_80808-1") 3 5 0 [] 200000 [7] []) /\
  pb_decode N N (fun l => negb (is_nil l)) (fun _ => true) (ext_unbound_doc [1]) = None /\
  pb_decode N N (fun l => negb (is_nil l)) (fun _ => true)
    (mkPb [7] [] 0 [] [] [mkSI None None 5] (Some (mkFee [] 200000 (bs "evm1payer") [])) None (bs "evermint_80808-1") 3) = None /\
  pb_decode N N (fun l => negb (is_nil l)) (fun _ => true)
    (mkPb [7] [] 0 [] [] [mkSI None None 5] (Some (mkFee [] 200000 [] [])) (Some (mkTip [] [])) (bs "evermint_80808-1") 3) = None /\
  pb_decode N N (fun l => negb (is_nil l)) (fun _ => true)
    (mkPb [7] [] 0 [] [] [mkSI None None 5; mkSI None None 5] (Some (mkFee [] 200000 [] [])) None (bs "evermint_80808-1") 3) = None /\
  pb_decode N N (fun l => negb (is_nil l)) (fun _ => true)
    (mkPb [7] [] 9 [] [] [mkSI None None 5] (Some (mkFee [] 200000 [] [])) None (bs "evermint_80808-1") 3) = None /\
  length pb_table = 19%nat.
Proof. vm_compute. repeat split; reflexivity. Qed.

(* ================================================================= 6. repeated members of an Amino-JSON sign document *)

(* The documents of section 4 are association LISTS (JObj of key/value pairs); the injectivity theorem is about documents
   whose objects do not repeat a key (doc_ok -> keys_ok -> dup_free).  That is exactly what the code guarantees: a
   document that repeats a member name at any depth is refused before anything is built
   (ethereum/eip712/duplicate_keys.go; gjson would read the first occurrence, the Amino codec the last). *)
Theorem C19_render_refuses_repeated_members : forall H j, dup_free j = false -> render_checked H j = None.
Proof. exact render_checked_refuses_repeated_members. Qed.
Print Assumptions C19_render_refuses_repeated_members.

Theorem C19_covered_documents_repeat_no_member : forall j, doc_ok j -> dup_free j = true.
Proof. intros j [K _]. apply keys_ok_dup_free. exact K. Qed.
Print Assumptions C19_covered_documents_repeat_no_member.

(* the injectivity statement for the rendering as the code does it (refusal first) *)
Theorem C19_render_checked_injective_json : forall H,
  (forall x, length (H x) = 32%nat) ->
  forall j1 j2 r, doc_ok j1 -> doc_ok j2 -> render_checked H j1 = Some r -> render_checked H j2 = Some r ->
  (exists c1 T1 m1 c2 T2 m2, doc_parts j1 = Some (c1, T1, m1) /\ doc_parts j2 = Some (c2, T2, m2) /\ jsame (JObj m1) (JObj m2))
  \/ collision H.
Proof. exact render_checked_injective_json. Qed.
Print Assumptions C19_render_checked_injective_json.

(* non-vacuity: the example document with a second "memo" / a second "msgs" member is refused, the document itself renders *)
Example C19_example_repeated_member :
  match C19_example_doc with
  | JObj l =>
      render_checked (fun _ => repeat 0 32) (JObj (l ++ [(bs "memo", JStr (bs "other"))])) = None /\
      render_checked (fun _ => repeat 0 32) (JObj (l ++ [(bs "msgs", JArr [])])) = None /\
      render_checked (fun _ => repeat 0 32) (JObj l) <> None
  | _ => False
  end.
Proof. vm_compute. repeat split; try reflexivity. discriminate. Qed.
