(* C13 — Per-block receipts, indices, cumulative gas and bloom are mutually consistent. *)
From Evm Require Import TxPipe TxPipeProofs.
Open Scope Z_scope.

(* For the Ethereum transaction at ANY position of ANY block (items before it: [pre]): if it reached execution
   (passed admission) its index is the number of earlier ones that did; if its execution was committed, its
   cumulative gas is its own gas plus the gas shown by all earlier ones (receipt gas, or the gas limit for those that
   failed after admission) and its first log index is the number of logs of all earlier committed executions.
   Hence indices 0,1,2,..., log indices consecutive without gaps or repeats, cumulative gas a running sum. *)
Theorem C13_block_numbering : forall s l pre x post,
  trace (begin_block s) l = pre ++ x :: post ->
  let '(_, _, o, r) := x in
  let '(n, g, lg) := shown_before pre in
  (passed (r_out r) = true -> r_tx_index r = n) /\
  (forall v, r_out r = Executed v -> r_cum_gas r = g + gas_shown r /\ r_log_start r = lg).
Proof. exact block_numbering. Qed.
Print Assumptions C13_block_numbering.

(* receipt status is 1 exactly when no VM error occurred *)
Theorem C13_status_iff_no_vm_error : forall s t o v,
  r_out (snd (deliver s t o)) = Executed v ->
  let r := snd (deliver s t o) in
  v = e_vmerr o /\ r_gas_used r = r_receipt_gas r /\ r_receipt_gas r = e_used o /\ r_gas_wanted r = t_gas t /\
  r_tx_index r = tx_count s /\ r_cum_gas r = cum_gas s + e_used o /\ r_log_start r = log_count s /\
  (r_status r = 1 <-> v = false) /\ (r_status r = 0 <-> v = true).
Proof. exact executed_result. Qed.
Print Assumptions C13_status_iff_no_vm_error.

(* bloom: with [bits] the bit positions go-ethereum derives from a log, the block bloom computed as the code does
   (CreateBloom over the receipts) sets exactly the bits of the logs of the block's receipts *)
Theorem C13_block_bloom_is_union : forall (log : Type) (bits : log -> list Z) (receipts : list (list log)) (z : Z),
  In z (block_bloom log bits receipts) <-> exists ls l, In ls receipts /\ In l ls /\ In z (bits l).
Proof. exact block_bloom_is_union. Qed.
Print Assumptions C13_block_bloom_is_union.

(* non-vacuity: three transactions, the middle one failing after admission: indices 0,1,2; cumulative 21000, -, 21000+30000+25000; logs 0.., 2.. *)
Example C13_example :
  let s := mkSt (fun a => if a =? 7 then 10^18 else 0) (fun _ => 0) (fun a => a =? 7) (fun _ => false)
                (5 * 10^18) 1000 0 0 0 0 0 0 false false in
  let t n g := mkTx 7 (Some 7) true false 2000 0 0 g n 0 false 21000 in
  let rs := snd (run (begin_block s) [Eth (t 0 50000) (mkOut 21000 false 2 [] 0 false);
                                      Eth (t 1 30000) (mkOut 0 false 0 [] 0 true);
                                      Eth (t 2 60000) (mkOut 25000 false 1 [] 0 false)]) in
  map (fun r => (r_tx_index r, r_cum_gas r, r_log_start r)) rs = [(0, 21000, 0); (1, -1, -1); (2, 76000, 2)].
Proof. vm_compute. reflexivity. Qed.
