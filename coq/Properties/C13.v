(* C13 — Per-block receipts, indices, cumulative gas and bloom are mutually consistent. *)
From Evm Require Import TxPipe TxPipeExt TxPipeProofs TxPipeDenom TxPipeDenomProofs TxPipeSeqProofs TxPipeSeqXProofs.
Open Scope Z_scope.

(* For the Ethereum transaction at ANY position of ANY block (items before it: [pre]): if it reached execution
   (passed admission) its index is the number of earlier ones that did; if its execution was committed, its
   cumulative gas is its own gas plus the gas shown by all earlier ones (receipt gas, or the gas limit for those that
   failed after admission) and its first log index is the number of logs of all earlier committed executions.
   Hence indices 0,1,2,..., log indices consecutive without gaps or repeats, cumulative gas a running sum. *)
Theorem C13_block_numbering : forall s l pre x post,
  trace (begin_block s) l = pre ++ x :: post ->
  let '(_, _, o, r) := x in
  let '(n, g, lg) := shown_before pre in
  (passed (r_out r) = true -> r_tx_index r = n) /\
  (forall v, r_out r = Executed v -> r_cum_gas r = g + gas_shown r /\ r_log_start r = lg).
Proof. exact block_numbering. Qed.
Print Assumptions C13_block_numbering.

(* receipt status is 1 exactly when no VM error occurred *)
Theorem C13_status_iff_no_vm_error : forall s t o v,
  r_out (snd (deliver s t o)) = Executed v ->
  let r := snd (deliver s t o) in
  v = e_vmerr o /\ r_gas_used r = r_receipt_gas r /\ r_receipt_gas r = e_used o /\ r_gas_wanted r = t_gas t /\
  r_tx_index r = tx_count s /\ r_cum_gas r = cum_gas s + e_used o /\ r_log_start r = log_count s /\
  (r_status r = 1 <-> v = false) /\ (r_status r = 0 <-> v = true).
Proof. exact executed_result. Qed.
Print Assumptions C13_status_iff_no_vm_error.

(* bloom: with [bits] the bit positions go-ethereum derives from a log, the block bloom computed as the code does
   (CreateBloom over the receipts) sets exactly the bits of the logs of the block's receipts *)
Theorem C13_block_bloom_is_union : forall (log : Type) (bits : log -> list Z) (receipts : list (list log)) (z : Z),
  In z (block_bloom log bits receipts) <-> exists ls l, In ls receipts /\ In l ls /\ In z (bits l).
Proof. exact block_bloom_is_union. Qed.
Print Assumptions C13_block_bloom_is_union.

(* each receipt's bloom covers exactly its own logs: abstractly over go-ethereum's bit function ... *)
Theorem C13_receipt_bloom_is_exact : forall (log : Type) (bits : log -> list Z) (ls : list log) (z : Z),
  In z (receipt_bloom log bits ls) <-> exists l, In l ls /\ In z (bits l).
Proof. exact receipt_bloom_is_exact. Qed.
Print Assumptions C13_receipt_bloom_is_exact.

(* ... and in the receipt model the driver compares with the observed receipt bloom (Model/TxPipeExt.v, a log = the
   list of bit positions derived from it): a bit is set exactly when one of the receipt's own logs sets it *)
Theorem C13_receipt_bloom_exact : forall t ca ls r x z,
  receipt_ext t ca ls r = Some x -> (In z (x_bloom x) <-> exists l, In l ls /\ In z l).
Proof. exact receipt_bloom_exact. Qed.
Print Assumptions C13_receipt_bloom_exact.

(* the block bloom of EndBlock is the union of the blooms of the block's receipts *)
Theorem C13_block_bloom_bits_union : forall rs z,
  In z (block_bloom_bits rs) <-> exists x, In (Some x) rs /\ In z (x_bloom x).
Proof. exact block_bloom_bits_union. Qed.
Print Assumptions C13_block_bloom_bits_union.

(* a created-contract address is reported exactly when the transaction is a creation whose execution was committed
   without VM error, and it is the CREATE address of (sender, nonce) - for ANY address function create_addr *)
Theorem C13_contract_address_iff : forall (create_addr : addr -> Z -> addr) s t o ls a,
  let r := snd (deliver s t o) in
  (exists x, receipt_ext t (create_addr (t_from t) (t_nonce t)) ls r = Some x /\ x_contract x = Some a)
  <-> (t_create t = true /\ r_out r = Executed false /\ a = create_addr (t_from t) (t_nonce t)).
Proof. exact contract_address_iff. Qed.
Print Assumptions C13_contract_address_iff.

(* only committed executions have a receipt at all *)
Theorem C13_receipt_iff_executed : forall s t o ls ca,
  let r := snd (deliver s t o) in
  (exists x, receipt_ext t ca ls r = Some x) <-> (exists v, r_out r = Executed v).
Proof. exact receipt_iff_executed. Qed.
Print Assumptions C13_receipt_iff_executed.

(* non-vacuity: three transactions, the middle one failing after admission: indices 0,1,2; cumulative 21000, -, 21000+30000+25000; logs 0.., 2.. *)
Example C13_example :
  let s := mkSt (fun a => if a =? 7 then 10^18 else 0) (fun _ => 0) (fun a => a =? 7) (fun _ => false)
                (5 * 10^18) 1000 0 0 0 0 0 0 false false in
  let t n g := mkTx 7 (Some 7) true false 2000 0 0 g n 0 false 21000 in
  let rs := snd (run (begin_block s) [Eth (t 0 50000) (mkOut 21000 false 2 [] 0 false);
                                      Eth (t 1 30000) (mkOut 0 false 0 [] 0 true);
                                      Eth (t 2 60000) (mkOut 25000 false 1 [] 0 false)]) in
  map (fun r => (r_tx_index r, r_cum_gas r, r_log_start r)) rs = [(0, 21000, 0); (1, -1, -1); (2, 76000, 2)].
Proof. vm_compute. reflexivity. Qed.

(* non-vacuity of the receipt extension: a successful creation reports address 77 and the bits of its two logs; the
   same creation failing in the VM reports no address; a creation failing after admission has no receipt *)
Example C13_example_receipt :
  let s := mkSt (fun a => if a =? 7 then 10^18 else 0) (fun _ => 0) (fun a => a =? 7) (fun _ => false)
                (5 * 10^18) 1000 0 0 0 0 0 0 false false in
  let t v := mkTx 7 (Some 7) true false 2000 0 0 90000 0 v true 53000 in
  let rx v o ls := receipt_ext (t v) 77 ls (snd (deliver s (t v) o)) in
  rx 0 (mkOut 60000 false 2 [] 0 false) [[3; 100; 2047]; [3; 5; 9]] = Some (mkRext (Some 77) [3; 100; 2047; 3; 5; 9]) /\
  rx 0 (mkOut 90000 true 0 [] 0 false) [] = Some (mkRext None []) /\
  rx (10^18) (mkOut 60000 false 0 [] 0 false) [] = None.
Proof. vm_compute. repeat split; reflexivity. Qed.

(* ------------------------------------------------------------------ blocks containing executions aborted by a panic
   (Model/TxPipeExt.v deliver_panic): such a transaction reached execution - it owns the next index - and has no receipt;
   the receipts after it count its whole gas limit in their cumulative gas, and no log *)
Theorem C13_x_block_numbering : forall s l pre x post,
  tx_count (d_core s) = 0 -> cum_gas (d_core s) = 0 -> log_count (d_core s) = 0 ->
  xtrace s l = pre ++ x :: post ->
  let '(_, _, o, r) := x in
  let '(n, g, lg) := shown_before pre in
  (passed (r_out r) = true -> r_tx_index r = n) /\
  (forall v, r_out r = Executed v -> r_cum_gas r = g + gas_shown r /\ r_log_start r = lg).
Proof. exact x_block_numbering. Qed.
Print Assumptions C13_x_block_numbering.

Theorem C13_aborted_no_receipt : forall s t gu ca ls, receipt_ext t ca ls (snd (deliver_panic s t gu)) = None.
Proof. exact panic_no_receipt. Qed.
Print Assumptions C13_aborted_no_receipt.

(* non-vacuity: three transactions, the middle one aborted: indices 0,1,2; cumulative 21000, -, 21000+30000+25000; logs 0.., 2.. *)
Example C13_example_aborted :
  let c := mkSt (fun a => if a =? 7 then 10^18 else 0) (fun _ => 0) (fun a => a =? 7) (fun _ => false)
                (5 * 10^18) 1000 0 0 0 0 0 0 false false in
  let s := mkDst (begin_block c) (mkLedger (fun _ _ => 0) (fun _ => 0)) in
  let t n g := mkTx 7 (Some 7) true false 2000 0 0 g n 0 false 21000 in
  let rs := snd (xrun s [XItem (DEth (t 0 50000) (mkOut 21000 false 2 [] 0 false) (mkDx [] []));
                         XPanic (t 1 30000) 0;
                         XItem (DEth (t 2 60000) (mkOut 25000 false 1 [] 0 false) (mkDx [] []))]) in
  map (fun r => (r_tx_index r, r_cum_gas r, r_log_start r)) rs = [(0, 21000, 0); (1, -1, -1); (2, 76000, 2)].
Proof. vm_compute. reflexivity. Qed.

(* ------------------------------------------------------------------ the whole block at once (Proofs/TxPipeSeqProofs.v):
   the LIST of Ethereum indices shown by the transactions of a block that reached execution is 0,1,2,...,k-1 in block
   order (zrange a n = a, a+1, ..., a+n-1), for every block: any state, any items, any execution results *)
Theorem C13_block_indices_are_0_1_2 : forall s l,
  let tr := trace (begin_block s) l in
  shown_indices tr = zrange 0 (Z.of_nat (length (reached tr))).
Proof. exact block_indices_are_0_1_2. Qed.
Print Assumptions C13_block_indices_are_0_1_2.

(* the log indices owned by the receipts of a block (receipt k: its first log index .. + its number of logs - 1), read
   in block order, are 0,1,...,total-1: consecutive across the whole block, no gap, no repeat.  The only hypothesis:
   an execution never reports a negative number of logs. *)
Theorem C13_block_log_ids_consecutive : forall s l,
  let tr := trace (begin_block s) l in
  Forall (fun x : entry => 0 <= e_logs (snd (fst x))) tr ->
  shown_log_ids tr = zrange 0 (total_logs tr) /\ NoDup (shown_log_ids tr) /\
  (forall z, In z (shown_log_ids tr) <-> 0 <= z < total_logs tr).
Proof. exact block_log_ids_consecutive. Qed.
Print Assumptions C13_block_log_ids_consecutive.

(* non-vacuity: the block of C13_example: indices [0;1;2]; logs 0,1 (first receipt) and 2 (third), none for the failed one *)
Example C13_example_sequences :
  let s := mkSt (fun a => if a =? 7 then 10^18 else 0) (fun _ => 0) (fun a => a =? 7) (fun _ => false)
                (5 * 10^18) 1000 0 0 0 0 0 0 false false in
  let t n g := mkTx 7 (Some 7) true false 2000 0 0 g n 0 false 21000 in
  let tr := trace (begin_block s) [Eth (t 0 50000) (mkOut 21000 false 2 [] 0 false);
                                   Eth (t 1 30000) (mkOut 0 false 0 [] 0 true);
                                   Eth (t 2 60000) (mkOut 25000 false 1 [] 0 false)] in
  shown_indices tr = [0; 1; 2] /\ shown_log_ids tr = [0; 1; 2] /\ total_logs tr = 3.
Proof. vm_compute. repeat split; reflexivity. Qed.

(* the same two sequences for blocks that also contain executions aborted by a panic (they own an index, have no
   receipt and no log) and transactions of the Cosmos lane *)
Theorem C13_x_block_indices_are_0_1_2 : forall s l,
  tx_count (d_core s) = 0 ->
  shown_indices (xtrace s l) = zrange 0 (Z.of_nat (length (reached (xtrace s l)))).
Proof. exact x_block_indices_are_0_1_2. Qed.
Print Assumptions C13_x_block_indices_are_0_1_2.

Theorem C13_x_block_log_ids_consecutive : forall s l,
  log_count (d_core s) = 0 ->
  Forall (fun x : entry => 0 <= e_logs (snd (fst x))) (xtrace s l) ->
  shown_log_ids (xtrace s l) = zrange 0 (total_logs (xtrace s l)) /\ NoDup (shown_log_ids (xtrace s l)) /\
  (forall z, In z (shown_log_ids (xtrace s l)) <-> 0 <= z < total_logs (xtrace s l)).
Proof. exact x_block_log_ids_consecutive. Qed.
Print Assumptions C13_x_block_log_ids_consecutive.

(* non-vacuity: the block of C13_example_aborted: the aborted execution owns index 1 and no log index *)
Example C13_example_sequences_aborted :
  let c := mkSt (fun a => if a =? 7 then 10^18 else 0) (fun _ => 0) (fun a => a =? 7) (fun _ => false)
                (5 * 10^18) 1000 0 0 0 0 0 0 false false in
  let s := mkDst (begin_block c) (mkLedger (fun _ _ => 0) (fun _ => 0)) in
  let t n g := mkTx 7 (Some 7) true false 2000 0 0 g n 0 false 21000 in
  let tr := xtrace s [XItem (DEth (t 0 50000) (mkOut 21000 false 2 [] 0 false) (mkDx [] []));
                      XPanic (t 1 30000) 0;
                      XItem (DEth (t 2 60000) (mkOut 25000 false 1 [] 0 false) (mkDx [] []))] in
  shown_indices tr = [0; 1; 2] /\ shown_log_ids tr = [0; 1; 2] /\ total_logs tr = 3.
Proof. vm_compute. repeat split; reflexivity. Qed.
