(* C18 — Genesis export / import round-trips the custom modules' state.
   Statements only; proofs are in Proofs/GenesisProofs.v, the model (x/evm, x/feemarket, x/cpc, x/vauth genesis code as it
   is, x/evm with the repair of commit 3522bb5) in Model/Genesis.v.

   `wfb v s` is the decidable invariant of the module stores (iterator order, every code-hash entry has its code);
   it is (a) proved for every state reachable from ANY genesis document by ANY history of store operations
   (C18_reachable_invariant) and (b) evaluated by the correspondence checker on every store content the driver
   reads from a real application.  `consts_ok k`: the two fixed precompile addresses differ. *)
From Evm Require Import Genesis GenesisProofs.
From Coq Require Import Lia.
Open Scope Z_scope.

(* ------------------------------------------------------------------ export . import . export = export *)
Theorem C18_export_import_export : forall k v s s',
  wfb v s = true -> consts_ok k ->
  import k v (export k s) = Ok s' -> export k s' = export k s.
Proof. exact eie_b. Qed.
Print Assumptions C18_export_import_export.

(* the same over histories: any genesis document (all flag combinations, any accounts), any operation sequence -
   among the operations: fee-market params set by governance to ANY valid value (OFm: integral, fractional, zero, huge
   min gas price; any base fee) and EndBlock applying its floor trunc(min gas price) (OEndBlock) *)
Theorem C18_history_roundtrip : forall k v g ops s0 s',
  v_hash v CODE_EMPTY = EMPTYH -> consts_ok k -> import k v g = Ok s0 ->
  import k v (export k (run k v ops s0)) = Ok s' ->
  export k s' = export k (run k v ops s0) /\
  e_params (s_evm s') = e_params (s_evm (run k v ops s0)) /\
  e_codehash (s_evm s') = e_codehash (s_evm (run k v ops s0)) /\
  e_storage (s_evm s') = e_storage (s_evm (run k v ops s0)) /\
  (forall a, q_code (s_evm s') a = q_code (s_evm (run k v ops s0)) a) /\
  s_fm s' = s_fm (run k v ops s0).
Proof. exact history_roundtrip. Qed.
Print Assumptions C18_history_roundtrip.

Theorem C18_reachable_invariant : forall k v g ops s0,
  v_hash v CODE_EMPTY = EMPTYH -> import k v g = Ok s0 -> wfb v (run k v ops s0) = true.
Proof. exact reachable_wfb. Qed.
Print Assumptions C18_reachable_invariant.

(* the re-imported state meets the invariant again and is a fixed point of export ; import *)
Theorem C18_roundtrip_invariant : forall k v s s',
  wfb v s = true -> consts_ok k -> import k v (export k s) = Ok s' -> wfb v s' = true.
Proof. exact roundtrip_wfb. Qed.
Print Assumptions C18_roundtrip_invariant.

Theorem C18_roundtrip_fixpoint : forall k v s s',
  wfb v s = true -> consts_ok k -> import k v (export k s) = Ok s' -> import k v (export k s') = Ok s'.
Proof. exact roundtrip_fixpoint. Qed.
Print Assumptions C18_roundtrip_fixpoint.

(* InitChain on an export fails only if x/auth did not hand over a BaseAccount for an exported address (the fee-market
   params of a reachable state are valid: part of the invariant wfb, C18_reachable_invariant) *)
Theorem C18_import_of_export_succeeds : forall k v s, consts_ok k -> fm_valid (s_fm s) = true ->
  (forall g, In g (export_evm (s_evm s)) -> v_base_acct v (ga_addr g) = true) ->
  exists s', import k v (export k s) = Ok s'.
Proof. exact import_export_total. Qed.
Print Assumptions C18_import_of_export_succeeds.

Theorem C18_import_of_export_panics : forall k v s g,
  In g (export_evm (s_evm s)) -> v_base_acct v (ga_addr g) = false -> import k v (export k s) = Panic.
Proof. exact import_export_panic. Qed.
Print Assumptions C18_import_of_export_panics.

(* ------------------------------------------------------------------ the account environment of the custom modules
   x/auth and x/bank restore every exported account BEFORE the custom modules initialise.  The only precondition the
   import of an EXPORT has on that environment is the one of C18_import_of_export_succeeds (a BaseAccount at every
   exported contract / storage owner).  In particular NO condition on the addresses the precompiles are re-deployed
   to: whoever sent coins to the bech32 / staking precompile address (which creates an account there), whatever a
   genesis file lists there, the import is the same. *)
Theorem C18_import_of_export_environment : forall k v v' s,
  (forall c, v_hash v c = v_hash v' c) ->
  (forall g, In g (export_evm (s_evm s)) -> v_acct v (ga_addr g) = v_acct v' (ga_addr g)) ->
  import k v (export k s) = import k v' (export k s).
Proof. exact import_export_env. Qed.
Print Assumptions C18_import_of_export_environment.

Theorem C18_import_of_export_ignores_other_accounts : forall k v s a kd,
  (forall g, In g (export_evm (s_evm s)) -> ga_addr g <> a) ->
  import k (with_acct v a kd) (export k s) = import k v (export k s).
Proof. exact import_export_with_acct. Qed.
Print Assumptions C18_import_of_export_ignores_other_accounts.

(* any genesis document: x/cpc InitGenesis consults the environment only when DeployErc20Native is set, and then
   only the next dynamic address, the bond supply and the kind of the account at the cpc module address *)
Theorem C18_import_cpc_environment : forall k v v' g,
  (g_erc20_native g = true ->
   v_next_dyn v = v_next_dyn v' /\ v_bond_supply_pos v = v_bond_supply_pos v' /\
   v_acct v (k_module_addr k) = v_acct v' (k_module_addr k)) ->
  import_cpc k v g = import_cpc k v' g.
Proof. exact import_cpc_env. Qed.
Print Assumptions C18_import_cpc_environment.

(* the one environment precondition of x/cpc InitGenesis: with DeployErc20Native, the account at the cpc module address
   (if any) must be a module account - AccountKeeper.GetModuleAccount panics otherwise *)
Theorem C18_import_native_needs_module_account : forall k v g,
  g_erc20_native g = true -> macc_ok k v = false -> import k v g = Panic.
Proof. exact import_native_needs_module_account. Qed.
Print Assumptions C18_import_native_needs_module_account.

(* ------------------------------------------------------------------ per module *)
(* evm: params, the code-hash store, the whole storage store (zero-valued slots and slots of code-less accounts
   included) are identical; the code of every account reads the same *)
Theorem C18_roundtrip_evm : forall k v s s',
  wfb v s = true -> consts_ok k -> import k v (export k s) = Ok s' ->
  e_params (s_evm s') = e_params (s_evm s) /\
  e_codehash (s_evm s') = e_codehash (s_evm s) /\
  e_storage (s_evm s') = e_storage (s_evm s) /\
  (forall a, q_code (s_evm s') a = q_code (s_evm s) a) /\
  (forall a slot, q_storage (s_evm s') a slot = q_storage (s_evm s) a slot).
Proof. exact roundtrip_evm_b. Qed.
Print Assumptions C18_roundtrip_evm.

(* fee market: params including the current base fee *)
Theorem C18_roundtrip_feemarket : forall k v s s', consts_ok k ->
  import k v (export k s) = Ok s' -> s_fm s' = s_fm s.
Proof. exact roundtrip_feemarket. Qed.
Print Assumptions C18_roundtrip_feemarket.

(* InitGenesis never alters the fee-market params it is given, for ALL values: integral or fractional min gas price
   (carried as value * 10^18), base fee below, on or above trunc(min gas price), zero, huge.  No clamp, no rounding. *)
Theorem C18_feemarket_import_identity : forall k v g s,
  import k v g = Ok s -> s_fm s = g_fm g /\ fm_valid (g_fm g) = true.
Proof.
  intros k v g s H. unfold import in H.
  destruct (import_accts v (Evm (g_evm_params g) [] [] []) (g_accounts g)); [|discriminate].
  destruct (import_cpc k v g); [|discriminate].
  destruct (import_fm (g_fm g)) as [f|] eqn:Ef; [|discriminate].
  inversion H; subst s. cbn [s_fm]. exact (import_fm_id _ _ Ef).
Qed.
Print Assumptions C18_feemarket_import_identity.

(* a document with a negative base fee or a negative min gas price is refused (SetParams validates) *)
Theorem C18_import_rejects_invalid_feemarket : forall k v g, fm_valid (g_fm g) = false -> import k v g = Panic.
Proof. exact import_fm_invalid. Qed.
Print Assumptions C18_import_rejects_invalid_feemarket.

(* over blocks: params set by governance (any valid value), then EndBlock with any outcome of the EIP-1559 formula:
   the base fee the block leaves - max next trunc(min gas price), i.e. possibly sitting exactly on the floor of a
   FRACTIONAL min gas price - is what the re-imported chain holds *)
Theorem C18_feemarket_endblock_roundtrip : forall k v s f next s',
  consts_ok k -> fm_valid f = true -> 0 <= next ->
  import k v (export k (apply_op k v (apply_op k v s (OFm f)) (OEndBlock next))) = Ok s' ->
  s_fm s' = Fm (Z.max next (fm_floor f)) (f_min_gas_price f) /\
  fm_floor (s_fm s') <= f_base_fee (s_fm s') /\ fm_floor (s_fm s') = fm_floor f.
Proof. exact feemarket_endblock_roundtrip. Qed.
Print Assumptions C18_feemarket_endblock_roundtrip.

(* cpc: FALSE of the faithful model (known findings C18/genesis/cpc-...) *)
Definition C18_roundtrip_cpc_full : Prop := forall k v s s',
  wfb v s = true -> consts_ok k -> import k v (export k s) = Ok s' -> s_cpc s' = s_cpc s.

Definition k0 : cpc_consts := CC 100 200 (Meta 1 11) (Meta 2 22) (Meta 3 33) 7 400.
(* a BaseAccount at EVERY address (the precompile addresses 100, 200, 300 included), the module account at 400 *)
Definition v0 : env := Env (fun c => if c =? CODE_EMPTY then EMPTYH else c + 1000) (fun a => if a =? 400 then AModule else ABase) 300 true.
Example k0_ok : consts_ok k0. Proof. cbv. discriminate. Qed.

(* an allowance *)
Definition w_allow : cstate := St (Evm 0 [] [] []) (Fm 7 0) (Cpc 0 [(200, Meta 3 33)] [] [(akey 1 2, 5)]) [].
Theorem C18_roundtrip_cpc_full_refuted : ~ C18_roundtrip_cpc_full.
Proof.
  intros H. destruct (import k0 v0 (export k0 w_allow)) as [s'|] eqn:E; [|vm_compute in E; discriminate].
  pose proof (H k0 v0 w_allow s' eq_refl k0_ok E) as H1. vm_compute in E. inversion E; subst s'. vm_compute in H1. discriminate.
Qed.
Print Assumptions C18_roundtrip_cpc_full_refuted.

(* strongest true statements about cpc: the round trip is the identity exactly on the states a genesis with
   DeployErc20Native = false produces; in every case params, the bech32 precompile and the presence of the staking
   precompile survive, everything else (ERC-20 precompiles, denom index, allowances, staking metadata) is reset *)
Theorem C18_roundtrip_cpc_iff : forall k v s s', consts_ok k ->
  import k v (export k s) = Ok s' -> (s_cpc s' = s_cpc s <-> cpc_genesis_shaped k (s_cpc s)).
Proof. exact roundtrip_cpc_iff. Qed.
Print Assumptions C18_roundtrip_cpc_iff.

Theorem C18_roundtrip_cpc_partial : forall k v s s', consts_ok k ->
  import k v (export k s) = Ok s' ->
  c_params (s_cpc s') = c_params (s_cpc s) /\
  zget (k_bech32_addr k) (c_metas (s_cpc s')) = Some (k_bech32_meta k) /\
  zhas (k_staking_addr k) (c_metas (s_cpc s')) = zhas (k_staking_addr k) (c_metas (s_cpc s)) /\
  (forall a m, zget a (c_metas (s_cpc s')) = Some m -> a = k_bech32_addr k \/ a = k_staking_addr k /\ m = k_staking_meta k) /\
  c_denoms (s_cpc s') = [] /\ c_allow (s_cpc s') = [].
Proof. exact roundtrip_cpc_partial. Qed.
Print Assumptions C18_roundtrip_cpc_partial.

(* vauth: FALSE of the faithful model (known finding C18/genesis/vauth-proofs-lost) *)
Definition C18_roundtrip_vauth_full : Prop := forall k v s s',
  wfb v s = true -> consts_ok k -> import k v (export k s) = Ok s' -> s_proofs s' = s_proofs s.
Definition w_proof : cstate := St (Evm 0 [] [] []) (Fm 7 0) (Cpc 0 [(200, Meta 3 33)] [] []) [(5, 9)].
Theorem C18_roundtrip_vauth_full_refuted : ~ C18_roundtrip_vauth_full.
Proof.
  intros H. destruct (import k0 v0 (export k0 w_proof)) as [s'|] eqn:E; [|vm_compute in E; discriminate].
  pose proof (H k0 v0 w_proof s' eq_refl k0_ok E) as H1. vm_compute in E. inversion E; subst s'. vm_compute in H1. discriminate.
Qed.
Print Assumptions C18_roundtrip_vauth_full_refuted.

Theorem C18_roundtrip_vauth_iff : forall k v s s', consts_ok k ->
  import k v (export k s) = Ok s' -> (s_proofs s' = s_proofs s <-> s_proofs s = []).
Proof. exact roundtrip_vauth_iff. Qed.
Print Assumptions C18_roundtrip_vauth_iff.

(* ------------------------------------------------------------------ everything observable at once *)
Definition C18_roundtrip_obs_full : Prop := forall k v s s',
  wfb v s = true -> consts_ok k -> import k v (export k s) = Ok s' -> obs_eq s s'.
Theorem C18_roundtrip_obs_full_refuted : ~ C18_roundtrip_obs_full.
Proof.
  intros H. destruct (import k0 v0 (export k0 w_proof)) as [s'|] eqn:E; [|vm_compute in E; discriminate].
  pose proof (H k0 v0 w_proof s' eq_refl k0_ok E) as (_ & _ & _ & _ & _ & _ & H1).
  vm_compute in E. inversion E; subst s'. vm_compute in H1. discriminate.
Qed.
Print Assumptions C18_roundtrip_obs_full_refuted.

(* the exact gap: all observables survive iff cpc holds nothing but what a flag-less genesis deploys and vauth is empty *)
Theorem C18_roundtrip_obs_partial : forall k v s s',
  wfb v s = true -> consts_ok k -> import k v (export k s) = Ok s' ->
  (obs_eq s s' <-> cpc_genesis_shaped k (s_cpc s) /\ s_proofs s = []).
Proof. exact roundtrip_obs_iff. Qed.
Print Assumptions C18_roundtrip_obs_partial.

(* the exported document is a function of the observable state (orphaned code of destroyed contracts does not leak) *)
Theorem C18_export_depends_on_observables_only : forall k v s1 s2, wfb v s1 = true ->
  e_params (s_evm s1) = e_params (s_evm s2) -> e_codehash (s_evm s1) = e_codehash (s_evm s2) ->
  e_storage (s_evm s1) = e_storage (s_evm s2) -> (forall a, q_code (s_evm s1) a = q_code (s_evm s2) a) ->
  s_fm s1 = s_fm s2 -> c_params (s_cpc s1) = c_params (s_cpc s2) ->
  zhas (k_staking_addr k) (c_metas (s_cpc s1)) = zhas (k_staking_addr k) (c_metas (s_cpc s2)) ->
  export k s1 = export k s2.
Proof. exact export_observable. Qed.
Print Assumptions C18_export_depends_on_observables_only.

(* ------------------------------------------------------------------ non-vacuity and witnesses *)
(* a contract (code 5) with a zero-valued and a non-zero slot, a code-less account (20) holding a slot, an orphaned
   code (6) of a destroyed contract; staking precompile as genesis deploys it *)
Definition ex_state : cstate :=
  St (Evm 42 [(10, 1005)] [(1005, 5); (1006, 6)] [(skey 10 0, 0); (skey 10 3, 9); (skey 20 1, 4)])
     (Fm 1000000007 3) (Cpc 1 [(100, Meta 2 22); (200, Meta 3 33)] [] []) [].
Example C18_example_roundtrip :
  wfb v0 ex_state = true /\
  export_evm (s_evm ex_state) = [GA 10 5 [(0, 0); (3, 9)]; GA 20 0 [(1, 4)]] /\
  (exists s', import k0 v0 (export k0 ex_state) = Ok s' /\ obs_eq ex_state s' /\ export k0 s' = export k0 ex_state /\
              e_code (s_evm s') = [(1005, 5)]) /\
  cpc_genesis_shaped k0 (s_cpc ex_state).
Proof.
  split; [vm_compute; reflexivity|]. split; [vm_compute; reflexivity|]. split.
  - eexists. split; [vm_compute; reflexivity|]. split; [|split; vm_compute; reflexivity].
    assert (Hw : wfb v0 ex_state = true) by (vm_compute; reflexivity).
    assert (Hi : import k0 v0 (export k0 ex_state) =
                 Ok (St (Evm 42 [(10, 1005)] [(1005, 5)] [(skey 10 0, 0); (skey 10 3, 9); (skey 20 1, 4)])
                        (Fm 1000000007 3) (Cpc 1 [(100, Meta 2 22); (200, Meta 3 33)] [] []) [])) by (vm_compute; reflexivity).
    apply (proj2 (roundtrip_obs_iff k0 v0 _ _ Hw k0_ok Hi)). split; [|reflexivity]. vm_compute. auto.
  - vm_compute. auto.
Qed.

(* a history from a genesis with both flags: deploy, write (incl. zero), code-less storage, destroy, ERC-20 by message,
   approvals (set, clear), proof; the hypotheses of C18_history_roundtrip are met and the cpc / vauth losses show *)
Definition ex_ops : list op :=
  [OSetCode 10 5; OSetState 10 0 0; OSetState 10 3 9; OSetState 20 1 4; OSetCode 11 6; OSetState 11 2 2; ODestroy 11;
   ODeployErc20 301 8 (Meta 1 99); OApprove 1 2 500; OApprove 1 3 7; OApprove 1 3 0; OProof 5 9; OFm (Fm 12345 3); OFm (Fm 12345 (7 * DEC + DEC / 4)); OEndBlock 3; OFm (Fm (-1) 0)].
Definition ex_genesis : gen := Gen 42 [] (Fm 1000000000 0) 1 true true.
Example C18_example_history :
  exists s0 s', import k0 v0 ex_genesis = Ok s0 /\
    import k0 v0 (export k0 (run k0 v0 ex_ops s0)) = Ok s' /\
    e_storage (s_evm s') = [(skey 10 0, 0); (skey 10 3, 9); (skey 20 1, 4)] /\
    c_metas (s_cpc (run k0 v0 ex_ops s0)) = [(100, Meta 2 22); (200, Meta 3 33); (300, Meta 1 11); (301, Meta 1 99)] /\
    c_allow (s_cpc (run k0 v0 ex_ops s0)) = [(akey 1 2, 500)] /\
    c_metas (s_cpc s') = [(100, Meta 2 22); (200, Meta 3 33)] /\ c_allow (s_cpc s') = [] /\ s_proofs s' = [] /\
    s_fm s' = Fm 7 (7 * DEC + DEC / 4).
Proof. eexists. eexists. split; [vm_compute; reflexivity|]. split; [vm_compute; reflexivity|]. vm_compute. repeat split; reflexivity. Qed.

(* min gas price 1000000000.5 set by governance, idle chain: EndBlock leaves the base fee on the floor 1000000000 and the
   re-imported chain holds 1000000000 - not ceil(1000000000.5) = 1000000001 *)
Example C18_example_fractional_min_gas_price :
  let f := Fm 1000000007 (1000000000 * DEC + DEC / 2) in
  fm_valid f = true /\ fm_floor f = 1000000000 /\
  import k0 v0 (export k0 (run k0 v0 [OFm f; OEndBlock 875000006] w_proof)) =
  Ok (St (Evm 0 [] [] []) (Fm 1000000000 (1000000000 * DEC + DEC / 2)) (Cpc 0 [(200, Meta 3 33)] [] []) []).
Proof. vm_compute. repeat split; reflexivity. Qed.
Example C18_example_invalid_feemarket_refused :
  import k0 v0 (Gen 0 [] (Fm (-1) 0) 0 false false) = Panic /\ import k0 v0 (Gen 0 [] (Fm 0 (-1)) 0 false false) = Panic /\
  import k0 v0 (Gen 0 [] (Fm 0 0) 0 false false) = Ok (St (Evm 0 [] [] []) (Fm 0 0) (Cpc 0 [(200, Meta 3 33)] [] []) []).
Proof. vm_compute. repeat split; reflexivity. Qed.

(* witnesses of the other known findings: ERC-20 precompile deployed by message, native ERC-20 deployed by the genesis
   flag (the exported flag is false), staking precompile deployed by message with its own symbol / decimals *)
Example C18_witness_erc20_by_message :
  import k0 v0 (export k0 (St (Evm 0 [] [] []) (Fm 7 0) (Cpc 0 [(200, Meta 3 33); (300, Meta 1 99)] [(8, 300)] []) []))
  = Ok (St (Evm 0 [] [] []) (Fm 7 0) (Cpc 0 [(200, Meta 3 33)] [] []) []).
Proof. vm_compute. reflexivity. Qed.
Example C18_witness_native_by_flag :
  exists s0 s', import k0 v0 (Gen 0 [] (Fm 7 0) 0 true false) = Ok s0 /\
    c_denoms (s_cpc s0) = [(7, 300)] /\ g_erc20_native (export k0 s0) = false /\
    import k0 v0 (export k0 s0) = Ok s' /\ c_denoms (s_cpc s') = [] /\ zget 300 (c_metas (s_cpc s')) = None.
Proof. eexists. eexists. split; [vm_compute; reflexivity|]. vm_compute. repeat split; reflexivity. Qed.
Example C18_witness_staking_metadata_reset :
  import k0 v0 (export k0 (St (Evm 0 [] [] []) (Fm 7 0) (Cpc 0 [(100, Meta 2 77); (200, Meta 3 33)] [] []) []))
  = Ok (St (Evm 0 [] [] []) (Fm 7 0) (Cpc 0 [(100, Meta 2 22); (200, Meta 3 33)] [] []) []).
Proof. vm_compute. reflexivity. Qed.

(* the account environment: an account of every kind (or none) at the bech32 address 200, the staking address 100 and the
   next dynamic address 300 - the import of the export is the same state *)
Example C18_example_accounts_at_precompile_addresses :
  forall kd1 kd2 kd3,
  import k0 (with_acct (with_acct (with_acct v0 200 kd1) 100 kd2) 300 kd3) (export k0 ex_state) = import k0 v0 (export k0 ex_state) /\
  exists s', import k0 v0 (export k0 ex_state) = Ok s'.
Proof.
  intros kd1 kd2 kd3. split; [|eexists; vm_compute; reflexivity].
  assert (D : forall a, a = 100 \/ a = 200 \/ a = 300 -> forall g, In g (export_evm (s_evm ex_state)) -> ga_addr g <> a).
  { intros a Ha g Hg. vm_compute in Hg. destruct Hg as [Hg|[Hg|[]]]; subst g; cbn [ga_addr]; lia. }
  assert (E : forall v, (forall c, v_hash v c = v_hash v0 c) ->
              (forall g, In g (export_evm (s_evm ex_state)) -> v_acct v (ga_addr g) = v_acct v0 (ga_addr g)) ->
              import k0 v (export k0 ex_state) = import k0 v0 (export k0 ex_state)).
  { intros v Hh Ha. apply import_export_env; assumption. }
  apply E; [reflexivity|]. intros g Hg. unfold with_acct. cbn [v_acct].
  pose proof (D 100 (or_introl eq_refl) g Hg). pose proof (D 200 (or_intror (or_introl eq_refl)) g Hg).
  pose proof (D 300 (or_intror (or_intror eq_refl)) g Hg).
  destruct (ga_addr g =? 300) eqn:E3; [lia|]. destruct (ga_addr g =? 100) eqn:E1; [lia|].
  destruct (ga_addr g =? 200) eqn:E2; [lia|]. reflexivity.
Qed.
(* a genesis with DeployErc20Native and a BaseAccount (someone's coins) at the cpc module address is refused; a vesting
   account at an exported contract address is refused *)
Example C18_example_environment_preconditions :
  import k0 (with_acct v0 400 ABase) ex_genesis = Panic /\ import k0 (with_acct v0 400 ANone) ex_genesis <> Panic /\
  import k0 (with_acct v0 10 AVesting) (export k0 ex_state) = Panic.
Proof. split; [vm_compute; reflexivity|]. split; [vm_compute; discriminate|vm_compute; reflexivity]. Qed.
