(* C01 — Block execution is a deterministic function of prior state and block.
   Statements only; the model is Model/Nondet.v (with Model/Destroy.v for the StateDB operations), proofs are in
   Proofs/NondetProofs.v.

   [exec_block interp im e s b]: one block [b] = (header, transactions) executed from chain state [s] by the
   implementation [im] ([impl_head] = /repo HEAD) under the ambient conditions [e : nenv] = wall clock, the order in
   which Go enumerates each map at each iteration site, the node's minimum-gas-prices, the node's evm.tracer,
   GOMAXPROCS, the node's telemetry switch, and a component standing for every other node-local setting (app.toml,
   config.toml, start flags).  Output: next state, per-transaction results (code, gas wanted, gas used, events in order), validator
   updates.  [interp] — the go-ethereum interpreter with TransitionDb, as the list of StateDB calls it makes, the gas
   figures and the VM error — may be ANY function of header, state and transaction; it does not get [e].
   Block time and height are fields of the header. *)
From Coq Require Import ZArith List Bool Sorting.Permutation Sorting.Sorted.
From Evm Require Import Destroy Nondet NondetProofs.
From Evm Require BaseFee.
Import ListNotations.
Open Scope Z_scope.

(* ---- 1. the property: same state, same block => same everything, whatever the wall clock, the map seeds, the node
        configuration and the number of processors; for every interpreter, state, block *)
Theorem C01_block_env_independent : forall interp e1 e2 s b,
  perm_ok e1 -> perm_ok e2 ->
  exec_block interp impl_head e1 s b = exec_block interp impl_head e2 s b.
Proof. intros. apply exec_block_env_independent; apply perm_enum; assumption. Qed.
Print Assumptions C01_block_env_independent.

(* the same under the weaker assumption on map iteration that every key shows up (any order, any multiplicity) *)
Theorem C01_block_enum_independent : forall interp e1 e2 s b,
  enum_ok e1 -> enum_ok e2 ->
  exec_block interp impl_head e1 s b = exec_block interp impl_head e2 s b.
Proof. exact exec_block_env_independent. Qed.
Print Assumptions C01_block_enum_independent.

(* ---- 2. over all finite histories, every block of each execution under its own ambient conditions (another instant,
        another process after a restart, other seeds, another configuration): same final state, same results,
        same validator updates block by block *)
Theorem C01_history_env_independent : forall interp ef1 ef2 bs s,
  (forall n, perm_ok (ef1 n)) -> (forall n, perm_ok (ef2 n)) ->
  exec_chain interp impl_head ef1 0 s bs = exec_chain interp impl_head ef2 0 s bs.
Proof.
  intros interp ef1 ef2 bs s H1 H2. apply exec_chain_env_independent; intros n; apply perm_enum; auto.
Qed.
Print Assumptions C01_history_env_independent.

(* ---- 3. the pieces.  The StateDB life of one transaction — any list of operations, snapshots and reverts in any
        nesting, every tracker copy enumerated in another order, then the commit loop — yields the same world and
        the same burn events *)
Theorem C01_statedb_life_env_independent : forall e1 e2 i block_time blocked w ops,
  enum_ok e1 -> enum_ok e2 ->
  nrun_tx impl_head e1 i block_time blocked w ops = nrun_tx impl_head e2 i block_time blocked w ops.
Proof. intros. apply nrun_tx_indep; assumption. Qed.
Print Assumptions C01_statedb_life_env_independent.

(* sorting the keys forgets the enumeration order *)
Theorem C01_sort_perm_invariant : forall l1 l2, Permutation l1 l2 -> sort_addrs l1 = sort_addrs l2.
Proof. exact sort_perm_invariant. Qed.
Print Assumptions C01_sort_perm_invariant.

(* and fixes the order of the events: the bank burns of a transaction's destroyed accounts are emitted in ascending
   address order *)
Theorem C01_burn_events_ascending : forall interp e h i s t s' r,
  t_stake t = None -> exec_tx interp impl_head e h i s t = (s', r) ->
  exists burns, r_events r = map (fun b => EvBurn (fst b) (snd b)) burns /\ StronglySorted Z.lt (map fst burns).
Proof. exact exec_tx_burn_order. Qed.
Print Assumptions C01_burn_events_ascending.

(* block execution never looks at the node's minimum-gas-prices *)
Theorem C01_deliver_ignores_node_min_gas : forall base gmin n1 n2,
  BaseFee.min_allowed BaseFee.Deliver base gmin n1 = BaseFee.min_allowed BaseFee.Deliver base gmin n2.
Proof. exact deliver_floor_indep. Qed.
Print Assumptions C01_deliver_ignores_node_min_gas.

(* no tracer setting makes NewTracer fail *)
Theorem C01_tracer_never_fails : forall tr t, new_tracer impl_head tr t = Ok tt.
Proof. exact new_tracer_head. Qed.
Print Assumptions C01_tracer_never_fails.

(* a state transition refused by the core (value above balance) fails with the same result on every node: the handler
   does not look at the telemetry switch (the metrics block runs only for applied transactions) nor at any other setting *)
Theorem C01_apply_error_ignores_node_config : forall e1 e2 t g,
  apply_error_result impl_head e1 t g = apply_error_result impl_head e2 t g.
Proof. exact apply_error_head. Qed.
Print Assumptions C01_apply_error_ignores_node_config.

(* staking precompile transfer(): the comparison (tokens, operator) orders distinct validators totally, so ANY sorting
   algorithm — slices.SortFunc is not stable — produces one and the same list ... *)
Theorem C01_any_sort_gives_the_same_list : forall l l',
  NoDup l -> key_inj l -> Permutation l l' -> vsorted l' -> l' = sort_vals l.
Proof. exact any_sort_is_sort_vals. Qed.
Print Assumptions C01_any_sort_gives_the_same_list.

(* ... and the chosen validator does not depend on the order in which the validators were collected *)
Theorem C01_pick_validator_perm_invariant : forall all1 all2 mine1 mine2,
  NoDup all1 -> key_inj all1 -> Permutation all1 all2 ->
  NoDup mine1 -> key_inj mine1 -> Permutation mine1 mine2 ->
  pick_validator all1 mine1 = pick_validator all2 mine2.
Proof. exact pick_validator_perm_invariant. Qed.
Print Assumptions C01_pick_validator_perm_invariant.

Theorem C01_pick_is_least_of_several : forall mine v,
  (2 <= length mine)%nat -> pick_validator [] mine = Some v ->
  In v mine /\ forall x, In x mine -> val_lt x v = false.
Proof. exact pick_case3_least. Qed.
Print Assumptions C01_pick_is_least_of_several.

(* ---- 3b. process lifetime and node-local request traffic.  A node's life [list nevent] = blocks interleaved with
        local requests (queries pinned to ANY committed version, CheckTx, simulations) and restarts.  The process'
        memory besides the stores is a component of ANY type [mem], changed by requests and blocks through ARBITRARY
        functions and reset to [boot] by a restart.  Two nodes — other memory and other ways of using it, other
        requests at other places, other restarts, other ambient conditions for every block — that execute the same
        blocks from the same state end in the same state and produce the same results and validator updates, block by
        block *)
Theorem C01_node_lives_agree : forall interp mem1 mem2 serve1 serve2 after1 after2 boot1 boot2 ef1 ef2 l1 l2
    (nd1 : node mem1) (nd2 : node mem2),
  (forall n, perm_ok (ef1 n)) -> (forall n, perm_ok (ef2 n)) ->
  nd_cur mem1 nd1 = nd_cur mem2 nd2 -> nd_n mem1 nd1 = nd_n mem2 nd2 -> blocks_of l1 = blocks_of l2 ->
  let r1 := node_run interp impl_head mem1 serve1 after1 boot1 ef1 nd1 l1 in
  let r2 := node_run interp impl_head mem2 serve2 after2 boot2 ef2 nd2 l2 in
  nd_cur mem1 (fst r1) = nd_cur mem2 (fst r2) /\ block_outs (snd r1) = block_outs (snd r2).
Proof.
  intros interp mem1 mem2 serve1 serve2 after1 after2 boot1 boot2 ef1 ef2 l1 l2 nd1 nd2 H1 H2.
  apply node_lives_agree; intros n; apply perm_enum; auto.
Qed.
Print Assumptions C01_node_lives_agree.

(* the blocks of a life come out exactly as the bare chain of its blocks: requests and restarts are erasable (for every
   implementation variant, also the defective ones: the defects were in what a block reads from [nenv]) *)
Theorem C01_local_requests_and_restarts_erasable : forall interp im mem serve after_block boot ef l (nd : node mem),
  let r := node_run interp im mem serve after_block boot ef nd l in
  let c := exec_chain interp im ef (nd_n mem nd) (nd_cur mem nd) (blocks_of l) in
  nd_cur mem (fst r) = fst c /\ block_outs (snd r) = snd c.
Proof. exact node_run_blocks. Qed.
Print Assumptions C01_local_requests_and_restarts_erasable.

(* ---- 4. the statement is about the code as repaired: each of the three defects the unchanged tree had refutes it
        (known findings C01/twin/..., fixed by /repo 295ed89, 133c300, 17e00a9), and so does the seeded telemetry
        variant of EthereumTx (never in /repo; the twin run's node-configuration process reports it) *)
Definition C01_env_independent_of (im : impl) : Prop :=
  forall interp e1 e2 s b, perm_ok e1 -> perm_ok e2 ->
    exec_block interp im e1 s b = exec_block interp im e2 s b.

Theorem C01_wall_clock_guard_refuted : ~ C01_env_independent_of (mkImpl true false false false).
Proof. exact wallclock_guard_refuted. Qed.
Print Assumptions C01_wall_clock_guard_refuted.

Theorem C01_commit_in_map_order_refuted : ~ C01_env_independent_of (mkImpl false true false false).
Proof. exact commit_map_order_refuted. Qed.
Print Assumptions C01_commit_in_map_order_refuted.

Theorem C01_tracer_nil_recipient_refuted : ~ C01_env_independent_of (mkImpl false false true false).
Proof. exact tracer_nil_to_refuted. Qed.
Print Assumptions C01_tracer_nil_recipient_refuted.

Theorem C01_telemetry_nil_response_refuted : ~ C01_env_independent_of (mkImpl false false false true).
Proof. exact telemetry_nil_resp_refuted. Qed.
Print Assumptions C01_telemetry_nil_response_refuted.

(* ------------------------------------------------------------------ non-vacuity *)

(* two environments that differ in every component satisfy the hypotheses *)
Example C01_example_envs : perm_ok env_id /\ perm_ok env_rev /\ n_now env_id <> n_now env_rev /\
  n_min_gas env_id <> n_min_gas env_rev /\ n_tracer env_id <> n_tracer env_rev /\
  n_order env_id 0 0 0 [1; 2; 3] <> n_order env_rev 0 0 0 [1; 2; 3] /\
  n_telemetry env_id <> n_telemetry env_rev /\ n_cfg_other env_id <> n_cfg_other env_rev /\ n_procs env_id <> n_procs env_rev.
Proof. repeat split; try apply env_id_perm; try apply env_rev_perm; vm_compute; discriminate. Qed.

(* a block that destroys an expired vesting account, self-destructs two contracts (burns in address order), fails on an
   unexpired vesting account, creates a contract, delegates through transfer() (validator update) and contains an
   under-priced transaction, a call sending more than its sender owns (refused by the state transition: code 1, on the
   telemetry node too) and a creation endowed within the sender's means: same non-trivial result under both *)
Example C01_example_block :
  results (exec_block ex_interp impl_head env_id ex_state ex_block) =
    ([mkRes 0 100000 21000 [];
      mkRes 0 100000 40000 [EvBurn 7 [(1, 100)]; EvBurn 9 [(1, 200)]];
      mkRes CODE_PANIC 100000 30000 [];
      mkRes 0 100000 21000 [];
      mkRes 0 100000 100000 [EvDelegate 8 2 (2 * 10 ^ 18)];
      mkRes CODE_INSUFFICIENT_FEE (-1) 0 [];
      mkRes CODE_APPLY_ERROR 100000 21000 [];
      mkRes 0 100000 21000 []],
     [(2, 3)]) /\
  results (exec_block ex_interp impl_head env_rev ex_state ex_block) =
  results (exec_block ex_interp impl_head env_id ex_state ex_block).
Proof. exact ex_block_result. Qed.

(* the seeded variant on the same two nodes: only the refused transfer tells them apart *)
Example C01_example_telemetry_variant :
  results (exec_block ex_interp (mkImpl false false false true) env_id ex_state (mkHeader 7 4000, [ex_tx_value false (10 ^ 21); ex_tx_value false 5])) =
    ([mkRes CODE_APPLY_ERROR 100000 21000 []; mkRes 0 100000 21000 []], []) /\
  results (exec_block ex_interp (mkImpl false false false true) env_rev ex_state (mkHeader 7 4000, [ex_tx_value false (10 ^ 21); ex_tx_value false 5])) =
    ([mkRes CODE_PANIC 100000 21000 []; mkRes 0 100000 21000 []], []).
Proof. exact telemetry_variant_results. Qed.

(* the ambient inputs are live: the mempool's decision on the same transaction differs between the two nodes *)
Example C01_example_mempool_differs :
  checktx_admits env_id ex_state (ex_tx 0 false None) = true /\
  checktx_admits env_rev ex_state (ex_tx 0 false None) = false.
Proof. split; vm_compute; reflexivity. Qed.

(* validators 1 and 2 tie on tokens: the operator decides; hypotheses of the sort theorems hold for them *)
Example C01_example_validators :
  NoDup ex_vals /\ key_inj ex_vals /\
  pick_validator (filter v_bonded ex_vals) [] = Some (mkVal 2 (10 ^ 18) true) /\
  pick_validator (filter v_bonded ex_vals) [mkVal 2 (10 ^ 18) true; mkVal 0 (3 * 10 ^ 18) true; mkVal 1 (10 ^ 18) true]
    = Some (mkVal 1 (10 ^ 18) true).
Proof.
  destruct (distinct_ops ex_vals ex_vals_distinct) as [ND KI].
  split; [exact ND | split; [exact KI | split; vm_compute; reflexivity]].
Qed.

(* two lives around the same two blocks: the first node serves nothing, the second answers a query on version 0 before
   and after the first block, checks and simulates transactions, is restarted in between, counts its requests in
   memory and runs under the reversed environment: same block outputs; the local answers themselves are non-trivial
   (the query executes on the named version, the mempool's answer depends on the node's minimum gas price) *)
Example C01_example_node_lives :
  let nd1 := mkNode unit [] ex_state tt 0 in
  let nd2 := mkNode nat [] ex_state 0%nat 0 in
  let l1 := [NBlock ex_block; NBlock ex_block] in
  let l2 := [NLocal (LQuery 0 (ex_tx 0 false None)); NBlock ex_block; NLocal (LQuery 0 (ex_tx 0 false None));
             NLocal (LQuery 5 (ex_tx 0 false None)); NRestart; NLocal (LCheckTx (ex_tx 0 false None));
             NLocal (LSimulate (ex_tx 4 false (Some (2 * 10 ^ 18)))); NBlock ex_block; NLocal (LQuery 2 (ex_tx 0 true None))] in
  let r1 := node_run ex_interp impl_head unit (fun m _ => m) (fun m _ => m) tt (fun _ => env_id) nd1 l1 in
  let r2 := node_run ex_interp impl_head nat (fun m _ => S m) (fun m _ => m) 0%nat (fun _ => env_rev) nd2 l2 in
  blocks_of l1 = blocks_of l2 /\
  block_outs (snd r1) = block_outs (snd r2) /\ length (block_outs (snd r2)) = 2%nat /\
  nd_cur unit (fst r1) = nd_cur nat (fst r2) /\ nd_mem nat (fst r2) = 3%nat /\
  map (fun o => match o with OLocal (Some r) _ => r_code r | OLocal None true => 1 | OLocal None false => 2 | _ => 3 end) (snd r2)
    = [0; 3; 0; 2; 3; 2; 0; 3; 0].
Proof. cbv zeta. repeat split; vm_compute; reflexivity. Qed.
