(* C04 — Ethereum transactions never create coins (supply conservation).
   Statements only; proofs in Proofs/TxPipeProofs.v; model in Model/TxPipe.v (deliver-mode pipeline with the
   interpreter's result as oracle [evm_out]; [e_burn] = amount explicitly destroyed by a successful execution,
   [e_moves] = balance movements of a successful execution). *)
From Evm Require Import TxPipe TxPipeExt TxPipeProofs TxPipeDenom TxPipeDenomProofs.
Open Scope Z_scope.

(* one transaction, any outcome: the supply changes by exactly minus what a committed successful execution destroyed *)
Theorem C04_supply_step : forall s t o,
  supply (fst (deliver s t o)) =
  supply s - match r_out (snd (deliver s t o)) with Executed false => e_burn o | _ => 0 end.
Proof. exact supply_step. Qed.
Print Assumptions C04_supply_step.

(* any history of blocks' items (Ethereum transactions in every outcome class interleaved with Cosmos ones):
   final supply = initial supply - sum of explicit destructions; in particular it never grows *)
Theorem C04_supply_history : forall l s,
  supply (final s l) = supply s - fold_right (fun x acc => burned x + acc) 0 (trace s l).
Proof. exact supply_history. Qed.
Print Assumptions C04_supply_history.

Theorem C04_supply_never_grows : forall l s,
  (forall x, In x (trace s l) -> 0 <= burned x) -> supply (final s l) <= supply s.
Proof. exact supply_never_grows. Qed.
Print Assumptions C04_supply_never_grows.

(* balance changes of sender, recipients, contracts and fee collector sum to the (non-positive) net of the
   execution's own movements: over ANY duplicate-free universe containing them *)
Theorem C04_balances_sum_executed : forall s t o v l,
  r_out (snd (deliver s t o)) = Executed v ->
  NoDup l -> In (t_from t) l -> In FEE_COLLECTOR l -> (forall p, In p (e_moves o) -> In (fst p) l) ->
  total l (bal (fst (deliver s t o))) = total l (bal s) + (if v then 0 else sum_moves (e_moves o)).
Proof. exact executed_total. Qed.
Print Assumptions C04_balances_sum_executed.

Theorem C04_balances_sum_failed : forall s t o l,
  r_out (snd (deliver s t o)) = CoreErr \/ r_out (snd (deliver s t o)) = BlockGasExceeded ->
  NoDup l -> In (t_from t) l -> In FEE_COLLECTOR l ->
  total l (bal (fst (deliver s t o))) = total l (bal s).
Proof. exact failed_total. Qed.
Print Assumptions C04_balances_sum_failed.

(* every single balance after a committed execution: the fee collector gains exactly gas used x effective price,
   the sender pays exactly that, everything else moves only by the execution's own movements *)
Theorem C04_every_balance_executed : forall s t o v a,
  r_out (snd (deliver s t o)) = Executed v ->
  t_from t <> FEE_COLLECTOR ->
  bal (fst (deliver s t o)) a =
    bal s a + (if a =? t_from t then - (e_used o * price_of s t) else 0)
            + (if a =? FEE_COLLECTOR then e_used o * price_of s t else 0)
            + (if v then 0 else net (e_moves o) a).
Proof. exact executed_balance. Qed.
Print Assumptions C04_every_balance_executed.

(* "The balance changes of sender, recipients, contracts and fee collector therefore sum to minus those burns":
   in EVERY outcome the balance changes over any duplicate-free universe containing the accounts involved sum to the
   change of the supply (which by C04_supply_step is minus the explicit burns).  Hypothesis = the interpreter's own
   conservation (its movements net to minus what it destroyed), checked on every executed case by CorrTxPipe.oracle_consistent. *)
Theorem C04_balances_sum_to_minus_burns : forall s t o l,
  (e_vmerr o = false -> sum_moves (e_moves o) = - e_burn o) ->
  NoDup l -> In (t_from t) l -> In FEE_COLLECTOR l -> (forall p, In p (e_moves o) -> In (fst p) l) ->
  total l (bal (fst (deliver s t o))) - total l (bal s) = supply (fst (deliver s t o)) - supply s.
Proof. exact balances_follow_supply. Qed.
Print Assumptions C04_balances_sum_to_minus_burns.

(* an account that is not the sender, not the fee collector and not named by the execution's movements keeps its
   balance in every outcome: in particular the EVM module account, through which all credits and debits pass,
   ends every transaction with the balance it had (zero) *)
Theorem C04_untouched_account_keeps_balance : forall s t o a,
  a <> t_from t -> a <> FEE_COLLECTOR -> (forall p, In p (e_moves o) -> fst p <> a) ->
  bal (fst (deliver s t o)) a = bal s a.
Proof. exact untouched_balance. Qed.
Print Assumptions C04_untouched_account_keeps_balance.

(* rejected / dropped: nothing at all changes *)
Theorem C04_rejected_changes_nothing : forall s t o,
  passed (r_out (snd (deliver s t o))) = false -> fst (deliver s t o) = s.
Proof. exact rejected_changes_nothing. Qed.
Print Assumptions C04_rejected_changes_nothing.

(* non-vacuity: a concrete transfer with unused gas: supply unchanged, fee collector + 21000 x price *)
Example C04_example :
  let s := mkSt (fun a => if a =? 7 then 10^18 else 0) (fun _ => 0) (fun a => a =? 7) (fun _ => false)
                (5 * 10^18) 1000 0 0 0 0 0 0 false false in
  let t := mkTx 7 (Some 7) true false 2000 0 0 6000000 0 5 false 21000 in
  let o := mkOut 21000 false 0 [(7, -5); (8, 5)] 0 false in
  let s' := fst (deliver s t o) in
  r_out (snd (deliver s t o)) = Executed false /\ supply s' = supply s /\
  bal s' FEE_COLLECTOR = 21000 * 2000 /\ bal s' 7 = 10^18 - 21000 * 2000 - 5 /\ bal s' 8 = 5.
Proof. vm_compute. repeat split; reflexivity. Qed.

(* non-vacuity of the burn path: a contract (9, holding 40) self-destructs three times in one transaction with
   beneficiary 8, receiving the transaction's 5 before the second time: 45 reach account 8 and nothing is destroyed;
   a second transaction sends 7 to a contract that self-destructs naming itself: the 7 are destroyed and the supply
   falls by exactly 7 *)
Example C04_example_burn :
  let s := mkSt (fun a => if a =? 7 then 10^18 else if a =? 9 then 40 else 0) (fun _ => 0) (fun a => a =? 7) (fun _ => false)
                (5 * 10^18) 1000 0 0 0 0 0 0 false false in
  let t1 := mkTx 7 (Some 7) true false 2000 0 0 600000 0 5 false 21000 in
  let o1 := mkOut 90000 false 0 [(7, -5); (8, 45); (9, -40)] 0 false in
  let t2 := mkTx 7 (Some 7) true false 2000 0 0 600000 1 7 false 21000 in
  let o2 := mkOut 60000 false 0 [(7, -7)] 7 false in
  let s1 := fst (deliver s t1 o1) in let s2 := fst (deliver s1 t2 o2) in
  supply s1 = supply s /\ bal s1 8 = 45 /\ bal s1 9 = 0 /\ supply s2 = supply s - 7 /\
  bal s2 7 = 10^18 - 150000 * 2000 - 12 /\
  sum_moves (e_moves o1) = - e_burn o1 /\ sum_moves (e_moves o2) = - e_burn o2.
Proof. vm_compute. repeat split; reflexivity. Qed.

(* ================================================================== every denomination (Model/TxPipeDenom.v)
   [supply_d s d] / [bal_d s d a]: the bank's books per denomination; d = EVM_DENOM is TxPipe's ledger, every other d
   the ledger the EVM module reaches only through CreateAccount (burn and mint again) and DestroyAccount (burn all).
   [ddeliver] = TxPipe.deliver + that; [devm] = accounts created / deleted by a successful execution (oracle). *)

(* CreateAccount carries every denomination over: no balance and no supply of any denomination changes *)
Theorem C04_create_account_carries_every_denomination : forall L a d x,
  l_bal (create_account L a) d x = l_bal L d x /\ l_supply (create_account L a) d = l_supply L d.
Proof. intros L a d x. destruct (create_account_id L a) as [A B]. split; [apply A|apply B]. Qed.
Print Assumptions C04_create_account_carries_every_denomination.

(* one transaction, any outcome, EVERY denomination d: the supply changes by exactly minus what was explicitly destroyed:
   [destroyed_d] = e_burn for the EVM denomination, for any other one the d-balances of the accounts deleted at the end
   of a committed successful execution ([destroyed_sum]: each listed account once), 0 in every other outcome *)
Theorem C04_denom_supply_step : forall s t o x d,
  supply_d (fst (ddeliver s t o x)) d = supply_d s d - destroyed_d s t o x d.
Proof. exact denom_supply_step. Qed.
Print Assumptions C04_denom_supply_step.

(* for a duplicate-free list of deleted accounts that amount is the plain sum of their balances *)
Theorem C04_destroyed_amount_is_sum_of_balances : forall L l d,
  NoDup l -> destroyed_sum L l d = total l (l_bal L d).
Proof. intros L l d H. apply destroyed_sum_nodup. exact H. Qed.
Print Assumptions C04_destroyed_amount_is_sum_of_balances.

(* every surviving account keeps its balance in every other denomination, in every outcome: created contracts, the
   sender, recipients, the fee collector; a deleted account ends with nothing *)
Theorem C04_other_denominations_kept : forall s t o x d a, d <> EVM_DENOM ->
  bal_d (fst (ddeliver s t o x)) d a =
  match r_out (snd (ddeliver s t o x)) with
  | Executed false => if mem a (x_destroyed x) then 0 else bal_d s d a
  | _ => bal_d s d a
  end.
Proof. exact other_denoms_kept. Qed.
Print Assumptions C04_other_denominations_kept.

(* fee handling (ante deduction, refund, fee-collector burn) never reaches another denomination *)
Theorem C04_other_denominations_untouched_by_fees : forall s t o x d a, d <> EVM_DENOM ->
  r_out (snd (ddeliver s t o x)) <> Executed false \/ ~ In a (x_destroyed x) ->
  bal_d (fst (ddeliver s t o x)) d a = bal_d s d a.
Proof. exact other_denoms_untouched_by_fees. Qed.
Print Assumptions C04_other_denominations_untouched_by_fees.

Theorem C04_other_supplies_move_only_on_success : forall s t o x d, d <> EVM_DENOM ->
  r_out (snd (ddeliver s t o x)) <> Executed false ->
  supply_d (fst (ddeliver s t o x)) d = supply_d s d.
Proof. exact other_denoms_supply_unless_success. Qed.
Print Assumptions C04_other_supplies_move_only_on_success.

(* per denomination, the balance changes over any duplicate-free universe containing the accounts involved sum to the
   change of that denomination's supply (= minus the explicit destructions, by C04_denom_supply_step) *)
Theorem C04_denom_balances_sum_to_minus_destroyed : forall s t o x l d,
  (e_vmerr o = false -> sum_moves (e_moves o) = - e_burn o) ->
  NoDup l -> In (t_from t) l -> In FEE_COLLECTOR l -> (forall p, In p (e_moves o) -> In (fst p) l) ->
  incl (x_destroyed x) l ->
  total l (bal_d (fst (ddeliver s t o x)) d) - total l (bal_d s d) =
  supply_d (fst (ddeliver s t o x)) d - supply_d s d.
Proof. exact denom_balances_follow_supply. Qed.
Print Assumptions C04_denom_balances_sum_to_minus_destroyed.

(* ANY history (Ethereum transactions in every outcome class interleaved with Cosmos transactions carrying bank sends of
   other denominations), every denomination: final supply = initial supply - explicit destructions; it never grows *)
Theorem C04_denom_supply_history : forall l s d,
  supply_d (dfinal s l) d = supply_d s d - destroyed_hist s l d.
Proof. exact denom_supply_history. Qed.
Print Assumptions C04_denom_supply_history.

Theorem C04_denom_supply_never_grows : forall l s d,
  nonneg (d_other s) -> burns_nonneg l -> supply_d (dfinal s l) d <= supply_d s d.
Proof. exact denom_supply_never_grows. Qed.
Print Assumptions C04_denom_supply_never_grows.

(* a Cosmos transaction's bank sends conserve every other denomination: supply unchanged, balances of a universe
   containing the parties keep their total *)
Theorem C04_cosmos_sends_conserve : forall s g p f inc ok sends l d, d <> EVM_DENOM -> NoDup l ->
  (forall m, In m sends -> In (s_from m) l /\ In (s_to m) l) ->
  total l (bal_d (fst (dstep s (DCosmos g p f inc ok sends))) d) = total l (bal_d s d) /\
  supply_d (fst (dstep s (DCosmos g p f inc ok sends))) d = supply_d s d.
Proof. exact cosmos_conserves. Qed.
Print Assumptions C04_cosmos_sends_conserve.

(* the EVM-denomination projection of a multi-denomination history is the TxPipe history: every theorem above and in
   C05 C06 C13 about TxPipe.final / run applies to it *)
Theorem C04_denom_history_projects : forall l s,
  d_core (dfinal s l) = final (d_core s) (map core_item l) /\
  snd (drun s l) = snd (run (d_core s) (map core_item l)).
Proof. intros l s. split; [apply dfinal_core|apply drun_results]. Qed.
Print Assumptions C04_denom_history_projects.

(* non-vacuity: account 9 holds 40 EVM coins, 1000 of denomination 1 and 50 of denomination 2; account 8 holds 7 of
   denomination 1.  Transaction 1 creates a contract at address 8 (pre-funded) and sends it 5: every denomination's
   supply is unchanged and 8 keeps its 7.  Transaction 2 makes 9 self-destruct towards 8: the 40 move, the 1000 and the
   50 are destroyed with the account and the supplies of denominations 1 and 2 fall by exactly 1000 and 50.  A Cosmos
   transaction then sends 3 of denomination 1 from 8 to 7, and an unaffordable send changes nothing. *)
Example C04_example_denoms :
  let c := mkSt (fun a => if a =? 7 then 10^18 else if a =? 9 then 40 else 0) (fun _ => 0) (fun a => a =? 7) (fun _ => false)
                (5 * 10^18) 1000 0 0 0 0 0 0 false false in
  let L := mkLedger (fun d a => if (d =? 1) && (a =? 9) then 1000 else if (d =? 2) && (a =? 9) then 50
                                else if (d =? 1) && (a =? 8) then 7 else 0)
                    (fun d => if d =? 1 then 5000 else if d =? 2 then 600 else 0) in
  let s := mkDst c L in
  let t1 := mkTx 7 (Some 7) true false 2000 0 0 600000 0 5 true 53000 in
  let o1 := mkOut 90000 false 0 [(7, -5); (8, 5)] 0 false in
  let t2 := mkTx 7 (Some 7) true false 2000 0 0 600000 1 0 false 21000 in
  let o2 := mkOut 60000 false 0 [(9, -40); (8, 40)] 0 false in
  let s1 := fst (ddeliver s t1 o1 (mkDx [8] [])) in
  let s2 := fst (ddeliver s1 t2 o2 (mkDx [] [9])) in
  let s3 := fst (dstep s2 (DCosmos 70000 8 0 true true [mkSend 1 8 7 3])) in
  let s4 := fst (dstep s3 (DCosmos 70000 8 0 true true [mkSend 1 8 7 1; mkSend 2 8 7 1])) in
  r_out (snd (ddeliver s t1 o1 (mkDx [8] []))) = Executed false /\
  supply_d s1 0 = supply_d s 0 /\ supply_d s1 1 = 5000 /\ supply_d s1 2 = 600 /\ bal_d s1 1 8 = 7 /\ bal_d s1 0 8 = 5 /\
  supply_d s2 0 = supply_d s 0 /\ supply_d s2 1 = 4000 /\ supply_d s2 2 = 550 /\
  bal_d s2 1 9 = 0 /\ bal_d s2 2 9 = 0 /\ bal_d s2 0 8 = 45 /\ bal_d s2 1 8 = 7 /\
  destroyed_d s1 t2 o2 (mkDx [] [9]) 1 = 1000 /\
  bal_d s3 1 8 = 4 /\ bal_d s3 1 7 = 3 /\ supply_d s3 1 = 4000 /\
  bal_d s4 1 8 = 4 /\ bal_d s4 2 7 = 0 /\ cosmos_consistent (d_other s3) true [mkSend 1 8 7 1; mkSend 2 8 7 1] = false.
Proof. vm_compute. repeat split; reflexivity. Qed.

(* the hypothesis of C04_denom_supply_never_grows is met by that ledger *)
Example C04_example_denoms_nonneg :
  nonneg (mkLedger (fun d a => if (d =? 1) && (a =? 9) then 1000 else if (d =? 2) && (a =? 9) then 50
                               else if (d =? 1) && (a =? 8) then 7 else 0)
                   (fun d => if d =? 1 then 5000 else if d =? 2 then 600 else 0)).
Proof.
  intros d a. cbn [l_bal].
  destruct ((d =? 1) && (a =? 9)); [discriminate|]. destruct ((d =? 2) && (a =? 9)); [discriminate|].
  destruct ((d =? 1) && (a =? 8)); discriminate.
Qed.

(* ================================================================== executions aborted by a panic (Model/TxPipeExt.v)
   x/evm/vm has no error channel: a value credited to a module account (the bank refuses: AddBalance panics) and a touched
   empty module account at commit (DestroyAccount's guard panics) abort the whole transaction; baseapp.runTx recovers.
   [deliver_panic s t gu]: such a transaction ([gu] = the consensus gas used, observed); [xstep]/[xfinal]/[xtrace]: histories
   that contain them (Model/TxPipeDenom.v xitem) - what the blocks driver checks block by block
   (Corr/CorrTxPipe.v run_items_is_xrun). *)

(* no coin is created or destroyed, whatever the interpreter had minted or burnt before the panic *)
Theorem C04_aborted_supply_unchanged : forall s t gu, supply (fst (deliver_panic s t gu)) = supply s.
Proof. exact panic_supply. Qed.
Print Assumptions C04_aborted_supply_unchanged.

(* every balance: only the ante handler's fee movement remains (gas limit x price from the sender to the fee collector,
   if the transaction passed admission) *)
Theorem C04_aborted_balances_are_ante_effects : forall s t gu a,
  t_from t <> FEE_COLLECTOR ->
  bal (fst (deliver_panic s t gu)) a =
    bal s a + (if passed (r_out (snd (deliver_panic s t gu))) && (a =? t_from t) then - (t_gas t * price_of s t) else 0)
            + (if passed (r_out (snd (deliver_panic s t gu))) && (a =? FEE_COLLECTOR) then t_gas t * price_of s t else 0).
Proof. exact panic_charge. Qed.
Print Assumptions C04_aborted_balances_are_ante_effects.

Theorem C04_aborted_balances_sum : forall s t gu l,
  NoDup l -> In (t_from t) l -> In FEE_COLLECTOR l ->
  total l (bal (fst (deliver_panic s t gu))) = total l (bal s).
Proof. exact panic_total. Qed.
Print Assumptions C04_aborted_balances_sum.

(* the module account the execution tried to credit, and the EVM module's own account through which the credit was
   minted, keep their balance: "the EVM module's own account always ends with a zero balance" *)
Theorem C04_aborted_untouched_account_keeps_balance : forall s t gu a,
  a <> t_from t -> a <> FEE_COLLECTOR -> bal (fst (deliver_panic s t gu)) a = bal s a.
Proof. exact panic_untouched. Qed.
Print Assumptions C04_aborted_untouched_account_keeps_balance.

(* every denomination: no supply moves, no balance of another denomination moves *)
Theorem C04_aborted_every_denomination : forall s t gu d,
  supply_d (fst (xstep s (XPanic t gu))) d = supply_d s d /\
  (forall a, d <> EVM_DENOM -> bal_d (fst (xstep s (XPanic t gu))) d a = bal_d s d a).
Proof. intros s t gu d. split; [apply panic_denom_supply|intros a Hd; apply panic_denom_balance; exact Hd]. Qed.
Print Assumptions C04_aborted_every_denomination.

(* ANY history of executed, failed, ABORTED Ethereum transactions and Cosmos transactions, every denomination: final
   supply = initial supply - explicit destructions (an aborted execution destroys nothing); it never grows *)
Theorem C04_xsupply_history : forall l s d,
  supply_d (xfinal s l) d = supply_d s d - xdestroyed_hist s l d.
Proof. exact xsupply_history. Qed.
Print Assumptions C04_xsupply_history.

Theorem C04_xsupply_never_grows : forall l s d,
  nonneg (d_other s) -> xburns_nonneg l -> supply_d (xfinal s l) d <= supply_d s d.
Proof. exact xsupply_never_grows. Qed.
Print Assumptions C04_xsupply_never_grows.

(* a history without aborted executions is the history of the theorems above *)
Theorem C04_xhistory_embeds : forall l s,
  xfinal s (map XItem l) = dfinal s l /\ xtrace s (map XItem l) = trace (d_core s) (map core_item l).
Proof. intros l s. split; [apply xfinal_embeds|apply xtrace_embeds]. Qed.
Print Assumptions C04_xhistory_embeds.

(* non-vacuity: account 7 sends 5 to the module account 50 (aborted: the 5 stay with 7, only the fee for the whole limit
   moves, the supply and account 50 are as before, consensus gas used 0); with a gas limit below the intrinsic gas the
   execution is never reached and the transaction ends as TxPipe.deliver says (whole limit consumed) *)
Example C04_example_aborted :
  let s := mkSt (fun a => if a =? 7 then 10^18 else 0) (fun _ => 0) (fun a => a =? 7) (fun _ => false)
                (5 * 10^18) 1000 0 0 0 0 0 0 false false in
  let t := mkTx 7 (Some 7) true false 2000 0 0 30000 0 5 false 21000 in
  let t' := mkTx 7 (Some 7) true false 2000 0 0 20999 0 5 false 21000 in
  let s' := fst (deliver_panic s t 0) in
  panic_reached s t = true /\ supply s' = supply s /\ bal s' 50 = 0 /\ bal s' 7 = 10^18 - 30000 * 2000 /\
  bal s' FEE_COLLECTOR = 30000 * 2000 /\ sqn s' 7 = 1 /\ blk_used s' = 0 /\ cum_gas s' = 30000 /\
  snd (deliver_panic s t 0) = no_receipt CoreErr 30000 0 0 /\
  panic_reached s t' = false /\ deliver_panic s t' 0 = deliver s t' no_exec /\
  r_gas_used (snd (deliver_panic s t' 0)) = 20999.
Proof. vm_compute. repeat split; reflexivity. Qed.
