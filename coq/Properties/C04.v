(* C04 — Ethereum transactions never create coins (supply conservation).
   Statements only; proofs in Proofs/TxPipeProofs.v; model in Model/TxPipe.v (deliver-mode pipeline with the
   interpreter's result as oracle [evm_out]; [e_burn] = amount explicitly destroyed by a successful execution,
   [e_moves] = balance movements of a successful execution). *)
From Evm Require Import TxPipe TxPipeProofs.
Open Scope Z_scope.

(* one transaction, any outcome: the supply changes by exactly minus what a committed successful execution destroyed *)
Theorem C04_supply_step : forall s t o,
  supply (fst (deliver s t o)) =
  supply s - match r_out (snd (deliver s t o)) with Executed false => e_burn o | _ => 0 end.
Proof. exact supply_step. Qed.
Print Assumptions C04_supply_step.

(* any history of blocks' items (Ethereum transactions in every outcome class interleaved with Cosmos ones):
   final supply = initial supply - sum of explicit destructions; in particular it never grows *)
Theorem C04_supply_history : forall l s,
  supply (final s l) = supply s - fold_right (fun x acc => burned x + acc) 0 (trace s l).
Proof. exact supply_history. Qed.
Print Assumptions C04_supply_history.

Theorem C04_supply_never_grows : forall l s,
  (forall x, In x (trace s l) -> 0 <= burned x) -> supply (final s l) <= supply s.
Proof. exact supply_never_grows. Qed.
Print Assumptions C04_supply_never_grows.

(* balance changes of sender, recipients, contracts and fee collector sum to the (non-positive) net of the
   execution's own movements: over ANY duplicate-free universe containing them *)
Theorem C04_balances_sum_executed : forall s t o v l,
  r_out (snd (deliver s t o)) = Executed v ->
  NoDup l -> In (t_from t) l -> In FEE_COLLECTOR l -> (forall p, In p (e_moves o) -> In (fst p) l) ->
  total l (bal (fst (deliver s t o))) = total l (bal s) + (if v then 0 else sum_moves (e_moves o)).
Proof. exact executed_total. Qed.
Print Assumptions C04_balances_sum_executed.

Theorem C04_balances_sum_failed : forall s t o l,
  r_out (snd (deliver s t o)) = CoreErr \/ r_out (snd (deliver s t o)) = BlockGasExceeded ->
  NoDup l -> In (t_from t) l -> In FEE_COLLECTOR l ->
  total l (bal (fst (deliver s t o))) = total l (bal s).
Proof. exact failed_total. Qed.
Print Assumptions C04_balances_sum_failed.

(* every single balance after a committed execution: the fee collector gains exactly gas used x effective price,
   the sender pays exactly that, everything else moves only by the execution's own movements *)
Theorem C04_every_balance_executed : forall s t o v a,
  r_out (snd (deliver s t o)) = Executed v ->
  t_from t <> FEE_COLLECTOR ->
  bal (fst (deliver s t o)) a =
    bal s a + (if a =? t_from t then - (e_used o * price_of s t) else 0)
            + (if a =? FEE_COLLECTOR then e_used o * price_of s t else 0)
            + (if v then 0 else net (e_moves o) a).
Proof. exact executed_balance. Qed.
Print Assumptions C04_every_balance_executed.

(* rejected / dropped: nothing at all changes *)
Theorem C04_rejected_changes_nothing : forall s t o,
  passed (r_out (snd (deliver s t o))) = false -> fst (deliver s t o) = s.
Proof. exact rejected_changes_nothing. Qed.
Print Assumptions C04_rejected_changes_nothing.

(* non-vacuity: a concrete transfer with unused gas: supply unchanged, fee collector + 21000 x price *)
Example C04_example :
  let s := mkSt (fun a => if a =? 7 then 10^18 else 0) (fun _ => 0) (fun a => a =? 7) (fun _ => false)
                (5 * 10^18) 1000 0 0 0 0 0 0 false false in
  let t := mkTx 7 (Some 7) true false 2000 0 0 6000000 0 5 false 21000 in
  let o := mkOut 21000 false 0 [(7, -5); (8, 5)] 0 false in
  let s' := fst (deliver s t o) in
  r_out (snd (deliver s t o)) = Executed false /\ supply s' = supply s /\
  bal s' FEE_COLLECTOR = 21000 * 2000 /\ bal s' 7 = 10^18 - 21000 * 2000 - 5 /\ bal s' 8 = 5.
Proof. vm_compute. repeat split; reflexivity. Qed.
