(* C04 — Ethereum transactions never create coins (supply conservation).
   Statements only; proofs in Proofs/TxPipeProofs.v; model in Model/TxPipe.v (deliver-mode pipeline with the
   interpreter's result as oracle [evm_out]; [e_burn] = amount explicitly destroyed by a successful execution,
   [e_moves] = balance movements of a successful execution). *)
From Evm Require Import TxPipe TxPipeProofs.
Open Scope Z_scope.

(* one transaction, any outcome: the supply changes by exactly minus what a committed successful execution destroyed *)
Theorem C04_supply_step : forall s t o,
  supply (fst (deliver s t o)) =
  supply s - match r_out (snd (deliver s t o)) with Executed false => e_burn o | _ => 0 end.
Proof. exact supply_step. Qed.
Print Assumptions C04_supply_step.

(* any history of blocks' items (Ethereum transactions in every outcome class interleaved with Cosmos ones):
   final supply = initial supply - sum of explicit destructions; in particular it never grows *)
Theorem C04_supply_history : forall l s,
  supply (final s l) = supply s - fold_right (fun x acc => burned x + acc) 0 (trace s l).
Proof. exact supply_history. Qed.
Print Assumptions C04_supply_history.

Theorem C04_supply_never_grows : forall l s,
  (forall x, In x (trace s l) -> 0 <= burned x) -> supply (final s l) <= supply s.
Proof. exact supply_never_grows. Qed.
Print Assumptions C04_supply_never_grows.

(* balance changes of sender, recipients, contracts and fee collector sum to the (non-positive) net of the
   execution's own movements: over ANY duplicate-free universe containing them *)
Theorem C04_balances_sum_executed : forall s t o v l,
  r_out (snd (deliver s t o)) = Executed v ->
  NoDup l -> In (t_from t) l -> In FEE_COLLECTOR l -> (forall p, In p (e_moves o) -> In (fst p) l) ->
  total l (bal (fst (deliver s t o))) = total l (bal s) + (if v then 0 else sum_moves (e_moves o)).
Proof. exact executed_total. Qed.
Print Assumptions C04_balances_sum_executed.

Theorem C04_balances_sum_failed : forall s t o l,
  r_out (snd (deliver s t o)) = CoreErr \/ r_out (snd (deliver s t o)) = BlockGasExceeded ->
  NoDup l -> In (t_from t) l -> In FEE_COLLECTOR l ->
  total l (bal (fst (deliver s t o))) = total l (bal s).
Proof. exact failed_total. Qed.
Print Assumptions C04_balances_sum_failed.

(* every single balance after a committed execution: the fee collector gains exactly gas used x effective price,
   the sender pays exactly that, everything else moves only by the execution's own movements *)
Theorem C04_every_balance_executed : forall s t o v a,
  r_out (snd (deliver s t o)) = Executed v ->
  t_from t <> FEE_COLLECTOR ->
  bal (fst (deliver s t o)) a =
    bal s a + (if a =? t_from t then - (e_used o * price_of s t) else 0)
            + (if a =? FEE_COLLECTOR then e_used o * price_of s t else 0)
            + (if v then 0 else net (e_moves o) a).
Proof. exact executed_balance. Qed.
Print Assumptions C04_every_balance_executed.

(* "The balance changes of sender, recipients, contracts and fee collector therefore sum to minus those burns":
   in EVERY outcome the balance changes over any duplicate-free universe containing the accounts involved sum to the
   change of the supply (which by C04_supply_step is minus the explicit burns).  Hypothesis = the interpreter's own
   conservation (its movements net to minus what it destroyed), checked on every executed case by CorrTxPipe.oracle_consistent. *)
Theorem C04_balances_sum_to_minus_burns : forall s t o l,
  (e_vmerr o = false -> sum_moves (e_moves o) = - e_burn o) ->
  NoDup l -> In (t_from t) l -> In FEE_COLLECTOR l -> (forall p, In p (e_moves o) -> In (fst p) l) ->
  total l (bal (fst (deliver s t o))) - total l (bal s) = supply (fst (deliver s t o)) - supply s.
Proof. exact balances_follow_supply. Qed.
Print Assumptions C04_balances_sum_to_minus_burns.

(* an account that is not the sender, not the fee collector and not named by the execution's movements keeps its
   balance in every outcome: in particular the EVM module account, through which all credits and debits pass,
   ends every transaction with the balance it had (zero) *)
Theorem C04_untouched_account_keeps_balance : forall s t o a,
  a <> t_from t -> a <> FEE_COLLECTOR -> (forall p, In p (e_moves o) -> fst p <> a) ->
  bal (fst (deliver s t o)) a = bal s a.
Proof. exact untouched_balance. Qed.
Print Assumptions C04_untouched_account_keeps_balance.

(* rejected / dropped: nothing at all changes *)
Theorem C04_rejected_changes_nothing : forall s t o,
  passed (r_out (snd (deliver s t o))) = false -> fst (deliver s t o) = s.
Proof. exact rejected_changes_nothing. Qed.
Print Assumptions C04_rejected_changes_nothing.

(* non-vacuity: a concrete transfer with unused gas: supply unchanged, fee collector + 21000 x price *)
Example C04_example :
  let s := mkSt (fun a => if a =? 7 then 10^18 else 0) (fun _ => 0) (fun a => a =? 7) (fun _ => false)
                (5 * 10^18) 1000 0 0 0 0 0 0 false false in
  let t := mkTx 7 (Some 7) true false 2000 0 0 6000000 0 5 false 21000 in
  let o := mkOut 21000 false 0 [(7, -5); (8, 5)] 0 false in
  let s' := fst (deliver s t o) in
  r_out (snd (deliver s t o)) = Executed false /\ supply s' = supply s /\
  bal s' FEE_COLLECTOR = 21000 * 2000 /\ bal s' 7 = 10^18 - 21000 * 2000 - 5 /\ bal s' 8 = 5.
Proof. vm_compute. repeat split; reflexivity. Qed.

(* non-vacuity of the burn path: a contract (9, holding 40) self-destructs three times in one transaction with
   beneficiary 8, receiving the transaction's 5 before the second time: 45 reach account 8 and nothing is destroyed;
   a second transaction sends 7 to a contract that self-destructs naming itself: the 7 are destroyed and the supply
   falls by exactly 7 *)
Example C04_example_burn :
  let s := mkSt (fun a => if a =? 7 then 10^18 else if a =? 9 then 40 else 0) (fun _ => 0) (fun a => a =? 7) (fun _ => false)
                (5 * 10^18) 1000 0 0 0 0 0 0 false false in
  let t1 := mkTx 7 (Some 7) true false 2000 0 0 600000 0 5 false 21000 in
  let o1 := mkOut 90000 false 0 [(7, -5); (8, 45); (9, -40)] 0 false in
  let t2 := mkTx 7 (Some 7) true false 2000 0 0 600000 1 7 false 21000 in
  let o2 := mkOut 60000 false 0 [(7, -7)] 7 false in
  let s1 := fst (deliver s t1 o1) in let s2 := fst (deliver s1 t2 o2) in
  supply s1 = supply s /\ bal s1 8 = 45 /\ bal s1 9 = 0 /\ supply s2 = supply s - 7 /\
  bal s2 7 = 10^18 - 150000 * 2000 - 12 /\
  sum_moves (e_moves o1) = - e_burn o1 /\ sum_moves (e_moves o2) = - e_burn o2.
Proof. vm_compute. repeat split; reflexivity. Qed.
