(* C07 — Dual-lane isolation: Ethereum messages only ever run through the EVM lane.
   Statements only; proofs are in Proofs/LaneProofs.v, the model in Model/Lane.v.

   Reading guide:  [runtx tbl m e sh] is baseapp.runTx up to message execution (message ValidateBasic,
   then the composed ante handler of app/antedl/ante.go) for disabled-message table [tbl], mode [m],
   environment [e] (SDK verdicts, proof store: universally quantified) and transaction shape [sh].
   [accepted ... = true] iff the transaction reaches message execution. *)
From Evm Require Import Lane LaneProofs LaneWire LaneWireProofs.
Open Scope Z_scope.

(* Every transaction is handled by exactly one lane: every decorator of the chain decides with the same
   predicate (has_single_eth), the composed handler equals the Ethereum-lane checks or the Cosmos-lane
   checks accordingly, and the Ethereum lane is taken exactly by transactions [MsgEthereumTx]. *)
Theorem C07_one_lane : forall tbl m e sh,
  Forall lane_split (ante_chain tbl) /\
  ante tbl m e sh =
    match lane_of sh with
    | LEth => match eth_lane m e sh with Some r => Reject r | None => Accept end
    | LCosmos => match cosmos_lane tbl m e sh with Some r => Reject r | None => Accept end
    end /\
  (lane_of sh = LEth <-> exists p, msgs sh = [MEth p]).
Proof. exact one_lane. Qed.
Print Assumptions C07_one_lane.

(* check / simulate / deliver: an accepted transaction that lists an Ethereum message anywhere at top
   level consists of exactly that message, carries no signatures, no signer infos, no payer, no granter,
   no memo, no timeout height, no extension option other than (at most one) ExtensionOptionsEthereumTx,
   and declares exactly the fee and the gas limit of the embedded transaction. *)
Theorem C07_eth_accept_shape : forall tbl m e sh,
  m <> MReCheck -> accepted tbl m e sh = true -> existsb is_eth (msgs sh) = true ->
  exists p, eth_shape_ok sh p /\ e_basic_ok p = true /\ e_protected p = true.
Proof. exact eth_accept_shape. Qed.
Print Assumptions C07_eth_accept_shape.

(* re-check: decorator 03 is skipped by the code (03_validate_basic.go, first statement), so the shape
   follows only with the explicit hypothesis that the same transaction passed CheckTx before (under
   whatever state e0) — which is the only way CometBFT issues a re-check. *)
Theorem C07_eth_accept_shape_recheck : forall tbl e e0 sh,
  accepted tbl MCheck e0 sh = true ->
  accepted tbl MReCheck e sh = true -> existsb is_eth (msgs sh) = true ->
  exists p, eth_shape_ok sh p /\ e_basic_ok p = true /\ e_protected p = true.
Proof. exact eth_accept_shape_recheck. Qed.
Print Assumptions C07_eth_accept_shape_recheck.

(* what re-check guarantees on its own (and every other mode too): sole message, no memo, no timeout,
   no foreign extension option; the remaining items are exactly those of decorator 03 *)
Theorem C07_eth_accept_any_mode : forall tbl m e sh,
  accepted tbl m e sh = true -> existsb is_eth (msgs sh) = true ->
  exists p, msgs sh = [MEth p] /\ s_memo sh = MemoNone /\ s_timeout sh = TNone /\ ext_ok sh = true /\
            (m <> MReCheck -> d03_eth_checks sh p = None).
Proof. exact eth_accept_any_mode. Qed.
Print Assumptions C07_eth_accept_any_mode.

(* The same statements about the VALUES on the wire (Model/LaneWire.v: [abstract max_memo height w] is the shape of the
   envelope w - signatures and signer infos as lists, payer / granter / memo as byte strings (by length), timeout height
   and gas limit as uint64, the fee as a coin list - read at block height [height] under the auth parameter
   MaxMemoCharacters = [max_memo]; the correspondence checker recomputes every generated transaction's shape with it).
   For every height and every memo bound: an accepted transaction listing an Ethereum message has NO signature entry (not
   even an empty byte string), no signer info (with or without key), payer and granter of zero bytes, a memo of zero
   bytes (whitespace is a memo), timeout height exactly 0 (no other uint64, on either side of 2^63 or of the current
   height), and fee / gas limit equal to the embedded transaction's as numbers and as denominations. *)
Theorem C07_eth_accept_wire_values : forall tbl m e max_memo height w,
  m <> MReCheck -> accepted tbl m e (abstract max_memo height w) = true -> existsb is_eth (w_msgs w) = true ->
  exists p, eth_wire_ok w p /\ e_basic_ok p = true /\ e_protected p = true.
Proof. exact eth_accept_wire. Qed.
Print Assumptions C07_eth_accept_wire_values.

Theorem C07_eth_accept_wire_values_recheck : forall tbl e e0 max_memo height height0 w,
  accepted tbl MCheck e0 (abstract max_memo height0 w) = true ->
  accepted tbl MReCheck e (abstract max_memo height w) = true -> existsb is_eth (w_msgs w) = true ->
  exists p, eth_wire_ok w p /\ e_basic_ok p = true /\ e_protected p = true.
Proof. exact eth_accept_wire_recheck. Qed.
Print Assumptions C07_eth_accept_wire_values_recheck.

Theorem C07_eth_accept_wire_any_mode : forall tbl m e max_memo height w,
  accepted tbl m e (abstract max_memo height w) = true -> existsb is_eth (w_msgs w) = true ->
  exists p, w_msgs w = [MEth p] /\ v_memo (w_vals w) = 0 /\ v_timeout (w_vals w) = 0 /\
            w_noncrit w = [] /\ (w_ext w = [] \/ w_ext w = [XEth]).
Proof. exact eth_accept_wire_any_mode. Qed.
Print Assumptions C07_eth_accept_wire_any_mode.

Theorem C07_eth_timeout_height_zero : forall tbl m e max_memo height w,
  accepted tbl m e (abstract max_memo height w) = true -> existsb is_eth (w_msgs w) = true ->
  forall t, 0 < t < 2 ^ 64 -> v_timeout (w_vals w) <> t.
Proof. exact eth_timeout_value_zero. Qed.
Print Assumptions C07_eth_timeout_height_zero.

(* The shape statement WITHOUT the hypothesis is false of the faithful model in re-check mode: *)
Definition C07_recheck_shape_full : Prop := forall tbl e sh,
  accepted tbl MReCheck e sh = true -> existsb is_eth (msgs sh) = true -> exists p, eth_shape_ok sh p.

Definition env0 : env :=
  {| has_proof := fun _ => false; sdk_vb := None; sdk_rest := fun _ => None; payer_can_pay := true; granter_allows := false |}.
Definition eth_canonical : shape :=
  {| msgs := [MEth eth0]; ext_opts := [XEth]; noncrit := []; n_sigs := 0; n_infos := 0; payer := false; granter := false;
     s_memo := MemoNone; s_timeout := TNone; fee := [(0%N, 21000)]; gas_limit := 21000 |}.
Definition eth_with_sig : shape :=
  {| msgs := [MEth eth0]; ext_opts := [XEth]; noncrit := []; n_sigs := 1; n_infos := 0; payer := false; granter := false;
     s_memo := MemoNone; s_timeout := TNone; fee := [(0%N, 21000)]; gas_limit := 21000 |}.

Theorem C07_recheck_shape_full_refuted : ~ C07_recheck_shape_full.
Proof.
  intros H. destruct (H default_disabled env0 eth_with_sig) as [p Hp]; try reflexivity.
  destruct Hp as (_ & Hs & _). discriminate.
Qed.
Print Assumptions C07_recheck_shape_full_refuted.

(* Cosmos lane, any mode, any table: in an accepted transaction that is not an Ethereum-lane transaction,
   for EVERY message x found d levels down (d = 0: listed; d+1: inside a MsgExec found at level d):
   the depth is below the cap; a MsgExec sits at most at the last-but-one level; no Ethereum message is
   listed at top level; a nested message (d >= 1) is of no disabled type; a MsgGrant (at any depth) grants
   no disabled type; a top-level vesting creation targets an address with a stored proof. *)
Theorem C07_cosmos_no_disabled_any_depth : forall tbl m e sh d x,
  accepted tbl m e sh = true -> has_single_eth (msgs sh) = false -> occurs d x (msgs sh) ->
  (d < MAX_NESTED_LEVELS)%nat /\
  (is_exec x = true -> (S d < MAX_NESTED_LEVELS)%nat) /\
  (d = 0%nat -> is_eth x = false) /\
  ((1 <= d)%nat -> is_exec x = false -> is_grant x = false -> memN (tid x) tbl = false) /\
  (forall u, x = MGrant u -> memN u tbl = false) /\
  (d = 0%nat -> forall k a, x = MVesting k a -> has_proof e a = true).
Proof. exact cosmos_no_disabled_any_depth. Qed.
Print Assumptions C07_cosmos_no_disabled_any_depth.

(* with the table the application installs (re-read from the running code on every run and compared with
   [default_disabled] by the correspondence checker): no Ethereum message at any depth, no vesting-creation
   message below the top level, no grant for either *)
Theorem C07_cosmos_default_table : forall m e sh d x,
  accepted default_disabled m e sh = true -> has_single_eth (msgs sh) = false -> occurs d x (msgs sh) ->
  is_eth x = false /\
  ((1 <= d)%nat -> forall k a, x <> MVesting k a) /\
  (forall u, x = MGrant u -> u <> TID_ETH /\ forall k, u <> tid_vesting k).
Proof. exact cosmos_default_table. Qed.
Print Assumptions C07_cosmos_default_table.

Theorem C07_deep_nesting_rejected : forall tbl m e sh x,
  has_single_eth (msgs sh) = false -> occurs MAX_NESTED_LEVELS x (msgs sh) -> accepted tbl m e sh = false.
Proof. exact deep_nesting_rejected. Qed.
Print Assumptions C07_deep_nesting_rejected.

Theorem C07_grant_refused : forall tbl m e sh d u,
  accepted tbl m e sh = true -> has_single_eth (msgs sh) = false -> occurs d (MGrant u) (msgs sh) ->
  memN u tbl = false.
Proof.
  intros tbl m e sh d u Ha Hl Ho.
  exact (proj1 (proj2 (proj2 (proj2 (proj2 (cosmos_no_disabled_any_depth tbl m e sh d _ Ha Hl Ho))))) u eq_refl).
Qed.
Print Assumptions C07_grant_refused.

(* the screening is not simply "reject": it fails only if a forbidden occurrence really exists *)
Theorem C07_screening_complete : forall tbl l r,
  check_disabled tbl l = Some r -> exists d y, occurs d y l /\ bad_at tbl d y.
Proof. exact screening_complete. Qed.
Print Assumptions C07_screening_complete.

(* Routes.  Out of a TRANSACTION (top level, or dispatched by authz out of a MsgExec of it) the Ethereum
   handler runs only for the sole top-level message of an Ethereum-lane transaction of the demanded shape. *)
Theorem C07_eth_handler_only_via_evm_lane : forall tbl e sh r p,
  memN TID_ETH tbl = true ->
  In (r, MEth p) (executed_tx tbl e sh) ->
  r = TopLevel /\ lane_of sh = LEth /\ eth_shape_ok sh p.
Proof. exact eth_handler_only_via_evm_lane. Qed.
Print Assumptions C07_eth_handler_only_via_evm_lane.

(* The same statement for the ICA host route (MsgRecvPacket is a registered message type, so this is inside
   the property's quantifier) is FALSE of the faithful model: with the default host parameters
   (enabled, allow all) OnRecvPacket hands a MsgEthereumTx to its handler and no ante handler runs.
   Known finding C07/routes/ica-host/MsgEthereumTx-executed-without-ante (DESIGN section 7 #15). *)
Definition C07_ica_route_full : Prop := forall p signers_ok l q,
  ~ In (InIcaPacket, MEth q) (executed_ica p signers_ok l).

Theorem C07_ica_route_refuted : ~ C07_ica_route_full.
Proof. intros H. exact (H ica_default true [MEth eth0] eth0 ica_executes_eth). Qed.
Print Assumptions C07_ica_route_refuted.

(* strongest true weakening: the host is safe for a message type iff its allow list (not "*") keeps that
   type and MsgExec out *)
Theorem C07_ica_route_partial : forall p ok l x,
  ica_allow_all p = false -> memN (tid x) (ica_allow p) = false -> memN TID_EXEC (ica_allow p) = false ->
  ~ In (InIcaPacket, x) (executed_ica p ok l).
Proof. exact ica_safe_if_not_allowed. Qed.
Print Assumptions C07_ica_route_partial.

(* ---- non-vacuity: the hypotheses are met by concrete shapes, and the model both accepts and rejects *)
Definition wvals0 : wvals :=
  {| v_sigs := []; v_infos := []; v_payer := 0; v_granter := 0; v_memo := 0; v_timeout := 0; v_fee := [(0%N, 21000)]; v_gas := 21000 |}.
Definition wire_canonical : wire := {| w_msgs := [MEth eth0]; w_ext := [XEth]; w_noncrit := []; w_vals := wvals0 |}.
Definition wire_with (v : wvals) : wire := {| w_msgs := [MEth eth0]; w_ext := [XEth]; w_noncrit := []; w_vals := v |}.

Example C07_example_wire_values :
  abstract 256 100 wire_canonical = eth_canonical /\
  accepted default_disabled MDeliver env0 (abstract 256 100 wire_canonical) = true /\
  (* timeout heights around the current height and around 2^63 *)
  forallb (fun t => negb (accepted default_disabled MDeliver env0 (abstract 256 100 (wire_with
     {| v_sigs := []; v_infos := []; v_payer := 0; v_granter := 0; v_memo := 0; v_timeout := t; v_fee := [(0%N, 21000)]; v_gas := 21000 |}))))
     [1; 99; 100; 101; 2 ^ 31; 2 ^ 32; 2 ^ 63 - 1; 2 ^ 63; 2 ^ 64 - 1] = true /\
  (* one signature entry of zero bytes; a memo of one byte *)
  accepted default_disabled MDeliver env0 (abstract 256 100 (wire_with
     {| v_sigs := [0]; v_infos := []; v_payer := 0; v_granter := 0; v_memo := 0; v_timeout := 0; v_fee := [(0%N, 21000)]; v_gas := 21000 |})) = false /\
  accepted default_disabled MReCheck env0 (abstract 256 100 (wire_with
     {| v_sigs := []; v_infos := []; v_payer := 0; v_granter := 0; v_memo := 1; v_timeout := 0; v_fee := [(0%N, 21000)]; v_gas := 21000 |})) = false /\
  (* the right amount under another denomination id *)
  accepted default_disabled MCheck env0 (abstract 256 100 (wire_with
     {| v_sigs := []; v_infos := []; v_payer := 0; v_granter := 0; v_memo := 0; v_timeout := 0; v_fee := [(2%N, 21000)]; v_gas := 21000 |})) = false.
Proof. vm_compute. repeat split. Qed.

Definition send : msg := MOther 0.
Definition cosmos_sh (l : list msg) : shape :=
  {| msgs := l; ext_opts := []; noncrit := []; n_sigs := 1; n_infos := 1; payer := false; granter := false;
     s_memo := MemoShort; s_timeout := TFuture; fee := [(0%N, 500000)]; gas_limit := 500000 |}.

Example C07_example_eth_lane :
  accepted default_disabled MCheck env0 eth_canonical = true /\
  accepted default_disabled MDeliver env0 eth_canonical = true /\
  accepted default_disabled MCheck env0 eth_with_sig = false /\
  accepted default_disabled MReCheck env0 eth_with_sig = true /\
  executed_tx default_disabled env0 eth_canonical = [(TopLevel, MEth eth0)].
Proof. vm_compute. auto. Qed.

Example C07_example_cosmos_lane :
  (* nesting up to the cap is accepted, one more level is not *)
  accepted default_disabled MDeliver env0 (cosmos_sh [MExec [MExec [send]]]) = true /\
  accepted default_disabled MDeliver env0 (cosmos_sh [MExec [MExec [MExec [send]]]]) = false /\
  (* an Ethereum or vesting message nested at depth 1 or 2 is refused, beside other messages too *)
  accepted default_disabled MDeliver env0 (cosmos_sh [MExec [MEth eth0]]) = false /\
  accepted default_disabled MDeliver env0 (cosmos_sh [send; MExec [MExec [MVesting VPeriodic 7]]]) = false /\
  accepted default_disabled MDeliver env0 (cosmos_sh [send; MEth eth0]) = false /\
  accepted default_disabled MReCheck env0 (cosmos_sh [send; MEth eth0]) = false /\
  (* grants *)
  accepted default_disabled MCheck env0 (cosmos_sh [MGrant 0]) = false /\
  accepted default_disabled MCheck env0 (cosmos_sh [MExec [MGrant 2]]) = false /\
  accepted default_disabled MCheck env0 (cosmos_sh [MGrant 10]) = true /\
  (* hypotheses of C07_cosmos_no_disabled_any_depth are satisfiable with d = 2 *)
  occurs 2 send (msgs (cosmos_sh [MExec [MExec [send]]])).
Proof.
  repeat split; try (vm_compute; reflexivity).
  eapply occ_deeper; [left; reflexivity|]. eapply occ_deeper; [left; reflexivity|]. apply occ_here. left; reflexivity.
Qed.
