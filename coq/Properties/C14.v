(* C14 — Transaction indexer and JSON-RPC views agree with consensus results; indexing is idempotent and
   crash-convergent.  Statements only; proofs are in Proofs/IndexerProofs.v, the model (the code as it is) in
   Model/Indexer.v, evaluated on the cases of the `indexer` driver by Corr/CorrIndexer.v.

   Vocabulary.  A chain is a list of blocks (block i has height i+1); a block is a list of transactions with the
   ExecTxResult data the indexer / RPC read.  `passed t` = an Ethereum transaction admitted by the ante handler;
   `block_eth_tx c H i` = the i-th such transaction of block H ("real position": read off the block, no indexer
   involved); `run c` = the index DB after indexing the chain in order; `block_cons_receipts H b` = the consensus
   receipts of block H (from the tx_receipt events; for an admitted transaction that failed afterwards or exceeded
   the block gas limit: status 0, gas = gas limit, no logs).
   Hypotheses.  `wf_chain c`: consensus results have the shape FinalizeBlock produces; `NoDup (chain_hashes c)`:
   admitted Ethereum transactions have distinct hashes (nonces).  Both are evaluated (`chain_hyps`) on every chain
   of the driver inside Coq, and checked by the driver's Go oracle on the raw results. *)
From Coq Require Import Lia.
From Evm Require Import Indexer IndexerProofs.
Open Scope Z_scope.

(* ------------------------------------------------------------------ 1. lookups *)

(* by hash: for EVERY hash (known or not) the index answers exactly with the position read off the chain *)
Theorem C14_lookup_by_hash : forall c, wf_chain c = true -> NoDup (chain_hashes c) ->
  forall h, get_by_hash (run c) h = chain_pos c h.
Proof. exact lookup_hash. Qed.
Print Assumptions C14_lookup_by_hash.

(* by (block, index): for EVERY pair (unknown block, negative or out-of-range index included) *)
Theorem C14_lookup_by_block_index : forall c, wf_chain c = true -> NoDup (chain_hashes c) ->
  forall H i, get_by_block_index (run c) H i =
              match block_eth_hash c H i with Some h => chain_pos c h | None => None end.
Proof. exact lookup_index. Qed.
Print Assumptions C14_lookup_by_block_index.

(* both lookups agree with each other and with the real position: block H, position p in the block where p is the
   place of the i-th admitted Ethereum transaction, Ethereum index i, and the consensus failed flag *)
Theorem C14_lookups_agree_with_real_position : forall c, wf_chain c = true -> NoDup (chain_hashes c) ->
  forall H i t, block_eth_tx c H i = Some t ->
  exists b p, block_at c H = Some b /\ pos_of b (Z.to_nat i) = Some p /\ nth_error b p = Some t /\ 0 <= i /\
    get_by_hash (run c) (tv_hash t) = Some (Res H (Z.of_nat p) i (spec_failed t)) /\
    get_by_block_index (run c) H i = Some (Res H (Z.of_nat p) i (spec_failed t)).
Proof. exact entry_of_block_tx. Qed.
Print Assumptions C14_lookups_agree_with_real_position.

(* nothing else is in the index: an answer always names an admitted Ethereum transaction at that very position *)
Theorem C14_index_answers_are_real : forall c, wf_chain c = true -> NoDup (chain_hashes c) ->
  forall h r, get_by_hash (run c) h = Some r ->
  exists b t, block_at c (r_height r) = Some b /\ 0 <= r_txidx r /\ nth_error b (Z.to_nat (r_txidx r)) = Some t /\
    tv_hash t = h /\ passed t = true /\ block_eth_tx c (r_height r) (r_ethidx r) = Some t /\ r_failed r = spec_failed t.
Proof. exact index_sound. Qed.
Print Assumptions C14_index_answers_are_real.

Theorem C14_unknown_hash_not_found : forall c, wf_chain c = true -> NoDup (chain_hashes c) ->
  forall h, get_by_hash (run c) h = None <-> ~ In h (chain_hashes c).
Proof. exact unknown_hash. Qed.
Print Assumptions C14_unknown_hash_not_found.

(* ------------------------------------------------------------------ 2. JSON-RPC views = consensus results *)

(* eth_getTransactionReceipt: the consensus receipt (status, gas used, cumulative gas, logs, contract flag), the real
   block and index, the sender; for failed / block-gas-exceeded transactions the synthetic receipt equals the
   consensus one (status 0, gas limit, no logs, cumulative gas including it) *)
Theorem C14_rpc_receipt_is_consensus_receipt : forall c, wf_chain c = true -> NoDup (chain_hashes c) ->
  forall H i t b, block_at c H = Some b -> block_eth_tx c H i = Some t ->
  exists v, rpc_receipt c (run c) (tv_hash t) = Some v /\
            nth_error (block_cons_receipts H b) (Z.to_nat i) = Some v /\
            rv_height v = H /\ rv_index v = i /\ rv_from v = tv_from t /\
            (first_rc (tv_events t) = None ->
             rv_status v = 0 /\ rv_gas v = tv_gas t /\ rv_logs v = [] /\ rv_contract v = false).
Proof. exact rpc_receipt_consensus. Qed.
Print Assumptions C14_rpc_receipt_is_consensus_receipt.

(* cumulative gas of the k-th consensus receipt (= of the RPC receipt, previous theorem) is the gas of all admitted
   Ethereum transactions of the block up to and including it, failed ones counted with their gas limit *)
Theorem C14_cumulative_gas_is_running_sum : forall l height ei sum k t v, cum_ok sum l = true ->
  nth_error l k = Some t -> nth_error (cons_receipts height ei sum l) k = Some v ->
  rv_cum v = sum + gas_sum (firstn (S k) l).
Proof. exact cum_is_running_sum. Qed.
Print Assumptions C14_cumulative_gas_is_running_sum.

(* eth_getTransactionByHash and eth_getTransactionByBlockNumberAndIndex: same transaction, real block and index *)
Theorem C14_rpc_transaction_views : forall c, wf_chain c = true -> NoDup (chain_hashes c) ->
  forall H i t, block_eth_tx c H i = Some t ->
  rpc_tx_by_hash c (run c) (tv_hash t) = Some (TV H i (tv_hash t) (tv_from t)) /\
  rpc_tx_by_block_index c (run c) H i = Some (TV H i (tv_hash t) (tv_from t)).
Proof. exact rpc_tx_views. Qed.
Print Assumptions C14_rpc_transaction_views.

Theorem C14_rpc_unknown_hash : forall c, wf_chain c = true -> NoDup (chain_hashes c) ->
  forall h, ~ In h (chain_hashes c) -> rpc_receipt c (run c) h = None /\ rpc_tx_by_hash c (run c) h = None.
Proof. exact rpc_receipt_unknown. Qed.
Print Assumptions C14_rpc_unknown_hash.

Theorem C14_rpc_index_out_of_range : forall c, wf_chain c = true -> NoDup (chain_hashes c) ->
  forall H i, 0 <= i -> block_eth_tx c H i = None -> rpc_tx_by_block_index c (run c) H i = None.
Proof. exact rpc_tx_by_index_out_of_range. Qed.
Print Assumptions C14_rpc_index_out_of_range.

(* eth_getBlockByNumber: the admitted Ethereum transactions in block order, gas used = last consensus cumulative gas *)
Theorem C14_rpc_block_is_consensus_block : forall c, wf_chain c = true -> NoDup (chain_hashes c) ->
  forall H b, block_at c H = Some b ->
  rpc_block c (run c) H = BSome (map tv_hash (block_eth_txs b)) (block_gas_used H b).
Proof. exact rpc_block_consensus. Qed.
Print Assumptions C14_rpc_block_is_consensus_block.

Theorem C14_rpc_tx_count : forall c, wf_chain c = true -> forall H b, block_at c H = Some b ->
  rpc_tx_count c H = Some (Z.of_nat (length (block_eth_txs b))).
Proof. exact rpc_tx_count_consensus. Qed.
Print Assumptions C14_rpc_tx_count.

(* eth_getLogs by block: one group per executed transaction in block order; flattened, exactly the logs of the
   consensus receipts *)
Theorem C14_rpc_logs_are_consensus_logs : forall c, wf_chain c = true -> forall H b, block_at c H = Some b ->
  rpc_logs c H = Some (block_logs b) /\
  concat (block_logs b) = concat (map rv_logs (block_cons_receipts H b)).
Proof. exact rpc_logs_consensus. Qed.
Print Assumptions C14_rpc_logs_are_consensus_logs.

Theorem C14_rpc_unknown_block : forall c d H, block_at c H = None ->
  rpc_block c d H = BNone /\ rpc_tx_count c H = None /\ rpc_logs c H = None /\
  forall i, rpc_tx_by_block_index c d H i = None.
Proof. exact rpc_block_unknown. Qed.
Print Assumptions C14_rpc_unknown_block.

(* ------------------------------------------------------------------ 3. the index is a function of the chain alone *)

(* writing a block's batch a second time changes no answer, whatever the database held *)
Theorem C14_index_block_idempotent : forall h b d,
  db_equiv (db_write (db_write d (index_block h b)) (index_block h b)) (db_write d (index_block h b)).
Proof. exact index_block_idempotent. Qed.
Print Assumptions C14_index_block_idempotent.

(* indexing any blocks of the chain again - any heights, any order, any number of times - changes nothing *)
Theorem C14_reindexing_changes_nothing : forall c, wf_chain c = true -> NoDup (chain_hashes c) ->
  forall hs d, db_equiv d (run c) -> db_equiv (feed c d hs) (run c).
Proof. exact reindex_noop. Qed.
Print Assumptions C14_reindexing_changes_nothing.

(* whatever the order and multiplicity in which blocks reach IndexBlock, once all have, the index is that of the chain *)
Theorem C14_index_is_function_of_chain : forall c, wf_chain c = true -> NoDup (chain_hashes c) ->
  forall hs, (forall H, 1 <= H <= Z.of_nat (length c) -> In H hs) -> db_equiv (feed c [] hs) (run c).
Proof. exact index_any_order. Qed.
Print Assumptions C14_index_is_function_of_chain.

(* the live service: the index does not depend on when and how often the node announced blocks (stale, repeated
   and skipped announcements included) *)
Theorem C14_index_independent_of_announcements : forall c s0 anns, 0 <= s0 -> s0 <= Z.of_nat (length c) ->
  svc_loop c [] s0 (anns ++ [Z.of_nat (length c)]) = run_from c s0.
Proof. exact index_function_of_chain. Qed.
Print Assumptions C14_index_independent_of_announcements.

(* ------------------------------------------------------------------ 4. crash convergence *)

(* A service history is a list of lives `SL (Inc start end kill) earliest startfail plan`: the process starts when the node
   is at `start` (its EarliestBlockHeight being `earliest`), the node grows to `end` while it runs, the process is
   killed after `kill` batch writes; `startfail` = Status or Subscribe returned an error (OnStart returns before anything is read or written); `plan` = for each height the
   outcomes (true = error) of the successive Block(h) and BlockResults(h) calls of the node client during this life.
   `tolerable L`: during catch-up (heights <= start) no height is fetched in vain more than 10 times; heights fetched by
   the live loop (> start) may fail ANY number of times.

   Any number of lives, each killed at an arbitrary write boundary, each over a node client that fails transiently in
   an arbitrary pattern, the last one running to the head: the database is IDENTICAL to that of the uninterrupted run
   over a node that always answers, begun when the node was at s0.  Hypothesis ssched_ok: a life that begins with an
   EMPTY index DB begins with the node exactly where the indexer had got to (lives that fail to start are exempt).
   (Blocks without Ethereum transactions leave no key: after a restart with a non-empty DB they are indexed again -
   harmless by idempotence, part of this proof.) *)
Theorem C14_crash_converges_partial : forall c s0 l fin,
  (forall L, In L (l ++ [fin]) -> sl_earliest L <= 1) -> 0 <= s0 -> s0 <= Z.of_nat (length c) ->
  (forall L, In L (l ++ [fin]) -> tolerable L) ->
  ssched_ok c [] s0 (l ++ [fin]) = true ->
  sl_startfail fin = false ->
  i_end (sl_inc fin) = Z.of_nat (length c) -> Z.of_nat (length c) <= Z.of_nat (i_kill (sl_inc fin)) ->
  slife_run c (l ++ [fin]) = run_from c s0.
Proof. exact crash_converges_rpc. Qed.
Print Assumptions C14_crash_converges_partial.

(* the special case of a node that always answers (lives = kill points only) *)
Theorem C14_crash_converges_node_always_answers : forall c earliest s0 l fin,
  earliest <= 1 -> 0 <= s0 -> s0 <= Z.of_nat (length c) ->
  sched_ok c earliest [] s0 (l ++ [fin]) = true ->
  i_end fin = Z.of_nat (length c) -> Z.of_nat (length c) <= Z.of_nat (i_kill fin) ->
  life c earliest (l ++ [fin]) = run_from c s0.
Proof. exact crash_converges. Qed.
Print Assumptions C14_crash_converges_node_always_answers.

(* per life and from ANY database: transient failures of the node client leave no trace in the index - the life writes
   exactly what it writes over a node that always answers (a failed fetch is retried at the same height) *)
Theorem C14_transient_rpc_failures_leave_no_trace : forall c d L, tolerable L -> sl_startfail L = false ->
  run_slife c d L = run_incarnation c (sl_earliest L) d (sl_inc L).
Proof. exact rpc_failures_invisible. Qed.
Print Assumptions C14_transient_rpc_failures_leave_no_trace.

(* failures in the live new-block loop only (none planned for the catch-up heights): no bound on their number *)
Theorem C14_live_loop_failures_leave_no_trace : forall c d L,
  (forall h, h <= i_start (sl_inc L) -> failures (sl_plan L) h = 0%nat) -> sl_startfail L = false ->
  run_slife c d L = run_incarnation c (sl_earliest L) d (sl_inc L).
Proof. exact live_loop_failures_invisible. Qed.
Print Assumptions C14_live_loop_failures_leave_no_trace.

(* the cursor never moves past a height that was not handed to IndexBlock: in a loop that does not exceed the start-up
   threshold and is not killed, every entry of every block between the cursor and the target is in the database *)
Theorem C14_cursor_never_passes_an_unindexed_height : forall c start p n d cur bud H b k v,
  (forall i, cur < i <= cur + Z.of_nat n -> skips start p i = false) -> (n <= bud)%nat ->
  0 <= cur -> cur < H <= cur + Z.of_nat n -> block_at c H = Some b -> In (k, v) (index_block H b) ->
  db_get k (svc_run c start p d cur bud n) <> None.
Proof. exact no_height_skipped. Qed.
Print Assumptions C14_cursor_never_passes_an_unindexed_height.

(* The full statement for a node that always answers - every physically possible history (node height never decreases),
   no condition on the DB being empty at a restart - is FALSE of the faithful model: OnStart resumes from the node's
   LATEST height when the DB is empty, so a block committed while the indexer was down (or being indexed when it was
   killed) is skipped.
   Known finding C14/indexer/empty-db-restart-skips-committed-block, reproduced on the real EVMIndexerService. *)
Definition C14_crash_converges_full : Prop := crash_converges_full.
Theorem C14_crash_converges_refuted : ~ C14_crash_converges_full.
Proof. exact crash_converges_refuted. Qed.
Print Assumptions C14_crash_converges_refuted.

(* The statement without the bound on catch-up failures (`tolerable` dropped, ssched_ok kept) is FALSE of the faithful
   model as well: while the indexer is not yet marked ready, the 11th failed fetch of a height makes the service give up
   on it (the retries follow each other without any delay); a later block with an Ethereum transaction then moves the
   resume point past it and no restart returns to it.
   Known finding C14/indexer/startup-gives-up-after-11-failed-fetches, reproduced on the real EVMIndexerService. *)
Definition C14_crash_converges_any_node_failures_full : Prop := crash_converges_rpc_full.
Theorem C14_crash_converges_any_node_failures_refuted : ~ C14_crash_converges_any_node_failures_full.
Proof. exact crash_converges_rpc_refuted. Qed.
Print Assumptions C14_crash_converges_any_node_failures_refuted.

(* ... but both only LOSE entries: after EVERY history (no hypothesis on schedule or node failures at all) every answer
   of the index is an answer of the uninterrupted index, hence (C14_index_answers_are_real) the real position of a real
   transaction *)
Theorem C14_any_history_only_real_answers : forall c, wf_chain c = true -> NoDup (chain_hashes c) ->
  forall l h r, get_by_hash (slife_run c l) h = Some r -> get_by_hash (run c) h = Some r.
Proof. exact any_rpc_history_answers_are_real. Qed.
Print Assumptions C14_any_history_only_real_answers.

(* restart on a node that has pruned past the last indexed block (EarliestBlockHeight > last indexed block): the life -
   not killed before the end, tolerating its node - indexes every block the node still serves, the earliest one
   included (fixed in /repo: the service used to resume one block too late) *)
Theorem C14_pruned_restart_indexes_from_earliest : forall c d L H b k v,
  let i := sl_inc L in
  sl_startfail L = false -> tolerable L ->
  last_indexed d <> -1 -> last_indexed d < sl_earliest L -> 1 <= sl_earliest L ->
  (Z.to_nat (i_end i - (sl_earliest L - 1)) <= i_kill i)%nat ->
  sl_earliest L <= H <= i_end i -> block_at c H = Some b -> In (k, v) (index_block H b) ->
  db_get k (run_slife c d L) <> None.
Proof. exact pruned_restart_indexes_from_earliest. Qed.
Print Assumptions C14_pruned_restart_indexes_from_earliest.

(* the boolean checks evaluated on every harness chain give the hypotheses used above *)
Theorem C14_chain_hyps_sound : forall c, chain_hyps c = true ->
  wf_chain c = true /\ cum_chain_ok c = true /\ NoDup (chain_hashes c).
Proof. exact chain_hyps_sound. Qed.
Print Assumptions C14_chain_hyps_sound.

(* ------------------------------------------------------------------ non-vacuity *)
(* block 1 empty; block 2: executed tx, Cosmos tx, tx dropped before the ante handler, admitted tx that exceeded the
   block gas limit (code != 0, ethereum_tx event, no receipt), executed tx with two logs; block 3: one executed tx *)
Definition ex_ok : txv :=
  Tx true true true 11 50000 101 true [EvEth true; EvRc (Rc 0 2 false 1 21000 21000 None 0 false)].
Definition ex_cosmos : txv := Tx true false true 0 0 0 true [].
Definition ex_dropped : txv := Tx true true true 12 70000 102 false [].
Definition ex_failed : txv := Tx true true true 13 30000 103 false [EvEth true].
Definition ex_logs : txv :=
  Tx true true true 14 60000 104 true [EvEth true; EvRc (Rc 2 2 true 0 40000 91000 (Some 0) 2 false)].
Definition ex_last : txv :=
  Tx true true true 15 25000 105 true [EvEth true; EvRc (Rc 0 3 false 1 21000 21000 None 0 true)].
Definition ex_chain : chain := [[]; [ex_ok; ex_cosmos; ex_dropped; ex_failed; ex_logs]; [ex_last]].

Example C14_example_hyps : chain_hyps ex_chain = true.
Proof. vm_compute. reflexivity. Qed.

Example C14_example_lookups :
  block_eth_tx ex_chain 2 1 = Some ex_failed /\
  get_by_hash (run ex_chain) 13 = Some (Res 2 3 1 true) /\
  get_by_block_index (run ex_chain) 2 1 = Some (Res 2 3 1 true) /\
  get_by_hash (run ex_chain) 14 = Some (Res 2 4 2 true) /\
  get_by_hash (run ex_chain) 12 = None /\ get_by_block_index (run ex_chain) 2 3 = None /\
  get_by_block_index (run ex_chain) 1 0 = None /\ get_by_block_index (run ex_chain) 4 0 = None.
Proof. vm_compute. repeat split. Qed.

Example C14_example_rpc :
  rpc_receipt ex_chain (run ex_chain) 13 = Some (RV 0 30000 51000 2 1 103 [] false) /\
  nth_error (block_cons_receipts 2 [ex_ok; ex_cosmos; ex_dropped; ex_failed; ex_logs]) 1 = Some (RV 0 30000 51000 2 1 103 [] false) /\
  rpc_receipt ex_chain (run ex_chain) 14 = Some (RV 0 40000 91000 2 2 104 [0; 1] false) /\
  rpc_receipt ex_chain (run ex_chain) 12 = None /\
  rpc_block ex_chain (run ex_chain) 2 = BSome [11; 13; 14] 91000 /\
  rpc_tx_by_block_index ex_chain (run ex_chain) 2 2 = Some (TV 2 2 14 104) /\
  rpc_tx_by_block_index ex_chain (run ex_chain) 2 3 = None /\
  rpc_logs ex_chain 2 = Some [[]; [0; 1]] /\ rpc_tx_count ex_chain 2 = Some 3.
Proof. vm_compute. repeat split. Qed.

(* a history that satisfies sched_ok and does interrupt indexing: the first life is killed after one batch (block 1 is
   empty, so the DB is still empty) with the node still at height 1; the second is killed after writing block 2 while
   the node is at 3; the third resumes from the last indexed block *)
Example C14_example_crash :
  sched_ok ex_chain 1 [] 0 ([Inc 0 1 1; Inc 1 3 1] ++ [Inc 3 3 9]) = true /\
  life ex_chain 1 ([Inc 0 1 1; Inc 1 3 1] ++ [Inc 3 3 9]) = run ex_chain /\
  run_incarnation ex_chain 1 [] (Inc 0 1 1) = [] /\
  run_incarnation ex_chain 1 [] (Inc 1 3 1) <> run ex_chain.
Proof. vm_compute. repeat split. discriminate. Qed.

(* and the same history with the node one block further at the second start loses block 2 *)
Example C14_example_empty_restart_skips :
  sched_phys 3 0 [Inc 0 1 1; Inc 2 3 9] = true /\
  get_by_hash (life ex_chain 1 [Inc 0 1 1; Inc 2 3 9]) 11 = None /\
  get_by_hash (run ex_chain) 11 = Some (Res 2 0 0 false) /\
  get_by_hash (life ex_chain 1 [Inc 0 1 1; Inc 2 3 9]) 15 = Some (Res 3 0 0 false).
Proof. vm_compute. repeat split. Qed.

(* a history with node failures that satisfies every hypothesis of C14_crash_converges_partial (chain: ex_chain plus a
   fourth block with one executed tx): the first life (node at 0, growing to 2) sees Block(2) fail twice in its live loop
   and is killed after two batches; the second fails at Status; the third (node at 4) catches up from block 2 with
   Block(3) failing once and BlockResults(3) nine times (10 failed passes), then Block(4) answering, BlockResults(4)
   failing, Block(4) failing, and both answering; the result is the uninterrupted index *)
Definition ex_four : txv :=
  Tx true true true 16 25000 106 true [EvEth true; EvRc (Rc 0 4 false 1 21000 21000 None 0 false)].
Definition ex_chain4 : chain := ex_chain ++ [[ex_four]].
Definition ex_plan : list hplan := [HP 3 [true] (repeat true 9); HP 4 [false; true] [true]].
Definition ex_history : list slife :=
  [SL (Inc 0 2 2) 1 false [HP 2 [true; true] []]; SL (Inc 3 3 9) 1 true []] ++ [SL (Inc 4 4 9) 1 false ex_plan].

Example C14_example_node_failures :
  chain_hyps ex_chain4 = true /\
  ssched_ok ex_chain4 [] 0 ex_history = true /\
  (forall L, In L ex_history -> tolerable L /\ sl_earliest L <= 1) /\
  slife_run ex_chain4 ex_history = run ex_chain4 /\
  failures ex_plan 3 = 10%nat /\ failures ex_plan 4 = 2%nat.
Proof.
  split; [vm_compute; reflexivity|]. split; [vm_compute; reflexivity|]. split; [|vm_compute; repeat split].
  intros L HL. split; [|cbn in HL; repeat (destruct HL as [<-|HL]; [cbn; lia|]); contradiction].
  intros h _. unfold startup_failure_threshold.
  cbn in HL. repeat (destruct HL as [<-|HL]; [unfold failures, plan_at; cbn [sl_plan find hp_height hp_block hp_results ex_plan];
    repeat (match goal with |- context [?a =? h] => destruct (a =? h) end); vm_compute; lia|]). contradiction.
Qed.

(* one more failed fetch of block 3 during catch-up and the service gives up on it: block 4 is indexed, the resume point
   is past block 3, and another (undisturbed) life does not bring its transaction back *)
Definition ex_history_gives_up : list slife :=
  [SL (Inc 0 2 2) 1 false []; SL (Inc 4 4 9) 1 false [HP 3 [true] (repeat true 10)]; SL (Inc 4 4 9) 1 false []].
(* the same failures met in the live loop (the node is at 2 when the life starts) are retried for as long as it takes *)
Definition ex_history_live : list slife :=
  [SL (Inc 0 2 2) 1 false []; SL (Inc 2 4 9) 1 false [HP 3 [true] (repeat true 10)]].

Example C14_example_startup_gives_up :
  ssched_ok ex_chain4 [] 0 ex_history_gives_up = true /\
  get_by_hash (slife_run ex_chain4 ex_history_gives_up) 15 = None /\
  get_by_hash (run ex_chain4) 15 = Some (Res 3 0 0 false) /\
  get_by_hash (slife_run ex_chain4 ex_history_gives_up) 16 = Some (Res 4 0 0 false) /\
  slife_run ex_chain4 ex_history_live = run ex_chain4.
Proof. vm_compute. repeat split. Qed.

(* the node pruned blocks 1-2 while the indexer (which had indexed block 2) was down: block 3, the earliest block the
   node still serves, is indexed by the next life *)
Example C14_example_pruned_restart :
  let d := run_slife ex_chain4 [] (SL (Inc 0 2 9) 1 false []) in
  last_indexed d = 2 /\
  get_by_hash (run_slife ex_chain4 d (SL (Inc 4 4 9) 3 false [])) 15 = Some (Res 3 0 0 false) /\
  get_by_hash (run_slife ex_chain4 d (SL (Inc 4 4 9) 4 false [])) 15 = None /\
  get_by_hash (run_slife ex_chain4 d (SL (Inc 4 4 9) 4 false [])) 16 = Some (Res 4 0 0 false).
Proof. vm_compute. repeat split. Qed.

Example C14_example_any_order :
  forall k, In k [KHash 11; KHash 13; KHash 14; KHash 15; KIdx 2 0; KIdx 2 1; KIdx 2 2; KIdx 3 0; KIdx 2 3] ->
  db_get k (feed ex_chain [] [3; 2; 3; 1; 2]) = db_get k (run ex_chain).
Proof. intros k H. cbn in H. repeat (destruct H as [<-|H]; [vm_compute; reflexivity|]). contradiction. Qed.
