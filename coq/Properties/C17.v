(* C17 — Custom-precompile registry integrity and exact EVM exposure.
   Statements only; definitions in Model/Registry.v, proofs in Proofs/RegistryProofs.v.

   Vocabulary.
     [caddr n]            crypto.CreateAddress(cpc module address, n): any function (nothing about keccak is assumed
                          except where a hypothesis says so).
     [init_genesis]       x/cpc InitGenesis on an empty store, for every params / flag combination / bond denomination.
     [op], [step], [run]  deploy-erc20 / deploy-staking / update-params messages (through a transaction / the router with
                          ValidateBasic, or the message server directly), by any authority string; the Disabled toggle
                          through the keeper (ASetDisabled); a change of the bank supply (ESupply); and the exported keeper
                          function with arbitrary arguments (ASetMeta), which [msg_op] excludes.
     [reachable]          genesis that started, then any list of [msg_op] operations.
     [mode]               Deliver | Check | Simulate | Query. *)
From Evm Require Import Registry RegistryProofs.
Open Scope Z_scope.

(* The inductive invariant over ALL histories: after a genesis that starts, for every list of operations, every
   transition satisfies [trans_ok] (records stable up to the Disabled flag, version monotone, new contract only by a
   whitelisted deploy message, new index entry only with positive supply, index entries stable, params only by the
   governance authority) and every state on the way satisfies [inv] (unique addresses, unique denominations, denom
   index <-> ERC-20 metadata in both directions, every record valid for its type, staking/bech32 types only at their
   fixed addresses, params valid, bech32 contract present). *)
Theorem C17_history_invariant : forall caddr n sup g s0 ops,
  init_genesis caddr (empty_state n sup) g = Some s0 -> Forall msg_op ops ->
  inv s0 /\ hist_ok caddr s0 ops /\ inv (fst (run caddr s0 ops)).
Proof. exact registry_history. Qed.
Print Assumptions C17_history_invariant.

(* [hist_ok] read position-wise: the transition at any position of any history *)
Theorem C17_every_transition : forall caddr l1 s o l2, hist_ok caddr s (l1 ++ o :: l2) ->
  let s1 := fst (run caddr s l1) in
  trans_ok s1 o (fst (step caddr s1 o)) /\ inv (fst (step caddr s1 o)).
Proof. exact hist_at. Qed.
Print Assumptions C17_every_transition.

(* each registered contract has its own address *)
Theorem C17_unique_addresses : forall caddr s, reachable caddr s -> NoDup (keys (metas s)).
Proof. exact unique_addresses. Qed.
Print Assumptions C17_unique_addresses.

(* at most one ERC-20 precompile per denomination *)
Theorem C17_one_erc20_per_denom : forall caddr s a1 a2 m1 m2 d, reachable caddr s ->
  lookup (metas s) a1 = Some m1 -> lookup (metas s) a2 = Some m2 ->
  is_erc20_for m1 d -> is_erc20_for m2 d -> a1 = a2.
Proof. exact one_erc20_per_denom. Qed.
Print Assumptions C17_one_erc20_per_denom.

(* the denomination-to-address index always matches the stored metadata, in both directions *)
Theorem C17_index_matches_metadata : forall caddr s, reachable caddr s ->
  forall d a, lookup (didx s) d = Some a <-> exists m, lookup (metas s) a = Some m /\ is_erc20_for m d.
Proof. exact index_matches_metadata. Qed.
Print Assumptions C17_index_matches_metadata.

(* every stored record is of one of the three types, typed accordingly; the singleton types sit at their fixed addresses *)
Theorem C17_records_well_typed : forall caddr s a m, reachable caddr s -> lookup (metas s) a = Some m ->
  (m_type m = T_ERC20 /\ (exists sy de d, m_typed m = TErc20 sy de d /\ lookup (didx s) d = Some a))
  \/ (m_type m = T_STAKING /\ a = STAKING_ADDR)
  \/ (m_type m = T_BECH32 /\ a = BECH32_ADDR).
Proof. exact erc20_typed_by_type. Qed.
Print Assumptions C17_records_well_typed.

(* deployment only at genesis or by an address on the whitelist: after genesis, a contract appears at a new address only
   by a deploy message whose authority is, at that moment, on the stored whitelist (any pre-state, reachable or not) *)
Theorem C17_deploy_only_by_whitelisted : forall caddr s o a, msg_op o ->
  lookup (metas s) a = None -> lookup (metas (fst (step caddr s o))) a <> None ->
  exists auth, deployer o = Some auth /\ whitelisted s auth = true.
Proof. exact deploy_only_whitelisted. Qed.
Print Assumptions C17_deploy_only_by_whitelisted.

(* ... and the whitelist (with the protocol version) changes only by an update-params message carrying the governance
   module's address as authority, and only to valid parameters *)
Theorem C17_whitelist_governance_controlled : forall caddr s o, msg_op o ->
  prm (fst (step caddr s o)) <> prm s ->
  exists np, o = MUpdateParams true np /\ prm (fst (step caddr s o)) = np /\ params_valid np = true.
Proof. exact params_only_by_governance. Qed.
Print Assumptions C17_whitelist_governance_controlled.

(* ERC-20 precompiles only for denominations with positive supply (at the moment of deployment), by message ... *)
Theorem C17_erc20_only_with_positive_supply : forall caddr s o d a, msg_op o ->
  lookup (didx s) d = None -> lookup (didx (fst (step caddr s o))) d = Some a ->
  0 < supply s d /\ lookup (metas s) a = None.
Proof. exact erc20_needs_positive_supply. Qed.
Print Assumptions C17_erc20_only_with_positive_supply.

(* ... and at genesis: only the flag deploys one, for the bond denomination, which must have supply *)
Theorem C17_genesis_erc20_only_with_positive_supply : forall caddr n sup g s d a,
  init_genesis caddr (empty_state n sup) g = Some s -> lookup (didx s) d = Some a ->
  g_erc20_native g = true /\ d = g_bond_denom g /\ 0 < sup d.
Proof. exact genesis_erc20_needs_positive_supply. Qed.
Print Assumptions C17_genesis_erc20_only_with_positive_supply.

(* genesis registers exactly what its flags say: the ERC-20 contract of the bond denomination (at the module account's
   next address) iff DeployErc20Native, the staking contract iff DeployStakingContract, the bech32 contract always *)
Theorem C17_genesis_flags_exact : forall caddr n sup g s, init_genesis caddr (empty_state n sup) g = Some s ->
  keys (metas s) = (if g_erc20_native g then [caddr n] else []) ++ (if g_staking g then [STAKING_ADDR] else []) ++ [BECH32_ADDR]
  /\ mseq s = n + (if g_erc20_native g then 1 else 0)
  /\ prm s = g_params g
  /\ didx s = (if g_erc20_native g then [(g_bond_denom g, caddr n)] else []).
Proof. exact genesis_contents. Qed.
Print Assumptions C17_genesis_flags_exact.

(* a refused or panicking operation leaves no trace in the registry *)
Theorem C17_refused_operation_leaves_no_trace : forall caddr s o,
  (forall a, snd (step caddr s o) <> ROk a) -> fst (step caddr s o) = s.
Proof. exact refused_no_trace. Qed.
Print Assumptions C17_refused_operation_leaves_no_trace.

(* messages and the Disabled toggle change nothing of a record but the flag; records never disappear *)
Theorem C17_record_stable : forall caddr s o a m, msg_op o -> lookup (metas s) a = Some m ->
  exists m', lookup (metas (fst (step caddr s o))) a = Some m' /\ same_but_flag m m'.
Proof. exact record_stable. Qed.
Print Assumptions C17_record_stable.

(* a contract's type never changes — over EVERY list of operations, the unrestricted keeper function included, from
   ANY state *)
Theorem C17_type_never_changes : forall caddr ops s a m, lookup (metas s) a = Some m ->
  exists m', lookup (metas (fst (run caddr s ops))) a = Some m' /\ m_type m' = m_type m.
Proof. exact type_never_changes. Qed.
Print Assumptions C17_type_never_changes.

(* the protocol version never decreases — every list of operations, any state *)
Theorem C17_version_never_decreases : forall caddr ops s,
  p_version (prm s) <= p_version (prm (fst (run caddr s ops))).
Proof. exact version_never_decreases. Qed.
Print Assumptions C17_version_never_decreases.

(* addresses stay unique under every list of operations, the unrestricted keeper function included *)
Theorem C17_addresses_stay_unique : forall caddr ops s,
  NoDup (keys (metas s)) -> NoDup (keys (metas (fst (run caddr s ops)))).
Proof. exact addresses_stay_unique. Qed.
Print Assumptions C17_addresses_stay_unique.

(* a contract marked disabled cannot be executed: in no mode is its method table entered, whatever the selector *)
Theorem C17_disabled_cannot_execute : forall caddr md s a m, reachable caddr s ->
  lookup (metas s) a = Some m -> m_disabled m = true ->
  callable md s a = false /\ (forall m', evm_dispatch md s a <> DCustom m')
  /\ forall hrp p, probe_result hrp md s a p = PFail \/ probe_result hrp md s a p = PStd.
Proof. exact disabled_cannot_execute. Qed.
Print Assumptions C17_disabled_cannot_execute.

(* exactly the registered enabled contracts are callable, in every mode.  go-ethereum looks its own precompiles
   (addresses 1..9) up first, hence the side condition ... *)
Theorem C17_callable_iff_registered_enabled : forall caddr md s a, reachable caddr s ->
  (callable md s a = true <-> std_precompile a = false /\ registered_enabled s a).
Proof. exact callable_exact. Qed.
Print Assumptions C17_callable_iff_registered_enabled.

(* ... which disappears if no keccak-derived contract address is one of 1..9 (the fixed addresses are not) *)
Theorem C17_callable_iff_registered_enabled_exact : forall caddr md s a,
  (forall n, std_precompile (caddr n) = false) -> reachable caddr s ->
  (callable md s a = true <-> registered_enabled s a).
Proof. exact callable_exact_no_std. Qed.
Print Assumptions C17_callable_iff_registered_enabled_exact.

(* what a call to any other address answers: nothing there, the contract's own answer, or failure when disabled *)
Theorem C17_call_outcome_by_address_class : forall caddr hrp md s a p, reachable caddr s -> std_precompile a = false ->
  match lookup (metas s) a with
  | None => probe_result hrp md s a p = POkEmpty
  | Some m => probe_result hrp md s a p = if m_disabled m then PFail else probe_custom hrp m p
  end.
Proof. exact probe_classes. Qed.
Print Assumptions C17_call_outcome_by_address_class.

(* the same holds for calls made by contracts: a forwarder using CALL or STATICCALL gets the contract's answer when it
   is registered and enabled, nothing when no contract is registered, and a failed call (it reverts) when disabled *)
Theorem C17_nested_call_outcome_by_address_class : forall caddr hrp md v s a p, reachable caddr s -> std_precompile a = false ->
  match lookup (metas s) a with
  | None => probe_via hrp md v s a p = POkEmpty
  | Some m => probe_via hrp md v s a p =
              if m_disabled m then match v with Direct => PFail | _ => PRevert end else probe_custom hrp m p
  end.
Proof. exact probe_via_classes. Qed.
Print Assumptions C17_nested_call_outcome_by_address_class.

(* ---- execution context only.  A node serves, between and during consensus operations, requests that never reach
        consensus: calls (eth_call / estimate / trace, CheckTx, simulations) evaluated on ANY committed version of
        the state in any mode by any kind of caller, and simulations of whole operations — deployments included — on
        a dropped branch ([hop], [hrun]).  Whatever requests were served during a life [l1]: the node (all its
        versions) is the one the consensus operations alone produce, and everything that happens afterwards —
        consensus outcomes, answers, simulation reports — is the same as if none had been served. *)
Theorem C17_node_traffic_erasable : forall caddr hrp old s l1 l2,
  let n1 := fst (hrun caddr hrp old s l1) in
  let n1' := fst (hrun caddr hrp old s (map HOp (erase l1))) in
  n1 = n1' /\
  snd (hrun caddr hrp old s (l1 ++ l2)) = snd (hrun caddr hrp old s l1) ++ snd (hrun caddr hrp (fst n1') (snd n1') l2).
Proof. exact traffic_erasable. Qed.
Print Assumptions C17_node_traffic_erasable.

(* the consensus state and the consensus outcomes of a life are those of its operations run alone *)
Theorem C17_consensus_ignores_traffic : forall caddr hrp l old s,
  snd (fst (hrun caddr hrp old s l)) = fst (run caddr s (erase l)) /\
  consensus_outs (snd (hrun caddr hrp old s l)) = map snd (snd (run caddr s (erase l))).
Proof. exact hrun_consensus. Qed.
Print Assumptions C17_consensus_ignores_traffic.

(* the answer to the call at any position of any life is a function of the version it names among the versions the
   consensus operations before it produced: no request served earlier (a call on an older or newer version, a
   simulated deployment) has any influence on it *)
Theorem C17_answer_depends_on_named_version_only : forall caddr hrp old s l1 k md v a p l2,
  let n1 := fst (hrun caddr hrp old s (map HOp (erase l1))) in
  nth_error (snd (hrun caddr hrp old s (l1 ++ HReq (NCall k md v a p) :: l2))) (length l1)
  = Some (OAns (answer_at hrp (versions (fst n1) (snd n1)) k md v a p)).
Proof. exact answer_by_version. Qed.
Print Assumptions C17_answer_depends_on_named_version_only.

(* and it is decided by THAT version's registry: for a node that started from a reachable state and executed messages,
   a call on version k — in every mode, made by the transaction, by a forwarding contract or by the constructor of a
   creation message — finds nothing at an unregistered address, the contract's own answer at a registered enabled one,
   a failed call at a disabled one *)
Theorem C17_historic_call_outcome_by_address_class : forall caddr hrp old s l k md v a p r,
  Forall (reachable caddr) old -> reachable caddr s -> Forall msg_op (erase l) -> std_precompile a = false ->
  let n := fst (hrun caddr hrp old s l) in
  answer_at hrp (versions (fst n) (snd n)) k md v a p = Some r ->
  exists sk, nth_error (versions (fst n) (snd n)) k = Some sk /\
    match lookup (metas sk) a with
    | None => r = POkEmpty
    | Some m => r = if m_disabled m then match v with Direct => PFail | _ => PRevert end else probe_custom hrp m p
    end.
Proof. exact historic_call_classes. Qed.
Print Assumptions C17_historic_call_outcome_by_address_class.

(* the protocol version of a running chain is the latest one *)
Theorem C17_reachable_version : forall caddr s, reachable caddr s -> p_version (prm s) = LATEST_VERSION.
Proof. exact reachable_version. Qed.
Print Assumptions C17_reachable_version.

(* ---------------------------------------------------------------- non-vacuity *)

Definition ex_caddr (n : Z) : Z := 5000 + n.
Definition ex_sup (d : Z) : Z := if d =? 77 then 1000 else if d =? 78 then 5 else 0.
Definition ex_wl (x : Z) : wl_entry := {| w_id := x; w_lower := true; w_bech32 := true |}.
Definition ex_gen : genesis :=
  {| g_params := {| p_version := 1; p_whitelist := [ex_wl 900] |}; g_erc20_native := true; g_staking := true;
     g_bond_denom := 77; g_bond_valid := true; g_erc20_name := 11; g_erc20_symbol := 12; g_staking_symbol := 13; g_decimals := 18 |}.
Definition ex_ops : list op :=
  [ MDeployErc20 true true true 900 21 22 6 78;            (* whitelisted, denomination with supply: deployed at 5001 *)
    MDeployErc20 true true true 901 23 24 6 78;            (* not whitelisted *)
    MDeployErc20 false true true 900 23 24 6 78;           (* second contract for the same denomination *)
    MDeployErc20 true true true 900 25 26 6 79;            (* no supply *)
    MDeployStaking true true 900 27 18;                    (* the staking contract exists since genesis *)
    ASetDisabled 5001 true;
    MUpdateParams false {| p_version := 1; p_whitelist := [] |};   (* not the governance authority *)
    MUpdateParams true {| p_version := 1; p_whitelist := [] |};
    ESupply 79 10;
    MDeployErc20 true true true 900 25 26 6 79 ].          (* 900 is not whitelisted any more *)

(* a genesis with both flags starts; the history above is one the theorems speak about; its outcomes are as described;
   afterwards exactly the enabled contracts are callable, in every mode *)
Example C17_example :
  (exists s0, init_genesis ex_caddr (empty_state 0 ex_sup) ex_gen = Some s0
    /\ Forall msg_op ex_ops
    /\ map snd (snd (run ex_caddr s0 ex_ops))
       = [ROk 5001; RErr; RErr; RErr; RErr; ROk 5001; RErr; ROk 0; ROk 0; RErr]
    /\ let s := fst (run ex_caddr s0 ex_ops) in
       map fst (metas s) = [5000; STAKING_ADDR; BECH32_ADDR; 5001]
       /\ didx s = [(77, 5000); (78, 5001)]
       /\ mseq s = 2
       /\ map (fun a => callable Query s a) [5000; 5001; 5002; STAKING_ADDR; BECH32_ADDR; 4] = [true; false; false; true; true; false]
       /\ map (fun md => callable md s 5001) [Deliver; Check; Simulate; Query] = [false; false; false; false]
       /\ probe_result 99 Deliver s 5000 PrName = POkStr 11
       /\ probe_result 99 Check s 5001 PrName = PFail
       /\ probe_result 99 Simulate s 5002 PrName = POkEmpty
       /\ probe_result 99 Query s BECH32_ADDR PrBech32Prefix = POkStr 99).
Proof.
  eexists. split; [vm_compute; reflexivity|]. split.
  - repeat constructor.
  - vm_compute. repeat split; reflexivity.
Qed.

(* the four flag combinations start (when the bond denomination has supply), and the erc20 flag does not when it has none *)
Example C17_example_genesis_flags :
  (forall e k, exists s, init_genesis ex_caddr (empty_state 0 ex_sup)
     {| g_params := g_params ex_gen; g_erc20_native := e; g_staking := k; g_bond_denom := 77; g_bond_valid := true;
        g_erc20_name := 11; g_erc20_symbol := 12; g_staking_symbol := 13; g_decimals := 18 |} = Some s
     /\ length (metas s) = ((if e then 1 else 0) + (if k then 1 else 0) + 1)%nat)
  /\ init_genesis ex_caddr (empty_state 0 ex_sup)
     {| g_params := g_params ex_gen; g_erc20_native := true; g_staking := false; g_bond_denom := 79; g_bond_valid := true;
        g_erc20_name := 11; g_erc20_symbol := 12; g_staking_symbol := 13; g_decimals := 18 |} = None.
Proof.
  split; [|vm_compute; reflexivity].
  intros [|] [|]; eexists; (split; [vm_compute; reflexivity|reflexivity]).
Qed.

(* the unrestricted keeper function is why [msg_op] is needed for the index theorem: one call breaks the bijection,
   while type stability and address uniqueness (stated for all operations) survive it *)
Example C17_example_keeper_api_outside :
  exists s0, init_genesis ex_caddr (empty_state 0 ex_sup) ex_gen = Some s0 /\
    let s := fst (run ex_caddr s0 [ASetMeta 5000 {| m_type := T_ERC20; m_name := 11; m_typed := TErc20 12 18 78; m_disabled := false |} false]) in
    lookup (didx s) 77 = Some 5000 /\ ~ (exists m, lookup (metas s) 5000 = Some m /\ is_erc20_for m 77).
Proof.
  eexists. split; [vm_compute; reflexivity|]. cbv zeta. split; [vm_compute; reflexivity|].
  intros [m [L [_ [sy [de Y]]]]]. vm_compute in L. inversion L; subst m. discriminate.
Qed.

(* a node's life around a deployment: a call on the version BEFORE it finds nothing at 5001 (asked before and after a
   call on the new version, and after a simulated second deployment), a call on the version after it gets the
   contract's name; the simulated deployment reports success for the address 5002 and leaves nothing there *)
Example C17_example_node_life :
  exists s0, init_genesis ex_caddr (empty_state 0 ex_sup) ex_gen = Some s0 /\
    let l := [ HReq (NCall 0 Query Direct 5001 PrName);
               HOp (MDeployErc20 true true true 900 21 22 6 78);
               HReq (NCall 0 Query ViaInitCall 5001 PrName);
               HReq (NCall 1 Deliver ViaInitStaticCall 5001 PrName);
               HReq (NCall 0 Check Direct 5001 PrName);
               HReq (NSimulate (MDeployErc20 true true true 900 31 32 6 77));
               HReq (NSimulate (ESupply 79 10));
               HOp (ESupply 79 10);
               HReq (NSimulate (MDeployErc20 true true true 900 31 32 6 79));
               HReq (NCall 2 Deliver Direct 5002 PrName);
               HReq (NCall 7 Query Direct 5001 PrName) ] in
    Forall msg_op (erase l) /\
    snd (hrun ex_caddr 99 [] s0 l) =
      [ OAns (Some POkEmpty); OOp (ROk 5001); OAns (Some POkEmpty); OAns (Some (POkStr 21)); OAns (Some POkEmpty);
        OSim RErr; OSim (ROk 0); OOp (ROk 0); OSim (ROk 5002); OAns (Some POkEmpty); OAns None ].
Proof.
  eexists. split; [vm_compute; reflexivity|]. cbv zeta. split; [repeat constructor|vm_compute; reflexivity].
Qed.
