(* C12 — Read-only EVM contexts cannot change state through custom precompiles.
   Statements only; proofs are in Proofs/StaticCtxProofs.v, the model in Model/StaticCtx.v.
   [run ro f] = outcome of call frame f executed by a frame whose interpreter flag in.readOnly is [ro], with the code
   as it is (go-ethereum fork + the executor check of x/cpc/keeper/precompiles.go); [eff_of] = the state-changing
   precompile methods whose executor ran and was not reverted (every state change / log a precompile can cause). *)
From Coq Require Import List ZArith Bool.
From Evm Require Import StaticCtx StaticCtxProofs.
Import ListNotations.
Open Scope Z_scope.

(* A state-changing method reached by STATICCALL itself is rejected — in any context, by the fork's check alone. *)
Theorem C12_static_direct_protected : forall chk ro nzv l,
  l_ro l = false -> run_call chk ro (Cpc STATICCALL nzv l) = CFail.
Proof. exact static_direct. Qed.
Print Assumptions C12_static_direct_protected.

(* Full statement, all call trees (no depth bound, any opcodes, any values, any strictness, any executor results):
   whatever runs while the interpreter is read-only changes nothing through a custom precompile. *)
Theorem C12_static_ancestor_protected : forall f, eff_of (run true f) = [].
Proof. exact readonly_no_effect. Qed.
Print Assumptions C12_static_ancestor_protected.

(* A STATICCALL frame changes nothing, wherever it sits in the tree and whatever it calls. *)
Theorem C12_static_subtree_no_effect : forall ro nzv kids, eff_of (run ro (Code STATICCALL nzv kids)) = [].
Proof. exact static_subtree_no_effect. Qed.
Print Assumptions C12_static_subtree_no_effect.

(* For a whole transaction: only leaves with no STATICCALL anywhere on their path (own opcode included) can take effect;
   if every precompile call of the tree has a STATICCALL ancestor-or-self, the transaction changes nothing. *)
Theorem C12_tx_effects_only_unprotected : forall root, incl (eff_of (run_tx root)) (unprotected false root).
Proof. exact tx_eff_incl. Qed.
Print Assumptions C12_tx_effects_only_unprotected.

Theorem C12_tx_all_protected_no_effect : forall root, unprotected false root = [] -> eff_of (run_tx root) = [].
Proof. exact tx_all_protected_no_effect. Qed.
Print Assumptions C12_tx_all_protected_no_effect.

(* Effects are only ever attributed to methods declared state-changing (in the model a ReadOnly method has no effect
   by construction; that declared-ReadOnly executors really write nothing is decided by the driver's store digests). *)
Theorem C12_effects_only_from_rw_methods : forall chk f ro id, In id (eff_of (run_call chk ro f)) ->
  exists l, In l (leaves f) /\ l_id l = id /\ l_ro l = false.
Proof. exact eff_only_rw. Qed.
Print Assumptions C12_effects_only_from_rw_methods.

(* The protection does not remove behaviour: in a tree with zero values, no reverting callers and succeeding
   executors, exactly the unprotected state-changing leaves take effect. *)
Theorem C12_not_overblocking : forall f ro, lenient f = true ->
  eff_of (run ro f) = unprotected ro f /\ run ro f <> CAbort.
Proof. exact lenient_exact. Qed.
Print Assumptions C12_not_overblocking.

(* State-changing methods charge a non-zero gas cost: for the model's table, and for any regenerated table the
   correspondence checker accepted (it checks equality with the model's table by vm_compute on every run). *)
Theorem C12_rw_methods_cost_gas : forall m, In m expected_table -> m_ro m = false -> 0 < m_gas m.
Proof. exact expected_rw_cost_gas. Qed.
Print Assumptions C12_rw_methods_cost_gas.

Theorem C12_rw_methods_cost_gas_regenerated : forall t, table_eqb t expected_table = true ->
  forall m, In m t -> m_ro m = false -> 0 < m_gas m.
Proof. exact regenerated_table_ok. Qed.
Print Assumptions C12_rw_methods_cost_gas_regenerated.

(* Why the check in x/cpc/keeper/precompiles.go is needed (finding #6, repaired by a fix: commit): with the fork's logic
   alone (RunCustom receives the opcode's flag, not the inherited one) the full statement is false ... *)
Definition C12_static_ancestor_protected_fork_only_full : Prop := forall f, eff_of (run_fork_only true f) = [].
Theorem C12_static_bypass_fork_only_refuted : ~ C12_static_ancestor_protected_fork_only_full.
Proof.
  intros H. specialize (H (Code CALL false [(false, Cpc CALL false (Leaf 0 false true))])).
  vm_compute in H. discriminate.
Qed.
Print Assumptions C12_static_bypass_fork_only_refuted.

(* ... the witness as a whole transaction: STATICCALL -> code -> CALL -> state-changing method ... *)
Theorem C12_static_bypass_fork_only_witness :
  unprotected false bypass_tree = [] /\ eff_of (run_fork_only false bypass_tree) = [0%nat].
Proof. exact fork_only_bypass. Qed.
Print Assumptions C12_static_bypass_fork_only_witness.

(* ... and what the fork alone does guarantee: only leaves whose OWN opcode is not STATICCALL can take effect. *)
Theorem C12_fork_only_partial : forall f ro, incl (eff_of (run_fork_only ro f)) (undirect f).
Proof. exact fork_only_direct. Qed.
Print Assumptions C12_fork_only_partial.

(* KNOWN FINDING (C12/static/global-account-number-consumed-by-CALL-to-accountless-precompile): "no state change AT
   ALL" is false of the faithful model. A CALL (the opcode itself) to a precompile address without account makes the
   interpreter create one; evermint draws a global account number for it and only removes the account again at commit.
   The counter in the auth store stays advanced (a number no account holds: [accnum_consumed]; numbers held by accounts
   that a method which took effect created are part of [eff_of]), also under STATICCALL and also for read-only methods. What does hold
   is C12_tx_all_protected_no_effect above: nothing a precompile METHOD does takes effect. *)
Definition C12_nothing_changes_under_static_full : Prop :=
  forall root, unprotected false root = [] -> eff_of (run_tx root) = [] /\ accnum_consumed root = false.
Theorem C12_nothing_changes_under_static_refuted : ~ C12_nothing_changes_under_static_full.
Proof. intros H. destruct (H accnum_tree) as [_ H2]; [reflexivity|]. vm_compute in H2. discriminate. Qed.
Print Assumptions C12_nothing_changes_under_static_refuted.

(* a number can only be skipped through a leaf reached by the CALL opcode itself *)
Theorem C12_accnum_only_by_call_opcode : forall root, call_leaves root = [] -> accnum_consumed root = false.
Proof. intros root H. unfold accnum_consumed. now rewrite H. Qed.
Print Assumptions C12_accnum_only_by_call_opcode.

(* non-vacuity: the bypass tree is blocked by the code as it is, an unprotected call does take effect,
   and CALL with a non-zero value inside a read-only frame aborts the calling frame *)
Example C12_examples :
  run_tx bypass_tree = COk 0 [] /\
  run_tx (Code CALL false [(true, Cpc DELEGATECALL false (Leaf 3 false true))]) = COk 8 [3%nat] /\
  run_tx (Code CALL false [(false, Code STATICCALL false [(false, Cpc CALL true (Leaf 0 true true))]);
                           (false, Cpc CALL false (Leaf 1 true true))]) = COk 2 [] /\
  lenient bypass_tree = true.
Proof. vm_compute. repeat split; reflexivity. Qed.
