(* C05 — Senders are charged exactly gas used x effective price, in every outcome. *)
From Evm Require Import TxPipe TxPipeExt TxPipeProofs TxPipeDenom TxPipeDenomProofs TxPipeSeqProofs TxPipeCumProofs.
Open Scope Z_scope.

(* committed execution (success or VM error): sender pays gas used (as in the receipt) x effective price,
   plus what the execution itself moved out of its account; see C04_every_balance_executed for all accounts *)
Theorem C05_charge_exact_executed : forall s t o v,
  r_out (snd (deliver s t o)) = Executed v ->
  t_from t <> FEE_COLLECTOR ->
  bal (fst (deliver s t o)) (t_from t) =
    bal s (t_from t) - r_receipt_gas (snd (deliver s t o)) * price_of s t
                     + (if v then 0 else net (e_moves o) (t_from t)).
Proof. exact charge_exact_executed. Qed.
Print Assumptions C05_charge_exact_executed.

(* failure outside EVM execution (consensus-level error, block gas exhausted): the full gas limit is charged,
   no value moves, for every account *)
Theorem C05_charge_exact_failed : forall s t o a,
  r_out (snd (deliver s t o)) = CoreErr \/ r_out (snd (deliver s t o)) = BlockGasExceeded ->
  t_from t <> FEE_COLLECTOR ->
  bal (fst (deliver s t o)) a =
    bal s a + (if a =? t_from t then - (t_gas t * price_of s t) else 0)
            + (if a =? FEE_COLLECTOR then t_gas t * price_of s t else 0).
Proof. exact failed_charge. Qed.
Print Assumptions C05_charge_exact_failed.

(* rejected at admission (or dropped before it): costs nothing and changes nothing *)
Theorem C05_rejected_free : forall s t o,
  passed (r_out (snd (deliver s t o))) = false -> fst (deliver s t o) = s.
Proof. exact rejected_changes_nothing. Qed.
Print Assumptions C05_rejected_free.

(* consensus result vs receipt for committed executions; gas wanted = gas limit; status *)
Theorem C05_consensus_gas_eq_receipt : forall s t o v,
  r_out (snd (deliver s t o)) = Executed v ->
  let r := snd (deliver s t o) in
  v = e_vmerr o /\ r_gas_used r = r_receipt_gas r /\ r_receipt_gas r = e_used o /\ r_gas_wanted r = t_gas t /\
  r_tx_index r = tx_count s /\ r_cum_gas r = cum_gas s + e_used o /\ r_log_start r = log_count s /\
  (r_status r = 1 <-> v = false) /\ (r_status r = 0 <-> v = true).
Proof. exact executed_result. Qed.
Print Assumptions C05_consensus_gas_eq_receipt.

(* a consensus-level error reports the full gas limit *)
Theorem C05_core_error_uses_limit : forall s t o,
  r_out (snd (deliver s t o)) = CoreErr \/ r_out (snd (deliver s t o)) = BlockGasExceeded ->
  let r := snd (deliver s t o) in
  r_gas_wanted r = t_gas t /\ r_tx_index r = tx_count s /\ (r_out r = CoreErr -> r_gas_used r = t_gas t).
Proof. exact failed_result. Qed.
Print Assumptions C05_core_error_uses_limit.

(* the storage refund never exceeds one fifth of the gas consumed (nor the refund counter) *)
Theorem C05_refund_cap : forall consumed counter,
  0 <= consumed -> 0 <= counter ->
  0 <= consumed - gas_after_refund consumed counter <= consumed / 5 /\
  consumed - gas_after_refund consumed counter <= counter.
Proof. exact refund_cap. Qed.
Print Assumptions C05_refund_cap.

(* the rule is monotone in the gas consumed: with bounds lb <= consumed <= ub from the SSTORE cost table the observed
   gas used must lie in [gas_after_refund lb c, gas_after_refund ub c] - checked by Corr/CorrTxPipe.oracle_consistent on
   every executed call of the driver's storage contract, which ties this rule to refundGas of state_transition_core.go *)
Theorem C05_refund_rule_monotone : forall c1 c2 counter,
  0 <= c1 <= c2 -> gas_after_refund c1 counter <= gas_after_refund c2 counter.
Proof. exact gas_after_refund_monotone. Qed.
Print Assumptions C05_refund_rule_monotone.

(* cumulative gas is the running sum, in every block, at every position (with C13_block_numbering) *)
Theorem C05_cumulative_is_running_sum : forall s l pre x post,
  trace (begin_block s) l = pre ++ x :: post ->
  let '(_, _, o, r) := x in
  let '(n, g, lg) := shown_before pre in
  (passed (r_out r) = true -> r_tx_index r = n) /\
  (forall v, r_out r = Executed v -> r_cum_gas r = g + gas_shown r /\ r_log_start r = lg).
Proof. exact block_numbering. Qed.
Print Assumptions C05_cumulative_is_running_sum.

(* gas bounds: with the interpreter's guarantee intrinsic <= used <= limit as hypothesis, the consensus figures obey them *)
Theorem C05_gas_bounds : forall s t o v,
  r_out (snd (deliver s t o)) = Executed v -> t_intrinsic t <= e_used o <= t_gas t ->
  let r := snd (deliver s t o) in t_intrinsic t <= r_gas_used r <= r_gas_wanted r.
Proof. exact gas_bounds. Qed.
Print Assumptions C05_gas_bounds.

Example C05_example_failed :
  let s := mkSt (fun a => if a =? 7 then 10^18 else 0) (fun _ => 0) (fun a => a =? 7) (fun _ => false)
                (5 * 10^18) 1000 0 0 0 0 0 0 false false in
  let t := mkTx 7 (Some 7) true true 0 3 5000 20999 0 5 false 21000 in   (* gas below intrinsic: core error *)
  let o := mkOut 0 false 0 [] 0 false in
  r_out (snd (deliver s t o)) = CoreErr /\ bal (fst (deliver s t o)) 7 = 10^18 - 20999 * 1003 /\
  sqn (fst (deliver s t o)) 7 = 1.
Proof. vm_compute. repeat split; reflexivity. Qed.

(* ------------------------------------------------------------------ executions aborted by a panic (Model/TxPipeExt.v)
   A failure outside EVM execution, after admission: the fee for the whole gas limit is kept, no value moves.  There is no
   receipt; the gas the later receipts of the block count for it is the whole gas limit (C05_x_cumulative_is_running_sum,
   gas_shown), which is what the sender paid for.  The CONSENSUS result's gas used is whatever the gas meter held when the
   panic was raised ([gu], observed: neither of ApplyTransaction's two meter resets ran). *)
Theorem C05_charge_exact_aborted : forall s t gu a,
  t_from t <> FEE_COLLECTOR ->
  bal (fst (deliver_panic s t gu)) a =
    bal s a + (if passed (r_out (snd (deliver_panic s t gu))) && (a =? t_from t) then - (t_gas t * price_of s t) else 0)
            + (if passed (r_out (snd (deliver_panic s t gu))) && (a =? FEE_COLLECTOR) then t_gas t * price_of s t else 0).
Proof. exact panic_charge. Qed.
Print Assumptions C05_charge_exact_aborted.

(* reached: the state is the ante handler's with the block gas meter advanced by the observed figure; the consensus result
   shows gas wanted = gas limit, gas used = that figure, the next Ethereum index, no receipt *)
Theorem C05_aborted_result : forall s t gu, panic_reached s t = true ->
  blk_out_of_gas s = false /\ admitted s t /\
  deliver_panic s t gu = (set_blk_used (ante_effects s t) (blk_used s + gu), no_receipt CoreErr (t_gas t) gu (tx_count s)).
Proof. exact panic_reached_result. Qed.
Print Assumptions C05_aborted_result.

(* not reached (block gas exhausted, rejected at admission, gas limit below the intrinsic gas, unaffordable value): the
   transaction ends exactly as C05_charge_exact_failed / C05_rejected_free say *)
Theorem C05_aborted_not_reached : forall s t gu,
  panic_reached s t = false -> deliver_panic s t gu = deliver s t no_exec.
Proof. exact panic_not_reached. Qed.
Print Assumptions C05_aborted_not_reached.

Theorem C05_aborted_rejected_free : forall s t gu,
  passed (r_out (snd (deliver_panic s t gu))) = false -> fst (deliver_panic s t gu) = s.
Proof. exact panic_rejected_changes_nothing. Qed.
Print Assumptions C05_aborted_rejected_free.

(* cumulative gas is the running sum in every block that contains aborted executions as well: each of them counts with
   its gas limit *)
Theorem C05_x_cumulative_is_running_sum : forall s l pre x post,
  tx_count (d_core s) = 0 -> cum_gas (d_core s) = 0 -> log_count (d_core s) = 0 ->
  xtrace s l = pre ++ x :: post ->
  let '(_, _, o, r) := x in
  let '(n, g, lg) := shown_before pre in
  (passed (r_out r) = true -> r_tx_index r = n) /\
  (forall v, r_out r = Executed v -> r_cum_gas r = g + gas_shown r /\ r_log_start r = lg).
Proof. exact x_block_numbering. Qed.
Print Assumptions C05_x_cumulative_is_running_sum.

Example C05_example_aborted :
  let s := mkSt (fun a => if a =? 7 then 10^18 else 0) (fun _ => 0) (fun a => a =? 7) (fun _ => false)
                (5 * 10^18) 1000 0 0 0 0 0 0 false false in
  let t := mkTx 7 (Some 7) true true 0 3 5000 40000 0 5 false 21000 in
  panic_reached s t = true /\ bal (fst (deliver_panic s t 0)) 7 = 10^18 - 40000 * 1003 /\
  r_gas_wanted (snd (deliver_panic s t 0)) = 40000 /\ r_gas_used (snd (deliver_panic s t 0)) = 0 /\
  gas_shown (snd (deliver_panic s t 0)) = 40000.
Proof. vm_compute. repeat split; reflexivity. Qed.

(* ------------------------------------------------------------------ the whole block at once (Proofs/TxPipeCumProofs.v):
   the LIST of cumulative-gas figures shown by the receipts of a block, in block order, is the list of running sums
   of the gas shown by every Ethereum transaction that reached execution - receipt gas for committed executions, the
   whole gas limit for those that failed after admission or were aborted - read at the receipts *)
Theorem C05_block_cumulative_is_running_sums : forall s l,
  shown_cum (trace (begin_block s) l) = cum_from 0 (trace (begin_block s) l).
Proof. exact block_cumulative_is_running_sums. Qed.
Print Assumptions C05_block_cumulative_is_running_sums.

Theorem C05_x_block_cumulative_is_running_sums : forall s l,
  cum_gas (d_core s) = 0 -> shown_cum (xtrace s l) = cum_from 0 (xtrace s l).
Proof. exact x_block_cumulative_is_running_sums. Qed.
Print Assumptions C05_x_block_cumulative_is_running_sums.

(* non-vacuity: executed (21000), failed after admission (limit 30000, no receipt), executed (25000) *)
Example C05_example_cumulative_list :
  let s := mkSt (fun a => if a =? 7 then 10^18 else 0) (fun _ => 0) (fun a => a =? 7) (fun _ => false)
                (5 * 10^18) 1000 0 0 0 0 0 0 false false in
  let t n g := mkTx 7 (Some 7) true false 2000 0 0 g n 0 false 21000 in
  let tr := trace (begin_block s) [Eth (t 0 50000) (mkOut 21000 false 2 [] 0 false);
                                   Eth (t 1 30000) (mkOut 0 false 0 [] 0 true);
                                   Eth (t 2 60000) (mkOut 25000 false 1 [] 0 false)] in
  shown_cum tr = [21000; 76000] /\ cum_from 0 tr = [21000; 76000].
Proof. vm_compute. split; reflexivity. Qed.
