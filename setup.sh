#!/bin/sh
# Run once after a fresh restore (offline): build the Coq development and the Go harness.
set -e
cd "$(dirname "$0")"
export GOFLAGS=-mod=mod GOPROXY=off GOSUMDB=off GOTOOLCHAIN=local
mkdir -p out evidence
python3 - <<'PY'
import sys, os
sys.path.insert(0, os.path.dirname(os.path.abspath("check")))
import importlib.machinery, importlib.util
loader = importlib.machinery.SourceFileLoader("check", "check")
spec = importlib.util.spec_from_loader("check", loader)
m = importlib.util.module_from_spec(spec); loader.exec_module(m)
ok, log = m.coq_build()
print(log[-3000:])
if not ok:
    print("coq build FAILED"); sys.exit(1)
bad = m.gate()
if bad:
    print("GATE FAILED:", bad); sys.exit(1)
ok, log = m.harness_build(m.all_driver_pkgs())
print(log[-3000:])
if not ok:
    print("harness build FAILED"); sys.exit(1)
print("setup ok")
PY
