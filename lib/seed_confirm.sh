#!/bin/bash
# Confirm a seeded change and run the checks against it, in a scratch worktree of /repo.
# usage: lib/seed_confirm.sh <seed-dir> <demo-dest-path-in-repo> <go-test-pkg> <run-regex> <prop-ids...>
#   <seed-dir> holds patch.diff and the demo file (demo_test.go or the name given as DEMO_SRC env)
# Prints a summary; leaves nothing behind. Never touches /repo's working tree.
set -u
export GOFLAGS=-mod=mod GOPROXY=off GOSUMDB=off GOTOOLCHAIN=local
SD=$(realpath "$1"); DEST=$2; PKG=$3; RUN=$4; shift 4
PROPS="$*"
DEMO_SRC=${DEMO_SRC:-demo_test.go}
WT=/tmp/confirm_$$_$(basename "$(dirname "$SD")")_$(basename "$SD")
LOG=${SEED_LOG:-$SD/confirm.log}
: > "$LOG"
git -C /repo worktree add -q "$WT" HEAD || exit 2
cleanup() { git -C /repo worktree remove --force "$WT" >/dev/null 2>&1; rm -rf "$WT"; }
trap cleanup EXIT
mkdir -p "$(dirname "$WT/$DEST")"; cp "$SD/$DEMO_SRC" "$WT/$DEST" || { echo "no demo"; exit 2; }
echo "== demo on clean tree (must pass)" | tee -a "$LOG"
(cd "$WT" && timeout 1500 go test -vet=off -count=1 -run "$RUN" "$PKG") >>"$LOG" 2>&1; R_CLEAN=$?
echo "   exit $R_CLEAN" | tee -a "$LOG"
(cd "$WT" && git apply "$SD/patch.diff") >>"$LOG" 2>&1 || { echo "patch does not apply" | tee -a "$LOG"; exit 2; }
echo "== build with change" | tee -a "$LOG"
(cd "$WT" && timeout 1500 go build ./...) >>"$LOG" 2>&1; R_BUILD=$?
echo "   exit $R_BUILD" | tee -a "$LOG"
echo "== demo with change (must fail)" | tee -a "$LOG"
(cd "$WT" && timeout 1500 go test -vet=off -count=1 -run "$RUN" "$PKG") >>"$LOG" 2>&1; R_MUT=$?
echo "   exit $R_MUT" | tee -a "$LOG"
rm -f "$WT/$DEST"
if [ "${SKIP_TESTS:-0}" != 1 ]; then
  # existing tests: changed packages + their direct importers (+ ./app/...), or the whole suite with FULL_SUITE=1
  CH=$(cd "$WT" && git diff --name-only | grep '\.go$' | xargs -n1 dirname | sort -u | sed 's#^#./#')
  if [ "${FULL_SUITE:-0}" = 1 ]; then PK="./..."; else
    MOD=github.com/EscanBE/evermint/v12
    IMPS=""
    for d in $CH; do ip="$MOD/${d#./}"; IMPS="$IMPS $(cd "$WT" && go list -f '{{.ImportPath}} {{join .Imports " "}} {{join .TestImports " "}} {{join .XTestImports " "}}' ./... 2>/dev/null | grep -w "$ip" | cut -d' ' -f1)"; done
    PK=$(echo $CH $IMPS | tr ' ' '\n' | sed "s#^$MOD/#./#" | sort -u | tr '\n' ' ')
  fi
  echo "== existing tests: $PK" | tee -a "$LOG"
  (cd "$WT" && timeout 3000 go test -vet=off -count=1 -timeout 25m $PK 2>&1 | grep -v '^ok\|no test files' | grep -v 'TestInitConfigNonNotExistError' | head -40) >"$LOG.tests" 2>&1
  if grep -q '^FAIL\|^--- FAIL\|panic:' "$LOG.tests" && ! ( [ "$(grep -c '^--- FAIL' "$LOG.tests")" = 0 ] && grep -q 'evermint/v12/client' "$LOG.tests" && [ "$(grep -c '^FAIL' "$LOG.tests")" -le 2 ] ); then R_TESTS=1; else R_TESTS=0; fi
  cat "$LOG.tests" >> "$LOG"
  echo "   existing tests fail? $R_TESTS" | tee -a "$LOG"
else R_TESTS=skipped; fi
for p in $PROPS; do
  echo "== ./check $p against the changed tree" | tee -a "$LOG"
  (cd /verif && VERIF_REPO="$WT" timeout 3000 ./check $p --tier ${TIER:-quick}) > "$SD/check_$p.out" 2>&1; rc=$?
  echo "   exit $rc : $(grep -c '^VIOLATION' "$SD/check_$p.out") violation line(s)" | tee -a "$LOG"
  grep '^VIOLATION' "$SD/check_$p.out" | head -3 | tee -a "$LOG"
  # the alt output dir of this worktree
  H=$(python3 -c "import hashlib,sys;print(hashlib.sha1(sys.argv[1].encode()).hexdigest()[:8])" "$WT")
  rm -rf "/verif/out/alt-$H"
done
echo "SUMMARY clean=$R_CLEAN build=$R_BUILD mutated_demo=$R_MUT existing_tests_fail=$R_TESTS" | tee -a "$LOG"
