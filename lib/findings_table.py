#!/usr/bin/env python3
"""Print the known-findings files as two markdown tables (known, fixed)."""
import json, glob, os
ROOT = os.path.dirname(os.path.dirname(os.path.abspath(__file__)))
fs = json.load(open(os.path.join(ROOT, "known_findings.json")))["findings"]
for f in sorted(glob.glob(os.path.join(ROOT, "known_findings.d", "*.json"))):
    fs += json.load(open(f))["findings"]
print("| property | signature | what fails | why recorded, not repaired |\n|---|---|---|---|")
for k in sorted(fs, key=lambda k: (k["property"], k["signature"])):
    if k.get("status", "known") == "known":
        print("| %s | `%s` | %s | %s |" % (k["property"], k["signature"], k["what"][:420].replace("|", "/").replace("\n", " "), k.get("why_not_fixed", "")[:300].replace("|", "/").replace("\n", " ")))
print()
print("| property | commit | signature | what failed |\n|---|---|---|---|")
for k in sorted(fs, key=lambda k: (k["property"], k["signature"])):
    if k.get("status") == "fixed":
        print("| %s | `%s` | `%s` | %s |" % (k["property"], k.get("commit", ""), k["signature"], k["what"][:300].replace("|", "/").replace("\n", " ")))
