#!/usr/bin/env python3
"""Regenerate the generated part of DESIGN.md section 0 (between the GENERATED markers):
as-built table per property, findings tables, seeded-change matrix."""
import json, glob, os, re, subprocess, sys
ROOT = os.path.dirname(os.path.dirname(os.path.abspath(__file__)))
sys.path.insert(0, os.path.join(ROOT, "lib"))
def strip_comments(t):
    out, i, d = [], 0, 0
    while i < len(t):
        if t.startswith("(*", i): d += 1; i += 2
        elif t.startswith("*)", i) and d > 0: d -= 1; i += 2
        else:
            if d == 0: out.append(t[i])
            i += 1
    return "".join(out)
props = [json.loads(l) for l in open(os.path.join(ROOT, "properties.jsonl"))]
notes = json.load(open(os.path.join(ROOT, "lib", "manifest_notes.json")))
out = []
out.append("### 0.1 As built, per property\n")
out.append("| id | Coq files the theorems depend on (coq/) | theorems in Properties/Cxx.v | drivers (harness/) quick / thorough cases | known findings | partial / not verified |")
out.append("|---|---|---|---|---|---|")
known = json.load(open(os.path.join(ROOT, "known_findings.json")))["findings"]
for f in sorted(glob.glob(os.path.join(ROOT, "known_findings.d", "*.json"))):
    known += json.load(open(f))["findings"]
def closure(pid):
    allf = {}
    for d in ("Model", "Proofs", "Properties", "Corr"):
        for f in glob.glob(os.path.join(ROOT, "coq", d, "*.v")):
            allf[os.path.basename(f)[:-2]] = os.path.join(d, os.path.basename(f))
    seen, todo = set(), [os.path.join("Properties", pid + ".v")]
    while todo:
        f = todo.pop()
        if f in seen or not os.path.exists(os.path.join(ROOT, "coq", f)): continue
        seen.add(f)
        txt = strip_comments(open(os.path.join(ROOT, "coq", f)).read())
        for m in re.finditer(r"From\s+Evm\s+Require\s+(?:Import|Export)?\s*([^.]*)\.", txt):
            for mod in m.group(1).split():
                mod = mod.split(".")[-1]
                if mod in allf: todo.append(allf[mod])
    return sorted(seen)
for p in props:
    pid = p["id"]
    fp = os.path.join(ROOT, "lib", "props.d", pid + ".json")
    if not os.path.exists(fp): continue
    cfg = json.load(open(fp))
    src = strip_comments(open(os.path.join(ROOT, "coq", "Properties", pid + ".v")).read())
    ths = re.findall(r"^\s*(?:Theorem|Lemma|Corollary)\s+([A-Za-z0-9_']+)", src, re.M)
    ref = [t for t in ths if "refuted" in t]
    par = [t for t in ths if "partial" in t]
    files = [f for f in closure(pid) if not f.startswith("Properties")]
    loc = sum(len(open(os.path.join(ROOT, "coq", f)).read().split("\n")) for f in files)
    drv = "; ".join("%s %s/%s" % (d["name"], d.get("quick"), d.get("thorough")) for d in cfg.get("drivers", []))
    kf = [k for k in known if k["property"] == pid and k.get("status", "known") == "known"]
    out.append("| %s | %s (%d lines) | %d (%d `_refuted`, %d `_partial`) | %s | %d | %s |" % (
        pid, ", ".join(os.path.basename(f)[:-2] for f in files), loc, len(ths), len(ref), len(par), drv, len(kf), notes.get(pid, {}).get("note", "")))
out.append("")
out.append("### 0.2 Findings on the pinned tree\n")
out.append("Recorded, not repaired (each prints one `KNOWN-FINDING:` line when its exact signature is hit; anything else is a VIOLATION):\n")
tab = subprocess.run([sys.executable, os.path.join(ROOT, "lib", "findings_table.py")], capture_output=True, text=True).stdout
a, b = tab.split("\n\n", 1)
out.append(a)
out.append("\nRepaired by a `fix:` commit in /repo (entries suppress nothing; the hit is a VIOLATION again if it returns):\n")
out.append(b)
mp = os.path.join(ROOT, "seeded", "MATRIX.md")
out.append("### 0.3 Seeded changes and which checks catch them\n")
out.append("Fresh sub-agents that were given only a property's text and a scratch worktree wrote realistic property-breaking changes (six rounds; in rounds two to four each sub-agent was told which ideas were already taken and asked for different functions, mechanisms and clauses, in rounds five and six they were told nothing beyond the property); each kept change was confirmed by the lead in a scratch worktree (demo passes on the clean tree and fails with the change, build ok, existing tests of the changed packages and their importers pass) and lives under `seeded/<id>/` (patch.diff, demo, NOTES.md, meta.json with the first-trial result, result.json with the last run). `lib/seed_matrix.py` re-runs all of them.\n")
if os.path.exists(mp):
    out.append(open(mp).read().split("\n\n", 2)[-1])
hp = os.path.join(ROOT, "seeded", "_harmless", "RESULT.txt")
out.append("\n### 0.4 False-alarm tests\n")
out.append("* Seeds: `lib/seed_sweep.sh` runs every quick check under several `VERIF_SEED`s on the unchanged tree (seeds 1–3, 5, 6, 8–10 and 12–14 over all twenty checks after the last change to any driver, earlier 4, 7, 11, and per property up to 14 seeds by its owner); checks whose verdict depended on the seed or on machine load were repaired (C20: wall-clock deadlines and goroutine-quiescence heuristics in the filter-API histories gave alarms when four checks ran at once: every 'did not happen' verdict now needs a 150 s wait plus scheduling-independent evidence, otherwise the case is skipped and counted; C11: the thorough tier met a removed duplicate validator sharing the proposer's consensus key; C12: an account number drawn by x/bank for a fresh ERC-20 recipient was read as the known finding's trace; C08: downstream effects of the known trace defect on other senders were classified as new). The thorough tier of all twenty checks passes on the unchanged tree. After the last generator changes (wide closing block of the `blocks` driver, repeated addresses in access-list tuples of `gethdiff`) the quick tier of all twenty checks (seed 1), C02/C13 under seed 2, C04 under seed 3, C01-C03 under seed 17 with ten other builds loading the machine, and the thorough tier of C02 and C13 pass on the unchanged tree; a compile of the harness that loses a race on `go.mod` against a concurrently running check is retried instead of being read as a broken correspondence.")
if os.path.exists(hp):
    lines = [l for l in open(hp).read().strip().split("\n") if l]
    ok = sum(1 for l in lines if " exit 0 0v" in l)
    out.append("* Harmless changes: a sub-agent that saw nothing of /verif wrote sixteen behaviour-preserving refactors in two batches (helper extraction, if-chain to switch, early returns, renamed locals, split functions) in `x/evm/vm/state_db.go`, `x/evm/keeper/state_transition.go`, `x/cpc/keeper/precompiles_erc20.go`, `precompiles_staking.go`, `app/antedl`, `x/feemarket/keeper`, `rpc/backend/utils.go`, `x/vauth/keeper`, then `x/evm/keeper/msg_server.go`, `statedb.go`, `x/cpc/keeper/msg_server.go`, `x/evm/genesis.go`, `indexer/kv_indexer.go`, `filters/api.go`, `ethereum/eip712/message.go`, `x/evm/vm/state_db_access_list.go` (`seeded/_harmless/*.diff`); the relevant checks were run against each in a scratch worktree: %d of %d runs exit 0 with no VIOLATION line (`seeded/_harmless/RESULT.txt`)." % (ok, len(lines)))
out.append("* A change that renames or re-types an exported function the harness links against makes the harness build fail; that is reported as a broken correspondence (`VIOLATION … no-failing-input-found`, replay names `corr:build/harness`), as the brief prescribes. Drivers call constructors whose parameter lists are likely to grow through reflection where that was cheap (C12).")
gen = "\n".join(out)
dp = os.path.join(ROOT, "DESIGN.md")
s = open(dp).read()
B, E = "<!-- BEGIN GENERATED (lib/design_tables.py) -->", "<!-- END GENERATED -->"
if B in s:
    s = s[:s.index(B)] + B + "\n" + gen + "\n" + E + s[s.index(E) + len(E):]
else:
    marker = "---------------------------------------------------------------------------------------\n\n## 1. What is decided"
    s = s.replace(marker, B + "\n" + gen + "\n" + E + "\n\n" + marker, 1)
open(dp, "w").write(s)
print("DESIGN.md updated:", len(gen), "chars")
