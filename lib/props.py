"""Per-property configuration for ./check: which drivers run, how many cases per tier,
and what goes into the evidence's trusted base.  One JSON fragment per property in lib/props.d/."""
import json, os, glob

COMMON_TRUSTED_BASE = [
    "Coq 8.16.1 kernel (coqc; coqchk in the thorough tier of the whole tree); vm_compute used for witnesses and for evaluating the model on harness cases; native_compute not used",
    "no Axiom/Parameter/Admitted in the development (grep gate on every run); no extraction: the model is evaluated inside Coq",
    "hand-written Gallina model in /verif/coq/Model tied to /repo by differential execution: Go harness (/verif/harness, compiled against /repo's working tree on every run) + coqc evaluation of cases_*.v; generators, projections and this python driver are trusted for the correspondence only",
]

PROPS = {}
for f in sorted(glob.glob(os.path.join(os.path.dirname(os.path.abspath(__file__)), "props.d", "*.json"))):
    PROPS[os.path.basename(f)[:-5]] = json.load(open(f))
