"""Per-property configuration for ./check: which drivers run, how many cases per tier,
and what goes into the evidence's trusted base."""

COMMON_TRUSTED_BASE = [
    "Coq 8.16.1 kernel (coqc; coqchk in the thorough tier of the whole tree); vm_compute used for witnesses and for evaluating the model on harness cases; native_compute not used",
    "no Axiom/Parameter/Admitted in the development (grep gate on every run); no extraction: the model is evaluated inside Coq",
    "hand-written Gallina model in /verif/coq/Model tied to /repo by differential execution: Go harness (/verif/harness, compiled against /repo's working tree on every run) + coqc evaluation of cases_*.v; generators, projections and this python driver are trusted for the correspondence only",
]

def drv(name, test, quick, thorough, **kw):
    d = {"name": name, "test": test, "quick": quick, "thorough": thorough}
    d.update(kw)
    return d

PROPS = {
    "C09": {
        "drivers": [drv("basefee", "TestDriverBasefee", 1500, 40000)],
        "trusted_base": [
            "modelled: x/feemarket/keeper/eip1559.go CalculateBaseFee + go-ethereum consensus/misc.CalcBaseFee (London active), the price floor of app/antedl/duallane/07_deduct_fee.go; not modelled: param storage, telemetry",
        ],
        "assumptions": ["block gas meter reports used <= limit for a finite meter (SDK GasConsumedToLimit)"],
    },
}
