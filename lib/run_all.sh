#!/bin/bash
# lib/run_all.sh [tier] [jobs] [props...] : run the claimed checks (or the given ones) on /repo, summary at the end
cd "$(dirname "$0")/.."
TIER=${1:-quick}; JOBS=${2:-4}; shift 2 2>/dev/null
PROPS=${*:-$(cat lib/claimed.txt)}
mkdir -p out/logs
printf "%s\n" $PROPS | xargs -P "$JOBS" -I{} sh -c "./check {} --tier $TIER > out/logs/{}.$TIER.log 2>&1; echo {} exit \$? \$(grep -c '^VIOLATION' out/logs/{}.$TIER.log) violations \$(grep -c '^KNOWN-FINDING' out/logs/{}.$TIER.log) known: \$(tail -n 1 out/logs/{}.$TIER.log | cut -c1-140)"
