#!/usr/bin/env python3
"""lib/seed_keep.py <seed-out-dir> <seeded-id> <property> <demo dest> <demo run cmd> <needs...>  -- copy a confirmed seeded change into /verif/seeded/<id>/"""
import sys, os, shutil, json, re, glob
src, sid, prop, dest, runcmd = sys.argv[1:6]
needs = " ".join(sys.argv[6:])
d = os.path.join('/verif/seeded', sid)
os.makedirs(d, exist_ok=True)
shutil.copy(os.path.join(src, 'patch.diff'), d)
for f in glob.glob(os.path.join(src, '*_test.go')) + glob.glob(os.path.join(src, 'NOTES.md')):
    shutil.copy(f, d)
log = open(os.path.join(src, 'confirm.log')).read() if os.path.exists(os.path.join(src, 'confirm.log')) else ''
summ = re.findall(r'SUMMARY.*', log)
checks = {}
for f in glob.glob(os.path.join(src, 'check_*.out')):
    p = os.path.basename(f)[6:-4]
    t = open(f).read()
    v = re.findall(r'^VIOLATION.*', t, re.M)
    checks[p] = {"exit": 1 if v else 0, "violation_lines": [re.sub(r'replay=\S+', 'replay=<scratch>', x) for x in v[:4]]}
meta = {"id": sid, "property": prop, "breaks": open(os.path.join(src, 'NOTES.md')).read().split('\n\n')[0][:600] if os.path.exists(os.path.join(src, 'NOTES.md')) else '',
        "needs_to_manifest": needs, "demo": {"place_at": dest, "run": runcmd, "fails_with_change": True, "passes_without": True},
        "confirmed": {"what_i_ran": "lib/seed_confirm.sh in a scratch worktree of /repo: demo on clean tree (pass), git apply patch.diff, go build ./... (ok), demo (fail), existing tests of changed packages + direct importers (pass), then ./check <props> with VERIF_REPO=<worktree>", "summary": summ[-1] if summ else ''},
        "checks_at_first_trial": checks, "also_check": sorted(k for k in checks if k != prop)}
json.dump(meta, open(os.path.join(d, 'meta.json'), 'w'), indent=1)
print(sid, checks)
