#!/usr/bin/env python3
"""Regenerate MANIFEST.json from lib/props.d/*.json (claimed = has a props fragment and a Properties/Cxx.v)."""
import json, os, glob
ROOT = os.path.dirname(os.path.dirname(os.path.abspath(__file__)))
props = [json.loads(l) for l in open(os.path.join(ROOT, 'properties.jsonl'))]
claimed = sorted(os.path.basename(f)[:-5] for f in glob.glob(os.path.join(ROOT, 'lib/props.d/*.json'))
                 if os.path.exists(os.path.join(ROOT, 'coq/Properties', os.path.basename(f)[:-5] + '.v')))
ready = set(open(os.path.join(ROOT, 'lib', 'claimed.txt')).read().split())  # checks the lead has seen pass on the unchanged tree
claimed = [c for c in claimed if c in ready]
old = json.load(open(os.path.join(ROOT, 'MANIFEST.json')))
import subprocess
hooks = old.get("hooks")
try:
    hc = subprocess.run(["git", "-C", "/repo", "log", "--format=%h %s", "--grep=^verif:"], capture_output=True, text=True).stdout.strip().split("\n")
    hooks["source_commits"] = [c for c in hc if c]
except Exception:
    pass
m = {
 "version": 1,
 "setup_cmd": "./setup.sh",
 "hooks": hooks,
 "engines": [{"name": "coq-proof+correspondence", "path": "/verif/check", "serves_properties": claimed,
              "kind_free_text": "Coq 8.16.1 theorems over hand-written executable Gallina models; Go differential harness against /repo; model evaluated by coqc/vm_compute on the harness's cases"}],
 "checks": [], "not_applicable": [], "notes": "see DESIGN.md",
}
notes = {}
np = os.path.join(ROOT, 'lib', 'manifest_notes.json')
if os.path.exists(np):
    notes = json.load(open(np))
for p in props:
    pid = p['id']
    if pid in claimed:
        n = notes.get(pid, {})
        m["checks"].append({
          "property_id": pid, "quick_cmd": "./check %s --tier quick" % pid, "thorough_cmd": "./check %s --tier thorough" % pid,
          "evidence_file": "/verif/evidence/%s.json" % pid, "replay_cmd_template": "./check %s --replay {path}" % pid,
          "engine": "coq-proof+correspondence",
          "level_claimed": {"category": "proof", "text": n.get("text", "Coq theorems (all inputs / all histories) about an executable Gallina model of the mechanism, tied to the code on every run by differential execution of model and implementation on generated cases; see DESIGN.md"), "design_ref": "DESIGN.md section 6 " + pid},
          "level_note": n.get("note", "trusted: Coq kernel, the hand-written model (which code is modelled is listed in the evidence trusted_base), the Go harness and python driver for the correspondence"),
          "technique": n.get("technique", "machine-checked proof in Coq over an executable model + model/implementation correspondence check")})
    else:
        m["not_applicable"].append({"property_id": pid, "reason": "not claimed yet: the check for this property (design in DESIGN.md section 6) has not yet been seen to pass on the unchanged tree by the lead; the technique applies and the property is not given up"})
json.dump(m, open(os.path.join(ROOT, 'MANIFEST.json'), 'w'), indent=1)
print("claimed:", claimed)
