#!/bin/bash
# lib/seed_sweep.sh "<seeds>" "<props>" [jobs]: run quick checks for several seeds on scratch copies?  No: on /repo itself, sequential per property
cd "$(dirname "$0")/.."
SEEDS=${1:-"2 3 4 5"}; PROPS=${2:-$(cat lib/claimed.txt)}; JOBS=${3:-3}
mkdir -p out/logs/sweep
for s in $SEEDS; do
  printf "%s\n" $PROPS | xargs -P "$JOBS" -I{} sh -c "VERIF_SEED=$s ./check {} --tier quick > out/logs/sweep/{}.seed$s.log 2>&1; echo seed $s {} exit \$? \$(grep -c '^VIOLATION' out/logs/sweep/{}.seed$s.log)v: \$(tail -n 1 out/logs/sweep/{}.seed$s.log | cut -c1-120)"
done
