package bytes

// Isolation of a failing transaction: twin chains (same genesis, same set-up) execute block B and block B' = B with
// transaction i replaced by another failing transaction of the same sender with the same nonce, gas limit and price
// (the same ante effects). Both variants burn their whole gas limit, so everything else in the block -- every other
// transaction's result bytes and the whole committed state -- must be identical.

import (
	"bytes"
	"fmt"
	"math/big"
	"testing"
	"time"

	abci "github.com/cometbft/cometbft/abci/types"
	"github.com/ethereum/go-ethereum/common"
	"github.com/stretchr/testify/require"

	. "verifharness/hx"
)

type isoCase struct {
	Pos      int    `json:"position"`
	VariantA string `json:"variant_a"`
	VariantB string `json:"variant_b"`
	Block    int    `json:"block_size"`
}

func isolation(t *testing.T, side *Sidecar, rng *Rng, pairs int) {
	for p := 0; p < pairs; p++ {
		r := rng.Fork(uint64(500000 + p))
		size := 4 + r.Intn(4)
		pos := r.Intn(size)
		// failing variants that consume the whole gas limit
		variants := []string{"minimal-INVALID", "effects-then-INVALID", "deep-recursion", "huge-memory", "erc20-transfer-then-INVALID"}
		va := variants[0]
		vb := variants[1+r.Intn(len(variants)-1)]
		if r.Chance(30) {
			va = variants[1+r.Intn(len(variants)-1)]
		}
		if p < 2 { // always: nothing-before-failing against storage+log / precompile-transfer before failing
			va, vb = variants[0], []string{variants[1], variants[4]}[p]
		}
		var perStore, preStore [2]map[string]string
		nb := 0
		build := func(variant string) ([]*abci.ExecTxResult, string, bool) {
			side2 := NewSidecar("iso", 0, "")
			w := newWorld(t, side2)
			// a contract that moves tokens through the ERC-20 precompile, writes storage, logs, then fails
			erc := w.c.NewFundedAccount(905, new(big.Int).Exp(big.NewInt(10), big.NewInt(20), nil))
			code := NewAsm().
				// transfer(0xdead, 1) on the ERC-20 precompile
				Push(new(big.Int).SetBytes(append(mustHex("a9059cbb"), make([]byte, 28)...))).PushU(0).Op(0x52). // MSTORE(0, selector<<224)
				PushU(0xdead).PushU(4).Op(0x52).PushU(1).PushU(36).Op(0x52).
				PushU(0).PushU(0).PushU(68).PushU(0).PushU(0).PushAddr(w.erc20).Op(0x5a, 0xf1, 0x50). // CALL, POP
				PushU(7).PushU(1).Op(0x55).                                                          // SSTORE(1, 7)
				Op(0xfe).Bytes()
			w.c.SetCode(erc.GetEthAddress(), code)
			w.c.RunBlock(nil)
			target := map[string]common.Address{"minimal-INVALID": w.invalid, "effects-then-INVALID": w.rich, "deep-recursion": w.recurse,
				"huge-memory": w.bigmem, "erc20-transfer-then-INVALID": erc.GetEthAddress()}[variant]
			rr := rng.Fork(uint64(600000 + p)) // same stream on both chains
			var txs [][]byte
			for k := 0; k < size; k++ {
				if k == pos {
					txs = append(txs, w.validEthBytes(target, nil, 400000))
					continue
				}
				switch rr.Intn(5) {
				case 0:
					txs = append(txs, w.validEthBytes(w.counter, nil, 100000))
				case 4: // emits a log: its block-wide log index depends on the log count of the transactions before it
					txs = append(txs, w.validEthBytes(w.logger, nil, 100000))
				case 1:
					txs = append(txs, w.validCosmosBytes())
				case 2:
					txs = append(txs, w.validEthBytes(common.BigToAddress(big.NewInt(0xbeef)), nil, 30000))
				default:
					txs = append(txs, w.validEthBytes(w.erc20, append(mustHex("70a08231"), make([]byte, 32)...), 100000))
				}
			}
			preStore[nb%2] = w.c.StoreDigests(w.c.QueryCtx())
			txs = append(txs, w.validEthBytes(w.logger, nil, 100000)) // last: a transaction whose log index is visible
			res := w.finalize(txs, variant)
			if res == nil {
				return nil, "", false
			}
			perStore[nb%2] = w.c.StoreDigests(w.c.QueryCtx())
			nb++
			return res, "", true
		}
		ra, _, oka := build(va)
		rb, _, okb := build(vb)
		ic := isoCase{Pos: pos, VariantA: va, VariantB: vb, Block: size}
		side.Count("isolation:" + va + "|" + vb)
		if !oka || !okb {
			side.Hit("C20/bytes/isolation/block-failed", "a block with a failing transaction did not execute", ic)
			continue
		}
		require.Equal(t, len(ra), len(rb))
		for k := range ra {
			a, _ := ra[k].Marshal()
			b, _ := rb[k].Marshal()
			if k == pos {
				if ra[k].Code != 0 || rb[k].Code != 0 || ra[k].GasUsed != rb[k].GasUsed {
					side.Hit("C20/bytes/isolation/variant-not-comparable", fmt.Sprintf("the failing variants differ in code/gas: %d/%d vs %d/%d", ra[k].Code, ra[k].GasUsed, rb[k].Code, rb[k].GasUsed), ic)
				}
				continue
			}
			if !bytes.Equal(a, b) {
				side.Hit("C20/bytes/isolation/other-tx-result-changed", fmt.Sprintf("result of transaction %d differs when transaction %d fails differently", k, pos), ic)
			}
		}
		// stores that are identical on the twin chains before the block (everything but what depends on the
		// validators' randomly generated consensus keys) must be identical after it
		diff := ""
		compared := 0
		for k, v := range perStore[0] {
			if preStore[0][k] != preStore[1][k] {
				continue
			}
			compared++
			if perStore[1][k] != v {
				diff += k + " "
			}
		}
		side.Count(fmt.Sprintf("isolation_stores_compared:%d", compared))
		if diff != "" {
			side.Hit("C20/bytes/isolation/state-differs", "committed state differs between two blocks whose only difference is how one transaction failed; stores: "+diff, ic)
		}
	}
	_ = time.Second
}
