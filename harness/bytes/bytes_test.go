package bytes

// Driver `bytes` (C20): random / mutated byte strings and adversarial well-typed transactions into CheckTx,
// PrepareProposal, ProcessProposal, FinalizeBlock and ABCI Query of a live in-memory app, under generated valid
// consensus parameters. Oracle: every entry point returns (no panic escapes; the chain keeps producing blocks),
// and a failing transaction leaves the other transactions of the block untouched (twin chains).
// Correspondence: the outcome class per input against the verdict class of coq/Model/Total.v.

import (
	"bytes"
	"encoding/hex"
	"fmt"
	"math/big"
	"os"
	"sort"
	"strings"
	"testing"
	"time"

	sdkmath "cosmossdk.io/math"
	abci "github.com/cometbft/cometbft/abci/types"
	tmproto "github.com/cometbft/cometbft/proto/tendermint/types"
	codectypes "github.com/cosmos/cosmos-sdk/codec/types"
	sdk "github.com/cosmos/cosmos-sdk/types"
	authtypes "github.com/cosmos/cosmos-sdk/x/auth/types"
	vestingtypes "github.com/cosmos/cosmos-sdk/x/auth/vesting/types"
	banktypes "github.com/cosmos/cosmos-sdk/x/bank/types"
	govtypes "github.com/cosmos/cosmos-sdk/x/gov/types"
	"github.com/cosmos/gogoproto/proto"
	"github.com/ethereum/go-ethereum/common"
	ethtypes "github.com/ethereum/go-ethereum/core/types"
	"github.com/stretchr/testify/require"

	itutiltypes "github.com/EscanBE/evermint/v12/integration_test_util/types"
	evertypes "github.com/EscanBE/evermint/v12/types"
	cpctypes "github.com/EscanBE/evermint/v12/x/cpc/types"
	evmtypes "github.com/EscanBE/evermint/v12/x/evm/types"
	feemarkettypes "github.com/EscanBE/evermint/v12/x/feemarket/types"
	vauthtypes "github.com/EscanBE/evermint/v12/x/vauth/types"

	. "verifharness/hx"
)

// outcome class of an ABCI result: 0 accepted/executed, 1 error returned (out of gas included), 2 panic recovered
func classOf(code uint32, codespace string) int64 {
	switch {
	case code == 0:
		return 0
	case code == 111222 && (codespace == "undefined" || codespace == ""):
		return 2
	default:
		return 1
	}
}

type world struct {
	t        *testing.T
	c        *Chain
	side     *Sidecar
	nextAcct int
	invalid  common.Address // code: INVALID
	recurse  common.Address // calls itself until the gas/depth runs out, then INVALID
	bigmem   common.Address // MSTORE at 2^256-1
	rich     common.Address // SSTORE, LOG0, then INVALID
	counter  common.Address // SSTORE(0, SLOAD(0)+1); succeeds
	logger   common.Address // LOG0; succeeds
	erc20    common.Address
	escaped  int
	halted   bool // FinalizeBlock/Commit did not return normally: the chain is halted, like a real node
}

func newWorld(t *testing.T, side *Sidecar) *world {
	c := NewChain(t, time.Time{})
	w := &world{t: t, c: c, side: side, nextAcct: 1000}
	erc := c.DeployCpcs(c.Denom())
	w.erc20 = erc[0]
	place := func(n int, code []byte) common.Address {
		a := c.NewFundedAccount(n, big.NewInt(1))
		c.SetCode(a.GetEthAddress(), code)
		return a.GetEthAddress()
	}
	w.invalid = place(900, []byte{0xfe})
	w.recurse = place(901, mustHex("60006000600060006000305af1fe"))
	w.bigmem = place(902, append(append([]byte{0x60, 0x01, 0x7f}, bytes.Repeat([]byte{0xff}, 32)...), 0x52))
	w.rich = place(903, mustHex("600160005560006000a0fe"))
	w.counter = place(904, mustHex("600054600101600055"))
	w.logger = place(906, mustHex("60006000a0"))
	c.RunBlock(nil)
	return w
}

func mustHex(s string) []byte {
	b, err := hex.DecodeString(s)
	if err != nil {
		panic(err)
	}
	return b
}

func (w *world) fresh() *itutiltypes.TestAccount {
	w.nextAcct++
	return w.c.NewFundedAccount(w.nextAcct, new(big.Int).Exp(big.NewInt(10), big.NewInt(24), nil))
}

// guard runs f and turns an escaped panic into an oracle hit (class 4).
func (w *world) guard(entry string, desc interface{}, f func()) bool {
	p := CatchPanic(f)
	if p != nil {
		w.escaped++
		msg := fmt.Sprint(p)
		if len(msg) > 300 {
			msg = msg[:300]
		}
		w.side.Hit("C20/bytes/"+entry+"/escaped-panic", fmt.Sprintf("%s panicked: %s", entry, msg), desc)
		return false
	}
	return true
}

func (w *world) checkTx(bz []byte, desc interface{}) int64 {
	cls := int64(4)
	w.guard("CheckTx", desc, func() {
		r, err := w.c.CheckTx(bz, false)
		if err != nil {
			cls = 1
			return
		}
		cls = classOf(r.Code, r.Codespace)
	})
	return cls
}

func (w *world) prepare(txs [][]byte, desc interface{}) int64 {
	cls := int64(4)
	w.guard("PrepareProposal", desc, func() {
		_, err := w.c.App.BaseApp.PrepareProposal(&abci.RequestPrepareProposal{Txs: txs, MaxTxBytes: 1 << 22, Height: w.c.Height, Time: w.c.Time})
		if err != nil {
			cls = 1
		} else {
			cls = 0
		}
	})
	return cls
}

func (w *world) process(txs [][]byte, desc interface{}) int64 {
	cls := int64(4)
	w.guard("ProcessProposal", desc, func() {
		r, err := w.c.App.BaseApp.ProcessProposal(&abci.RequestProcessProposal{Txs: txs, Height: w.c.Height, Time: w.c.Time})
		if err != nil || r.Status != abci.ResponseProcessProposal_ACCEPT {
			cls = 1
		} else {
			cls = 0
		}
	})
	return cls
}

// finalize runs one block; returns the per-tx results (nil if FinalizeBlock/Commit did not return normally).
func (w *world) finalize(txs [][]byte, desc interface{}) []*abci.ExecTxResult {
	var res *abci.ResponseFinalizeBlock
	ok := w.guard("FinalizeBlock", desc, func() {
		var err error
		res, err = w.c.RunBlockE(txs)
		if err != nil {
			w.side.Hit("C20/bytes/FinalizeBlock/error-returned", "FinalizeBlock/Commit returned an error: "+err.Error(), desc)
			res = nil
		}
	})
	if !ok || res == nil {
		w.halted = true
		return nil
	}
	return res.TxResults
}

// ------------------------------------------------------------------ generators

func (w *world) bankSend(from *itutiltypes.TestAccount, amt int64) sdk.Msg {
	to := sdk.AccAddress(common.BigToAddress(big.NewInt(0xdead)).Bytes())
	return &banktypes.MsgSend{FromAddress: from.GetCosmosAddress().String(), ToAddress: to.String(),
		Amount: sdk.NewCoins(sdk.NewInt64Coin(w.c.Denom(), amt))}
}

func (w *world) signedCosmos(acct *itutiltypes.TestAccount, rt *RawTx, badSig bool) []byte {
	num, seq := w.c.AccNumSeq(acct.GetCosmosAddress())
	if badSig {
		num += 7
	}
	require.NoError(w.t, rt.SignDirect(w.c.ChainID(), acct, num, seq))
	bz, err := rt.Encode()
	require.NoError(w.t, err)
	return bz
}

func (w *world) validCosmosBytes() []byte {
	a := w.fresh()
	base := w.c.BaseFee(w.c.QueryCtx())
	gas := uint64(300000)
	rt := &RawTx{Msgs: []sdk.Msg{w.bankSend(a, 1)}, Gas: gas, Fee: w.c.FeeCoins(new(big.Int).Mul(base, big.NewInt(int64(gas))))}
	return w.signedCosmos(a, rt, false)
}

func (w *world) validEthBytes(to common.Address, data []byte, gas uint64) []byte {
	a := w.fresh()
	return w.c.EthCallTx(a, to, data, gas, nil)
}

type cosCase struct {
	Desc   string `json:"desc"`
	Term   string `json:"-"`
	bz     []byte
	CCheck int64 `json:"class_check"`
	CFinal int64 `json:"class_final"`
}

// adversarial Cosmos-lane transaction; returns bytes and the Coq record of its features
func (w *world) genCosmos(r *Rng) (bz []byte, term string, desc string) {
	a := w.fresh()
	base := w.c.BaseFee(w.c.QueryCtx())
	gas := uint64(300000)
	gasKind := "ample"
	switch r.Intn(12) {
	case 0:
		gas, gasKind = 0, "zero"
	case 1:
		gas, gasKind = 1, "one"
	case 2:
		gas, gasKind = 500, "tiny"
	case 3:
		gas, gasKind = 1<<63, "2^63"
	case 4:
		gas, gasKind = ^uint64(0), "2^64-1"
	}
	g := new(big.Int).SetUint64(gas)
	var fee *big.Int
	feeKind := ""
	switch r.Intn(7) {
	case 0:
		fee, feeKind = big.NewInt(0), "zero"
	case 1:
		fee, feeKind = new(big.Int).Sub(g, big.NewInt(1)), "gas-1"
		if fee.Sign() < 0 {
			fee = big.NewInt(0)
		}
	case 2:
		fee, feeKind = new(big.Int).Sub(new(big.Int).Mul(g, base), big.NewInt(1)), "just-below"
		if fee.Sign() < 0 {
			fee = big.NewInt(0)
		}
	case 3:
		fee, feeKind = new(big.Int).Exp(big.NewInt(10), big.NewInt(30), nil), "above-balance"
	default:
		fee, feeKind = new(big.Int).Mul(g, new(big.Int).Mul(base, big.NewInt(2))), "2x"
	}
	if fee.BitLen() > 255 {
		fee = new(big.Int).Lsh(big.NewInt(1), 200)
		feeKind = "2^200"
	}
	feesLen, denomOK := 1, true
	fees := w.c.FeeCoins(fee)
	switch r.Intn(12) {
	case 0:
		fees, feesLen = sdk.Coins{}, 0
	case 1:
		fees = sdk.Coins{sdk.NewCoin("aaa", sdkmath.NewIntFromBigInt(fee)), sdk.NewCoin(w.c.Denom(), sdkmath.NewIntFromBigInt(fee))}
		feesLen = 2
	case 2:
		fees, denomOK = sdk.Coins{sdk.NewCoin("uother", sdkmath.NewIntFromBigInt(fee))}, false
	}
	rt := &RawTx{Gas: gas, Fee: fees}
	// dynamic fee extension
	dyn := "None"
	switch r.Intn(6) {
	case 0: // present, nil tip (the field is simply absent on the wire)
		any, err := codectypes.NewAnyWithValue(&evertypes.ExtensionOptionDynamicFeeTx{})
		require.NoError(w.t, err)
		any.Value = nil
		rt.ExtOpts = []*codectypes.Any{any}
		dyn = "(Some None)"
	case 1, 2:
		tip := int64(r.Intn(3)) * 1_000_000_000
		any, err := codectypes.NewAnyWithValue(&evertypes.ExtensionOptionDynamicFeeTx{MaxPriorityPrice: sdkmath.NewInt(tip)})
		require.NoError(w.t, err)
		rt.ExtOpts = []*codectypes.Any{any}
		dyn = fmt.Sprintf("(Some (Some %s))", CqZi(tip))
	}
	// message
	msgTerm := "(MPlain true)"
	msgKind := "send"
	switch r.Intn(8) {
	case 0:
		rt.Msgs = []sdk.Msg{w.bankSend(a, 1)}
	case 1: // vesting account creation for an invalid bech32 address
		rt.Msgs = []sdk.Msg{&vestingtypes.MsgCreateVestingAccount{FromAddress: a.GetCosmosAddress().String(), ToAddress: "evm1notbech32",
			Amount: sdk.NewCoins(sdk.NewInt64Coin(w.c.Denom(), 5)), EndTime: w.c.Time.Unix() + 1000}}
		msgTerm, msgKind = "(MVesting false false)", "vesting-bad-to"
	case 2: // vauth proof with an upper-case hex signature
		owner := w.fresh()
		sig := "0x" + strings.ToUpper(hex.EncodeToString(VauthSignature(owner)))
		rt.Msgs = []sdk.Msg{&vauthtypes.MsgSubmitProofExternalOwnedAccount{Submitter: a.GetCosmosAddress().String(),
			Account: owner.GetCosmosAddress().String(), Signature: sig}}
		msgTerm, msgKind = "(MVauth false true)", "vauth-upper-sig"
	case 3: // the same with a proper lower-case signature
		owner := w.fresh()
		sig := "0x" + hex.EncodeToString(VauthSignature(owner))
		rt.Msgs = []sdk.Msg{&vauthtypes.MsgSubmitProofExternalOwnedAccount{Submitter: a.GetCosmosAddress().String(),
			Account: owner.GetCosmosAddress().String(), Signature: sig}}
		msgTerm, msgKind = "(MVauth true true)", "vauth-ok"
	case 4: // bank send of more than the balance: the handler returns an error
		rt.Msgs = []sdk.Msg{&banktypes.MsgSend{FromAddress: a.GetCosmosAddress().String(), ToAddress: sdk.AccAddress(w.invalid.Bytes()).String(),
			Amount: sdk.NewCoins(sdk.NewCoin(w.c.Denom(), sdkmath.NewIntFromBigInt(new(big.Int).Lsh(big.NewInt(1), 120))))}}
		msgTerm, msgKind = "(MPlain false)", "send-too-much"
	default:
		rt.Msgs = []sdk.Msg{w.bankSend(a, 1)}
	}
	badSig := r.Chance(8)
	bz = w.signedCosmos(a, rt, badSig)

	// features
	basicOK := gas <= 1<<63-1
	payerOK := feeKind != "above-balance" && feeKind != "2^200"
	// effective fee actually deducted decides whether the payer can pay; with a dynamic-fee extension it is at most the fee
	if dyn != "None" && dyn != "(Some None)" && !payerOK {
		// effective price = min(tip + base, cap): far below the balance for the gas values generated here
		eff := new(big.Int).Mul(g, new(big.Int).Add(base, big.NewInt(2_000_000_000)))
		if eff.Cmp(new(big.Int).Exp(big.NewInt(10), big.NewInt(24), nil)) < 0 {
			payerOK = true
		}
	}
	sizeGas := int64(10 * len(bz))
	term = fmt.Sprintf("(mkCos %s true %s (-1) %s %s %s %s %s %s %s %s %s true %s true)",
		CqBool(basicOK), CqZu(gas), CqZi(sizeGas), CqZi(int64(feesLen)), CqBool(denomOK), CqZ(fee), dyn, CqZ(base), CqZ(base),
		CqBool(payerOK), CqBool(!badSig), msgTerm)
	desc = fmt.Sprintf("cosmos gas=%s fee=%s fees_len=%d denom_ok=%v dyn=%s msg=%s bad_sig=%v", gasKind, feeKind, feesLen, denomOK, dyn, msgKind, badSig)
	w.side.Count("cosmos_gas:" + gasKind)
	w.side.Count("cosmos_fee:" + feeKind)
	w.side.Count("cosmos_msg:" + msgKind)
	w.side.Count("cosmos_dyn:" + strings.Trim(strings.Split(dyn, " ")[0], "()") + fmt.Sprint(strings.Count(dyn, "Some")))
	return
}

// adversarial Ethereum-lane transaction
func (w *world) genEth(r *Rng) (bz []byte, term string, desc string) {
	a := w.fresh()
	q := w.c.QueryCtx()
	base := w.c.BaseFee(q)
	chainID := w.c.EvmChainID()
	to := common.BigToAddress(big.NewInt(0xbeef))
	gas := uint64(100000)
	price := new(big.Int).Mul(base, big.NewInt(2))
	value := big.NewInt(0)
	fromOK, payloadOK, fieldsOK, envelopeOK := true, true, true, true
	kind := r.Intn(14)
	name := ""
	dynamic := false
	tip, capv := big.NewInt(0), big.NewInt(0)
	switch kind {
	case 0:
		name = "valid-legacy"
	case 1:
		name, dynamic, tip, capv = "valid-dynamic", true, big.NewInt(1), new(big.Int).Mul(base, big.NewInt(3))
	case 2:
		name, payloadOK = "garbage-payload", false
	case 3:
		name, fromOK = "bad-bech32-from", false
	case 4:
		name, gas, fieldsOK = "gas-zero", 0, false
	case 5:
		name, gas, fieldsOK = "gas-2^64-1", ^uint64(0), false
	case 6:
		name, price, fieldsOK = "price-2^256-1", new(big.Int).Sub(new(big.Int).Lsh(big.NewInt(1), 256), big.NewInt(1)), false
	case 7:
		name, value = "value-2^256-1", new(big.Int).Sub(new(big.Int).Lsh(big.NewInt(1), 256), big.NewInt(1))
	case 8:
		name, price = "price-zero", big.NewInt(0)
	case 9:
		name, envelopeOK = "envelope-fee-mismatch", false
	case 10:
		name, envelopeOK = "envelope-gas-mismatch", false
	case 11:
		name, gas = "gas-20999", 20999
	case 12:
		name, dynamic, tip, capv = "dynamic-tip-above-cap", true, new(big.Int).Mul(base, big.NewInt(5)), new(big.Int).Mul(base, big.NewInt(3))
		fieldsOK = false
	default:
		name, price = "price-below-base", big.NewInt(1)
	}
	var txData ethtypes.TxData
	if dynamic {
		txData = &ethtypes.DynamicFeeTx{ChainID: chainID, Nonce: 0, GasTipCap: tip, GasFeeCap: capv, Gas: gas, To: &to, Value: value}
	} else {
		txData = &ethtypes.LegacyTx{Nonce: 0, GasPrice: price, Gas: gas, To: &to, Value: value}
	}
	key, err := a.PrivateKey.ToECDSA()
	require.NoError(w.t, err)
	signedTx, err := ethtypes.SignTx(ethtypes.NewTx(txData), ethtypes.LatestSignerForChainID(chainID), key)
	require.NoError(w.t, err)
	payload, err := signedTx.MarshalBinary()
	require.NoError(w.t, err)
	msg := &evmtypes.MsgEthereumTx{From: a.GetCosmosAddress().String(), MarshalledTx: payload}
	if !payloadOK {
		msg.MarshalledTx = append([]byte{0xc1, 0xff, 0x00}, rbytes(r, 1+r.Intn(40))...)
	}
	if !fromOK {
		msg.From = "evm1" + strings.Repeat("q", 7)
	}
	// the envelope
	var feeAmt *big.Int
	if dynamic {
		feeAmt = new(big.Int).Mul(capv, new(big.Int).SetUint64(gas))
	} else {
		feeAmt = new(big.Int).Mul(price, new(big.Int).SetUint64(gas))
	}
	envGas := gas
	if name == "envelope-fee-mismatch" {
		feeAmt = new(big.Int).Add(feeAmt, big.NewInt(1))
	}
	if name == "envelope-gas-mismatch" {
		envGas = gas + 1
	}
	if feeAmt.BitLen() > 255 {
		feeAmt = new(big.Int).Lsh(big.NewInt(1), 255)
	}
	fees := sdk.Coins{}
	feeLen := 0
	if feeAmt.Sign() > 0 {
		fees, feeLen = w.c.FeeCoins(feeAmt), 1
	}
	opt, err := codectypes.NewAnyWithValue(&evmtypes.ExtensionOptionsEthereumTx{})
	require.NoError(w.t, err)
	rt := &RawTx{Msgs: []sdk.Msg{msg}, ExtOpts: []*codectypes.Any{opt}, Gas: envGas, Fee: fees}
	bz, err = rt.Encode()
	require.NoError(w.t, err)
	p, tp, cp := price, tip, capv
	if p.BitLen() > 256 {
		p = big.NewInt(0)
	}
	term = fmt.Sprintf("(mk_eth %s %s %s %s %s true %s %s %s %s %s)", CqBool(fromOK), CqBool(payloadOK), CqBool(fieldsOK), CqBool(envelopeOK),
		CqZi(int64(feeLen)), CqZu(gas), CqBool(dynamic), CqZ(p), CqZ(tp), CqZ(cp))
	desc = "eth " + name
	w.side.Count("eth_kind:" + name)
	return
}

// ------------------------------------------------------------------ driver

type rawCase struct {
	Kind     string `json:"kind"`
	Hex      string `json:"hex"`
	Decodes  bool   `json:"decodes"`
	CCheck   int64  `json:"class_check"`
	CPrepare int64  `json:"class_prepare"`
	CProcess int64  `json:"class_process"`
	CFinal   int64  `json:"class_final"`
}

func rbytes(r *Rng, n int) []byte {
	b := make([]byte, n)
	for i := range b {
		b[i] = byte(r.U64())
	}
	return b
}

func mutate(r *Rng, in []byte) []byte {
	b := append([]byte(nil), in...)
	for k := 0; k < 1+r.Intn(4); k++ {
		if len(b) == 0 {
			b = []byte{byte(r.U64())}
			continue
		}
		i := r.Intn(len(b))
		switch r.Intn(6) {
		case 0:
			b[i] ^= 1 << uint(r.Intn(8))
		case 1:
			b[i] = byte(r.U64())
		case 2:
			b = append(b[:i], b[i+1:]...)
		case 3:
			b = append(b[:i], append([]byte{byte(r.U64())}, b[i:]...)...)
		case 4:
			b = b[:i]
		default: // overwrite a varint-looking byte with a huge length
			b[i] = 0xff
		}
	}
	return b
}

func TestDriverBytes(t *testing.T) {
	dir := OutDir(t)
	seed := EnvSeed()
	n := EnvInt("VERIF_N", 260)
	rng := NewRng(seed)
	side := NewSidecar("bytes", seed,
		"case = one input offered to the ABCI entry points of a live app: a byte string (random, or a mutated valid transaction) through CheckTx, "+
			"PrepareProposal, ProcessProposal and FinalizeBlock; an adversarial Cosmos-lane or Ethereum-lane transaction through CheckTx and FinalizeBlock; "+
			"a custom-precompile call with call data of every length 0..40; an ABCI query; a block under generated consensus max_gas; "+
			"non-trivial = the input got past the decoder, or hit a panic site, or is a query/precompile/end-of-block case")
	cases := NewCases(dir, "From Evm Require Import BaseFee TxPipe Total TraceCfg CorrTotal.", "total_mismatches")
	w := newWorld(t, side)
	c := w.c
	decoder := c.S.EncodingConfig.TxConfig.TxDecoder()
	idx := 0

	validC := w.validCosmosBytes()
	validE := w.validEthBytes(common.BigToAddress(big.NewInt(0xbeef)), nil, 50000)

	// ---- 1. byte strings
	nRaw := n * 35 / 100
	for i := 0; i < nRaw && !w.halted; {
		r := rng.Fork(uint64(i))
		var batch [][]byte
		var kinds []string
		for k := 0; k < 8 && i < nRaw; k, i = k+1, i+1 {
			rr := r.Fork(uint64(k))
			switch rr.Intn(5) {
			case 0:
				batch, kinds = append(batch, rbytes(rr, rr.Intn(200))), append(kinds, "random")
			case 1:
				batch, kinds = append(batch, mutate(rr, validE)), append(kinds, "mutated-eth")
			case 2:
				batch, kinds = append(batch, mutate(rr, validC)), append(kinds, "mutated-cosmos")
			case 3: // valid protobuf envelope around garbage
				raw, _ := proto.Marshal(&tmproto.Header{ChainID: string(rbytes(rr, rr.Intn(30)))})
				batch, kinds = append(batch, raw), append(kinds, "other-proto")
			default:
				batch, kinds = append(batch, mutate(rr, mutate(rr, validC))), append(kinds, "mutated-twice")
			}
		}
		rc := make([]rawCase, len(batch))
		for k, bz := range batch {
			_, derr := decoder(bz)
			rc[k] = rawCase{Kind: kinds[k], Hex: hex.EncodeToString(bz), Decodes: derr == nil}
			rc[k].CCheck = w.checkTx(bz, rc[k])
			rc[k].CPrepare = w.prepare([][]byte{bz}, rc[k])
			rc[k].CProcess = w.process([][]byte{bz}, rc[k])
		}
		w.prepare(batch, rc)
		w.process(batch, rc)
		res := w.finalize(batch, rc)
		for k := range batch {
			rc[k].CFinal = 4
			if res != nil {
				rc[k].CFinal = classOf(res[k].Code, res[k].Codespace)
			}
			cases.Add(fmt.Sprintf("(TRaw %s %s %s %s %s)", CqBool(rc[k].Decodes), CqZi(rc[k].CCheck), CqZi(rc[k].CPrepare), CqZi(rc[k].CProcess), CqZi(rc[k].CFinal)))
			side.Count("raw:" + rc[k].Kind)
			side.Count(fmt.Sprintf("raw_decodes:%v", rc[k].Decodes))
			side.Count(fmt.Sprintf("raw_final_class:%d", rc[k].CFinal))
			side.Case(idx, "raw:"+rc[k].Hex, rc[k].Decodes, rc[k])
			idx++
		}
	}

	// ---- 2. adversarial well-typed transactions (blocks of 6)
	nTyped := n * 40 / 100
	for i := 0; i < nTyped && !w.halted; {
		var batch [][]byte
		var terms, descs []string
		var isEth []bool
		for k := 0; k < 6 && i < nTyped; k, i = k+1, i+1 {
			r := rng.Fork(uint64(100000 + i))
			if r.Chance(55) {
				bz, term, desc := w.genCosmos(r)
				batch, terms, descs, isEth = append(batch, bz), append(terms, term), append(descs, desc), append(isEth, false)
			} else {
				bz, term, desc := w.genEth(r)
				batch, terms, descs, isEth = append(batch, bz), append(terms, term), append(descs, desc), append(isEth, true)
			}
		}
		checks := make([]int64, len(batch))
		for k, bz := range batch {
			checks[k] = w.checkTx(bz, descs[k])
		}
		w.prepare(batch, descs)
		w.process(batch, descs)
		base := c.BaseFee(c.QueryCtx())
		res := w.finalize(batch, descs)
		for k := range batch {
			fin := int64(4)
			if res != nil {
				fin = classOf(res[k].Code, res[k].Codespace)
			}
			d := map[string]interface{}{"desc": descs[k], "class_check": checks[k], "class_final": fin, "hex": hex.EncodeToString(batch[k])}
			if res != nil && fin != 0 {
				d["log"] = tail(res[k].Log, 160)
			}
			if isEth[k] {
				cases.Add(fmt.Sprintf("(TEth %s %s %s %s)", terms[k], CqZ(base), CqZi(checks[k]), CqZi(fin)))
			} else {
				cases.Add(fmt.Sprintf("(TCos %s %s %s)", terms[k], CqZi(checks[k]), CqZi(fin)))
			}
			side.Count(fmt.Sprintf("typed_final_class:%d", fin))
			side.Count(fmt.Sprintf("typed_check_class:%d", checks[k]))
			side.Case(idx, "typed:"+descs[k]+fmt.Sprint(i, k), checks[k] == 2 || fin == 2 || fin == 0, d)
			idx++
		}
	}

	// ---- 3. precompile call data of every length 0..40, random and known selectors, to every custom precompile;
	//         contracts with INVALID / deep recursion / huge memory
	type target struct {
		name string
		addr common.Address
		sels [][]byte
	}
	targets := []target{
		{"bech32", cpctypes.CpcBech32FixedAddress, [][]byte{mustHex("b361cfef"), mustHex("bc42537f"), mustHex("96443b16"), mustHex("f6e0d503")}},
		{"staking", cpctypes.CpcStakingFixedAddress, [][]byte{mustHex("06fdde03"), mustHex("026e402b"), mustHex("70a08231"), mustHex("d73d841b"), mustHex("a9059cbb"), mustHex("c7b8981c")}},
		{"erc20", w.erc20, [][]byte{mustHex("06fdde03"), mustHex("70a08231"), mustHex("a9059cbb"), mustHex("23b872dd"), mustHex("095ea7b3"), mustHex("42966c68")}},
	}
	nCpc := n * 15 / 100
	if nCpc < 41 {
		nCpc = 41
	}
	for i := 0; i < nCpc && !w.halted; {
		var batch [][]byte
		type meta struct {
			Target string `json:"target"`
			Len    int    `json:"len"`
			Known  bool   `json:"selector_known"`
			Data   string `json:"data"`
			Failed bool   `json:"failed"`
			Class  int64  `json:"class"`
		}
		var metas []meta
		for k := 0; k < 8 && i < nCpc; k, i = k+1, i+1 {
			r := rng.Fork(uint64(200000 + i))
			tg := targets[i%len(targets)]
			ln := i % 41
			data := rbytes(r, ln)
			known := false
			if ln >= 4 && r.Chance(60) {
				copy(data, tg.sels[r.Intn(len(tg.sels))])
				known = true
				if r.Chance(30) { // well-formed zero arguments
					for j := 4; j < len(data); j++ {
						data[j] = 0
					}
				}
			} else if ln >= 4 {
				for _, s := range tg.sels { // make sure a random selector is not a known one
					if bytes.Equal(data[:4], s) {
						data[0] ^= 0x55
					}
				}
				// the full method list is larger than sels: mark unknown only if the observed call fails; see below
			}
			batch = append(batch, w.validEthBytes(tg.addr, data, 1_000_000))
			metas = append(metas, meta{Target: tg.name, Len: ln, Known: known, Data: hex.EncodeToString(data)})
		}
		res := w.finalize(batch, metas)
		for k := range batch {
			m := metas[k]
			m.Class = 4
			if res != nil {
				m.Class = classOf(res[k].Code, res[k].Codespace)
				if m.Class == 0 {
					m.Failed = c.DecodeEthResult(res[k]).Status == 0
				}
			}
			known := m.Known
			if !known && !m.Failed {
				known = true // a random selector that happens to be a method of the contract
			}
			cases.Add(fmt.Sprintf("(TCpc %s %s true %s %s)", CqZi(int64(m.Len)), CqBool(known), CqBool(m.Failed), CqZi(m.Class)))
			side.Count(fmt.Sprintf("cpc:%s:known=%v:failed=%v", m.Target, m.Known, m.Failed))
			side.Case(idx, fmt.Sprintf("cpc:%s:%s", m.Target, m.Data), true, m)
			idx++
			// direct oracle: call data shorter than a selector can only fail
			if m.Len < 4 && m.Class == 0 && !m.Failed {
				side.Hit("C20/bytes/cpc/short-input-succeeded", "a custom precompile accepted call data shorter than 4 bytes", m)
			}
		}
	}
	if !w.halted { // contracts
		batch := [][]byte{
			w.validEthBytes(w.invalid, nil, 200000), w.validEthBytes(w.recurse, nil, 3_000_000),
			w.validEthBytes(w.bigmem, nil, 500000), w.validEthBytes(w.rich, nil, 200000), w.validEthBytes(w.counter, nil, 200000),
		}
		names := []string{"INVALID", "deep-recursion", "huge-memory", "effects-then-INVALID", "counter"}
		res := w.finalize(batch, names)
		for k := range batch {
			cls, failed := int64(4), false
			if res != nil {
				cls = classOf(res[k].Code, res[k].Codespace)
				if cls == 0 {
					failed = c.DecodeEthResult(res[k]).Status == 0
				}
			}
			// modelled as a call whose method fails (every one but the counter): len 4, known selector, arguments fine
			mustFail := names[k] != "counter"
			cases.Add(fmt.Sprintf("(TCpc 4 %s true %s %s)", CqBool(!mustFail), CqBool(failed), CqZi(cls)))
			side.Count(fmt.Sprintf("contract:%s:failed=%v:class=%d", names[k], failed, cls))
			side.Case(idx, "contract:"+names[k], true, map[string]interface{}{"contract": names[k], "failed": failed, "class": cls})
			idx++
			if mustFail != failed && cls == 0 {
				side.Hit("C20/bytes/contract/unexpected-status", fmt.Sprintf("contract %s: failed=%v", names[k], failed), names[k])
			}
		}
	}

	// ---- 4. queries through BaseApp.Query (the recover boundary of the ABCI query path)
	nQ := n * 10 / 100
	for i := 0; i < nQ && !w.halted; i++ {
		r := rng.Fork(uint64(300000 + i))
		var path string
		var data []byte
		var term, desc string
		garbageMsg := &evmtypes.MsgEthereumTx{From: "x", MarshalledTx: rbytes(r, 1 + r.Intn(20))}
		okMsg := func() *evmtypes.MsgEthereumTx {
			a := w.fresh()
			_, m, err := c.EthTxBytes(a, &ethtypes.LegacyTx{Nonce: 0, GasPrice: new(big.Int).Mul(c.BaseFee(c.QueryCtx()), big.NewInt(2)), Gas: 50000,
				To: &w.counter, Value: big.NewInt(0)})
			require.NoError(t, err)
			return m
		}
		switch r.Intn(9) {
		case 0:
			path, desc, term = "/ethermint.evm.v1.Query/TraceTx", "TraceTx nil msg", "(QTraceTx false true true true)"
			data, _ = proto.Marshal(&evmtypes.QueryTraceTxRequest{BlockNumber: c.Height - 1})
		case 1:
			path, desc, term = "/ethermint.evm.v1.Query/TraceTx", "TraceTx garbage msg", "(QTraceTx true false true true)"
			data, _ = proto.Marshal(&evmtypes.QueryTraceTxRequest{Msg: garbageMsg, BlockNumber: c.Height - 1})
		case 2:
			path, desc, term = "/ethermint.evm.v1.Query/TraceTx", "TraceTx garbage predecessor", "(QTraceTx true true false true)"
			data, _ = proto.Marshal(&evmtypes.QueryTraceTxRequest{Msg: okMsg(), Predecessors: []*evmtypes.MsgEthereumTx{garbageMsg}, BlockNumber: c.Height - 1})
		case 3:
			path, desc, term = "/ethermint.evm.v1.Query/TraceTx", "TraceTx valid", "(QTraceTx true true true true)"
			data, _ = proto.Marshal(&evmtypes.QueryTraceTxRequest{Msg: okMsg(), BlockNumber: c.Height - 1})
		case 4:
			path, desc, term = "/ethermint.evm.v1.Query/EthCall", "EthCall garbage args", "(QEthCall false false true)"
			data, _ = proto.Marshal(&evmtypes.EthCallRequest{Args: rbytes(r, r.Intn(40)), GasCap: 1_000_000})
		case 5:
			path, desc, term = "/ethermint.evm.v1.Query/EthCall", "EthCall valid", "(QEthCall true false true)"
			data, _ = proto.Marshal(&evmtypes.EthCallRequest{Args: []byte(fmt.Sprintf(`{"to":"%s"}`, w.counter.Hex())), GasCap: 1_000_000})
		case 6:
			path, desc, term = "/ethermint.evm.v1.Query/Account", "Account bad address", "(QPlain false)"
			data, _ = proto.Marshal(&evmtypes.QueryAccountRequest{Address: string(rbytes(r, r.Intn(30)))})
		case 7:
			path, desc, term = "/"+string(rbytes(r, r.Intn(20))), "random path", "(QPlain false)"
			data = rbytes(r, r.Intn(60))
		default:
			path, desc, term = "/ethermint.evm.v1.Query/TraceBlock", "random request bytes", ""
			data = rbytes(r, r.Intn(60))
		}
		cls := int64(4)
		w.guard("Query", desc, func() {
			resp, err := c.App.BaseApp.Query(nil, &abci.RequestQuery{Path: path, Data: data}) //nolint:staticcheck
			if err != nil {
				cls = 1
				return
			}
			cls = classOf(resp.Code, resp.Codespace)
		})
		side.Count(fmt.Sprintf("query:%s:class=%d", desc, cls))
		if term != "" {
			cases.Add(fmt.Sprintf("(TQuery %s %s)", term, CqZi(cls)))
			side.Case(idx, fmt.Sprintf("query:%s:%x", desc, data), true, map[string]interface{}{"query": desc, "path": path, "class": cls})
			idx++
		}
	}

	// ---- 4b. trace / call queries whose handler starts goroutines, in a child process (queryprobe_test.go): the request
	//          fields as a product of adversarial values; the death of the process is the observation
	if !w.halted && os.Getenv("VERIF_BYTES_NO_QPROBE") == "" {
		qr := runQueryProbeChild(t, dir)
		seen := map[int]bool{}
		emit := func(q qresult, survived bool) {
			seen[q.Idx] = true
			side.Count(fmt.Sprintf("qprobe:%s:%s:class=%d:survived=%v", q.Entry, q.Class, q.QClass, survived))
			if q.Model && survived && q.Timeout == "none" && q.Ms > 1500 {
				// the default trace timeout is 5 s of wall clock: on a machine this slow the answer's class is not the code's doing
				side.Count("skipped:qprobe-slow-with-default-timeout")
			} else if q.Model {
				cases.Add(fmt.Sprintf("(TTrace %s %s %s %s %s %s)", CqBool(q.Entry == "TraceBlock"), CqBool(q.LimNeg),
					map[string]string{"none": "ToNone", "garbage": "ToGarbage", "elapsed": "ToElapsed", "future": "ToFuture"}[q.Timeout],
					map[string]string{"default": "TrDefault", "native": "TrNative", "js": "TrJs", "invalid": "TrInvalid"}[q.Tracer],
					CqZi(q.QClass), CqBool(survived)))
				side.Case(idx, fmt.Sprintf("qprobe:%s:%s:%s", q.Entry, q.Class, q.Desc), true, q)
				idx++
			}
			if q.QClass == 4 {
				side.Hit("C20/bytes/Query/escaped-panic", "a panic escaped BaseApp.Query on the request goroutine: "+q.Log, q)
			}
		}
		for _, q := range qr.Results {
			if qr.Died && qr.Last != nil && q.Idx == qr.Last.Idx {
				continue // reported below as the probe the process died on
			}
			emit(q, true)
		}
		side.Extra["query_probes"] = len(qr.Results)
		side.Extra["query_probe_child_died"] = qr.Died
		if qr.Inconclusive {
			side.Count("skipped:query-probe-child-ended-without-verdict")
			side.Extra["query_probe_child_output_tail"] = tail(qr.Output, 1500)
		}
		if qr.Died {
			last := qresult{QClass: 1}
			entry, class := "unknown", "unknown"
			if qr.Last != nil {
				last.qprobe = *qr.Last
				entry, class = qr.Last.Entry, qr.Last.Class
				for _, q := range qr.Results {
					if q.Idx == qr.Last.Idx {
						last.QClass = q.QClass
					}
				}
			}
			if !seen[last.Idx] {
				emit(last, false)
			}
			if qr.Hung {
				side.Hit("C20/bytes/query-hung/"+entry+"/"+class,
					"a query neither succeeded nor returned an error within its deadline (the handler loops or blocks forever; the request goroutine and a core are gone)",
					map[string]interface{}{"probe": last, "stack": crashExcerpt(qr.Output, 2500)})
			} else {
				side.Hit("C20/bytes/process-died/"+entry+"/"+class,
					"the node process died while (or right after) answering a query: a panic in a goroutine started by the handler is recovered by nothing",
					map[string]interface{}{"probe": last, "stderr": crashExcerpt(qr.Output, 2500)})
			}
		} else if !qr.Inconclusive && qr.FinalCls > 0 {
			side.Hit("C20/bytes/Query/node-degraded-after-probes", fmt.Sprintf("the default trace after all probes was answered with class %d", qr.FinalCls), nil)
		}
	}

	// ---- 5. blocks under generated valid consensus parameters (max_gas), end-of-block totality
	mgs := []int64{-1, 0, 1, 2, 3, 21000, 100000, 30_000_000, 1<<62 + 1}
	for i, mg := range mgs {
		if w.halted {
			break
		}
		cp := c.App.BaseApp.GetConsensusParams(c.Ctx())
		cp.Block.MaxGas = mg
		require.NoError(t, c.App.BaseApp.StoreConsensusParams(c.Ctx(), cp))
		if w.finalize(nil, fmt.Sprintf("empty block, max_gas=%d", mg)) == nil { // the parameters take effect
			break
		}
		ctxq := c.QueryCtx()
		base := c.BaseFee(ctxq)
		fmp := c.App.FeeMarketKeeper.GetParams(ctxq)
		r := rng.Fork(uint64(400000 + i))
		batch := [][]byte{w.validEthBytes(w.counter, nil, 60000), mutate(r, validC), w.validEthBytes(w.invalid, nil, 40000), w.validCosmosBytes(), rbytes(r, 40)}
		res := w.finalize(batch, fmt.Sprintf("max_gas=%d", mg))
		survived := res != nil
		var used uint64
		flags := []string{}
		if res != nil {
			for _, x := range res {
				used += uint64(x.GasUsed)
				hasEth := false
				for _, ev := range x.Events {
					if ev.Type == evmtypes.EventTypeEthereumTx {
						hasEth = true
					}
				}
				flags = append(flags, CqBool(hasEth))
			}
		}
		// the block after must work too
		if w.finalize(nil, fmt.Sprintf("empty block after max_gas=%d", mg)) == nil {
			survived = false
		}
		if mg > 0 && used > uint64(mg) {
			used = uint64(mg)
		}
		cases.Add(fmt.Sprintf("(TEnd %s %s %s %s %s %s)", CqList(flags), CqZ(base), CqZu(used), CqZi(mg), CqZ(fmp.MinGasPrice.BigInt()), CqBool(survived)))
		side.Count(fmt.Sprintf("endblock:max_gas=%d:survived=%v", mg, survived))
		side.Case(idx, fmt.Sprintf("endblock:%d", mg), true, map[string]interface{}{"max_gas": mg, "gas_used": used, "survived": survived})
		idx++
	}
	if !w.halted {
		cp := c.App.BaseApp.GetConsensusParams(c.Ctx())
		cp.Block.MaxGas = -1
		require.NoError(t, c.App.BaseApp.StoreConsensusParams(c.Ctx(), cp))
		w.finalize(nil, "empty block, max_gas=-1")
	}

	// ---- 5c. end-of-block totality over the fee-market parameters: base fees up to 2^255 (and min gas prices up to 2^200)
	//          set through the real MsgUpdateParams handler with the governance authority, then blocks run on them
	if !w.halted {
		orig := c.App.FeeMarketKeeper.GetParams(c.QueryCtx())
		gov := authtypes.NewModuleAddress(govtypes.ModuleName).String()
		setFm := func(p feemarkettypes.Params) {
			_, err := c.App.FeeMarketKeeper.UpdateParams(c.Ctx(), &feemarkettypes.MsgUpdateParams{Authority: gov, Params: p})
			require.NoError(t, err)
		}
		e := func(b, x int64) *big.Int { return new(big.Int).Exp(big.NewInt(b), big.NewInt(x), nil) }
		fees := []*big.Int{big.NewInt(0), big.NewInt(1), Bsub(Pow2(63), 1), Pow2(63), e(10, 19), Pow2(64), new(big.Int).Mul(big.NewInt(9), e(10, 27)),
			Bsub(new(big.Int).Mul(Pow2(63), e(10, 9)), 1), new(big.Int).Mul(Pow2(63), e(10, 9)), new(big.Int).Mul(big.NewInt(2), e(10, 28)),
			Pow2(96), Pow2(127), Pow2(128), Pow2(200), Bsub(Pow2(255), 1), Pow2(255)}
		r5 := rng.Fork(450000)
		extra := 4
		if os.Getenv("VERIF_TIER") == "thorough" {
			extra = 60
		}
		for k := 0; k < extra; k++ {
			fees = append(fees, r5.BigBits(60+r5.Intn(196)))
		}
		for i, bf := range fees {
			if w.halted {
				break
			}
			p := feemarkettypes.Params{BaseFee: sdkmath.NewIntFromBigInt(bf), MinGasPrice: orig.MinGasPrice}
			mgpKind := "unchanged"
			switch i % 5 {
			case 3:
				p.MinGasPrice, mgpKind = sdkmath.LegacyNewDecFromBigInt(Pow2(200)), "2^200"
			case 4:
				p.MinGasPrice, mgpKind = sdkmath.LegacyNewDecFromBigIntWithPrec(Badd(new(big.Int).Mul(bf, e(10, 18)), 5), 18), "base+fraction"
			}
			setFm(p)
			desc := map[string]interface{}{"base_fee": bf.String(), "min_gas_price": mgpKind}
			survived := true
			// three blocks: EndBlock computes the next base fee from this one each time
			var base0 *big.Int
			var md0 *big.Int
			var used0 uint64
			flags0 := []string{}
			for b := 0; b < 3 && survived; b++ {
				q := c.QueryCtx()
				base, fmp := c.BaseFee(q), c.App.FeeMarketKeeper.GetParams(q)
				var batch [][]byte
				if b == 1 {
					batch = [][]byte{validE, validC, rbytes(r5.Fork(uint64(i)), 30)}
				}
				res := w.finalize(batch, desc)
				if res == nil {
					survived = false
				}
				var used uint64
				flags := []string{}
				for _, x := range res {
					used += uint64(x.GasUsed)
					hasEth := false
					for _, ev := range x.Events {
						if ev.Type == evmtypes.EventTypeEthereumTx {
							hasEth = true
						}
					}
					flags = append(flags, CqBool(hasEth))
				}
				if b == 0 || !survived {
					base0, md0, used0, flags0 = base, fmp.MinGasPrice.BigInt(), used, flags
				}
			}
			cases.Add(fmt.Sprintf("(TEnd %s %s %s (-1) %s %s)", CqList(flags0), CqZ(base0), CqZu(used0), CqZ(md0), CqBool(survived)))
			side.Count(fmt.Sprintf("endblock_basefee:bits=%d:mgp=%s:survived=%v", bf.BitLen(), mgpKind, survived))
			side.Case(idx, fmt.Sprintf("endblock-basefee:%s:%s", bf, mgpKind), true, desc)
			idx++
		}
		if !w.halted {
			setFm(orig)
			w.finalize(nil, "empty block after restoring the fee-market parameters")
		}
	}

	// ---- 5b. liveness after adversarial-but-valid EVM transactions aimed at module accounts: zero-value call (touches an
	//          empty account), ERC-20 precompile transfer, value transfer, selfdestruct beneficiary; every following
	//          FinalizeBlock / BeginBlock / EndBlock / Commit must keep succeeding
	if !w.halted {
		names := make([]string, 0)
		addrs := map[string]common.Address{}
		for bech := range c.App.ModuleAccountAddrs() {
			a, err := sdk.AccAddressFromBech32(bech)
			require.NoError(t, err)
			names = append(names, bech)
			addrs[bech] = common.BytesToAddress(a.Bytes())
		}
		sort.Strings(names)
		for i, nm := range names {
			if w.halted {
				break
			}
			target := addrs[nm]
			modName := nm
			if acc := c.App.AccountKeeper.GetAccount(c.QueryCtx(), target.Bytes()); acc != nil {
				if ma, ok := acc.(sdk.ModuleAccountI); ok {
					modName = ma.GetName()
				}
			}
			sd := c.NewFundedAccount(20000+i, big.NewInt(1))
			c.SetCode(sd.GetEthAddress(), append(append([]byte{0x73}, target.Bytes()...), 0xff))
			transfer := append(append(mustHex("a9059cbb"), common.LeftPadBytes(target.Bytes(), 32)...), common.LeftPadBytes([]byte{1}, 32)...)
			kinds := "zero-value-call,erc20-transfer,value-transfer,selfdestruct-beneficiary"
			batch := [][]byte{
				w.validEthBytes(target, nil, 100000),
				w.validEthBytes(w.erc20, transfer, 300000),
				c.EthCallTx(w.fresh(), target, nil, 100000, big.NewInt(1)),
				w.validEthBytes(sd.GetEthAddress(), nil, 200000),
			}
			desc := map[string]interface{}{"module_account": modName, "address": target.Hex(), "txs": kinds}
			base := c.BaseFee(c.QueryCtx())
			fmp := c.App.FeeMarketKeeper.GetParams(c.QueryCtx())
			res := w.finalize(batch, desc)
			survived := res != nil
			var used uint64
			flags := []string{}
			classes := ""
			if res != nil {
				for _, x := range res {
					used += uint64(x.GasUsed)
					hasEth := false
					for _, ev := range x.Events {
						if ev.Type == evmtypes.EventTypeEthereumTx {
							hasEth = true
						}
					}
					flags = append(flags, CqBool(hasEth))
					classes += fmt.Sprint(classOf(x.Code, x.Codespace))
				}
			}
			// liveness probes: two more blocks (the first runs the BeginBlockers over whatever the transactions left behind)
			for k := 0; k < 2 && survived; k++ {
				if w.finalize(nil, desc) == nil {
					survived = false
				}
			}
			if !survived {
				side.Hit("C20/bytes/finalizeblock-failed-after/module-account:"+modName, "block production stopped after valid EVM transactions aimed at module account "+modName+" ("+kinds+")", desc)
			}
			cases.Add(fmt.Sprintf("(TEnd %s %s %s (-1) %s %s)", CqList(flags), CqZ(base), CqZu(used), CqZ(fmp.MinGasPrice.BigInt()), CqBool(survived)))
			side.Count(fmt.Sprintf("module_account:%s:classes=%s:survived=%v", modName, classes, survived))
			side.Case(idx, "module-account:"+modName, true, desc)
			idx++
		}
	}

	// ---- 6. isolation of a failing transaction (twin chains)
	if !w.halted {
		isolation(t, side, rng, EnvInt("VERIF_ISO", 4))
	}
	side.Extra["chain_halted"] = w.halted

	side.Extra["escaped_panics"] = w.escaped
	cases.Write(t, 200)
	side.Write(t, dir)
}

func tail(s string, n int) string {
	if len(s) > n {
		return s[len(s)-n:]
	}
	return s
}
