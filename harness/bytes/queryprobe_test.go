package bytes

// Query probes that can kill the PROCESS (C20: "no ... query arguments supplied by users can crash a node").
//
// BaseApp.Query recovers panics of the request goroutine only. x/evm/keeper/grpc_query.go traceTx starts a
// watchdog goroutine per traced transaction (timeout -> tracer.Stop); a panic there is not recovered by anything
// and ends the node. So the trace queries are probed in a CHILD PROCESS (re-exec of this test binary, like the C01
// twin driver), with the request fields taken as a PRODUCT of adversarial values:
//
//	entry    in {TraceTx, TraceBlock}
//	timeout  in {"", "0s", "-1s", "1ns", "1h", garbage}
//	tracer   in {"", callTracer, prestateTracer, valid JS, unknown name, broken JS, "0x", huge}
//
// each combined with drawn values of the remaining fields (tracer_json_config garbage, limit / reexec extremes, flags),
// plus directed probes of the fields the model does not describe (overrides, malformed predecessors, block numbers,
// hashes, proposer addresses, EthCall / EstimateGas arguments).
//
// The child records the probe it is about to run (progress file) and every result (results file); when it exits
// abnormally the parent reports C20/bytes/process-died/<entry point>/<input class> with the child's stderr tail.

import (
	"bufio"
	"bytes"
	"encoding/json"
	"fmt"
	"math"
	"math/big"
	"os"
	"os/exec"
	"path/filepath"
	"runtime"
	"strings"
	"testing"
	"time"

	sdkmath "cosmossdk.io/math"
	abci "github.com/cometbft/cometbft/abci/types"
	"github.com/cosmos/gogoproto/proto"
	"github.com/ethereum/go-ethereum/common"
	ethtypes "github.com/ethereum/go-ethereum/core/types"
	"github.com/stretchr/testify/require"

	evmtypes "github.com/EscanBE/evermint/v12/x/evm/types"

	. "verifharness/hx"
)

const (
	pathTraceTx    = "/ethermint.evm.v1.Query/TraceTx"
	pathTraceBlock = "/ethermint.evm.v1.Query/TraceBlock"
	pathEthCall    = "/ethermint.evm.v1.Query/EthCall"
	pathEstimate   = "/ethermint.evm.v1.Query/EstimateGas"
)

type qprobe struct {
	Idx     int    `json:"idx"`
	Entry   string `json:"entry"`
	Class   string `json:"class"` // input class (goes into the signature)
	Desc    string `json:"desc"`
	Timeout string `json:"timeout_kind,omitempty"` // none | garbage | elapsed | future
	Tracer  string `json:"tracer_kind,omitempty"`  // default | native | js | invalid
	LimNeg  bool   `json:"limit_negative,omitempty"`
	Model   bool   `json:"modelled"` // a TTrace case of Corr/CorrTotal.v is emitted for it
	Settle  bool   `json:"-"`        // give goroutines left behind by the handler their chance before the next probe
	path    string
	data    []byte
	height  int64 // RequestQuery.Height; 0 with rawH unset = the state the traced block started from
	rawH    bool
}

type qresult struct {
	qprobe
	QClass int64  `json:"query_class"` // 0 ok, 1 error, 2 panic recovered by BaseApp.Query, 4 panic escaped on the request goroutine
	Log    string `json:"log,omitempty"`
	Ms     int64  `json:"elapsed_ms"` // wall clock of the probe: a probe with the default 5 s trace timeout that took seconds is no case
}

const jsTracerOK = `{data: [], fault: function(log) {}, step: function(log) { this.data.push(log.op.toString()) }, result: function() { return this.data; }}`

type tv struct{ val, kind, name string }

func timeoutValues() []tv {
	return []tv{{"", "none", "unset"}, {"0s", "elapsed", "0s"}, {"-1s", "elapsed", "-1s"}, {"1ns", "elapsed", "1ns"},
		{"1h", "future", "1h"}, {"soon", "garbage", "garbage"}}
}

func tracerValues() []tv {
	return []tv{{"", "default", "unset"}, {"callTracer", "native", "callTracer"}, {"prestateTracer", "native", "prestateTracer"},
		{jsTracerOK, "js", "valid-js"}, {"thisIsNotATracer", "invalid", "unknown-name"}, {"{not: javascript", "invalid", "broken-js"},
		{"0x", "invalid", "0x"}, {strings.Repeat("a", 150_000), "invalid", "huge"}}
}

// qworld: a chain with one block of three Ethereum transactions worth tracing (storage write, log, failing INVALID).
type qworld struct {
	c       *Chain
	h       int64 // height of the block with the transactions
	msgs    []*evmtypes.MsgEthereumTx
	time    time.Time
	counter string
}

func newQWorld(t *testing.T) *qworld {
	c := NewChain(t, time.Time{})
	place := func(n int, code []byte) common.Address {
		a := c.NewFundedAccount(n, big.NewInt(1))
		c.SetCode(a.GetEthAddress(), code)
		return a.GetEthAddress()
	}
	counter := place(904, mustHex("600054600101600055"))
	logger := place(906, mustHex("60006000a0"))
	invalid := place(900, []byte{0xfe})
	c.RunBlock(nil)
	w := &qworld{c: c}
	price := new(big.Int).Mul(c.BaseFee(c.QueryCtx()), big.NewInt(2))
	var txs [][]byte
	for i, to := range []common.Address{counter, logger, invalid} {
		a := c.NewFundedAccount(5000+i, new(big.Int).Exp(big.NewInt(10), big.NewInt(24), nil))
		toA := to
		bz, m, err := c.EthTxBytes(a, &ethtypes.LegacyTx{Nonce: 0, GasPrice: price, Gas: 100000, To: &toA, Value: big.NewInt(0)})
		require.NoError(t, err)
		txs = append(txs, bz)
		w.msgs = append(w.msgs, m)
	}
	w.counter = counter.Hex()
	w.h, w.time = c.Height, c.Time
	res := c.RunBlock(txs)
	require.Len(t, res.TxResults, 3)
	require.Zero(t, res.TxResults[0].Code, res.TxResults[0].Log)
	c.RunBlock(nil)
	return w
}

// probes: deterministic in (seed, n).
func (w *qworld) probes(seed uint64, n int) []qprobe {
	rng := NewRng(seed ^ 0x51ab)
	var out []qprobe
	add := func(p qprobe) {
		p.Idx = len(out)
		if p.height == 0 && !p.rawH {
			p.height = w.h - 1 // like the JSON-RPC backend: the state the block started from
		}
		out = append(out, p)
	}
	marshal := func(m proto.Message) []byte {
		bz, err := proto.Marshal(m)
		if err != nil {
			panic(err)
		}
		return bz
	}
	traceTx := func(cfg *evmtypes.TraceConfig, mut func(*evmtypes.QueryTraceTxRequest)) []byte {
		req := &evmtypes.QueryTraceTxRequest{Msg: w.msgs[1], Predecessors: w.msgs[:1], TraceConfig: cfg, BlockNumber: w.h, BlockTime: w.time}
		if mut != nil {
			mut(req)
		}
		return marshal(req)
	}
	traceBlock := func(cfg *evmtypes.TraceConfig, mut func(*evmtypes.QueryTraceBlockRequest)) []byte {
		req := &evmtypes.QueryTraceBlockRequest{Txs: w.msgs, TraceConfig: cfg, BlockNumber: w.h, BlockTime: w.time}
		if mut != nil {
			mut(req)
		}
		return marshal(req)
	}

	// ---- the product timeout x tracer x entry point, the other fields drawn per probe (class-preserving values)
	k := 0
	for _, to := range timeoutValues() {
		for _, tr := range tracerValues() {
			for _, entry := range []string{"TraceTx", "TraceBlock"} {
				r := rng.Fork(uint64(k))
				k++
				cfg := &evmtypes.TraceConfig{Tracer: tr.val, Timeout: to.val,
					DisableStack: r.Bool(), DisableStorage: r.Bool(), EnableMemory: r.Bool(), EnableReturnData: r.Bool(),
					Reexec:           []uint64{0, 1, 128, math.MaxUint64}[r.Intn(4)],
					Limit:            []int32{0, 0, 1, math.MaxInt32}[r.Intn(4)],
					TracerJsonConfig: []string{"", "", "{", "\x00\xff", strings.Repeat("[", 5000)}[r.Intn(5)], // undecodable JSON is ignored
				}
				p := qprobe{Entry: entry, Class: "timeout-" + to.kind + "+tracer-" + tr.kind, Timeout: to.kind, Tracer: tr.kind, Model: true,
					Settle: to.kind == "elapsed",
					Desc:   fmt.Sprintf("timeout=%q tracer=%s limit=%d reexec=%d json_config_len=%d", to.val, tr.name, cfg.Limit, cfg.Reexec, len(cfg.TracerJsonConfig))}
				if entry == "TraceTx" {
					p.path, p.data = pathTraceTx, traceTx(cfg, nil)
				} else {
					p.path, p.data = pathTraceBlock, traceBlock(cfg, nil)
				}
				add(p)
			}
		}
	}
	// negative limit (refused before anything else), also together with the dangerous pairs
	for _, lim := range []int32{-1, math.MinInt32} {
		for _, pair := range [][2]int{{0, 0}, {1, 4}, {3, 5}, {5, 6}} {
			to, tr := timeoutValues()[pair[0]], tracerValues()[pair[1]]
			cfg := &evmtypes.TraceConfig{Tracer: tr.val, Timeout: to.val, Limit: lim}
			cls := "limit-negative+timeout-" + to.kind + "+tracer-" + tr.kind
			add(qprobe{Entry: "TraceTx", Class: cls, Timeout: to.kind, Tracer: tr.kind, LimNeg: true, Model: true, path: pathTraceTx, data: traceTx(cfg, nil),
				Desc: fmt.Sprintf("limit=%d timeout=%q tracer=%s", lim, to.val, tr.name)})
			add(qprobe{Entry: "TraceBlock", Class: cls, Timeout: to.kind, Tracer: tr.kind, LimNeg: true, Model: true, path: pathTraceBlock, data: traceBlock(cfg, nil),
				Desc: fmt.Sprintf("limit=%d timeout=%q tracer=%s", lim, to.val, tr.name)})
		}
	}

	// ---- directed probes of fields outside the model (oracle: answered, process alive)
	big1 := sdkmath.NewIntFromBigInt(new(big.Int).Lsh(big.NewInt(1), 255))
	neg := sdkmath.NewInt(-1)
	zero := sdkmath.ZeroInt()
	overrides := map[string]*evmtypes.ChainConfig{
		"empty":        {},
		"all-zero":     {HomesteadBlock: &zero, EIP150Block: &zero, EIP155Block: &zero, EIP158Block: &zero, ByzantiumBlock: &zero, ConstantinopleBlock: &zero, PetersburgBlock: &zero, IstanbulBlock: &zero, BerlinBlock: &zero, LondonBlock: &zero},
		"negative":     {HomesteadBlock: &neg, LondonBlock: &neg, ShanghaiBlock: &neg, CancunBlock: &neg},
		"huge":         {HomesteadBlock: &big1, BerlinBlock: &big1, LondonBlock: &big1, MergeNetsplitBlock: &big1},
		"garbage-hash": {EIP150Hash: "\x00zz" + strings.Repeat("f", 100)},
		"london-only":  {LondonBlock: &zero},
	}
	for _, name := range []string{"empty", "all-zero", "negative", "huge", "garbage-hash", "london-only"} {
		for _, pair := range [][2]int{{0, 0}, {1, 1}, {2, 4}} {
			to, tr := timeoutValues()[pair[0]], tracerValues()[pair[1]]
			cfg := &evmtypes.TraceConfig{Overrides: overrides[name], Tracer: tr.val, Timeout: to.val}
			add(qprobe{Entry: "TraceTx", Class: "overrides-" + name, path: pathTraceTx, data: traceTx(cfg, nil), Settle: to.kind == "elapsed",
				Desc: fmt.Sprintf("overrides=%s timeout=%q tracer=%s", name, to.val, tr.name)})
			add(qprobe{Entry: "TraceBlock", Class: "overrides-" + name, path: pathTraceBlock, data: traceBlock(cfg, nil), Settle: to.kind == "elapsed",
				Desc: fmt.Sprintf("overrides=%s timeout=%q tracer=%s", name, to.val, tr.name)})
		}
	}
	// tracer_json_config that decodes but has the wrong shape / is huge
	for _, jc := range []string{`[1,2]`, `{"onlyTopCall":"yes"}`, `{"onlyTopCall":true,"withLog":true}`, `"str"`, `null`, `{"a":` + strings.Repeat(`{"a":`, 2000) + `1` + strings.Repeat(`}`, 2001)} {
		for _, tri := range []int{1, 2, 3, 4} {
			tr := tracerValues()[tri]
			for _, toi := range []int{0, 1} {
				to := timeoutValues()[toi]
				cfg := &evmtypes.TraceConfig{Tracer: tr.val, Timeout: to.val, TracerJsonConfig: jc}
				add(qprobe{Entry: "TraceTx", Class: "json-config-decodable", path: pathTraceTx, data: traceTx(cfg, nil), Settle: to.kind == "elapsed",
					Desc: fmt.Sprintf("json_config=%.30q tracer=%s timeout=%q", jc, tr.name, to.val)})
			}
		}
	}
	garbage := func(r *Rng) *evmtypes.MsgEthereumTx {
		return &evmtypes.MsgEthereumTx{From: "x", MarshalledTx: rbytes(r, 1+r.Intn(20))}
	}
	reqMuts := []struct {
		name string
		tx   func(*evmtypes.QueryTraceTxRequest)
		blk  func(*evmtypes.QueryTraceBlockRequest)
	}{
		{"no-trace-config", func(q *evmtypes.QueryTraceTxRequest) { q.TraceConfig = nil }, func(q *evmtypes.QueryTraceBlockRequest) { q.TraceConfig = nil }},
		{"block-number-0", func(q *evmtypes.QueryTraceTxRequest) { q.BlockNumber = 0 }, func(q *evmtypes.QueryTraceBlockRequest) { q.BlockNumber = 0 }},
		{"block-number-negative", func(q *evmtypes.QueryTraceTxRequest) { q.BlockNumber = math.MinInt64 }, func(q *evmtypes.QueryTraceBlockRequest) { q.BlockNumber = -1 }},
		{"block-number-max", func(q *evmtypes.QueryTraceTxRequest) { q.BlockNumber = math.MaxInt64 }, func(q *evmtypes.QueryTraceBlockRequest) { q.BlockNumber = math.MaxInt64 }},
		{"block-hash-garbage", func(q *evmtypes.QueryTraceTxRequest) { q.BlockHash = "0xzz\x00" + strings.Repeat("9", 200) }, func(q *evmtypes.QueryTraceBlockRequest) { q.BlockHash = "nothex" }},
		{"proposer-garbage", func(q *evmtypes.QueryTraceTxRequest) { q.ProposerAddress = rbytes(rng.Fork(901), 7) }, func(q *evmtypes.QueryTraceBlockRequest) { q.ProposerAddress = rbytes(rng.Fork(902), 64) }},
		{"proposer-20-bytes-unknown", func(q *evmtypes.QueryTraceTxRequest) { q.ProposerAddress = rbytes(rng.Fork(903), 20) }, func(q *evmtypes.QueryTraceBlockRequest) { q.ProposerAddress = rbytes(rng.Fork(904), 20) }},
		{"block-time-zero", func(q *evmtypes.QueryTraceTxRequest) { q.BlockTime = time.Time{} }, func(q *evmtypes.QueryTraceBlockRequest) { q.BlockTime = time.Date(1, 1, 1, 0, 0, 0, 0, time.UTC) }},
		{"msg-missing", func(q *evmtypes.QueryTraceTxRequest) { q.Msg = nil }, func(q *evmtypes.QueryTraceBlockRequest) { q.Txs = nil }},
		{"msg-garbage", func(q *evmtypes.QueryTraceTxRequest) { q.Msg = garbage(rng.Fork(905)) }, func(q *evmtypes.QueryTraceBlockRequest) {
			q.Txs = []*evmtypes.MsgEthereumTx{q.Txs[0], garbage(rng.Fork(906))}
		}},
		{"msg-empty-payload", func(q *evmtypes.QueryTraceTxRequest) { q.Msg = &evmtypes.MsgEthereumTx{} }, func(q *evmtypes.QueryTraceBlockRequest) {
			q.Txs = []*evmtypes.MsgEthereumTx{{}}
		}},
		{"predecessor-garbage", func(q *evmtypes.QueryTraceTxRequest) {
			q.Predecessors = []*evmtypes.MsgEthereumTx{garbage(rng.Fork(907))}
		}, func(q *evmtypes.QueryTraceBlockRequest) {
			q.Txs = []*evmtypes.MsgEthereumTx{garbage(rng.Fork(908)), q.Txs[0]}
		}},
		{"predecessor-repeated", func(q *evmtypes.QueryTraceTxRequest) {
			q.Predecessors = []*evmtypes.MsgEthereumTx{q.Msg, q.Msg, q.Predecessors[0]}
		}, func(q *evmtypes.QueryTraceBlockRequest) {
			q.Txs = []*evmtypes.MsgEthereumTx{q.Txs[0], q.Txs[0], q.Txs[2], q.Txs[2]}
		}},
		{"many-txs", func(q *evmtypes.QueryTraceTxRequest) {
			for i := 0; i < 40; i++ {
				q.Predecessors = append(q.Predecessors, q.Msg)
			}
		}, func(q *evmtypes.QueryTraceBlockRequest) {
			for i := 0; i < 40; i++ {
				q.Txs = append(q.Txs, q.Txs[i%3])
			}
		}},
	}
	for _, m := range reqMuts {
		for _, pair := range [][2]int{{0, 0}, {1, 4}, {3, 3}, {2, 1}} {
			to, tr := timeoutValues()[pair[0]], tracerValues()[pair[1]]
			cfg := &evmtypes.TraceConfig{Tracer: tr.val, Timeout: to.val}
			d := fmt.Sprintf("%s timeout=%q tracer=%s", m.name, to.val, tr.name)
			add(qprobe{Entry: "TraceTx", Class: m.name, path: pathTraceTx, data: traceTx(cfg, m.tx), Settle: to.kind == "elapsed", Desc: d})
			add(qprobe{Entry: "TraceBlock", Class: m.name, path: pathTraceBlock, data: traceBlock(cfg, m.blk), Settle: to.kind == "elapsed", Desc: d})
		}
	}
	// query heights
	for _, h := range []int64{-1, 0, w.h, w.h + 1, 1, math.MaxInt64} {
		cfg := &evmtypes.TraceConfig{Timeout: "0s", Tracer: "callTracer"}
		add(qprobe{Entry: "TraceTx", Class: "query-height", path: pathTraceTx, data: traceTx(cfg, nil), height: h, rawH: true, Settle: true, Desc: fmt.Sprintf("RequestQuery.Height=%d", h)})
	}
	// mutated request bytes (valid protobuf of the right type with damage inside)
	nMut := n
	if nMut > 400 {
		nMut = 400
	}
	for i := 0; i < nMut; i++ {
		r := rng.Fork(uint64(7000 + i))
		to, tr := timeoutValues()[r.Intn(6)], tracerValues()[r.Intn(7)]
		cfg := &evmtypes.TraceConfig{Tracer: tr.val, Timeout: to.val, TracerJsonConfig: []string{"", "{}", "{"}[r.Intn(3)]}
		if r.Bool() {
			add(qprobe{Entry: "TraceTx", Class: "mutated-request", path: pathTraceTx, data: mutate(r, traceTx(cfg, nil)), Settle: to.kind == "elapsed", Desc: fmt.Sprintf("mutated request #%d", i)})
		} else {
			add(qprobe{Entry: "TraceBlock", Class: "mutated-request", path: pathTraceBlock, data: mutate(r, traceBlock(cfg, nil)), Settle: to.kind == "elapsed", Desc: fmt.Sprintf("mutated request #%d", i)})
		}
	}
	// EthCall / EstimateGas arguments
	for i, args := range []string{
		fmt.Sprintf(`{"to":"%s"}`, w.counter),
		fmt.Sprintf(`{"to":"%s","gas":"0xffffffffffffffff"}`, w.counter),
		fmt.Sprintf(`{"to":"%s","gas":"0x0"}`, w.counter),
		fmt.Sprintf(`{"to":"%s","gasPrice":"0x1","maxFeePerGas":"0x1"}`, w.counter),
		fmt.Sprintf(`{"to":"%s","value":"0xffffffffffffffffffffffffffffffffffffffffffffffffffffffffffffffff"}`, w.counter),
		fmt.Sprintf(`{"to":"%s","nonce":"0xffffffffffffffff","chainId":"0x0"}`, w.counter),
		fmt.Sprintf(`{"from":"0x0000000000000000000000000000000000000000","to":"%s","data":"0x%s"}`, w.counter, strings.Repeat("ff", 3000)),
		`{"data":"0xfe"}`, `{"data":"0x60006000fd"}`, `{"data":"0x5b600056"}`, `{}`, `[]`, `null`, `{"to":"0x12"}`, `{"accessList":[{"address":"0x0000000000000000000000000000000000000001","storageKeys":[]}]}`,
	} {
		for _, gc := range []uint64{0, 1, 21000, 25_000_000, math.MaxUint64} {
			// code that loops runs as long as its gas lasts: a request that carries no cap (0) or an astronomic one asks
			// for exactly that (the JSON-RPC server always fills in json-rpc.gas-cap), so it is probed with bounded caps only
			if strings.Contains(args, "5b600056") && (gc == 0 || gc > 1_000_000) {
				gc = 1_000_000
			}
			for _, pth := range []string{pathEthCall, pathEstimate} {
				entry := "EthCall"
				if pth == pathEstimate {
					entry = "EstimateGas"
				}
				add(qprobe{Entry: entry, Class: "call-args", path: pth, rawH: true,
					data: marshal(&evmtypes.EthCallRequest{Args: []byte(args), GasCap: gc}), Desc: fmt.Sprintf("args #%d gas_cap=%d", i, gc)})
			}
		}
	}
	return out
}

func TestChildQueryProbe(t *testing.T) {
	if os.Getenv("VERIF_BYTES_CHILD") != "queryprobe" {
		t.Skip("child only")
	}
	dir := OutDir(t)
	w := newQWorld(t)
	ps := w.probes(EnvSeed(), EnvInt("VERIF_N", 260))
	resF, err := os.Create(filepath.Join(dir, "queryprobe_results.jsonl"))
	require.NoError(t, err)
	defer resF.Close()
	progress := filepath.Join(dir, "queryprobe_progress.json")
	run := func(p qprobe) (res qresult) {
		res = qresult{qprobe: p, QClass: 4}
		began := time.Now()
		defer func() { res.Ms = time.Since(began).Milliseconds() }()
		pan := CatchPanic(func() {
			resp, err := w.c.App.BaseApp.Query(nil, &abci.RequestQuery{Path: p.path, Data: p.data, Height: p.height}) //nolint:staticcheck
			if err != nil {
				res.QClass, res.Log = 1, tail(err.Error(), 120)
				return
			}
			res.QClass = classOf(resp.Code, resp.Codespace)
			if res.QClass != 0 {
				res.Log = tail(resp.Log, 120)
			}
		})
		if pan != nil {
			res.Log = tail(fmt.Sprint(pan), 200)
		}
		return res
	}
	// a handler that loops forever stays in the handler however long one waits: the deadline is generous (a loaded machine
	// must never turn a slow answer into a verdict) and the verdict needs the request goroutine to be inside the handler
	// in two dumps ten seconds apart after it
	hangAfter := time.Duration(EnvInt("VERIF_QPROBE_HANG_S", 240)) * time.Second
	for _, p := range ps {
		pj, _ := json.Marshal(p)
		require.NoError(t, os.WriteFile(progress, pj, 0o644))
		// a handler that neither succeeds nor returns an error: the probe gets a deadline of its own
		done := make(chan qresult, 1)
		go func() { done <- run(p) }()
		var res qresult
		select {
		case res = <-done:
		case <-time.After(hangAfter):
			select {
			case res = <-done:
			case <-time.After(10 * time.Second):
			}
			if res.Entry != "" || res.path != "" {
				break // it did answer in the end
			}
			buf := make([]byte, 1<<16)
			buf = buf[:runtime.Stack(buf, true)]
			st := string(buf)
			if i := strings.Index(st, "BaseApp).Query"); i >= 0 { // the frames of the stuck request goroutine
				if j := strings.LastIndex(st[:i], "\n\ngoroutine "); j >= 0 {
					st = st[j+2:]
				}
			}
			fmt.Printf("QUERYPROBE hung idx=%d entry=%s class=%s after %s\n%s\n", p.Idx, p.Entry, p.Class, hangAfter, tail(st[:min(len(st), 6000)], 6000))
			os.Exit(3)
		}
		if p.Settle {
			time.Sleep(2 * time.Millisecond)
		}
		rj, _ := json.Marshal(res)
		_, err := resF.Write(append(rj, '\n'))
		require.NoError(t, err)
	}
	// whatever the handlers left running gets its chance, then the node must still answer
	time.Sleep(300 * time.Millisecond)
	fin := run(qprobe{Entry: "TraceTx", path: pathTraceTx, height: w.h - 1,
		data: func() []byte {
			bz, _ := proto.Marshal(&evmtypes.QueryTraceTxRequest{Msg: w.msgs[0], BlockNumber: w.h, BlockTime: w.time})
			return bz
		}()})
	fmt.Printf("QUERYPROBE final_class=%d\n", fin.QClass)
	fmt.Println("QUERYPROBE survived")
}

type qprobeRun struct {
	Results      []qresult
	Died         bool
	Hung         bool    // a probe did not return within its deadline (the child then ends itself)
	Inconclusive bool    // the child ended early without a verdict (slow machine, harness failure): the probes not run are skipped
	Last         *qprobe // the probe that was running (or had just returned) when the process died
	Output       string
	FinalCls     int64
}

func runQueryProbeChild(t *testing.T, dir string) qprobeRun {
	exe, err := os.Executable()
	require.NoError(t, err)
	_ = os.Remove(filepath.Join(dir, "queryprobe_results.jsonl"))
	_ = os.Remove(filepath.Join(dir, "queryprobe_progress.json"))
	cmd := exec.Command(exe, "-test.run", "^TestChildQueryProbe$", "-test.count", "1", "-test.timeout", "5000s")
	cmd.Env = append(os.Environ(), "VERIF_BYTES_CHILD=queryprobe")
	var buf bytes.Buffer
	cmd.Stdout, cmd.Stderr = &buf, &buf
	runErr := cmd.Run()
	out := buf.String()
	r := qprobeRun{Output: out, FinalCls: -1}
	if f, err := os.Open(filepath.Join(dir, "queryprobe_results.jsonl")); err == nil {
		sc := bufio.NewScanner(f)
		sc.Buffer(make([]byte, 1<<20), 1<<24)
		for sc.Scan() {
			var q qresult
			if json.Unmarshal(sc.Bytes(), &q) == nil {
				r.Results = append(r.Results, q)
			}
		}
		f.Close()
	}
	if i := strings.Index(out, "QUERYPROBE final_class="); i >= 0 {
		_, _ = fmt.Sscanf(out[i:], "QUERYPROBE final_class=%d", &r.FinalCls)
	}
	r.Hung = strings.Contains(out, "QUERYPROBE hung idx=")
	ended := runErr != nil || !strings.Contains(out, "QUERYPROBE survived")
	// a verdict only for a process that was killed by the code under test (panic in some goroutine, fatal error) or that
	// reported a handler which never returned; a child that was merely slow / failed a harness assertion is no observation
	byPanic := runErr != nil && !strings.Contains(out, "panic: test timed out") &&
		(strings.Contains(out, "panic:") || strings.Contains(out, "fatal error:") || strings.Contains(out, "[signal "))
	r.Died = ended && (r.Hung || byPanic)
	r.Inconclusive = ended && !r.Died
	if r.Died {
		if pj, err := os.ReadFile(filepath.Join(dir, "queryprobe_progress.json")); err == nil {
			var p qprobe
			if json.Unmarshal(pj, &p) == nil {
				r.Last = &p
			}
		}
	}
	return r
}

// crashExcerpt: the panic message and the first frames of the dying goroutine.
func crashExcerpt(out string, n int) string {
	if h := strings.Index(out, "QUERYPROBE hung idx="); h >= 0 {
		out = out[h:]
		if len(out) > n {
			return out[:n]
		}
		return out
	}
	i := strings.Index(out, "panic:")
	if j := strings.Index(out, "fatal error:"); j >= 0 && (i < 0 || j < i) {
		i = j
	}
	if i < 0 {
		return tail(out, n)
	}
	if len(out[i:]) > n {
		return out[i : i+n]
	}
	return out[i:]
}
