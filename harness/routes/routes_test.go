package routes

// Driver `routes` (C07, C16): message execution that bypasses the ante handler.
//   * ICA host: the IBC module callback icahost.IBCModule.OnRecvPacket (what IBC core calls after packet proof
//     verification) on channel / interchain-account state placed through the IBC and ICA keepers — the state a
//     permissionless channel handshake leaves behind — with packets carrying MsgEthereumTx, the three vesting-creation
//     messages (for targets WITHOUT ownership proof), MsgExec around them, and ordinary messages; host parameters
//     default (enabled, allow all), disabled, and with an allow list.
//   * governance: a real proposal (submit, vote, voting period elapses, EndBlocker executes) carrying a vesting-creation
//     message: authority-gated, recorded as an observation only.
// Observed per case: did the Ethereum handler run (tx_receipt events), which vesting accounts exist afterwards; compared
// with executed_ica / executed_gov of coq/Model/Lane.v.  Oracle: the property text (finding #15 of DESIGN section 7).

import (
	"fmt"
	"math/big"
	"os"
	"sort"
	"strings"
	"testing"
	"time"

	sdkmath "cosmossdk.io/math"
	storetypes "cosmossdk.io/store/types"
	sdk "github.com/cosmos/cosmos-sdk/types"
	authtypes "github.com/cosmos/cosmos-sdk/x/auth/types"
	vestexported "github.com/cosmos/cosmos-sdk/x/auth/vesting/exported"
	vestingtypes "github.com/cosmos/cosmos-sdk/x/auth/vesting/types"
	"github.com/cosmos/cosmos-sdk/x/authz"
	banktypes "github.com/cosmos/cosmos-sdk/x/bank/types"
	govtypes "github.com/cosmos/cosmos-sdk/x/gov/types"
	govv1 "github.com/cosmos/cosmos-sdk/x/gov/types/v1"
	"github.com/cosmos/gogoproto/proto"
	icahost "github.com/cosmos/ibc-go/v8/modules/apps/27-interchain-accounts/host"
	icahosttypes "github.com/cosmos/ibc-go/v8/modules/apps/27-interchain-accounts/host/types"
	icatypes "github.com/cosmos/ibc-go/v8/modules/apps/27-interchain-accounts/types"
	clienttypes "github.com/cosmos/ibc-go/v8/modules/core/02-client/types"
	channeltypes "github.com/cosmos/ibc-go/v8/modules/core/04-channel/types"
	ethtypes "github.com/ethereum/go-ethereum/core/types"
	"github.com/stretchr/testify/require"

	itutiltypes "github.com/EscanBE/evermint/v12/integration_test_util/types"
	evmtypes "github.com/EscanBE/evermint/v12/x/evm/types"

	. "verifharness/hx"
)

const (
	connID     = "connection-0"
	chanID     = "channel-0"
	ctrlPort   = "icacontroller-verif"
	hostPort   = icatypes.HostPortID
	typeEth    = "/ethermint.evm.v1.MsgEthereumTx"
	kEth       = 0
	kVesting   = 1
	kExec      = 2
	kOther     = 3
	kEthBadGas = 4
)

type rmsg struct {
	Kind   int
	VK     int
	Target int
	Inner  []*rmsg
}

var vestingNames = []string{"VCreate", "VPeriodic", "VPermanent"}

func (m *rmsg) coq() string {
	switch m.Kind {
	case kEth:
		return "(MEth (Build_ethp true true true true 0%Z 21000%Z true true true true))"
	case kEthBadGas:
		return "(MEth (Build_ethp false true true true 0%Z 20000%Z true true true true))"
	case kVesting:
		return fmt.Sprintf("(MVesting %s %s)", vestingNames[m.VK], CqN(uint64(m.Target)))
	case kExec:
		in := make([]string, len(m.Inner))
		for i, x := range m.Inner {
			in[i] = x.coq()
		}
		return "(MExec " + CqList(in) + ")"
	default:
		return "(MOther 0%N)"
	}
}

func (m *rmsg) canon() string {
	switch m.Kind {
	case kEth:
		return "E"
	case kEthBadGas:
		return "Ebad"
	case kVesting:
		return fmt.Sprintf("V%d", m.VK)
	case kExec:
		in := make([]string, len(m.Inner))
		for i, x := range m.Inner {
			in[i] = x.canon()
		}
		return "X[" + strings.Join(in, ",") + "]"
	default:
		return "O"
	}
}

func walk(l []*rmsg, f func(m *rmsg)) {
	for _, m := range l {
		f(m)
		if m.Kind == kExec {
			walk(m.Inner, f)
		}
	}
}

type world struct {
	t        *testing.T
	c        *Chain
	seed     uint64
	ica      sdk.AccAddress
	attacker *itutiltypes.TestAccount
	other    *itutiltypes.TestAccount
	chainID  *big.Int
	nTargets int
}

func (w *world) target(caseIdx, id int) *itutiltypes.TestAccount {
	return DetAccount(w.seed, fmt.Sprintf("routes-target/%d", caseIdx), id)
}

// build turns the description into real messages whose signer (proto annotation / custom GetSigners) is `signer`.
func (w *world) build(m *rmsg, caseIdx int, signer sdk.AccAddress, ctx sdk.Context) sdk.Msg {
	c := w.c
	switch m.Kind {
	case kEth, kEthBadGas:
		// inner tx signed by the attacker's own key; From is whatever the route wants to see as "signer"
		to := w.other.GetEthAddress()
		gas := uint64(21000)
		if m.Kind == kEthBadGas {
			gas = 20000
		}
		nonce := c.Nonce(ctx, w.attacker.GetEthAddress())
		price := new(big.Int).Mul(c.BaseFee(ctx), big.NewInt(2))
		txData := &ethtypes.DynamicFeeTx{ChainID: w.chainID, Nonce: nonce, GasTipCap: big.NewInt(0), GasFeeCap: price, Gas: gas, To: &to, Value: big.NewInt(1000)}
		key, err := w.attacker.PrivateKey.ToECDSA()
		require.NoError(w.t, err)
		signed, err := ethtypes.SignTx(ethtypes.NewTx(txData), ethtypes.LatestSignerForChainID(w.chainID), key)
		require.NoError(w.t, err)
		bz, err := signed.MarshalBinary()
		require.NoError(w.t, err)
		return &evmtypes.MsgEthereumTx{MarshalledTx: bz, From: signer.String()}
	case kVesting:
		to := w.target(caseIdx, m.Target).GetCosmosAddress().String()
		amt := sdk.NewCoins(sdk.NewInt64Coin(c.Denom(), 5))
		switch m.VK {
		case 0:
			return &vestingtypes.MsgCreateVestingAccount{FromAddress: signer.String(), ToAddress: to, Amount: amt, EndTime: 4102444800}
		case 1:
			return &vestingtypes.MsgCreatePeriodicVestingAccount{FromAddress: signer.String(), ToAddress: to, StartTime: 4000000000,
				VestingPeriods: []vestingtypes.Period{{Length: 1000, Amount: amt}}}
		default:
			return &vestingtypes.MsgCreatePermanentLockedAccount{FromAddress: signer.String(), ToAddress: to, Amount: amt}
		}
	case kExec:
		inner := make([]sdk.Msg, len(m.Inner))
		for i, x := range m.Inner {
			inner[i] = w.build(x, caseIdx, signer, ctx)
		}
		ex := authz.NewMsgExec(signer, inner)
		return &ex
	default:
		return &banktypes.MsgSend{FromAddress: signer.String(), ToAddress: w.other.GetCosmosAddress().String(), Amount: sdk.NewCoins(sdk.NewInt64Coin(c.Denom(), 1))}
	}
}

type observation struct {
	NEth    int   `json:"eth_handler_runs"`
	Created []int `json:"vesting_accounts_created"`
	AckOK   bool  `json:"ack_success"`
}

func (w *world) observe(ctx sdk.Context, msgs []*rmsg, caseIdx int) observation {
	o := observation{}
	for _, ev := range ctx.EventManager().Events() {
		if ev.Type == evmtypes.EventTypeTxReceipt {
			o.NEth++
		}
	}
	walk(msgs, func(m *rmsg) {
		if m.Kind != kVesting {
			return
		}
		acc := w.c.App.AccountKeeper.GetAccount(ctx, w.target(caseIdx, m.Target).GetCosmosAddress())
		if acc == nil {
			return
		}
		if _, ok := acc.(vestexported.VestingAccount); ok {
			o.Created = append(o.Created, m.Target)
		}
	})
	sort.Ints(o.Created)
	return o
}

func TestDriverRoutes(t *testing.T) {
	dir := OutDir(t)
	seed := EnvSeed()
	n := EnvInt("VERIF_N", 60)
	prop := os.Getenv("VERIF_PROP")
	if prop == "" {
		prop = "C07"
	}
	c := NewChain(t, time.Time{})
	w := &world{t: t, c: c, seed: seed}
	side := NewSidecar("routes", seed,
		"case = one ICA host packet (1-3 messages out of MsgEthereumTx signed by a third party with From = interchain account, the three vesting-creation messages "+
			"for targets without ownership proof, MsgExec around them, bank MsgSend; signer = interchain account or a stranger; host params default / disabled / allow-list) "+
			"delivered to icahost.IBCModule.OnRecvPacket on keeper-placed channel state, or one governance proposal executed by the gov EndBlocker; "+
			"non-trivial = packet contains an Ethereum or vesting-creation message; IBC packet proof verification in front of OnRecvPacket is not exercised")
	cases := NewCases(dir, "From Evm Require Import Lane CorrLane.", "lane_mismatches")

	// ---- state a permissionless ICA channel handshake leaves behind, placed through the keepers
	w.attacker = DetAccount(seed, "routes-attacker", 0)
	w.other = DetAccount(seed, "routes-other", 0)
	w.ica = sdk.AccAddress(authtypes.NewModuleAddress("verif-ica-account-" + ctrlPort)) // any address: the host derives one from (connection, port)
	e18 := new(big.Int).Exp(big.NewInt(10), big.NewInt(18), nil)
	c.Fund(w.attacker.GetCosmosAddress(), c.Denom(), new(big.Int).Mul(e18, big.NewInt(2)))
	c.Fund(w.ica, c.Denom(), new(big.Int).Mul(e18, big.NewInt(5)))
	c.Fund(w.other.GetCosmosAddress(), c.Denom(), big.NewInt(1))
	{
		ctx := c.Ctx()
		meta := icatypes.NewMetadata(icatypes.Version, connID, connID, w.ica.String(), icatypes.EncodingProtobuf, icatypes.TxTypeSDKMultiMsg)
		ver := string(icatypes.ModuleCdc.MustMarshalJSON(&meta))
		c.App.IBCKeeper.ChannelKeeper.SetChannel(ctx, hostPort, chanID, channeltypes.Channel{
			State: channeltypes.OPEN, Ordering: channeltypes.ORDERED,
			Counterparty:   channeltypes.Counterparty{PortId: ctrlPort, ChannelId: chanID},
			ConnectionHops: []string{connID}, Version: ver,
		})
		c.App.ICAHostKeeper.SetActiveChannelID(ctx, connID, ctrlPort, chanID)
		c.App.ICAHostKeeper.SetInterchainAccountAddress(ctx, connID, ctrlPort, w.ica.String())
	}
	c.RunBlock(nil)
	w.chainID = c.App.EvmKeeper.GetEip155ChainId(c.QueryCtx()).BigInt()
	defaultParams := c.App.ICAHostKeeper.GetParams(c.QueryCtx())
	side.Extra["ica_host_default_params"] = map[string]interface{}{"host_enabled": defaultParams.HostEnabled, "allow_messages": defaultParams.AllowMessages}

	module := icahost.NewIBCModule(c.App.ICAHostKeeper)
	rng := NewRng(seed)
	mkPacket := func(ctx sdk.Context, msgs []sdk.Msg) channeltypes.Packet {
		pm := make([]proto.Message, len(msgs))
		for i, m := range msgs {
			pm[i] = m
		}
		data, err := icatypes.SerializeCosmosTx(c.S.EncodingConfig.Codec, pm, icatypes.EncodingProtobuf)
		require.NoError(t, err)
		pd := icatypes.InterchainAccountPacketData{Type: icatypes.EXECUTE_TX, Data: data}
		return channeltypes.NewPacket(pd.GetBytes(), 1, ctrlPort, chanID, hostPort, chanID, clienttypes.NewHeight(1, 1<<40), 0)
	}

	idx := 0
	// fixed witnesses first (the replay of finding #15), then generated packets
	fixed := [][]*rmsg{
		{{Kind: kEth}},
		{{Kind: kVesting, VK: 0}},
		{{Kind: kVesting, VK: 1}},
		{{Kind: kVesting, VK: 2}},
		{{Kind: kExec, Inner: []*rmsg{{Kind: kVesting, VK: 0}}}},
		{{Kind: kExec, Inner: []*rmsg{{Kind: kEth}}}},
		{{Kind: kOther}},
	}
	for ; idx < n; idx++ {
		r := rng.Fork(uint64(idx))
		var msgs []*rmsg
		paramsKind, signerOK := "default", true
		if idx < len(fixed) {
			msgs = fixed[idx]
		} else {
			k := 1 + r.Intn(3)
			for j := 0; j < k; j++ {
				var m *rmsg
				switch x := r.Intn(100); {
				case x < 25:
					m = &rmsg{Kind: kEth}
				case x < 30:
					m = &rmsg{Kind: kEthBadGas}
				case x < 60:
					m = &rmsg{Kind: kVesting, VK: r.Intn(3)}
				case x < 80:
					in := &rmsg{Kind: []int{kEth, kVesting, kOther}[r.Intn(3)], VK: r.Intn(3)}
					m = &rmsg{Kind: kExec, Inner: []*rmsg{in}}
					if r.Chance(30) {
						m = &rmsg{Kind: kExec, Inner: []*rmsg{m}}
					}
				default:
					m = &rmsg{Kind: kOther}
				}
				msgs = append(msgs, m)
			}
			// at most one Ethereum message per packet (one nonce) — keep the first
			seenEth := false
			walk(msgs, func(m *rmsg) {
				if m.Kind == kEth || m.Kind == kEthBadGas {
					if seenEth {
						m.Kind = kOther
					}
					seenEth = true
				}
			})
			switch x := r.Intn(100); {
			case x < 60:
			case x < 75:
				paramsKind = "disabled"
			default:
				paramsKind = "allow-send-only"
			}
			signerOK = !r.Chance(15)
		}
		tid := 0
		walk(msgs, func(m *rmsg) {
			if m.Kind == kVesting {
				m.Target = tid
				tid++
			}
		})

		ctx := c.QueryCtx().WithEventManager(sdk.NewEventManager()).WithBlockGasMeter(storetypes.NewInfiniteGasMeter()).WithGasMeter(storetypes.NewInfiniteGasMeter())
		enabled, allowAll, allow := true, true, "[]"
		switch paramsKind {
		case "disabled":
			c.App.ICAHostKeeper.SetParams(ctx, icahosttypes.NewParams(false, []string{icahosttypes.AllowAllHostMsgs}))
			enabled = false
		case "allow-send-only":
			c.App.ICAHostKeeper.SetParams(ctx, icahosttypes.NewParams(true, []string{sdk.MsgTypeURL(&banktypes.MsgSend{})}))
			allowAll, allow = false, "[10%N]"
		}
		signer := w.ica
		if !signerOK {
			signer = w.other.GetCosmosAddress()
		}
		real := make([]sdk.Msg, len(msgs))
		for i, m := range msgs {
			real[i] = w.build(m, idx, signer, ctx)
		}
		balBefore := c.Bal(ctx, w.attacker.GetCosmosAddress(), c.Denom())
		supplyBefore := c.Supply(ctx, c.Denom())
		var ack interface{ Success() bool }
		p := CatchPanic(func() { ack = module.OnRecvPacket(ctx, mkPacket(ctx, real), w.other.GetCosmosAddress()) })
		require.Nil(t, p, "OnRecvPacket panicked: %v", p)
		o := w.observe(ctx, msgs, idx)
		o.AckOK = ack.Success()
		if !o.AckOK {
			// a failed packet leaves no state behind (executeTx works on a cache) — events of handlers are not propagated either
			o.NEth = 0
		}
		balAfter := c.Bal(ctx, w.attacker.GetCosmosAddress(), c.Denom())
		supplyAfter := c.Supply(ctx, c.Denom())

		ids := make([]string, len(o.Created))
		for k, id := range o.Created {
			ids[k] = CqN(uint64(id))
		}
		ms := make([]string, len(msgs))
		cn := make([]string, len(msgs))
		hasEth, hasVes := false, false
		for i, m := range msgs {
			ms[i] = m.coq()
			cn[i] = m.canon()
		}
		walk(msgs, func(m *rmsg) {
			hasEth = hasEth || m.Kind == kEth
			hasVes = hasVes || m.Kind == kVesting
		})
		cases.Add(fmt.Sprintf("(CIca %s %s %s %s %s %s %s)", CqBool(enabled), CqBool(allowAll), allow, CqBool(signerOK), CqList(ms), CqZi(int64(o.NEth)), CqList(ids)))
		desc := map[string]interface{}{"route": "ica-host", "msgs": strings.Join(cn, ";"), "params": paramsKind, "signer_is_interchain_account": signerOK, "observed": o,
			"attacker_balance_delta": new(big.Int).Sub(balAfter, balBefore).String(), "supply_delta": new(big.Int).Sub(supplyAfter, supplyBefore).String()}
		side.Count("route:ica-host")
		side.Count("params:" + paramsKind)
		side.Count(fmt.Sprintf("ack_success:%v", o.AckOK))
		side.Count(fmt.Sprintf("eth_handler_runs:%d", o.NEth))
		side.Count(fmt.Sprintf("vesting_created:%d", len(o.Created)))
		side.Case(idx, strings.Join(cn, ";")+"|"+paramsKind+fmt.Sprint(signerOK), hasEth || hasVes, desc)

		// ---- oracle from the property text
		if prop == "C07" && o.NEth > 0 {
			side.Hit("C07/routes/ica-host/MsgEthereumTx-executed-without-ante",
				"an Ethereum message carried by an ICA host packet was executed by the EVM handler: no lane, no ante handler, no fee, From not checked against the signature", desc)
		}
		if prop == "C16" && len(o.Created) > 0 {
			side.Hit("C16/routes/ica-host/vesting-created-without-proof",
				"a vesting account was created for an address without ownership proof by a message carried in an ICA host packet", desc)
		}
	}

	// ---- governance route (observation): a real proposal carrying a vesting-creation message for an unproven target
	w.govCase(idx, cases, side)

	cases.Write(t, 400)
	side.Write(t, dir)
}

func (w *world) govCase(idx int, cases *CasesFile, side *Sidecar) {
	c, t := w.c, w.t
	gov := authtypes.NewModuleAddress(govtypes.ModuleName)
	{ // the gov module account may not receive from accounts; move coins module to module
		ctx := c.Ctx()
		coins := sdk.NewCoins(sdk.NewInt64Coin(c.Denom(), 1000))
		require.NoError(t, c.App.BankKeeper.MintCoins(ctx, evmtypes.ModuleName, coins))
		require.NoError(t, c.App.BankKeeper.SendCoinsFromModuleToModule(ctx, evmtypes.ModuleName, govtypes.ModuleName, coins))
	}
	msgs := []*rmsg{{Kind: kVesting, VK: 0, Target: 0}}
	real := []sdk.Msg{w.build(msgs[0], idx, gov, c.QueryCtx())}
	proposer := c.S.WalletAccounts.Number(1)
	params, err := c.App.GovKeeper.Params.Get(c.QueryCtx())
	require.NoError(t, err)
	prop, err := govv1.NewMsgSubmitProposal(real, params.MinDeposit, proposer.GetCosmosAddress().String(), "", "verif", "vesting via governance", false)
	require.NoError(t, err)
	price := new(big.Int).Mul(c.BaseFee(c.QueryCtx()), big.NewInt(2))
	bz, err := c.CosmosTxBytes(proposer, 2_000_000, price, prop)
	require.NoError(t, err)
	res := c.RunBlock([][]byte{bz})
	passed := false
	desc := map[string]interface{}{"route": "gov-proposal", "submit_code": res.TxResults[0].Code}
	if res.TxResults[0].Code == 0 {
		var pid uint64
		for _, ev := range FindEvents(res.TxResults[0].Events, "submit_proposal") {
			if v, ok := EventAttrs(ev)["proposal_id"]; ok {
				fmt.Sscan(v, &pid)
			}
		}
		var votes [][]byte
		for _, v := range c.S.ValidatorAccounts {
			vb, err := c.CosmosTxBytes(v, 500_000, price, &govv1.MsgVote{ProposalId: pid, Voter: v.GetCosmosAddress().String(), Option: govv1.OptionYes})
			require.NoError(t, err)
			votes = append(votes, vb)
		}
		c.RunBlock(votes)
		old := c.Step
		c.Time = c.Time.Add(*params.VotingPeriod + time.Second)
		c.RunBlock(nil)
		c.RunBlock(nil)
		c.Step = old
		p, err := c.App.GovKeeper.Proposals.Get(c.QueryCtx(), pid)
		if err == nil {
			passed = p.Status == govv1.StatusPassed
			desc["proposal_status"] = p.Status.String()
		}
	}
	o := w.observe(c.QueryCtx(), msgs, idx)
	ids := make([]string, len(o.Created))
	for k, id := range o.Created {
		ids[k] = CqN(uint64(id))
	}
	desc["observed"] = o
	desc["passed"] = passed
	cases.Add(fmt.Sprintf("(CGov %s %s %s %s)", CqBool(passed), CqList([]string{msgs[0].coq()}), CqZi(0), CqList(ids)))
	side.Count("route:gov-proposal")
	side.Count(fmt.Sprintf("gov:passed=%v,vesting_created=%d", passed, len(o.Created)))
	side.Case(idx, "gov:V0", true, desc)
	side.Extra["gov_observation"] = "a passed governance proposal executes vesting-creation messages for unproven addresses without the ante rule (authority-gated: observation, not a finding)"
}

var _ = sdkmath.ZeroInt
