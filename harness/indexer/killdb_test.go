package indexer

// killDB wraps the index database and "kills the process" at a chosen write boundary: the first `budget`
// write operations (a batch Write or a direct Set/Delete) reach the underlying DB, every later one fails and
// leaves the DB untouched.  The underlying MemDB survives and is handed to the restarted service, which is
// exactly what a process kill between two database writes leaves behind (given atomic batches).

import (
	"errors"
	"sync"

	sdkdb "github.com/cosmos/cosmos-db"
)

var errKilled = errors.New("verif: process killed, write lost")

type killDB struct {
	sdkdb.DB
	mu     sync.Mutex
	budget int // remaining successful writes; <0 = unlimited
	writes int // successful write operations so far
	dead   bool
	kinds  map[string]int
}

func newKillDB(inner sdkdb.DB, budget int) *killDB {
	return &killDB{DB: inner, budget: budget, kinds: map[string]int{}}
}

func (k *killDB) allow(kind string) bool {
	k.mu.Lock()
	defer k.mu.Unlock()
	if k.dead {
		return false
	}
	if k.budget == 0 {
		k.dead = true
		return false
	}
	if k.budget > 0 {
		k.budget--
	}
	k.writes++
	k.kinds[kind]++
	return true
}

func (k *killDB) isDead() bool {
	k.mu.Lock()
	defer k.mu.Unlock()
	return k.dead
}

func (k *killDB) Set(key, value []byte) error {
	if !k.allow("set") {
		return errKilled
	}
	return k.DB.Set(key, value)
}

func (k *killDB) SetSync(key, value []byte) error {
	if !k.allow("set") {
		return errKilled
	}
	return k.DB.SetSync(key, value)
}

func (k *killDB) Delete(key []byte) error {
	if !k.allow("delete") {
		return errKilled
	}
	return k.DB.Delete(key)
}

func (k *killDB) DeleteSync(key []byte) error {
	if !k.allow("delete") {
		return errKilled
	}
	return k.DB.DeleteSync(key)
}

func (k *killDB) NewBatch() sdkdb.Batch { return &killBatch{Batch: k.DB.NewBatch(), k: k} }

func (k *killDB) NewBatchWithSize(n int) sdkdb.Batch {
	return &killBatch{Batch: k.DB.NewBatchWithSize(n), k: k}
}

type killBatch struct {
	sdkdb.Batch
	k *killDB
}

func (b *killBatch) Write() error {
	if !b.k.allow("batch") {
		return errKilled
	}
	return b.Batch.Write()
}

func (b *killBatch) WriteSync() error {
	if !b.k.allow("batch") {
		return errKilled
	}
	return b.Batch.WriteSync()
}
