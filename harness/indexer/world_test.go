package indexer

// The "world" of the indexer driver: a harness chain whose blocks (raw txs + the ExecTxResults that the
// real FinalizeBlock returned) are kept and served to the real KVIndexer / EVMIndexerService / rpc Backend
// through a fake CometBFT RPC client.

import (
	"context"
	"fmt"
	"sync"
	"testing"

	"cosmossdk.io/log"
	abci "github.com/cometbft/cometbft/abci/types"
	cmtbytes "github.com/cometbft/cometbft/libs/bytes"
	cmtrpcclient "github.com/cometbft/cometbft/rpc/client"
	cmtrpctypes "github.com/cometbft/cometbft/rpc/core/types"
	cmttypes "github.com/cometbft/cometbft/types"
	"github.com/cosmos/cosmos-sdk/client"
	"github.com/cosmos/cosmos-sdk/server"
	authtypes "github.com/cosmos/cosmos-sdk/x/auth/types"
	"github.com/ethereum/go-ethereum/common"
	ethtypes "github.com/ethereum/go-ethereum/core/types"
	"github.com/stretchr/testify/require"

	rpcbackend "github.com/EscanBE/evermint/v12/rpc/backend"
	evertypes "github.com/EscanBE/evermint/v12/types"
	evmtypes "github.com/EscanBE/evermint/v12/x/evm/types"

	. "verifharness/hx"
)

type blk struct {
	block     *cmttypes.Block
	hash      []byte
	res       *abci.ResponseFinalizeBlock
	ethHashes []common.Hash // hashes of every decodable single-MsgEthereumTx tx with a decodable payload, in block order (whatever its outcome)
}

type world struct {
	t      *testing.T
	c      *Chain
	blocks []*blk // blocks[i] has height i+1 (heights below the harness start are empty blocks)
}

func newWorld(t *testing.T, c *Chain) *world {
	w := &world{t: t, c: c}
	for h := int64(1); h < c.Height; h++ {
		w.appendBlock(h, nil, &abci.ResponseFinalizeBlock{})
	}
	return w
}

func (w *world) appendBlock(height int64, txs [][]byte, res *abci.ResponseFinalizeBlock) *blk {
	ctxs := make([]cmttypes.Tx, len(txs))
	for i := range txs {
		ctxs[i] = cmttypes.Tx(txs[i])
	}
	b := cmttypes.MakeBlock(height, ctxs, &cmttypes.Commit{}, nil)
	b.Header.ChainID = w.c.S.ChainConstantsConfig.GetCosmosChainID()
	b.Header.Time = w.c.Time
	b.Header.ProposerAddress = w.c.S.ValidatorAccounts.Number(1).GetConsensusAddress().Bytes()
	b.Header.ValidatorsHash = make([]byte, 32) // Header.Hash() is nil without it
	b.Header.ValidatorsHash[0] = 1
	if n := len(w.blocks); n > 0 {
		b.Header.LastBlockID = cmttypes.BlockID{Hash: w.blocks[n-1].hash}
	}
	out := &blk{block: b, hash: b.Hash(), res: res}
	dec := w.c.S.EncodingConfig.TxConfig.TxDecoder()
	for _, raw := range txs {
		tx, err := dec(raw)
		if err != nil {
			continue
		}
		if msgs := tx.GetMsgs(); len(msgs) == 1 {
			if m, ok := msgs[0].(*evmtypes.MsgEthereumTx); ok {
				if etx := payloadOf(m); etx != nil {
					out.ethHashes = append(out.ethHashes, etx.Hash())
				}
			}
		}
	}
	require.Equal(w.t, int64(len(w.blocks)+1), height)
	w.blocks = append(w.blocks, out)
	return out
}

// payloadOf decodes the embedded Ethereum transaction the way MsgEthereumTx.AsTransaction does, without its panic:
// nil = the payload is not a decodable Ethereum transaction.
func payloadOf(m *evmtypes.MsgEthereumTx) *ethtypes.Transaction {
	etx := &ethtypes.Transaction{}
	if err := etx.UnmarshalBinary(m.MarshalledTx); err != nil {
		return nil
	}
	return etx
}

// runBlock executes the txs as one block on the real app and records block + results.
func (w *world) runBlock(txs [][]byte) *blk {
	h := w.c.Height
	// block time of the recorded header = time of the executed block
	tm := w.c.Time
	res := w.c.RunBlock(txs)
	save := w.c.Time
	w.c.Time = tm
	b := w.appendBlock(h, txs, res)
	w.c.Time = save
	return b
}

func (w *world) clientCtx() client.Context {
	s := w.c.S
	return client.Context{}.
		WithChainID(s.ChainConstantsConfig.GetCosmosChainID()).
		WithCodec(s.EncodingConfig.Codec).
		WithInterfaceRegistry(s.EncodingConfig.InterfaceRegistry).
		WithTxConfig(s.EncodingConfig.TxConfig).
		WithLegacyAmino(s.EncodingConfig.Amino).
		WithAccountRetriever(authtypes.AccountRetriever{})
}

// backend builds the real JSON-RPC backend over the fake node client (gRPC queries go to the real app's Query).
func (w *world) backend(idx evertypes.EVMTxIndexer) *rpcbackend.Backend {
	fc := &fakeClient{w: w, latest: int64(len(w.blocks))}
	sctx := server.NewDefaultContext()
	return rpcbackend.NewBackend(sctx, log.NewNopLogger(), w.clientCtx().WithClient(fc), idx)
}

// ------------------------------------------------------------------ fake CometBFT RPC client

type fakeClient struct {
	cmtrpcclient.Client // nil: any method not overridden below panics (caught by the driver)
	w                   *world
	mu                  sync.Mutex
	latest              int64 // node's latest height as reported by Status (blocks above it are "not yet there")
	earliest            int64
	subs                chan cmtrpctypes.ResultEvent
	calls               map[string]int

	// transient failures of the node (one service life): Status / Subscribe answer with an error; for a height the
	// successive Block(h) / BlockResults(h) calls answer with an error where the plan says so (calls beyond the plan succeed)
	failStatus, failSubscribe bool
	plan                      map[int64]*heightPlan
	served                    []servedFail // the failures that were actually served, in order
}

type heightPlan struct {
	Block   []bool `json:"block_calls_fail"`
	Results []bool `json:"block_results_calls_fail"`
}

type servedFail struct {
	call string
	h    int64
}

var errNodeBusy = fmt.Errorf("verif: node client failed transiently")

// nextFails consumes the next planned outcome of `call` at height h.
func (f *fakeClient) nextFails(call string, height *int64) bool {
	if height == nil {
		return false
	}
	f.mu.Lock()
	defer f.mu.Unlock()
	hp := f.plan[*height]
	if hp == nil {
		return false
	}
	q := &hp.Block
	if call == "BlockResults" {
		q = &hp.Results
	}
	if len(*q) == 0 {
		return false
	}
	fail := (*q)[0]
	*q = (*q)[1:]
	if fail {
		f.served = append(f.served, servedFail{call, *height})
	}
	return fail
}

func (f *fakeClient) servedFails() []servedFail {
	f.mu.Lock()
	defer f.mu.Unlock()
	return append([]servedFail{}, f.served...)
}

func (f *fakeClient) count(k string) {
	f.mu.Lock()
	defer f.mu.Unlock()
	if f.calls == nil {
		f.calls = map[string]int{}
	}
	f.calls[k]++
}

func (f *fakeClient) getLatest() int64 {
	f.mu.Lock()
	defer f.mu.Unlock()
	return f.latest
}

func (f *fakeClient) Status(context.Context) (*cmtrpctypes.ResultStatus, error) {
	f.count("Status")
	f.mu.Lock()
	defer f.mu.Unlock()
	if f.failStatus {
		f.served = append(f.served, servedFail{"Status", 0})
		return nil, errNodeBusy
	}
	e := f.earliest
	if e == 0 {
		e = 1
	}
	return &cmtrpctypes.ResultStatus{SyncInfo: cmtrpctypes.SyncInfo{LatestBlockHeight: f.latest, EarliestBlockHeight: e}}, nil
}

func (f *fakeClient) blockAt(height *int64) (*blk, error) {
	h := f.getLatest()
	if height != nil {
		h = *height
	}
	if h < 1 || h > f.getLatest() || h > int64(len(f.w.blocks)) || h < f.earliest {
		return nil, fmt.Errorf("height %d is not available", h)
	}
	return f.w.blocks[h-1], nil
}

func (f *fakeClient) Block(_ context.Context, height *int64) (*cmtrpctypes.ResultBlock, error) {
	f.count("Block")
	if f.nextFails("Block", height) {
		return nil, errNodeBusy
	}
	b, err := f.blockAt(height)
	if err != nil {
		return nil, err
	}
	return &cmtrpctypes.ResultBlock{BlockID: cmttypes.BlockID{Hash: b.hash}, Block: b.block}, nil
}

func (f *fakeClient) BlockByHash(_ context.Context, hash []byte) (*cmtrpctypes.ResultBlock, error) {
	f.count("BlockByHash")
	lat := f.getLatest()
	for i, b := range f.w.blocks {
		if int64(i+1) > lat {
			break
		}
		if string(b.hash) == string(hash) {
			return &cmtrpctypes.ResultBlock{BlockID: cmttypes.BlockID{Hash: b.hash}, Block: b.block}, nil
		}
	}
	// the real node answers with an empty result for an unknown hash
	return &cmtrpctypes.ResultBlock{BlockID: cmttypes.BlockID{}, Block: nil}, nil
}

func (f *fakeClient) BlockResults(_ context.Context, height *int64) (*cmtrpctypes.ResultBlockResults, error) {
	f.count("BlockResults")
	if f.nextFails("BlockResults", height) {
		return nil, errNodeBusy
	}
	b, err := f.blockAt(height)
	if err != nil {
		return nil, err
	}
	return &cmtrpctypes.ResultBlockResults{
		Height:                b.block.Height,
		TxsResults:            b.res.TxResults,
		FinalizeBlockEvents:   b.res.Events,
		ValidatorUpdates:      b.res.ValidatorUpdates,
		ConsensusParamUpdates: b.res.ConsensusParamUpdates,
		AppHash:               b.res.AppHash,
	}, nil
}

func (f *fakeClient) ConsensusParams(_ context.Context, height *int64) (*cmtrpctypes.ResultConsensusParams, error) {
	f.count("ConsensusParams")
	cp := f.w.c.App.BaseApp.GetConsensusParams(f.w.c.QueryCtx())
	h := f.getLatest()
	if height != nil {
		h = *height
	}
	return &cmtrpctypes.ResultConsensusParams{BlockHeight: h, ConsensusParams: cmttypes.ConsensusParamsFromProto(cp)}, nil
}

func (f *fakeClient) UnconfirmedTxs(context.Context, *int) (*cmtrpctypes.ResultUnconfirmedTxs, error) {
	f.count("UnconfirmedTxs")
	return &cmtrpctypes.ResultUnconfirmedTxs{}, nil
}

func (f *fakeClient) ABCIQueryWithOptions(ctx context.Context, path string, data cmtbytes.HexBytes, opts cmtrpcclient.ABCIQueryOptions) (*cmtrpctypes.ResultABCIQuery, error) {
	f.count("ABCIQuery")
	resp, err := f.w.c.App.BaseApp.Query(ctx, &abci.RequestQuery{Path: path, Data: data, Height: opts.Height, Prove: opts.Prove})
	if err != nil {
		return nil, err
	}
	return &cmtrpctypes.ResultABCIQuery{Response: *resp}, nil
}

func (f *fakeClient) ABCIQuery(ctx context.Context, path string, data cmtbytes.HexBytes) (*cmtrpctypes.ResultABCIQuery, error) {
	return f.ABCIQueryWithOptions(ctx, path, data, cmtrpcclient.DefaultABCIQueryOptions)
}

func (f *fakeClient) Subscribe(_ context.Context, _ string, _ string, _ ...int) (<-chan cmtrpctypes.ResultEvent, error) {
	f.count("Subscribe")
	f.mu.Lock()
	defer f.mu.Unlock()
	if f.failSubscribe {
		f.served = append(f.served, servedFail{"Subscribe", 0})
		return nil, errNodeBusy
	}
	f.subs = make(chan cmtrpctypes.ResultEvent, 64)
	return f.subs, nil
}

func (f *fakeClient) Unsubscribe(context.Context, string, string) error {
	f.count("Unsubscribe")
	return nil
}

// announce makes block h visible (latest := h) and publishes its header to the subscriber, like a node that committed it.
func (f *fakeClient) announce(h int64) {
	f.mu.Lock()
	f.latest = h
	ch := f.subs
	f.mu.Unlock()
	if ch != nil {
		ch <- cmtrpctypes.ResultEvent{Data: cmttypes.EventDataNewBlockHeader{Header: f.w.blocks[h-1].block.Header}}
	}
}
