package indexer

// Projection of a block (raw txs + ExecTxResults) onto the model's block view, written independently of the
// repository's parsing code (own attribute lookup; receipt bytes decoded with go-ethereum's types.Receipt).

import (
	"fmt"
	"math/big"
	"strconv"
	"strings"

	abci "github.com/cometbft/cometbft/abci/types"
	sdk "github.com/cosmos/cosmos-sdk/types"
	authante "github.com/cosmos/cosmos-sdk/x/auth/ante"
	"github.com/ethereum/go-ethereum/common"
	"github.com/ethereum/go-ethereum/common/hexutil"
	ethtypes "github.com/ethereum/go-ethereum/core/types"

	evmtypes "github.com/EscanBE/evermint/v12/x/evm/types"

	. "verifharness/hx"
)

type rcView struct {
	TxIdx, Block     uint64
	VmErr            bool
	Status, Gas, Cum uint64
	LogStart         *uint64
	NLogs            int
	Contract         bool
	logs             []*ethtypes.Log
	txHash           common.Hash
}

type evView struct {
	IsEth   bool
	TxIdxOK bool
	Rc      *rcView
}

type txView struct {
	Dec, Eth, Ext bool
	BadPayload    bool // Ethereum-lane wrapper whose MarshalledTx is not a decodable Ethereum transaction (hash/gas/nonce unknown: 0)
	Hash          common.Hash
	Gas           uint64
	From          common.Address
	Signer        common.Address
	Nonce         uint64
	CodeOK        bool
	Code          uint32
	Events        []evView
	bad           string // non-empty: the result could not be projected (unexpected event shape)
}

func attr(ev abci.Event, key string) (string, bool) {
	for _, a := range ev.Attributes {
		if a.Key == key {
			return a.Value, true
		}
	}
	return "", false
}

func (w *world) projectTx(raw []byte, res *abci.ExecTxResult) txView {
	v := txView{CodeOK: res.Code == 0, Code: res.Code}
	tx, err := w.c.S.EncodingConfig.TxConfig.TxDecoder()(raw)
	if err == nil {
		v.Dec = true
		msgs := tx.GetMsgs()
		if len(msgs) == 1 {
			if m, ok := msgs[0].(*evmtypes.MsgEthereumTx); ok {
				v.Eth = true
				if etx := payloadOf(m); etx != nil {
					v.Hash = etx.Hash()
					v.Gas = etx.Gas()
					v.Nonce = etx.Nonce()
					if s, err := ethtypes.Sender(w.c.S.EthSigner, etx); err == nil {
						v.Signer = s
					}
				} else {
					v.BadPayload = true
				}
				if acc, err := sdk.AccAddressFromBech32(m.From); err == nil {
					v.From = common.BytesToAddress(acc)
				}
				v.Ext = true
				if ext, ok := tx.(authante.HasExtensionOptionsTx); ok {
					if len(ext.GetNonCriticalExtensionOptions()) != 0 {
						v.Ext = false
					}
					if o := ext.GetExtensionOptions(); len(o) > 1 || (len(o) == 1 && !strings.HasSuffix(o[0].GetTypeUrl(), ".ExtensionOptionsEthereumTx")) {
						v.Ext = false
					}
				}
			}
		}
	}
	for _, ev := range res.Events {
		switch ev.Type {
		case "ethereum_tx":
			e := evView{IsEth: true, TxIdxOK: true}
			for _, a := range ev.Attributes {
				if a.Key == "txIndex" {
					if _, err := strconv.ParseUint(a.Value, 10, 31); err != nil {
						e.TxIdxOK = false
					}
				}
			}
			v.Events = append(v.Events, e)
		case "tx_receipt":
			rc := &rcView{}
			get := func(k string) string {
				s, ok := attr(ev, k)
				if !ok {
					v.bad = "tx_receipt event without attribute " + k
				}
				return s
			}
			u := func(k string) uint64 {
				n, err := strconv.ParseUint(get(k), 10, 64)
				if err != nil {
					v.bad = "tx_receipt attribute " + k + " is not a number"
				}
				return n
			}
			rc.TxIdx = u("txIdx")
			rc.Block = u("blockNumber")
			rc.Gas = u("gasUsed")
			_, rc.VmErr = attr(ev, "error")
			rc.Contract = get("contractAddr") != ""
			rc.txHash = common.HexToHash(get("evmTxHash"))
			if s, ok := attr(ev, "logIdx"); ok {
				n, err := strconv.ParseUint(s, 10, 64)
				if err != nil {
					v.bad = "logIdx is not a number"
				}
				rc.LogStart = &n
			}
			bz, err := hexutil.Decode(get("marshalled"))
			var r ethtypes.Receipt
			if err != nil || r.UnmarshalBinary(bz) != nil {
				v.bad = "marshalled receipt does not decode"
			} else {
				rc.Status = r.Status
				rc.Cum = r.CumulativeGasUsed
				rc.NLogs = len(r.Logs)
				rc.logs = r.Logs
			}
			v.Events = append(v.Events, evView{Rc: rc})
		}
	}
	return v
}

func (w *world) projectBlock(b *blk, results []*abci.ExecTxResult) []txView {
	out := make([]txView, len(b.block.Txs))
	for i, raw := range b.block.Txs {
		out[i] = w.projectTx(raw, results[i])
	}
	return out
}

func (v txView) hasEthEvent() bool {
	for _, e := range v.Events {
		if e.IsEth {
			return true
		}
	}
	return false
}

func (v txView) firstRc() *rcView {
	for _, e := range v.Events {
		if e.Rc != nil {
			return e.Rc
		}
	}
	return nil
}

// admitted: an Ethereum transaction that the ante handler admitted (property text: "Ethereum transaction in the block")
func (v txView) admitted() bool { return v.Dec && v.Eth && v.Ext && (v.CodeOK || v.hasEthEvent()) }

func (v txView) class() string {
	switch {
	case !v.Dec:
		return "undecodable"
	case !v.Eth:
		if v.CodeOK {
			return "cosmos_ok"
		}
		return "cosmos_fail"
	case v.CodeOK:
		if rc := v.firstRc(); rc != nil && rc.VmErr {
			return "eth_executed_vm_error"
		} else if rc != nil && rc.NLogs > 0 {
			return "eth_executed_ok_with_logs"
		}
		return "eth_executed_ok"
	case v.hasEthEvent():
		if v.Code == 11 {
			return "eth_admitted_exceeded_block_gas"
		}
		return "eth_admitted_failed_in_transition"
	default:
		if v.BadPayload {
			return "eth_undecodable_payload_rejected_by_ante"
		}
		if v.Code == 11 {
			return "eth_dropped_before_ante"
		}
		return "eth_rejected_by_ante"
	}
}

// ------------------------------------------------------------------ Coq emission

func cqHash(h common.Hash) string       { return CqZ(new(big.Int).SetBytes(h.Bytes())) }
func cqAddr(a common.Address) string    { return CqZ(new(big.Int).SetBytes(a.Bytes())) }
func cqOptU(p *uint64) string {
	if p == nil {
		return "None"
	}
	return "(Some " + CqZu(*p) + ")"
}

func (rc *rcView) coq() string {
	return fmt.Sprintf("(Rc %s %s %s %s %s %s %s %s %s)", CqZu(rc.TxIdx), CqZu(rc.Block), CqBool(rc.VmErr), CqZu(rc.Status), CqZu(rc.Gas),
		CqZu(rc.Cum), cqOptU(rc.LogStart), CqZi(int64(rc.NLogs)), CqBool(rc.Contract))
}

func (v txView) coq() string {
	evs := make([]string, 0, len(v.Events))
	for _, e := range v.Events {
		if e.IsEth {
			evs = append(evs, "EvEth "+CqBool(e.TxIdxOK))
		} else {
			evs = append(evs, "EvRc "+e.Rc.coq())
		}
	}
	return fmt.Sprintf("(Tx %s %s %s %s %s %s %s %s)", CqBool(v.Dec), CqBool(v.Eth), CqBool(v.Ext), cqHash(v.Hash), CqZu(v.Gas), cqAddr(v.From),
		CqBool(v.CodeOK), CqList(evs))
}

func coqChain(views [][]txView) string {
	bs := make([]string, len(views))
	for i, b := range views {
		ts := make([]string, len(b))
		for j, t := range b {
			ts[j] = t.coq()
		}
		bs[i] = CqList(ts)
	}
	return CqList(bs)
}
