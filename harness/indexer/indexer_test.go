package indexer

// Driver `indexer` (C14).  For every generated chain (executed by the real application):
//   CIndex  the real KVIndexer fed block by block (+ re-indexing), once with the real ExecTxResults and once with
//           mutated ones; DB dump and every lookup against the model;
//   CSvc    the real EVMIndexerService over a fake CometBFT RPC client, killed at a write boundary of the index DB
//           and restarted (several lives), with transient failures of the node client (Status / Subscribe at start,
//           Block / BlockResults in the catch-up loop and in the live new-block loop); DB dump after every life
//           against the model;
//   CRpc    the real rpc Backend (receipts, transactions, blocks, logs) over the same fake client against the model.
// The Go oracle (from the property text, independent of the model) compares lookups and RPC views with the consensus
// results, re-indexing with idempotence, and every crash/restart history with an uninterrupted run.

import (
	"bytes"
	"encoding/binary"
	"fmt"
	"math/big"
	"sort"
	"strings"
	"sync"
	"testing"
	"time"

	"cosmossdk.io/log"
	abci "github.com/cometbft/cometbft/abci/types"
	cmtlog "github.com/cometbft/cometbft/libs/log"
	cmttypes "github.com/cometbft/cometbft/types"
	sdkdb "github.com/cosmos/cosmos-db"
	"github.com/ethereum/go-ethereum/common"
	"github.com/ethereum/go-ethereum/common/hexutil"
	ethtypes "github.com/ethereum/go-ethereum/core/types"
	"github.com/stretchr/testify/require"

	kvindexer "github.com/EscanBE/evermint/v12/indexer"
	rpcbackend "github.com/EscanBE/evermint/v12/rpc/backend"
	rpctypes "github.com/EscanBE/evermint/v12/rpc/types"
	evmserver "github.com/EscanBE/evermint/v12/server"
	evertypes "github.com/EscanBE/evermint/v12/types"

	. "verifharness/hx"
)

const (
	sigEmptyRestart = "C14/indexer/empty-db-restart-skips-committed-block"
	sigGiveUp       = "C14/indexer/startup-gives-up-after-11-failed-fetches"
	sigRpcPrefix    = "C14/indexer/not-convergent-after-transient-rpc-failure/"
	sigPrunedSkip   = "C14/indexer/pruned-restart-skips-earliest-block"
	sigNotConverge  = "C14/indexer/crash-not-convergent"
	sigReindex      = "C14/indexer/reindex-changes-index"
	sigLookup       = "C14/indexer/lookup-disagrees-with-block-position"
	sigConsensus    = "C14/indexer/consensus-results-malformed"
	sigPanicPrefix  = "C14/indexer/indexblock-panicked/"
)

type caseDesc struct {
	Kind   string      `json:"kind"`
	Seed   uint64      `json:"seed"`
	Chain  int         `json:"chain"`
	Blocks []string    `json:"blocks"`
	Extra  interface{} `json:"extra,omitempty"`
}

func TestDriverIndexer(t *testing.T) {
	dir := OutDir(t)
	seed := EnvSeed()
	n := EnvInt("VERIF_N", 16)
	rng := NewRng(seed)
	side := NewSidecar("indexer", seed,
		"one generated chain (2-10 blocks of 0-7 mixed Ethereum/Cosmos/garbage txs incl. well-formed Ethereum-lane wrappers around an undecodable/truncated/empty/huge payload or a wrong From, all outcome classes, small block gas limits; a panic of IndexBlock is an oracle hit) yields: CIndex (KVIndexer fed with real results incl. re-indexing), "+
			"CIndex-mutated (results with stripped/corrupted events and flipped codes), CSvc (EVMIndexerService lives with kill points at index-DB write boundaries, restarts and transient node-client failures: Status/Subscribe at start, patterns of failing Block/BlockResults calls per height in catch-up and live loop), CRpc (Backend receipts/txs/blocks/logs); "+
			"non-trivial = the chain has an admitted-but-failed or rejected/dropped Ethereum tx or a multi-tx block (CIndex/CRpc), or a life killed before completion / restarted while lagging / with a served node-client failure (CSvc); distinct by chain content and schedule")
	cases := NewCases(dir, "From Evm Require Import Indexer CorrIndexer.", "indexer_mismatches")
	d := &driver{t: t, side: side, cases: cases, seed: seed}
	for i := 0; i < n; i++ {
		d.chainCase(i, rng.Fork(uint64(i)))
	}
	cases.Write(t, 12)
	side.Write(t, dir)
}

type driver struct {
	t      *testing.T
	side   *Sidecar
	cases  *CasesFile
	seed   uint64
	stalls int // lives in which the service never got where it had to (each one is reported as a violation)
	chain  int // the chain being worked on
	panics map[string]bool // IndexBlock panics already reported (chain/height)
}

type blockIndexer interface {
	IndexBlock(*cmttypes.Block, []*abci.ExecTxResult) error
}

// indexBlock hands block h (with the given results) to the indexer the way server/indexer_service.go does. An error
// fails the driver. A PANIC is an oracle hit: EVMIndexerService has no recover, so the node process dies, and dies
// again at the same block after every restart (the service resumes at lastIndexedBlock+1) - the block is never
// indexed, no transaction of it or of any later block is ever found ("once a block has been indexed, every Ethereum
// transaction in it can be found ... also for transactions that failed"; the index is no function of the chain any
// more). false = it panicked.
func (d *driver) indexBlock(w *world, idx blockIndexer, h int64, results []*abci.ExecTxResult, where string) bool {
	var err error
	p := CatchPanic(func() { err = idx.IndexBlock(w.blocks[h-1].block, results) })
	if p != nil {
		d.reportPanic(w, h, results, where, p)
		return false
	}
	require.NoError(d.t, err)
	return true
}

func (d *driver) reportPanic(w *world, h int64, results []*abci.ExecTxResult, where string, p interface{}) {
	key := fmt.Sprintf("%d/%d", d.chain, h)
	d.side.Count("indexblock_panicked:" + where)
	if d.panics == nil {
		d.panics = map[string]bool{}
	}
	if d.panics[key] {
		return
	}
	d.panics[key] = true
	views := w.projectBlock(w.blocks[h-1], results)
	class, classes := "no-undecodable-payload-in-block", make([]string, len(views))
	for i := len(views) - 1; i >= 0; i-- {
		classes[i] = views[i].class()
		if views[i].BadPayload {
			class = classes[i]
		}
	}
	msg := fmt.Sprintf("%v", p)
	if len(msg) > 300 {
		msg = msg[:300]
	}
	d.side.Hit(sigPanicPrefix+class, fmt.Sprintf("KVIndexer.IndexBlock panicked on the committed block %d (%s): %s; the indexer service has no recover, the node dies on this block at every start and the block is never indexed",
		h, where, msg), map[string]interface{}{"chain": d.chain, "seed": d.seed, "height": h, "where": where, "block": classes})
}

func (d *driver) add(kind string, chain int, w *world, views [][]txView, term string, canonical string, nontrivial bool, extra interface{}) {
	idx := d.cases.Len()
	d.cases.Add(term)
	bl := make([]string, len(views))
	for i, b := range views {
		cs := make([]string, len(b))
		for j, v := range b {
			cs[j] = v.class()
		}
		bl[i] = fmt.Sprintf("%d:[%s]", i+1, strings.Join(cs, ","))
	}
	d.side.Count("case:" + kind)
	d.side.Case(idx, kind+"/"+canonical, nontrivial, caseDesc{Kind: kind, Seed: d.seed, Chain: chain, Blocks: bl, Extra: extra})
}

// ------------------------------------------------------------------ one chain

func (d *driver) chainCase(ci int, r *Rng) {
	t := d.t
	d.chain = ci
	c := NewChain(t, time.Time{})
	w := newWorld(t, c)
	g := newGen(w, r)
	for i, q := 0, r.Intn(4); i < q; i++ {
		g.quiet()
	}
	g.deploy()
	for i, nb := 0, 1+r.Intn(6); i < nb; i++ {
		g.block()
	}
	if r.Chance(30) {
		g.quiet()
	}
	for k, v := range g.kinds {
		d.side.Histogram["gen:"+k] += v
	}
	n := len(w.blocks)
	views := make([][]txView, n)
	interesting := false
	canon := ""
	for i, b := range w.blocks {
		views[i] = w.projectBlock(b, b.res.TxResults)
		if len(views[i]) > 1 {
			interesting = true
		}
		for _, v := range views[i] {
			require.Empty(t, v.bad, "unexpected result shape")
			d.side.Count("tx:" + v.class())
			canon += v.class()[:5] + v.Hash.Hex()[2:8] + ","
			if v.Eth && !(v.CodeOK) {
				interesting = true
			}
		}
		canon += "|"
	}
	d.side.Count(fmt.Sprintf("chain_blocks:%d", n))
	d.checkConsensusShape(w, views, ci)

	d.indexCase(ci, r.Fork(1), w, views, canon, interesting)
	d.mutatedCase(ci, r.Fork(2), w, canon)
	d.svcCase(ci, r.Fork(3), w, views, canon)
	d.svcDirected(ci, r.Fork(5), w, views, canon)
	d.rpcCase(ci, r.Fork(4), w, views, canon, interesting)
}

// consensus results have the shape the model's wf_chain demands (own check on the raw results)
func (d *driver) checkConsensusShape(w *world, views [][]txView, ci int) {
	for bi, b := range views {
		ei := uint64(0)
		var run uint64
		for ti, v := range b {
			nrc := 0
			for _, e := range v.Events {
				if e.Rc != nil {
					nrc++
				}
			}
			bad := ""
			switch {
			case !v.admitted():
				if nrc != 0 {
					bad = "a transaction that is not an admitted Ethereum tx carries a tx_receipt event"
				}
			case v.CodeOK:
				rc := v.firstRc()
				if nrc != 1 || !v.hasEthEvent() {
					bad = "executed Ethereum tx without exactly one tx_receipt event and an ethereum_tx event"
				} else {
					if rc.TxIdx != ei || rc.Block != uint64(bi+1) {
						bad = fmt.Sprintf("tx_receipt event position (%d,%d) is not the real position (%d,%d)", rc.Block, rc.TxIdx, bi+1, ei)
					}
					run += rc.Gas
					if rc.Cum != run {
						bad = fmt.Sprintf("consensus receipt cumulative gas %d is not the running sum %d (admitted-but-failed txs counted with their gas limit)", rc.Cum, run)
					}
					if rc.txHash != v.Hash {
						bad = "tx_receipt event names another transaction hash"
					}
				}
			default:
				if nrc != 0 {
					bad = "failed Ethereum tx carries a tx_receipt event"
				}
				run += v.Gas
			}
			if v.BadPayload && (v.CodeOK || len(v.Events) != 0) {
				bad = "an Ethereum-lane tx whose payload is not a decodable Ethereum transaction was admitted / carries EVM events"
			}
			if v.admitted() {
				if v.From != v.Signer {
					bad = "admitted Ethereum tx whose From is not its signer"
				}
				ei++
			}
			if bad != "" {
				d.side.Hit(sigConsensus, bad, map[string]interface{}{"chain": ci, "height": bi + 1, "tx": ti, "class": v.class()})
			}
		}
	}
}

// ------------------------------------------------------------------ DB dumps

type kv struct{ k, v []byte }

func dumpDB(t *testing.T, db sdkdb.DB) []kv {
	it, err := db.Iterator(nil, nil)
	require.NoError(t, err)
	defer it.Close()
	var out []kv
	for ; it.Valid(); it.Next() {
		out = append(out, kv{append([]byte{}, it.Key()...), append([]byte{}, it.Value()...)})
	}
	return out
}

func dumpEq(a, b []kv) bool {
	if len(a) != len(b) {
		return false
	}
	for i := range a {
		if !bytes.Equal(a[i].k, b[i].k) || !bytes.Equal(a[i].v, b[i].v) {
			return false
		}
	}
	return true
}

func coqRes(r *evertypes.TxResult) string {
	return fmt.Sprintf("(Res %s %s %s %s)", CqZi(r.Height), CqZu(uint64(r.TxIndex)), CqZi(int64(r.EthTxIndex)), CqBool(r.Failed))
}

func coqOptRes(r *evertypes.TxResult, err error) string {
	if err != nil || r == nil {
		return "None"
	}
	return "(Some " + coqRes(r) + ")"
}

func coqDump(t *testing.T, w *world, dump []kv) string {
	items := make([]string, 0, len(dump))
	for _, e := range dump {
		switch {
		case len(e.k) == 33 && e.k[0] == kvindexer.KeyPrefixTxHash:
			var r evertypes.TxResult
			require.NoError(t, w.c.S.EncodingConfig.Codec.Unmarshal(e.v, &r))
			items = append(items, fmt.Sprintf("(KHash %s, VRes %s)", CqZ(new(big.Int).SetBytes(e.k[1:])), coqRes(&r)))
		case len(e.k) == 17 && e.k[0] == kvindexer.KeyPrefixTxIndex:
			require.Len(t, e.v, 32)
			items = append(items, fmt.Sprintf("(KIdx %s %s, VHash %s)", CqZi(int64(binary.BigEndian.Uint64(e.k[1:9]))), CqZi(int64(binary.BigEndian.Uint64(e.k[9:17]))),
				CqZ(new(big.Int).SetBytes(e.v))))
		default:
			t.Fatalf("index DB holds a key of unknown shape: %x", e.k)
		}
	}
	return CqList(items)
}

func (w *world) newIndexer(db sdkdb.DB) *kvindexer.KVIndexer {
	return kvindexer.NewKVIndexer(db, log.NewNopLogger(), w.clientCtx())
}

// ------------------------------------------------------------------ CIndex

type lookups struct {
	byHash, byIdx string
}

func (d *driver) lookupAll(w *world, idx *kvindexer.KVIndexer, hashes []common.Hash, counts []int) lookups {
	var bh, bi []string
	for _, h := range hashes {
		r, err := idx.GetByTxHash(h)
		bh = append(bh, fmt.Sprintf("(%s, %s)", cqHash(h), coqOptRes(r, err)))
	}
	for hgt := int64(0); hgt <= int64(len(counts))+1; hgt++ {
		lim := 1
		if hgt >= 1 && hgt <= int64(len(counts)) {
			lim = counts[hgt-1] + 2
		}
		for i := 0; i < lim; i++ {
			r, err := idx.GetByBlockAndIndex(hgt, int32(i))
			bi = append(bi, fmt.Sprintf("(%s, %s, %s)", CqZi(hgt), CqZi(int64(i)), coqOptRes(r, err)))
		}
	}
	return lookups{CqList(bh), CqList(bi)}
}

func allHashes(w *world, r *Rng) []common.Hash {
	seen := map[common.Hash]bool{}
	var hs []common.Hash
	for _, b := range w.blocks {
		for _, h := range b.ethHashes {
			if !seen[h] {
				seen[h] = true
				hs = append(hs, h)
			}
		}
	}
	hs = append(hs, common.Hash{}, common.BigToHash(r.BigBits(256)), common.BigToHash(big.NewInt(1)))
	return hs
}

func (d *driver) indexCase(ci int, r *Rng, w *world, views [][]txView, canon string, interesting bool) {
	t := d.t
	n := len(w.blocks)
	db := sdkdb.NewMemDB()
	idx := w.newIndexer(db)
	var feeds []int64
	for h := 1; h <= n; h++ {
		feeds = append(feeds, int64(h))
	}
	for _, h := range feeds {
		d.indexBlock(w, idx, h, w.blocks[h-1].res.TxResults, "CIndex")
	}
	before := dumpDB(t, db)
	// re-index some blocks (idempotence; order arbitrary)
	for i, k := 0, r.Intn(4); i < k; i++ {
		h := int64(1 + r.Intn(n))
		feeds = append(feeds, h)
		d.indexBlock(w, idx, h, w.blocks[h-1].res.TxResults, "CIndex/re-index")
	}
	after := dumpDB(t, db)
	if !dumpEq(before, after) {
		d.side.Hit(sigReindex, "indexing blocks again changed the index", map[string]interface{}{"chain": ci, "feeds": feeds})
	}
	counts := make([]int, n)
	// oracle: both lookups agree with each other and with the real position, for every admitted Ethereum tx;
	// hashes that were never admitted are unknown; indices past the last admitted tx are unknown
	everAdmitted := map[common.Hash]bool{}
	for bi, b := range views {
		ei := 0
		for ti, v := range b {
			if !v.admitted() {
				continue
			}
			everAdmitted[v.Hash] = true
			r1, e1 := idx.GetByTxHash(v.Hash)
			r2, e2 := idx.GetByBlockAndIndex(int64(bi+1), int32(ei))
			ok := e1 == nil && e2 == nil && r1 != nil && r2 != nil && *r1 == *r2 &&
				r1.Height == int64(bi+1) && r1.TxIndex == uint32(ti) && r1.EthTxIndex == int32(ei)
			if ok {
				rc := v.firstRc()
				wantFailed := !v.CodeOK || (rc != nil && rc.VmErr)
				ok = r1.Failed == wantFailed
			}
			if !ok {
				d.side.Hit(sigLookup, fmt.Sprintf("by-hash %v (%v) / by-(block,index) %v (%v) for the tx at height %d position %d eth index %d", r1, e1, r2, e2, bi+1, ti, ei),
					map[string]interface{}{"chain": ci, "height": bi + 1, "tx": ti})
			}
			ei++
		}
		counts[bi] = ei
		if r2, e2 := idx.GetByBlockAndIndex(int64(bi+1), int32(ei)); e2 == nil && r2 != nil {
			d.side.Hit(sigLookup, fmt.Sprintf("index %d past the last Ethereum tx of block %d is answered with %v", ei, bi+1, r2), map[string]interface{}{"chain": ci, "height": bi + 1})
		}
	}
	hashes := allHashes(w, r)
	for _, h := range hashes {
		if !everAdmitted[h] {
			if r1, e1 := idx.GetByTxHash(h); e1 == nil && r1 != nil {
				d.side.Hit(sigLookup, fmt.Sprintf("hash %s was never admitted in any block but is answered with %v", h.Hex(), r1), map[string]interface{}{"chain": ci})
			}
		}
	}
	lk := d.lookupAll(w, idx, hashes, counts)
	last, err := idx.LastIndexedBlock()
	require.NoError(t, err)
	first, err := idx.FirstIndexedBlock()
	require.NoError(t, err)
	fs := make([]string, len(feeds))
	for i, h := range feeds {
		fs[i] = CqZi(h)
	}
	term := fmt.Sprintf("CIndex %s %s %s %s %s %s %s", coqChain(views), CqList(fs), coqDump(t, w, after), CqZi(last), CqZi(first), lk.byHash, lk.byIdx)
	d.add("CIndex", ci, w, views, term, canon+fmt.Sprint(feeds), interesting, map[string]interface{}{"feeds": feeds})
}

// ------------------------------------------------------------------ CIndex with mutated results (model faithfulness on malformed results)

func cloneResult(r *abci.ExecTxResult) *abci.ExecTxResult {
	c := *r
	c.Events = make([]abci.Event, len(r.Events))
	for i, e := range r.Events {
		c.Events[i] = abci.Event{Type: e.Type, Attributes: append([]abci.EventAttribute{}, e.Attributes...)}
	}
	return &c
}

func stripEvents(r *abci.ExecTxResult, typ string) {
	var out []abci.Event
	for _, e := range r.Events {
		if e.Type != typ {
			out = append(out, e)
		}
	}
	r.Events = out
}

func (d *driver) mutatedCase(ci int, r *Rng, w *world, canon string) {
	t := d.t
	n := len(w.blocks)
	results := make([][]*abci.ExecTxResult, n)
	muts := []string{}
	for bi, b := range w.blocks {
		results[bi] = make([]*abci.ExecTxResult, len(b.res.TxResults))
		for ti, res := range b.res.TxResults {
			m := cloneResult(res)
			if r.Chance(45) {
				kind := r.Intn(7)
				switch kind {
				case 0:
					m.Code = 5
				case 1:
					stripEvents(m, "tx_receipt")
				case 2:
					stripEvents(m, "ethereum_tx")
				case 3:
					stripEvents(m, "tx_receipt")
					stripEvents(m, "ethereum_tx")
				case 4:
					for ei := range m.Events {
						if m.Events[ei].Type == "ethereum_tx" {
							for ai := range m.Events[ei].Attributes {
								if m.Events[ei].Attributes[ai].Key == "txIndex" {
									m.Events[ei].Attributes[ai].Value = "x7"
								}
							}
						}
					}
				case 5:
					m.Code = 0
				case 6:
					m.Code = 0
					stripEvents(m, "tx_receipt")
					stripEvents(m, "ethereum_tx")
				}
				name := []string{"code:=5", "strip_receipt", "strip_ethereum_tx", "strip_both", "corrupt_txIndex", "code:=0", "code:=0+strip_both"}[kind]
				d.side.Count("mutation:" + name)
				muts = append(muts, fmt.Sprintf("%d/%d:%s", bi+1, ti, name))
			}
			results[bi][ti] = m
		}
	}
	views := make([][]txView, n)
	for i, b := range w.blocks {
		views[i] = w.projectBlock(b, results[i])
	}
	db := sdkdb.NewMemDB()
	idx := w.newIndexer(db)
	var fs []string
	for h := 1; h <= n; h++ {
		d.indexBlock(w, idx, int64(h), results[h-1], "CIndex-mutated")
		fs = append(fs, CqZi(int64(h)))
	}
	counts := make([]int, n)
	for i, b := range views {
		counts[i] = len(b)
	}
	lk := d.lookupAll(w, idx, allHashes(w, r), counts)
	last, err := idx.LastIndexedBlock()
	require.NoError(t, err)
	first, err := idx.FirstIndexedBlock()
	require.NoError(t, err)
	term := fmt.Sprintf("CIndex %s %s %s %s %s %s %s", coqChain(views), CqList(fs), coqDump(t, w, dumpDB(t, db)), CqZi(last), CqZi(first), lk.byHash, lk.byIdx)
	d.add("CIndex-mutated", ci, w, views, term, canon+strings.Join(muts, ","), len(muts) > 0, map[string]interface{}{"mutations": muts})
}

// ------------------------------------------------------------------ CSvc

type incSpec struct {
	Start     int64                 `json:"node_height_at_start"`
	End       int64                 `json:"node_height_at_end"`
	Kill      int                   `json:"killed_after_writes"`      // <0: not killed
	Earliest  int64                 `json:"node_earliest_height"`     // the node's EarliestBlockHeight during this life (blocks below are pruned)
	StartFail string                `json:"start_fails_at,omitempty"` // "Status" | "Subscribe": OnStart returns an error
	Plan      map[int64]*heightPlan `json:"node_client_failures,omitempty"`
}

// how long the driver waits for the service to settle; once a stall has been seen (and reported) the rest of the run
// does not wait that long again
var waitLimit = 20 * time.Second

const maxStalls = 6

// waitFor polls cond (synchronisation only; no observation depends on the clock); false = it never held.
func waitFor(cond func() bool) bool {
	deadline := time.Now().Add(waitLimit)
	for !cond() {
		if time.Now().After(deadline) {
			return false
		}
		time.Sleep(200 * time.Microsecond)
	}
	return true
}

// recIndexer is the real KVIndexer; it only records which heights IndexBlock accepted (returned nil) - and on which it
// PANICKED: the service calls IndexBlock from its own goroutine without a recover, so the panic would end the process
// (here: the driver). It is caught, recorded (reported as an oracle hit after the life) and handed to the service as
// an error, so that the rest of the life can be observed.
type recIndexer struct {
	*kvindexer.KVIndexer
	mu       sync.Mutex
	ok       map[int64]bool
	panicked map[int64]interface{}
}

func (r *recIndexer) IndexBlock(b *cmttypes.Block, res []*abci.ExecTxResult) (err error) {
	if p := CatchPanic(func() { err = r.KVIndexer.IndexBlock(b, res) }); p != nil {
		r.mu.Lock()
		if r.panicked == nil {
			r.panicked = map[int64]interface{}{}
		}
		r.panicked[b.Height] = p
		r.mu.Unlock()
		return fmt.Errorf("verif: IndexBlock panicked at height %d", b.Height)
	}
	if err == nil {
		r.mu.Lock()
		r.ok[b.Height] = true
		r.mu.Unlock()
	}
	return err
}

// indexed: the height was handed to IndexBlock and accepted (or IndexBlock panicked on it: nothing more will happen)
func (r *recIndexer) indexed(h int64) bool {
	r.mu.Lock()
	defer r.mu.Unlock()
	_, p := r.panicked[h]
	return r.ok[h] || p
}

type lifeObs struct {
	emptyAtStart bool
	lastAtStart  int64 // LastIndexedBlock when the life began
	killed       bool
	startFailed  bool
	stalled      string         // non-empty: the service never got where it had to
	indexedOK    map[int64]bool // heights IndexBlock accepted during this life
	served       []servedFail   // node-client failures served during this life
	cursor       int64          // where the documented resume rule puts the cursor
}

// runLife runs one life of the real EVMIndexerService over the (surviving) inner DB.
func (d *driver) runLife(w *world, inner sdkdb.DB, in incSpec) lifeObs {
	earliest := in.Earliest
	t := d.t
	kdb := newKillDB(inner, in.Kill)
	idx := &recIndexer{KVIndexer: w.newIndexer(kdb), ok: map[int64]bool{}}
	last, err := idx.LastIndexedBlock()
	require.NoError(t, err)
	obs := lifeObs{emptyAtStart: last == -1, lastAtStart: last}
	fc := &fakeClient{w: w, latest: in.Start, earliest: earliest, failStatus: in.StartFail == "Status", failSubscribe: in.StartFail == "Subscribe",
		plan: map[int64]*heightPlan{}}
	for h, hp := range in.Plan {
		fc.plan[h] = &heightPlan{Block: append([]bool{}, hp.Block...), Results: append([]bool{}, hp.Results...)}
	}
	svc := evmserver.NewEVMIndexerService(idx, fc)
	svc.SetLogger(cmtlog.NewNopLogger())
	done := make(chan struct{})
	var startErr error
	go func() {
		defer close(done)
		startErr = svc.Start()
	}()
	returned := func() bool {
		select {
		case <-done:
			return true
		default:
			return false
		}
	}
	// where the documented resume rule puts the cursor (used only to know whether work is expected)
	cur := last
	if last == -1 {
		cur = in.Start
	} else if last < earliest {
		cur = earliest - 1
	}
	obs.cursor = cur
	if !waitFor(func() bool { return idx.IsReady() || returned() }) {
		obs.stalled = "never ready"
	}
	if returned() && !idx.IsReady() {
		obs.startFailed = true
		if in.StartFail == "" {
			t.Fatalf("service start failed without an injected failure: %v", startErr)
		}
	} else if in.StartFail != "" {
		d.side.Hit("C14/indexer/service-ignores-start-failure/"+in.StartFail, "OnStart went on although "+in.StartFail+" returned an error", in)
	}
	if !obs.startFailed && obs.stalled == "" && in.End > in.Start && !kdb.isDead() {
		fc.announce(in.End)
		if cur < in.End {
			// quiescence of the live loop: the announced height was handed to IndexBlock (or the process is dead)
			if !waitFor(func() bool { return kdb.isDead() || idx.indexed(in.End) }) {
				obs.stalled = "announced height never indexed"
			}
		}
	}
	_ = svc.Stop()
	select {
	case <-done:
	case <-time.After(2 * time.Second):
		d.side.Count("svc:start_goroutine_still_blocked_after_stop")
	}
	for k, v := range kdb.kinds {
		d.side.Histogram["svc_write_kind:"+k] += v
	}
	obs.killed = kdb.isDead()
	idx.mu.Lock()
	var ph []int64
	for h := range idx.panicked {
		ph = append(ph, h)
	}
	sort.Slice(ph, func(i, j int) bool { return ph[i] < ph[j] })
	for _, h := range ph {
		d.reportPanic(w, h, w.blocks[h-1].res.TxResults, "EVMIndexerService loop", idx.panicked[h])
	}
	obs.indexedOK = map[int64]bool{}
	for h := range idx.ok {
		obs.indexedOK[h] = true
	}
	idx.mu.Unlock()
	obs.served = fc.servedFails()
	return obs
}

// genPlan: for the heights the life is going to fetch, a pattern of failed passes of the loop ('B' = Block(h) fails,
// 'R' = Block(h) answers and BlockResults(h) fails), then success.
func (d *driver) genPlan(r *Rng, cur, start, end int64) map[int64]*heightPlan {
	plan := map[int64]*heightPlan{}
	if !r.Chance(65) {
		return plan
	}
	for h := cur + 1; h <= end; h++ {
		catchUp := h <= start // fetched before the indexer is marked ready: rarer (needs a lagging restart over a non-empty DB), so denser
		if !r.Chance(map[bool]int{true: 70, false: 35}[catchUp]) {
			continue
		}
		var passes int
		switch x := r.Intn(100); {
		case x < 40:
			passes = 1
		case x < 65:
			passes = 2 + r.Intn(8)
		case x < 80:
			passes = 10 // the last number of failures the start-up tolerates
		default:
			passes = 11 + r.Intn(3)
		}
		hp := &heightPlan{}
		mode := r.Intn(3) // 0: only Block fails, 1: only BlockResults fails, 2: mixed
		for i := 0; i < passes; i++ {
			blockFails := mode == 0 || (mode == 2 && r.Chance(50))
			hp.Block = append(hp.Block, blockFails)
			if !blockFails {
				hp.Results = append(hp.Results, true)
			}
		}
		plan[h] = hp
		phase := "live"
		if h <= start {
			phase = "catch-up"
		}
		d.side.Count(fmt.Sprintf("svc_plan:%s:failed_passes:%s", phase, map[bool]string{true: "1", false: map[bool]string{true: "2-10", false: "11+"}[passes <= 10]}[passes == 1]))
	}
	return plan
}

func coqBools(bs []bool) string {
	s := make([]string, len(bs))
	for i, b := range bs {
		s[i] = CqBool(b)
	}
	return CqList(s)
}

func coqPlan(plan map[int64]*heightPlan) string {
	hs := make([]int64, 0, len(plan))
	for h := range plan {
		hs = append(hs, h)
	}
	sort.Slice(hs, func(i, j int) bool { return hs[i] < hs[j] })
	items := make([]string, len(hs))
	for i, h := range hs {
		items[i] = fmt.Sprintf("HP %s %s %s", CqZi(h), coqBools(plan[h].Block), coqBools(plan[h].Results))
	}
	return CqList(items)
}

// heightOfEntry: the block height an index entry belongs to.
func (w *world) heightOfEntry(t *testing.T, e kv) int64 {
	if len(e.k) == 17 && e.k[0] == kvindexer.KeyPrefixTxIndex {
		return int64(binary.BigEndian.Uint64(e.k[1:9]))
	}
	var r evertypes.TxResult
	require.NoError(t, w.c.S.EncodingConfig.Codec.Unmarshal(e.v, &r))
	return r.Height
}

func (d *driver) svcCase(ci int, r *Rng, w *world, views [][]txView, canon string) {
	n := int64(len(w.blocks))
	// first start: the node is at s0 and the index DB is empty
	s0 := int64(0)
	if r.Chance(40) {
		s0 = int64(r.Intn(int(n)))
	}
	var incs []incSpec
	node := s0
	lives := r.Intn(4)
	for j := 0; j < lives; j++ {
		start := node
		if j > 0 && r.Chance(55) { // the node had committed more than the indexer saw when the process died
			start += int64(1 + r.Intn(3))
		}
		if start > n {
			start = n
		}
		end := start + int64(r.Intn(int(n-start)+1))
		kill := r.Intn(int(end-s0) + 2)
		if r.Chance(20) {
			kill = 0
		}
		in := incSpec{Start: start, End: end, Kill: kill}
		if j > 0 && r.Chance(12) { // the node does not answer Status / refuses the subscription: the process fails to start
			in.StartFail = []string{"Status", "Subscribe"}[r.Intn(2)]
			in.End = start
			end = start
		}
		incs = append(incs, in)
		node = end
	}
	start := node
	if lives > 0 && r.Chance(55) {
		start += int64(1 + r.Intn(3))
		if start > n {
			start = n
		}
	}
	incs = append(incs, incSpec{Start: start, End: n, Kill: -1})
	// the node's earliest height: 1 (nothing pruned), 0 (unknown), or a node that prunes while the indexer is down
	switch mode := r.Intn(10); {
	case mode == 0:
		// Earliest = 0 in every life
	case mode <= 7:
		for j := range incs {
			incs[j].Earliest = 1
		}
	default:
		e := int64(1)
		if s0 > 1 {
			e += int64(r.Intn(int(s0)))
		}
		for j := range incs {
			if j > 0 && incs[j].Start > e && r.Chance(60) {
				e += int64(1 + r.Intn(int(incs[j].Start-e)))
			}
			incs[j].Earliest = e
		}
		d.side.Count("svc:node_prunes_between_lives")
	}
	d.svcHistory("CSvc", ci, r, w, views, canon, s0, incs, true)
}

// svcDirected: the history the random schedules reach only now and then, once per chain that allows it: the index holds
// an earlier block with Ethereum txs, the node is far ahead at the restart (catch-up) or announces a burst (live loop),
// and the node client fails for a height that holds Ethereum txs and is followed by another such block.
func (d *driver) svcDirected(ci int, r *Rng, w *world, views [][]txView, canon string) {
	n := int64(len(w.blocks))
	var eh []int64
	for bi, b := range views {
		for _, v := range b {
			if v.admitted() {
				eh = append(eh, int64(bi+1))
				break
			}
		}
	}
	if len(eh) < 3 {
		d.side.Count("svc_directed:chain_has_fewer_than_3_blocks_with_eth_txs")
		return
	}
	b := 1 + r.Intn(len(eh)-2)
	a := r.Intn(b)
	h0, h := eh[a], eh[b]
	passes := []int{1, 1, 2 + r.Intn(8), 10, 11}[r.Intn(5)]
	mode := r.Intn(3)
	hp := &heightPlan{}
	for i := 0; i < passes; i++ {
		blockFails := mode == 0 || (mode == 2 && r.Chance(50))
		hp.Block = append(hp.Block, blockFails)
		if !blockFails {
			hp.Results = append(hp.Results, true)
		}
	}
	first := incSpec{Start: h0 - 1, End: h0, Kill: -1, Earliest: 1}
	second := incSpec{Start: n, End: n, Kill: -1, Earliest: 1, Plan: map[int64]*heightPlan{h: hp}}
	third := incSpec{Start: n, End: n, Kill: -1, Earliest: 1}
	loop := "catch-up"
	switch x := r.Intn(100); {
	case x < 30:
		second.Start = h0 // the node announces the burst h0+1..n to the running service
		loop = "live"
	case x < 50:
		// while the indexer was down the node pruned everything below h: h itself is the first block it still serves
		second.Earliest, third.Earliest = h, h
		second.Plan = nil
		loop, passes = "pruned-restart", 0
	}
	d.side.Count(fmt.Sprintf("svc_directed:%s:failed_passes:%d", loop, passes))
	incs := []incSpec{first, second, third}
	d.svcHistory("CSvc-directed", ci, r, w, views, canon, h0-1, incs, false)
}

// svcHistory runs the lives on the real service and checks them (model correspondence + convergence oracle).
func (d *driver) svcHistory(kind string, ci int, r *Rng, w *world, views [][]txView, canon string, s0 int64, incs []incSpec, drawPlans bool) {
	t := d.t
	if d.stalls >= maxStalls {
		d.side.Count("svc:case_skipped_after_repeated_stalls")
		return
	}
	n := int64(len(w.blocks))
	hasEth := func(h int64) bool {
		for _, v := range views[h-1] {
			if v.admitted() {
				return true
			}
		}
		return false
	}
	inner := sdkdb.NewMemDB()
	var dumps, lifeTerms []string
	var obs []lifeObs
	killedEarly, lagging, anyFailure := false, false, false
	reached := s0
	for j := range incs {
		in := &incs[j]
		// the node-client failures of this life are drawn knowing where the service will resume (the surviving DB tells)
		if drawPlans && in.StartFail == "" {
			last, err := kvindexer.LoadLastBlock(inner)
			require.NoError(t, err)
			cur := last
			if last == -1 {
				cur = in.Start
			} else if last < in.Earliest {
				cur = in.Earliest - 1
			}
			in.Plan = d.genPlan(r.Fork(uint64(100+j)), cur, in.Start, in.End)
		}
		o := d.runLife(w, inner, *in)
		obs = append(obs, o)
		if o.stalled != "" {
			d.stalls++
			waitLimit = 2 * time.Second
			d.side.Hit("C14/indexer/service-stalls", "the service did not get where it had to: "+o.stalled, map[string]interface{}{"chain": ci, "life": j, "lives": incs})
		}
		if j > 0 && in.Start > reached {
			lagging = true
		}
		switch {
		case o.startFailed:
			d.side.Count("svc:life_failed_to_start:" + in.StartFail)
			anyFailure = true
		case o.killed:
			killedEarly = true
			d.side.Count("svc:life_killed")
		default:
			d.side.Count("svc:life_completed")
		}
		pre := map[int64]int{}
		for _, f := range o.served {
			if f.h == 0 {
				continue
			}
			anyFailure = true
			phase := "live"
			if f.h <= in.Start {
				phase = "catch-up"
				pre[f.h]++
			}
			d.side.Count("svc_rpc_failure_served:" + phase + ":" + f.call)
			if f.h < in.End && hasEth(f.h) {
				d.side.Count("svc_rpc_failure_served:" + phase + ":at_a_height_with_eth_txs_that_is_not_the_last_of_the_range")
			}
		}
		for _, c := range pre {
			if c >= 11 {
				d.side.Count("svc:catch_up_height_failed_11_times")
			}
		}
		// what the indexer is known to have reached: the DB content tells (blocks without Ethereum txs leave nothing)
		if !o.killed && !o.startFailed && in.End > reached {
			reached = in.End
		}
		dumps = append(dumps, coqDump(t, w, dumpDB(t, inner)))
		k := in.Kill
		if k < 0 {
			k = 999
		}
		lifeTerms = append(lifeTerms, fmt.Sprintf("SL (Inc %s %s %s) %s %s %s", CqZi(in.Start), CqZi(in.End), CqNat(k), CqZi(in.Earliest), CqBool(in.StartFail != ""), coqPlan(in.Plan)))
	}
	final := dumpDB(t, inner)
	// oracle (property text): an uninterrupted run over the same chain from the same first start, on a node that always answers
	ref := sdkdb.NewMemDB()
	ridx := w.newIndexer(ref)
	for h := s0 + 1; h <= n; h++ {
		d.indexBlock(w, ridx, h, w.blocks[h-1].res.TxResults, "CSvc/uninterrupted-run")
	}
	d.convergenceOracle(ci, w, s0, incs, obs, final, dumpDB(t, ref))
	if incs[len(incs)-1].Earliest > 1 {
		d.side.Count("svc:oracle_checked_on_pruned_node")
	} else {
		d.side.Count("svc:oracle_checked")
	}
	term := fmt.Sprintf("CSvc %s %s %s", coqChain(views), CqList(lifeTerms), CqList(dumps))
	d.add(kind, ci, w, views, term, canon+fmt.Sprint(lifeTerms), killedEarly || lagging || anyFailure, map[string]interface{}{"lives": incs})
}

// convergenceOracle compares the index after the whole history with the uninterrupted one key by key and attributes
// every missing block to its cause.  Only two causes are known defects of the unchanged service, and each is recognised
// by what happened to THAT height, not by what else happened in the run:
//
//	(a) the height was committed while the index DB was empty and no life had got that far: a life that started with an
//	    empty DB found the node already past it (resume = node's latest height);
//	(b) during the catch-up of some life (height <= node height at start) the node client failed 11 times for the height.
//
// Anything else is a violation, named after the node-client failure that was served for the missing height if there was one.
func (d *driver) convergenceOracle(ci int, w *world, s0 int64, incs []incSpec, obs []lifeObs, final, ref []kv) {
	t := d.t
	fin := map[string][]byte{}
	for _, e := range final {
		fin[string(e.k)] = e.v
	}
	refm := map[string]bool{}
	missing := map[int64]int{}
	extra, differ := 0, 0
	// on a node that has pruned its first blocks only the blocks it still serves when the last life runs are owed
	// (earlier ones may or may not have been indexed before they were pruned)
	owedFrom := incs[len(incs)-1].Earliest
	for _, e := range ref {
		refm[string(e.k)] = true
		v, ok := fin[string(e.k)]
		switch {
		case !ok:
			if h := w.heightOfEntry(t, e); h >= owedFrom {
				missing[h]++
			}
		case !bytes.Equal(v, e.v):
			differ++
		}
	}
	for _, e := range final {
		if !refm[string(e.k)] {
			extra++
		}
	}
	where := func(more map[string]interface{}) map[string]interface{} {
		m := map[string]interface{}{"chain": ci, "first_start_height": s0, "lives": incs, "final_keys": len(final), "uninterrupted_keys": len(ref)}
		for k, v := range more {
			m[k] = v
		}
		return m
	}
	if extra > 0 || differ > 0 {
		d.side.Hit(sigNotConverge, fmt.Sprintf("after the crash/restart history the index holds %d entries the uninterrupted run does not have and %d entries with another value", extra, differ), where(nil))
	}
	hs := make([]int64, 0, len(missing))
	for h := range missing {
		hs = append(hs, h)
	}
	sort.Slice(hs, func(i, j int) bool { return hs[i] < hs[j] })
	byCause := map[string][]int64{}
	var order []string
	startFail := ""
	for _, h := range hs {
		cause := ""
		maxDone := s0 // highest height IndexBlock accepted in the lives before the current one
		var lastServed *servedFail
		lastPhase := ""
		for j, o := range obs {
			in := incs[j]
			if o.startFailed {
				if startFail == "" {
					startFail = in.StartFail
				}
				continue
			}
			if cause == "" && j > 0 && o.emptyAtStart && maxDone < h && h <= in.Start {
				cause = sigEmptyRestart
			}
			nPre := 0
			for k := range o.served {
				f := o.served[k]
				if f.h != h {
					continue
				}
				// the LAST failure served for the height is the one after which the service moved on without it
				lastServed = &o.served[k]
				lastPhase = "live"
				if h <= in.Start {
					lastPhase = "catch-up"
				}
				if h <= in.Start {
					nPre++
				}
			}
			if cause == "" && nPre >= 11 {
				cause = sigGiveUp
			}
			if cause == "" && o.lastAtStart != -1 && o.lastAtStart < in.Earliest && h == in.Earliest {
				cause = sigPrunedSkip
			}
			for x := range o.indexedOK {
				if x > maxDone {
					maxDone = x
				}
			}
		}
		if cause == "" {
			switch {
			case lastServed != nil:
				cause = sigRpcPrefix + lastPhase + "-" + lastServed.call
			case startFail != "":
				cause = sigRpcPrefix + startFail
			default:
				cause = sigNotConverge
			}
		}
		if _, seen := byCause[cause]; !seen {
			order = append(order, cause)
		}
		byCause[cause] = append(byCause[cause], h)
	}
	for _, cause := range order {
		var msg string
		switch cause {
		case sigEmptyRestart:
			msg = "restart with an EMPTY index DB while the node was ahead: the service resumed at the node's latest height and never indexed the blocks committed in between"
			d.side.Count("svc:blocks_lost_to_empty_db_restart")
		case sigGiveUp:
			msg = "the node client failed 11 times in a row for a height while the service was catching up: the service gave up on the block and no later restart indexed it"
			d.side.Count("svc:blocks_lost_to_start_up_give_up")
		case sigPrunedSkip:
			msg = "restart on a node that has pruned the blocks after the last indexed one: the service resumed AFTER the node's earliest block instead of AT it, so the first block the node still serves was never indexed"
		case sigNotConverge:
			msg = "crash/restart history does not converge to the index of an uninterrupted run"
		default:
			msg = "after transient failures of the node client the service never indexed a block the uninterrupted run indexed (" + strings.TrimPrefix(cause, sigRpcPrefix) + ")"
		}
		d.side.Hit(cause, fmt.Sprintf("%s; heights whose entries are missing: %v", msg, byCause[cause]), where(map[string]interface{}{"missing_heights": byCause[cause]}))
	}
}

// ------------------------------------------------------------------ CRpc

func addrZ(a common.Address) *big.Int { return new(big.Int).SetBytes(a.Bytes()) }

func logIdx(ls []*ethtypes.Log) string {
	s := make([]string, len(ls))
	for i, l := range ls {
		s[i] = CqZu(uint64(l.Index))
	}
	return CqList(s)
}

func coqReceipt(rc *rpctypes.RPCReceipt) string {
	if rc == nil {
		return "None"
	}
	return fmt.Sprintf("(Some (RV %s %s %s %s %s %s %s %s))", CqZu(uint64(rc.Status)), CqZu(uint64(rc.GasUsed)), CqZu(uint64(rc.CumulativeGasUsed)),
		CqZu(uint64(rc.BlockNumber)), CqZu(uint64(rc.TransactionIndex)), CqZ(addrZ(rc.From)), logIdx(rc.Logs), CqBool(rc.ContractAddress != nil))
}

func coqTx(tx *rpctypes.RPCTransaction) string {
	if tx == nil || tx.BlockNumber == nil || tx.TransactionIndex == nil {
		return "None"
	}
	return fmt.Sprintf("(Some (TV %s %s %s %s))", CqZ(tx.BlockNumber.ToInt()), CqZu(uint64(*tx.TransactionIndex)), cqHash(tx.Hash), CqZ(addrZ(tx.From)))
}

type expRc struct {
	status, gas, cum uint64
	logs             []*ethtypes.Log
	logStart         *uint64
	contract         bool
}

func (d *driver) rpcCase(ci int, r *Rng, w *world, views [][]txView, canon string, interesting bool) {
	n := int64(len(w.blocks))
	db := sdkdb.NewMemDB()
	idx := w.newIndexer(db)
	for h := int64(1); h <= n; h++ {
		d.indexBlock(w, idx, h, w.blocks[h-1].res.TxResults, "CRpc")
	}
	be := w.backend(idx)
	hit := func(what, msg string, c interface{}) {
		d.side.Hit("C14/indexer/rpc-"+what, msg, c)
	}
	guard := func(what string, f func()) {
		if p := CatchPanic(f); p != nil {
			hit(what+"-panic", fmt.Sprint(p), map[string]interface{}{"chain": ci})
		}
	}

	// ---- expectations from the consensus results (property text)
	type pos struct {
		height int64
		ti, ei int
		v      txView
		exp    expRc
	}
	admitted := map[common.Hash]pos{}
	perBlock := make([][]pos, n)
	for bi, b := range views {
		ei := 0
		var run uint64
		for ti, v := range b {
			if !v.admitted() {
				continue
			}
			var e expRc
			if rc := v.firstRc(); v.CodeOK && rc != nil {
				e = expRc{status: rc.Status, gas: rc.Gas, cum: rc.Cum, logs: rc.logs, logStart: rc.LogStart, contract: rc.Contract}
				run += rc.Gas
			} else {
				run += v.Gas
				e = expRc{status: 0, gas: v.Gas, cum: run}
			}
			p := pos{int64(bi + 1), ti, ei, v, e}
			admitted[v.Hash] = p
			perBlock[bi] = append(perBlock[bi], p)
			ei++
		}
	}

	var rcTerms, txTerms, txIdxTerms, blkTerms, cntTerms, logTerms []string
	for _, h := range allHashes(w, r) {
		h := h
		var rc *rpctypes.RPCReceipt
		var tx *rpctypes.RPCTransaction
		var e1, e2 error
		guard("receipt", func() { rc, e1 = be.GetTransactionReceipt(h) })
		guard("tx-by-hash", func() { tx, e2 = be.GetTransactionByHash(h) })
		where := map[string]interface{}{"chain": ci, "hash": h.Hex()}
		if e1 != nil {
			hit("receipt-error", e1.Error(), where)
		}
		if e2 != nil {
			hit("tx-by-hash-error", e2.Error(), where)
		}
		rcTerms = append(rcTerms, fmt.Sprintf("(%s, %s)", cqHash(h), coqReceipt(rc)))
		txTerms = append(txTerms, fmt.Sprintf("(%s, %s)", cqHash(h), coqTx(tx)))
		p, isAdm := admitted[h]
		if !isAdm {
			if rc != nil {
				hit("receipt-for-unknown-or-never-admitted-hash", "a receipt is served", where)
			}
			if tx != nil && tx.BlockNumber != nil {
				hit("tx-for-unknown-or-never-admitted-hash", "a mined transaction is served", where)
			}
			continue
		}
		where["height"], where["tx"], where["eth_index"], where["class"] = p.height, p.ti, p.ei, p.v.class()
		if rc == nil {
			hit("receipt-missing", "no receipt for an admitted Ethereum tx", where)
		} else {
			chk := func(field string, got, want uint64) {
				if got != want {
					hit("receipt-"+field, fmt.Sprintf("%s: RPC %d, consensus %d", field, got, want), where)
				}
			}
			chk("status", uint64(rc.Status), p.exp.status)
			chk("gas-used", uint64(rc.GasUsed), p.exp.gas)
			chk("cumulative-gas", uint64(rc.CumulativeGasUsed), p.exp.cum)
			chk("block-number", uint64(rc.BlockNumber), uint64(p.height))
			chk("tx-index", uint64(rc.TransactionIndex), uint64(p.ei))
			if rc.From != p.v.Signer {
				hit("receipt-sender", "from is not the signer", where)
			}
			if rc.TransactionHash != h || rc.BlockHash != common.BytesToHash(w.blocks[p.height-1].hash) {
				hit("receipt-hashes", "transaction or block hash differs", where)
			}
			if (rc.ContractAddress != nil) != p.exp.contract {
				hit("receipt-contract-address", "contract address presence differs from consensus", where)
			}
			if !sameLogs(rc.Logs, p.exp, h, uint64(p.height), uint64(p.ei)) {
				hit("receipt-logs", "logs differ from the consensus receipt", where)
			}
		}
		if tx == nil || tx.BlockNumber == nil || tx.TransactionIndex == nil {
			hit("tx-by-hash-missing", "admitted Ethereum tx not served as mined", where)
		} else if tx.BlockNumber.ToInt().Int64() != p.height || uint64(*tx.TransactionIndex) != uint64(p.ei) || tx.Hash != h || tx.From != p.v.Signer || uint64(tx.Nonce) != p.v.Nonce {
			hit("tx-by-hash-fields", "block / index / hash / sender / nonce differ from the block position", where)
		}
	}

	for hgt := int64(1); hgt <= n+1; hgt++ {
		hgt := hgt
		var exp []pos
		var bhash common.Hash
		if hgt <= n {
			exp = perBlock[hgt-1]
			bhash = common.BytesToHash(w.blocks[hgt-1].hash)
		}
		where := map[string]interface{}{"chain": ci, "height": hgt}
		// by (block, index), in range and out of range
		for i := 0; i < len(exp)+2; i++ {
			var tx, tx2 *rpctypes.RPCTransaction
			var err error
			guard("tx-by-index", func() { tx, err = be.GetTransactionByBlockNumberAndIndex(rpctypes.BlockNumber(hgt), hexutil.Uint(i)) })
			if err != nil {
				hit("tx-by-index-error", err.Error(), where)
			}
			txIdxTerms = append(txIdxTerms, fmt.Sprintf("(%s, %s, %s)", CqZi(hgt), CqZi(int64(i)), coqTx(tx)))
			if i < len(exp) {
				if tx == nil || tx.TransactionIndex == nil || tx.Hash != exp[i].v.Hash || uint64(*tx.TransactionIndex) != uint64(i) || tx.BlockNumber.ToInt().Int64() != hgt || tx.From != exp[i].v.Signer {
					hit("tx-by-index-fields", fmt.Sprintf("index %d does not serve the Ethereum tx at that position", i), where)
				}
			} else if tx != nil {
				hit("tx-by-index-out-of-range", fmt.Sprintf("index %d past the end is answered", i), where)
			}
			if hgt <= n {
				guard("tx-by-hash-index", func() { tx2, _ = be.GetTransactionByBlockHashAndIndex(bhash, hexutil.Uint(i)) })
				if coqTx(tx) != coqTx(tx2) {
					hit("tx-by-blockhash-vs-number", "lookup by block hash and by block number differ", where)
				}
			}
		}
		// block view
		var blk, blk2, blkFull map[string]interface{}
		var err error
		guard("block", func() { blk, err = be.GetBlockByNumber(rpctypes.BlockNumber(hgt), false) })
		switch {
		case err != nil:
			blkTerms = append(blkTerms, fmt.Sprintf("(%s, BErr)", CqZi(hgt)))
			hit("block-error", err.Error(), where)
		case blk == nil:
			blkTerms = append(blkTerms, fmt.Sprintf("(%s, BNone)", CqZi(hgt)))
			if hgt <= n {
				hit("block-missing", "existing block not served", where)
			}
		default:
			txs, _ := blk["transactions"].([]interface{})
			hs := make([]string, len(txs))
			same := len(txs) == len(exp)
			for i, x := range txs {
				hh, _ := x.(common.Hash)
				hs[i] = cqHash(hh)
				if same && hh != exp[i].v.Hash {
					same = false
				}
			}
			gu := blk["gasUsed"].(*hexutil.Big).ToInt()
			blkTerms = append(blkTerms, fmt.Sprintf("(%s, BSome %s %s)", CqZi(hgt), CqList(hs), CqZ(gu)))
			if hgt > n {
				hit("block-beyond-head", "a block above the head is served", where)
			}
			if !same {
				hit("block-transactions", "transaction list is not the admitted Ethereum txs in block order", where)
			}
			var want uint64
			if len(exp) > 0 {
				want = exp[len(exp)-1].exp.cum
				// the last consensus cumulative value is the block total when every earlier value was consistent (checked above)
			}
			if gu.Uint64() != want {
				hit("block-gas-used", fmt.Sprintf("RPC %d, consensus %d", gu.Uint64(), want), where)
			}
			guard("block-full", func() { blkFull, _ = be.GetBlockByNumber(rpctypes.BlockNumber(hgt), true) })
			ftxs, _ := blkFull["transactions"].([]interface{})
			okFull := len(ftxs) == len(exp)
			for i, x := range ftxs {
				rt, _ := x.(*rpctypes.RPCTransaction)
				if !okFull || rt == nil || rt.TransactionIndex == nil || uint64(*rt.TransactionIndex) != uint64(i) || rt.Hash != exp[i].v.Hash || rt.From != exp[i].v.Signer {
					okFull = false
				}
			}
			if !okFull {
				hit("block-full-transactions", "full transaction objects do not carry the block positions", where)
			}
			guard("block-by-hash", func() { blk2, _ = be.GetBlockByHash(bhash, false) })
			if fmt.Sprint(blk2["transactions"]) != fmt.Sprint(blk["transactions"]) || fmt.Sprint(blk2["gasUsed"]) != fmt.Sprint(blk["gasUsed"]) {
				hit("block-by-hash-vs-number", "block by hash and by number differ", where)
			}
		}
		// tx count
		var cnt *hexutil.Uint
		guard("tx-count", func() { cnt = be.GetBlockTransactionCountByNumber(rpctypes.BlockNumber(hgt)) })
		if cnt == nil {
			cntTerms = append(cntTerms, fmt.Sprintf("(%s, None)", CqZi(hgt)))
			if hgt <= n {
				hit("tx-count-missing", "no count for an existing block", where)
			}
		} else {
			cntTerms = append(cntTerms, fmt.Sprintf("(%s, Some %s)", CqZi(hgt), CqZu(uint64(*cnt))))
			if int(*cnt) != len(exp) {
				hit("tx-count", fmt.Sprintf("RPC %d, admitted Ethereum txs %d", *cnt, len(exp)), where)
			}
		}
		// logs
		var logs [][]*ethtypes.Log
		guard("logs", func() { logs, err = be.GetLogsByHeight(&hgt) })
		if err != nil || hgt > n {
			logTerms = append(logTerms, fmt.Sprintf("(%s, None)", CqZi(hgt)))
			if hgt <= n {
				hit("logs-error", fmt.Sprint(err), where)
			}
		} else {
			ls := make([]string, len(logs))
			for i, l := range logs {
				ls[i] = logIdx(l)
			}
			logTerms = append(logTerms, fmt.Sprintf("(%s, Some %s)", CqZi(hgt), CqList(ls)))
			var wantLogs []pos
			for _, p := range exp {
				if p.v.CodeOK {
					wantLogs = append(wantLogs, p)
				}
			}
			ok := len(logs) == len(wantLogs)
			for i := 0; ok && i < len(logs); i++ {
				ok = sameLogs(logs[i], wantLogs[i].exp, wantLogs[i].v.Hash, uint64(hgt), uint64(wantLogs[i].ei))
			}
			if !ok {
				hit("logs", "block logs differ from the logs of the consensus receipts", where)
			}
			var logs2 [][]*ethtypes.Log
			guard("logs-by-hash", func() { logs2, _ = be.GetLogs(bhash) })
			ok2 := len(logs2) == len(wantLogs)
			for i := 0; ok2 && i < len(logs2); i++ {
				ok2 = sameLogs(logs2[i], wantLogs[i].exp, wantLogs[i].v.Hash, uint64(hgt), uint64(wantLogs[i].ei))
			}
			if !ok2 {
				hit("logs-by-hash", "block logs served by block hash differ from the logs of the consensus receipts", where)
			}
		}
	}
	term := fmt.Sprintf("CRpc %s %s %s %s %s %s %s", coqChain(views), CqList(rcTerms), CqList(txTerms), CqList(txIdxTerms), CqList(blkTerms), CqList(cntTerms), CqList(logTerms))
	d.add("CRpc", ci, w, views, term, canon, interesting, nil)
}

// sameLogs: address, topics, data as in the consensus receipt; positions as consensus assigned them
// (index = logIdx attribute + i), and the inclusion fields name this transaction.
func sameLogs(got []*ethtypes.Log, e expRc, txHash common.Hash, height, ei uint64) bool {
	if len(got) != len(e.logs) {
		return false
	}
	for i, l := range got {
		w := e.logs[i]
		if l.Address != w.Address || !bytes.Equal(l.Data, w.Data) || len(l.Topics) != len(w.Topics) {
			return false
		}
		for j := range l.Topics {
			if l.Topics[j] != w.Topics[j] {
				return false
			}
		}
		wantIdx := uint64(0)
		if e.logStart != nil {
			wantIdx = *e.logStart + uint64(i)
		}
		if uint64(l.Index) != wantIdx || l.TxHash != txHash || l.BlockNumber != height || uint64(l.TxIndex) != ei {
			return false
		}
	}
	return true
}

var _ = sort.Strings
var _ = rpcbackend.NewBackend
