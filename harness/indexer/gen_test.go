package indexer

// Generation of harness chains: blocks of mixed Ethereum / Cosmos transactions with every outcome class the
// indexer and the RPC distinguish (executed ok, executed with VM error, admitted but failed in the state
// transition, admitted but exceeding the block gas limit, rejected by the ante handler, dropped before the ante
// handler, undecodable bytes, well-formed Ethereum-lane wrappers around an undecodable payload, Cosmos transactions),
// executed by the real application.

import (
	"math/big"

	sdkmath "cosmossdk.io/math"
	sdk "github.com/cosmos/cosmos-sdk/types"
	codectypes "github.com/cosmos/cosmos-sdk/codec/types"
	authtx "github.com/cosmos/cosmos-sdk/x/auth/tx"
	banktypes "github.com/cosmos/cosmos-sdk/x/bank/types"
	"github.com/ethereum/go-ethereum/common"
	ethtypes "github.com/ethereum/go-ethereum/core/types"
	"github.com/stretchr/testify/require"

	"github.com/EscanBE/evermint/v12/crypto/ethsecp256k1"
	itu "github.com/EscanBE/evermint/v12/integration_test_util"
	itutiltypes "github.com/EscanBE/evermint/v12/integration_test_util/types"
	evmtypes "github.com/EscanBE/evermint/v12/x/evm/types"

	. "verifharness/hx"
)

// runtime code of the `Store` contract (hand assembled):
//   calldatasize == 1 -> SELFDESTRUCT(caller);  calldatasize == 2 -> REVERT;
//   otherwise for every 64-byte (key, value) pair: SSTORE(key, value); LOG1(topic = key, data = value)
var storeRuntime = common.FromHex("0x366001146034573660021460375760005b8036111560325780602001358135808290559060005260206000a16040016010565b005b33ff5b60006000fd")

func storeInitCode() []byte {
	rt := storeRuntime
	init := []byte{0x60, byte(len(rt)), 0x80, 0x60, 0x0b, 0x60, 0x00, 0x39, 0x60, 0x00, 0xf3}
	return append(init, rt...)
}

type txKind int

const (
	kTransfer txKind = iota
	kDynTransfer
	kStore
	kRevert
	kOutOfGas
	kDeploy
	kCoreFail
	kIntrinsicLow
	kAnteNonceHigh
	kAnteReplay
	kAnteNoAccount
	kCosmosOK
	kCosmosFail
	kGarbage
	kEthLaneBad
	nKinds
)

var kindNames = []string{"eth_transfer", "eth_dynfee_transfer", "eth_store_logs", "eth_revert", "eth_out_of_gas", "eth_deploy",
	"eth_core_fail", "eth_intrinsic_gas_low", "eth_ante_nonce_high", "eth_ante_replay", "eth_ante_no_account", "cosmos_ok", "cosmos_fail", "garbage", "eth_lane_bad"}

type gen struct {
	w        *world
	c        *Chain
	r        *Rng
	store    common.Address
	pending  map[common.Address]uint64
	admitted [][]byte // raw bytes of earlier admitted Ethereum txs (for replays)
	kinds    map[string]int
}

func newGen(w *world, r *Rng) *gen {
	return &gen{w: w, c: w.c, r: r, pending: map[common.Address]uint64{}, kinds: map[string]int{}}
}

// deploy deploys the Store contract in a block of its own.
func (g *gen) deploy() *blk {
	w := g.w
	dep := w.c.S.WalletAccounts.Number(5)
	n := w.c.Nonce(w.c.QueryCtx(), dep.GetEthAddress())
	raw, _, err := w.c.EthTxBytes(dep, &ethtypes.LegacyTx{Nonce: n, GasPrice: g.price(), Gas: 300000, Data: storeInitCode()})
	require.NoError(w.t, err)
	b := w.runBlock([][]byte{raw})
	require.Equal(w.t, uint32(0), b.res.TxResults[0].Code, b.res.TxResults[0].Log)
	g.store = dep.ComputeContractAddress(n)
	require.NotEmpty(w.t, w.c.App.EvmKeeper.GetCode(w.c.QueryCtx(), w.c.App.EvmKeeper.GetCodeHash(w.c.QueryCtx(), g.store.Bytes())))
	g.admitted = append(g.admitted, raw)
	g.kinds["eth_deploy"]++
	return b
}

// quiet executes a block without any Ethereum transaction (empty, or Cosmos transactions / garbage only).
func (g *gen) quiet() *blk {
	g.pending = map[common.Address]uint64{}
	var txs [][]byte
	for i, n := 0, g.r.Intn(3); i < n; i++ {
		k := kCosmosOK + txKind(g.r.Intn(3))
		g.kinds[kindNames[k]]++
		txs = append(txs, g.tx(k))
	}
	return g.w.runBlock(txs)
}

func (g *gen) price() *big.Int {
	return new(big.Int).Mul(big.NewInt(2), g.c.BaseFee(g.c.QueryCtx()))
}

func (g *gen) wallet() *itutiltypes.TestAccount { return g.c.S.WalletAccounts.Number(1 + g.r.Intn(4)) }

func (g *gen) nonce(a *itutiltypes.TestAccount) uint64 {
	addr := a.GetEthAddress()
	if _, ok := g.pending[addr]; !ok {
		g.pending[addr] = g.c.Nonce(g.c.QueryCtx(), addr)
	}
	return g.pending[addr]
}

func (g *gen) storeData(pairs int) []byte {
	var d []byte
	for i := 0; i < pairs; i++ {
		k := common.BigToHash(big.NewInt(int64(g.r.Intn(6))))
		v := common.BigToHash(big.NewInt(int64(g.r.Intn(3)))) // zero values included
		d = append(d, k.Bytes()...)
		d = append(d, v.Bytes()...)
	}
	return d
}

// tx builds one transaction of the given kind; admitted says whether the ante handler will admit it
// (if the block gas meter still has room).
func (g *gen) tx(k txKind) []byte {
	c := g.c
	gp := g.price()
	a := g.wallet()
	to := g.c.S.WalletAccounts.Number(1 + g.r.Intn(5)).GetEthAddress()
	mk := func(acct *itutiltypes.TestAccount, td ethtypes.TxData, admitted bool) []byte {
		raw, _, err := c.EthTxBytes(acct, td)
		require.NoError(g.w.t, err)
		if admitted {
			g.pending[acct.GetEthAddress()]++
			g.admitted = append(g.admitted, raw)
		}
		return raw
	}
	switch k {
	case kTransfer:
		return mk(a, &ethtypes.LegacyTx{Nonce: g.nonce(a), GasPrice: gp, Gas: 21000 + uint64(g.r.Intn(3))*1000, To: &to, Value: big.NewInt(int64(1 + g.r.Intn(5)))}, true)
	case kDynTransfer:
		return mk(a, &ethtypes.DynamicFeeTx{ChainID: big.NewInt(itu.IntegrationTestChain1.EvmChainId), Nonce: g.nonce(a), GasTipCap: big.NewInt(1), GasFeeCap: gp,
			Gas: 21000 + uint64(g.r.Intn(3))*1000, To: &to, Value: big.NewInt(int64(1 + g.r.Intn(5)))}, true)
	case kStore:
		p := 1 + g.r.Intn(3)
		return mk(a, &ethtypes.LegacyTx{Nonce: g.nonce(a), GasPrice: gp, Gas: 40000 + uint64(p)*30000, To: &g.store, Data: g.storeData(p)}, true)
	case kRevert:
		return mk(a, &ethtypes.LegacyTx{Nonce: g.nonce(a), GasPrice: gp, Gas: 50000, To: &g.store, Data: []byte{1, 2}}, true)
	case kOutOfGas:
		return mk(a, &ethtypes.LegacyTx{Nonce: g.nonce(a), GasPrice: gp, Gas: 26000, To: &g.store, Data: g.storeData(1)}, true)
	case kDeploy:
		return mk(a, &ethtypes.LegacyTx{Nonce: g.nonce(a), GasPrice: gp, Gas: 200000, Data: storeInitCode()}, true)
	case kCoreFail:
		huge := new(big.Int).Mul(big.NewInt(1000), big.NewInt(1e18))
		return mk(a, &ethtypes.LegacyTx{Nonce: g.nonce(a), GasPrice: gp, Gas: 21000 + uint64(g.r.Intn(20))*1000, To: &to, Value: huge}, true)
	case kIntrinsicLow:
		return mk(a, &ethtypes.LegacyTx{Nonce: g.nonce(a), GasPrice: gp, Gas: 21000, To: &g.store, Data: g.storeData(1)}, true)
	case kAnteNonceHigh:
		return mk(a, &ethtypes.LegacyTx{Nonce: g.nonce(a) + 3 + uint64(g.r.Intn(5)), GasPrice: gp, Gas: 21000, To: &to, Value: big.NewInt(1)}, false)
	case kAnteReplay:
		return g.admitted[g.r.Intn(len(g.admitted))]
	case kAnteNoAccount:
		// signed by a key whose account does not exist
		return mk(g.ghost(), &ethtypes.LegacyTx{Nonce: 0, GasPrice: gp, Gas: 21000, To: &to, Value: big.NewInt(0)}, false)
	case kCosmosOK, kCosmosFail:
		amt := int64(1 + g.r.Intn(5))
		if k == kCosmosFail {
			amt = 0
		}
		coins := sdk.NewCoins(sdk.NewCoin(c.Denom(), sdkmath.NewInt(amt)))
		if k == kCosmosFail {
			coins = sdk.NewCoins(sdk.NewCoin(c.Denom(), sdkmath.NewIntFromBigInt(new(big.Int).Mul(big.NewInt(1000), big.NewInt(1e18)))))
		}
		// Cosmos txs use the account sequence as well: one Cosmos tx per sender and block keeps sequences simple
		msg := banktypes.NewMsgSend(a.GetCosmosAddress(), sdk.AccAddress(to.Bytes()), coins)
		raw, err := g.cosmosTx(a, msg)
		require.NoError(g.w.t, err)
		return raw
	case kEthLaneBad:
		return g.ethLaneBad(a, to, gp)
	default:
		n := 1 + g.r.Intn(40)
		b := make([]byte, n)
		for i := range b {
			b[i] = byte(g.r.U64())
		}
		return b
	}
}

// ethLaneBad: a WELL-FORMED Ethereum-lane transaction (it decodes as an sdk.Tx; exactly one MsgEthereumTx; the only
// extension option is ExtensionOptionsEthereumTx) whose embedded payload never passed any validation: MarshalledTx
// that is no Ethereum transaction (random bytes, a truncated / padded / empty / huge one, an unknown typed envelope),
// or a good payload under a `From` that is not its signer / not an address. CheckTx refuses such bytes, but a
// proposer can put them into a block (NoOp ProcessProposal); FinalizeBlock answers with a failed result without
// any event. MsgEthereumTx.AsTransaction() PANICS on the first group.
func (g *gen) ethLaneBad(a *itutiltypes.TestAccount, to common.Address, gp *big.Int) []byte {
	t := g.w.t
	c := g.c
	_, good, err := c.EthTxBytes(a, &ethtypes.LegacyTx{Nonce: g.nonce(a), GasPrice: gp, Gas: 21000, To: &to, Value: big.NewInt(1)})
	require.NoError(t, err)
	payload := append([]byte{}, good.MarshalledTx...)
	from := good.From
	rnd := func(n int) []byte {
		b := make([]byte, n)
		for i := range b {
			b[i] = byte(g.r.U64())
		}
		return b
	}
	var sub string
	switch g.r.Intn(9) {
	case 0:
		sub, payload = "payload_random_bytes", rnd(1+g.r.Intn(60))
	case 1:
		sub, payload = "payload_4_bytes", []byte{0xde, 0xad, 0xbe, 0xef}
	case 2:
		sub, payload = "payload_truncated", payload[:1+g.r.Intn(len(payload)-1)]
	case 3:
		sub, payload = "payload_empty", nil
	case 4:
		// an RLP string header announcing far more than follows, then 100-300 kB
		sub, payload = "payload_huge", append([]byte{0xfa, 0xff, 0xff, 0xff}, rnd(100_000+g.r.Intn(200_000))...)
	case 5:
		sub, payload = "payload_trailing_bytes", append(payload, rnd(1+g.r.Intn(4))...)
	case 6:
		sub, payload = "payload_unknown_tx_type", append([]byte{byte(3 + g.r.Intn(0x7c))}, payload...)
	case 7:
		sub, from = "from_not_the_signer", sdk.AccAddress(to.Bytes()).String()
		if to == a.GetEthAddress() {
			from = sdk.AccAddress(g.c.S.WalletAccounts.Number(5).GetEthAddress().Bytes()).String()
		}
	default:
		sub, from = "from_not_an_address", []string{"", "0x" + common.Bytes2Hex(a.GetEthAddress().Bytes()), "evm1qqqq"}[g.r.Intn(3)]
	}
	g.kinds["eth_lane_bad:"+sub]++
	msg := &evmtypes.MsgEthereumTx{From: from, MarshalledTx: payload}
	txb := c.S.EncodingConfig.TxConfig.NewTxBuilder()
	require.NoError(t, txb.SetMsgs(msg))
	opt, err := codectypes.NewAnyWithValue(&evmtypes.ExtensionOptionsEthereumTx{})
	require.NoError(t, err)
	txb.(authtx.ExtensionOptionsTxBuilder).SetExtensionOptions(opt)
	txb.SetGasLimit(21000)
	if g.r.Bool() {
		txb.SetFeeAmount(sdk.NewCoins(sdk.NewCoin(c.Denom(), sdkmath.NewIntFromBigInt(new(big.Int).Mul(gp, big.NewInt(21000))))))
	}
	raw, err := c.S.EncodingConfig.TxConfig.TxEncoder()(txb.GetTx())
	require.NoError(t, err)
	dec, err := c.S.EncodingConfig.TxConfig.TxDecoder()(raw)
	require.NoError(t, err, "the wrapper must decode: only the embedded payload / From is malformed")
	require.Len(t, dec.GetMsgs(), 1)
	return raw
}

// ghost returns a key whose account does not exist on chain (deterministic from the case's PRNG).
func (g *gen) ghost() *itutiltypes.TestAccount {
	key := make([]byte, 32)
	for i := range key {
		key[i] = byte(g.r.U64())
	}
	key[0] = 1
	return itu.NewTestAccount(g.w.t, &ethsecp256k1.PrivKey{Key: key})
}

// cosmosTx signs msgs with the sender's pending sequence (earlier txs of the same block included).
func (g *gen) cosmosTx(a *itutiltypes.TestAccount, msgs ...sdk.Msg) ([]byte, error) {
	c := g.c
	ctx := c.QueryCtx()
	acc := c.App.AccountKeeper.GetAccount(ctx, a.GetCosmosAddress())
	if err := acc.SetSequence(g.nonce(a)); err != nil {
		return nil, err
	}
	c.App.AccountKeeper.SetAccount(ctx, acc)
	gp := sdkmath.NewIntFromBigInt(g.price())
	tx, err := c.S.PrepareCosmosTx(ctx, a, itu.CosmosTxArgs{Gas: 200000, GasPrice: &gp, Msgs: msgs})
	if err != nil {
		return nil, err
	}
	g.pending[a.GetEthAddress()]++ // the Cosmos ante handler consumes the sequence when it admits the tx
	return c.S.EncodingConfig.TxConfig.TxEncoder()(tx)
}

// block generates and executes one block.
func (g *gen) block() *blk {
	g.pending = map[common.Address]uint64{}
	n := 0
	switch g.r.Intn(6) {
	case 0:
		n = 0
	case 1:
		n = 1
	default:
		n = 2 + g.r.Intn(6)
	}
	var txs [][]byte
	onlyCosmos := g.r.Chance(10)
	for i := 0; i < n; i++ {
		var k txKind
		switch {
		case onlyCosmos:
			k = kCosmosOK + txKind(g.r.Intn(3))
		case g.r.Chance(10):
			k = kEthLaneBad
		case g.r.Chance(45):
			k = txKind(g.r.Intn(int(kDeploy) + 1)) // executed kinds
		default:
			k = txKind(g.r.Intn(int(nKinds)))
		}
		g.kinds[kindNames[k]]++
		txs = append(txs, g.tx(k))
	}
	// sometimes a small block gas limit, so that some transaction exceeds it and the rest is dropped before the ante handler
	small := n >= 2 && g.r.Chance(35)
	if small {
		g.setMaxGas(int64(50000 + g.r.Intn(8)*15000))
	}
	b := g.w.runBlock(txs)
	if small {
		g.setMaxGas(40_000_000)
	}
	return b
}

func (g *gen) setMaxGas(mg int64) {
	ctx := g.c.Ctx()
	cp, err := g.c.App.ConsensusParamsKeeper.ParamsStore.Get(ctx)
	require.NoError(g.w.t, err)
	cp.Block.MaxGas = mg
	require.NoError(g.w.t, g.c.App.ConsensusParamsKeeper.ParamsStore.Set(ctx, cp))
}
