package registry

// Driver `registry` (C17): histories of deploy-erc20 / deploy-staking / update-params messages (through transactions,
// through the message router as governance does, and through the message server directly), the exported keeper
// functions an upgrade handler would use (Disabled toggle, SetCustomPrecompiledContractMeta), changes of the bank
// supply, and the real InitGenesis with every combination of the two cpc genesis flags (on a wiped store, and as a
// real InitChain of a fresh application).  After EVERY step the whole registry is read raw from the store (metadata,
// denom index, params, module sequence); at probe points EVM calls go to every candidate address in four execution
// modes (FinalizeBlock, CheckTx, Simulate, gRPC EthCall).  The Coq model (Model/Registry.v) replays each case; the Go
// oracle below checks the property text directly.
//
// Denominations: the bank module may know a denomination by its metadata without any coin of it existing (IBC voucher
// sent back, token listed in the bank genesis and never minted).  The registry's rule is about SUPPLY at the time of the
// deploy message; the driver keeps both attributes independent (setBankMeta / setSupply), the generator aims at every
// combination, and scripted steps move the supply of one denomination to / from zero between two deploy attempts.
//
// Scale: NewEVM wires "all stored contracts"; the last case(s) of every run hold more than 100 of them (the SDK's
// default page size) and probe the contracts at the end of the store's address order.

import (
	"bytes"
	"context"
	"encoding/json"
	"fmt"
	"math/big"
	"sort"
	"strings"
	"testing"
	"time"

	"cosmossdk.io/log"
	storetypes "cosmossdk.io/store/types"
	abci "github.com/cometbft/cometbft/abci/types"
	tmproto "github.com/cometbft/cometbft/proto/tendermint/types"
	sdkdb "github.com/cosmos/cosmos-db"
	"github.com/cosmos/cosmos-sdk/baseapp"
	simtestutil "github.com/cosmos/cosmos-sdk/testutil/sims"
	sdk "github.com/cosmos/cosmos-sdk/types"
	"github.com/cosmos/cosmos-sdk/types/query"
	authtypes "github.com/cosmos/cosmos-sdk/x/auth/types"
	banktypes "github.com/cosmos/cosmos-sdk/x/bank/types"
	govtypes "github.com/cosmos/cosmos-sdk/x/gov/types"
	"github.com/cosmos/gogoproto/proto"
	"github.com/ethereum/go-ethereum/accounts/abi"
	"github.com/ethereum/go-ethereum/common"
	"github.com/ethereum/go-ethereum/common/hexutil"
	"github.com/ethereum/go-ethereum/core"
	ethtypes "github.com/ethereum/go-ethereum/core/types"
	corevm "github.com/ethereum/go-ethereum/core/vm"
	"github.com/ethereum/go-ethereum/crypto"
	"github.com/stretchr/testify/require"

	sdkmath "cosmossdk.io/math"

	chainapp "github.com/EscanBE/evermint/v12/app"
	"github.com/EscanBE/evermint/v12/constants"
	itutiltypes "github.com/EscanBE/evermint/v12/integration_test_util/types"
	"github.com/EscanBE/evermint/v12/x/cpc"
	cpckeeper "github.com/EscanBE/evermint/v12/x/cpc/keeper"
	cpctypes "github.com/EscanBE/evermint/v12/x/cpc/types"
	evmkeeper "github.com/EscanBE/evermint/v12/x/evm/keeper"
	evmtypes "github.com/EscanBE/evermint/v12/x/evm/types"
	evmvm "github.com/EscanBE/evermint/v12/x/evm/vm"

	. "verifharness/hx"
)

// ------------------------------------------------------------------ signatures of the oracle

const (
	sigDisabledRuns    = "C17/registry/disabled-contract-executed"
	sigEnabledDead     = "C17/registry/enabled-contract-not-callable"
	sigUnregisteredRun = "C17/registry/unregistered-address-callable"
	sigModeDiffers     = "C17/registry/modes-disagree"
	sigAddrKey         = "C17/registry/address-not-unique-or-key-mismatch"
	sigIndexDangling   = "C17/registry/denom-index-entry-without-matching-erc20-metadata"
	sigErc20Unindexed  = "C17/registry/erc20-metadata-without-index-entry"
	sigTypeChanged     = "C17/registry/contract-type-changed-or-contract-removed"
	sigRecordChanged   = "C17/registry/metadata-changed-by-message"
	sigVersionDown     = "C17/registry/protocol-version-decreased"
	sigDeployNoWl      = "C17/registry/deployed-by-non-whitelisted"
	sigDeployZero      = "C17/registry/erc20-deployed-for-denom-without-supply"
	sigParamsNoGov     = "C17/registry/params-changed-without-governance-authority"
	sigIndexChanged    = "C17/registry/denom-index-entry-changed-or-removed"
	sigQueryDiffers    = "C17/registry/grpc-query-disagrees-with-store"
	sigGenesisFlags    = "C17/registry/genesis-flags-not-honoured"
	sigInvalidStored   = "C17/registry/stored-metadata-invalid"
	sigParamsNotAsSet  = "C17/registry/params-not-as-governance-set"
)

// ------------------------------------------------------------------ encoding of strings as numbers (injective; "" = 1)

// cz emits a Z literal; large values (addresses, encoded strings) in hexadecimal, which coqc reads several times faster
func cz(z *big.Int) string {
	if z.Sign() >= 0 && z.BitLen() > 32 {
		return "0x" + z.Text(16) + "%Z"
	}
	return CqZ(z)
}

func enc(s string) *big.Int { return new(big.Int).SetBytes(append([]byte{1}, []byte(s)...)) }
func encB(b []byte) *big.Int {
	return new(big.Int).SetBytes(append([]byte{1}, b...))
}
func addrZ(a common.Address) *big.Int { return new(big.Int).SetBytes(a.Bytes()) }

// ------------------------------------------------------------------ observed registry

type metaObs struct {
	Key common.Address
	M   cpctypes.CustomPrecompiledContractMeta
}

type idxObs struct {
	Denom string
	Addr  common.Address
}

type regState struct {
	Metas  []metaObs
	Didx   []idxObs
	Seq    uint64
	Params cpctypes.Params
}

func (s *regState) meta(a common.Address) *cpctypes.CustomPrecompiledContractMeta {
	for i := range s.Metas {
		if s.Metas[i].Key == a {
			return &s.Metas[i].M
		}
	}
	return nil
}

func (s *regState) idx(d string) *common.Address {
	for i := range s.Didx {
		if s.Didx[i].Denom == d {
			return &s.Didx[i].Addr
		}
	}
	return nil
}

func cpcSeq(app *chainapp.Evermint, ctx sdk.Context) uint64 {
	acc := app.AccountKeeper.GetAccount(ctx, authtypes.NewModuleAddress(cpctypes.ModuleName))
	if acc == nil {
		return 0
	}
	return acc.GetSequence()
}

// readReg reads the registry raw from the module's store (prefix 2: metadata, prefix 3: denom index).
func readReg(t *testing.T, app *chainapp.Evermint, ctx sdk.Context) regState {
	key := app.GetKVStoreKey()[cpctypes.StoreKey]
	st := ctx.KVStore(key)
	var out regState
	it := storetypes.KVStorePrefixIterator(st, cpctypes.KeyPrefixCustomPrecompiledContractMeta)
	for ; it.Valid(); it.Next() {
		var m cpctypes.CustomPrecompiledContractMeta
		require.NoError(t, proto.Unmarshal(it.Value(), &m))
		k := it.Key()[1:]
		require.Len(t, k, 20)
		out.Metas = append(out.Metas, metaObs{Key: common.BytesToAddress(k), M: m})
	}
	it.Close()
	it = storetypes.KVStorePrefixIterator(st, cpctypes.KeyPrefixErc20CpcDenomToAddress)
	for ; it.Valid(); it.Next() {
		out.Didx = append(out.Didx, idxObs{Denom: string(it.Key()[1:]), Addr: common.BytesToAddress(it.Value())})
	}
	it.Close()
	out.Seq = cpcSeq(app, ctx)
	out.Params = app.CPCKeeper.GetParams(ctx)
	return out
}

// typed metadata as the model sees it: the JSON decoded into the struct that belongs to the declared type
func typedCoq(typ uint32, tm string) string {
	if tm == "" {
		return "TMissing"
	}
	switch typ {
	case cpctypes.CpcTypeErc20:
		var e cpctypes.Erc20CustomPrecompiledContractMeta
		if err := json.Unmarshal([]byte(tm), &e); err != nil {
			return "TBad"
		}
		return fmt.Sprintf("(TErc20 %s %s %s)", cz(enc(e.Symbol)), CqZi(int64(e.Decimals)), cz(enc(e.MinDenom)))
	case cpctypes.CpcTypeStaking:
		var e cpctypes.StakingCustomPrecompiledContractMeta
		if err := json.Unmarshal([]byte(tm), &e); err != nil {
			return "TBad"
		}
		return fmt.Sprintf("(TStaking %s %s)", cz(enc(e.Symbol)), CqZi(int64(e.Decimals)))
	case cpctypes.CpcTypeBech32:
		if tm == cpctypes.EmptyTypedMeta {
			return "TBech32"
		}
		return "TBad"
	}
	return "TBad"
}

func metaCoq(m cpctypes.CustomPrecompiledContractMeta) string {
	return fmt.Sprintf("{| m_type := %s; m_name := %s; m_typed := %s; m_disabled := %s |}",
		CqZi(int64(m.CustomPrecompiledType)), cz(enc(m.Name)), typedCoq(m.CustomPrecompiledType, m.TypedMeta), CqBool(m.Disabled))
}

func wlCoq(l []string) string {
	items := make([]string, len(l))
	for i, x := range l {
		_, err := sdk.AccAddressFromBech32(x)
		items[i] = fmt.Sprintf("{| w_id := %s; w_lower := %s; w_bech32 := %s |}", cz(enc(x)), CqBool(strings.ToLower(x) == x), CqBool(err == nil))
	}
	return CqList(items)
}

func paramsCoq(p cpctypes.Params) string {
	return fmt.Sprintf("{| p_version := %s; p_whitelist := %s |}", CqZu(uint64(p.ProtocolVersion)), wlCoq(p.WhitelistedDeployers))
}

func (s *regState) metasCoq() string {
	items := make([]string, len(s.Metas))
	for i, m := range s.Metas {
		items[i] = fmt.Sprintf("(%s, %s)", cz(addrZ(m.Key)), metaCoq(m.M))
	}
	return CqList(items)
}

func (s *regState) didxCoq() string {
	items := make([]string, len(s.Didx))
	for i, d := range s.Didx {
		items[i] = fmt.Sprintf("(%s, %s)", cz(enc(d.Denom)), cz(addrZ(d.Addr)))
	}
	return CqList(items)
}

func (s *regState) digest() string {
	var sb strings.Builder
	for _, m := range s.Metas {
		fmt.Fprintf(&sb, "%x/%d/%q/%q/%v;", m.Key, m.M.CustomPrecompiledType, m.M.Name, m.M.TypedMeta, m.M.Disabled)
	}
	for _, d := range s.Didx {
		fmt.Fprintf(&sb, "%q>%x;", d.Denom, d.Addr)
	}
	fmt.Fprintf(&sb, "%d/%d/%q", s.Seq, s.Params.ProtocolVersion, s.Params.WhitelistedDeployers)
	return sb.String()
}

// ------------------------------------------------------------------ probes

type probeKind int

const (
	prName probeKind = iota
	prSymbol
	prDecimals
	prBech32Prefix
	prGarbage
)

var probeNames = []string{"PrName", "PrSymbol", "PrDecimals", "PrBech32Prefix", "PrGarbage"}
var probeSel = [][]byte{{0x06, 0xfd, 0xde, 0x03}, {0x95, 0xd8, 0x9b, 0x41}, {0x31, 0x3c, 0xe5, 0x67}, {0x96, 0x44, 0x3b, 0x16}, {0xde, 0xad, 0xbe, 0xef}}
var modeNames = []string{"Deliver", "Check", "Simulate", "Query"}

// outcome class of one call
type pres struct {
	Class string   // OkStr OkUint OkEmpty Revert Fail Std TxRejected
	Z     *big.Int // payload for OkStr / OkUint
	Str   string
}

func (p pres) coq() string {
	switch p.Class {
	case "OkStr":
		return "(POkStr " + cz(p.Z) + ")"
	case "OkUint":
		return "(POkUint " + cz(p.Z) + ")"
	case "OkEmpty":
		return "POkEmpty"
	case "Revert":
		return "PRevert"
	case "Std":
		return "PStd"
	}
	return "PFail"
}

func (p pres) String() string {
	if p.Class == "OkStr" {
		return "OkStr(" + p.Str + ")"
	}
	if p.Class == "OkUint" {
		return "OkUint(" + p.Z.String() + ")"
	}
	if p.Class == "TxRejected" || p.Class == "Fail" {
		why := p.Str
		if len(why) > 160 {
			why = why[:160]
		}
		return p.Class + "(" + why + ")"
	}
	return p.Class
}

var abiString, _ = abi.NewType("string", "", nil)

func isStd(a common.Address) bool {
	_, ok := corevm.PrecompiledContractsBerlin[a]
	return ok
}

// classify a call result; for the addresses of go-ethereum's own precompiles the reference is go-ethereum's function itself
func classify(to common.Address, input, ret []byte, vmErr string) pres {
	if p, ok := corevm.PrecompiledContractsBerlin[to]; ok {
		refRet, _, refErr := corevm.RunPrecompiledContract(p, input, 10_000_000)
		if (refErr == nil) == (vmErr == "") && (refErr != nil || bytes.Equal(refRet, ret)) {
			return pres{Class: "Std"}
		}
	}
	if vmErr != "" {
		if vmErr == corevm.ErrExecutionReverted.Error() {
			return pres{Class: "Revert"}
		}
		return pres{Class: "Fail", Str: vmErr}
	}
	if len(ret) == 0 {
		return pres{Class: "OkEmpty"}
	}
	if len(ret) == 32 {
		return pres{Class: "OkUint", Z: new(big.Int).SetBytes(ret)}
	}
	if len(ret) >= 64 && len(ret)%32 == 0 {
		if vals, err := (abi.Arguments{{Type: abiString}}).Unpack(ret); err == nil && len(vals) == 1 {
			if s, ok := vals[0].(string); ok {
				return pres{Class: "OkStr", Z: enc(s), Str: s}
			}
		}
	}
	return pres{Class: "OkUint", Z: encB(ret)}
}

type probeObs struct {
	Mode  int
	To    common.Address // the contract the probe is about
	Probe probeKind
	Res   pres
	Via   int // 0 = the transaction calls To itself, 1 = through a forwarder using CALL, 2 = using STATICCALL,
	// 3 / 4 = the message is a contract CREATION whose init code calls To with CALL / STATICCALL
	Ver int // historic probes only: index of the step whose resulting state the call was evaluated on (-1 = initial state)
}

var viaNames = []string{"Direct", "ViaCall", "ViaStaticCall", "ViaInitCall", "ViaInitStaticCall"}

func forwarderAddr(k int) common.Address {
	return common.BigToAddress(new(big.Int).Add(new(big.Int).Lsh(big.NewInt(0xC17F), 144), big.NewInt(int64(k+1))))
}

// placeForwarder puts a forwarding contract for target at a harness address (between blocks)
func (w *world) placeForwarder(k int, op byte, target common.Address) common.Address {
	c := w.c
	at := forwarderAddr(k)
	ctx := c.Ctx()
	if c.App.AccountKeeper.GetAccount(ctx, sdk.AccAddress(at.Bytes())) == nil {
		c.App.AccountKeeper.SetAccount(ctx, c.App.AccountKeeper.NewAccountWithAddress(ctx, sdk.AccAddress(at.Bytes())))
	}
	c.SetCode(at, BuildProxy(op, target))
	return at
}

// ------------------------------------------------------------------ the world of one case

type world struct {
	t     *testing.T
	c     *Chain
	r     *Rng
	side  *Sidecar
	pool  []*itutiltypes.TestAccount // possible deployers (funded)
	prob  *itutiltypes.TestAccount   // sender of the probe calls
	gov   string
	hrp   string
	price *big.Int
	// everything the case mentions
	denoms   []string
	supply0  map[string]*big.Int
	steps    []string
	descs    []string
	api      bool // an unrestricted keeper call (ASetMeta) happened: only the unconditional part of the property applies
	nprobes  int
	canon    strings.Builder
	deployed int
	// which step's resulting state each height committed during the case holds (-1 = the initial state)
	verStep map[int64]int
	curStep int
	// the module parameters as governance last SET them: what the registry held when the generated steps began, then the
	// NewParams of every update-params message of the governance authority that was applied, as the message arrived
	// (decoded from transaction bytes).  Kept from the messages the driver sent, never read back from the store.
	govSet cpctypes.Params
	// scripted steps still to come (runCase): "wl-one" / "wl-empty" update-params by governance, "deploy-by-removed"
	script    []string
	scriptKey *itutiltypes.TestAccount
	// the scale case: > 100 registered contracts; spare denominations (with supply) that scripted "deploy-scale" steps use
	scale       bool
	scaleDenoms []string
	// "zs-*" scripted steps: one denomination whose supply goes up / down to zero between two deploy attempts
	zsDenom string
	zsMeta  bool
}

var denomPool = []string{"uatom", "ibc/27394FB092D2ECCD56123C74F36E4C1F926001CEADA9CA97EA622B25F41E5EB2", "factory/evm1xyz/sub", "uzero", "uosmo", "Token-1.x:y"}
var badDenoms = []string{"", "1x", "a b", "ab", " uatom", "uatom ", "u$d"}

func (w *world) ctx() sdk.Context { return w.c.Ctx() }

func newWorld(t *testing.T, c *Chain, r *Rng, side *Sidecar) *world {
	w := &world{t: t, c: c, r: r, side: side, supply0: map[string]*big.Int{}, verStep: map[int64]int{}, curStep: -1}
	for i := 0; i < 4; i++ {
		w.pool = append(w.pool, c.NewFundedAccount(9100+i, new(big.Int).Mul(big.NewInt(1_000_000), Pow2(60))))
	}
	w.prob = c.NewFundedAccount(9200, new(big.Int).Mul(big.NewInt(1_000_000), Pow2(60)))
	w.gov = authtypes.NewModuleAddress(govtypes.ModuleName).String()
	w.hrp = sdk.GetConfig().GetBech32AccountAddrPrefix()
	return w
}

func (w *world) refreshPrice() {
	bf := w.c.BaseFee(w.c.QueryCtx())
	w.price = new(big.Int).Add(new(big.Int).Mul(bf, big.NewInt(2)), big.NewInt(1_000_000_000))
}

func (w *world) noteDenom(d string) {
	for _, x := range w.denoms {
		if x == d {
			return
		}
	}
	w.denoms = append(w.denoms, d)
}

func (w *world) supplyOf(ctx sdk.Context, d string) *big.Int {
	if sdk.ValidateDenom(d) != nil {
		return big.NewInt(0)
	}
	return w.c.App.BankKeeper.GetSupply(ctx, d).Amount.BigInt()
}

// setSupply makes the bank supply of a harness-owned denom exactly v (coins sit in the evm module account).
func (w *world) setSupply(d string, v *big.Int) {
	ctx := w.ctx()
	cur := w.supplyOf(ctx, d)
	switch cur.Cmp(v) {
	case -1:
		coins := sdk.NewCoins(sdk.NewCoin(d, sdkmath.NewIntFromBigInt(new(big.Int).Sub(v, cur))))
		require.NoError(w.t, w.c.App.BankKeeper.MintCoins(ctx, evmtypes.ModuleName, coins))
	case 1:
		coins := sdk.NewCoins(sdk.NewCoin(d, sdkmath.NewIntFromBigInt(new(big.Int).Sub(cur, v))))
		require.NoError(w.t, w.c.App.BankKeeper.BurnCoins(ctx, evmtypes.ModuleName, coins))
	}
}

// bank denom-metadata: an attribute of a denomination that is independent of its supply (ibc-go registers it for a
// voucher on the first packet and leaves it behind when the last voucher is burnt; the bank genesis may list tokens that
// were never minted).  The registry's rules speak about SUPPLY only; the driver varies both.
func (w *world) hasBankMeta(ctx sdk.Context, d string) bool {
	if sdk.ValidateDenom(d) != nil {
		return false
	}
	return w.c.App.BankKeeper.HasDenomMetaData(ctx, d)
}

func (w *world) setBankMeta(d string) {
	if sdk.ValidateDenom(d) != nil {
		return
	}
	w.c.App.BankKeeper.SetDenomMetaData(w.ctx(), banktypes.Metadata{
		Description: "registered by another module", Base: d, Display: d, Name: d, Symbol: strings.ToUpper(d),
		DenomUnits: []*banktypes.DenomUnit{{Denom: d, Exponent: 0}},
	})
}

// denomClass: the four classes of a denomination at the time of a deploy attempt
func (w *world) denomClass(ctx sdk.Context, d string) string {
	if sdk.ValidateDenom(d) != nil {
		return "not-a-denomination"
	}
	c := "no-bank-metadata"
	if w.hasBankMeta(ctx, d) {
		c = "bank-metadata"
	}
	if w.supplyOf(ctx, d).Sign() > 0 {
		return c + "+supply"
	}
	return c + "+zero-supply"
}

// bulkDeploy (scale case): n ERC-20 contracts, one per denomination with one unit of supply, deployed by a whitelisted
// key through the message server (what a transaction's handler calls), plus spare denominations for real transactions
func (w *world) bulkDeploy(n, spare int) {
	ctx := w.ctx()
	k := w.c.App.CPCKeeper
	srv := cpckeeper.NewMsgServerImpl(k)
	key := w.pool[0].GetCosmosAddress().String()
	p := k.GetParams(ctx)
	p.WhitelistedDeployers = []string{key}
	_, err := srv.UpdateParams(ctx, &cpctypes.MsgUpdateParams{Authority: w.gov, NewParams: p})
	require.NoError(w.t, err)
	for j := 0; j < n+spare; j++ {
		d := fmt.Sprintf("scl%03d", j)
		w.setSupply(d, big.NewInt(1))
		w.noteDenom(d)
		if j%3 == 0 {
			w.setBankMeta(d)
		}
		if j >= n {
			w.scaleDenoms = append(w.scaleDenoms, d)
			continue
		}
		_, err := srv.DeployErc20Contract(ctx, &cpctypes.MsgDeployErc20ContractRequest{Authority: key, Name: fmt.Sprintf("Scale%03d", j), Symbol: fmt.Sprintf("SC%03d", j), Decimals: uint32(j % 19), MinDenom: d})
		require.NoError(w.t, err)
	}
	reg := readReg(w.t, w.c.App, ctx) // raw store
	w.side.Count(fmt.Sprintf("scale:contracts-registered-before-the-steps>100=%v", len(reg.Metas) > 100))
}

// ------------------------------------------------------------------ sending

func (w *world) cosmosTx(signer *itutiltypes.TestAccount, msgs ...sdk.Msg) ([]byte, error) {
	c := w.c
	accNum, seq := c.AccNumSeq(signer.GetCosmosAddress())
	gas := uint64(3_000_000)
	fee := new(big.Int).Mul(w.price, new(big.Int).SetUint64(gas))
	raw := &RawTx{Msgs: msgs, Gas: gas, Fee: c.FeeCoins(fee)}
	if err := raw.SignDirect(c.ChainID(), signer, accNum, seq); err != nil {
		return nil, err
	}
	return raw.Encode()
}

type opResult struct {
	class string // ok err panic
	addr  *common.Address
	info  string
}

func (o opResult) coq() string {
	switch o.class {
	case "ok":
		if o.addr != nil {
			return "(XOk " + cz(addrZ(*o.addr)) + ")"
		}
		return "XOkAny"
	case "panic":
		return "XPanic"
	}
	return "XErr"
}

// runTx: one block with the transaction; when around != nil the block is
// [eth call to *around, the transaction, eth call to *around] so that the order inside a block is exercised
func (w *world) runTx(signer *itutiltypes.TestAccount, msg sdk.Msg, decode func([]byte) *common.Address, around *common.Address, o *stepOut) opResult {
	w.refreshPrice()
	bz, err := w.cosmosTx(signer, msg)
	if err != nil {
		// the envelope cannot even be built (e.g. the signer field is not an address): a node rejects the same bytes
		return opResult{class: "err", info: "build: " + err.Error()}
	}
	txs := [][]byte{bz}
	viaAround := 0
	if around != nil {
		n := w.c.Nonce(w.c.QueryCtx(), w.prob.GetEthAddress())
		mk := func(nonce uint64) []byte {
			b, _ := w.ethTx(nonce, *around, probeSel[prName])
			return b
		}
		if w.r.Chance(35) {
			// the callers before and after are constructors of creation transactions
			viaAround = 3 + w.r.Intn(2)
			sp := w.specInit(*around, prName, viaAround)
			mk = func(nonce uint64) []byte {
				b, _ := w.ethTxTo(nonce, nil, sp.data)
				return b
			}
		}
		txs = [][]byte{mk(n), bz, mk(n + 1)}
	}
	// between FinalizeBlock and Commit the node's mempool / RPC side still works on the state BEFORE this block:
	// calls in check, simulate and query mode to the address the step is about, evaluated there
	var between func()
	if focus := w.focusOf(around); w.r.Chance(50) {
		w.commitBlock(nil) // earlier steps' direct writes are committed: the check state is exactly the state before
		between = func() {
			for _, ob := range w.staleModes(focus) {
				// only the query (pinned to the last committed version) has a defined view here: FinalizeBlock has
				// already written the block into the multistore's working set (BaseApp.workingHash), which the check
				// state reads through for keys it has not cached: check / simulate see a mixture.  They are made
				// nevertheless: they are readers on a state that is not the one consensus will use next.
				if ob.Mode == 3 {
					o.pre = append(o.pre, ob)
				}
				w.side.Count("between-finalize-and-commit:" + modeNames[ob.Mode] + ":" + ob.Res.Class)
			}
		}
	}
	res := w.finalizeThenCommit(txs, between)
	require.Len(w.t, res.TxResults, len(txs))
	tr := res.TxResults[0]
	if around != nil {
		tr = res.TxResults[1]
		for k, i := range []int{0, 2} {
			er := res.TxResults[i]
			var p pres
			if er.Code != 0 {
				p = pres{Class: "TxRejected", Str: er.Log}
			} else {
				ret, vmErr := decodeEthResponse(w.t, w.c, er.Data)
				p = classify(*around, probeSel[prName], ret, vmErr)
			}
			ob := probeObs{Mode: 0, To: *around, Probe: prName, Res: p, Via: viaAround}
			if k == 0 {
				o.pre = append(o.pre, ob)
				w.side.Count("same-block-probe:" + viaNames[viaAround] + ":before:" + p.Class)
			} else {
				o.post = append(o.post, ob)
				w.side.Count("same-block-probe:" + viaNames[viaAround] + ":after:" + p.Class)
			}
		}
	}
	if tr.Code == 0 {
		var data sdk.TxMsgData
		require.NoError(w.t, w.c.S.EncodingConfig.Codec.Unmarshal(tr.Data, &data))
		require.Len(w.t, data.MsgResponses, 1)
		return opResult{class: "ok", addr: decode(data.MsgResponses[0].Value)}
	}
	if tr.Codespace == "undefined" && tr.Code == 111222 {
		return opResult{class: "panic", info: tr.Log}
	}
	return opResult{class: "err", info: tr.Log}
}

// focusOf: the address a step's side traffic asks about
func (w *world) focusOf(around *common.Address) common.Address {
	if around != nil {
		return *around
	}
	return crypto.CreateAddress(cpctypes.CpcModuleAddress, cpcSeq(w.c.App, w.c.QueryCtx()))
}

// finalizeThenCommit is RunBlock with a window between FinalizeBlock and Commit (ABCI allows CheckTx and queries there)
func (w *world) finalizeThenCommit(txs [][]byte, between func()) *abci.ResponseFinalizeBlock {
	c := w.c
	h := w.header()
	res, err := c.App.BaseApp.FinalizeBlock(&abci.RequestFinalizeBlock{Height: h.Height, Txs: txs, Time: h.Time, ProposerAddress: h.ProposerAddress})
	require.NoError(w.t, err)
	if between != nil {
		between()
	}
	_, err = c.App.BaseApp.Commit()
	require.NoError(w.t, err)
	w.verStep[h.Height] = w.curStep + 1 // the block contains the transaction of the step being executed
	c.Height++
	c.Time = c.Time.Add(c.Step)
	return res
}

// staleModes: name() of a in check, simulate and query mode against whatever those modes currently see
func (w *world) staleModes(a common.Address) []probeObs {
	c := w.c
	var out []probeObs
	sp := w.specDirect(a, prName)
	if w.r.Chance(30) {
		sp = w.specInit(a, prName, 3+w.r.Intn(2))
	}
	nonce := c.Nonce(c.QueryCtx(), w.prob.GetEthAddress())
	bz, msg := w.ethTxTo(nonce, sp.to, sp.data)
	add := func(mode int, ret []byte, vmErr string, err error) {
		if err != nil {
			out = append(out, probeObs{Mode: mode, To: a, Probe: prName, Res: pres{Class: "TxRejected", Str: err.Error()}, Via: sp.via})
			return
		}
		out = append(out, probeObs{Mode: mode, To: a, Probe: prName, Res: classify(a, probeSel[prName], ret, vmErr), Via: sp.via})
	}
	for _, mode := range [][]int{{1, 2, 3}, {3, 1, 2}, {2, 3, 1}, {1}, {3}}[w.r.Intn(5)] {
		switch mode {
		case 1:
			ret, vmErr, err := w.checkModeCall(msg)
			add(1, ret, vmErr, err)
		case 2:
			_, res, err := c.App.BaseApp.Simulate(bz)
			if err != nil {
				add(2, nil, "", err)
			} else {
				ret, vmErr := decodeEthResponse(w.t, c, res.Data)
				add(2, ret, vmErr, nil)
			}
		case 3:
			ret, vmErr, err := w.queryCallAt(sp.to, sp.data, 0)
			add(3, ret, vmErr, err)
		}
	}
	return out
}

// historicQuery: eth_call pinned to a height committed earlier in this case; the answer belongs to THAT state
func (w *world) historicQuery(a common.Address, olderThan int) (probeObs, bool) {
	var hs []int64
	for h, st := range w.verStep {
		if st < olderThan && h < w.c.Height {
			hs = append(hs, h)
		}
	}
	if len(hs) == 0 {
		return probeObs{}, false
	}
	sort.Slice(hs, func(i, j int) bool { return hs[i] > hs[j] })
	h := hs[0] // mostly the most recent older state
	if w.r.Chance(30) {
		h = hs[w.r.Intn(len(hs))]
	}
	pk := []probeKind{prName, prName, prSymbol, prBech32Prefix, prGarbage}[w.r.Intn(5)]
	sp := w.specDirect(a, pk)
	if w.r.Chance(25) {
		sp = w.specInit(a, pk, 3+w.r.Intn(2))
	}
	ob := probeObs{Mode: 3, To: a, Probe: pk, Via: sp.via, Ver: w.verStep[h]}
	ret, vmErr, err := w.queryCallAt(sp.to, sp.data, h)
	if err != nil {
		ob.Res = pres{Class: "TxRejected", Str: err.Error()}
	} else {
		ob.Res = classify(a, probeSel[pk], ret, vmErr)
	}
	return ob, true
}

// deliverProbe: one block with name() calls to the given addresses (deliver mode), against the state after the step
func (w *world) deliverProbe(addrs []common.Address) []probeObs {
	c := w.c
	w.refreshPrice()
	n := c.Nonce(c.QueryCtx(), w.prob.GetEthAddress())
	var txs [][]byte
	var specs []callSpec
	for i, a := range addrs {
		sp := w.specDirect(a, prName)
		if w.r.Chance(25) {
			sp = w.specInit(a, prName, 3+w.r.Intn(2))
		}
		bz, _ := w.ethTxTo(n+uint64(i), sp.to, sp.data)
		txs = append(txs, bz)
		specs = append(specs, sp)
	}
	res := w.commitBlock(txs)
	require.Len(w.t, res.TxResults, len(txs))
	var out []probeObs
	for i, sp := range specs {
		tr := res.TxResults[i]
		ob := probeObs{Mode: 0, To: sp.target, Probe: prName, Via: sp.via}
		if tr.Code != 0 {
			ob.Res = pres{Class: "TxRejected", Str: tr.Log}
		} else {
			ret, vmErr := decodeEthResponse(w.t, c, tr.Data)
			ob.Res = classify(sp.target, probeSel[prName], ret, vmErr)
		}
		out = append(out, ob)
	}
	return out
}

// ghostDeploy: a deployment that is only SIMULATED (gas estimation of a deploy transaction by a whitelisted key): it
// runs the whole message on a branch that is thrown away.  Returns the address the contract would have got.
func (w *world) ghostDeploy(cur *regState) (common.Address, bool) {
	var key *itutiltypes.TestAccount
	for _, x := range cur.Params.WhitelistedDeployers {
		if k := w.keyOf(x); k != nil && k.GetCosmosAddress().String() == x {
			key = k
			break
		}
	}
	if key == nil {
		return common.Address{}, false
	}
	q := w.c.QueryCtx()
	denom := ""
	for _, d := range w.denoms {
		if cur.idx(d) == nil && sdk.ValidateDenom(d) == nil && w.supplyOf(q, d).Sign() > 0 {
			denom = d
			break
		}
	}
	if denom == "" {
		return common.Address{}, false
	}
	w.refreshPrice()
	msg := &cpctypes.MsgDeployErc20ContractRequest{Authority: key.GetCosmosAddress().String(), Name: "Ghost", Symbol: "GHO", Decimals: 6, MinDenom: denom}
	bz, err := w.cosmosTx(key, msg)
	if err != nil {
		return common.Address{}, false
	}
	_, _, err = w.c.App.BaseApp.Simulate(bz)
	if err != nil {
		w.side.Count("traffic:simulated-deployment:refused")
	} else {
		w.side.Count("traffic:simulated-deployment:ok")
	}
	return crypto.CreateAddress(cpctypes.CpcModuleAddress, cur.Seq), err == nil
}

// traffic: what a node does between two consensus steps without any effect on consensus state: historic eth_calls,
// simulated deployments; then (or before) a delivered call.  The model has no term for it: it is erasable
// (Properties/C17.v C17_node_traffic_erasable); every observation is compared with the state it belongs to.
func (w *world) traffic(o *stepOut, idx int) {
	r := w.r
	cur := &o.after
	w.commitBlock(nil) // nothing pending: every mode sees a committed state
	w.refreshPrice()
	focus := crypto.CreateAddress(cpctypes.CpcModuleAddress, cur.Seq)
	if cur.Seq > 0 && r.Chance(75) {
		focus = crypto.CreateAddress(cpctypes.CpcModuleAddress, cur.Seq-1) // what the last attempt got or would have got
	}
	if o.res.class == "ok" && o.res.addr != nil {
		focus = *o.res.addr
	} else if len(cur.Metas) > 0 && r.Chance(30) {
		focus = cur.Metas[r.Intn(len(cur.Metas))].Key
	}
	others := []common.Address{cpctypes.CpcBech32FixedAddress, cpctypes.CpcStakingFixedAddress, crypto.CreateAddress(cpctypes.CpcModuleAddress, cur.Seq)}
	hist := func(olderThan int) {
		if ob, ok := w.historicQuery(focus, olderThan); ok {
			o.hist = append(o.hist, ob)
			w.side.Count("traffic:historic-query:" + ob.Res.Class)
		} else {
			w.side.Count("traffic:historic-query:no-older-height")
		}
	}
	switch x := r.Intn(100); {
	case x < 40:
		// a reader on an OLDER state right after the step, then the consensus call
		hist(idx)
		o.post = append(o.post, w.deliverProbe([]common.Address{focus, others[r.Intn(len(others))]})...)
		w.side.Count("traffic:historic-then-deliver")
	case x < 65:
		// the consensus call first, then readers on older states (twice: the second finds whatever the first left)
		o.post = append(o.post, w.deliverProbe([]common.Address{focus})...)
		hist(idx + 1)
		hist(idx)
		w.side.Count("traffic:deliver-then-historic")
	case x < 85:
		if a, ok := w.ghostDeploy(cur); ok {
			o.post = append(o.post, w.deliverProbe([]common.Address{a, focus})...)
			w.side.Count("traffic:simulated-deployment-then-deliver")
		}
	default:
		hist(idx)
		for _, ob := range w.staleModes(focus) {
			// between blocks check / simulate / query see the last committed state: the one after this step
			ob.Ver = idx
			o.hist = append(o.hist, ob)
		}
		w.side.Count("traffic:historic-then-modes")
	}
}

// runHandler: the way governance (or authz, ICA) executes a message: router handler on a branch of the state,
// written only on success
func (w *world) runHandler(msg sdk.Msg, decode func([]byte) *common.Address) (out opResult) {
	h := w.c.App.MsgServiceRouter().Handler(msg)
	require.NotNil(w.t, h)
	cctx, write := w.ctx().CacheContext()
	defer func() {
		if p := recover(); p != nil {
			out = opResult{class: "panic", info: fmt.Sprint(p)}
		}
	}()
	res, err := h(cctx, msg)
	if err != nil {
		return opResult{class: "err", info: err.Error()}
	}
	write()
	require.Len(w.t, res.MsgResponses, 1)
	return opResult{class: "ok", addr: decode(res.MsgResponses[0].Value)}
}

// overTheWire: the message as it arrives at a node: put into a transaction (as a proposal's messages are put into
// MsgSubmitProposal and kept as Any in the gov store), encoded, and decoded again by the application's TxDecoder.
// What protobuf cannot carry (an empty repeated field vs an absent one, ...) is gone afterwards.
func (w *world) overTheWire(msg sdk.Msg) sdk.Msg {
	raw := &RawTx{Msgs: []sdk.Msg{msg}, Gas: 3_000_000}
	bz, err := raw.Encode()
	require.NoError(w.t, err)
	tx, err := w.c.S.EncodingConfig.TxConfig.TxDecoder()(bz)
	require.NoError(w.t, err)
	msgs := tx.GetMsgs()
	require.Len(w.t, msgs, 1)
	return msgs[0]
}

// runDirect: the message server called by code in the same binary (no ValidateBasic), on a branch written on success
func (w *world) runDirect(f func(ctx sdk.Context) (*common.Address, error)) (out opResult) {
	cctx, write := w.ctx().CacheContext()
	defer func() {
		if p := recover(); p != nil {
			out = opResult{class: "panic", info: fmt.Sprint(p)}
		}
	}()
	a, err := f(cctx)
	if err != nil {
		return opResult{class: "err", info: err.Error()}
	}
	write()
	return opResult{class: "ok", addr: a}
}

func decodeErc20(bz []byte) *common.Address {
	var r cpctypes.MsgDeployErc20ContractResponse
	if err := proto.Unmarshal(bz, &r); err != nil {
		panic(err)
	}
	a := common.HexToAddress(r.ContractAddress)
	return &a
}

func decodeStaking(bz []byte) *common.Address {
	var r cpctypes.MsgDeployStakingContractResponse
	if err := proto.Unmarshal(bz, &r); err != nil {
		panic(err)
	}
	a := common.HexToAddress(r.ContractAddress)
	return &a
}

func decodeNone([]byte) *common.Address { return nil }

// ------------------------------------------------------------------ generators

func (w *world) pick(l []string) string { return l[w.r.Intn(len(l))] }

func (w *world) genName() string {
	switch w.r.Intn(12) {
	case 0:
		return ""
	case 1:
		return " WrappedX"
	case 2:
		return "Wrapped Atom"
	case 3:
		return "ab"
	case 4:
		return strings.Repeat("n", 140)
	case 5:
		return "Ünïcode"
	default:
		return fmt.Sprintf("Token%c%d", 'A'+rune(w.r.Intn(26)), w.r.Intn(1000))
	}
}

func (w *world) genSymbol(denom string) string {
	switch w.r.Intn(12) {
	case 0:
		return ""
	case 1:
		return denom // symbol == min denom is refused
	case 2:
		return "W X "
	default:
		return fmt.Sprintf("W%c%d", 'A'+rune(w.r.Intn(26)), w.r.Intn(100))
	}
}

func (w *world) genDecimals() uint32 {
	c := []uint32{0, 1, 6, 8, 18, 18, 18, 6, 19, 255, 256, 262, 274, 1<<32 - 1, 1 << 31}
	return c[w.r.Intn(len(c))]
}

func (w *world) genDenom(cur *regState) string {
	x := w.r.Intn(100)
	if w.r.Chance(14) {
		// a denomination the bank module knows by its metadata although no coin of it exists, without contract
		q := w.c.QueryCtx()
		var known []string
		for _, d := range w.denoms {
			if cur.idx(d) == nil && w.hasBankMeta(q, d) && w.supplyOf(q, d).Sign() == 0 {
				known = append(known, d)
			}
		}
		if len(known) > 0 {
			return w.pick(known)
		}
	}
	if w.r.Chance(35) {
		// a denomination that has supply and no contract yet, if there is one
		q := w.c.QueryCtx()
		var free []string
		for _, d := range w.denoms {
			if cur.idx(d) == nil && w.supplyOf(q, d).Sign() > 0 {
				free = append(free, d)
			}
		}
		if len(free) > 0 {
			return w.pick(free)
		}
	}
	switch {
	case x < 12 && len(cur.Didx) > 0:
		return cur.Didx[w.r.Intn(len(cur.Didx))].Denom // duplicate
	case x < 24:
		return w.c.Denom()
	case x < 32:
		return w.c.S.TestConfig.SecondaryDenomUnits[0].Denom
	case x < 42:
		return w.pick(badDenoms)
	default:
		return w.pick(denomPool)
	}
}

// an authority string and, when it is the address of a key we hold, that key
func (w *world) genAuthority(cur *regState) (string, *itutiltypes.TestAccount) {
	x := w.r.Intn(100)
	switch {
	case x < 58 && len(cur.Params.WhitelistedDeployers) > 0:
		s := w.pick(cur.Params.WhitelistedDeployers)
		return s, w.keyOf(s)
	case x < 75:
		a := w.pool[w.r.Intn(len(w.pool))]
		return a.GetCosmosAddress().String(), a
	case x < 83:
		a := w.pool[w.r.Intn(len(w.pool))]
		return strings.ToUpper(a.GetCosmosAddress().String()), a // valid bech32, but not the whitelisted spelling
	case x < 88:
		return w.gov, nil
	case x < 92:
		return "", nil
	case x < 96:
		return "cosmos1qypqxpq9qcrsszg2pvxq6rs0zqg3yyc5lzv7xu", nil
	default:
		return "not-an-address", nil
	}
}

func (w *world) keyOf(s string) *itutiltypes.TestAccount {
	for _, a := range w.pool {
		if strings.EqualFold(a.GetCosmosAddress().String(), s) {
			return a
		}
	}
	return nil
}

func (w *world) genParams(cur *regState) cpctypes.Params {
	p := cpctypes.Params{ProtocolVersion: 1}
	if len(cur.Params.WhitelistedDeployers) > 0 && w.r.Chance(22) {
		// governance removes every deployer: an EMPTY list (on the wire: no occurrence of the repeated field) after a non-empty one
		p.ProtocolVersion = cur.Params.ProtocolVersion
		if w.r.Bool() {
			p.WhitelistedDeployers = []string{}
		}
		return p
	}
	switch w.r.Intn(12) {
	case 0:
		p.ProtocolVersion = 0
	case 1:
		p.ProtocolVersion = 2
	case 2:
		p.ProtocolVersion = 7
	}
	perm := w.r.Intn(1 << uint(len(w.pool)))
	for i, a := range w.pool {
		if perm&(1<<uint(i)) != 0 {
			p.WhitelistedDeployers = append(p.WhitelistedDeployers, a.GetCosmosAddress().String())
		}
	}
	if w.r.Chance(30) {
		w.r2shuffle(p.WhitelistedDeployers)
	}
	switch w.r.Intn(14) {
	case 0:
		if len(p.WhitelistedDeployers) > 0 {
			p.WhitelistedDeployers = append(p.WhitelistedDeployers, p.WhitelistedDeployers[0])
		}
	case 1:
		p.WhitelistedDeployers = append(p.WhitelistedDeployers, strings.ToUpper(w.pool[0].GetCosmosAddress().String()))
	case 2:
		p.WhitelistedDeployers = append(p.WhitelistedDeployers, "xyz")
	case 3:
		p.WhitelistedDeployers = append(p.WhitelistedDeployers, w.gov)
	}
	return p
}

func (w *world) r2shuffle(l []string) {
	for i := len(l) - 1; i > 0; i-- {
		j := w.r.Intn(i + 1)
		l[i], l[j] = l[j], l[i]
	}
}

// ------------------------------------------------------------------ one step

type stepOut struct {
	kind   string // Coq term of the operation
	label  string
	res    opResult
	before regState
	after  regState
	// facts for the oracle
	isGenesis    bool
	deployAuth   *string
	updAuthority *string
	updApplied   *cpctypes.Params // an update-params message of the governance authority succeeded: its NewParams as decoded from the wire
	govKnown     bool             // govBefore / govAfter are set (steps generated by runCase)
	govBefore    cpctypes.Params  // the parameters as governance last set them, before and after the step
	govAfter     cpctypes.Params
	apiNew       bool
	supplyBefore map[string]*big.Int
	gen          *cpctypes.GenesisState
	// calls in the same block as the step's transaction: before it (seen against the state before) and after it
	pre, post []probeObs
	// calls evaluated on an earlier committed state (probeObs.Ver says which)
	hist []probeObs
}

func (w *world) extOkErc20(m *cpctypes.MsgDeployErc20ContractRequest) bool {
	if _, err := sdk.AccAddressFromBech32(m.Authority); err != nil {
		return false
	}
	if strings.TrimSpace(m.Name) != m.Name || strings.TrimSpace(m.Symbol) != m.Symbol || strings.TrimSpace(m.MinDenom) != m.MinDenom {
		return false
	}
	md := banktypes.Metadata{
		DenomUnits: []*banktypes.DenomUnit{{Denom: m.MinDenom, Exponent: 0}, {Denom: m.Name, Exponent: m.Decimals}},
		Base:       m.MinDenom, Display: m.Name, Name: m.Name, Symbol: m.Symbol,
	}
	return md.Validate() == nil
}

func (w *world) extOkStaking(m *cpctypes.MsgDeployStakingContractRequest) bool {
	if _, err := sdk.AccAddressFromBech32(m.Authority); err != nil {
		return false
	}
	return strings.TrimSpace(m.Symbol) == m.Symbol
}

func (w *world) snapshotSupply() map[string]*big.Int {
	q := w.c.QueryCtx()
	out := map[string]*big.Int{}
	for _, d := range w.denoms {
		out[d] = w.supplyOf(q, d)
	}
	return out
}

func (w *world) step(cur regState) stepOut {
	r := w.r
	out := stepOut{before: cur}
	scripted := ""
	if len(w.script) > 0 {
		scripted, w.script = w.script[0], w.script[1:]
	}
	if scripted == "" && w.api && r.Chance(12) {
		return w.stepSetMeta(cur)
	}
	x := r.Intn(100)
	switch scripted {
	case "wl-one", "wl-empty":
		x = 50
	case "deploy-by-removed", "deploy-scale", "zs-deploy", "zs-deploy-unlisted":
		x = 0
	case "zs-up":
		return w.stepSupply(cur, w.zsDenom, big.NewInt(int64(1+r.Intn(1_000_000))), w.zsMeta)
	case "zs-down":
		return w.stepSupply(cur, w.zsDenom, big.NewInt(0), w.zsMeta)
	}
	switch {
	case x < 38: // deploy ERC-20
		denom := w.genDenom(&cur)
		auth, key := w.genAuthority(&cur)
		if scripted == "deploy-by-removed" {
			// the key governance whitelisted two steps ago and removed one step ago, for a denomination that can get a contract
			auth, key = w.scriptKey.GetCosmosAddress().String(), w.scriptKey
			q := w.c.QueryCtx()
			for _, d := range w.denoms {
				if cur.idx(d) == nil && sdk.ValidateDenom(d) == nil && w.supplyOf(q, d).Sign() > 0 {
					denom = d
					break
				}
			}
		}
		switch scripted {
		case "deploy-scale":
			// one more contract on top of > 100, by a real transaction of the whitelisted key
			auth, key = w.scriptKey.GetCosmosAddress().String(), w.scriptKey
			if len(w.scaleDenoms) > 0 {
				denom, w.scaleDenoms = w.scaleDenoms[0], w.scaleDenoms[1:]
			}
		case "zs-deploy":
			auth, key, denom = w.scriptKey.GetCosmosAddress().String(), w.scriptKey, w.zsDenom
		case "zs-deploy-unlisted":
			// an attempt that fails for another reason while the denomination HAS supply
			for _, a := range w.pool {
				if a != w.scriptKey {
					auth, key, denom = a.GetCosmosAddress().String(), a, w.zsDenom
				}
			}
		}
		msg := &cpctypes.MsgDeployErc20ContractRequest{Authority: auth, Name: w.genName(), Symbol: w.genSymbol(denom), Decimals: w.genDecimals(), MinDenom: denom}
		if r.Chance(65) || scripted != "" { // mostly well-formed, so that the interesting checks are reached
			msg.Name = fmt.Sprintf("Token%c%d", 'A'+rune(r.Intn(26)), r.Intn(1000))
			msg.Symbol = fmt.Sprintf("W%c%d", 'A'+rune(r.Intn(26)), r.Intn(100))
			msg.Decimals = []uint32{6, 18, 8, 1}[r.Intn(4)]
		}
		w.noteDenom(denom)
		out.supplyBefore = w.snapshotSupply()
		dclass := w.denomClass(w.c.QueryCtx(), denom)
		if cur.idx(denom) != nil {
			dclass += "+has-contract"
		}
		defer func() {
			// the classes of denominations that deploy attempts meet, with what became of the attempt
			what := out.res.class
			if what != "ok" {
				what = refusalClass(out.res.info)
			}
			w.side.Count("deploy-denom:" + dclass + ":" + what)
		}()
		path := r.Intn(100)
		if scripted == "deploy-scale" {
			path = 0
		}
		vb := true
		switch {
		case path < 45 && key != nil:
			out.label = "erc20/tx"
			var around *common.Address
			if r.Chance(60) {
				a := crypto.CreateAddress(cpctypes.CpcModuleAddress, cur.Seq) // where the contract will be, if it is deployed
				around = &a
			}
			out.res = w.runTx(key, msg, decodeErc20, around, &out)
		case path < 70:
			out.label = "erc20/router"
			out.res = w.runHandler(msg, decodeErc20)
		default:
			vb = false
			out.label = "erc20/msgserver"
			srv := cpckeeper.NewMsgServerImpl(w.c.App.CPCKeeper)
			out.res = w.runDirect(func(ctx sdk.Context) (*common.Address, error) {
				res, err := srv.DeployErc20Contract(ctx, msg)
				if err != nil {
					return nil, err
				}
				a := common.HexToAddress(res.ContractAddress)
				return &a, nil
			})
		}
		out.label += fmt.Sprintf(" by=%q", msg.Authority)
		out.deployAuth = &msg.Authority
		out.kind = fmt.Sprintf("SOp (MDeployErc20 %s %s %s %s %s %s %s %s)", CqBool(vb), CqBool(w.extOkErc20(msg)), CqBool(sdk.ValidateDenom(denom) == nil),
			cz(enc(msg.Authority)), cz(enc(msg.Name)), cz(enc(msg.Symbol)), CqZu(uint64(msg.Decimals)), cz(enc(msg.MinDenom)))
	case x < 50: // deploy staking
		auth, key := w.genAuthority(&cur)
		msg := &cpctypes.MsgDeployStakingContractRequest{Authority: auth, Symbol: w.genSymbol("x"), Decimals: w.genDecimals()}
		if r.Chance(50) {
			msg.Symbol, msg.Decimals = "STK", 18
		}
		path := r.Intn(100)
		vb := true
		switch {
		case path < 45 && key != nil:
			out.label = "staking/tx"
			var around *common.Address
			if r.Chance(60) {
				a := cpctypes.CpcStakingFixedAddress
				around = &a
			}
			out.res = w.runTx(key, msg, decodeStaking, around, &out)
		case path < 70:
			out.label = "staking/router"
			out.res = w.runHandler(msg, decodeStaking)
		default:
			vb = false
			out.label = "staking/msgserver"
			srv := cpckeeper.NewMsgServerImpl(w.c.App.CPCKeeper)
			out.res = w.runDirect(func(ctx sdk.Context) (*common.Address, error) {
				res, err := srv.DeployStakingContract(ctx, msg)
				if err != nil {
					return nil, err
				}
				a := common.HexToAddress(res.ContractAddress)
				return &a, nil
			})
		}
		out.label += fmt.Sprintf(" by=%q", msg.Authority)
		out.deployAuth = &msg.Authority
		out.kind = fmt.Sprintf("SOp (MDeployStaking %s %s %s %s %s)", CqBool(vb), CqBool(w.extOkStaking(msg)),
			cz(enc(msg.Authority)), cz(enc(msg.Symbol)), CqZu(uint64(msg.Decimals)))
	case x < 65: // update params
		np := w.genParams(&cur)
		authority := w.gov
		var key *itutiltypes.TestAccount
		if r.Chance(25) {
			key = w.pool[r.Intn(len(w.pool))]
			authority = key.GetCosmosAddress().String()
		}
		switch scripted {
		case "wl-one":
			np = cpctypes.Params{ProtocolVersion: cur.Params.ProtocolVersion, WhitelistedDeployers: []string{w.scriptKey.GetCosmosAddress().String()}}
			authority, key = w.gov, nil
		case "wl-empty":
			np = cpctypes.Params{ProtocolVersion: cur.Params.ProtocolVersion, WhitelistedDeployers: []string{}}
			authority, key = w.gov, nil
		}
		msg := &cpctypes.MsgUpdateParams{Authority: authority, NewParams: np}
		if key != nil && r.Chance(60) {
			out.label = "params/tx"
			out.res = w.runTx(key, msg, decodeNone, nil, &out)
		} else {
			// what the gov module executes when a proposal passes: the message decoded from bytes, handed to the router
			out.label = "params/router"
			arrived, isUpd := w.overTheWire(msg).(*cpctypes.MsgUpdateParams)
			require.True(w.t, isUpd)
			out.res = w.runHandler(arrived, decodeNone)
			if out.res.class == "ok" && arrived.Authority == w.gov {
				ap := arrived.NewParams
				out.updApplied = &ap
			}
		}
		if len(cur.Params.WhitelistedDeployers) > 0 && len(np.WhitelistedDeployers) == 0 && authority == w.gov {
			w.side.Count("params:governance-empties-non-empty-whitelist:" + out.res.class)
		}
		out.label += fmt.Sprintf(" version=%d whitelist=%q governance=%v", np.ProtocolVersion, np.WhitelistedDeployers, authority == w.gov)
		out.updAuthority = &msg.Authority
		out.kind = fmt.Sprintf("SOp (MUpdateParams %s %s)", CqBool(authority == w.gov), paramsCoq(np))
	case x < 78: // Disabled toggle through the keeper (what an upgrade handler would do)
		var a common.Address
		if len(cur.Metas) > 0 && r.Chance(85) {
			a = cur.Metas[r.Intn(len(cur.Metas))].Key
		} else {
			a = common.BigToAddress(r.BigBits(160))
		}
		b := r.Chance(60)
		out.label = fmt.Sprintf("api/set-disabled=%v", b)
		k := w.c.App.CPCKeeper
		out.res = w.runDirect(func(ctx sdk.Context) (*common.Address, error) {
			m := k.GetCustomPrecompiledContractMeta(ctx, a)
			if m == nil {
				return nil, fmt.Errorf("no such contract")
			}
			m.Disabled = b
			if err := k.SetCustomPrecompiledContractMeta(ctx, *m, false); err != nil {
				return nil, err
			}
			return &a, nil
		})
		out.kind = fmt.Sprintf("SOp (ASetDisabled %s %s)", cz(addrZ(a)), CqBool(b))
	case x < 86: // bank supply of a denomination changes
		var v *big.Int
		switch r.Intn(4) {
		case 0:
			v = big.NewInt(0)
		case 1:
			v = big.NewInt(1)
		default:
			v = r.BigBits(1 + r.Intn(90))
		}
		out = w.stepSupply(cur, w.pick(denomPool), v, r.Chance(30))
	default: // the exported keeper function with arbitrary arguments
		if !w.api {
			// only cases chosen for it leave the property's quantifier
			return w.step(cur)
		}
		out = w.stepSetMeta(cur)
	}
	return out
}

// stepSupply: the bank supply of d becomes v; withMeta: the bank module also gets (or keeps) denom-metadata for d,
// which no rule of the registry reads: the model's term is the supply change alone
func (w *world) stepSupply(cur regState, d string, v *big.Int, withMeta bool) stepOut {
	out := stepOut{before: cur}
	out.label = "env/supply>0"
	if v.Sign() == 0 {
		out.label = "env/supply=0"
	}
	w.noteDenom(d)
	if withMeta {
		w.setBankMeta(d)
	}
	if w.hasBankMeta(w.ctx(), d) {
		out.label += "+bank-metadata"
	}
	w.setSupply(d, v)
	out.res = opResult{class: "ok"}
	out.kind = fmt.Sprintf("SOp (ESupply %s %s)", cz(enc(d)), cz(v))
	return out
}

func (w *world) stepSetMeta(cur regState) stepOut {
	r := w.r
	out := stepOut{before: cur}
	var a common.Address
	switch x := r.Intn(100); {
	case x < 45 && len(cur.Metas) > 0:
		a = cur.Metas[r.Intn(len(cur.Metas))].Key
	case x < 55:
		a = common.BigToAddress(big.NewInt(int64(1 + r.Intn(12)))) // go-ethereum's own precompile addresses and neighbours
	case x < 60:
		a = common.Address{}
	default:
		a = common.BigToAddress(r.BigBits(160))
	}
	typ := []uint32{0, 1, 1, 1, 2, 2, 3, 3, 4, 77}[r.Intn(10)]
	if m := cur.meta(a); m != nil && r.Chance(60) {
		typ = m.CustomPrecompiledType
	}
	denom := w.genDenom(&cur)
	w.noteDenom(denom)
	var tm string
	switch r.Intn(10) {
	case 0:
		tm = ""
	case 1:
		tm = "{}"
	case 2:
		tm = "not json"
	case 3:
		tm = `{"symbol":"S","decimals":300,"min_denom":"uatom"}`
	case 4, 5:
		tm = fmt.Sprintf(`{"symbol":%q,"decimals":%d}`, w.genSymbol(denom), r.Intn(24))
	default:
		tm = fmt.Sprintf(`{"symbol":%q,"decimals":%d,"min_denom":%q}`, w.genSymbol(denom), r.Intn(24), denom)
	}
	if typ == 3 && r.Chance(70) {
		tm = "{}"
	}
	name := w.genName()
	if r.Chance(50) {
		name = "Upgraded"
	}
	nd := r.Chance(50)
	if cur.meta(a) != nil && r.Chance(70) {
		nd = false
	}
	meta := cpctypes.CustomPrecompiledContractMeta{Address: a.Bytes(), CustomPrecompiledType: typ, Name: name, TypedMeta: tm, Disabled: r.Chance(25)}
	out.label = "api/set-meta"
	if len(cur.Metas) > 0 && r.Chance(30) {
		// an otherwise flawless update of an existing contract that asks for another type (or, half of the time, the same)
		prev := cur.Metas[r.Intn(len(cur.Metas))]
		a = prev.Key
		typ = uint32(1 + r.Intn(3))
		if r.Chance(40) {
			typ = prev.M.CustomPrecompiledType
		}
		switch typ {
		case cpctypes.CpcTypeErc20:
			tm = fmt.Sprintf(`{"symbol":"UPG","decimals":%d,"min_denom":%q}`, r.Intn(19), w.pick(denomPool))
		case cpctypes.CpcTypeStaking:
			tm = fmt.Sprintf(`{"symbol":"UPG","decimals":%d}`, r.Intn(19))
		default:
			tm = "{}"
		}
		nd = false
		meta = cpctypes.CustomPrecompiledContractMeta{Address: a.Bytes(), CustomPrecompiledType: typ, Name: "Upgraded", TypedMeta: tm, Disabled: r.Bool()}
		out.label = "api/set-meta-retype"
		if typ == prev.M.CustomPrecompiledType {
			out.label = "api/set-meta-sametype"
		}
	}
	out.apiNew = nd
	k := w.c.App.CPCKeeper
	out.res = w.runDirect(func(ctx sdk.Context) (*common.Address, error) {
		if err := k.SetCustomPrecompiledContractMeta(ctx, meta, nd); err != nil {
			return nil, err
		}
		return &a, nil
	})
	out.kind = fmt.Sprintf("SOp (ASetMeta %s %s %s)", cz(addrZ(a)), metaCoq(meta), CqBool(nd))
	return out
}

// ------------------------------------------------------------------ genesis

func (w *world) genGenesis(i int) (cpctypes.GenesisState, string) {
	r := w.r
	g := cpctypes.GenesisState{Params: w.genParams(&regState{}), DeployErc20Native: i&1 != 0, DeployStakingContract: i&2 != 0}
	if r.Chance(85) { // mostly a genesis a chain can start from
		g.Params.ProtocolVersion = 1
		var wl []string
		seen := map[string]bool{}
		for _, x := range g.Params.WhitelistedDeployers {
			if _, err := sdk.AccAddressFromBech32(x); err == nil && strings.ToLower(x) == x && !seen[x] {
				wl = append(wl, x)
				seen[x] = true
			}
		}
		g.Params.WhitelistedDeployers = wl
	}
	bond := ""
	return g, bond
}

func (w *world) genesisCoq(g cpctypes.GenesisState, bond string) string {
	sym := strings.ToUpper(constants.SymbolDenom)
	return fmt.Sprintf("SGenesis {| g_params := %s; g_erc20_native := %s; g_staking := %s; g_bond_denom := %s; g_bond_valid := %s; g_erc20_name := %s; g_erc20_symbol := %s; g_staking_symbol := %s; g_decimals := %s |}",
		paramsCoq(g.Params), CqBool(g.DeployErc20Native), CqBool(g.DeployStakingContract), cz(enc(bond)), CqBool(sdk.ValidateDenom(bond) == nil),
		cz(enc("Wrapped "+sym)), cz(enc("W"+sym)), cz(enc("Staking-"+sym)), CqZi(int64(constants.BaseDenomExponent)))
}

// wipe removes the registry (params, metadata, denom index) so that InitGenesis can run again on this chain
func (w *world) wipe() {
	ctx := w.ctx()
	st := ctx.KVStore(w.c.App.GetKVStoreKey()[cpctypes.StoreKey])
	for _, p := range [][]byte{cpctypes.KeyPrefixParams, cpctypes.KeyPrefixCustomPrecompiledContractMeta, cpctypes.KeyPrefixErc20CpcDenomToAddress} {
		var keys [][]byte
		it := storetypes.KVStorePrefixIterator(st, p)
		for ; it.Valid(); it.Next() {
			keys = append(keys, append([]byte{}, it.Key()...))
		}
		it.Close()
		for _, k := range keys {
			st.Delete(k)
		}
	}
}

// stepGenesisOnWiped runs the real InitGenesis of the module on a branch of the state (a panic aborts a chain start,
// nothing of it survives); optionally with another bond denomination in the staking parameters
func (w *world) stepGenesisOnWiped(cur regState, i int) stepOut {
	out := stepOut{before: cur, isGenesis: true}
	g, _ := w.genGenesis(i)
	sk := w.c.App.StakingKeeper
	octx, owrite := w.ctx().CacheContext()
	sp, err := sk.GetParams(octx)
	require.NoError(w.t, err)
	origBond := sp.BondDenom
	bond := origBond
	if w.r.Chance(25) {
		bond = w.pick(append(append([]string{}, denomPool...), "1x", "a b"))
	}
	w.noteDenom(bond)
	out.supplyBefore = w.snapshotSupply()
	sp.BondDenom = bond
	require.NoError(w.t, sk.SetParams(octx, sp))
	func() {
		defer func() {
			if p := recover(); p != nil {
				out.res = opResult{class: "panic", info: fmt.Sprint(p)}
			}
		}()
		cpc.InitGenesis(octx, w.c.App.CPCKeeper, *sk, g)
		out.res = opResult{class: "ok"}
	}()
	if out.res.class == "ok" {
		sp.BondDenom = origBond
		require.NoError(w.t, sk.SetParams(octx, sp))
		owrite()
	}
	out.gen = &g
	out.label = fmt.Sprintf("genesis/wiped erc20=%v staking=%v", g.DeployErc20Native, g.DeployStakingContract)
	out.kind = w.genesisCoq(g, bond)
	return out
}

// ------------------------------------------------------------------ real InitChain of a fresh application

type baseDoc struct {
	c      *Chain
	state  []byte
	cp     *tmproto.ConsensusParams
	height int64
	seq    uint64
	bond   string
}

func makeBase(t *testing.T) *baseDoc {
	c0 := NewChain(t, time.Time{})
	newWorld(t, c0, NewRng(0), nil) // fund the accounts every case uses, so that they are part of the exported state
	c0.RunBlock(nil)
	exp, err := c0.App.ExportAppStateAndValidators(false, nil, nil)
	require.NoError(t, err)
	cp := exp.ConsensusParams
	bond, err := c0.App.StakingKeeper.BondDenom(c0.QueryCtx())
	require.NoError(t, err)
	return &baseDoc{c: c0, state: exp.AppState, cp: &cp, height: exp.Height, seq: cpcSeq(c0.App, c0.QueryCtx()), bond: bond}
}

func (b *baseDoc) newApp(t *testing.T, g cpctypes.GenesisState) (*chainapp.Evermint, interface{}) {
	c := b.c
	var gs map[string]json.RawMessage
	require.NoError(t, json.Unmarshal(b.state, &gs))
	gs[cpctypes.ModuleName] = c.S.EncodingConfig.Codec.MustMarshalJSON(&g)
	doc, err := json.Marshal(gs)
	require.NoError(t, err)
	chainID := c.S.ChainConstantsConfig.GetCosmosChainID()
	app := chainapp.NewEvermint(log.NewNopLogger(), sdkdb.NewMemDB(), nil, true, map[int64]bool{}, chainapp.DefaultNodeHome, 0,
		c.S.EncodingConfig, simtestutil.NewAppOptionsWithFlagHome(chainapp.DefaultNodeHome), baseapp.SetChainID(chainID))
	var failure interface{}
	p := CatchPanic(func() {
		_, err := app.InitChain(&abci.RequestInitChain{ChainId: chainID, ConsensusParams: b.cp, Validators: []abci.ValidatorUpdate{},
			AppStateBytes: doc, InitialHeight: b.height, Time: c.Time})
		if err != nil {
			failure = err
			return
		}
		app.NewContextLegacy(false, tmproto.Header{Height: b.height}).MultiStore().(storetypes.CacheMultiStore).Write()
		if _, err := app.Commit(); err != nil {
			failure = err
		}
	})
	if p != nil {
		failure = p
	}
	if failure != nil {
		return nil, failure
	}
	return app, nil
}

// ------------------------------------------------------------------ EVM calls in the four modes

func (w *world) header() tmproto.Header {
	c := w.c
	return tmproto.Header{ChainID: c.ChainID(), Height: c.Height, Time: c.Time, ProposerAddress: c.S.ValidatorAccounts.Number(1).GetConsensusAddress().Bytes()}
}

func (w *world) ethTx(nonce uint64, to common.Address, data []byte) ([]byte, *evmtypes.MsgEthereumTx) {
	return w.ethTxTo(nonce, &to, data)
}

// ethTxTo: to == nil makes a contract-creation transaction with data as init code
func (w *world) ethTxTo(nonce uint64, to *common.Address, data []byte) ([]byte, *evmtypes.MsgEthereumTx) {
	c := w.c
	bz, msg, err := c.EthTxBytes(w.prob, &ethtypes.DynamicFeeTx{
		ChainID: c.EvmChainID(), Nonce: nonce, GasTipCap: big.NewInt(0), GasFeeCap: w.price, Gas: 300_000, To: to, Value: big.NewInt(0), Data: data,
	})
	require.NoError(w.t, err)
	return bz, msg
}

// callSpec: how a probe reaches its target
type callSpec struct {
	target common.Address  // the address the probe is about
	to     *common.Address // recipient of the message (nil: contract creation)
	data   []byte          // calldata / init code
	pk     probeKind
	via    int
}

func (w *world) specDirect(a common.Address, pk probeKind) callSpec {
	return callSpec{target: a, to: &a, data: probeSel[pk], pk: pk, via: 0}
}

// specInit: a creation message whose init code makes the call (via 3 = CALL, 4 = STATICCALL)
func (w *world) specInit(a common.Address, pk probeKind, via int) callSpec {
	op := OpCALL
	if via == 4 {
		op = OpSTATICCALL
	}
	return callSpec{target: a, to: nil, data: BuildInitProbe(op, a, probeSel[pk]), pk: pk, via: via}
}

func decodeEthResponse(t *testing.T, c *Chain, data []byte) (ret []byte, vmErr string) {
	var txData sdk.TxMsgData
	require.NoError(t, c.S.EncodingConfig.Codec.Unmarshal(data, &txData))
	require.Len(t, txData.MsgResponses, 1)
	var resp evmtypes.MsgEthereumTxResponse
	require.NoError(t, resp.Unmarshal(txData.MsgResponses[0].Value))
	return resp.Ret, resp.VmError
}

// checkModeCall runs what the CheckTx ante decorator app/antedl/evmlane/993e_exec_without_error.go runs (it throws the
// execution result away): NewEVM + ApplyMessage on a branch of BaseApp's check state, context in CheckTx mode.
func (w *world) checkModeCall(msgEth *evmtypes.MsgEthereumTx) (ret []byte, vmErr string, err error) {
	c := w.c
	app := c.App
	hdr := w.header()
	ctx := app.BaseApp.NewContextLegacy(true, hdr).WithChainID(c.ChainID())
	ctx = ctx.WithConsensusParams(app.BaseApp.GetConsensusParams(ctx))
	require.True(w.t, ctx.IsCheckTx())
	simCtx, _ := ctx.CacheContext()
	ek := app.EvmKeeper
	baseFee := ek.GetBaseFee(simCtx)
	signer := ethtypes.LatestSignerForChainID(ek.GetEip155ChainId(simCtx).BigInt())
	coreMsg, err := msgEth.AsTransaction().AsMessage(signer, baseFee.BigInt())
	if err != nil {
		return nil, "", err
	}
	evmParams := ek.GetParams(simCtx)
	cfg := &evmvm.EVMConfig{Params: evmParams, ChainConfig: evmParams.ChainConfig.EthereumConfig(ek.GetEip155ChainId(simCtx).BigInt()),
		CoinBase: common.Address{}, BaseFee: baseFee.BigInt(), NoBaseFee: false}
	stateDB := evmvm.NewStateDB(simCtx, cfg.CoinBase, ek, app.AccountKeeper, app.BankKeeper)
	evm := ek.NewEVM(simCtx, coreMsg, cfg, evmtypes.NewNoOpTracer(), stateDB)
	gp := core.GasPool(coreMsg.Gas())
	res, err := evmkeeper.ApplyMessage(evm, coreMsg, &gp, func(st *evmkeeper.StateTransition) { st.SenderPaidTheFee = false })
	if err != nil {
		return nil, "", err
	}
	if res.Err != nil {
		return res.ReturnData, res.Err.Error(), nil
	}
	return res.ReturnData, "", nil
}

func (w *world) queryCall(to common.Address, data []byte) (ret []byte, vmErr string, err error) {
	return w.queryCallAt(&to, data, 0)
}

// queryCallAt: gRPC EthCall through BaseApp.Query; to == nil is a call without recipient (creation); height 0 = latest
// committed state, otherwise the state committed at that height (what eth_call with a block number does)
func (w *world) queryCallAt(to *common.Address, data []byte, height int64) (ret []byte, vmErr string, err error) {
	c := w.c
	from := w.prob.GetEthAddress()
	gas := hexutil.Uint64(300_000)
	input := hexutil.Bytes(data)
	args, err := json.Marshal(evmtypes.TransactionArgs{From: &from, To: to, Gas: &gas, Input: &input})
	if err != nil {
		return nil, "", err
	}
	req := &evmtypes.EthCallRequest{Args: args, GasCap: 25_000_000}
	bz, err := proto.Marshal(req)
	if err != nil {
		return nil, "", err
	}
	res, err := c.App.BaseApp.Query(context.Background(), &abci.RequestQuery{Path: "/ethermint.evm.v1.Query/EthCall", Data: bz, Height: height})
	if err != nil {
		return nil, "", err
	}
	if res.Code != 0 {
		return nil, "", fmt.Errorf("query failed: %s", res.Log)
	}
	var out evmtypes.MsgEthereumTxResponse
	if err := out.Unmarshal(res.Value); err != nil {
		return nil, "", err
	}
	return out.Ret, out.VmError, nil
}

// estimateGas: gRPC EstimateGas (eth_estimateGas) for a call to `to` with data, on the latest committed state
func (w *world) estimateGas(to common.Address, data []byte) (uint64, error) {
	from := w.prob.GetEthAddress()
	gas := hexutil.Uint64(300_000)
	input := hexutil.Bytes(data)
	args, err := json.Marshal(evmtypes.TransactionArgs{From: &from, To: &to, Gas: &gas, Input: &input})
	if err != nil {
		return 0, err
	}
	bz, err := proto.Marshal(&evmtypes.EthCallRequest{Args: args, GasCap: 25_000_000})
	if err != nil {
		return 0, err
	}
	res, err := w.c.App.BaseApp.Query(context.Background(), &abci.RequestQuery{Path: "/ethermint.evm.v1.Query/EstimateGas", Data: bz})
	if err != nil {
		return 0, err
	}
	if res.Code != 0 {
		return 0, fmt.Errorf("query failed: %s", res.Log)
	}
	var out evmtypes.EstimateGasResponse
	if err := out.Unmarshal(res.Value); err != nil {
		return 0, err
	}
	return out.Gas, nil
}

// oracleEstimate: eth_estimateGas builds its EVM instances through the same NewEVM; what it reports must fit what
// eth_call saw on the same state: nothing at the address => exactly the intrinsic gas; a contract answering => at least
// that (name() of the three contracts is free); a failing call (disabled contract, unknown selector of an enabled
// one) <=> no estimate.  With the unknown selector the estimate so tells a registered contract from an empty address.
func (w *world) oracleEstimate(s *regState, a common.Address, pk probeKind, call pres, desc interface{}) {
	if isStd(a) || call.Class == "TxRejected" {
		return
	}
	in := probeSel[pk]
	intrinsic, err := core.IntrinsicGas(in, nil, false, true, true)
	require.NoError(w.t, err)
	g, err := w.estimateGas(a, in)
	class := "more-than-intrinsic"
	switch {
	case err != nil:
		class = "no-estimate"
	case g == intrinsic:
		class = "intrinsic"
	case g < intrinsic:
		class = "less-than-intrinsic"
	}
	w.side.Count("estimate-gas:" + call.Class + ":" + class)
	want := map[string]string{"OkEmpty": "intrinsic", "OkStr": "more-than-intrinsic", "OkUint": "more-than-intrinsic", "Revert": "no-estimate", "Fail": "no-estimate"}[call.Class]
	if (call.Class == "OkStr" || call.Class == "OkUint") && class == "intrinsic" {
		want = class
	}
	if want != "" && want != class {
		w.hit(sigModeDiffers, fmt.Sprintf("EstimateGas %s -> %s: %s (gas %d, intrinsic %d, err %v), but eth_call on the same state gave %s", probeNames[pk], a.Hex(), class, g, intrinsic, err, call), desc)
	}
}

func (w *world) candidates(cur *regState) []common.Address {
	r := w.r
	seen := map[common.Address]bool{}
	var out []common.Address
	add := func(a common.Address) {
		if !seen[a] && len(out) < 14 {
			seen[a] = true
			out = append(out, a)
		}
	}
	// every registered contract (a sample when there are many), disabled ones first
	ms := append([]metaObs{}, cur.Metas...)
	sort.SliceStable(ms, func(i, j int) bool { return ms[i].M.Disabled && !ms[j].M.Disabled })
	few := 7
	if n := len(cur.Metas); w.scale && n > 20 {
		// many contracts: the LAST ones in address order (the store's iteration order), the first one, a sample of
		// the others, then (below) two of the disabled ones
		for k := 1; k <= 4; k++ {
			add(cur.Metas[n-k].Key)
		}
		add(cur.Metas[0].Key)
		for k := 0; k < 3; k++ {
			add(cur.Metas[r.Intn(n)].Key)
		}
		few = 2
		w.side.Count(fmt.Sprintf("scale:probe-point-with-more-than-100-contracts=%v", n > 100))
	}
	for i, m := range ms {
		if i < few {
			add(m.Key)
		}
	}
	add(cpctypes.CpcStakingFixedAddress)
	add(cpctypes.CpcBech32FixedAddress)
	add(crypto.CreateAddress(cpctypes.CpcModuleAddress, cur.Seq)) // the address the next deployment will get
	if cur.Seq > 0 {
		add(crypto.CreateAddress(cpctypes.CpcModuleAddress, cur.Seq-1)) // the one the last attempt got or would have got
	}
	add(common.BigToAddress(big.NewInt(int64(1 + r.Intn(9))))) // a precompile of go-ethereum itself
	add(common.BigToAddress(big.NewInt(10)))
	if len(ms) > 0 {
		n := new(big.Int).Add(addrZ(ms[r.Intn(len(ms))].Key), big.NewInt(1))
		add(common.BigToAddress(n))
	}
	add(common.BigToAddress(r.BigBits(160)))
	return out
}

// probeAll commits, then calls every candidate with every probe in the four modes; four of the candidates (one of
// each class when there is one) are also called by a forwarding contract with CALL / STATICCALL, and by the init code
// of a contract-creation message (creation transaction / eth_call without recipient) with CALL / STATICCALL
func (w *world) probeAll(cur *regState) []probeObs {
	c := w.c
	cands := w.candidates(cur)
	var calls []callSpec
	for _, a := range cands {
		for pk := prName; pk <= prGarbage; pk++ {
			calls = append(calls, w.specDirect(a, pk))
		}
	}
	var nested []common.Address
	pickClass := func(f func(a common.Address, m *cpctypes.CustomPrecompiledContractMeta) bool) {
		for _, a := range cands {
			if !isStd(a) && f(a, cur.meta(a)) {
				for _, x := range nested {
					if x == a {
						return
					}
				}
				nested = append(nested, a)
				return
			}
		}
	}
	pickClass(func(a common.Address, m *cpctypes.CustomPrecompiledContractMeta) bool { return m != nil && m.Disabled })
	pickClass(func(a common.Address, m *cpctypes.CustomPrecompiledContractMeta) bool {
		return m != nil && !m.Disabled && m.CustomPrecompiledType != cpctypes.CpcTypeBech32
	})
	pickClass(func(a common.Address, m *cpctypes.CustomPrecompiledContractMeta) bool { return m == nil })
	pickClass(func(a common.Address, m *cpctypes.CustomPrecompiledContractMeta) bool { return m != nil && !m.Disabled })
	for k, a := range nested {
		op, via := OpCALL, 1
		if (k+w.r.Intn(2))%2 == 1 {
			op, via = OpSTATICCALL, 2
		}
		at := w.placeForwarder(k, op, a)
		for pk := prName; pk <= prGarbage; pk++ {
			calls = append(calls, callSpec{target: a, to: &at, data: probeSel[pk], pk: pk, via: via})
		}
		// the caller is the constructor of a top-level creation message
		ivia := 3 + (k+w.r.Intn(2))%2
		for pk := prName; pk <= prGarbage; pk++ {
			calls = append(calls, w.specInit(a, pk, ivia))
		}
	}
	w.commitBlock(nil) // direct writes become the committed state: check state and query state are now this state
	w.refreshPrice()
	estimateFor := map[common.Address]bool{}
	for _, a := range nested {
		estimateFor[a] = true
	}
	var out []probeObs
	base := c.Nonce(c.QueryCtx(), w.prob.GetEthAddress())
	rejected := func(mode int, cl callSpec, why string) {
		out = append(out, probeObs{Mode: mode, To: cl.target, Probe: cl.pk, Res: pres{Class: "TxRejected", Str: why}, Via: cl.via})
	}
	seen := func(mode int, cl callSpec, ret []byte, vmErr string) {
		out = append(out, probeObs{Mode: mode, To: cl.target, Probe: cl.pk, Res: classify(cl.target, probeSel[cl.pk], ret, vmErr), Via: cl.via})
	}
	// Simulate + Query + Check replay: all against the committed state, nothing persists
	for _, cl := range calls {
		bzSim, msgSim := w.ethTxTo(base, cl.to, cl.data)
		_, res, err := c.App.BaseApp.Simulate(bzSim)
		if err != nil {
			rejected(2, cl, err.Error())
		} else {
			ret, vmErr := decodeEthResponse(w.t, c, res.Data)
			seen(2, cl, ret, vmErr)
		}
		ret, vmErr, err := w.queryCallAt(cl.to, cl.data, 0)
		if err != nil {
			rejected(3, cl, err.Error())
		} else {
			seen(3, cl, ret, vmErr)
			if cl.via == 0 && (cl.pk == prName || cl.pk == prGarbage) && estimateFor[cl.target] {
				w.oracleEstimate(cur, cl.target, cl.pk, out[len(out)-1].Res, fmt.Sprintf("estimate-gas probe after step %d", w.curStep))
			}
		}
		ret, vmErr, err = w.checkModeCall(msgSim)
		if err != nil {
			rejected(1, cl, err.Error())
		} else {
			seen(1, cl, ret, vmErr)
		}
	}
	// CheckTx through ABCI, then the same transactions in one block
	var txs [][]byte
	for i, cl := range calls {
		bz, _ := w.ethTxTo(base+uint64(i), cl.to, cl.data)
		cr, err := c.CheckTx(bz, false)
		require.NoError(w.t, err)
		if cr.Code != 0 {
			w.side.Count("checktx:rejected")
			w.t.Fatalf("CheckTx rejected a probe transaction about %s (%s): %s", cl.target.Hex(), viaNames[cl.via], cr.Log)
		}
		w.side.Count("checktx:accepted")
		txs = append(txs, bz)
	}
	res := w.commitBlock(txs)
	require.Len(w.t, res.TxResults, len(calls))
	for i, cl := range calls {
		tr := res.TxResults[i]
		if tr.Code != 0 {
			rejected(0, cl, tr.Log)
			continue
		}
		ret, vmErr := decodeEthResponse(w.t, c, tr.Data)
		seen(0, cl, ret, vmErr)
	}
	w.nprobes += len(out)
	return out
}

// commitBlock = RunBlock + a note of which step's state the committed height holds (for the historic queries)
func (w *world) commitBlock(txs [][]byte) *abci.ResponseFinalizeBlock {
	h := w.c.Height
	res := w.c.RunBlock(txs)
	w.verStep[h] = w.curStep
	return res
}

// ------------------------------------------------------------------ the oracle (property text, no model)

func (w *world) hit(sig, msg string, desc interface{}) { w.side.Hit(sig, msg, desc) }

func (w *world) oracleState(s *regState, desc interface{}) {
	seen := map[common.Address]bool{}
	for _, m := range s.Metas {
		if seen[m.Key] || common.BytesToAddress(m.M.Address) != m.Key || len(m.M.Address) != 20 || m.Key == (common.Address{}) {
			w.hit(sigAddrKey, fmt.Sprintf("record under key %s carries address %x", m.Key.Hex(), m.M.Address), desc)
		}
		seen[m.Key] = true
		if err := m.M.Validate(cpctypes.ProtocolCpc(s.Params.ProtocolVersion)); err != nil && !w.api {
			w.hit(sigInvalidStored, fmt.Sprintf("stored metadata of %s does not validate: %v", m.Key.Hex(), err), desc)
		}
	}
	if w.api {
		return // the keeper function lets its caller store ERC-20 records without index entries: outside the property's quantifier
	}
	for _, d := range s.Didx {
		m := s.meta(d.Addr)
		ok := m != nil && m.CustomPrecompiledType == cpctypes.CpcTypeErc20
		if ok {
			var e cpctypes.Erc20CustomPrecompiledContractMeta
			ok = json.Unmarshal([]byte(m.TypedMeta), &e) == nil && e.MinDenom == d.Denom
		}
		if !ok {
			w.hit(sigIndexDangling, fmt.Sprintf("index entry %q -> %s has no ERC-20 metadata of that denomination", d.Denom, d.Addr.Hex()), desc)
		}
	}
	perDenom := map[string]common.Address{}
	for _, m := range s.Metas {
		if m.M.CustomPrecompiledType != cpctypes.CpcTypeErc20 {
			continue
		}
		var e cpctypes.Erc20CustomPrecompiledContractMeta
		if err := json.Unmarshal([]byte(m.M.TypedMeta), &e); err != nil {
			w.hit(sigInvalidStored, "ERC-20 metadata does not parse", desc)
			continue
		}
		if a := s.idx(e.MinDenom); a == nil || *a != m.Key {
			w.hit(sigErc20Unindexed, fmt.Sprintf("ERC-20 contract %s for %q is not what the index says", m.Key.Hex(), e.MinDenom), desc)
		}
		if other, dup := perDenom[e.MinDenom]; dup {
			w.hit(sigErc20Unindexed, fmt.Sprintf("two ERC-20 contracts for %q: %s and %s", e.MinDenom, other.Hex(), m.Key.Hex()), desc)
		}
		perDenom[e.MinDenom] = m.Key
	}
}

func (w *world) oracleStep(o *stepOut, desc interface{}) {
	b, a := &o.before, &o.after
	for _, m := range b.Metas {
		n := a.meta(m.Key)
		if n == nil || n.CustomPrecompiledType != m.M.CustomPrecompiledType {
			w.hit(sigTypeChanged, fmt.Sprintf("contract %s: type %d before, %v after", m.Key.Hex(), m.M.CustomPrecompiledType, n), desc)
			continue
		}
		if !w.api && !o.isGenesis && (n.Name != m.M.Name || n.TypedMeta != m.M.TypedMeta) {
			w.hit(sigRecordChanged, fmt.Sprintf("contract %s: name/typed metadata changed", m.Key.Hex()), desc)
		}
	}
	if a.Params.ProtocolVersion < b.Params.ProtocolVersion {
		w.hit(sigVersionDown, fmt.Sprintf("protocol version %d -> %d", b.Params.ProtocolVersion, a.Params.ProtocolVersion), desc)
	}
	if !o.isGenesis {
		for _, m := range a.Metas {
			if b.meta(m.Key) != nil {
				continue
			}
			if o.apiNew {
				continue // SetCustomPrecompiledContractMeta(..., newDeployment=true) called by the harness itself
			}
			// the whitelist is the one governance last set (from the messages sent), not whatever the store holds
			list, which := b.Params.WhitelistedDeployers, "the stored whitelist"
			if o.govKnown {
				list, which = o.govBefore.WhitelistedDeployers, "the whitelist as governance last set it"
			}
			wl := false
			if o.deployAuth != nil {
				for _, x := range list {
					wl = wl || x == *o.deployAuth
				}
			}
			if !wl {
				w.hit(sigDeployNoWl, fmt.Sprintf("contract %s appeared by step %s although the authority is not on %s %q", m.Key.Hex(), o.label, which, list), desc)
			}
		}
		if o.govKnown && !reflectParamsEqual(a.Params, o.govAfter) {
			// stored params != NewParams of the last update-params message of governance that was applied
			// (before any such message: what the registry held when the steps began)
			w.hit(sigParamsNotAsSet, fmt.Sprintf("after step %s the stored params are {version %d, whitelist %q}; governance last set {version %d, whitelist %q}",
				o.label, a.Params.ProtocolVersion, a.Params.WhitelistedDeployers, o.govAfter.ProtocolVersion, o.govAfter.WhitelistedDeployers), desc)
		}
		if !reflectParamsEqual(a.Params, b.Params) && (o.updAuthority == nil || *o.updAuthority != w.gov) {
			w.hit(sigParamsNoGov, fmt.Sprintf("params changed by step %s", o.label), desc)
		}
	}
	for _, d := range a.Didx {
		if b.idx(d.Denom) != nil {
			continue
		}
		if sp := o.supplyBefore[d.Denom]; sp == nil || sp.Sign() <= 0 {
			w.hit(sigDeployZero, fmt.Sprintf("ERC-20 contract for %q registered while its supply was %v", d.Denom, sp), desc)
		}
	}
	if !w.api {
		for _, d := range b.Didx {
			if x := a.idx(d.Denom); x == nil || *x != d.Addr {
				w.hit(sigIndexChanged, fmt.Sprintf("index entry %q changed", d.Denom), desc)
			}
		}
	}
	if o.isGenesis && o.res.class == "ok" && o.gen != nil {
		hasStaking := a.meta(cpctypes.CpcStakingFixedAddress) != nil
		erc20s := 0
		for _, m := range a.Metas {
			if m.M.CustomPrecompiledType == cpctypes.CpcTypeErc20 {
				erc20s++
			}
		}
		if hasStaking != o.gen.DeployStakingContract || (erc20s == 1) != o.gen.DeployErc20Native || erc20s > 1 || a.meta(cpctypes.CpcBech32FixedAddress) == nil {
			w.hit(sigGenesisFlags, fmt.Sprintf("flags erc20=%v staking=%v gave %d ERC-20, staking=%v", o.gen.DeployErc20Native, o.gen.DeployStakingContract, erc20s, hasStaking), desc)
		}
	}
}

// refusalClass: histogram only (error strings are never compared with the model)
func refusalClass(info string) string {
	for _, c := range [][2]string{
		{"must be whitelisted", "not-whitelisted"}, {"existing contract", "denomination-already-has-a-contract"}, {"zero supply", "zero-supply"},
		{"being in use", "address-in-use"}, {"invalid authority address", "authority-not-an-address"}, {"white spaces", "validate-basic:white-space"},
		{"bank denom metadata", "validate-basic:bank-metadata"}, {"cannot be empty", "empty-field"}, {"decimals", "decimals-out-of-range"},
		{"cannot be the same", "symbol-equals-denom"}, {"invalid denom", "panic:not-a-denomination"}, {"build:", "transaction-cannot-be-built"},
	} {
		if strings.Contains(info, c[0]) {
			return c[1]
		}
	}
	return "other"
}

func reflectParamsEqual(a, b cpctypes.Params) bool {
	if a.ProtocolVersion != b.ProtocolVersion || len(a.WhitelistedDeployers) != len(b.WhitelistedDeployers) {
		return false
	}
	for i := range a.WhitelistedDeployers {
		if a.WhitelistedDeployers[i] != b.WhitelistedDeployers[i] {
			return false
		}
	}
	return true
}

// callable <=> registered and not disabled, in every mode
func (w *world) oracleProbes(s *regState, probes []probeObs, desc interface{}) {
	type key struct {
		a common.Address
		p probeKind
		v int
	}
	first := map[key]probeObs{}
	for _, p := range probes {
		m := s.meta(p.To)
		where := fmt.Sprintf("%s %s %s -> %s: %s", modeNames[p.Mode], viaNames[p.Via], probeNames[p.Probe], p.To.Hex(), p.Res)
		k := key{p.To, p.Probe, p.Via}
		if f, ok := first[k]; ok {
			if f.Res.coq() != p.Res.coq() || f.Res.Class != p.Res.Class {
				w.hit(sigModeDiffers, fmt.Sprintf("%s, but %s gave %s", where, modeNames[f.Mode], f.Res), desc)
			}
		} else {
			first[k] = p
		}
		if isStd(p.To) {
			continue // go-ethereum's own contract answers there
		}
		custom := p.Res.Class == "OkStr" || p.Res.Class == "OkUint" || p.Res.Class == "Revert"
		switch {
		case m == nil:
			if p.Res.Class != "OkEmpty" {
				w.hit(sigUnregisteredRun, where+" (no contract is registered there)", desc)
			}
		case m.Disabled && p.Via != 0:
			// the forwarder reverts when its call fails: an answer of the contract must not come back
			if p.Res.Class == "OkStr" || p.Res.Class == "OkUint" {
				w.hit(sigDisabledRuns, where+" (the contract is marked disabled)", desc)
			}
		case m.Disabled:
			// the text demands that the contract is not executed; that the call fails (rather than finding nothing
			// at the address) is what the code does and what the model says, and is compared there
			if custom {
				w.hit(sigDisabledRuns, where+" (the contract is marked disabled)", desc)
			} else if p.Res.Class != "Fail" {
				w.side.Count("note:call-to-disabled-contract-did-not-fail")
			}
		default:
			if !custom {
				w.hit(sigEnabledDead, where+" (registered and enabled)", desc)
				continue
			}
			// the answers identify the contract: name() of ERC-20/staking is the stored name, the bech32 contract knows the prefix
			switch {
			case p.Probe == prGarbage && p.Res.Class != "Revert":
				w.hit(sigEnabledDead, where+" (unknown selector must revert)", desc)
			case p.Probe == prName && m.CustomPrecompiledType != cpctypes.CpcTypeBech32 && (p.Res.Class != "OkStr" || p.Res.Str != m.Name):
				w.hit(sigEnabledDead, where+fmt.Sprintf(" (stored name %q)", m.Name), desc)
			case p.Probe == prBech32Prefix && m.CustomPrecompiledType == cpctypes.CpcTypeBech32 && (p.Res.Class != "OkStr" || p.Res.Str != w.hrp):
				w.hit(sigEnabledDead, where+" (bech32 prefix expected)", desc)
			}
		}
	}
}

// gRPC queries of the module against the raw store (committed state)
func (w *world) oracleQueries(s *regState, desc interface{}) {
	c := w.c
	req := &cpctypes.QueryCustomPrecompiledContractsRequest{Pagination: &query.PageRequest{Limit: 10_000}}
	bz, err := proto.Marshal(req)
	require.NoError(w.t, err)
	res, err := c.App.BaseApp.Query(context.Background(), &abci.RequestQuery{Path: "/evermint.cpc.v1.Query/CustomPrecompiledContracts", Data: bz})
	require.NoError(w.t, err)
	require.Equal(w.t, uint32(0), res.Code, res.Log)
	var out cpctypes.QueryCustomPrecompiledContractsResponse
	require.NoError(w.t, proto.Unmarshal(res.Value, &out))
	if len(out.Contracts) != len(s.Metas) {
		w.hit(sigQueryDiffers, fmt.Sprintf("query lists %d contracts, store holds %d", len(out.Contracts), len(s.Metas)), desc)
	}
	for _, q := range out.Contracts {
		m := s.meta(common.HexToAddress(q.Address))
		if m == nil || !proto.Equal(m, &q.Meta) {
			w.hit(sigQueryDiffers, "listed contract differs from the stored record: "+q.Address, desc)
		}
	}
	for _, d := range s.Didx {
		bz, err := proto.Marshal(&cpctypes.QueryErc20CustomPrecompiledContractByDenomRequest{MinDenom: d.Denom})
		require.NoError(w.t, err)
		res, err := c.App.BaseApp.Query(context.Background(), &abci.RequestQuery{Path: "/evermint.cpc.v1.Query/Erc20CustomPrecompiledContractByDenom", Data: bz})
		require.NoError(w.t, err)
		var o cpctypes.QueryErc20CustomPrecompiledContractByDenomResponse
		if res.Code != 0 || proto.Unmarshal(res.Value, &o) != nil || common.HexToAddress(o.Contract.Address) != d.Addr {
			w.hit(sigQueryDiffers, fmt.Sprintf("by-denom query for %q does not return %s", d.Denom, d.Addr.Hex()), desc)
		}
	}
}

// ------------------------------------------------------------------ the driver

type caseDesc struct {
	Kind   string   `json:"kind"`
	Steps  []string `json:"steps"`
	Probes int      `json:"probe_calls"`
}

func TestDriverRegistry(t *testing.T) {
	dir := OutDir(t)
	seed := EnvSeed()
	n := EnvInt("VERIF_N", 40)
	rng := NewRng(seed)
	side := NewSidecar("registry", seed,
		"case = one history on the real chain: (registry as found | wiped + real InitGenesis | real InitChain of a fresh app) with one of the 4 flag combinations, then 4..14 steps of "+
			"deploy-erc20 / deploy-staking / update-params (tx, router, message server) by whitelisted and other authorities, Disabled toggles and SetCustomPrecompiledContractMeta through the keeper, supply changes; "+
			"whole registry compared after every step, EVM calls to <=14 candidate addresses x 5 selectors x 4 modes at 2..3 probe points (direct, through CALL / STATICCALL forwarders, and from the CONSTRUCTOR of a creation message); "+
			"between the steps non-consensus traffic in changing orders: eth_call pinned to an OLDER committed height (answer compared with that version's registry), check / simulate / query calls between FinalizeBlock and Commit of a deploy block, "+
			"simulated deployments never included, each followed or preceded by a delivered call to the address concerned; "+
			"denominations of deploy attempts in every class {bank denom-metadata, none} x {supply, zero supply} (histogram deploy-denom:*), in every fourth case the supply of one denomination goes to / from zero between two attempts; "+
			"the last case(s) of a run: > 100 contracts registered beforehand (message server), three more by real transactions, probes at the LAST addresses in store order, the first and a sample; "+
			"non-trivial = at least one deployment by message succeeded and at least one step was refused, distinct step/outcome sequence")
	cases := NewCases(dir, "From Evm Require Import Registry CorrRegistry.", "registry_mismatches")

	var base *baseDoc
	for i := 0; i < n; i++ {
		i := i
		if base == nil && (i < 4 || i%5 == 3) {
			base = makeBase(t)
		}
		// one sub-test per case: the chain of a case is released when the case ends (thousands of cases in the thorough tier)
		t.Run(fmt.Sprintf("case%d", i), func(t *testing.T) { oneCase(t, i, rng, side, cases, base, false) })
	}
	// the scale cases come last (one per run, a few more in the thorough tier): more than 100 registered contracts; their
	// terms are large, so they get shards of their own at the end
	for j := 0; j < 1+n/300; j++ {
		i := n + j
		t.Run(fmt.Sprintf("case%d-scale", i), func(t *testing.T) { oneCase(t, i, rng, side, cases, base, true) })
	}
	cases.Write(t, 8)
	side.Write(t, dir)
}

func oneCase(t *testing.T, i int, rng *Rng, side *Sidecar, cases *CasesFile, base *baseDoc, scale bool) {
	{
		r := rng.Fork(uint64(i))
		kind := []string{"wiped", "found", "wiped", "initchain", "wiped"}[i%5]
		flags := (i / 5) % 4
		if i < 4 {
			kind, flags = "initchain", i // every flag combination through a real InitChain, every run
		}
		if scale {
			kind = "scale" // a chain as found, then more than 100 contracts registered before the steps begin
		}
		var w *world
		var steps []stepOut
		var init regState
		switch kind {
		case "initchain":
			require.NotNil(t, base)
			w = newWorldShell(t, base.c, r, side)
			w.noteAll(base.bond)
			w.snapshot0() // the exported supply is the supply the fresh application starts with
			g, _ := w.genGenesis(flags)
			if i < 4 {
				g.Params.ProtocolVersion = 1
				g.Params.WhitelistedDeployers = []string{w.pool[0].GetCosmosAddress().String(), w.pool[1].GetCosmosAddress().String()}
			}
			app, failure := base.newApp(t, g)
			init = regState{Seq: base.seq}
			o := stepOut{before: init, isGenesis: true, gen: &g, kind: w.genesisCoq(g, base.bond), supplyBefore: w.supply0,
				label: fmt.Sprintf("genesis/initchain erc20=%v staking=%v", g.DeployErc20Native, g.DeployStakingContract)}
			if failure != nil {
				// the chain does not start: that is the whole case
				o.res = opResult{class: "panic", info: fmt.Sprint(failure)}
				o.after = init
				emitCase(t, cases, side, i, kind, w, init, []stepOut{o}, nil)
				return
			}
			w.c = &Chain{T: t, S: base.c.S, App: app, Height: app.LastBlockHeight() + 1, Time: base.c.Time.Add(time.Hour), Step: base.c.Step}
			o.res = opResult{class: "ok"}
			o.after = readReg(t, app, w.c.QueryCtx())
			steps = append(steps, o)
		default:
			c := NewChain(t, time.Time{})
			w = newWorld(t, c, r, side)
			sp, err := c.App.StakingKeeper.GetParams(c.QueryCtx())
			require.NoError(t, err)
			w.noteAll(sp.BondDenom)
			if kind == "wiped" {
				w.wipe()
				// some denominations have supply before the module's genesis runs
				for _, d := range denomPool[:4] {
					if r.Chance(50) {
						w.setSupply(d, big.NewInt(int64(1+r.Intn(1_000_000))))
					}
				}
			}
			// some are known to the bank module by their metadata, with or without supply
			for _, d := range denomPool {
				if r.Chance(35) {
					w.setBankMeta(d)
				}
			}
			if kind == "scale" {
				w.scale = true
				w.bulkDeploy(101+r.Intn(25), 4)
			}
			w.snapshot0()
			init = readReg(t, c.App, c.QueryCtx())
			if kind == "wiped" {
				o := w.stepGenesisOnWiped(init, flags)
				o.after = readReg(t, c.App, c.QueryCtx())
				steps = append(steps, o)
			}
		}
		w.api = r.Chance(35)
		if w.scale {
			w.api = false
		}
		runCase(t, cases, side, i, kind, w, init, steps)
	}
}

func (w *world) noteAll(bond string) {
	w.noteDenom(bond)
	w.noteDenom(w.c.Denom())
	w.noteDenom(w.c.S.TestConfig.SecondaryDenomUnits[0].Denom)
	for _, d := range denomPool {
		w.noteDenom(d)
	}
}

func (w *world) snapshot0() {
	q := w.c.QueryCtx()
	for _, d := range w.denoms {
		w.supply0[d] = w.supplyOf(q, d)
	}
}

func newWorldShell(t *testing.T, c *Chain, r *Rng, side *Sidecar) *world {
	w := &world{t: t, c: c, r: r, side: side, supply0: map[string]*big.Int{}, verStep: map[int64]int{}, curStep: -1}
	for i := 0; i < 4; i++ {
		w.pool = append(w.pool, c.NewKeyAccount(9100+i))
	}
	w.prob = c.NewKeyAccount(9200)
	w.gov = authtypes.NewModuleAddress(govtypes.ModuleName).String()
	w.hrp = sdk.GetConfig().GetBech32AccountAddrPrefix()
	return w
}

func runCase(t *testing.T, cases *CasesFile, side *Sidecar, i int, kind string, w *world, init regState, steps []stepOut) {
	c := w.c
	r := w.r
	cur := init
	if len(steps) > 0 {
		cur = steps[len(steps)-1].after
		if steps[0].res.class != "ok" {
			emitCase(t, cases, side, i, kind, w, init, steps, nil)
			return
		}
	}
	probes := map[int][]probeObs{}
	w.curStep = len(steps) - 1
	w.govSet = cur.Params // what genesis / the chain as found left: the baseline of "as governance set it"
	w.commitBlock(nil) // the state the generated steps start from is a committed version (historic queries can name it)
	// a few denominations get supply so that deployments by message do succeed
	var forced []string
	for _, d := range denomPool[:3] {
		if r.Chance(60) {
			forced = append(forced, d)
		}
	}
	nsteps := len(forced) + 4 + r.Intn(11)
	// every other case: governance whitelists one key, then empties the whitelist, then that key tries to deploy
	scriptAt := -1
	var script []string
	switch {
	case w.scale:
		// three more contracts by real transactions, then a few free steps (Disabled toggles hit any of the > 100)
		script = []string{"deploy-scale", "deploy-scale", "deploy-scale"}
		nsteps = len(forced) + len(script) + 2 + r.Intn(3)
		scriptAt = len(forced)
	case i%2 == 1:
		script = []string{"wl-one", "wl-empty", "deploy-by-removed"}
		nsteps += 3
		scriptAt = len(forced) + r.Intn(nsteps-len(forced)-2)
	case i%4 == 2:
		// the supply of one denomination (with or without bank metadata) changes between two deploy attempts
		if r.Bool() {
			script = []string{"wl-one", "zs-up", "zs-deploy-unlisted", "zs-down", "zs-deploy"} // the second attempt meets zero supply
		} else {
			script = []string{"wl-one", "zs-down", "zs-deploy", "zs-up", "zs-deploy"} // the first one does
		}
		w.zsDenom, w.zsMeta = fmt.Sprintf("uzs%d", r.Intn(3)), r.Chance(60)
		nsteps = len(forced) + len(script) + 1 + r.Intn(6)
		scriptAt = len(forced) + r.Intn(nsteps-len(forced)-len(script)+1)
	}
	first := len(steps)
	probeAt := map[int]bool{}
	probeAt[first+nsteps-1] = true
	probeAt[first+r.Intn(nsteps)] = true
	if first > 0 && r.Chance(50) {
		probes[first-1] = w.probeAll(&cur)
	}
	for k := 0; k < nsteps; k++ {
		var o stepOut
		if k < len(forced) {
			o = w.stepSupply(cur, forced[k], big.NewInt(int64(1+r.Intn(1_000_000))), r.Chance(30))
		} else {
			if k == scriptAt {
				w.script = script
				w.scriptKey = w.pool[r.Intn(len(w.pool))]
				if w.scale {
					w.scriptKey = w.pool[0] // the key bulkDeploy whitelisted
				}
			}
			o = w.step(cur)
		}
		o.after = readReg(t, c.App, c.QueryCtx())
		o.govKnown, o.govBefore = true, w.govSet
		if o.updApplied != nil {
			w.govSet = *o.updApplied
		}
		o.govAfter = w.govSet
		steps = append(steps, o)
		cur = o.after
		idx := len(steps) - 1
		w.curStep = idx
		if r.Chance(55) {
			w.traffic(&steps[idx], idx)
			if after := readReg(t, c.App, c.QueryCtx()); after.digest() != cur.digest() {
				t.Fatalf("non-consensus traffic changed the registry: %s -> %s", cur.digest(), after.digest())
			}
		}
		if probeAt[idx] {
			probes[idx] = w.probeAll(&cur)
			after := readReg(t, c.App, c.QueryCtx())
			if after.digest() != cur.digest() {
				t.Fatalf("EVM calls changed the registry: %s -> %s", cur.digest(), after.digest())
			}
			w.oracleQueries(&cur, fmt.Sprintf("case %d after step %d", i, idx))
		}
	}
	emitCase(t, cases, side, i, kind, w, init, steps, probes)
}

func emitCase(t *testing.T, cases *CasesFile, side *Sidecar, i int, kind string, w *world, init regState, steps []stepOut, probes map[int][]probeObs) {
	desc := caseDesc{Kind: kind}
	var stepTerms []string
	var canon strings.Builder
	okDeploys, refused := 0, 0
	for k := range steps {
		o := &steps[k]
		side.Count("step:" + strings.SplitN(o.label, " ", 2)[0] + ":" + o.res.class)
		if o.isGenesis {
			side.Count(o.label + ":" + o.res.class)
		}
		if o.res.class != "ok" && o.deployAuth != nil {
			side.Count("deploy-refused:" + refusalClass(o.res.info))
		}
		line := fmt.Sprintf("%s => %s", o.label, o.res.class)
		if o.res.class != "ok" && len(o.res.info) > 0 {
			inf := o.res.info
			if len(inf) > 90 {
				inf = inf[:90]
			}
			line += " (" + inf + ")"
		}
		desc.Steps = append(desc.Steps, line)
		fmt.Fprintf(&canon, "%s>%s;", o.kind, o.res.class)
		if o.deployAuth != nil && o.res.class == "ok" {
			okDeploys++
		}
		if o.res.class != "ok" {
			refused++
		}
		where := map[string]interface{}{"case": i, "step": k, "what": line, "history": desc.Steps}
		w.oracleState(&o.after, where)
		w.oracleStep(o, where)
		var pterms []string
		if len(o.pre) > 0 {
			w.oracleProbes(&o.before, o.pre, where)
		}
		ps := append(append([]probeObs{}, o.post...), probes[k]...)
		if len(ps) > 0 {
			w.oracleProbes(&o.after, ps, where)
			for _, p := range ps {
				side.Count(fmt.Sprintf("probe:%s:%s", modeNames[p.Mode], p.Res.Class))
				m := o.after.meta(p.To)
				cls := "unregistered"
				switch {
				case isStd(p.To):
					cls = "geth-precompile"
				case m != nil && m.Disabled:
					cls = "registered-disabled"
				case m != nil:
					cls = "registered-enabled"
				}
				if p.Mode == 0 && p.Probe == prGarbage {
					side.Count("probe-target:" + cls)
				}
				pterms = append(pterms, fmt.Sprintf("(%s, %s, %s, %s, %s)", modeNames[p.Mode], viaNames[p.Via], cz(addrZ(p.To)), probeNames[p.Probe], p.Res.coq()))
				if p.Probe == prName && p.Via != 0 {
					side.Count("probe-nested:" + modeNames[p.Mode] + ":" + viaNames[p.Via] + ":" + cls)
				}
			}
			desc.Probes += len(ps)
		}
		var oldTerms []string
		for _, p := range o.hist {
			st := &init
			if p.Ver >= 0 {
				st = &steps[p.Ver].after
			}
			w.oracleProbes(st, []probeObs{p}, where)
			side.Count(fmt.Sprintf("probe-on-older-state:%s:%s", modeNames[p.Mode], p.Res.Class))
			oldTerms = append(oldTerms, fmt.Sprintf("(%s, (%s, %s, %s, %s, %s))", CqNat(p.Ver+1), modeNames[p.Mode], viaNames[p.Via], cz(addrZ(p.To)), probeNames[p.Probe], p.Res.coq()))
		}
		desc.Probes += len(o.hist)
		var preTerms []string
		for _, p := range o.pre {
			preTerms = append(preTerms, fmt.Sprintf("(%s, %s, %s, %s, %s)", modeNames[p.Mode], viaNames[p.Via], cz(addrZ(p.To)), probeNames[p.Probe], p.Res.coq()))
		}
		stepTerms = append(stepTerms, fmt.Sprintf("{| r_kind := %s; r_res := %s; r_metas := %s; r_didx := %s; r_seq := %s; r_prm := %s; r_probes := %s; r_pre := %s; r_old := %s |}",
			o.kind, o.res.coq(), o.after.metasCoq(), o.after.didxCoq(), CqZu(o.after.Seq), paramsCoq(o.after.Params), CqList(pterms), CqList(preTerms), CqList(oldTerms)))
	}
	if w.api {
		side.Count("case-class:with-unrestricted-keeper-calls")
	} else {
		side.Count("case-class:messages-only")
	}
	side.Count("case-kind:" + kind)
	// address table of the module account's sequence numbers
	var caddr []string
	hi := init.Seq + uint64(len(steps)) + 3
	for s := init.Seq; s <= hi; s++ {
		caddr = append(caddr, fmt.Sprintf("(%s, %s)", CqZu(s), cz(addrZ(crypto.CreateAddress(cpctypes.CpcModuleAddress, s)))))
	}
	var sup []string
	ds := append([]string{}, w.denoms...)
	sort.Strings(ds)
	for _, d := range ds {
		v := w.supply0[d]
		if v == nil {
			v = big.NewInt(0)
		}
		sup = append(sup, fmt.Sprintf("(%s, %s)", cz(enc(d)), cz(v)))
	}
	cases.Add(fmt.Sprintf("{| rc_caddr := %s; rc_hrp := %s; rc_metas := %s; rc_didx := %s; rc_seq := %s; rc_prm := %s; rc_supply := %s; rc_steps := %s |}",
		CqList(caddr), cz(enc(w.hrp)), init.metasCoq(), init.didxCoq(), CqZu(init.Seq), paramsCoq(init.Params), CqList(sup), CqList(stepTerms)))
	side.Case(i, canon.String(), okDeploys > 0 && refused > 0, desc)
}
