package registry

import (
	"encoding/json"
	"fmt"
	"testing"
	"time"

	"github.com/ethereum/go-ethereum/common"
	"github.com/ethereum/go-ethereum/common/hexutil"
	"github.com/stretchr/testify/require"

	cpctypes "github.com/EscanBE/evermint/v12/x/cpc/types"
	evmtypes "github.com/EscanBE/evermint/v12/x/evm/types"

	. "verifharness/hx"
)

func TestReproDisabled(t *testing.T) {
	c := NewChain(t, time.Time{})
	ctx := c.Ctx()
	k := c.App.CPCKeeper
	addr := cpctypes.CpcBech32FixedAddress
	call := func() {
		from := c.S.WalletAccounts.Number(1).GetEthAddress()
		data := hexutil.Bytes{0x96, 0x44, 0x3b, 0x16}
		args := evmtypes.TransactionArgs{From: &from, To: &addr, Data: &data}
		bz, _ := json.Marshal(args)
		res, err := c.App.EvmKeeper.EthCall(c.QueryCtx(), &evmtypes.EthCallRequest{Args: bz, GasCap: 1_000_000})
		require.NoError(t, err)
		fmt.Printf("ret=%x vmerr=%q gas=%d\n", res.Ret, res.VmError, res.GasUsed)
	}
	call()
	meta := k.GetCustomPrecompiledContractMeta(ctx, addr)
	require.NotNil(t, meta)
	meta.Disabled = true
	require.NoError(t, k.SetCustomPrecompiledContractMeta(ctx, *meta, false))
	fmt.Println("disabled stored:", k.GetCustomPrecompiledContractMeta(c.Ctx(), addr).Disabled)
	call()
	_ = common.Address{}
}
