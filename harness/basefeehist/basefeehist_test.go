package basefeehist

// Driver `basefeehist` (C09): block HISTORIES of the real application (FinalizeBlock + Commit through
// hx.Chain) in which the fee market parameters change mid-history through the real paths:
//   - governance proposals (MsgSubmitProposal + deposit, MsgVote by every validator, end of the voting
//     period -> executed by gov's EndBlock) carrying x/feemarket MsgUpdateParams and/or x/consensus
//     MsgUpdateParams (block max_gas), one or two messages per proposal, several proposals ending in the
//     same block, invalid ones included;
//   - blocks of arbitrary fill levels (plain transfers = 21000 gas, contract creations that run into INVALID
//     and so burn exactly their gas limit), aimed at target-1 / target / target+1 / limit / over the limit.
// After EVERY committed block the Go oracle checks, on the state the next block starts from, the property
// text: base fee >= trunc(min gas price), base fee >= 0, base fee = EIP-1559(previous, gas used, target)
// clamped (hx.C09SpecNext, an independent re-computation), and for every transaction of the block that was
// executed: effective price >= max(base fee, trunc(min gas price)) of the state it ran against.  Between
// blocks the same kinds of transactions are offered to CheckTx(New), CheckTx(Recheck) and Simulate.
// Everything observed is also compared with coq/Model/BaseFeeHist.v (run_hist, admit_price, sim_admit).

import (
	"fmt"
	"math/big"
	"sort"
	"strings"
	"testing"
	"time"

	sdkmath "cosmossdk.io/math"
	abci "github.com/cometbft/cometbft/abci/types"
	tmproto "github.com/cometbft/cometbft/proto/tendermint/types"
	codectypes "github.com/cosmos/cosmos-sdk/codec/types"
	sdk "github.com/cosmos/cosmos-sdk/types"
	authtypes "github.com/cosmos/cosmos-sdk/x/auth/types"
	banktypes "github.com/cosmos/cosmos-sdk/x/bank/types"
	consensustypes "github.com/cosmos/cosmos-sdk/x/consensus/types"
	govtypes "github.com/cosmos/cosmos-sdk/x/gov/types"
	govv1 "github.com/cosmos/cosmos-sdk/x/gov/types/v1"
	"github.com/ethereum/go-ethereum/common"
	ethtypes "github.com/ethereum/go-ethereum/core/types"
	"github.com/stretchr/testify/require"

	itutiltypes "github.com/EscanBE/evermint/v12/integration_test_util/types"
	evertypes "github.com/EscanBE/evermint/v12/types"
	feemarkettypes "github.com/EscanBE/evermint/v12/x/feemarket/types"

	. "verifharness/hx"
)

var e18 = new(big.Int).Exp(Bi(10), Bi(18), nil)

const (
	votingPeriod  = 30 * time.Minute // integration_test_util genesis (CometBFT disabled)
	gasSubmit     = 500_000
	gasVote       = 200_000
	gasCosmosSend = 200_000
	gasTransfer   = 21_000
	gasBurnerMin  = 53_018 // creation + 1 non-zero byte of init code + 1 word of init code
)

// ------------------------------------------------------------------ descriptions

type gop struct {
	Kind string `json:"kind"` // fee | maxgas
	B    string `json:"base_fee,omitempty"`
	Md   string `json:"min_gas_price_x1e18,omitempty"`
	Mg   int64  `json:"max_gas,omitempty"`
	b    *big.Int
	md   *big.Int
}

func (o gop) coq() string {
	if o.Kind == "fee" {
		return fmt.Sprintf("GSetFee %s %s", CqZ(o.b), CqZ(o.md))
	}
	return fmt.Sprintf("GSetMaxGas %s", CqZi(o.Mg))
}

// what the message handlers accept (x/feemarket Params.Validate, CometBFT ConsensusParams.ValidateBasic)
func (o gop) valid() bool {
	if o.Kind == "fee" {
		return o.b.Sign() >= 0 && o.md.Sign() >= 0
	}
	return o.Mg >= -1
}

type proposal struct {
	ID    uint64    `json:"id"`
	Ops   []gop     `json:"ops"`
	End   time.Time `json:"voting_end"`
	Block int       `json:"submitted_in_block"`
}

func (p *proposal) valid() bool {
	for _, o := range p.Ops {
		if !o.valid() {
			return false
		}
	}
	return true
}

type fstate struct {
	Base *big.Int
	Min  *big.Int // x 1e18
	Mg   int64
}

func (s fstate) String() string { return fmt.Sprintf("base=%s min=%s max_gas=%d", s.Base, s.Min, s.Mg) }

type blockDesc struct {
	Height   int64       `json:"height"`
	Pre      string      `json:"state_before"`
	Used     uint64      `json:"gas_used"`
	Executed []*proposal `json:"proposals_executed"`
	Post     string      `json:"state_after"`
	Fill     string      `json:"fill"`
	Txs      []string    `json:"txs"`
}

type probe struct {
	Mode   string `json:"mode"`
	Lane   string `json:"lane"` // eth | cosmos
	Kind   string `json:"kind"` // legacy | accesslist | dynamic | plain | dynext
	Class  string `json:"price_class"`
	Base   string `json:"base_fee"`
	Gmin   string `json:"global_min_x1e18"`
	Nmin   string `json:"node_min_x1e18"`
	Tip    string `json:"tip"`
	Cap    string `json:"cap"`
	Price  string `json:"price"`
	Eff    string `json:"effective_price"`
	Floor  string `json:"floor"`
	Admit  bool   `json:"admitted"`
	Height int64  `json:"height"`
	dyn    bool
	tip    *big.Int
	cap    *big.Int
	price  *big.Int
	acct   *itutiltypes.TestAccount
	nonce  uint64
	bz     []byte
}

// ------------------------------------------------------------------ world

type world struct {
	t       *testing.T
	c       *Chain
	r       *Rng
	side    *Sidecar
	cases   *CasesFile
	chainID *big.Int
	govAddr string
	vals    []*itutiltypes.TestAccount
	props   []*itutiltypes.TestAccount
	dprobe  []*itutiltypes.TestAccount
	mprobe  []*itutiltypes.TestAccount
	filler  *itutiltypes.TestAccount
	sink    common.Address
	nminDec *big.Int // node min-gas-prices x 1e18 (0 = none)
	nextID  uint64
	pending []*proposal
}

func (w *world) read() fstate {
	ctx := w.c.QueryCtx()
	p := w.c.App.FeeMarketKeeper.GetParams(ctx)
	mg := int64(-1)
	if cp := ctx.ConsensusParams(); cp.Block != nil {
		mg = cp.Block.MaxGas
	}
	return fstate{Base: p.BaseFee.BigInt(), Min: p.MinGasPrice.BigInt(), Mg: mg}
}

func finite(mg int64) bool { return mg > 0 }

// ------------------------------------------------------------------ transactions

func (w *world) ethTx(a *itutiltypes.TestAccount, nonce uint64, kind string, tip, cap, price *big.Int, gas uint64, to *common.Address, data []byte, value int64) []byte {
	var td ethtypes.TxData
	switch kind {
	case "dynamic":
		td = &ethtypes.DynamicFeeTx{ChainID: w.chainID, Nonce: nonce, GasTipCap: tip, GasFeeCap: cap, Gas: gas, To: to, Value: Bi(value), Data: data}
	case "accesslist":
		td = &ethtypes.AccessListTx{ChainID: w.chainID, Nonce: nonce, GasPrice: price, Gas: gas, To: to, Value: Bi(value), Data: data}
	default:
		td = &ethtypes.LegacyTx{Nonce: nonce, GasPrice: price, Gas: gas, To: to, Value: Bi(value), Data: data}
	}
	bz, _, err := w.c.EthTxBytes(a, td)
	require.NoError(w.t, err)
	return bz
}

// cosmosTx: fee = price x gas exactly, so fee/gas = price; tip != nil adds ExtensionOptionDynamicFeeTx.
func (w *world) cosmosTx(a *itutiltypes.TestAccount, seq uint64, gas uint64, price *big.Int, tip *big.Int, msgs ...sdk.Msg) []byte {
	accNum, _ := w.c.AccNumSeq(a.GetCosmosAddress())
	raw := &RawTx{Msgs: msgs, Gas: gas, Fee: w.c.FeeCoins(new(big.Int).Mul(price, new(big.Int).SetUint64(gas)))}
	if tip != nil {
		opt, err := codectypes.NewAnyWithValue(&evertypes.ExtensionOptionDynamicFeeTx{MaxPriorityPrice: sdkmath.NewIntFromBigInt(tip)})
		require.NoError(w.t, err)
		raw.ExtOpts = []*codectypes.Any{opt}
	}
	require.NoError(w.t, raw.SignDirect(w.c.ChainID(), a, accNum, seq))
	bz, err := raw.Encode()
	require.NoError(w.t, err)
	return bz
}

func (w *world) seqOf(a *itutiltypes.TestAccount) uint64 {
	_, s := w.c.AccNumSeq(a.GetCosmosAddress())
	return s
}

// ------------------------------------------------------------------ generators

func pick64(r *Rng, c []int64) int64 { return c[r.Intn(len(c))] }

func dec(intPart *big.Int, frac int64) *big.Int {
	return new(big.Int).Add(new(big.Int).Mul(intPart, e18), Bi(frac))
}

func (w *world) genFeeOp(cur fstate) (gop, string) {
	r := w.r
	b := new(big.Int).Set(cur.Base)
	fl := C09FloorMin(cur.Min)
	fracs := []int64{0, 0, 1, 500_000_000_000_000_000, 999_999_999_999_999_999}
	frac := fracs[r.Intn(len(fracs))]
	var nb, nmd *big.Int
	class := ""
	switch r.Intn(11) {
	case 0: // the proposal carries the base fee current when it was written and raises the minimum above it
		nb, nmd, class = b, dec(new(big.Int).Mul(Badd(b, 1), Bi(5)), frac), "min-far-above-base"
	case 1:
		nb, nmd, class = b, dec(Badd(b, 1), frac), "min-just-above-base"
	case 2:
		nb, nmd, class = b, dec(b, frac), "min-equals-base"
	case 3:
		nb, nmd, class = b, dec(new(big.Int).Quo(b, Bi(2)), frac), "min-below-base"
	case 4:
		nb, nmd, class = b, Bi(frac), "min-zero-int"
	case 5:
		nb, nmd, class = Bi(0), Bi(frac), "base-zero-min-zero-int"
	case 6: // base fee set below the (kept) minimum
		nb, nmd, class = Bsub(maxB(fl, Bi(1)), 1), new(big.Int).Set(cur.Min), "base-below-min"
	case 7:
		nb, nmd, class = new(big.Int).Mul(Badd(b, 1), Bi(2)), new(big.Int).Set(cur.Min), "base-doubled"
	case 8:
		nb, nmd, class = r.PickBig([]*big.Int{Bi(0), Bi(1), Bi(7), Bi(8), Bi(9), Bi(1_000_000_000), Pow2(64), Pow2(96)}), dec(r.BigBits(1+r.Intn(40)), frac), "both-arbitrary"
	case 9:
		nb, nmd, class = Bi(7), dec(Bi(1_000_000_000), frac), "tiny-base-default-min"
	default: // (a negative base fee is refused by MsgUpdateParams.ValidateBasic when the proposal is submitted)
		nb, nmd, class = b, dec(Badd(new(big.Int).Quo(b, Bi(8)), 1+int64(r.Intn(3))).Add(b, Badd(new(big.Int).Quo(b, Bi(8)), 1)), frac), "min-one-step-above-base"
	}
	return gop{Kind: "fee", B: nb.String(), Md: nmd.String(), b: nb, md: nmd}, class
}

var mgChoices = []int64{-1, 0, 1, 2, 3, 42_000, 42_001, 84_000, 126_000, 200_000, 1_000_000, 5_000_000, 40_000_000, 40_000_000, -2}

func (w *world) genMgOp() (gop, string) {
	mg := pick64(w.r, mgChoices)
	if w.r.Chance(15) {
		mg = int64(60_000 + w.r.Intn(400_000))
	}
	return gop{Kind: "maxgas", Mg: mg}, "maxgas:" + mgClass(mg)
}

func mgClass(m int64) string {
	switch {
	case m < -1:
		return "invalid"
	case m == -1:
		return "-1"
	case m == 0:
		return "0"
	case m == 1:
		return "1"
	case m < 21_000:
		return "2..20999"
	case m < 1_000_000:
		return "21000..1e6"
	default:
		return ">=1e6"
	}
}

func maxB(a, b *big.Int) *big.Int {
	if a.Cmp(b) >= 0 {
		return a
	}
	return b
}

// ------------------------------------------------------------------ probes

// genPrice picks (dyn, tip, cap, price) around the floor of the state the transaction runs against.
func (w *world) genPrice(st fstate, nmin *big.Int, prevFloor *big.Int, allowDyn bool) (dyn bool, tip, cap, price *big.Int, class string) {
	r := w.r
	floor := C09Floor(st.Base, st.Min)
	target := floor // the value the effective price is placed around
	class = "floor"
	switch r.Intn(10) {
	case 0, 1:
		if nf := C09FloorMin(nmin); nf.Sign() > 0 {
			target, class = nf, "node-min"
		}
	case 2:
		if prevFloor != nil && prevFloor.Cmp(floor) != 0 {
			target, class = prevFloor, "previous-floor"
		}
	case 3:
		target, class = new(big.Int).Set(st.Base), "base-fee"
	case 4:
		target, class = C09FloorMin(st.Min), "trunc-min"
	}
	off := []int64{-1, -1, 0, 0, 0, 1}[r.Intn(6)]
	eff := Badd(target, off)
	if eff.Sign() < 1 {
		// a transaction paying nothing cannot be expressed: the fee must be exactly one coin of a positive amount
		// (validateSingleFee), whatever the floor is; the lowest price offered is 1
		eff, off = Bi(1), 0
		class += ">=1"
	}
	class += map[int64]string{-1: "-1", 0: "", 1: "+1"}[off]
	dyn = allowDyn && r.Chance(55)
	if !dyn {
		return false, Bi(0), Bi(0), eff, class
	}
	// dynamic: effective = min(tip + base, cap); realise `eff` either through the cap or through the tip
	switch r.Intn(5) {
	case 4: // what a wallet does: no tip, a generous cap; the effective price is the base fee whatever the cap
		tip, cap = Bi(0), Badd(new(big.Int).Mul(maxB(floor, eff), Bi(2)), 10)
		class = "base-fee/tip0-generous-cap"
	case 0: // tip 0, cap = eff (cap = base fee when eff = base)
		tip, cap = Bi(0), eff
		class += "/tip0-cap"
	case 1: // generous tip, cap decides
		tip, cap = new(big.Int).Set(eff), eff
		class += "/tip=cap"
	case 2: // generous cap, tip decides (only possible when eff >= base)
		if eff.Cmp(st.Base) >= 0 {
			tip, cap = new(big.Int).Sub(eff, st.Base), new(big.Int).Add(new(big.Int).Mul(eff, Bi(2)), Bi(10))
			class += "/tip-decides"
		} else {
			tip, cap = Bi(0), eff
			class += "/tip0-cap"
		}
	default:
		tip = r.BigBits(1 + r.Intn(20))
		if tip.Cmp(eff) > 0 {
			tip = new(big.Int).Set(eff)
		}
		cap = eff
		class += "/small-tip-cap"
	}
	if C09EffPrice(true, st.Base, tip, cap, nil).Sign() < 1 { // base fee 0 and tip 0: see above
		tip, cap = Bi(1), maxB(cap, Bi(1))
		class += "/tip>=1"
	}
	return true, tip, cap, Bi(0), class
}

func (w *world) buildProbe(mode string, a *itutiltypes.TestAccount, st fstate, prevFloor *big.Int, allowCosmos bool) *probe {
	r := w.r
	lane := "eth"
	if allowCosmos && r.Chance(35) {
		lane = "cosmos"
	}
	nmin := Bi(0)
	if mode == "check" {
		nmin = w.nminDec
	}
	dyn, tip, cap, price, class := w.genPrice(st, nmin, prevFloor, true)
	p := &probe{Mode: mode, Lane: lane, Class: class, dyn: dyn, tip: tip, cap: cap, price: price, acct: a,
		Base: st.Base.String(), Gmin: st.Min.String(), Nmin: nmin.String()}
	p.nonce = w.seqOf(a)
	if lane == "eth" {
		to := w.sink
		switch {
		case dyn:
			p.Kind = "dynamic"
		case r.Chance(30):
			p.Kind = "accesslist"
		default:
			p.Kind = "legacy"
		}
		p.bz = w.ethTx(a, p.nonce, p.Kind, tip, cap, price, gasTransfer, &to, nil, 1)
	} else {
		msg := &banktypes.MsgSend{FromAddress: a.GetCosmosAddress().String(), ToAddress: sdk.AccAddress(w.sink.Bytes()).String(),
			Amount: sdk.NewCoins(sdk.NewCoin(w.c.Denom(), sdkmath.NewInt(1)))}
		if dyn {
			p.Kind = "dynext"
			p.bz = w.cosmosTx(a, p.nonce, gasCosmosSend, cap, tip, msg)
		} else {
			p.Kind = "plain"
			p.bz = w.cosmosTx(a, p.nonce, gasCosmosSend, price, nil, msg)
		}
	}
	p.Tip, p.Cap, p.Price = tip.String(), cap.String(), price.String()
	eff := C09EffPrice(dyn, st.Base, tip, cap, price)
	p.Eff, p.Floor = eff.String(), C09Floor(st.Base, st.Min).String()
	return p
}

var coqMode = map[string]string{"deliver": "Deliver", "check": "Check", "recheck": "ReCheck", "simulate": "Simulate"}

// record: the model comparison (CProbe) and the oracle of the property text for one probe.
func (w *world) record(p *probe, st fstate, admitted bool, height int64) {
	p.Admit, p.Height = admitted, height
	idx := w.cases.Len()
	w.cases.Add(fmt.Sprintf("CProbe %s %s %s %s %s %s %s %s %s %s", coqMode[p.Mode], CqBool(p.Lane == "eth"), CqBool(p.dyn),
		CqZ(st.Base), CqZ(st.Min), cqZs(p.Nmin), CqZ(p.tip), CqZ(p.cap), CqZ(p.price), CqBool(admitted)))
	eff := C09EffPrice(p.dyn, st.Base, p.tip, p.cap, p.price)
	floor := C09Floor(st.Base, st.Min)
	near := new(big.Int).Sub(eff, floor)
	w.side.Case(idx, fmt.Sprintf("probe/%s/%s/%s/%s/%s/%s/%s/%s", p.Mode, p.Kind, st.Base, st.Min, p.Nmin, p.tip, p.cap, p.price),
		near.IsInt64() && near.Int64() >= -1 && near.Int64() <= 1, p)
	rel := "at-floor"
	if c := eff.Cmp(floor); c < 0 {
		rel = "below-floor"
	} else if c > 0 {
		rel = "above-floor"
	}
	w.side.Count(fmt.Sprintf("probe:%s:%s:%s:admitted=%v", p.Mode, p.Lane+"/"+p.Kind, rel, admitted))
	w.side.Count("probe-class:" + strings.SplitN(p.Class, "/", 2)[0])
	if admitted && eff.Cmp(floor) < 0 {
		which := "base-fee"
		if eff.Cmp(st.Base) >= 0 {
			which = "trunc-min-gas-price"
		}
		switch p.Mode {
		case "deliver":
			w.side.Hit(fmt.Sprintf("C09/basefeehist/price-below-floor-executed/%s/%s/below-%s", p.Lane, p.Kind, which),
				fmt.Sprintf("a %s/%s transaction with effective price %s was executed in block %d against base fee %s, min gas price %s/1e18", p.Lane, p.Kind, eff, height, st.Base, st.Min), p)
		case "check", "recheck":
			w.side.Hit(fmt.Sprintf("C09/basefeehist/price-below-floor-admitted/%s/%s/%s/below-%s", p.Mode, p.Lane, p.Kind, which),
				fmt.Sprintf("%s admitted a %s/%s transaction with effective price %s against base fee %s, min gas price %s/1e18", p.Mode, p.Lane, p.Kind, eff, st.Base, st.Min), p)
		}
	}
}

func cqZs(s string) string {
	z, _ := new(big.Int).SetString(s, 10)
	return CqZ(z)
}

// ------------------------------------------------------------------ one history

func runHistory(t *testing.T, hi int, r *Rng, side *Sidecar, cases *CasesFile) {
	c := NewChain(t, time.Time{})
	w := &world{t: t, c: c, r: r, side: side, cases: cases, nextID: 1}
	w.chainID = c.App.EvmKeeper.GetEip155ChainId(c.QueryCtx()).BigInt()
	w.govAddr = authtypes.NewModuleAddress(govtypes.ModuleName).String()
	rich := Pow2(170)
	for i := 1; i <= 5; i++ {
		v := c.S.ValidatorAccounts.Number(i)
		c.Fund(v.GetCosmosAddress(), c.Denom(), rich)
		w.vals = append(w.vals, v)
	}
	for i := 1; i <= 3; i++ {
		p := c.S.WalletAccounts.Number(i)
		c.Fund(p.GetCosmosAddress(), c.Denom(), rich)
		w.props = append(w.props, p)
	}
	for i := 0; i < 4; i++ {
		w.dprobe = append(w.dprobe, c.NewFundedAccount(7000+i, rich))
	}
	for i := 0; i < 6; i++ {
		w.mprobe = append(w.mprobe, c.NewFundedAccount(7100+i, rich))
	}
	w.filler = c.NewFundedAccount(7200, rich)
	w.sink = c.NewFundedAccount(7201, Bi(1)).GetEthAddress()

	// ---- initial fee market / consensus state (set-up through the keepers, between blocks)
	inits := [][2]*big.Int{
		{Bi(1_000_000_000), dec(Bi(1_000_000_000), 0)},
		{Bi(0), Bi(0)},
		{Bi(0), Bi(999_999_999_999_999_999)},
		{Bi(1), Bi(500_000_000_000_000_000)},
		{Bi(7), Bi(0)},
		{Bi(8), dec(Bi(3), 200_000_000_000_000_000)},
		{Bi(9), dec(Bi(9), 0)},
		{Pow2(64), dec(Bi(12345), 678_000_000_000_000_000)},
		{Bi(1_000_000_123), dec(Bi(999_999_000), 999_999_999_999_999_999)},
		{Pow2(96), Bi(0)},
		{Bi(1_000_000_000), Bi(0)},
		// a legal genesis whose base fee is below the minimum gas price: the first block is priced by the minimum
		{Bi(1_000_000_000), dec(Bi(5_000_000_000), 0)},
		{Bi(0), dec(Bi(7), 500_000_000_000_000_000)},
		{Bi(999), dec(Bi(1000), 999_999_999_999_999_999)},
	}
	in := inits[r.Intn(len(inits))]
	if r.Chance(35) {
		in = inits[0]
	}
	require.NoError(t, c.App.FeeMarketKeeper.SetParams(c.Ctx(), feemarkettypes.Params{BaseFee: sdkmath.NewIntFromBigInt(in[0]),
		MinGasPrice: sdkmath.LegacyNewDecFromBigIntWithPrec(in[1], 18)}))
	mg0 := pick64(r, []int64{40_000_000, 40_000_000, 40_000_000, 5_000_000, 3_000_000, 3_000_001, -1, 0, 200_000, 84_000, 42_000})
	{
		ctx := c.Ctx()
		cp := ctx.ConsensusParams()
		require.NotNil(t, cp.Block)
		cp.Block = &tmproto.BlockParams{MaxBytes: cp.Block.MaxBytes, MaxGas: mg0}
		require.NoError(t, c.App.ConsensusParamsKeeper.ParamsStore.Set(ctx, cp))
	}
	// node-local minimum-gas-prices (check mode only); picked up by the check state at the next commit
	switch r.Intn(4) {
	case 0:
		w.nminDec = dec(Badd(C09Floor(in[0], in[1]), 3), 700_000_000_000_000_000)
	case 1:
		w.nminDec = dec(Bi(3), 0)
	default:
		w.nminDec = Bi(0)
	}
	if w.nminDec.Sign() > 0 {
		TwinSetMinGasPrices(c.App, sdk.NewDecCoinFromDec(c.Denom(), sdkmath.LegacyNewDecFromBigIntWithPrec(w.nminDec, 18)).String())
	}
	side.Count("node-min-gas-prices:" + map[bool]string{true: "set", false: "none"}[w.nminDec.Sign() > 0])

	init := w.read()
	require.Equal(t, mg0, init.Mg)
	side.Count(fmt.Sprintf("initial:base-fee-below-trunc-min=%v", init.Base.Cmp(C09FloorMin(init.Min)) < 0))
	nBlocks := 10 + r.Intn(7)
	steps := []time.Duration{time.Minute, 10 * time.Minute, 10 * time.Minute, 16 * time.Minute, 31 * time.Minute}

	var blocksCoq, obsCoq []string
	var descs []blockDesc
	var prevFloor *big.Int
	feeChanges, moves := 0, 0

	for k := 0; k < nBlocks; k++ {
		pre := w.read()
		c.Step = steps[r.Intn(len(steps))]
		blockTime := c.Time
		height := c.Height
		floor := C09Floor(pre.Base, pre.Min)
		util := Badd(new(big.Int).Mul(floor, Bi(2)), 1) // comfortably above the floor: never the reason of a rejection
		limit := uint64(0)
		if finite(pre.Mg) {
			limit = uint64(pre.Mg)
		}
		var txs [][]byte
		var txNote []string
		var cumLimit uint64 // sum of the gas limits already placed in the block
		fits := func(g uint64) bool { return !finite(pre.Mg) || cumLimit < limit }
		_ = fits

		// ---- 1. deliver-mode probes, first in the block (block gas is never the reason of a rejection)
		var dps []*probe
		nd := r.Intn(len(w.dprobe) + 1)
		if k > 0 && prevFloor != nil && prevFloor.Cmp(floor) != 0 && nd < 2 {
			nd = 2 // right after the floor moved
		}
		if pre.Base.Cmp(C09FloorMin(pre.Min)) < 0 {
			nd = len(w.dprobe) // the minimum gas price, not the base fee, is what prices this block
		}
		for j := 0; j < nd; j++ {
			if finite(pre.Mg) && cumLimit >= limit {
				break
			}
			allowCosmos := !finite(pre.Mg) || limit >= gasCosmosSend
			p := w.buildProbe("deliver", w.dprobe[j], pre, prevFloor, allowCosmos)
			dps = append(dps, p)
			txs = append(txs, p.bz)
			txNote = append(txNote, fmt.Sprintf("probe %s/%s eff=%s", p.Lane, p.Kind, p.Eff))
			if p.Lane == "eth" {
				cumLimit += gasTransfer
			} else {
				cumLimit += gasCosmosSend
			}
		}

		// ---- 2. governance: one submission (+ all votes) per block at most
		govFits := !finite(pre.Mg) || limit >= cumLimit+gasSubmit+5*gasVote+100_000
		var submitted *proposal
		if govFits && k < nBlocks-3 && r.Chance(50) {
			var ops []gop
			var classes []string
			nOps := 1
			if r.Chance(25) {
				nOps = 2
			}
			for j := 0; j < nOps; j++ {
				if r.Chance(65) {
					o, cl := w.genFeeOp(pre)
					ops, classes = append(ops, o), append(classes, "fee:"+cl)
				} else {
					o, cl := w.genMgOp()
					ops, classes = append(ops, o), append(classes, cl)
				}
			}
			var msgs []sdk.Msg
			cp := c.QueryCtx().ConsensusParams()
			for _, o := range ops {
				if o.Kind == "fee" {
					// a negative sdkmath.Int is representable; Params.Validate refuses it when the message runs
					msgs = append(msgs, &feemarkettypes.MsgUpdateParams{Authority: w.govAddr, Params: feemarkettypes.Params{
						BaseFee: sdkmath.NewIntFromBigInt(o.b), MinGasPrice: sdkmath.LegacyNewDecFromBigIntWithPrec(o.md, 18)}})
				} else {
					msgs = append(msgs, &consensustypes.MsgUpdateParams{Authority: w.govAddr,
						Block: &tmproto.BlockParams{MaxBytes: cp.Block.MaxBytes, MaxGas: o.Mg}, Evidence: cp.Evidence, Validator: cp.Validator})
				}
			}
			proposer := w.props[k%len(w.props)]
			sub, err := govv1.NewMsgSubmitProposal(msgs, sdk.NewCoins(sdk.NewCoin(c.Denom(), sdkmath.NewInt(1_000_000))),
				proposer.GetCosmosAddress().String(), "", fmt.Sprintf("h%d-b%d", hi, k), strings.Join(classes, ","), false)
			require.NoError(t, err)
			submitted = &proposal{ID: w.nextID, Ops: ops, End: blockTime.Add(votingPeriod), Block: k}
			txs = append(txs, w.cosmosTx(proposer, w.seqOf(proposer), gasSubmit, util, nil, sub))
			txNote = append(txNote, "gov submit "+strings.Join(classes, ","))
			for _, v := range w.vals {
				txs = append(txs, w.cosmosTx(v, w.seqOf(v), gasVote, util, nil, govv1.NewMsgVote(v.GetCosmosAddress(), submitted.ID, govv1.OptionYes, "")))
				txNote = append(txNote, "gov vote")
			}
			cumLimit += gasSubmit + 5*gasVote
			for _, cl := range classes {
				side.Count("gov-op:" + cl)
			}
		}

		// ---- 3. filler: aim at a fill level
		fill := "none"
		{
			target := C09Target(pre.Mg)
			var aim uint64
			have := false
			exactPossible := submitted == nil // gas of Cosmos transactions is not known in advance
			switch r.Intn(9) {
			case 0:
				fill = "none"
			case 1:
				fill = "one-transfer"
				aim, have = gasTransfer, true
			case 2:
				if target.IsUint64() && target.Uint64() > 1 && target.Uint64() < 30_000_000 {
					fill, aim, have = "target-1", target.Uint64()-1, true
				}
			case 3, 4:
				if target.IsUint64() && target.Uint64() > 0 && target.Uint64() < 30_000_000 {
					fill, aim, have = "target", target.Uint64(), true
				}
			case 5:
				if target.IsUint64() && target.Uint64() < 30_000_000 {
					fill, aim, have = "target+1", target.Uint64()+1, true
				}
			case 6:
				if finite(pre.Mg) && limit < 50_000_000 {
					fill, aim, have = "limit", limit, true
				}
			case 7:
				if finite(pre.Mg) && limit < 50_000_000 {
					fill, aim, have = "over-limit", limit+30_000, true
				}
			default:
				fill, aim, have = "random", uint64(r.Intn(6_000_000)), true
				if finite(pre.Mg) {
					aim = uint64(r.U64() % (limit + 1))
				}
			}
			if have {
				// gas the earlier transactions of the block are expected to use (rejected ones use none)
				var known uint64
				for _, p := range dps {
					eff := C09EffPrice(p.dyn, pre.Base, p.tip, p.cap, p.price)
					if p.Lane == "eth" && eff.Cmp(floor) >= 0 {
						known += gasTransfer
					}
					if p.Lane == "cosmos" {
						exactPossible = false
					}
				}
				_ = exactPossible
				nonce := w.seqOf(w.filler)
				rem := uint64(0)
				if aim > known {
					rem = aim - known
				}
				nTx := 0
				for rem > 0 && nTx < 12 {
					switch {
					case rem >= gasBurnerMin && (rem%gasTransfer != 0 || rem > 5*gasTransfer || r.Chance(50)):
						g := rem
						if g > 2*gasBurnerMin && r.Chance(40) { // split into two burners
							g = gasBurnerMin + uint64(r.U64()%(rem-2*gasBurnerMin+1))
						}
						txs = append(txs, w.ethTx(w.filler, nonce, "legacy", nil, nil, util, g, nil, []byte{0xfe}, 0))
						txNote = append(txNote, fmt.Sprintf("burner %d", g))
						rem -= g
					case rem >= gasTransfer:
						to := w.sink
						txs = append(txs, w.ethTx(w.filler, nonce, "dynamic", Bi(0), util, nil, gasTransfer, &to, nil, 1))
						txNote = append(txNote, "transfer")
						rem -= gasTransfer
					default:
						rem = 0
					}
					nonce++
					nTx++
				}
			}
		}
		side.Count("fill-aim:" + fill)

		// ---- run the block
		res, err := c.RunBlockE(txs)
		require.NoError(t, err, "FinalizeBlock/Commit failed (height %d)", height)
		require.Len(t, res.TxResults, len(txs))
		post := w.read()

		// gas the block consumed, from the transaction results (what BaseApp adds to the block gas meter)
		sum := new(big.Int)
		for _, tr := range res.TxResults {
			g := tr.GasUsed
			if tr.GasWanted > 0 && g > tr.GasWanted {
				g = tr.GasWanted
			}
			if g > 0 {
				sum.Add(sum, Bi(g))
			}
		}
		if finite(pre.Mg) && sum.Cmp(new(big.Int).SetUint64(limit)) > 0 {
			sum.SetUint64(limit)
		}
		require.True(t, sum.IsUint64())
		used := sum.Uint64()

		// governance transactions must have gone through (they are priced above the floor)
		if submitted != nil {
			base := len(dps)
			for j := 0; j < 6; j++ {
				require.Equalf(t, uint32(0), res.TxResults[base+j].Code, "governance transaction %d of block %d failed: %s", j, k, res.TxResults[base+j].Log)
			}
			w.nextID++
			w.pending = append(w.pending, submitted)
			side.Count("gov:submitted")
		}

		// ---- proposals whose voting period ended with this block, in the order gov processes them
		var executed, still []*proposal
		for _, p := range w.pending {
			if !p.End.After(blockTime) {
				executed = append(executed, p)
			} else {
				still = append(still, p)
			}
		}
		w.pending = still
		sort.Slice(executed, func(i, j int) bool {
			if !executed[i].End.Equal(executed[j].End) {
				return executed[i].End.Before(executed[j].End)
			}
			return executed[i].ID < executed[j].ID
		})
		// expected state the fee market end blocker finds (gov first), re-stated here independently of the model
		g := fstate{Base: pre.Base, Min: pre.Min, Mg: pre.Mg}
		mgNext := pre.Mg
		feeTouched := false
		var propsCoq []string
		for _, p := range executed {
			status := c.App.GovKeeper.Proposals
			pr, err := status.Get(c.QueryCtx(), p.ID)
			require.NoError(t, err)
			want := govv1.StatusPassed
			if !p.valid() {
				want = govv1.StatusFailed
			}
			require.Equalf(t, want, pr.Status, "proposal %d (block %d): status %s, expected %s: %s", p.ID, k, pr.Status, want, pr.FailedReason)
			side.Count("gov:executed:" + pr.Status.String())
			var ops []string
			for _, o := range p.Ops {
				ops = append(ops, o.coq())
			}
			propsCoq = append(propsCoq, CqList(ops))
			if p.valid() {
				for _, o := range p.Ops {
					if o.Kind == "fee" {
						g.Base, g.Min = o.b, o.md
						feeTouched = true
						feeChanges++
						switch cmp := C09FloorMin(o.md).Cmp(o.b); {
						case cmp > 0:
							side.Count("gov-fee-at-execution:min-above-carried-base")
						case cmp == 0:
							side.Count("gov-fee-at-execution:min-equals-carried-base")
						default:
							side.Count("gov-fee-at-execution:min-below-carried-base")
						}
					} else {
						mgNext = o.Mg
					}
				}
			}
		}
		if len(executed) > 1 {
			side.Count("gov:several-proposals-in-one-endblock")
		}
		for _, p := range w.pending { // nothing else may have been executed
			pr, err := c.App.GovKeeper.Proposals.Get(c.QueryCtx(), p.ID)
			require.NoError(t, err)
			require.Equal(t, govv1.StatusVotingPeriod, pr.Status)
		}

		bd := blockDesc{Height: height, Pre: pre.String(), Used: used, Executed: executed, Post: post.String(), Fill: fill, Txs: txNote}
		descs = append(descs, bd)
		hdesc := map[string]interface{}{"history": hi, "initial": init.String(), "block_index": k, "block": bd}

		// ---- oracle: the property text on the state the next block starts from
		sfx := ""
		if feeTouched {
			sfx = "/gov-changed-fee-params-in-this-block"
		}
		if post.Base.Sign() < 0 {
			side.Hit("C09/basefeehist/base-fee-negative", fmt.Sprintf("block %d committed base fee %s", height, post.Base), hdesc)
		}
		if post.Base.Cmp(C09FloorMin(post.Min)) < 0 {
			side.Hit("C09/basefeehist/base-fee-below-min-gas-price"+sfx,
				fmt.Sprintf("block %d committed base fee %s below the integer part of the minimum gas price %s/1e18: block %d starts with it", height, post.Base, post.Min, height+1), hdesc)
		}
		want, cl := C09SpecNext(g.Base, used, pre.Mg, g.Min)
		if want.BitLen() <= 256 && post.Base.Cmp(want) != 0 {
			side.Hit("C09/basefeehist/not-eip1559/"+strings.TrimSuffix(cl, "-clamped")+sfx,
				fmt.Sprintf("block %d: base fee %s, gas used %d, max_gas %d, min gas price %s/1e18: next base fee %s, EIP-1559 gives %s (%s)", height, g.Base, used, pre.Mg, g.Min, post.Base, want, cl), hdesc)
		}
		if post.Min.Cmp(g.Min) != 0 || post.Mg != mgNext {
			side.Hit("C09/basefeehist/params-not-as-governed", fmt.Sprintf("block %d: min gas price %s (expected %s), max_gas %d (expected %d)", height, post.Min, g.Min, post.Mg, mgNext), hdesc)
		}
		side.Count("usage:" + cl)
		side.Count("block-max-gas:" + mgClass(pre.Mg))
		if post.Base.Cmp(pre.Base) != 0 {
			moves++
		}

		// ---- deliver probes: executed <=> the sender's sequence moved
		for _, p := range dps {
			admitted := w.seqOf(p.acct) == p.nonce+1
			w.record(p, pre, admitted, height)
		}

		blocksCoq = append(blocksCoq, fmt.Sprintf("(%s, %s)", CqZu(used), CqList(propsCoq)))
		obsCoq = append(obsCoq, fmt.Sprintf("(%s, %s, %s)", CqZ(post.Base), CqZ(post.Min), CqZi(post.Mg)))

		// ---- mempool / simulation probes against the state just committed
		mpOK := !finite(post.Mg) || post.Mg >= gasCosmosSend
		ethOK := !finite(post.Mg) || post.Mg >= gasTransfer
		if ethOK && r.Chance(70) {
			modes := []string{"check", "recheck", "simulate", "check", "recheck", "simulate"}
			for j, a := range w.mprobe {
				if j >= 3 && !r.Chance(40) {
					continue
				}
				p := w.buildProbe(modes[j], a, post, floor, mpOK)
				var admitted bool
				switch p.Mode {
				case "simulate":
					_, _, err := c.App.BaseApp.Simulate(p.bz)
					admitted = err == nil
				default:
					rsp, err := c.CheckTx(p.bz, p.Mode == "recheck")
					require.NoError(t, err)
					admitted = rsp.Code == 0
				}
				w.record(p, post, admitted, c.Height)
			}
		}
		prevFloor = floor
	}

	idx := cases.Len()
	cases.Add(fmt.Sprintf("CHist %s %s %s %s %s", CqZ(init.Base), CqZ(init.Min), CqZi(init.Mg), CqList(blocksCoq), CqList(obsCoq)))
	side.Case(idx, fmt.Sprintf("hist/%d/%s/%v", hi, init.String(), blocksCoq), feeChanges > 0 && moves > 1,
		map[string]interface{}{"history": hi, "initial": init.String(), "node_min_x1e18": w.nminDec.String(), "blocks": descs})
	side.Count(fmt.Sprintf("history:fee-param-changes=%d", minInt(feeChanges, 3)))
}

func minInt(a, b int) int {
	if a < b {
		return a
	}
	return b
}

var _ = abci.ResponseFinalizeBlock{}

func TestDriverBaseFeeHist(t *testing.T) {
	dir := OutDir(t)
	seed := EnvSeed()
	n := EnvInt("VERIF_N", 30)
	rng := NewRng(seed)
	side := NewSidecar("basefeehist", seed,
		"case = one block history of the real application (10..16 blocks; fee-market and block max_gas changes through governance proposals, "+
			"blocks aimed at target-1/target/target+1/limit/over-limit/empty) or one transaction offered in deliver/check/recheck/simulate mode priced "+
			"around the floor; non-trivial = history with at least one executed fee-market proposal and two base-fee moves, probe priced within 1 of the floor; distinct by content")
	cases := NewCases(dir, "From Evm Require Import BaseFee BaseFeeHist CorrBaseFeeHist.", "bfh_mismatches")
	for i := 0; i < n; i++ {
		i := i
		t.Run(fmt.Sprintf("h%d", i), func(t *testing.T) { runHistory(t, i, rng.Fork(uint64(i)), side, cases) })
	}
	cases.Write(t, 400)
	side.Write(t, dir)
}
