package hx

// Node-local configuration through the genuine start-up path (driver `twin`, C01).  Add-only file (owner: C01).
//
// An operator's node differs from its neighbours in app.toml and in the flags of `evmd start`.  This file writes an
// app.toml with evermint's own template (server/config.AppConfig), every setting moved away from its default, reads it
// back with viper exactly as the server does, binds the start-only flags, and builds the application the way
// cmd/evmd/root.go appCreator.newApp does (that function lives in package main and cannot be imported: the list of
// options below mirrors it; TwinAppOptionReads lets the driver notice when the code starts reading another option).
// None of these settings is consensus input: block execution must come out the same on every variant.
//
//   app.toml     minimum-gas-prices, query-gas-limit, pruning (custom), halt-height / halt-time (far ahead),
//                min-retain-blocks, inter-block-cache, index-events, iavl-cache-size, iavl-disable-fastnode,
//                telemetry.* (service name, hostname, labels, prometheus retention, global labels), api.*, grpc.*,
//                grpc-web.*, state-sync.snapshot-interval / keep-recent (snapshots are taken concurrently with the
//                following blocks), mempool.max-txs, evm.tracer, json-rpc.* (every field), tls.*
//   flags        --trace, --inv-check-period, --unsafe-skip-upgrades, --x-crisis-skip-assert-invariants,
//                --trace-store (a writer), --log_level / --log_format (a real logger at debug or trace level, json or
//                text, instead of the no-op logger), --metrics (go-ethereum's metrics switch), --home
//   process-wide telemetry.New(cfg.Telemetry) as server/start.go startTelemetry does: sets a package-level flag of
//                cosmos-sdk/telemetry, so only a separate operating-system process can differ in it.

import (
	"fmt"
	"io"
	"os"
	"path/filepath"
	"reflect"
	"regexp"
	"sort"
	"strings"
	"time"
	"unsafe"

	"cosmossdk.io/log"
	"cosmossdk.io/store"
	"cosmossdk.io/store/snapshots"
	snapshottypes "cosmossdk.io/store/snapshots/types"
	storetypes "cosmossdk.io/store/types"
	sdkdb "github.com/cosmos/cosmos-db"
	"github.com/cosmos/cosmos-sdk/baseapp"
	"github.com/cosmos/cosmos-sdk/client"
	"github.com/cosmos/cosmos-sdk/client/flags"
	sdkserver "github.com/cosmos/cosmos-sdk/server"
	srvconfig "github.com/cosmos/cosmos-sdk/server/config"
	"github.com/cosmos/cosmos-sdk/telemetry"
	"github.com/cosmos/cosmos-sdk/x/crisis"
	gethmetrics "github.com/ethereum/go-ethereum/metrics"
	"github.com/rs/zerolog"
	"github.com/spf13/cast"
	"github.com/spf13/viper"

	chainapp "github.com/EscanBE/evermint/v12/app"
	evconfig "github.com/EscanBE/evermint/v12/server/config"
	srvflags "github.com/EscanBE/evermint/v12/server/flags"
)

// TwinNode is one operator's configuration, parsed.
type TwinNode struct {
	Variant int
	Home    string
	Viper   *viper.Viper    // what the server hands to the app creator as servertypes.AppOptions
	Config  evconfig.Config // the same, parsed and validated (server/config.GetConfig + ValidateBasic)
	Summary string
}

// TwinWriteAppToml writes <home>/config/app.toml for the given variant (0 = evermint's defaults untouched) with the
// template `evmd init` uses, reads it back, binds the start flags.  evmTracer / minGasPrices override the variant's
// values when non-empty (the replica's own settings).
func TwinWriteAppToml(home string, variant int, denom, minGasPrices, evmTracer string) (*TwinNode, error) {
	tmpl, cfgI := evconfig.AppConfig(denom)
	cfg, ok := cfgI.(evconfig.Config)
	if !ok {
		return nil, fmt.Errorf("server/config.AppConfig returns %T: update the harness", cfgI)
	}
	// cmd/evmd/root.go initAppConfig
	cfg.StateSync.SnapshotInterval = 5000
	cfg.StateSync.SnapshotKeepRecent = 2
	cfg.IAVLDisableFastNode = false

	startFlags := map[string]interface{}{}
	if variant > 0 {
		odd := variant%2 == 1
		cfg.MinGasPrices = []string{"2500000000" + denom, "31" + denom + ",0.001utwo"}[variant%2]
		cfg.QueryGasLimit = uint64(3_000_000 * variant)
		cfg.Pruning = "custom"
		cfg.PruningKeepRecent = fmt.Sprint(2 + variant%3)
		cfg.PruningInterval = fmt.Sprint(10 + variant)
		cfg.HaltHeight = 4_000_000_000
		cfg.HaltTime = 7_258_118_400 // year 2200; the histories' block times are in 2030
		cfg.MinRetainBlocks = uint64(40 + variant)
		cfg.InterBlockCache = odd
		cfg.IndexEvents = []string{"message.sender", "ethereum_tx.ethereumTxHash", "tx_receipt.evmTxHash", "transfer.recipient"}[:1+variant%4]
		cfg.IAVLCacheSize = uint64([]int{16, 1000, 2_000_000}[variant%3])
		cfg.IAVLDisableFastNode = !odd
		cfg.AppDBBackend = "memdb"
		cfg.Telemetry = telemetry.Config{ServiceName: "evmd-twin", Enabled: true, EnableHostname: odd, EnableHostnameLabel: true, EnableServiceLabel: odd,
			PrometheusRetentionTime: int64(60 * variant), GlobalLabels: [][]string{{"chain_id", "twin"}, {"role", "sentry"}}}
		cfg.API.Enable, cfg.API.Swagger, cfg.API.EnableUnsafeCORS = true, odd, !odd
		cfg.API.MaxOpenConnections, cfg.API.RPCReadTimeout, cfg.API.RPCWriteTimeout, cfg.API.RPCMaxBodyBytes = 7, 3, 4, 500_000
		cfg.GRPC.Enable, cfg.GRPC.MaxRecvMsgSize, cfg.GRPC.MaxSendMsgSize = true, 1<<20, 1<<21
		cfg.GRPCWeb.Enable = true
		cfg.StateSync.SnapshotInterval = uint64(5 + variant%3)
		cfg.StateSync.SnapshotKeepRecent = 1 + uint32(variant%2)
		cfg.Mempool.MaxTxs = []int{-1, 5000}[variant%2]
		cfg.EVM.Tracer = []string{"json", "struct", "access_list", "markdown"}[variant%4]
		cfg.JSONRPC.Enable = true
		cfg.JSONRPC.API = []string{"eth", "net", "web3", "debug", "personal", "txpool", "miner"}
		cfg.JSONRPC.GasCap = uint64(1_000_000 * variant)
		cfg.JSONRPC.EVMTimeout = time.Duration(variant) * time.Second
		cfg.JSONRPC.TxFeeCap = 0.125
		cfg.JSONRPC.FilterCap, cfg.JSONRPC.FeeHistoryCap, cfg.JSONRPC.LogsCap, cfg.JSONRPC.BlockRangeCap = 5, 7, 11, 13
		cfg.JSONRPC.HTTPTimeout, cfg.JSONRPC.HTTPIdleTimeout = 2*time.Second, 3*time.Second
		cfg.JSONRPC.AllowInsecureUnlock = true
		cfg.JSONRPC.MaxOpenConnections = 3
		cfg.JSONRPC.MetricsAddress = "127.0.0.1:16065"
		startFlags[sdkserver.FlagTrace] = true
		startFlags[sdkserver.FlagInvCheckPeriod] = uint(3 + variant%4)
		startFlags[sdkserver.FlagUnsafeSkipUpgrades] = []int{999_999_999}
		startFlags[crisis.FlagSkipGenesisInvariants] = odd
		startFlags[flags.FlagLogLevel] = []string{"debug", "trace"}[variant%2]
		startFlags[flags.FlagLogFormat] = []string{"json", "plain"}[variant%2]
		startFlags[srvflags.JSONRPCEnableMetrics] = true
	}
	if minGasPrices != "" || variant == 0 {
		if minGasPrices == "" {
			minGasPrices = cfg.MinGasPrices
		}
		cfg.MinGasPrices = minGasPrices
	}
	if evmTracer != "" || variant == 0 {
		cfg.EVM.Tracer = evmTracer
	}
	confDir := filepath.Join(home, "config")
	if err := os.MkdirAll(confDir, 0o755); err != nil {
		return nil, err
	}
	path := filepath.Join(confDir, "app.toml")
	srvconfig.SetConfigTemplate(tmpl)
	srvconfig.WriteConfigFile(path, cfg)

	v := viper.New()
	v.SetConfigType("toml")
	v.SetConfigName("app")
	v.AddConfigPath(confDir)
	if err := v.ReadInConfig(); err != nil {
		return nil, fmt.Errorf("reading back %s: %w", path, err)
	}
	v.Set(flags.FlagHome, home)
	for k, x := range startFlags {
		v.Set(k, x)
	}
	parsed, err := evconfig.GetConfig(v)
	if err != nil {
		return nil, fmt.Errorf("server/config.GetConfig: %w", err)
	}
	if err := parsed.ValidateBasic(); err != nil {
		return nil, fmt.Errorf("the node configuration is refused by ValidateBasic: %w", err)
	}
	if parsed.EVM.Tracer != cfg.EVM.Tracer || parsed.MinGasPrices != cfg.MinGasPrices || parsed.Telemetry.Enabled != cfg.Telemetry.Enabled {
		return nil, fmt.Errorf("app.toml does not round-trip (tracer %q/%q, min gas %q/%q)", parsed.EVM.Tracer, cfg.EVM.Tracer, parsed.MinGasPrices, cfg.MinGasPrices)
	}
	n := &TwinNode{Variant: variant, Home: home, Viper: v, Config: parsed}
	n.Summary = fmt.Sprintf("app.toml variant %d: min-gas=%q tracer=%q pruning=%s/%s/%s inter-block-cache=%v iavl-cache=%d fastnode-off=%v index-events=%v min-retain=%d snapshot-interval=%d "+
		"telemetry=%v api=%v grpc=%v json-rpc=%v(gas-cap %d) trace=%v inv-check-period=%d log=%v/%v", variant, parsed.MinGasPrices, parsed.EVM.Tracer,
		parsed.Pruning, parsed.PruningKeepRecent, parsed.PruningInterval, parsed.InterBlockCache, parsed.IAVLCacheSize, parsed.IAVLDisableFastNode, parsed.IndexEvents,
		parsed.MinRetainBlocks, parsed.StateSync.SnapshotInterval, parsed.Telemetry.Enabled, parsed.API.Enable, parsed.GRPC.Enable, parsed.JSONRPC.Enable, parsed.JSONRPC.GasCap,
		v.GetBool(sdkserver.FlagTrace), v.GetUint(sdkserver.FlagInvCheckPeriod), v.Get(flags.FlagLogLevel), v.Get(flags.FlagLogFormat))
	return n, nil
}

// TwinStartProcessWide does what server/start.go does once per process for this configuration: startTelemetry
// (telemetry.New sets the package-level switch telemetry.IsTelemetryEnabled reads, registers the sinks and the global
// labels) and the --metrics switch of go-ethereum.  Only a process of its own can differ from the others in these.
func TwinStartProcessWide(n *TwinNode) error {
	if n.Config.Telemetry.Enabled {
		m, err := telemetry.New(n.Config.Telemetry)
		if err != nil {
			return err
		}
		if m == nil || !telemetry.IsTelemetryEnabled() {
			return fmt.Errorf("telemetry.New did not enable telemetry")
		}
	}
	if n.Config.JSONRPC.Enable && n.Viper.GetBool(srvflags.JSONRPCEnableMetrics) {
		gethmetrics.Enabled = true // what `--metrics` does (go-ethereum/metrics init scans os.Args); the exporter's listener is not started
	}
	return nil
}

func twinLogger(v *viper.Viper, w io.Writer) log.Logger {
	lvl, _ := v.Get(flags.FlagLogLevel).(string)
	if lvl == "" {
		return log.NewNopLogger()
	}
	zl, err := zerolog.ParseLevel(lvl)
	if err != nil {
		zl = zerolog.DebugLevel
	}
	opts := []log.Option{log.LevelOption(zl), log.TraceOption(v.GetBool(sdkserver.FlagTrace))}
	if f, _ := v.Get(flags.FlagLogFormat).(string); f == "json" {
		opts = append(opts, log.OutputJSONOption())
	}
	return log.NewLogger(w, opts...)
}

func twinDB(c *Chain) (sdkdb.DB, error) {
	cms := reflect.ValueOf(c.App.CommitMultiStore())
	if cms.Kind() != reflect.Ptr || cms.IsNil() {
		return nil, fmt.Errorf("commit multistore is not a pointer")
	}
	f := cms.Elem().FieldByName("db")
	if !f.IsValid() || f.Kind() != reflect.Interface {
		return nil, fmt.Errorf("rootmulti.Store has no interface field `db`: update the harness")
	}
	db := *(*sdkdb.DB)(unsafe.Pointer(f.UnsafeAddr()))
	if db == nil {
		return nil, fmt.Errorf("nil database")
	}
	return db, nil
}

// TwinRestartNode replaces the replica's application by a NEW instance opened on the same database and configured
// like cmd/evmd/root.go appCreator.newApp configures it from the node's app options, then does what server/start.go
// does with the application when api / grpc / json-rpc are enabled (the gRPC query services are registered).
func TwinRestartNode(c *Chain, n *TwinNode) error {
	db, err := twinDB(c)
	if err != nil {
		return err
	}
	appOpts := n.Viper
	// ---- mirror of appCreator.newApp
	var cache storetypes.MultiStorePersistentCache
	if cast.ToBool(appOpts.Get(sdkserver.FlagInterBlockCache)) {
		cache = store.NewCommitKVStoreCacheManager()
	}
	skipUpgradeHeights := make(map[int64]bool)
	for _, h := range cast.ToIntSlice(appOpts.Get(sdkserver.FlagUnsafeSkipUpgrades)) {
		skipUpgradeHeights[int64(h)] = true
	}
	pruningOpts, err := sdkserver.GetPruningOptionsFromFlags(appOpts)
	if err != nil {
		return err
	}
	homeDir := cast.ToString(appOpts.Get(flags.FlagHome))
	twinRestartSeq++
	snapshotDir := filepath.Join(homeDir, "data", "snapshots", fmt.Sprintf("%d", twinRestartSeq))
	if err := os.MkdirAll(snapshotDir, 0o755); err != nil {
		return err
	}
	snapshotStore, err := snapshots.NewStore(sdkdb.NewMemDB(), snapshotDir)
	if err != nil {
		return err
	}
	snapshotOptions := snapshottypes.NewSnapshotOptions(
		cast.ToUint64(appOpts.Get(sdkserver.FlagStateSyncSnapshotInterval)),
		cast.ToUint32(appOpts.Get(sdkserver.FlagStateSyncSnapshotKeepRecent)),
	)
	var traceStore io.Writer
	if n.Variant > 0 {
		traceStore = io.Discard // --trace-store <file>
	}
	logger := twinLogger(n.Viper, io.Discard)
	app := chainapp.NewEvermint(
		logger, db, traceStore, true, skipUpgradeHeights,
		cast.ToString(appOpts.Get(flags.FlagHome)),
		cast.ToUint(appOpts.Get(sdkserver.FlagInvCheckPeriod)),
		c.S.EncodingConfig,
		appOpts,
		baseapp.SetPruning(pruningOpts),
		baseapp.SetMinGasPrices(cast.ToString(appOpts.Get(sdkserver.FlagMinGasPrices))),
		baseapp.SetHaltHeight(cast.ToUint64(appOpts.Get(sdkserver.FlagHaltHeight))),
		baseapp.SetHaltTime(cast.ToUint64(appOpts.Get(sdkserver.FlagHaltTime))),
		baseapp.SetMinRetainBlocks(cast.ToUint64(appOpts.Get(sdkserver.FlagMinRetainBlocks))),
		baseapp.SetInterBlockCache(cache),
		baseapp.SetTrace(cast.ToBool(appOpts.Get(sdkserver.FlagTrace))),
		baseapp.SetIndexEvents(cast.ToStringSlice(appOpts.Get(sdkserver.FlagIndexEvents))),
		baseapp.SetSnapshot(snapshotStore, snapshotOptions),
		baseapp.SetIAVLCacheSize(cast.ToInt(appOpts.Get(sdkserver.FlagIAVLCacheSize))),
		baseapp.SetIAVLDisableFastNode(cast.ToBool(appOpts.Get(sdkserver.FlagDisableIAVLFastNode))),
		baseapp.SetChainID(c.S.ChainConstantsConfig.GetCosmosChainID()),
	)
	if app.LastBlockHeight() != c.Height-1 {
		return fmt.Errorf("restarted instance is at height %d, expected %d", app.LastBlockHeight(), c.Height-1)
	}
	// ---- server/start.go startInProcess: services a node with api / grpc / json-rpc enabled registers on the application
	if n.Config.API.Enable || n.Config.GRPC.Enable || n.Config.JSONRPC.Enable {
		clientCtx := client.Context{}.WithCodec(c.S.EncodingConfig.Codec).WithInterfaceRegistry(c.S.EncodingConfig.InterfaceRegistry).
			WithTxConfig(c.S.EncodingConfig.TxConfig).WithChainID(c.S.ChainConstantsConfig.GetCosmosChainID()).WithHomeDir(n.Home)
		app.RegisterTxService(clientCtx)
		app.RegisterTendermintService(clientCtx)
		app.RegisterNodeService(clientCtx, n.Config.Config)
	}
	c.App = app
	return nil
}

var twinRestartSeq int

var reAppOptRead = regexp.MustCompile(`appOpts\.Get\(([^)]*)\)`)

// TwinAppOptionReads lists every `appOpts.Get(<expr>)` in the non-test Go sources of cmd/, app/ and x/ of the repository
// under test as "<relative file>: <expr>", sorted.  The driver compares the list with the one this harness was written
// for: an option the code newly reads is a node-local input the twin run does not vary yet.
func TwinAppOptionReads(repo string) ([]string, error) {
	var out []string
	for _, top := range []string{"cmd", "app", "x"} {
		err := filepath.Walk(filepath.Join(repo, top), func(p string, info os.FileInfo, err error) error {
			if err != nil {
				return err
			}
			if info.IsDir() || !strings.HasSuffix(p, ".go") || strings.HasSuffix(p, "_test.go") {
				return nil
			}
			bz, err := os.ReadFile(p)
			if err != nil {
				return err
			}
			rel, _ := filepath.Rel(repo, p)
			for _, m := range reAppOptRead.FindAllStringSubmatch(string(bz), -1) {
				out = append(out, rel+": "+strings.TrimSpace(m[1]))
			}
			return nil
		})
		if err != nil {
			return nil, err
		}
	}
	sort.Strings(out)
	return out, nil
}

// TwinKnownAppOptionReads: the reads the harness mirrors (cmd/evmd/root.go newApp, app/app.go, app/keepers/keepers.go).
var TwinKnownAppOptionReads = []string{
	"app/app.go: crisis.FlagSkipGenesisInvariants",
	"app/keepers/keepers.go: srvflags.EVMTracer",
	"cmd/evmd/root.go: flags.FlagChainID",
	"cmd/evmd/root.go: flags.FlagHome",
	"cmd/evmd/root.go: flags.FlagHome",
	"cmd/evmd/root.go: flags.FlagHome",
	"cmd/evmd/root.go: sdkserver.FlagDisableIAVLFastNode",
	"cmd/evmd/root.go: sdkserver.FlagHaltHeight",
	"cmd/evmd/root.go: sdkserver.FlagHaltTime",
	"cmd/evmd/root.go: sdkserver.FlagIAVLCacheSize",
	"cmd/evmd/root.go: sdkserver.FlagIndexEvents",
	"cmd/evmd/root.go: sdkserver.FlagInterBlockCache",
	"cmd/evmd/root.go: sdkserver.FlagInvCheckPeriod",
	"cmd/evmd/root.go: sdkserver.FlagMinGasPrices",
	"cmd/evmd/root.go: sdkserver.FlagMinRetainBlocks",
	"cmd/evmd/root.go: sdkserver.FlagStateSyncSnapshotInterval",
	"cmd/evmd/root.go: sdkserver.FlagStateSyncSnapshotKeepRecent",
	"cmd/evmd/root.go: sdkserver.FlagTrace",
	"cmd/evmd/root.go: sdkserver.FlagUnsafeSkipUpgrades",
}
