package hx

// C09: the property text re-stated in Go, independent of both the implementation under test and the Coq
// model (add-only file, owner C09; used by the drivers `basefee` and `basefeehist`).
//
//	"The base fee for the next block is the EIP-1559 function of the current base fee b and the gas consumed in
//	 the current block: unchanged when usage equals the gas target (half the block gas limit), otherwise moved
//	 toward usage by b x |used - target| / target / 8 in integer arithmetic (at least 1 when usage is above the
//	 target), never negative and never below the integer part of the configured minimum gas price."

import "math/big"

var c09E18 = new(big.Int).Exp(big.NewInt(10), big.NewInt(18), nil)

// C09GasLimit: consensus max_gas -1 = unlimited (2^64-1), otherwise taken literally.
func C09GasLimit(maxGas int64) *big.Int {
	if maxGas > -1 {
		return big.NewInt(maxGas)
	}
	return new(big.Int).SetUint64(^uint64(0))
}

func C09Target(maxGas int64) *big.Int { return new(big.Int).Quo(C09GasLimit(maxGas), big.NewInt(2)) }

// C09FloorMin is the integer part of a minimum gas price given as value x 10^18.
func C09FloorMin(minDec *big.Int) *big.Int { return new(big.Int).Quo(minDec, c09E18) }

// C09Eip1559 is the unclamped EIP-1559 step. A target of zero (max_gas 0 or 1) gives usage nothing to be
// measured against: the base fee is kept (the division by the target is undefined).
func C09Eip1559(b *big.Int, used uint64, maxGas int64) (next *big.Int, class string) {
	t := C09Target(maxGas)
	u := new(big.Int).SetUint64(used)
	switch {
	case t.Sign() == 0:
		return new(big.Int).Set(b), "zero-target"
	case u.Cmp(t) == 0:
		return new(big.Int).Set(b), "at-target"
	case u.Cmp(t) > 0:
		d := new(big.Int).Sub(u, t)
		d.Mul(d, b).Quo(d, t).Quo(d, big.NewInt(8))
		if d.Sign() < 1 {
			d = big.NewInt(1)
		}
		return d.Add(d, b), "above-target"
	default:
		d := new(big.Int).Sub(t, u)
		d.Mul(d, b).Quo(d, t).Quo(d, big.NewInt(8))
		d.Sub(b, d)
		if d.Sign() < 0 {
			d = big.NewInt(0)
		}
		return d, "below-target"
	}
}

// C09SpecNext = max(EIP-1559 step, integer part of the minimum gas price).
func C09SpecNext(b *big.Int, used uint64, maxGas int64, minDec *big.Int) (next *big.Int, class string) {
	n, cl := C09Eip1559(b, used, maxGas)
	if f := C09FloorMin(minDec); n.Cmp(f) < 0 {
		return f, cl + "-clamped"
	}
	return n, cl
}

// C09EffPrice: dynamic-fee = min(tip + base fee, fee cap); otherwise the gas price.
func C09EffPrice(dyn bool, base, tip, cap, price *big.Int) *big.Int {
	if !dyn {
		return new(big.Int).Set(price)
	}
	e := new(big.Int).Add(tip, base)
	if e.Cmp(cap) > 0 {
		return new(big.Int).Set(cap)
	}
	return e
}

// C09Floor = max(base fee, integer part of the global minimum gas price).
func C09Floor(base, minDec *big.Int) *big.Int {
	f := C09FloorMin(minDec)
	if base.Cmp(f) > 0 {
		return new(big.Int).Set(base)
	}
	return f
}
