package hx

// Contracts for the `twin` driver (C01).  Add-only file (owner: C01); uses the assembler of asm_staticstaking.go.

const (
	opDUP6      byte = 0x85
	opTIMESTAMP byte = 0x42
)

// BuildMultiCaller: calldata = n x 20-byte addresses; CALLs each of them in order with value 0, no data and all
// remaining gas, ignoring the outcome.  One transaction can so touch / trigger any number of accounts.
func BuildMultiCaller() []byte {
	a := NewAsm()
	a.PushU(0)                                            // [i]
	a.Label("loop")                                       // [i]
	a.Op(OpCALLDATASIZE, opDUP2, opLT, OpISZERO)           // [!(i<size), i]
	a.PushLabel("end").Op(OpJUMPI)                         // [i]
	a.PushU(0).PushU(0).PushU(0).PushU(0).PushU(0)         // outSize outOff inSize inOff value
	a.Op(opDUP6, opCALLDATALOAD).PushU(96).Op(opSHR)       // [addr, 0,0,0,0,0, i]
	a.Op(OpGAS, OpCALL, OpPOP)                             // [i]
	a.PushU(20).Op(opADD)                                  // [i+20]
	a.PushLabel("loop").Op(OpJUMP)
	a.Label("end").Op(OpSTOP)
	return a.Bytes()
}

// BuildClock: storage[0] := TIMESTAMP, storage[1] := NUMBER, LOG0(timestamp word): a contract whose effects show
// any disagreement about block time / height.
func BuildClock() []byte {
	a := NewAsm()
	a.Op(opTIMESTAMP).PushU(0).Op(opSSTORE)
	a.Op(opNUMBER).PushU(1).Op(opSSTORE)
	a.Op(opTIMESTAMP).PushU(0).Op(OpMSTORE)
	a.PushU(32).PushU(0).Op(opLOG0)
	a.Op(OpSTOP)
	return a.Bytes()
}
