package hx

// Contracts for the `twin` driver (C01).  Add-only file (owner: C01); uses the assembler of asm_staticstaking.go.

const (
	opDUP6      byte = 0x85
	opTIMESTAMP byte = 0x42
)

// BuildMultiCaller: calldata = n x 20-byte addresses; CALLs each of them in order with value 0, no data and all
// remaining gas, ignoring the outcome.  One transaction can so touch / trigger any number of accounts.
func BuildMultiCaller() []byte {
	a := NewAsm()
	a.PushU(0)                                            // [i]
	a.Label("loop")                                       // [i]
	a.Op(OpCALLDATASIZE, opDUP2, opLT, OpISZERO)           // [!(i<size), i]
	a.PushLabel("end").Op(OpJUMPI)                         // [i]
	a.PushU(0).PushU(0).PushU(0).PushU(0).PushU(0)         // outSize outOff inSize inOff value
	a.Op(opDUP6, opCALLDATALOAD).PushU(96).Op(opSHR)       // [addr, 0,0,0,0,0, i]
	a.Op(OpGAS, OpCALL, OpPOP)                             // [i]
	a.PushU(20).Op(opADD)                                  // [i+20]
	a.PushLabel("loop").Op(OpJUMP)
	a.Label("end").Op(OpSTOP)
	return a.Bytes()
}

// BuildClock: storage[0] := TIMESTAMP, storage[1] := NUMBER, and every other input the block context offers —
// COINBASE, DIFFICULTY/PREVRANDAO, GASLIMIT, CHAINID, BASEFEE, GASPRICE, ORIGIN, BLOCKHASH of the three previous blocks and
// of the block 200 back — written to memory, emitted as one LOG0 and stored as a hash in storage[2]: a contract whose
// effects show any disagreement about the block being executed.
func BuildClock() []byte {
	const (
		opKECCAK256 byte = 0x20
		opORIGIN    byte = 0x32
		opGASPRICE  byte = 0x3a
		opBLOCKHASH byte = 0x40
		opCOINBASE  byte = 0x41
		opDIFFIC    byte = 0x44
		opGASLIMIT  byte = 0x45
		opCHAINID   byte = 0x46
		opBASEFEE   byte = 0x48
		opSUB       byte = 0x03
	)
	a := NewAsm()
	a.Op(opTIMESTAMP).PushU(0).Op(opSSTORE)
	a.Op(opNUMBER).PushU(1).Op(opSSTORE)
	off := uint64(0)
	put := func(ops ...byte) {
		a.Op(ops...).PushU(off).Op(OpMSTORE)
		off += 32
	}
	put(opTIMESTAMP)
	put(opNUMBER)
	put(opCOINBASE)
	put(opDIFFIC)
	put(opGASLIMIT)
	put(opCHAINID)
	put(opBASEFEE)
	put(opGASPRICE)
	put(opORIGIN)
	for _, back := range []uint64{1, 2, 3, 200} {
		a.PushU(back).Op(opNUMBER, opSUB, opBLOCKHASH).PushU(off).Op(OpMSTORE) // BLOCKHASH(NUMBER - back)
		off += 32
	}
	a.PushU(off).PushU(0).Op(opLOG0)
	a.PushU(off).PushU(0).Op(opKECCAK256).PushU(2).Op(opSSTORE)
	a.Op(OpSTOP)
	return a.Bytes()
}
