package hx

// Replicas for the `twin` driver (C01): application instances that start from byte-identical genesis state.
//
// The integration suite behind NewChain stamps its first block header with time.Now() (test scaffolding, not chain
// code); that header is stored by x/staking (HistoricalInfo) and from then on every header carries the previous app
// hash, so two suites never agree on an app hash.  A replica is therefore built from the exported constructor the
// suite itself uses (itutiltypes.NewChainApp: NewEvermint + InitChain with the suite's genesis: same validator and
// wallet keys, balances, module params) and its first block is executed by the harness with a fixed header time.
// Signing, encoding and the chain constants come from one reference suite; all state comes from the replica's own app.

import (
	"fmt"
	"math/big"
	"reflect"
	"testing"
	"time"
	"unsafe"

	"cosmossdk.io/log"
	"cosmossdk.io/store"
	cmtdb "github.com/cometbft/cometbft-db"
	sdkdb "github.com/cosmos/cosmos-db"
	"github.com/cosmos/cosmos-sdk/baseapp"
	"github.com/cosmos/cosmos-sdk/client/flags"
	simtestutil "github.com/cosmos/cosmos-sdk/testutil/sims"
	sdk "github.com/cosmos/cosmos-sdk/types"

	chainapp "github.com/EscanBE/evermint/v12/app"
	itu "github.com/EscanBE/evermint/v12/integration_test_util"
	itutiltypes "github.com/EscanBE/evermint/v12/integration_test_util/types"
)

// TwinGenesisTime is the header time of every replica's first block.
var TwinGenesisTime = time.Date(2029, 12, 31, 0, 0, 0, 0, time.UTC)

// NewTwinReplica builds a fresh application instance from the reference chain's genesis and commits block 1.
// The returned Chain shares ref's suite (keys, codec, chain constants) but executes on its own app.
func NewTwinReplica(t *testing.T, ref *Chain, start time.Time) *Chain {
	cfg := itu.IntegrationTestChain1
	cfg.EvmChainIdBigInt = big.NewInt(cfg.EvmChainId)
	bal := sdk.NewCoins(sdk.NewCoin(cfg.BaseDenom, ref.S.TestConfig.InitBalanceAmount))
	for _, u := range ref.S.TestConfig.SecondaryDenomUnits {
		bal = bal.Add(sdk.NewCoin(u.Denom, ref.S.TestConfig.InitBalanceAmount))
	}
	ca, _, _ := itutiltypes.NewChainApp(cfg, true, ref.S.TestConfig, ref.S.EncodingConfig, cmtdb.NewMemDB(),
		ref.S.ValidatorAccounts, ref.S.WalletAccounts, bal, itutiltypes.NewTemporaryHolder(), log.NewNopLogger())
	app := ca.IbcTestingApp().(*chainapp.Evermint)
	if start.IsZero() {
		start = time.Date(2030, 1, 1, 0, 0, 0, 0, time.UTC)
	}
	c := &Chain{T: t, S: ref.S, App: app, Height: 1, Time: TwinGenesisTime, Step: 5 * time.Second}
	c.RunBlock(nil)
	c.Time = start
	return c
}

// TwinRestart replaces the replica's application by a NEW instance opened on the same database, the way a node
// process is restarted: everything held in memory (keeper fields, caches, check state, IAVL node caches) is gone, the
// committed state is read back from the store.  The new instance gets its node-local configuration through the
// genuine start-up path: app options (evm.tracer) and baseapp options (minimum-gas-prices).
// The database handle is the one NewChainApp created internally (rootmulti.Store.db, unexported).
func TwinRestart(c *Chain, minGasPrices, evmTracer string, more ...func(*baseapp.BaseApp)) error {
	cms := reflect.ValueOf(c.App.CommitMultiStore())
	if cms.Kind() != reflect.Ptr || cms.IsNil() {
		return fmt.Errorf("commit multistore is not a pointer")
	}
	f := cms.Elem().FieldByName("db")
	if !f.IsValid() || f.Kind() != reflect.Interface {
		return fmt.Errorf("rootmulti.Store has no interface field `db`: update the harness")
	}
	db := *(*sdkdb.DB)(unsafe.Pointer(f.UnsafeAddr()))
	if db == nil {
		return fmt.Errorf("nil database")
	}
	opts := simtestutil.AppOptionsMap{flags.FlagHome: chainapp.DefaultNodeHome, "evm.tracer": evmTracer}
	bopts := append([]func(*baseapp.BaseApp){baseapp.SetChainID(c.S.ChainConstantsConfig.GetCosmosChainID()), baseapp.SetMinGasPrices(minGasPrices)}, more...)
	app := chainapp.NewEvermint(log.NewNopLogger(), db, nil, true, map[int64]bool{}, chainapp.DefaultNodeHome, 0,
		c.S.EncodingConfig, opts, bopts...)
	if app.LastBlockHeight() != c.Height-1 {
		return fmt.Errorf("restarted instance is at height %d, expected %d", app.LastBlockHeight(), c.Height-1)
	}
	c.App = app
	return nil
}

// TwinNodeStoreOptions: store-level settings of app.toml an operator may choose (start-up options of BaseApp):
// variant 1 = inter-block cache and a tiny IAVL node cache, variant 2 = IAVL fast node disabled and a huge node cache,
// anything else = the defaults.
func TwinNodeStoreOptions(variant int) []func(*baseapp.BaseApp) {
	switch variant % 3 {
	case 1:
		return []func(*baseapp.BaseApp){baseapp.SetInterBlockCache(store.NewCommitKVStoreCacheManager()), baseapp.SetIAVLCacheSize(16)}
	case 2:
		return []func(*baseapp.BaseApp){baseapp.SetIAVLDisableFastNode(true), baseapp.SetIAVLCacheSize(2_000_000)}
	}
	return nil
}
