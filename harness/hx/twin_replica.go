package hx

// Replicas for the `twin` driver (C01): application instances that start from byte-identical genesis state.
//
// The integration suite behind NewChain stamps its first block header with time.Now() (test scaffolding, not chain
// code); that header is stored by x/staking (HistoricalInfo) and from then on every header carries the previous app
// hash, so two suites never agree on an app hash.  A replica is therefore built from the exported constructor the
// suite itself uses (itutiltypes.NewChainApp: NewEvermint + InitChain with the suite's genesis: same validator and
// wallet keys, balances, module params) and its first block is executed by the harness with a fixed header time.
// Signing, encoding and the chain constants come from one reference suite; all state comes from the replica's own app.

import (
	"math/big"
	"testing"
	"time"

	"cosmossdk.io/log"
	cmtdb "github.com/cometbft/cometbft-db"
	sdk "github.com/cosmos/cosmos-sdk/types"

	chainapp "github.com/EscanBE/evermint/v12/app"
	itu "github.com/EscanBE/evermint/v12/integration_test_util"
	itutiltypes "github.com/EscanBE/evermint/v12/integration_test_util/types"
)

// TwinGenesisTime is the header time of every replica's first block.
var TwinGenesisTime = time.Date(2029, 12, 31, 0, 0, 0, 0, time.UTC)

// NewTwinReplica builds a fresh application instance from the reference chain's genesis and commits block 1.
// The returned Chain shares ref's suite (keys, codec, chain constants) but executes on its own app.
func NewTwinReplica(t *testing.T, ref *Chain, start time.Time) *Chain {
	cfg := itu.IntegrationTestChain1
	cfg.EvmChainIdBigInt = big.NewInt(cfg.EvmChainId)
	bal := sdk.NewCoins(sdk.NewCoin(cfg.BaseDenom, ref.S.TestConfig.InitBalanceAmount))
	for _, u := range ref.S.TestConfig.SecondaryDenomUnits {
		bal = bal.Add(sdk.NewCoin(u.Denom, ref.S.TestConfig.InitBalanceAmount))
	}
	ca, _, _ := itutiltypes.NewChainApp(cfg, true, ref.S.TestConfig, ref.S.EncodingConfig, cmtdb.NewMemDB(),
		ref.S.ValidatorAccounts, ref.S.WalletAccounts, bal, itutiltypes.NewTemporaryHolder(), log.NewNopLogger())
	app := ca.IbcTestingApp().(*chainapp.Evermint)
	if start.IsZero() {
		start = time.Date(2030, 1, 1, 0, 0, 0, 0, time.UTC)
	}
	c := &Chain{T: t, S: ref.S, App: app, Height: 1, Time: TwinGenesisTime, Step: 5 * time.Second}
	c.RunBlock(nil)
	c.Time = start
	return c
}
