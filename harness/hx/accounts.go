package hx

import (
	"crypto/sha256"
	"fmt"
	"math/big"

	sdk "github.com/cosmos/cosmos-sdk/types"
	"github.com/stretchr/testify/require"

	"github.com/EscanBE/evermint/v12/crypto/ethsecp256k1"
	itu "github.com/EscanBE/evermint/v12/integration_test_util"
	itutiltypes "github.com/EscanBE/evermint/v12/integration_test_util/types"
)

// NewKeyAccount returns a deterministic test account (key = sha256("verif-account-<n>")); it exists on chain only once funded.
func (c *Chain) NewKeyAccount(n int) *itutiltypes.TestAccount {
	k := sha256.Sum256([]byte(fmt.Sprintf("verif-account-%d", n)))
	a := itu.NewTestAccount(c.T, &ethsecp256k1.PrivKey{Key: k[:]})
	a.Type = itutiltypes.TestAccountTypeWallet
	return a
}

// NewFundedAccount = NewKeyAccount + an auth account + amt of the EVM denom, written to the commit multistore (between blocks).
func (c *Chain) NewFundedAccount(n int, amt *big.Int) *itutiltypes.TestAccount {
	a := c.NewKeyAccount(n)
	ctx := c.Ctx()
	addr := sdk.AccAddress(a.GetEthAddress().Bytes())
	if c.App.AccountKeeper.GetAccount(ctx, addr) == nil {
		acc := c.App.AccountKeeper.NewAccountWithAddress(ctx, addr)
		c.App.AccountKeeper.SetAccount(ctx, acc)
	}
	if amt != nil && amt.Sign() > 0 {
		c.Fund(addr, c.Denom(), amt)
	}
	require.NotNil(c.T, c.App.AccountKeeper.GetAccount(ctx, addr))
	return a
}
