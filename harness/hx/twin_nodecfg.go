package hx

// Node-local configuration of one application instance (driver `twin`, C01).
// These are the settings an operator writes into app.toml / passes as flags; they are not part of the
// replicated state and differ from node to node:
//   minimum-gas-prices  -> baseapp.SetMinGasPrices (the option function the server applies at start-up)
//   evm.tracer          -> cast.ToString(appOpts.Get("evm.tracer")) handed to evmkeeper.NewKeeper (app/keepers/keepers.go)
// The integration suite builds the application with fixed app options, so the tracer name is written into the
// keeper's unexported field afterwards; the value is exactly what NewKeeper would have stored.

import (
	"fmt"
	"reflect"
	"unsafe"

	"github.com/cosmos/cosmos-sdk/baseapp"

	chainapp "github.com/EscanBE/evermint/v12/app"
)

// TwinSetMinGasPrices sets the node's minimum-gas-prices (e.g. "1000000000wei"; "" = none).
func TwinSetMinGasPrices(app *chainapp.Evermint, prices string) {
	baseapp.SetMinGasPrices(prices)(app.BaseApp)
}

// TwinSetEvmTracer sets the node's evm.tracer ("", "json", "struct", "access_list", "markdown").
func TwinSetEvmTracer(app *chainapp.Evermint, tracer string) error {
	v := reflect.ValueOf(app.EvmKeeper)
	if v.Kind() != reflect.Ptr || v.IsNil() {
		return fmt.Errorf("EvmKeeper is not a pointer")
	}
	f := v.Elem().FieldByName("tracer")
	if !f.IsValid() || f.Kind() != reflect.String {
		return fmt.Errorf("evm keeper has no string field `tracer` (the node-local tracer setting moved: update the harness)")
	}
	*(*string)(unsafe.Pointer(f.UnsafeAddr())) = tracer
	return nil
}

// TwinGetEvmTracer reads the node's evm.tracer back from the keeper (to check that a restart configured it).
func TwinGetEvmTracer(app *chainapp.Evermint) (string, error) {
	v := reflect.ValueOf(app.EvmKeeper)
	if v.Kind() != reflect.Ptr || v.IsNil() {
		return "", fmt.Errorf("EvmKeeper is not a pointer")
	}
	f := v.Elem().FieldByName("tracer")
	if !f.IsValid() || f.Kind() != reflect.String {
		return "", fmt.Errorf("evm keeper has no string field `tracer`")
	}
	return f.String(), nil
}
