package hx

// Fee sponsoring for the twin-chain `staking` driver (C11).  Add-only file (owner: C11).
//
// Transactions must pay a real fee (the ante handler rejects an effective fee of zero), but the two chains of a twin
// pay different fees to different payers (an Ethereum transaction by the sender with a refund of unused gas on A, a
// Cosmos transaction by the delegator without refund on B) and collected fees become staking rewards in the next
// block.  To compare the twins to the last coin the harness sponsors every fee: before the block it mints exactly the
// up-front fee (gas limit x price) to the payer, so that while the transaction executes the payer's balance is what
// it was before; after the block it burns what the fee collector received and what was refunded to the payer.  Net
// effect of the fee on balances, supply and rewards: none.

import (
	"math/big"

	sdkmath "cosmossdk.io/math"
	abci "github.com/cometbft/cometbft/abci/types"
	sdk "github.com/cosmos/cosmos-sdk/types"
	authtypes "github.com/cosmos/cosmos-sdk/x/auth/types"
	"github.com/ethereum/go-ethereum/common"
	ethtypes "github.com/ethereum/go-ethereum/core/types"
	"github.com/stretchr/testify/require"

	itutiltypes "github.com/EscanBE/evermint/v12/integration_test_util/types"
	evmtypes "github.com/EscanBE/evermint/v12/x/evm/types"
)

// C11Price is the gas price sponsored transactions pay: max(base fee, global minimum) + 1 (never zero).
func (c *Chain) C11Price() *big.Int {
	q := c.QueryCtx()
	p := c.BaseFee(q)
	if m := c.App.FeeMarketKeeper.GetParams(q).MinGasPrice.Ceil().TruncateInt().BigInt(); m.Cmp(p) > 0 {
		p = m
	}
	return new(big.Int).Add(p, big.NewInt(1))
}

func (c *Chain) c11Burn(ctx sdk.Context, amt *big.Int) {
	if amt.Sign() == 0 {
		return
	}
	require.NoError(c.T, c.App.BankKeeper.BurnCoins(ctx, evmtypes.ModuleName, sdk.NewCoins(sdk.NewCoin(c.Denom(), sdkmath.NewIntFromBigInt(amt)))))
}

// C11Sponsored runs one block (run must execute exactly one block containing the payer's one transaction whose
// up-front fee is `upfront`) with the fee sponsored as described above.  Returns the fee actually kept by the chain.
func (c *Chain) C11Sponsored(payer sdk.AccAddress, upfront *big.Int, run func()) *big.Int {
	fcAddr := authtypes.NewModuleAddress(authtypes.FeeCollectorName)
	c.Fund(payer, c.Denom(), upfront)
	run()
	ctx := c.Ctx()
	kept := c.Bal(ctx, fcAddr, c.Denom())
	require.True(c.T, kept.Cmp(upfront) <= 0, "fee collector holds %s after a block whose only fee was at most %s", kept, upfront)
	if kept.Sign() > 0 {
		coins := sdk.NewCoins(sdk.NewCoin(c.Denom(), sdkmath.NewIntFromBigInt(kept)))
		require.NoError(c.T, c.App.BankKeeper.SendCoinsFromModuleToModule(ctx, authtypes.FeeCollectorName, evmtypes.ModuleName, coins))
		c.c11Burn(ctx, kept)
	}
	surplus := new(big.Int).Sub(upfront, kept)
	if surplus.Sign() > 0 {
		coins := sdk.NewCoins(sdk.NewCoin(c.Denom(), sdkmath.NewIntFromBigInt(surplus)))
		require.NoError(c.T, c.App.BankKeeper.SendCoinsFromAccountToModule(ctx, payer, evmtypes.ModuleName, coins))
		c.c11Burn(ctx, surplus)
	}
	return kept
}

// C11SendEth runs one block with one sponsored Ethereum transaction sender -> to.
func (c *Chain) C11SendEth(sender *itutiltypes.TestAccount, to common.Address, data []byte, gas uint64) EthResult {
	price := c.C11Price()
	bz, _, err := c.EthTxBytes(sender, &ethtypes.DynamicFeeTx{
		ChainID: c.EvmChainID(), Nonce: c.Nonce(c.QueryCtx(), sender.GetEthAddress()), GasTipCap: big.NewInt(1),
		GasFeeCap: price, Gas: gas, To: &to, Value: big.NewInt(0), Data: data,
	})
	require.NoError(c.T, err)
	var out EthResult
	c.C11Sponsored(sender.GetCosmosAddress(), new(big.Int).Mul(price, new(big.Int).SetUint64(gas)), func() {
		res := c.RunBlock([][]byte{bz})
		require.Len(c.T, res.TxResults, 1)
		out = c.DecodeEthResult(res.TxResults[0])
	})
	return out
}

// C11SendCosmos runs one block with one sponsored Cosmos transaction signed by acct carrying msgs.
func (c *Chain) C11SendCosmos(acct *itutiltypes.TestAccount, gas uint64, msgs ...sdk.Msg) *abci.ExecTxResult {
	price := c.C11Price()
	bz, err := c.CosmosTxBytes(acct, gas, price, msgs...)
	require.NoError(c.T, err)
	var out *abci.ExecTxResult
	c.C11Sponsored(acct.GetCosmosAddress(), new(big.Int).Mul(price, new(big.Int).SetUint64(gas)), func() {
		res := c.RunBlock([][]byte{bz})
		require.Len(c.T, res.TxResults, 1)
		out = res.TxResults[0]
	})
	return out
}

// C11IdleBlock runs an empty block with the same temporary mint as a sponsored transaction of `gas` by payer would
// cause, so that the total supply x/mint sees in the begin blocker is the same as on the twin chain that does run one.
func (c *Chain) C11IdleBlock(payer sdk.AccAddress, gas uint64) {
	c.C11Sponsored(payer, new(big.Int).Mul(c.C11Price(), new(big.Int).SetUint64(gas)), func() { c.RunBlock(nil) })
}
