package hx

// Call-tree interpreter contract for the `statedb` (C03) and `erc20` (C10) drivers.  Add-only file
// (owner: C03/C10); uses the assembler of asm_staticstaking.go.
//
// ONE bytecode, installed at several addresses ("hosts"); the calldata of a call is the program the frame
// executes, so a whole call tree - which frames call which stateful precompile methods how often, and which
// frames end by RETURN / REVERT / INVALID / running out of gas - is chosen by the transaction's data alone and
// the same contracts serve every generated tree.  That makes a "survivors only" twin of a transaction (the same
// program with every failing frame removed) run on exactly the same code.
//
// Program = sequence of instructions, executed until an END instruction (reading past the calldata = END-RETURN):
//   00                                   END: RETURN the 32-byte accumulator (success mask)
//   01                                   END: REVERT(0,0)
//   02                                   END: INVALID
//   03                                   END: spin until out of gas
//   10 bit(1) value(1) gas(4) target(20) len(2) payload(len)
//                                        CALL target with payload; bit = ff: the callee is a frame, on success OR its
//                                        returned word into the accumulator; else on success OR 1<<bit
//   11 slot(1) val(1)                    SSTORE
//   12 topic(1)                          LOG1 (no data)
//   13 slot(1) dst(1)                    storage[dst] := gas cost of SLOAD(slot) as measured by GAS (+7): cold 2107 / warm 107
//   14 addr(20) dst(1)                   storage[dst] := gas cost of BALANCE(addr) (+7): cold 2607 / warm 107
//   15                                   CREATE a child contract (a counter) with value 0
// Memory: [0x00] program counter, [0x20] accumulator, [0x40] callee's returned word, [0x100..) call payload.

import (
	"encoding/binary"

	"github.com/ethereum/go-ethereum/common"
)

const (
	itADD          byte = 0x01
	itSUB          byte = 0x03
	itEQ           byte = 0x14
	itSHL          byte = 0x1b
	itSHR          byte = 0x1c
	itBALANCE      byte = 0x31
	itCALLDATALOAD byte = 0x35
	itSLOAD        byte = 0x54
	itSSTORE       byte = 0x55
	itDUP3         byte = 0x82
	itSWAP1        byte = 0x90
	itLOG1         byte = 0xa1
	itCREATE       byte = 0xf0
	itINVALID      byte = 0xfe
)

// end modes of a frame
const (
	TreeEndReturn  byte = 0
	TreeEndRevert  byte = 1
	TreeEndInvalid byte = 2
	TreeEndSpin    byte = 3
)

// TreeGasAll as gas operand of a call: more than any block holds, so the callee gets 63/64 of what is left.
const TreeGasAll uint32 = 0xffffffff

// BuildTreeInterp assembles the interpreter.
func BuildTreeInterp() []byte {
	a := NewAsm()
	// operand of n bytes at pc+k
	opnd := func(k uint64, n uint64) {
		a.PushU(0).Op(OpMLOAD)
		if k > 0 {
			a.PushU(k).Op(itADD)
		}
		a.Op(itCALLDATALOAD).PushU(256 - 8*n).Op(itSHR)
	}
	adv := func(n uint64) {
		a.PushU(0).Op(OpMLOAD).PushU(n).Op(itADD).PushU(0).Op(OpMSTORE).PushLabel("loop").Op(OpJUMP)
	}
	child := InitCode(BuildCounter())
	a.Data("ci", child)

	a.Label("loop")
	opnd(0, 1) // [op]
	for _, d := range []struct {
		code uint64
		l    string
	}{{0x00, "ret"}, {0x01, "rev"}, {0x02, "inv"}, {0x03, "spin"}, {0x10, "call"}, {0x11, "sstore"}, {0x12, "log"}, {0x13, "sprobe"}, {0x14, "bprobe"}, {0x15, "create"}} {
		a.Op(OpDUP1).PushU(d.code).Op(itEQ).PushLabel(d.l).Op(OpJUMPI)
	}
	a.Op(itINVALID)

	a.Label("ret").Op(OpPOP).PushU(32).PushU(0x20).Op(OpRETURN)
	a.Label("rev").PushU(0).PushU(0).Op(OpREVERT)
	a.Label("inv").Op(itINVALID)
	a.Label("spin").PushLabel("spin").Op(OpJUMP)

	a.Label("call").Op(OpPOP)
	opnd(27, 2)                                                             // [len]
	a.Op(OpDUP1).PushU(0).Op(OpMLOAD).PushU(29).Op(itADD).PushU(0x100).Op(OpCALLDATACOPY) // mem[0x100..) = payload
	a.PushU(0).PushU(0x40).Op(OpMSTORE)                                     // clear the callee's word
	a.PushU(0x20).PushU(0x40).Op(itDUP3).PushU(0x100)                       // outSize outOff inSize inOff
	opnd(2, 1)                                                              // value
	opnd(7, 20)                                                             // target
	opnd(3, 4)                                                              // gas
	a.Op(OpCALL)                                                            // [len, ok]
	opnd(1, 1)                                                              // [len, ok, bit]
	a.Op(OpDUP1).PushU(0xff).Op(itEQ).PushLabel("isframe").Op(OpJUMPI)
	a.Op(itSHL).PushLabel("accum").Op(OpJUMP) // ok << bit
	a.Label("isframe").Op(OpPOP).PushU(0x40).Op(OpMLOAD).Op(OpMUL)
	a.Label("accum").PushU(0x20).Op(OpMLOAD).Op(OpOR).PushU(0x20).Op(OpMSTORE) // [len]
	a.PushU(29).Op(itADD).PushU(0).Op(OpMLOAD).Op(itADD).PushU(0).Op(OpMSTORE).PushLabel("loop").Op(OpJUMP)

	a.Label("sstore").Op(OpPOP)
	opnd(2, 1)
	opnd(1, 1)
	a.Op(itSSTORE)
	adv(3)

	a.Label("log").Op(OpPOP)
	opnd(1, 1)
	a.PushU(0).PushU(0).Op(itLOG1)
	adv(2)

	a.Label("sprobe").Op(OpPOP)
	opnd(1, 1)
	a.Op(OpGAS, itSWAP1, itSLOAD, OpPOP, OpGAS, itSWAP1, itSUB)
	opnd(2, 1)
	a.Op(itSSTORE)
	adv(3)

	a.Label("bprobe").Op(OpPOP)
	opnd(1, 20)
	a.Op(OpGAS, itSWAP1, itBALANCE, OpPOP, OpGAS, itSWAP1, itSUB)
	opnd(21, 1)
	a.Op(itSSTORE)
	adv(22)

	a.Label("create").Op(OpPOP)
	a.PushU(uint64(len(child))).PushLabel("ci").PushU(0x100).Op(OpCODECOPY)
	a.PushU(uint64(len(child))).PushU(0x100).PushU(0).Op(itCREATE).Op(OpPOP)
	adv(1)
	return a.Bytes()
}

// TreeItem is one instruction of a frame's program.
type TreeItem struct {
	Kind    byte           // 0x10 call, 0x11 sstore, 0x12 log, 0x13 sload probe, 0x14 balance probe, 0x15 create
	Bit     int            // call to a leaf: bit of its success in the returned mask (0..254)
	Value   byte           // call: wei sent along
	Gas     uint32         // call to a leaf: gas operand (TreeGasAll = 63/64 of what is left); frames use Child.Gas
	Target  common.Address // call to a leaf
	Payload []byte         // call to a leaf
	Child   *TreeFrame     // call to a frame (Target / Payload / Gas come from the child)
	A, B    byte           // sstore: slot, value; log: topic; sload probe: slot, dst; balance probe: -, dst
	Addr    common.Address // balance probe
}

// TreeFrame is one call frame executed by the interpreter at address Host.
type TreeFrame struct {
	Host  common.Address
	End   byte   // TreeEndReturn / Revert / Invalid / Spin
	Gas   uint32 // gas operand of the call that enters this frame (TreeGasAll unless the frame is to run out of gas)
	Items []TreeItem
}

// Survives says whether the frame itself ends normally (its ancestors are not considered).
func (f *TreeFrame) Survives() bool { return f.End == TreeEndReturn }

// Encode returns the program of the frame. With survivorsOnly every child frame that does not end normally is left out
// (with everything below it): the program of the twin transaction that contains only what the property says must remain.
func (f *TreeFrame) Encode(survivorsOnly bool) []byte {
	var out []byte
	for i := range f.Items {
		it := &f.Items[i]
		switch it.Kind {
		case 0x10:
			bit, gas, target, payload := byte(it.Bit), it.Gas, it.Target, it.Payload
			if it.Child != nil {
				if survivorsOnly && !it.Child.Survives() {
					continue
				}
				bit, gas, target, payload = 0xff, it.Child.Gas, it.Child.Host, it.Child.Encode(survivorsOnly)
			}
			if len(payload) > 0xffff {
				panic("payload too long")
			}
			out = append(out, 0x10, bit, it.Value)
			out = binary.BigEndian.AppendUint32(out, gas)
			out = append(out, target.Bytes()...)
			out = binary.BigEndian.AppendUint16(out, uint16(len(payload)))
			out = append(out, payload...)
		case 0x11, 0x13:
			out = append(out, it.Kind, it.A, it.B)
		case 0x12:
			out = append(out, it.Kind, it.A)
		case 0x14:
			out = append(out, it.Kind)
			out = append(out, it.Addr.Bytes()...)
			out = append(out, it.B)
		case 0x15:
			out = append(out, it.Kind)
		default:
			panic("unknown tree item")
		}
	}
	return append(out, f.End)
}

// Walk visits every frame of the tree (pre-order) with the flag "this frame and all its ancestors end normally".
func (f *TreeFrame) Walk(visit func(fr *TreeFrame, alive bool)) { f.walk(true, visit) }

func (f *TreeFrame) walk(parentAlive bool, visit func(fr *TreeFrame, alive bool)) {
	alive := parentAlive && f.Survives()
	visit(f, alive)
	for i := range f.Items {
		if c := f.Items[i].Child; c != nil {
			c.walk(alive, visit)
		}
	}
}

// Budget sets the gas operand of every frame below f (and of f itself) to what the frame needs when every call in it
// burns its whole gas operand (failing precompile calls, INVALID and spinning frames do), and returns the gas limit a
// transaction that enters f needs. Leaf calls must have their Gas operand set by the caller (never TreeGasAll: a failing
// precompile call consumes everything it was given).
func (f *TreeFrame) Budget() uint64 {
	need := f.budget()
	return need + need/32 + 60_000 + 16*uint64(len(f.Encode(false)))
}

func (f *TreeFrame) budget() uint64 {
	need := uint64(40_000)
	for i := range f.Items {
		it := &f.Items[i]
		switch it.Kind {
		case 0x10:
			if it.Child != nil {
				g := it.Child.budget()
				need += g + g/32 + 40_000
			} else {
				if it.Gas == TreeGasAll {
					panic("leaf call without a gas bound")
				}
				need += uint64(it.Gas) + 40_000
			}
			need += 3 * uint64(len(it.Payload)) // memory / copy
		case 0x11:
			need += 25_000
		case 0x12:
			need += 2_000
		case 0x13, 0x14:
			need += 30_000
		case 0x15:
			need += 120_000
		}
	}
	if need > 0xfffffff0 {
		panic("tree needs too much gas")
	}
	f.Gas = uint32(need)
	return need
}
