package hx

// A tiny EVM assembler and two contract builders used by the `static` (C12) and `staking` (C11)
// drivers: straight-line "node" contracts that perform a fixed list of calls (one per child of a
// generated call tree) and return a bit mask of the leaves whose calls succeeded, and a pass-through
// proxy that forwards its calldata with a fixed call opcode.  Add-only file (owner: C11/C12).

import (
	"encoding/binary"
	"fmt"
	"math/big"

	"github.com/ethereum/go-ethereum/common"
)

// opcodes used by the builders
const (
	OpSTOP           byte = 0x00
	OpMUL            byte = 0x02
	OpISZERO         byte = 0x15
	OpOR             byte = 0x17
	OpCALLDATASIZE   byte = 0x36
	OpCALLDATACOPY   byte = 0x37
	OpCODECOPY       byte = 0x39
	OpRETURNDATASIZE byte = 0x3d
	OpRETURNDATACOPY byte = 0x3e
	OpPOP            byte = 0x50
	OpMLOAD          byte = 0x51
	OpMSTORE         byte = 0x52
	OpJUMP           byte = 0x56
	OpJUMPI          byte = 0x57
	OpGAS            byte = 0x5a
	OpJUMPDEST       byte = 0x5b
	OpPUSH1          byte = 0x60
	OpPUSH2          byte = 0x61
	OpDUP1           byte = 0x80
	OpCALL           byte = 0xf1
	OpCALLCODE       byte = 0xf2
	OpRETURN         byte = 0xf3
	OpDELEGATECALL   byte = 0xf4
	OpSTATICCALL     byte = 0xfa
	OpREVERT         byte = 0xfd
)

type asmFixup struct {
	at    int
	label string
}

// Asm assembles bytecode with PUSH2 label references (code and trailing data sections).
type Asm struct {
	code   []byte
	labels map[string]int
	fix    []asmFixup
	data   []struct {
		label string
		bz    []byte
	}
}

func NewAsm() *Asm { return &Asm{labels: map[string]int{}} }

func (a *Asm) Op(ops ...byte) *Asm { a.code = append(a.code, ops...); return a }

// Push emits the shortest PUSHn for a non-negative integer (PUSH1 0 for zero).
func (a *Asm) Push(v *big.Int) *Asm {
	bz := v.Bytes()
	if len(bz) == 0 {
		bz = []byte{0}
	}
	if len(bz) > 32 {
		panic("push wider than 32 bytes")
	}
	a.code = append(a.code, OpPUSH1+byte(len(bz)-1))
	a.code = append(a.code, bz...)
	return a
}

func (a *Asm) PushU(v uint64) *Asm { return a.Push(new(big.Int).SetUint64(v)) }

func (a *Asm) PushAddr(addr common.Address) *Asm {
	a.code = append(a.code, OpPUSH1+19)
	a.code = append(a.code, addr.Bytes()...)
	return a
}

// PushLabel emits PUSH2 <offset of label>, resolved by Bytes().
func (a *Asm) PushLabel(l string) *Asm {
	a.code = append(a.code, OpPUSH2, 0, 0)
	a.fix = append(a.fix, asmFixup{at: len(a.code) - 2, label: l})
	return a
}

// Label defines a jump destination here (emits JUMPDEST).
func (a *Asm) Label(l string) *Asm {
	a.labels[l] = len(a.code)
	a.code = append(a.code, OpJUMPDEST)
	return a
}

// Data appends a data section after the code; its offset is available through PushLabel(l).
func (a *Asm) Data(l string, bz []byte) *Asm {
	a.data = append(a.data, struct {
		label string
		bz    []byte
	}{l, bz})
	return a
}

func (a *Asm) Bytes() []byte {
	out := append([]byte{}, a.code...)
	out = append(out, OpSTOP) // never reached; separates code from data
	for _, d := range a.data {
		a.labels[d.label] = len(out)
		out = append(out, d.bz...)
	}
	for _, f := range a.fix {
		off, ok := a.labels[f.label]
		if !ok {
			panic("undefined label " + f.label)
		}
		if off > 0xffff {
			panic("code too large")
		}
		binary.BigEndian.PutUint16(out[f.at:], uint16(off))
	}
	return out
}

// NodeCall is one call made by a node contract.
type NodeCall struct {
	Op      byte           // OpCALL, OpCALLCODE, OpDELEGATECALL, OpSTATICCALL
	Value   uint64         // only CALL / CALLCODE
	Target  common.Address // precompile (leaf) or another node contract
	Payload []byte         // calldata
	Strict  bool           // revert the whole frame when the call fails
	Leaf    bool           // target is a precompile: a success contributes Mask
	Mask    *big.Int       // bit of this leaf in the returned word (Leaf only)
	Gas     uint64         // gas operand of the call; 0 = all remaining gas (GAS opcode)
}

// BuildNode assembles a contract that performs the calls in order and returns one 32-byte word:
// the OR of Mask for every successful leaf call and of the word returned by every successful node call.
// Memory: [0x00,0x20) accumulator, [0x20,0x40) child's returned word, [0x40,..) calldata of the call.
func BuildNode(calls []NodeCall) []byte {
	a := NewAsm()
	emitNode(a, "", calls)
	return a.Bytes()
}

// further opcodes (dispatcher of BuildNodeVariants)
const (
	OpEQ           byte = 0x14
	OpSHR          byte = 0x1c
	OpCALLDATALOAD byte = 0x35
)

// BuildNodeVariants assembles ONE contract that behaves like BuildNode(variants[v]) where v is the first byte of its
// calldata (no calldata: variant 0; a byte that names no variant: empty return).  With it the same contract address
// can stand at several nodes of a call tree (a contract that is re-entered: self calls, A -> B -> A, the
// transaction's `to` contract reappearing below a STATICCALL): the caller passes the node's variant as calldata
// (NodeCall.Payload = []byte{v}).  Every variant ends in RETURN / REVERT, nothing falls through.
func BuildNodeVariants(variants [][]NodeCall) []byte {
	if len(variants) > 255 {
		panic("too many variants")
	}
	a := NewAsm()
	a.PushU(0).Op(OpCALLDATALOAD).PushU(248).Op(OpSHR) // first calldata byte
	for v := range variants {
		a.Op(OpDUP1).PushU(uint64(v)).Op(OpEQ).PushLabel(fmt.Sprintf("v%d", v)).Op(OpJUMPI)
	}
	a.Op(OpSTOP)
	for v, calls := range variants {
		a.Label(fmt.Sprintf("v%d", v)).Op(OpPOP)
		emitNode(a, fmt.Sprintf("v%d_", v), calls)
	}
	return a.Bytes()
}

// emitNode emits the straight-line program of one node (labels prefixed with pre), ending in RETURN.
func emitNode(a *Asm, pre string, calls []NodeCall) {
	for i, c := range calls {
		dl := fmt.Sprintf("%sd%d", pre, i)
		a.Data(dl, c.Payload)
		// clear the child's return slot
		a.PushU(0).PushU(0x20).Op(OpMSTORE)
		// calldata of the call: codecopy(dest=0x40, off=data, len)
		a.PushU(uint64(len(c.Payload))).PushLabel(dl).PushU(0x40).Op(OpCODECOPY)
		outSize := uint64(0x20)
		if c.Leaf {
			outSize = 0
		}
		a.PushU(outSize).PushU(0x20).PushU(uint64(len(c.Payload))).PushU(0x40)
		if c.Op == OpCALL || c.Op == OpCALLCODE {
			a.PushU(c.Value)
		}
		a.PushAddr(c.Target)
		if c.Gas > 0 {
			a.PushU(c.Gas)
		} else {
			a.Op(OpGAS)
		}
		a.Op(c.Op)
		if c.Strict {
			ok := fmt.Sprintf("%sok%d", pre, i)
			a.Op(OpDUP1).PushLabel(ok).Op(OpJUMPI).PushU(0).Op(OpDUP1).Op(OpREVERT).Label(ok)
		}
		if c.Leaf {
			a.Push(c.Mask).Op(OpMUL)
		} else {
			a.PushU(0x20).Op(OpMLOAD).Op(OpMUL)
		}
		a.PushU(0).Op(OpMLOAD).Op(OpOR).PushU(0).Op(OpMSTORE)
	}
	a.PushU(0x20).PushU(0).Op(OpRETURN)
}

// BuildProxy assembles a contract that forwards its whole calldata to target with the given call opcode
// (value 0), then returns the callee's return data, or reverts with it when the call failed.
func BuildProxy(op byte, target common.Address) []byte {
	a := NewAsm()
	a.Op(OpCALLDATASIZE).PushU(0).PushU(0).Op(OpCALLDATACOPY)
	a.PushU(0).PushU(0).Op(OpCALLDATASIZE).PushU(0)
	if op == OpCALL || op == OpCALLCODE {
		a.PushU(0)
	}
	a.PushAddr(target).Op(OpGAS).Op(op)
	a.Op(OpRETURNDATASIZE).PushU(0).PushU(0).Op(OpRETURNDATACOPY)
	a.PushLabel("ok").Op(OpJUMPI)
	a.Op(OpRETURNDATASIZE).PushU(0).Op(OpREVERT)
	a.Label("ok").Op(OpRETURNDATASIZE).PushU(0).Op(OpRETURN)
	return a.Bytes()
}
