package hx

// A straight-line contract for the twin-chain `staking` driver (C11) that performs a fixed list of calls (state-changing
// calls and views of the staking precompile, in any order), does not revert when one of them fails, and returns what it
// saw of each: word 0 = bit mask of the calls that succeeded (bit i = call i), word i+1 = the first 32 bytes of call i's
// return data (0 when the call failed or returned less than 32 bytes).  With it a view can be asked BETWEEN the
// state-changing calls of one transaction and its answer compared with the native query at that point.
// Add-only file (owner: C11).

import (
	"fmt"
	"math/big"

	"github.com/ethereum/go-ethereum/common"
)

const c11OpLT byte = 0x10

// C11Call is one call made by the contract.
type C11Call struct {
	Op      byte           // OpCALL, OpCALLCODE, OpDELEGATECALL, OpSTATICCALL
	Target  common.Address //
	Payload []byte         // calldata
	Gas     uint64         // gas operand (a failing precompile call burns all of it)
}

// C11BuildMulti assembles the contract.  Memory: [0x00,0x20) success mask, [0x20*(i+1), +0x20) first word returned by
// call i, [0x800, ..) calldata of the current call.
func C11BuildMulti(calls []C11Call) []byte {
	const stage = 0x800
	if len(calls) > 40 {
		panic("too many calls")
	}
	a := NewAsm()
	for i, c := range calls {
		dl := fmt.Sprintf("d%d", i)
		skip := fmt.Sprintf("s%d", i)
		slot := uint64(0x20 * (i + 1))
		a.Data(dl, c.Payload)
		// calldata of the call: codecopy(dest=stage, off=data, len)
		a.PushU(uint64(len(c.Payload))).PushLabel(dl).PushU(stage).Op(OpCODECOPY)
		// call(gas, addr, [value], inOff, inSize, outOff=0, outSize=0)
		a.PushU(0).PushU(0).PushU(uint64(len(c.Payload))).PushU(stage)
		if c.Op == OpCALL || c.Op == OpCALLCODE {
			a.PushU(0)
		}
		a.PushAddr(c.Target).PushU(c.Gas).Op(c.Op)
		// stack: ok.  if ok && returndatasize >= 32: returndatacopy(slot, 0, 32)
		a.Op(OpDUP1).Op(OpISZERO).PushLabel(skip).Op(OpJUMPI)
		a.PushU(0x20).Op(OpRETURNDATASIZE).Op(c11OpLT).PushLabel(skip).Op(OpJUMPI)
		a.PushU(0x20).PushU(0).PushU(slot).Op(OpRETURNDATACOPY)
		a.Label(skip)
		// mask |= ok << i
		a.Push(new(big.Int).Lsh(big.NewInt(1), uint(i))).Op(OpMUL)
		a.PushU(0).Op(OpMLOAD).Op(OpOR).PushU(0).Op(OpMSTORE)
	}
	a.PushU(uint64(0x20 * (len(calls) + 1))).PushU(0).Op(OpRETURN)
	return a.Bytes()
}
