package hx

// Raw transaction construction for the lane drivers (ante, routes, vauth): every field of the
// protobuf envelope is under the harness's control (messages, extension options, memo, timeout,
// fee, payer/granter, signer infos, signatures), which the client TxBuilder does not allow.
// Add-only file (owner: C07/C16).

import (
	"fmt"
	"math/big"

	sdkmath "cosmossdk.io/math"
	abci "github.com/cometbft/cometbft/abci/types"
	codectypes "github.com/cosmos/cosmos-sdk/codec/types"
	sdk "github.com/cosmos/cosmos-sdk/types"
	sdktx "github.com/cosmos/cosmos-sdk/types/tx"
	"github.com/cosmos/cosmos-sdk/types/tx/signing"
	"github.com/cosmos/gogoproto/proto"
	"google.golang.org/protobuf/encoding/protowire"

	ethcrypto "github.com/ethereum/go-ethereum/crypto"

	"github.com/EscanBE/evermint/v12/crypto/ethsecp256k1"
	itutiltypes "github.com/EscanBE/evermint/v12/integration_test_util/types"
	vauthtypes "github.com/EscanBE/evermint/v12/x/vauth/types"
)

type RawTx struct {
	Msgs        []sdk.Msg
	ExtOpts     []*codectypes.Any
	NonCritical []*codectypes.Any
	Memo        string
	Timeout     uint64
	Fee         sdk.Coins
	Gas         uint64
	Payer       string
	Granter     string
	SignerInfos []*sdktx.SignerInfo
	Signatures  [][]byte
	// further envelope values (C07 value round): a tip, and payer / granter fields that are PRESENT on the wire with
	// the empty string as value (proto3 cannot tell them from absent ones after decoding; gogoproto never emits them,
	// so the auth info is then assembled by hand)
	Tip                  *sdktx.Tip
	ExplicitEmptyPayer   bool
	ExplicitEmptyGranter bool
}

func (r *RawTx) parts() (body, auth []byte, err error) {
	anys := make([]*codectypes.Any, len(r.Msgs))
	for i, m := range r.Msgs {
		a, e := codectypes.NewAnyWithValue(m)
		if e != nil {
			return nil, nil, e
		}
		anys[i] = a
	}
	b := &sdktx.TxBody{Messages: anys, Memo: r.Memo, TimeoutHeight: r.Timeout,
		ExtensionOptions: r.ExtOpts, NonCriticalExtensionOptions: r.NonCritical}
	body, err = proto.Marshal(b)
	if err != nil {
		return nil, nil, err
	}
	if (r.ExplicitEmptyPayer && r.Payer == "") || (r.ExplicitEmptyGranter && r.Granter == "") {
		auth, err = r.authInfoByHand()
		return body, auth, err
	}
	ai := &sdktx.AuthInfo{SignerInfos: r.SignerInfos,
		Fee: &sdktx.Fee{Amount: r.Fee, GasLimit: r.Gas, Payer: r.Payer, Granter: r.Granter}, Tip: r.Tip}
	auth, err = proto.Marshal(ai)
	return body, auth, err
}

// authInfoByHand writes AuthInfo{signer_infos=1, fee=2{amount=1, gas_limit=2, payer=3, granter=4}, tip=3} field by field,
// in field order, with payer / granter emitted as zero-length strings where asked.
func (r *RawTx) authInfoByHand() ([]byte, error) {
	var fee []byte
	for i := range r.Fee {
		bz, err := proto.Marshal(&r.Fee[i])
		if err != nil {
			return nil, err
		}
		fee = protowire.AppendTag(fee, 1, protowire.BytesType)
		fee = protowire.AppendBytes(fee, bz)
	}
	if r.Gas != 0 {
		fee = protowire.AppendTag(fee, 2, protowire.VarintType)
		fee = protowire.AppendVarint(fee, r.Gas)
	}
	if r.Payer != "" || r.ExplicitEmptyPayer {
		fee = protowire.AppendTag(fee, 3, protowire.BytesType)
		fee = protowire.AppendString(fee, r.Payer)
	}
	if r.Granter != "" || r.ExplicitEmptyGranter {
		fee = protowire.AppendTag(fee, 4, protowire.BytesType)
		fee = protowire.AppendString(fee, r.Granter)
	}
	var out []byte
	for _, si := range r.SignerInfos {
		bz, err := proto.Marshal(si)
		if err != nil {
			return nil, err
		}
		out = protowire.AppendTag(out, 1, protowire.BytesType)
		out = protowire.AppendBytes(out, bz)
	}
	out = protowire.AppendTag(out, 2, protowire.BytesType)
	out = protowire.AppendBytes(out, fee)
	if r.Tip != nil {
		bz, err := proto.Marshal(r.Tip)
		if err != nil {
			return nil, err
		}
		out = protowire.AppendTag(out, 3, protowire.BytesType)
		out = protowire.AppendBytes(out, bz)
	}
	return out, nil
}

// Encode returns the TxRaw bytes of the envelope as it stands.
func (r *RawTx) Encode() ([]byte, error) {
	body, auth, err := r.parts()
	if err != nil {
		return nil, err
	}
	return proto.Marshal(&sdktx.TxRaw{BodyBytes: body, AuthInfoBytes: auth, Signatures: r.Signatures})
}

// SignerInfoFor builds a SIGN_MODE_DIRECT signer info for the account.
func SignerInfoFor(acct *itutiltypes.TestAccount, seq uint64) (*sdktx.SignerInfo, error) {
	pk, err := codectypes.NewAnyWithValue(acct.GetPubKey())
	if err != nil {
		return nil, err
	}
	return &sdktx.SignerInfo{PublicKey: pk, Sequence: seq,
		ModeInfo: &sdktx.ModeInfo{Sum: &sdktx.ModeInfo_Single_{Single: &sdktx.ModeInfo_Single{Mode: signing.SignMode_SIGN_MODE_DIRECT}}}}, nil
}

// SignDirect makes acct the single signer: one signer info, one SIGN_MODE_DIRECT signature over the
// envelope as it stands (call after all other fields are set).
func (r *RawTx) SignDirect(chainID string, acct *itutiltypes.TestAccount, accNum, seq uint64) error {
	si, err := SignerInfoFor(acct, seq)
	if err != nil {
		return err
	}
	r.SignerInfos = []*sdktx.SignerInfo{si}
	sig, err := r.DirectSignature(chainID, acct, accNum)
	if err != nil {
		return err
	}
	r.Signatures = [][]byte{sig}
	return nil
}

// DirectSignature signs the current body/auth-info bytes (whatever signer infos are present).
func (r *RawTx) DirectSignature(chainID string, acct *itutiltypes.TestAccount, accNum uint64) ([]byte, error) {
	body, auth, err := r.parts()
	if err != nil {
		return nil, err
	}
	doc, err := proto.Marshal(&sdktx.SignDoc{BodyBytes: body, AuthInfoBytes: auth, ChainId: chainID, AccountNumber: accNum})
	if err != nil {
		return nil, err
	}
	return acct.PrivateKey.Sign(doc)
}

func (c *Chain) ChainID() string { return c.S.ChainConstantsConfig.GetCosmosChainID() }

// AccNumSeq reads account number and sequence from the committed state.
func (c *Chain) AccNumSeq(a sdk.AccAddress) (uint64, uint64) {
	acc := c.App.AccountKeeper.GetAccount(c.QueryCtx(), a)
	if acc == nil {
		return 0, 0
	}
	return acc.GetAccountNumber(), acc.GetSequence()
}

func (c *Chain) FeeCoins(amt *big.Int) sdk.Coins {
	return sdk.Coins{sdk.Coin{Denom: c.Denom(), Amount: sdkmath.NewIntFromBigInt(amt)}}
}

// CheckTx / ReCheckTx through ABCI.
func (c *Chain) CheckTx(bz []byte, recheck bool) (*abci.ResponseCheckTx, error) {
	typ := abci.CheckTxType_New
	if recheck {
		typ = abci.CheckTxType_Recheck
	}
	return c.App.BaseApp.CheckTx(&abci.RequestCheckTx{Tx: bz, Type: typ})
}

// DetAccount derives a reproducible test account from (seed, tag, i): never crypto/rand.
func DetAccount(seed uint64, tag string, i int) *itutiltypes.TestAccount {
	h := ethcrypto.Keccak256([]byte(fmt.Sprintf("verif-lane/%d/%s/%d", seed, tag, i)))
	pk := &ethsecp256k1.PrivKey{Key: h}
	return &itutiltypes.TestAccount{PrivateKey: pk, Signer: itutiltypes.NewSigner(pk), Type: itutiltypes.TestAccountTypeWallet}
}

// VauthSignature is the signature x/vauth accepts as proof of ownership: secp256k1 over keccak(MessageToSign), V in {0,1}.
func VauthSignature(acct *itutiltypes.TestAccount) []byte {
	sig, err := acct.PrivateKey.Sign(ethcrypto.Keccak256([]byte(vauthtypes.MessageToSign)))
	if err != nil {
		panic(err)
	}
	return sig
}

// CodespaceID maps an ABCI codespace to the small enum used in Coq cases (0 = sdk, 1 = evm, 2 = vauth/other module, 9 = undefined).
func CodespaceID(cs string) int64 {
	switch cs {
	case "sdk":
		return 0
	case "evm":
		return 1
	case "undefined", "":
		return 9
	default:
		return 2
	}
}
