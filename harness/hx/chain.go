package hx

// Chain drives the real application block by block through ABCI (FinalizeBlock + Commit)
// with a header the harness controls (height, time, proposer), so that blocks may contain
// any number of transactions and histories are reproducible.

import (
	"crypto/sha256"
	"encoding/hex"
	"math/big"
	"sort"
	"testing"
	"time"

	sdkmath "cosmossdk.io/math"
	storetypes "cosmossdk.io/store/types"
	abci "github.com/cometbft/cometbft/abci/types"
	tmproto "github.com/cometbft/cometbft/proto/tendermint/types"
	codectypes "github.com/cosmos/cosmos-sdk/codec/types"
	sdk "github.com/cosmos/cosmos-sdk/types"
	authtx "github.com/cosmos/cosmos-sdk/x/auth/tx"
	"github.com/ethereum/go-ethereum/common"
	ethtypes "github.com/ethereum/go-ethereum/core/types"
	"github.com/stretchr/testify/require"

	chainapp "github.com/EscanBE/evermint/v12/app"
	itu "github.com/EscanBE/evermint/v12/integration_test_util"
	itutiltypes "github.com/EscanBE/evermint/v12/integration_test_util/types"
	evmtypes "github.com/EscanBE/evermint/v12/x/evm/types"
)

type Chain struct {
	T      *testing.T
	S      *itu.ChainIntegrationTestSuite
	App    *chainapp.Evermint
	Height int64     // height of the next block to execute
	Time   time.Time // time of the next block
	Step   time.Duration
}

// NewChain creates a fresh in-memory chain (CometBFT disabled). The genesis block and one empty
// block are already committed by the integration suite; block time from here on is fixed by the harness
// (start = 2030-01-01T00:00:00Z unless start is non-zero), never the wall clock.
func NewChain(t *testing.T, start time.Time) *Chain {
	s := NewSuite(t)
	app := s.ChainApp.IbcTestingApp().(*chainapp.Evermint)
	if start.IsZero() {
		start = time.Date(2030, 1, 1, 0, 0, 0, 0, time.UTC)
	}
	// make sure anything the suite wrote through its cache context is in the commit multistore
	s.ReflectChangesToCommitMultiStore()
	c := &Chain{T: t, S: s, App: app, Height: app.LastBlockHeight() + 1, Time: start, Step: 5 * time.Second}
	return c
}

func (c *Chain) header() tmproto.Header {
	return tmproto.Header{
		ChainID:         c.S.ChainConstantsConfig.GetCosmosChainID(),
		Height:          c.Height,
		Time:            c.Time,
		ProposerAddress: c.S.ValidatorAccounts.Number(1).GetConsensusAddress().Bytes(),
	}
}

// Ctx returns a context reading and writing the commit multistore directly, with the next block's header
// (for state set-up through keepers between blocks, and for reading committed state).
func (c *Chain) Ctx() sdk.Context {
	return c.App.BaseApp.NewUncachedContext(false, c.header()).
		WithChainID(c.S.ChainConstantsConfig.GetCosmosChainID()).
		WithConsensusParams(c.App.BaseApp.GetConsensusParams(c.App.BaseApp.NewUncachedContext(false, c.header())))
}

// QueryCtx is Ctx over a cache: writes are never persisted.
func (c *Chain) QueryCtx() sdk.Context {
	ctx, _ := c.Ctx().CacheContext()
	return ctx
}

// RunBlock executes one block with the given raw transactions and commits it.
func (c *Chain) RunBlock(txs [][]byte) *abci.ResponseFinalizeBlock {
	res, err := c.RunBlockE(txs)
	require.NoError(c.T, err)
	return res
}

func (c *Chain) RunBlockE(txs [][]byte) (*abci.ResponseFinalizeBlock, error) {
	h := c.header()
	res, err := c.App.BaseApp.FinalizeBlock(&abci.RequestFinalizeBlock{
		Height: h.Height, Txs: txs, Time: h.Time, ProposerAddress: h.ProposerAddress,
	})
	if err != nil {
		return nil, err
	}
	if _, err := c.App.BaseApp.Commit(); err != nil {
		return nil, err
	}
	c.Height++
	c.Time = c.Time.Add(c.Step)
	return res, nil
}

func (c *Chain) AppHash() string { return hex.EncodeToString(c.App.LastCommitID().Hash) }

// StoreDigest hashes every key/value of every mounted KV store as seen through ctx
// (sorted by store name; IAVL iteration is ordered). Transient and memory stores are excluded.
func (c *Chain) StoreDigest(ctx sdk.Context) string {
	return hex.EncodeToString(c.storeDigest(ctx, nil))
}

// StoreDigests returns one digest per store (for reporting which store differs).
func (c *Chain) StoreDigests(ctx sdk.Context) map[string]string {
	out := map[string]string{}
	c.storeDigest(ctx, out)
	return out
}

func (c *Chain) storeDigest(ctx sdk.Context, per map[string]string) []byte {
	keys := c.App.GetKVStoreKey()
	names := make([]string, 0, len(keys))
	for n := range keys {
		names = append(names, n)
	}
	sort.Strings(names)
	all := sha256.New()
	for _, n := range names {
		h := sha256.New()
		st := ctx.MultiStore().GetKVStore(keys[n])
		it := st.Iterator(nil, nil)
		for ; it.Valid(); it.Next() {
			k, v := it.Key(), it.Value()
			var l [8]byte
			big.NewInt(int64(len(k))).FillBytes(l[:])
			h.Write(l[:])
			h.Write(k)
			big.NewInt(int64(len(v))).FillBytes(l[:])
			h.Write(l[:])
			h.Write(v)
		}
		it.Close()
		d := h.Sum(nil)
		if per != nil {
			per[n] = hex.EncodeToString(d[:8])
		}
		all.Write([]byte(n))
		all.Write(d)
	}
	return all.Sum(nil)
}

var _ = storetypes.StoreKey(nil)

// ------------------------------------------------------------------ balances & supply

func (c *Chain) Denom() string { return c.S.ChainConstantsConfig.GetMinDenom() }

func (c *Chain) Bal(ctx sdk.Context, a sdk.AccAddress, denom string) *big.Int {
	return c.App.BankKeeper.GetBalance(ctx, a, denom).Amount.BigInt()
}

func (c *Chain) EvmBal(ctx sdk.Context, a common.Address) *big.Int {
	return c.Bal(ctx, sdk.AccAddress(a.Bytes()), c.Denom())
}

func (c *Chain) Supply(ctx sdk.Context, denom string) *big.Int {
	return c.App.BankKeeper.GetSupply(ctx, denom).Amount.BigInt()
}

func (c *Chain) Nonce(ctx sdk.Context, a common.Address) uint64 {
	acc := c.App.AccountKeeper.GetAccount(ctx, sdk.AccAddress(a.Bytes()))
	if acc == nil {
		return 0
	}
	return acc.GetSequence()
}

func (c *Chain) BaseFee(ctx sdk.Context) *big.Int {
	return c.App.FeeMarketKeeper.GetBaseFee(ctx).BigInt()
}

// Fund mints coins to an address directly in the commit multistore (between blocks).
func (c *Chain) Fund(a sdk.AccAddress, denom string, amt *big.Int) {
	ctx := c.Ctx()
	coins := sdk.NewCoins(sdk.NewCoin(denom, sdkmath.NewIntFromBigInt(amt)))
	require.NoError(c.T, c.App.BankKeeper.MintCoins(ctx, evmtypes.ModuleName, coins))
	require.NoError(c.T, c.App.BankKeeper.SendCoinsFromModuleToAccount(ctx, evmtypes.ModuleName, a, coins))
}

// ------------------------------------------------------------------ transactions

// EthTxBytes signs txData with acct and wraps it into the Cosmos envelope the Ethereum lane expects.
func (c *Chain) EthTxBytes(acct *itutiltypes.TestAccount, txData ethtypes.TxData) ([]byte, *evmtypes.MsgEthereumTx, error) {
	msg, err := c.S.PureSignEthereumTx(acct, txData)
	if err != nil {
		return nil, nil, err
	}
	bz, err := c.WrapEthMsg(msg)
	return bz, msg, err
}

// WrapEthMsg builds the canonical envelope (extension option, fee = gas*price, gas limit) for an already signed message.
func (c *Chain) WrapEthMsg(msg *evmtypes.MsgEthereumTx) ([]byte, error) {
	txb := c.S.EncodingConfig.TxConfig.NewTxBuilder()
	if err := txb.SetMsgs(msg); err != nil {
		return nil, err
	}
	opt, err := codectypes.NewAnyWithValue(&evmtypes.ExtensionOptionsEthereumTx{})
	if err != nil {
		return nil, err
	}
	txb.(authtx.ExtensionOptionsTxBuilder).SetExtensionOptions(opt)
	ethTx := msg.AsTransaction()
	fee := new(big.Int).Mul(ethTx.GasFeeCap(), new(big.Int).SetUint64(ethTx.Gas()))
	if ethTx.Type() != ethtypes.DynamicFeeTxType {
		fee = new(big.Int).Mul(ethTx.GasPrice(), new(big.Int).SetUint64(ethTx.Gas()))
	}
	txb.SetGasLimit(ethTx.Gas())
	txb.SetFeeAmount(sdk.NewCoins(sdk.NewCoin(c.Denom(), sdkmath.NewIntFromBigInt(fee))))
	return c.S.EncodingConfig.TxConfig.TxEncoder()(txb.GetTx())
}

// CosmosTxBytes signs msgs with acct (sequence/account number read from committed state + seqOffset).
func (c *Chain) CosmosTxBytes(acct *itutiltypes.TestAccount, gas uint64, gasPrice *big.Int, msgs ...sdk.Msg) ([]byte, error) {
	gp := sdkmath.NewIntFromBigInt(gasPrice)
	tx, err := c.S.PrepareCosmosTx(c.QueryCtx(), acct, itu.CosmosTxArgs{Gas: gas, GasPrice: &gp, Msgs: msgs})
	if err != nil {
		return nil, err
	}
	return c.S.EncodingConfig.TxConfig.TxEncoder()(tx)
}

// ------------------------------------------------------------------ events

func EventAttrs(ev abci.Event) map[string]string {
	m := map[string]string{}
	for _, a := range ev.Attributes {
		m[a.Key] = a.Value
	}
	return m
}

func FindEvents(evs []abci.Event, typ string) []abci.Event {
	var out []abci.Event
	for _, e := range evs {
		if e.Type == typ {
			out = append(out, e)
		}
	}
	return out
}
