package hx

// Node-local request traffic for the `twin` driver (C01): what a node serves besides executing blocks — gRPC / JSON-RPC
// queries pinned to any committed height, gas estimations, CheckTx and simulations — and a block runner with a window
// between FinalizeBlock and Commit (ABCI allows CheckTx and queries there).  None of it is consensus input.
// Add-only file (owner: C01).

import (
	"context"
	"crypto/sha256"
	"encoding/json"
	"fmt"

	abci "github.com/cometbft/cometbft/abci/types"
	tmproto "github.com/cometbft/cometbft/proto/tendermint/types"
	"github.com/cosmos/cosmos-sdk/types/query"
	"github.com/cosmos/gogoproto/proto"
	"github.com/ethereum/go-ethereum/common"
	"github.com/ethereum/go-ethereum/common/hexutil"

	cpctypes "github.com/EscanBE/evermint/v12/x/cpc/types"
	evmtypes "github.com/EscanBE/evermint/v12/x/evm/types"
)

// TwinFinalizeVoted is the first half of RunBlockVoted: FinalizeBlock with every bonded validator's vote.
// TwinCommit must follow.
func TwinFinalizeVoted(c *Chain, txs [][]byte) (*abci.ResponseFinalizeBlock, error) {
	q := c.QueryCtx()
	vals, err := c.App.StakingKeeper.GetBondedValidatorsByPower(q)
	if err != nil {
		return nil, err
	}
	pr := c.App.StakingKeeper.PowerReduction(q)
	var votes []abci.VoteInfo
	for _, v := range vals {
		cons, err := v.GetConsAddr()
		if err != nil {
			return nil, err
		}
		votes = append(votes, abci.VoteInfo{Validator: abci.Validator{Address: cons, Power: v.ConsensusPower(pr)}, BlockIdFlag: tmproto.BlockIDFlagCommit})
	}
	h := c.header()
	// the block hash CometBFT would supply (x/evm stores it for the BLOCKHASH opcode): any fixed function of the header
	hash := sha256.Sum256([]byte(fmt.Sprintf("twin-block/%d/%d", h.Height, h.Time.UnixNano())))
	return c.App.BaseApp.FinalizeBlock(&abci.RequestFinalizeBlock{
		Height: h.Height, Txs: txs, Time: h.Time, ProposerAddress: h.ProposerAddress, Hash: hash[:],
		DecidedLastCommit: abci.CommitInfo{Votes: votes},
	})
}

// TwinPrepareProposal: the node is the proposer of a round for the next height; returns how many transactions it kept.
func TwinPrepareProposal(c *Chain, pool [][]byte) (n int, err error) {
	defer func() {
		if p := recover(); p != nil {
			n, err = 0, fmt.Errorf("panic: %v", p)
		}
	}()
	h := c.header()
	res, err := c.App.BaseApp.PrepareProposal(&abci.RequestPrepareProposal{Height: h.Height, Time: h.Time, ProposerAddress: h.ProposerAddress, Txs: pool, MaxTxBytes: 1 << 20})
	if err != nil {
		return 0, err
	}
	return len(res.Txs), nil
}

// TwinProcessProposal: the node validates the proposal of a round for the next height (the block that will be decided).
func TwinProcessProposal(c *Chain, txs [][]byte) (accepted bool, err error) {
	defer func() {
		if p := recover(); p != nil {
			accepted, err = false, fmt.Errorf("panic: %v", p)
		}
	}()
	h := c.header()
	hash := sha256.Sum256([]byte(fmt.Sprintf("twin-block/%d/%d", h.Height, h.Time.UnixNano())))
	res, err := c.App.BaseApp.ProcessProposal(&abci.RequestProcessProposal{Height: h.Height, Time: h.Time, ProposerAddress: h.ProposerAddress, Txs: txs, Hash: hash[:]})
	if err != nil {
		return false, err
	}
	return res.Status == abci.ResponseProcessProposal_ACCEPT, nil
}

// TwinCommit is the second half of RunBlockVoted.
func TwinCommit(c *Chain) error {
	if _, err := c.App.BaseApp.Commit(); err != nil {
		return err
	}
	c.Height++
	c.Time = c.Time.Add(c.Step)
	return nil
}

func twinQuery(c *Chain, path string, req proto.Message, height int64, out proto.Message) error {
	bz, err := proto.Marshal(req)
	if err != nil {
		return err
	}
	res, err := c.App.BaseApp.Query(context.Background(), &abci.RequestQuery{Path: path, Data: bz, Height: height})
	if err != nil {
		return err
	}
	if res.Code != 0 {
		return fmt.Errorf("query %s at %d: code %d: %s", path, height, res.Code, res.Log)
	}
	return proto.Unmarshal(res.Value, out)
}

func twinCallArgs(from common.Address, to *common.Address, data []byte) ([]byte, error) {
	gas := hexutil.Uint64(400_000)
	input := hexutil.Bytes(data)
	return json.Marshal(evmtypes.TransactionArgs{From: &from, To: to, Gas: &gas, Input: &input})
}

// TwinEthCallAt: eth_call pinned to a committed height (0 = latest); to == nil: a call without recipient (creation).
func TwinEthCallAt(c *Chain, from common.Address, to *common.Address, data []byte, height int64) (ret []byte, vmErr string, err error) {
	args, err := twinCallArgs(from, to, data)
	if err != nil {
		return nil, "", err
	}
	var out evmtypes.MsgEthereumTxResponse
	if err := twinQuery(c, "/ethermint.evm.v1.Query/EthCall", &evmtypes.EthCallRequest{Args: args, GasCap: 25_000_000}, height, &out); err != nil {
		return nil, "", err
	}
	return out.Ret, out.VmError, nil
}

// TwinEstimateGasAt: eth_estimateGas pinned to a committed height.
func TwinEstimateGasAt(c *Chain, from common.Address, to *common.Address, data []byte, height int64) (uint64, error) {
	args, err := twinCallArgs(from, to, data)
	if err != nil {
		return 0, err
	}
	var out evmtypes.EstimateGasResponse
	if err := twinQuery(c, "/ethermint.evm.v1.Query/EstimateGas", &evmtypes.EthCallRequest{Args: args, GasCap: 25_000_000}, height, &out); err != nil {
		return 0, err
	}
	return out.Gas, nil
}

// TwinCpcListAt: the cpc module's list of contracts as of a committed height.
func TwinCpcListAt(c *Chain, height int64) (int, error) {
	var out cpctypes.QueryCustomPrecompiledContractsResponse
	req := &cpctypes.QueryCustomPrecompiledContractsRequest{Pagination: &query.PageRequest{Limit: 10_000}}
	if err := twinQuery(c, "/evermint.cpc.v1.Query/CustomPrecompiledContracts", req, height, &out); err != nil {
		return 0, err
	}
	return len(out.Contracts), nil
}
