package hx

// Hand-assembled contracts for the `statedb` (C03) and `query` (C08) drivers.  Add-only file
// (owner: C03/C08); uses the assembler of asm_staticstaking.go.

import (
	"github.com/ethereum/go-ethereum/common"
)

const (
	opADD          byte = 0x01
	opSUB          byte = 0x03
	opLT           byte = 0x10
	opGT           byte = 0x11
	opEQ           byte = 0x14
	opSHR          byte = 0x1c
	opCALLDATALOAD byte = 0x35
	opSLOAD        byte = 0x54
	opSSTORE       byte = 0x55
	opDUP2         byte = 0x81
	opDUP3         byte = 0x82
	opSWAP1        byte = 0x90
	opLOG0         byte = 0xa0
	opCREATE       byte = 0xf0
	opINVALID      byte = 0xfe
	opSELFDESTRUCT byte = 0xff
	opNUMBER       byte = 0x43
	opCALLER       byte = 0x33
)

const (
	FwdReturn  byte = 0
	FwdRevert  byte = 1
	FwdInvalid byte = 2
)

// BuildForwarder: calldata = mode(1) | target(20) | payload.  The contract writes storage slot
// CALLDATASIZE := 1, emits LOG0, CALLs target with the payload (value 0, all gas), then
// mode 0: returns the 32-byte success flag of the call; mode 1: REVERT; mode 2: INVALID.
func BuildForwarder() []byte {
	a := NewAsm()
	a.PushU(21).Op(OpCALLDATASIZE, opSUB)                       // [size]
	a.Op(OpDUP1).PushU(21).PushU(0).Op(OpCALLDATACOPY)           // mem[0..size) = payload
	a.PushU(1).Op(OpCALLDATASIZE, opSSTORE)                      // storage[calldatasize] = 1
	a.PushU(0).PushU(0).Op(opLOG0)                               // a log of this frame
	a.PushU(0).PushU(0).Op(opDUP3).PushU(0).PushU(0)             // outSize outOff inSize inOff value
	a.PushU(1).Op(opCALLDATALOAD).PushU(96).Op(opSHR)            // target
	a.Op(OpGAS, OpCALL)                                          // [ok, size]
	a.PushU(0).Op(opCALLDATALOAD).PushU(248).Op(opSHR)           // [mode, ok, size]
	a.Op(OpDUP1).PushU(1).Op(opEQ).PushLabel("rev").Op(OpJUMPI)
	a.Op(OpDUP1).PushU(2).Op(opEQ).PushLabel("inv").Op(OpJUMPI)
	a.Op(OpPOP).PushU(0).Op(OpMSTORE).PushU(32).PushU(0).Op(OpRETURN)
	a.Label("rev").PushU(0).PushU(0).Op(OpREVERT)
	a.Label("inv").Op(opINVALID)
	return a.Bytes()
}

func FwdInput(mode byte, target common.Address, payload []byte) []byte {
	out := append([]byte{mode}, target.Bytes()...)
	return append(out, payload...)
}

// InitCode wraps runtime code into creation code that returns it.
func InitCode(runtime []byte) []byte {
	a := NewAsm()
	a.Data("rt", runtime)
	a.PushU(uint64(len(runtime))).PushLabel("rt").PushU(0).Op(OpCODECOPY)
	a.PushU(uint64(len(runtime))).PushU(0).Op(OpRETURN)
	return a.Bytes()
}

// BuildGasBranch: result depends on the gas left when the GAS opcode runs:
// gas > hi -> INVALID (fails with everything consumed); gas > lo -> storage[0]++ and return 1; else REVERT.
// A non-monotone executable for the gas estimator.
func BuildGasBranch(lo, hi uint64) []byte {
	a := NewAsm()
	a.PushU(hi).Op(OpGAS, opGT).PushLabel("inv").Op(OpJUMPI) // GAS > hi
	a.PushU(lo).Op(OpGAS, opGT).PushLabel("ok").Op(OpJUMPI)  // GAS > lo
	a.PushU(0).PushU(0).Op(OpREVERT)
	a.Label("ok").PushU(0).Op(opSLOAD).PushU(1).Op(opADD).PushU(0).Op(opSSTORE)
	a.PushU(1).PushU(0).Op(OpMSTORE).PushU(32).PushU(0).Op(OpRETURN)
	a.Label("inv").Op(opINVALID)
	return a.Bytes()
}

// BuildSstoreWorker: writes n fresh storage slots (keys base+i, value 1) and returns 1: needs ~22k gas per slot.
func BuildSstoreWorker(n int) []byte {
	a := NewAsm()
	for i := 0; i < n; i++ {
		// key = calldataload(0) + i
		a.PushU(1).PushU(0).Op(opCALLDATALOAD).PushU(uint64(i)).Op(opADD, opSSTORE)
	}
	a.PushU(1).PushU(0).Op(OpMSTORE).PushU(32).PushU(0).Op(OpRETURN)
	return a.Bytes()
}

// BuildOuter6364: forwards its calldata to inner with all gas (so inner gets 63/64 of what is left) and
// REVERTs unless the inner call succeeded: the gas needed is more than what a successful run uses.
func BuildOuter6364(inner common.Address) []byte {
	a := NewAsm()
	a.Op(OpCALLDATASIZE).PushU(0).PushU(0).Op(OpCALLDATACOPY)
	a.PushU(0).PushU(0).Op(OpCALLDATASIZE).PushU(0).PushU(0).PushAddr(inner).Op(OpGAS, OpCALL)
	a.PushLabel("ok").Op(OpJUMPI)
	a.PushU(0).PushU(0).Op(OpREVERT)
	a.Label("ok").PushU(1).PushU(0).Op(OpMSTORE).PushU(32).PushU(0).Op(OpRETURN)
	return a.Bytes()
}

// BuildRefunder: calldata word 0 = v. storage[7] := v. Setting a non-zero slot to zero earns a refund, so
// gas used (after refund) is below the gas the execution needs.
func BuildRefunder() []byte {
	a := NewAsm()
	a.PushU(0).Op(opCALLDATALOAD).PushU(7).Op(opSSTORE)
	a.PushU(1).PushU(0).Op(OpMSTORE).PushU(32).PushU(0).Op(OpRETURN)
	return a.Bytes()
}

// BuildSelfDestruct: SELFDESTRUCT(beneficiary) on any call.
func BuildSelfDestruct(beneficiary common.Address) []byte {
	a := NewAsm()
	a.PushAddr(beneficiary).Op(opSELFDESTRUCT)
	return a.Bytes()
}

// BuildCreator: on any call CREATEs a child contract with the given init code (value 0), stores the
// child's address in slot 1 and returns it.
func BuildCreator(childInit []byte) []byte {
	a := NewAsm()
	a.Data("ci", childInit)
	a.PushU(uint64(len(childInit))).PushLabel("ci").PushU(0).Op(OpCODECOPY)
	a.PushU(uint64(len(childInit))).PushU(0).PushU(0).Op(opCREATE) // value, offset, size -> addr
	a.Op(OpDUP1).PushU(1).Op(opSSTORE)
	a.PushU(0).Op(OpMSTORE).PushU(32).PushU(0).Op(OpRETURN)
	return a.Bytes()
}

// BuildCounter: storage[0]++ ; returns the new value; emits LOG0. Reads neither block context nor balances.
func BuildCounter() []byte {
	a := NewAsm()
	a.PushU(0).Op(opSLOAD).PushU(1).Op(opADD).Op(OpDUP1).PushU(0).Op(opSSTORE)
	a.PushU(0).Op(OpMSTORE)
	a.PushU(32).PushU(0).Op(opLOG0)
	a.PushU(32).PushU(0).Op(OpRETURN)
	return a.Bytes()
}
