package hx

// Helpers shared by the `static` (C12) and `staking` (C11) drivers: deterministic keyed accounts,
// placing code at an address between blocks, deploying the custom precompiled contracts through the
// keeper, sending one Ethereum transaction per block and decoding its result, EIP-712 signing of the
// staking precompile's typed messages.  Add-only file (owner: C11/C12).

import (
	"crypto/sha256"
	"fmt"
	"math/big"

	sdkmath "cosmossdk.io/math"
	abci "github.com/cometbft/cometbft/abci/types"
	codectypes "github.com/cosmos/cosmos-sdk/codec/types"
	authtx "github.com/cosmos/cosmos-sdk/x/auth/tx"
	tmproto "github.com/cometbft/cometbft/proto/tendermint/types"
	sdk "github.com/cosmos/cosmos-sdk/types"
	"github.com/ethereum/go-ethereum/common"
	ethtypes "github.com/ethereum/go-ethereum/core/types"
	"github.com/ethereum/go-ethereum/crypto"
	"github.com/stretchr/testify/require"

	"github.com/EscanBE/evermint/v12/constants"
	"github.com/EscanBE/evermint/v12/crypto/ethsecp256k1"
	itu "github.com/EscanBE/evermint/v12/integration_test_util"
	itutiltypes "github.com/EscanBE/evermint/v12/integration_test_util/types"
	"github.com/EscanBE/evermint/v12/x/cpc/eip712"
	evertypes "github.com/EscanBE/evermint/v12/types"
	cpctypes "github.com/EscanBE/evermint/v12/x/cpc/types"
	evmtypes "github.com/EscanBE/evermint/v12/x/evm/types"
)

// DetAccount derives a keyed test account from (tag, i): the same on every run and on every chain.
func (c *Chain) DetAccount(tag string, i int) *itutiltypes.TestAccount {
	for n := 0; ; n++ {
		h := sha256.Sum256([]byte(fmt.Sprintf("verif/%s/%d/%d", tag, i, n)))
		if _, err := crypto.ToECDSA(h[:]); err != nil {
			continue
		}
		return itu.NewTestAccount(c.T, &ethsecp256k1.PrivKey{Key: h[:]})
	}
}

// SetCode places code at addr directly in the commit multistore (between blocks). The account must exist.
func (c *Chain) SetCode(addr common.Address, code []byte) {
	ctx := c.Ctx()
	if len(code) == 0 {
		c.App.EvmKeeper.DeleteCodeHash(ctx, addr.Bytes())
		return
	}
	h := crypto.Keccak256Hash(code)
	c.App.EvmKeeper.SetCode(ctx, h.Bytes(), code)
	c.App.EvmKeeper.SetCodeHash(ctx, addr, h)
}

// DeployCpcs registers an ERC-20 precompile for each given denom and the staking precompile (bech32 is registered
// at genesis) through the cpc keeper, between blocks. Returns the ERC-20 addresses in order.
func (c *Chain) DeployCpcs(erc20Denoms ...string) []common.Address {
	ctx := c.Ctx()
	var out []common.Address
	for i, d := range erc20Denoms {
		a, err := c.App.CPCKeeper.DeployErc20CustomPrecompiledContract(ctx, fmt.Sprintf("Wrapped %d", i),
			cpctypes.Erc20CustomPrecompiledContractMeta{Symbol: fmt.Sprintf("W%d", i), Decimals: 18, MinDenom: d})
		require.NoError(c.T, err)
		out = append(out, a)
	}
	_, err := c.App.CPCKeeper.DeployStakingCustomPrecompiledContract(ctx,
		cpctypes.StakingCustomPrecompiledContractMeta{Symbol: constants.SymbolDenom, Decimals: constants.BaseDenomExponent})
	require.NoError(c.T, err)
	return out
}

func (c *Chain) EvmChainID() *big.Int {
	return c.App.EvmKeeper.GetEip155ChainId(c.QueryCtx()).BigInt()
}

// EthResult is the decoded outcome of one Ethereum transaction of a block.
type EthResult struct {
	Code    uint32 // ABCI code (0 = the transaction was executed; the EVM may still have failed)
	Log     string // ABCI log (diagnostics only, never compared)
	Status  uint64 // receipt status
	Ret     []byte
	VmError string
	GasUsed uint64
	Logs    []*ethtypes.Log
	Events  []abci.Event
}

func (c *Chain) DecodeEthResult(r *abci.ExecTxResult) EthResult {
	out := EthResult{Code: r.Code, Log: r.Log, Events: r.Events}
	if r.Code != 0 {
		return out
	}
	var txData sdk.TxMsgData
	require.NoError(c.T, c.S.EncodingConfig.Codec.Unmarshal(r.Data, &txData))
	require.Len(c.T, txData.MsgResponses, 1)
	var resp evmtypes.MsgEthereumTxResponse
	require.NoError(c.T, resp.Unmarshal(txData.MsgResponses[0].Value))
	out.Ret, out.VmError, out.GasUsed = resp.Ret, resp.VmError, resp.GasUsed
	var rc ethtypes.Receipt
	require.NoError(c.T, rc.UnmarshalBinary(resp.MarshalledReceipt))
	out.Status, out.Logs = rc.Status, rc.Logs
	return out
}

// EthCallTx builds a signed dynamic-fee transaction sender -> to with the given calldata (fee cap = 2 x base fee, no tip).
func (c *Chain) EthCallTx(sender *itutiltypes.TestAccount, to common.Address, data []byte, gas uint64, value *big.Int) []byte {
	q := c.QueryCtx()
	if value == nil {
		value = big.NewInt(0)
	}
	bz, _, err := c.EthTxBytes(sender, &ethtypes.DynamicFeeTx{
		ChainID: c.EvmChainID(), Nonce: c.Nonce(q, sender.GetEthAddress()), GasTipCap: big.NewInt(0),
		GasFeeCap: new(big.Int).Mul(c.BaseFee(q), big.NewInt(2)), Gas: gas, To: &to, Value: value, Data: data,
	})
	require.NoError(c.T, err)
	return bz
}

// SendEth runs one block containing exactly this transaction and decodes its result.
func (c *Chain) SendEth(sender *itutiltypes.TestAccount, to common.Address, data []byte, gas uint64) EthResult {
	res := c.RunBlock([][]byte{c.EthCallTx(sender, to, data, gas, nil)})
	require.Len(c.T, res.TxResults, 1)
	return c.DecodeEthResult(res.TxResults[0])
}

// RepairConsAddrIndex points the staking module's consensus-address index back at the bonded genesis validators.
// The integration suite registers, after genesis, a second (unbonded, zero-token) validator per validator account with
// the same consensus key, which takes over the index; with that, block rewards allocated by vote (distribution
// BeginBlocker -> ValidatorByConsAddr) would all go to validators nobody can be delegated to with effect.
func (c *Chain) RepairConsAddrIndex() {
	ctx := c.Ctx()
	vals, err := c.App.StakingKeeper.GetBondedValidatorsByPower(ctx)
	require.NoError(c.T, err)
	for _, v := range vals {
		require.NoError(c.T, c.App.StakingKeeper.SetValidatorByConsAddr(ctx, v))
	}
}

// RunBlockVoted is RunBlock with a last-commit in which every bonded validator (as of the committed state) signed, so
// that the distribution module's BeginBlocker allocates the fee collector's balance to validators and their delegators
// (without votes everything goes to the community pool and no delegation ever earns a reward).
func (c *Chain) RunBlockVoted(txs [][]byte) *abci.ResponseFinalizeBlock {
	q := c.QueryCtx()
	vals, err := c.App.StakingKeeper.GetBondedValidatorsByPower(q)
	require.NoError(c.T, err)
	pr := c.App.StakingKeeper.PowerReduction(q)
	var votes []abci.VoteInfo
	for _, v := range vals {
		cons, err := v.GetConsAddr()
		require.NoError(c.T, err)
		votes = append(votes, abci.VoteInfo{Validator: abci.Validator{Address: cons, Power: v.ConsensusPower(pr)}, BlockIdFlag: tmproto.BlockIDFlagCommit})
	}
	h := c.header()
	res, err := c.App.BaseApp.FinalizeBlock(&abci.RequestFinalizeBlock{
		Height: h.Height, Txs: txs, Time: h.Time, ProposerAddress: h.ProposerAddress,
		DecidedLastCommit: abci.CommitInfo{Votes: votes},
	})
	require.NoError(c.T, err)
	_, err = c.App.BaseApp.Commit()
	require.NoError(c.T, err)
	c.Height++
	c.Time = c.Time.Add(c.Step)
	return res
}

// CosmosTxFree signs a Cosmos transaction carrying msgs that pays nothing on a chain whose base fee is zero: the fee
// coin is gas x 1 (exactly one fee coin is mandatory) with the dynamic-fee extension option and a zero priority price,
// so the effective price is min(0 + base fee, 1) = 0. Lets twin chains be compared to the last coin.
func (c *Chain) CosmosTxFree(acct *itutiltypes.TestAccount, gas uint64, msgs ...sdk.Msg) []byte {
	tb := c.S.TxBuilder().SetMsgs(msgs...).SetGasLimit(gas).
		SetFeeAmount(sdk.NewCoins(sdk.NewCoin(c.Denom(), sdkmath.NewIntFromUint64(gas))))
	opt, err := codectypes.NewAnyWithValue(&evertypes.ExtensionOptionDynamicFeeTx{MaxPriorityPrice: sdkmath.ZeroInt()})
	require.NoError(c.T, err)
	tb.ClientTxBuilder().(authtx.ExtensionOptionsTxBuilder).SetExtensionOptions(opt)
	signed, err := c.S.SignCosmosTx(c.QueryCtx(), acct, tb)
	require.NoError(c.T, err)
	bz, err := c.S.EncodingConfig.TxConfig.TxEncoder()(signed.GetTx())
	require.NoError(c.T, err)
	return bz
}

// SendEthFree is SendEth with fee cap 1 and no tip: with a zero base fee the effective gas price is zero.
func (c *Chain) SendEthFree(sender *itutiltypes.TestAccount, to common.Address, data []byte, gas uint64) EthResult {
	bz, _, err := c.EthTxBytes(sender, &ethtypes.DynamicFeeTx{
		ChainID: c.EvmChainID(), Nonce: c.Nonce(c.QueryCtx(), sender.GetEthAddress()), GasTipCap: big.NewInt(0),
		GasFeeCap: big.NewInt(1), Gas: gas, To: &to, Value: big.NewInt(0), Data: data,
	})
	require.NoError(c.T, err)
	res := c.RunBlock([][]byte{bz})
	require.Len(c.T, res.TxResults, 1)
	return c.DecodeEthResult(res.TxResults[0])
}

// SignTyped signs an EIP-712 typed message of the staking precompile for the given chain id.
func SignTyped(acct *itutiltypes.TestAccount, msg eip712.TypedMessage, chainID *big.Int) (r, s [32]byte, v uint8, err error) {
	var hash []byte
	hash, err = eip712.EIP712HashingTypedMessage(msg, chainID)
	if err != nil {
		return
	}
	var sig []byte
	sig, err = acct.PrivateKey.Sign(hash)
	if err != nil {
		return
	}
	copy(r[:], sig[:32])
	copy(s[:], sig[32:64])
	v = sig[64]
	return
}
