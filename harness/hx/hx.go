package hx

// Shared plumbing for all drivers: one PRNG, Coq-term emitters, the per-run sidecar
// (histogram, samples, oracle hits) and a few helpers around the integration suite.

import (
	"encoding/json"
	"fmt"
	"math/big"
	"os"
	"path/filepath"
	"sort"
	"strconv"
	"strings"
	"testing"

	"github.com/stretchr/testify/require"

	itu "github.com/EscanBE/evermint/v12/integration_test_util"
)

// ---------------------------------------------------------------- PRNG (splitmix64)

type Rng struct{ s uint64 }

func NewRng(seed uint64) *Rng { return &Rng{s: seed*0x9E3779B97F4A7C15 + 0x1234567} }

func (r *Rng) U64() uint64 {
	r.s += 0x9E3779B97F4A7C15
	z := r.s
	z = (z ^ (z >> 30)) * 0xBF58476D1CE4E5B9
	z = (z ^ (z >> 27)) * 0x94D049BB133111EB
	return z ^ (z >> 31)
}

// Intn returns a value in [0,n).
func (r *Rng) Intn(n int) int {
	if n <= 0 {
		return 0
	}
	return int(r.U64() % uint64(n))
}

func (r *Rng) Bool() bool         { return r.U64()&1 == 1 }
func (r *Rng) Chance(pct int) bool { return r.Intn(100) < pct }

// BigBits returns a uniformly random non-negative integer below 2^bits.
func (r *Rng) BigBits(bits int) *big.Int {
	z := new(big.Int)
	for i := 0; i < (bits+63)/64; i++ {
		z.Lsh(z, 64)
		z.Or(z, new(big.Int).SetUint64(r.U64()))
	}
	return z.And(z, new(big.Int).Sub(new(big.Int).Lsh(big.NewInt(1), uint(bits)), big.NewInt(1)))
}

// PickBig picks one of the candidates.
func (r *Rng) PickBig(c []*big.Int) *big.Int { return new(big.Int).Set(c[r.Intn(len(c))]) }

// Fork derives an independent stream for case i so that a case replays from (seed,i).
func (r *Rng) Fork(i uint64) *Rng { return NewRng(r.s ^ (i+1)*0xD6E8FEB86659FD93) }

// ---------------------------------------------------------------- environment

func EnvInt(name string, def int) int {
	if v := os.Getenv(name); v != "" {
		if n, err := strconv.Atoi(v); err == nil {
			return n
		}
	}
	return def
}

func EnvSeed() uint64 {
	if v := os.Getenv("VERIF_SEED"); v != "" {
		if n, err := strconv.ParseUint(v, 10, 64); err == nil {
			return n
		}
	}
	return 1
}

func OutDir(t *testing.T) string {
	d := os.Getenv("VERIF_OUT")
	if d == "" {
		t.Skip("VERIF_OUT not set: drivers run only from /verif/check")
	}
	require.NoError(t, os.MkdirAll(d, 0o755))
	return d
}

func Thorough() bool { return strings.EqualFold(os.Getenv("VERIF_TIER"), "thorough") }

// ---------------------------------------------------------------- Coq term emitters

func CqZ(z *big.Int) string {
	if z.Sign() < 0 {
		return "(" + z.String() + ")%Z"
	}
	return z.String() + "%Z"
}
func CqZi(i int64) string  { return CqZ(big.NewInt(i)) }
func CqZu(u uint64) string { return CqZ(new(big.Int).SetUint64(u)) }
func CqN(u uint64) string  { return strconv.FormatUint(u, 10) + "%N" }
func CqNat(n int) string   { return strconv.Itoa(n) + "%nat" }
func CqBool(b bool) string {
	if b {
		return "true"
	}
	return "false"
}
func CqList(items []string) string { return "[" + strings.Join(items, "; ") + "]" }
func CqOptZ(z *big.Int) string {
	if z == nil {
		return "None"
	}
	return "(Some " + CqZ(z) + ")"
}

// CasesFile collects Coq terms of type `case` and writes sharded cases_<k>.v files.
type CasesFile struct {
	dir, imports, caseType, checker string
	items                           []string
}

func NewCases(dir, imports, checker string) *CasesFile {
	return &CasesFile{dir: dir, imports: imports, checker: checker}
}

func (c *CasesFile) Add(term string) { c.items = append(c.items, term) }
func (c *CasesFile) Len() int        { return len(c.items) }

// Write emits shards of at most per cases each. Each shard evaluates
// `checker cases` (a list of indices of mismatching cases, with offset) with vm_compute.
func (c *CasesFile) Write(t *testing.T, per int) {
	old, _ := filepath.Glob(filepath.Join(c.dir, "cases_*.v"))
	for _, f := range old {
		_ = os.Remove(f)
	}
	if per <= 0 {
		per = 500
	}
	shard := 0
	for off := 0; off < len(c.items) || (off == 0 && shard == 0); off += per {
		end := off + per
		if end > len(c.items) {
			end = len(c.items)
		}
		var sb strings.Builder
		sb.WriteString(c.imports)
		sb.WriteString("\nOpen Scope Z_scope.\nImport ListNotations.\n")
		sb.WriteString("Definition cases := [\n")
		for i := off; i < end; i++ {
			sb.WriteString("  ")
			sb.WriteString(c.items[i])
			if i+1 < end {
				sb.WriteString(";")
			}
			sb.WriteString("\n")
		}
		sb.WriteString("].\n")
		sb.WriteString(fmt.Sprintf("Definition M := Eval vm_compute in (%s %d%%nat cases).\nPrint M.\n", c.checker, off))
		sb.WriteString(fmt.Sprintf("Definition CNT := Eval vm_compute in (length cases).\nPrint CNT.\n"))
		require.NoError(t, os.WriteFile(filepath.Join(c.dir, fmt.Sprintf("cases_%03d.v", shard)), []byte(sb.String()), 0o644))
		shard++
		if len(c.items) == 0 {
			break
		}
	}
}

// ---------------------------------------------------------------- sidecar

type OracleHit struct {
	Signature string      `json:"signature"` // stable key matched against known_findings.json
	Message   string      `json:"message"`
	Case      interface{} `json:"case"`
}

type Sidecar struct {
	Driver      string                 `json:"driver"`
	Seed        uint64                 `json:"seed"`
	Evaluations int                    `json:"evaluations"`
	Nontrivial  int                    `json:"distinct_nontrivial"`
	Rule        string                 `json:"rule"`
	Histogram   map[string]int         `json:"histogram"`
	Samples     []interface{}          `json:"samples"`
	OracleHits  []OracleHit            `json:"oracle_hits"`
	CaseIndex   map[string]interface{} `json:"case_index"` // case number -> printable description (for replay files)
	Extra       map[string]interface{} `json:"extra,omitempty"`
	distinct    map[string]bool
	perSig      map[string]int
}

func NewSidecar(driver string, seed uint64, rule string) *Sidecar {
	return &Sidecar{Driver: driver, Seed: seed, Rule: rule, Histogram: map[string]int{},
		OracleHits: []OracleHit{}, Samples: []interface{}{}, CaseIndex: map[string]interface{}{}, distinct: map[string]bool{}, Extra: map[string]interface{}{}}
}

func (s *Sidecar) Count(k string) { s.Histogram[k]++ }

// Case records one evaluated case. canonical identifies it for distinctness; nontrivial says
// whether it counts towards distinct_nontrivial by the driver's rule.
func (s *Sidecar) Case(idx int, canonical string, nontrivial bool, desc interface{}) {
	s.Evaluations++
	if nontrivial && !s.distinct[canonical] {
		s.distinct[canonical] = true
		s.Nontrivial++
	}
	if len(s.Samples) < 5 || (idx%97 == 0 && len(s.Samples) < 12) {
		s.Samples = append(s.Samples, desc)
	}
	s.CaseIndex[strconv.Itoa(idx)] = desc
}

// Hit records an oracle hit. At most 20 hits are kept per signature (and 4000 in all), so that a frequent
// known finding can never crowd out a hit with another signature later in the run; the histogram counts all of them.
func (s *Sidecar) Hit(sig, msg string, c interface{}) {
	if s.perSig == nil {
		s.perSig = map[string]int{}
	}
	if s.perSig[sig] < 20 && len(s.OracleHits) < 4000 {
		s.OracleHits = append(s.OracleHits, OracleHit{Signature: sig, Message: msg, Case: c})
	}
	s.perSig[sig]++
	s.Count("oracle_hit:" + sig)
}

func (s *Sidecar) Write(t *testing.T, dir string) {
	// keep case index bounded: replay needs only what a mismatch refers to, so cap at 20000
	if len(s.CaseIndex) > 20000 {
		keys := make([]string, 0, len(s.CaseIndex))
		for k := range s.CaseIndex {
			keys = append(keys, k)
		}
		sort.Strings(keys)
		for _, k := range keys[20000:] {
			delete(s.CaseIndex, k)
		}
	}
	b, err := json.MarshalIndent(s, "", " ")
	require.NoError(t, err)
	require.NoError(t, os.WriteFile(filepath.Join(dir, "driver.json"), b, 0o644))
}

// ---------------------------------------------------------------- suite helper

func NewSuite(t *testing.T) *itu.ChainIntegrationTestSuite {
	s := itu.CreateChainIntegrationTestSuiteFromChainConfig(t, require.New(t), itu.IntegrationTestChain1, true)
	t.Cleanup(func() { s.Cleanup() })
	return s
}

func Pow2(n uint) *big.Int { return new(big.Int).Lsh(big.NewInt(1), n) }
func Bi(i int64) *big.Int  { return big.NewInt(i) }
func Bsub(a *big.Int, i int64) *big.Int {
	return new(big.Int).Sub(a, big.NewInt(i))
}
func Badd(a *big.Int, i int64) *big.Int {
	return new(big.Int).Add(a, big.NewInt(i))
}

// CatchPanic runs f and reports the panic value, if any.
func CatchPanic(f func()) (p interface{}) {
	defer func() { p = recover() }()
	f()
	return nil
}
