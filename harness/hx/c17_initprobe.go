package hx

// Init code for the `registry` driver (C17): the caller of a custom precompiled contract is the constructor of a
// top-level contract-creation message (a creation transaction, or an eth_call / simulation without `to`).
// Add-only file (owner: C17); uses the assembler of asm_staticstaking.go.

import "github.com/ethereum/go-ethereum/common"

// BuildInitProbe assembles init code that calls target with the given call opcode (OpCALL with value 0, or
// OpSTATICCALL / OpDELEGATECALL / OpCALLCODE), passing input and all remaining gas, and then
//   - when the call succeeded: RETURNs the callee's return data, which so becomes the code of the created contract and
//     the return data of the creation message;
//   - when the call failed: REVERTs with the callee's return data.
// The same contract as BuildProxy, with the calldata taken from the init code itself.
func BuildInitProbe(op byte, target common.Address, input []byte) []byte {
	a := NewAsm()
	a.Data("in", input)
	a.PushU(uint64(len(input))).PushLabel("in").PushU(0).Op(OpCODECOPY) // mem[0..len) = input
	a.PushU(0).PushU(0).PushU(uint64(len(input))).PushU(0)             // outSize outOff inSize inOff
	if op == OpCALL || op == OpCALLCODE {
		a.PushU(0) // value
	}
	a.PushAddr(target).Op(OpGAS).Op(op)
	a.Op(OpRETURNDATASIZE).PushU(0).PushU(0).Op(OpRETURNDATACOPY)
	a.PushLabel("ok").Op(OpJUMPI)
	a.Op(OpRETURNDATASIZE).PushU(0).Op(OpREVERT)
	a.Label("ok").Op(OpRETURNDATASIZE).PushU(0).Op(OpRETURN)
	return a.Bytes()
}
