package hx

// EIP-712 typed data of the staking precompile's signed messages, written down from the interface description
// (ESIP-179: domain = {name: upper-case application name, version "1.0.0", chainId, verifyingContract = the staking
// precompile, salt = hex of the address' last byte}) INDEPENDENTLY of /repo's x/cpc/eip712 and x/cpc/abi code, hashed
// and recovered with go-ethereum's own apitypes.TypedDataAndHash / crypto.SigToPub.  The `staking` driver (C11)
// signs with this and recovers with this, so that a change in /repo's hashing, domain or chain-id binding cannot
// cancel out between the driver's signer and the code under test.  Add-only file (owner: C11).

import (
	"fmt"
	"math/big"
	"strings"

	"github.com/ethereum/go-ethereum/common"
	cmath "github.com/ethereum/go-ethereum/common/math"
	"github.com/ethereum/go-ethereum/crypto"
	"github.com/ethereum/go-ethereum/signer/core/apitypes"

	"github.com/EscanBE/evermint/v12/constants"
	itutiltypes "github.com/EscanBE/evermint/v12/integration_test_util/types"
)

func c11Domain(cpc common.Address, chainID *big.Int) (apitypes.TypedDataDomain, []apitypes.Type) {
	return apitypes.TypedDataDomain{
			Name:              strings.ToUpper(constants.ApplicationName),
			Version:           "1.0.0",
			ChainId:           (*cmath.HexOrDecimal256)(new(big.Int).Set(chainID)),
			VerifyingContract: cpc.Hex(),
			Salt:              fmt.Sprintf("0x%x", cpc.Bytes()[19]),
		}, []apitypes.Type{
			{Name: "name", Type: "string"}, {Name: "version", Type: "string"}, {Name: "chainId", Type: "uint256"},
			{Name: "verifyingContract", Type: "address"}, {Name: "salt", Type: "string"},
		}
}

// C11StakingTypedData: StakingMessage(string action,address delegator,string validator,uint256 amount,string denom,string oldValidator)
func C11StakingTypedData(cpc common.Address, chainID *big.Int, action string, delegator common.Address, validator string, amount *big.Int, denom, oldValidator string) apitypes.TypedData {
	dom, domTypes := c11Domain(cpc, chainID)
	return apitypes.TypedData{
		Types: apitypes.Types{
			"EIP712Domain": domTypes,
			"StakingMessage": []apitypes.Type{
				{Name: "action", Type: "string"}, {Name: "delegator", Type: "address"}, {Name: "validator", Type: "string"},
				{Name: "amount", Type: "uint256"}, {Name: "denom", Type: "string"}, {Name: "oldValidator", Type: "string"},
			},
		},
		PrimaryType: "StakingMessage",
		Domain:      dom,
		Message: apitypes.TypedDataMessage{
			"action": action, "delegator": delegator.Hex(), "validator": validator,
			"amount": (*cmath.HexOrDecimal256)(new(big.Int).Set(amount)), "denom": denom, "oldValidator": oldValidator,
		},
	}
}

// C11WithdrawTypedData: WithdrawRewardMessage(address delegator,string fromValidator)
func C11WithdrawTypedData(cpc common.Address, chainID *big.Int, delegator common.Address, fromValidator string) apitypes.TypedData {
	dom, domTypes := c11Domain(cpc, chainID)
	return apitypes.TypedData{
		Types: apitypes.Types{
			"EIP712Domain":          domTypes,
			"WithdrawRewardMessage": []apitypes.Type{{Name: "delegator", Type: "address"}, {Name: "fromValidator", Type: "string"}},
		},
		PrimaryType: "WithdrawRewardMessage",
		Domain:      dom,
		Message:     apitypes.TypedDataMessage{"delegator": delegator.Hex(), "fromValidator": fromValidator},
	}
}

// C11SignTypedData signs keccak256("\x19\x01" ‖ domainSeparator ‖ hashStruct(message)) with the account's key.
func C11SignTypedData(acct *itutiltypes.TestAccount, td apitypes.TypedData) (r, s [32]byte, v uint8, err error) {
	var hash []byte
	hash, _, err = apitypes.TypedDataAndHash(td)
	if err != nil {
		return
	}
	var sig []byte
	sig, err = acct.PrivateKey.Sign(hash)
	if err != nil {
		return
	}
	copy(r[:], sig[:32])
	copy(s[:], sig[32:64])
	v = sig[64]
	return
}

// C11RecoverTypedData returns the signer of (r,s,v) over td, or nil when there is none (v: 0/1 or 27/28).
func C11RecoverTypedData(td apitypes.TypedData, r, s [32]byte, v uint8) *common.Address {
	var hash []byte
	if p := CatchPanic(func() {
		if h, _, err := apitypes.TypedDataAndHash(td); err == nil {
			hash = h
		}
	}); p != nil || hash == nil {
		return nil
	}
	sig := make([]byte, 65)
	copy(sig, r[:])
	copy(sig[32:], s[:])
	sig[64] = v
	if v == 27 || v == 28 {
		sig[64] = v - 27
	}
	pub, err := crypto.SigToPub(hash, sig)
	if err != nil {
		return nil
	}
	a := crypto.PubkeyToAddress(*pub)
	return &a
}
