package genesis

// Driver `genesis` (C18).  For every case: a chain A is initialised from a genesis document with a chosen
// combination of the two cpc flags, a generated history is executed on it (contract deployments, storage writes
// incl. zero-valued and cleared slots, self-destructs, code-less accounts with storage, ERC-20 precompiles
// deployed by message, approvals, staking precompile deployed by message, vauth proofs, parameter changes,
// base fee drift; fee-market / evm / cpc params set through the real MsgUpdateParams handlers with the gov authority,
// boundary-heavy: fractional / integral / zero / huge min gas price, base fee on / just above / far above / below the
// floor trunc(min gas price), blocks executed afterwards so that EndBlock has applied its own clamp; export right after
// InitChain, right after the deploying block, or several blocks later; chain B with its own initial height, consensus
// params and chain id; the account environment of the custom modules' addresses varied by transactions and by the genesis
// document, see env_test.go), then:  real ExportAppStateAndValidators(A)  ->  fresh NewEvermint + real InitChain = B  ->
// the custom modules' stores of A and B compared entry by entry (oracle)  ->  real export of B compared with
// the first export (oracle).  The model gets the raw store content of A and must predict the exported document,
// B's store content and B's export.

import (
	"encoding/hex"
	"fmt"
	"math/big"
	"os"
	"sort"
	"strings"
	"testing"
	"time"

	sdkmath "cosmossdk.io/math"
	tmproto "github.com/cometbft/cometbft/proto/tendermint/types"
	servertypes "github.com/cosmos/cosmos-sdk/server/types"
	sdk "github.com/cosmos/cosmos-sdk/types"
	"github.com/ethereum/go-ethereum/common"
	ethtypes "github.com/ethereum/go-ethereum/core/types"
	"github.com/ethereum/go-ethereum/crypto"
	"github.com/stretchr/testify/require"

	authtypes "github.com/cosmos/cosmos-sdk/x/auth/types"
	banktypes "github.com/cosmos/cosmos-sdk/x/bank/types"
	govtypes "github.com/cosmos/cosmos-sdk/x/gov/types"

	chainapp "github.com/EscanBE/evermint/v12/app"
	cpckeeper "github.com/EscanBE/evermint/v12/x/cpc/keeper"
	itutiltypes "github.com/EscanBE/evermint/v12/integration_test_util/types"
	cpctypes "github.com/EscanBE/evermint/v12/x/cpc/types"
	evmtypes "github.com/EscanBE/evermint/v12/x/evm/types"
	feemarkettypes "github.com/EscanBE/evermint/v12/x/feemarket/types"
	vauthtypes "github.com/EscanBE/evermint/v12/x/vauth/types"

	. "verifharness/hx"
)

type evmGenesis = evmtypes.GenesisState
type fmGenesis = feemarkettypes.GenesisState

func sdkIntFromBig(b *big.Int) sdkmath.Int { return sdkmath.NewIntFromBigInt(b) }

const (
	sigErc20Msg     = "C18/genesis/cpc-erc20-deployed-by-msg-lost"
	sigErc20Native  = "C18/genesis/cpc-erc20-native-deployed-by-genesis-flag-lost"
	sigAllow        = "C18/genesis/cpc-allowances-lost"
	sigStakingMeta  = "C18/genesis/cpc-staking-deployed-by-msg-metadata-reset"
	sigProofs       = "C18/genesis/vauth-proofs-lost"
	sigCodeless     = "C18/genesis/evm-storage-of-codeless-account-lost"
	sigContract     = "C18/genesis/evm-contract-code-or-storage-lost"
	sigEvmParams    = "C18/genesis/evm-params-changed"
	sigFm           = "C18/genesis/feemarket-params-or-base-fee-changed"
	sigCpcParams    = "C18/genesis/cpc-params-changed"
	sigCpcOther     = "C18/genesis/cpc-precompile-lost-or-changed"
	sigAdds         = "C18/genesis/import-adds-state"
	sigImportFails  = "C18/genesis/import-fails"
	sigSecondExport = "C18/genesis/second-export-differs"
	sigFlag         = "C18/genesis/genesis-flag-not-honoured"
	sigInvalid      = "C18/genesis/export-fails-validate-genesis"
	sigChanged      = "C18/genesis/cpc-or-vauth-entry-changed" // an entry that is neither kept nor lost in the known way
	sigUnknown      = "C18/genesis/store-entry-under-unknown-prefix"
	sigChainID      = "C18/genesis/evm-chain-id-wrong"
	sigNondet       = "C18/genesis/export-not-deterministic"
	sigExportWrites = "C18/genesis/export-changes-state"
	sigExportState  = "C18/genesis/export-differs-from-state"
	sigHeight       = "C18/genesis/export-height-wrong"
	sigFmDoc        = "C18/genesis/feemarket-document-not-stored-as-is"
	sigFmInvalid    = "C18/genesis/invalid-feemarket-document-accepted"
	sigZeroHeight   = "C18/genesis/zero-height-export-differs"
)

// same Store contract as the indexer driver: calldata of (key,value) pairs -> SSTORE + LOG1; 1 byte -> SELFDESTRUCT; 2 bytes -> REVERT
var storeRuntime = common.FromHex("0x366001146034573660021460375760005b8036111560325780602001358135808290559060005260206000a16040016010565b005b33ff5b60006000fd")

func storeInit(pairs [][2]int64, variant int) []byte {
	// constructor: SSTORE the given pairs, then return the runtime code (variant: trailing STOP bytes, so that
	// contracts with different code and contracts sharing one code hash both occur)
	var pre []byte
	for _, p := range pairs {
		pre = append(pre, 0x60, byte(p[1]), 0x60, byte(p[0]), 0x55) // PUSH1 v PUSH1 k SSTORE
	}
	rt := append(append([]byte{}, storeRuntime...), make([]byte, variant)...)
	off := len(pre) + 11
	init := append(pre, 0x60, byte(len(rt)), 0x80, 0x60, byte(off), 0x60, 0x00, 0x39, 0x60, 0x00, 0xf3)
	return append(init, rt...)
}

// codelessInit: constructor that writes storage and returns NO code
func codelessInit(pairs [][2]int64) []byte {
	var pre []byte
	for _, p := range pairs {
		pre = append(pre, 0x60, byte(p[1]), 0x60, byte(p[0]), 0x55)
	}
	return append(pre, 0x00) // STOP: empty code
}

type hist struct {
	t       *testing.T
	c       *Chain // chain A
	r       *Rng
	side    *Sidecar
	pending map[common.Address]uint64
	txs     [][]byte
	after   []func(ok bool) // per tx: bookkeeping once the result is known

	stores    []common.Address // live Store contracts
	erc20s    []common.Address
	erc20Msg  map[common.Address]bool // deployed by message
	nativeGen *common.Address         // native ERC-20 deployed by the genesis flag
	stakingBy string                  // "", "genesis", "msg"
	ops       []string
	evmOnly   bool // only transactions that need no flush and no precompile deployer (the block right before the export)
	codeless  []common.Address // accounts that hold storage and no code
	dead      []common.Address // self-destructed contracts
	touched   []target         // addresses coins were sent to
}

func (h *hist) wallet() *itutiltypes.TestAccount { return h.c.S.WalletAccounts.Number(1 + h.r.Intn(5)) }

func (h *hist) nonce(a *itutiltypes.TestAccount) uint64 {
	addr := a.GetEthAddress()
	if _, ok := h.pending[addr]; !ok {
		h.pending[addr] = h.c.Nonce(h.c.QueryCtx(), addr)
	}
	return h.pending[addr]
}

// price: enough for the current base fee (which the fee market may raise by 1/8 before the tx runs) and for the
// global min gas price, whatever governance has set them to
func (h *hist) price() *big.Int {
	ctx := h.c.QueryCtx()
	p := new(big.Int).Mul(big.NewInt(2), h.c.BaseFee(ctx))
	p.Add(p, h.c.App.FeeMarketKeeper.GetParams(ctx).MinGasPrice.Ceil().TruncateInt().BigInt())
	return p.Add(p, big.NewInt(1))
}

func (h *hist) eth(a *itutiltypes.TestAccount, to *common.Address, gas uint64, data []byte, after func(ok bool)) {
	raw, _, err := h.c.EthTxBytes(a, &ethtypes.LegacyTx{Nonce: h.nonce(a), GasPrice: h.price(), Gas: gas, To: to, Data: data})
	require.NoError(h.t, err)
	h.pending[a.GetEthAddress()]++
	h.txs = append(h.txs, raw)
	h.after = append(h.after, after)
}

func (h *hist) cosmos(a *itutiltypes.TestAccount, after func(ok bool), msgs ...sdk.Msg) {
	raw, err := cosmosTx(h.c, a, h.nonce(a), 400000, h.price(), msgs...)
	require.NoError(h.t, err)
	h.pending[a.GetEthAddress()]++
	h.txs = append(h.txs, raw)
	h.after = append(h.after, after)
}

func pairs(r *Rng, n int) [][2]int64 {
	out := make([][2]int64, n)
	for i := range out {
		out[i] = [2]int64{int64(r.Intn(5)), int64(r.Intn(3))} // value 0 included: zero-valued and cleared slots
	}
	return out
}

// manyPairs: many slots over a wide key range (keys sort differently as bytes than the order they are written in),
// zero words, small and 63-bit values
func manyPairs(r *Rng, n int) [][2]int64 {
	out := make([][2]int64, n)
	for i := range out {
		v := int64(r.Intn(3))
		if r.Chance(30) {
			v = int64(r.U64() >> 1)
		}
		k := int64(r.Intn(256))
		if r.Chance(20) {
			k = int64(r.U64() >> 1)
		}
		out[i] = [2]int64{k, v}
	}
	return out
}

func pairData(ps [][2]int64) []byte {
	var d []byte
	for _, p := range ps {
		d = append(d, common.BigToHash(big.NewInt(p[0])).Bytes()...)
		d = append(d, common.BigToHash(big.NewInt(p[1])).Bytes()...)
	}
	return d
}

func (h *hist) flush() {
	if len(h.txs) == 0 {
		h.c.RunBlock(nil)
		return
	}
	res := h.c.RunBlock(h.txs)
	for i, r := range res.TxResults {
		ok := r.Code == 0
		if ok {
			// an executed Ethereum tx may still have failed inside the VM
			for _, e := range r.Events {
				if e.Type == "tx_receipt" {
					for _, a := range e.Attributes {
						if a.Key == "error" {
							ok = false
						}
					}
				}
			}
		}
		if !ok {
			h.side.Count("op_tx_failed")
			if os.Getenv("VERIF_DEBUG") != "" {
				fmt.Println("FAILED TX", r.Code, r.Log, r.GasUsed, r.GasWanted)
				for _, e := range r.Events {
					if e.Type == "tx_receipt" {
						for _, a := range e.Attributes {
							if a.Key == "error" {
								fmt.Println("   vm error:", a.Value)
							}
						}
					}
				}
			}
		}
		if h.after[i] != nil {
			h.after[i](ok)
		}
	}
	h.txs, h.after = nil, nil
	h.pending = map[common.Address]uint64{}
}

func (h *hist) op() {
	r := h.r
	kinds := []string{"deploy_store", "deploy_store", "store_write", "store_write", "store_write", "store_write", "store_write_many", "selfdestruct", "selfdestruct", "codeless_storage", "erc20_by_msg", "erc20_by_msg",
		"approve", "approve", "approve", "staking_by_msg", "vauth_proof", "transfer", "revert",
		"bank_send", "bank_send", "bank_send", "bank_send", "evm_value", "evm_value", "evm_value", "store_write_edge", "deploy_mined"}
	if h.evmOnly {
		kinds = []string{"deploy_store", "store_write", "store_write", "store_write_many", "codeless_storage", "selfdestruct", "transfer", "bank_send", "bank_send", "evm_value", "store_write_edge"}
	}
	k := kinds[r.Intn(len(kinds))]
	if len(h.ops) == 0 && r.Chance(80) {
		k = "deploy_store"
	}
	a := h.wallet()
	switch k {
	case "deploy_store":
		n := h.nonce(a)
		addr := a.ComputeContractAddress(n)
		h.eth(a, nil, 400000, storeInit(pairs(r, r.Intn(3)), r.Intn(3)), func(ok bool) {
			if ok {
				h.stores = append(h.stores, addr)
			}
		})
	case "store_write":
		if len(h.stores) == 0 {
			return
		}
		to := h.stores[r.Intn(len(h.stores))]
		ps := pairs(r, 1+r.Intn(3))
		h.eth(a, &to, 60000+uint64(len(ps))*30000, pairData(ps), nil)
	case "store_write_many":
		if len(h.stores) == 0 {
			return
		}
		to := h.stores[r.Intn(len(h.stores))]
		ps := manyPairs(r, 12+r.Intn(20))
		h.eth(a, &to, 100000+uint64(len(ps))*30000, pairData(ps), nil)
	case "selfdestruct":
		if len(h.stores) == 0 || !r.Chance(50) {
			return
		}
		i := r.Intn(len(h.stores))
		to := h.stores[i]
		h.stores = append(h.stores[:i:i], h.stores[i+1:]...)
		h.dead = append(h.dead, to)
		h.eth(a, &to, 60000, []byte{1}, nil)
	case "codeless_storage":
		cl := a.ComputeContractAddress(h.nonce(a))
		h.eth(a, nil, 200000, codelessInit(pairs(r, 1+r.Intn(2))), func(ok bool) {
			if ok {
				h.codeless = append(h.codeless, cl)
			}
		})
	case "bank_send":
		h.opBankSend(a)
	case "evm_value":
		h.opEvmValue(a)
	case "store_write_edge":
		if len(h.stores) == 0 {
			return
		}
		to := h.stores[r.Intn(len(h.stores))]
		n := 2 + r.Intn(5)
		h.eth(a, &to, 100000+uint64(n)*30000, edgeData(r, n), nil)
	case "deploy_mined":
		// a contract at an address with a boundary byte: fund a mined key, deploy from it
		acct, cls := h.minedDeployer()
		h.flush()
		fee := new(big.Int).Mul(h.price(), big.NewInt(4*500000))
		h.cosmos(a, nil, banktypes.NewMsgSend(a.GetCosmosAddress(), acct.GetCosmosAddress(), sdk.NewCoins(sdk.NewCoin(h.c.Denom(), sdkIntFromBig(fee)))))
		h.flush()
		if h.c.App.AccountKeeper.GetAccount(h.c.QueryCtx(), acct.GetCosmosAddress()) == nil {
			return
		}
		addr := acct.ComputeContractAddress(0)
		h.eth(acct, nil, 400000, storeInit(pairs(r, 1+r.Intn(3)), r.Intn(3)), func(ok bool) {
			if ok {
				h.stores = append(h.stores, addr)
				h.side.Count("state:contract at boundary address " + cls)
			}
		})
		h.flush()
	case "erc20_by_msg":
		denoms := []string{"utwo", "uthree"}
		d := denoms[r.Intn(2)]
		w1 := h.c.S.WalletAccounts.Number(1)
		before := h.c.App.CPCKeeper.GetErc20CustomPrecompiledContractAddressByMinDenom(h.c.QueryCtx(), d)
		if before != nil {
			return
		}
		h.flush() // the new address is read back from the state
		h.cosmos(w1, nil, &cpctypes.MsgDeployErc20ContractRequest{Authority: w1.GetCosmosAddress().String(), Name: strings.ToUpper(d[1:]), Symbol: strings.ToUpper(d[1:]), Decimals: uint32(6 + r.Intn(3)), MinDenom: d})
		h.flush()
		if ad := h.c.App.CPCKeeper.GetErc20CustomPrecompiledContractAddressByMinDenom(h.c.QueryCtx(), d); ad != nil {
			h.erc20s = append(h.erc20s, *ad)
			h.erc20Msg[*ad] = true
		}
	case "approve":
		if len(h.erc20s) == 0 {
			return
		}
		to := h.erc20s[r.Intn(len(h.erc20s))]
		sp := h.wallet().GetEthAddress()
		amt := big.NewInt(int64(r.Intn(4)) * 100) // zero clears the allowance
		if r.Chance(10) {
			amt = Bsub(Pow2(256), 1)
		}
		data := append(common.FromHex("0x095ea7b3"), common.LeftPadBytes(sp.Bytes(), 32)...)
		data = append(data, common.LeftPadBytes(amt.Bytes(), 32)...)
		h.eth(a, &to, 150000, data, nil)
	case "staking_by_msg":
		if h.stakingBy != "" {
			return
		}
		w1 := h.c.S.WalletAccounts.Number(1)
		sym, dec := "Staking-EVER", uint32(18)
		if r.Chance(70) {
			sym, dec = "sEVER", uint32(6+r.Intn(13))
		}
		h.stakingBy = "msg"
		h.cosmos(w1, func(ok bool) {
			if !ok {
				h.stakingBy = ""
			}
		}, &cpctypes.MsgDeployStakingContractRequest{Authority: w1.GetCosmosAddress().String(), Symbol: sym, Decimals: dec})
		h.flush()
	case "vauth_proof":
		acct := h.wallet()
		if acct == a {
			return
		}
		if h.c.App.VAuthKeeper.HasProofExternalOwnedAccount(h.c.QueryCtx(), acct.GetCosmosAddress()) {
			return
		}
		ek, err := acct.PrivateKey.ToECDSA()
		require.NoError(h.t, err)
		sig, err := crypto.Sign(crypto.Keccak256([]byte(vauthtypes.MessageToSign)), ek)
		require.NoError(h.t, err)
		h.cosmos(a, nil, &vauthtypes.MsgSubmitProofExternalOwnedAccount{Submitter: a.GetCosmosAddress().String(), Account: acct.GetCosmosAddress().String(), Signature: "0x" + hex.EncodeToString(sig)})
		h.flush()
	case "transfer":
		to := h.wallet().GetEthAddress()
		raw, _, err := h.c.EthTxBytes(a, &ethtypes.LegacyTx{Nonce: h.nonce(a), GasPrice: h.price(), Gas: 21000, To: &to, Value: big.NewInt(7)})
		require.NoError(h.t, err)
		h.pending[a.GetEthAddress()]++
		h.txs = append(h.txs, raw)
		h.after = append(h.after, nil)
	case "revert":
		if len(h.stores) == 0 {
			return
		}
		to := h.stores[r.Intn(len(h.stores))]
		h.eth(a, &to, 60000, []byte{1, 2}, nil)
	}
	h.ops = append(h.ops, k)
	h.side.Count("op:" + k)
	if !h.evmOnly && (r.Chance(40) || k == "deploy_store") {
		h.flush()
	}
}

type gdriver struct {
	t     *testing.T
	side  *Sidecar
	cases *CasesFile
	seed  uint64
	kc    string // Coq term of the cpc constants (from the reference import with both flags)
	haveK bool
	kNative, kStaking, kBech32 metaV
	bond                       string
	perSig                     map[string]int
}

func TestDriverGenesis(t *testing.T) {
	dir := OutDir(t)
	seed := EnvSeed()
	n := EnvInt("VERIF_N", 60)
	rng := NewRng(seed)
	side := NewSidecar("genesis", seed,
		"case = (cpc genesis flags, initial height of A, generated history of 0-14 operations on chain A, params of the three modules set through MsgUpdateParams with boundary-heavy fee-market values, export right after InitChain / right after the deploying block / 1-4 blocks later) -> export -> fresh app B by InitChain (own initial height, consensus params, chain id) -> stores and every params field compared -> second export; "+
			"histories and genesis documents also vary the ACCOUNT ENVIRONMENT of the custom modules' addresses (bank sends of every denomination and EVM value transfers to precompile / module / predicted-contract / contract addresses; accounts of every type and the cpc module account's sequence written into chain A's genesis); "+
			"GImport cases = import of a document with each flag combination, of fee-market documents (fractional min gas price, base fee below / on / above the floor, negative values) and of 11 account environments x 4 flag combinations; "+
			"non-trivial = the state holds at least one contract with storage, or a precompile / allowance / proof / code-less storage, or params differing from the defaults, i.e. something that can be lost; distinct by configuration and operation sequence")
	cases := NewCases(dir, "From Evm Require Import Genesis CorrGenesis.", "genesis_mismatches")
	d := &gdriver{t: t, side: side, cases: cases, seed: seed}
	// whatever happens (a require failing mid-way included), what was observed so far is written out
	defer func() {
		cases.Write(t, 10)
		side.Write(t, dir)
	}()
	d.reference()
	for i := 0; i < n; i++ {
		d.roundCase(i, rng.Fork(uint64(i)))
	}
}

// hit: hx.Sidecar keeps the first 200 oracle hits only; the known findings alone produce more than that per run, so
// at most 8 hits per signature are recorded in full (the histogram still counts every one) - a hit of a NEW signature
// is never crowded out.
func (d *gdriver) hit(sig, msg string, where interface{}) {
	if d.perSig == nil {
		d.perSig = map[string]int{}
	}
	d.perSig[sig]++
	if d.perSig[sig] <= 8 {
		d.side.Hit(sig, msg, where)
	} else {
		d.side.Count("oracle_hit:" + sig)
	}
}

func govAuthority() string { return authtypes.NewModuleAddress(govtypes.ModuleName).String() }

// ------------------------------------------------------------------ parameter plans (what governance sets)

type fmPlan struct {
	mgp     sdkmath.LegacyDec
	baseFee sdkmath.Int
	mgpCls  string
	bfCls   string
}

func dec(s string) sdkmath.LegacyDec { return sdkmath.LegacyMustNewDecFromStr(s) }

// genFm: boundary-heavy fee-market params. affordable: values under which the wallets can still pay for transactions.
func genFm(r *Rng, affordable bool) fmPlan {
	type mv struct {
		cls string
		v   sdkmath.LegacyDec
		big bool
	}
	mgps := []mv{
		{"zero", dec("0"), false},
		{"integral", dec("7"), false},
		{"integral", dec("1000000000"), false},
		{"fractional<1", dec("0.5"), false},
		{"fractional<1", dec("0.000000000000000001"), false},
		{"fractional", dec("1000000000.5"), false},
		{"fractional", dec("1000000000.5"), false},
		{"fractional", dec("1000000000.000000000000000001"), false},
		{"fractional", dec("999999999.999999999999999999"), false},
		{"fractional", dec("7.25"), false},
		{"fractional", dec("1.999999999999999999"), false},
		{"huge-fractional", dec("1000000000000000000000000000000.5"), true},
		{"huge-integral", dec("123456789012345678901234567890"), true},
	}
	var m mv
	for {
		m = mgps[r.Intn(len(mgps))]
		if !(affordable && m.big) {
			break
		}
	}
	floor := m.v.TruncateInt()
	bfs := []string{"on-floor", "on-floor", "floor+1", "floor+1", "just-above", "far-above", "zero", "below-floor", "huge"}
	var cls string
	for {
		cls = bfs[r.Intn(len(bfs))]
		if !(affordable && cls == "huge") {
			break
		}
	}
	var bf sdkmath.Int
	switch cls {
	case "on-floor":
		bf = floor
	case "floor+1":
		bf = floor.AddRaw(1)
	case "just-above":
		bf = floor.AddRaw(int64(2 + r.Intn(8)))
	case "far-above":
		bf = floor.MulRaw(2).AddRaw(1000000000 + int64(r.Intn(1000)))
	case "zero":
		bf = sdkmath.ZeroInt()
	case "below-floor":
		bf = floor.QuoRaw(2)
	case "huge":
		bf = sdkmath.NewIntFromBigInt(new(big.Int).Add(Pow2(200), big.NewInt(int64(r.Intn(1000)))))
	}
	return fmPlan{mgp: m.v, baseFee: bf, mgpCls: m.cls, bfCls: cls}
}

type evmPlan struct {
	create, call bool
	eips         []int64
	denom        string
}

func genEvm(r *Rng, txCompatible bool) evmPlan {
	eips := [][]int64{nil, {}, {3855}, {3855, 2200}, {2200, 3855}, {1344, 1344}, {1344, 1884, 2200, 2929, 3198, 3529, 3855}, {3198}}
	p := evmPlan{create: true, call: true, eips: eips[r.Intn(len(eips))], denom: evmtypes.DefaultEVMDenom}
	if !txCompatible {
		p.create, p.call = r.Bool(), r.Bool()
		if r.Chance(25) {
			p.denom = "uother"
		}
	}
	return p
}

func (d *gdriver) applyFm(a *Chain, p fmPlan, when string) {
	ctx := a.Ctx()
	_, err := a.App.FeeMarketKeeper.UpdateParams(ctx, &feemarkettypes.MsgUpdateParams{Authority: govAuthority(), Params: feemarkettypes.Params{BaseFee: p.baseFee, MinGasPrice: p.mgp}})
	require.NoError(d.t, err)
	d.side.Count("config:" + when + ":feemarket min_gas_price=" + p.mgpCls + " base_fee=" + p.bfCls)
}

func (d *gdriver) applyEvm(a *Chain, p evmPlan, when string) {
	ctx := a.Ctx()
	cur := a.App.EvmKeeper.GetParams(ctx)
	cur.EnableCreate, cur.EnableCall, cur.ExtraEIPs, cur.EvmDenom = p.create, p.call, p.eips, p.denom
	_, err := a.App.EvmKeeper.UpdateParams(ctx, &evmtypes.MsgUpdateParams{Authority: govAuthority(), Params: cur})
	require.NoError(d.t, err)
	d.side.Count(fmt.Sprintf("config:%s:evm create=%v call=%v eips=%d denom_default=%v", when, p.create, p.call, len(p.eips), p.denom == evmtypes.DefaultEVMDenom))
}

func (d *gdriver) applyCpc(a *Chain, r *Rng, when string) {
	ctx := a.Ctx()
	w := func(i int) string { return a.S.WalletAccounts.Number(i).GetCosmosAddress().String() }
	lists := [][]string{{}, {w(1)}, {w(1), w(2)}, {w(2), w(1)}, {w(3), w(1), w(2)}, {w(4)}}
	l := lists[r.Intn(len(lists))]
	cur := a.App.CPCKeeper.GetParams(ctx)
	cur.WhitelistedDeployers = l
	_, err := cpckeeper.NewMsgServerImpl(a.App.CPCKeeper).UpdateParams(ctx, &cpctypes.MsgUpdateParams{Authority: govAuthority(), NewParams: cur})
	require.NoError(d.t, err)
	d.side.Count(fmt.Sprintf("config:%s:cpc whitelist=%d", when, len(l)))
}

// patchGenesis sets the two cpc flags and the whitelisted deployer in an exported app state.
func patchGenesis(t *testing.T, c *Chain, appState []byte, erc20, staking bool) []byte {
	var gs map[string]jsonRaw
	require.NoError(t, jsonUnmarshal(appState, &gs))
	var cg cpctypes.GenesisState
	require.NoError(t, c.S.EncodingConfig.Codec.UnmarshalJSON(gs["cpc"], &cg))
	cg.DeployErc20Native = erc20
	cg.DeployStakingContract = staking
	cg.Params.WhitelistedDeployers = []string{c.S.WalletAccounts.Number(1).GetCosmosAddress().String()}
	gs["cpc"] = c.S.EncodingConfig.Codec.MustMarshalJSON(&cg)
	out, err := jsonMarshal(gs)
	require.NoError(t, err)
	return out
}

// patchFm writes fee-market params into a genesis document as text (so that values the Go types would refuse to
// build, e.g. negative ones, can be written too).
func patchFm(t *testing.T, appState []byte, baseFee, mgp string) []byte {
	var gs map[string]jsonRaw
	require.NoError(t, jsonUnmarshal(appState, &gs))
	gs["feemarket"] = jsonRaw(fmt.Sprintf(`{"params":{"base_fee":%q,"min_gas_price":%q}}`, baseFee, mgp))
	out, err := jsonMarshal(gs)
	require.NoError(t, err)
	return out
}

func patchEvmParams(t *testing.T, c *Chain, appState []byte, p evmPlan) []byte {
	var gs map[string]jsonRaw
	require.NoError(t, jsonUnmarshal(appState, &gs))
	var eg evmGenesis
	require.NoError(t, c.S.EncodingConfig.Codec.UnmarshalJSON(gs["evm"], &eg))
	eg.Params.EnableCreate, eg.Params.EnableCall, eg.Params.ExtraEIPs, eg.Params.EvmDenom = p.create, p.call, p.eips, p.denom
	gs["evm"] = c.S.EncodingConfig.Codec.MustMarshalJSON(&eg)
	out, err := jsonMarshal(gs)
	require.NoError(t, err)
	return out
}

// base builds the suite chain A0 and its export (the genesis document all stage-A chains start from).
func (d *gdriver) base() (*Chain, []byte, *tmproto.ConsensusParams, int64) {
	c0 := NewChain(d.t, time.Time{})
	c0.RunBlock(nil)
	exp, err := c0.App.ExportAppStateAndValidators(false, nil, nil)
	require.NoError(d.t, err)
	cp := exp.ConsensusParams
	return c0, exp.AppState, &cp, exp.Height
}

func findMeta(s *cState, addr *big.Int) *metaV {
	for i := range s.Metas {
		if s.Metas[i].Addr.Cmp(addr) == 0 {
			return &s.Metas[i]
		}
	}
	return nil
}

func (d *gdriver) consts() string {
	return fmt.Sprintf("(CC %s %s (Meta %s %s) (Meta %s %s) (Meta %s %s) %s %s)", CqZ(bz(cpctypes.CpcStakingFixedAddress.Bytes())), CqZ(bz(cpctypes.CpcBech32FixedAddress.Bytes())),
		CqZu(d.kNative.Type), CqZu(d.kNative.Digest), CqZu(d.kStaking.Type), CqZu(d.kStaking.Digest), CqZu(d.kBech32.Type), CqZu(d.kBech32.Digest), CqZu(id64([]byte(d.bond))),
		CqZ(bz(cpctypes.CpcModuleAddress.Bytes())))
}

// importCase: InitChain of a fresh application on one document -> a GImport case for the model + the oracles of an
// import on its own.  expect: "ok" (a valid document: a failure is an oracle hit), "refused" (a document the code is
// known to refuse: nothing to report either way, the model must predict the outcome).
func (d *gdriver) importCase(c0 *Chain, doc []byte, cp *tmproto.ConsensusParams, height int64, canonical, expect string, where map[string]interface{}, extra []common.Address) *cState {
	t := d.t
	g := projectGen(t, c0, doc)
	env := envFromDoc(t, c0, doc, g, d.bond, extra)
	app, failure := newAppFrom(c0, doc, cp, height, c0.Time)
	imp := "None"
	var s *cState
	if failure != nil {
		if expect == "ok" {
			d.hit(sigImportFails, fmt.Sprintf("InitChain failed on a valid genesis document (%s): %v", canonical, failure), where)
		}
	} else {
		ictx := app.NewUncachedContext(false, tmproto.Header{Height: height})
		s = readState(t, app, ictx)
		imp = "(Some " + s.coq() + ")"
		// oracle: the flags decide which precompiles exist after InitChain, bech32 always does; the native ERC-20 sits at the
		// CREATE address of the cpc module account at the sequence the document gives it
		fl := [2]bool{g.Erc20Native, g.Staking}
		nat := app.CPCKeeper.GetErc20CustomPrecompiledContractAddressByMinDenom(ictx, d.bond)
		if (nat != nil) != fl[0] || (nat != nil && !app.CPCKeeper.HasCustomPrecompiledContract(ictx, *nat)) {
			d.hit(sigFlag+"/deploy_erc20_native", fmt.Sprintf("flags %v: native ERC-20 precompile present = %v", fl, nat != nil), where)
		}
		if nat != nil && bz(nat.Bytes()).Cmp(env.nextDyn) != 0 {
			d.hit(sigFlag+"/deploy_erc20_native-address", fmt.Sprintf("native ERC-20 precompile deployed at %s, the cpc module account's sequence gives %s", nat, common.BigToAddress(env.nextDyn)), where)
		}
		if app.CPCKeeper.HasCustomPrecompiledContract(ictx, cpctypes.CpcStakingFixedAddress) != fl[1] {
			d.hit(sigFlag+"/deploy_staking_contract", fmt.Sprintf("flags %v: staking precompile present = %v", fl, !fl[1]), where)
		}
		if !app.CPCKeeper.HasCustomPrecompiledContract(ictx, cpctypes.CpcBech32FixedAddress) {
			d.hit(sigFlag+"/bech32", fmt.Sprintf("flags %v: bech32 precompile missing", fl), where)
		}
		d.docVsState(g, s, where)
		// the custom modules' InitGenesis leaves the accounts and balances of the document as they are (the cpc module
		// account's sequence advances when the native ERC-20 is deployed)
		var addrs []common.Address
		for _, ak := range env.accts {
			addrs = append(addrs, common.BigToAddress(ak.Addr))
		}
		for a, dv := range docViews(t, c0, doc, addrs) {
			bv := viewAccount(app, ictx, a)
			if dv.auth != bv.auth && !(a == cpctypes.CpcModuleAddress && fl[0]) {
				d.hit(sigEnvAuth, fmt.Sprintf("account at %s: the document says %s, after InitChain %s", a, dv.auth, bv.auth), where)
			}
			if dv.bank != bv.bank {
				d.hit(sigEnvBank, fmt.Sprintf("balances at %s: the document says %s, after InitChain %s", a, dv.bank, bv.bank), where)
			}
		}
		if !d.haveK && fl[0] && fl[1] {
			var natZ *big.Int
			for _, e := range s.Denoms {
				if e.K.Uint64() == id64([]byte(d.bond)) {
					natZ = e.V
				}
			}
			require.NotNil(t, natZ, "no native ERC-20 precompile after import with DeployErc20Native")
			d.kNative = *findMeta(s, natZ)
			d.kStaking = *findMeta(s, bz(cpctypes.CpcStakingFixedAddress.Bytes()))
			d.kBech32 = *findMeta(s, bz(cpctypes.CpcBech32FixedAddress.Bytes()))
			d.haveK = true
		}
	}
	require.True(t, d.haveK, "reference import (both flags) failed: %v", failure)
	idx := d.cases.Len()
	d.cases.Add(fmt.Sprintf("GImport %s %s %s %s", d.consts(), env.coq(), g.coq(), imp))
	d.side.Case(idx, "GImport/"+canonical, true, where)
	return s
}

// reference: what InitGenesis deploys for each flag (the constants of x/cpc/genesis.go), read off a real import with
// both flags set; one GImport case per flag combination; GImport cases over fee-market documents; GImport cases over
// the account environment the document gives the custom modules' addresses.
func (d *gdriver) reference() {
	t := d.t
	c0, state0, cp, height := d.base()
	bond, err := c0.App.StakingKeeper.BondDenom(c0.QueryCtx())
	require.NoError(t, err)
	d.bond = bond
	allFlags := [][2]bool{{true, true}, {true, false}, {false, true}, {false, false}}
	for _, fl := range allFlags {
		doc := patchGenesis(t, c0, state0, fl[0], fl[1])
		d.importCase(c0, doc, cp, height, fmt.Sprintf("%v/%v", fl[0], fl[1]), "ok", map[string]interface{}{"kind": "GImport", "deploy_erc20_native": fl[0], "deploy_staking_contract": fl[1]}, nil)
		d.side.Count(fmt.Sprintf("case:GImport flags=%v/%v", fl[0], fl[1]))
	}
	// fee-market documents: whatever a (valid) genesis file says is what the chain starts with; a negative value is refused
	for _, fd := range [][3]string{
		{"0", "0.500000000000000000", "ok"}, {"1000000000", "1000000000.500000000000000000", "ok"}, {"1000000001", "1000000000.500000000000000000", "ok"},
		{"5", "1000000000.500000000000000000", "ok"}, {"0", "0.000000000000000000", "ok"}, {"7", "7.000000000000000000", "ok"},
		{"999999999", "999999999.999999999999999999", "ok"}, {"1606938044258990275541962092341162602522202993782792835301376", "0.000000000000000001", "ok"},
		{"-1", "0.000000000000000000", "refused"}, {"0", "-0.500000000000000000", "refused"},
	} {
		doc := patchFm(t, patchGenesis(t, c0, state0, false, true), fd[0], fd[1])
		where := map[string]interface{}{"kind": "GImport", "feemarket_base_fee": fd[0], "feemarket_min_gas_price": fd[1]}
		s := d.importCase(c0, doc, cp, height, fmt.Sprintf("fm/%s/%s", fd[0], fd[1]), fd[2], where, nil)
		if s != nil && fd[2] == "refused" {
			d.hit(sigFmInvalid, fmt.Sprintf("InitChain accepted fee-market params base_fee=%s min_gas_price=%s", fd[0], fd[1]), where)
		}
		d.side.Count("case:GImport feemarket document " + fd[2])
	}
	// the account environment: accounts of every type at the addresses the precompiles are deployed to, the cpc module
	// account's sequence (the native ERC-20 goes to its CREATE address) and balance, a non-module account at the cpc
	// module address (refused only when the native ERC-20 is to be deployed), x/evm genesis accounts whose address holds a
	// base account / a vesting account / no account
	u64 := func(v uint64) *uint64 { return &v }
	coin := func(d string, n int64) sdk.Coins { return sdk.NewCoins(sdk.NewCoin(d, sdkmath.NewInt(n))) }
	evmAcct := func(a common.Address) []evmtypes.GenesisAccount {
		return []evmtypes.GenesisAccount{{Address: a.Hex(), Code: common.Bytes2Hex(storeRuntime), Storage: evmtypes.Storage{
			evmtypes.NewState(common.BigToHash(big.NewInt(0)), common.BigToHash(big.NewInt(0))), evmtypes.NewState(common.BigToHash(Bsub(Pow2(256), 1)), common.BigToHash(big.NewInt(9)))}}}
	}
	caddr := common.HexToAddress("0x11111111111111111111111111111111111111ff")
	type envCase struct {
		name   string
		patch  *envPatch
		evm    []evmtypes.GenesisAccount
		expect func(fl [2]bool) string
	}
	ok := func([2]bool) string { return "ok" }
	refused := func([2]bool) string { return "refused" }
	everywhere := func(kind string, seq uint64, coins sdk.Coins) []acctSpec {
		return []acctSpec{{cpctypes.CpcBech32FixedAddress, kind, coins, "bech32-precompile"}, {cpctypes.CpcStakingFixedAddress, kind, coins, "staking-precompile"},
			{nextDynAt(seq), kind, coins, "next-dynamic-precompile"}}
	}
	ecs := []envCase{
		{"base-accounts-at-precompile-addresses/seq=7", &envPatch{cpcSeq: u64(7), specs: everywhere("base", 7, coin(c0.Denom(), 1000))}, nil, ok},
		{"empty-base-accounts-at-precompile-addresses/seq=0", &envPatch{cpcSeq: u64(0), specs: everywhere("base", 0, sdk.NewCoins())}, nil, ok},
		{"huge-seq-accounts-at-precompile-addresses/seq=2^64-1", &envPatch{cpcSeq: u64(^uint64(0)), cpcBal: coin("utwo", 5), specs: everywhere("base-huge-seq", ^uint64(0), coin("utwo", 3))}, nil, ok},
		{"vesting-accounts-at-precompile-addresses/seq=2^63", &envPatch{cpcSeq: u64(1 << 63), specs: []acctSpec{
			{cpctypes.CpcBech32FixedAddress, "continuous-vesting", coin(c0.Denom(), 50), "bech32-precompile"}, {cpctypes.CpcStakingFixedAddress, "permanent-locked", coin(c0.Denom(), 50), "staking-precompile"},
			{nextDynAt(1 << 63), "delayed-vesting", coin("uthree", 2), "next-dynamic-precompile"}, {nextDynAt(1<<63 + 1), "periodic-vesting", coin(c0.Denom(), 1), "next-dynamic-precompile+1"}}}, nil, ok},
		{"cpc-module-account-with-balance/seq=1", &envPatch{cpcSeq: u64(1), cpcBal: coin(c0.Denom(), 12345)}, nil, ok},
		{"base-account-at-cpc-module-address", &envPatch{cpcAs: "base", cpcSeq: u64(3), cpcBal: coin(c0.Denom(), 1)}, nil, func(fl [2]bool) string {
			if fl[0] {
				return "refused" // GetModuleAccount: "account is not a module account"
			}
			return "ok"
		}},
		{"evm-account-over-base-account", &envPatch{specs: []acctSpec{{caddr, "base", coin("utwo", 4), "contract"}}}, evmAcct(caddr), ok},
		{"evm-account-over-huge-seq-account", &envPatch{specs: []acctSpec{{caddr, "base-huge-seq", sdk.NewCoins(), "contract"}}}, evmAcct(caddr), ok},
		{"evm-account-over-vesting-account", &envPatch{specs: []acctSpec{{caddr, "continuous-vested", coin(c0.Denom(), 4), "contract"}}}, evmAcct(caddr), refused},
		{"evm-account-without-auth-account", nil, evmAcct(caddr), refused},
		{"evm-account-at-bech32-precompile-address", &envPatch{specs: []acctSpec{{cpctypes.CpcBech32FixedAddress, "base", coin(c0.Denom(), 4), "bech32-precompile"}}}, evmAcct(cpctypes.CpcBech32FixedAddress), ok},
	}
	if os.Getenv("VERIF_C18_NO_ENVDOC") != "" { // diagnostic: the environment varied by histories only
		ecs = nil
	}
	for _, ec := range ecs {
		for _, fl := range allFlags {
			doc := patchAccounts(t, c0, patchGenesis(t, c0, state0, fl[0], fl[1]), ec.patch)
			if ec.evm != nil {
				doc = patchEvmAccounts(t, c0, doc, ec.evm)
			}
			var extra []common.Address
			if ec.patch != nil {
				for _, sp := range ec.patch.specs {
					extra = append(extra, sp.Addr)
				}
			}
			where := map[string]interface{}{"kind": "GImport", "environment": ec.name, "accounts": ec.patch.String(), "deploy_erc20_native": fl[0], "deploy_staking_contract": fl[1]}
			d.importCase(c0, doc, cp, height, fmt.Sprintf("env/%s/%v/%v", ec.name, fl[0], fl[1]), ec.expect(fl), where, extra)
			d.side.Count("case:GImport environment " + ec.name + " -> " + ec.expect(fl))
		}
	}
}

// docVsState: oracle for an import on its own - every params field of the document is what the fresh chain holds.
func (d *gdriver) docVsState(g *genV, s *cState, where interface{}) {
	for _, m := range []string{"evm", "feemarket", "cpc"} {
		if df := diffLeaves(g.leaves[m], s.leaves[m]); len(df) > 0 {
			sig := map[string]string{"evm": sigEvmParams, "feemarket": sigFmDoc, "cpc": sigCpcParams}[m]
			d.hit(sig, fmt.Sprintf("%s params after InitChain differ from the genesis document: %s", m, strings.Join(df, "; ")), where)
		}
	}
	if s.EvmBase.Cmp(s.BaseFee) != 0 {
		d.hit(sigFm, fmt.Sprintf("x/evm reads base fee %s, the fee market holds %s", s.EvmBase, s.BaseFee), where)
	}
}

type roundCfg struct {
	erc20Flag, stakingFlag bool
	aHeight                string // initial height of chain A: "1", "suite", "high"
	timing                 string // "genesis" (export right after InitChain), "first-block" (after the first block, which deploys), "same-block" (right after the deploying block), "later"
	blocksAfter            int
	early                  bool
	bHeight                string // initial height of chain B: "export", "1", "later"
	bCons                  string // consensus params of chain B: "export", "unlimited-gas", "small-blocks"
	bChain                 string // chain id of chain B: "same", "other"
	export                 string // "at-height" (ExportAppStateAndValidators(false)), "zero-height" (forZeroHeight = true: the document a chain is restarted from at height 0)
	envDoc                 string // accounts written into the auth / bank sections chain A starts from
}

func (c roundCfg) String() string {
	return fmt.Sprintf("%v/%v/A@%s/%s+%d/early=%v/%s/B@%s/%s/%s/env:%s", c.erc20Flag, c.stakingFlag, c.aHeight, c.timing, c.blocksAfter, c.early, c.export, c.bHeight, c.bCons, c.bChain, c.envDoc)
}

func pick(r *Rng, xs ...string) string { return xs[r.Intn(len(xs))] }

const otherChainID = "evermint_424242-7"

func (d *gdriver) roundCase(ci int, r *Rng) {
	t := d.t
	c0, state0, cp, height := d.base()
	cfg := roundCfg{erc20Flag: r.Bool(), stakingFlag: r.Bool(),
		aHeight: pick(r, "suite", "suite", "1", "high"), timing: pick(r, "later", "later", "later", "later", "same-block", "same-block", "same-block", "genesis", "first-block"),
		bHeight: pick(r, "export", "export", "1", "later"), bCons: pick(r, "export", "export", "unlimited-gas", "small-blocks"), bChain: pick(r, "same", "same", "same", "other")}
	cfg.blocksAfter = 1 + r.Intn(4)
	cfg.early = r.Chance(30)
	cfg.export = pick(r, "at-height", "at-height", "at-height", "at-height", "zero-height")
	doc := patchGenesis(t, c0, state0, cfg.erc20Flag, cfg.stakingFlag)
	if cfg.timing == "genesis" {
		// the state exported is the one InitChain wrote: put boundary params into the genesis document itself
		fp := genFm(r, false)
		doc = patchFm(t, doc, fp.baseFee.String(), fp.mgp.String())
		doc = patchEvmParams(t, c0, doc, genEvm(r, false))
		d.side.Count("config:genesis-document:feemarket min_gas_price=" + fp.mgpCls + " base_fee=" + fp.bfCls)
		cfg.blocksAfter, cfg.early = 0, false
	}
	// the account environment the genesis document gives the custom modules' addresses
	var ep *envPatch
	if r.Chance(50) && os.Getenv("VERIF_C18_NO_ENVDOC") == "" {
		ep = genEnvPatch(c0, r, d.side)
		doc = patchAccounts(t, c0, doc, ep)
	} else {
		d.side.Count("envdoc:none")
	}
	cfg.envDoc = ep.String()
	hA := map[string]int64{"suite": height, "1": 1, "high": 1000000007}[cfg.aHeight]
	appA, failure := newAppFrom(c0, doc, cp, hA, c0.Time)
	if failure != nil {
		// chain A itself starts from a valid genesis document (flags, params within what Validate accepts, accounts of
		// valid types at whatever address)
		d.hit(sigImportFails, fmt.Sprintf("InitChain of chain A failed on a valid genesis document: %v", failure), where0(ci, d.seed, cfg, nil))
		return
	}
	a := chainOn(t, c0, appA)
	h := &hist{t: t, c: a, r: r, side: d.side, pending: map[common.Address]uint64{}, erc20Msg: map[common.Address]bool{}}
	if cfg.erc20Flag {
		ad := appA.CPCKeeper.GetErc20CustomPrecompiledContractAddressByMinDenom(a.QueryCtx(), d.bond)
		require.NotNil(t, ad)
		h.nativeGen = ad
		h.erc20s = append(h.erc20s, *ad)
	}
	if cfg.stakingFlag {
		h.stakingBy = "genesis"
	}
	if cfg.timing == "first-block" {
		// everything happens in the first block after InitChain, the export follows it (a node exporting at its first height)
		d.applyFm(a, genFm(r, true), "late")
		if r.Chance(60) {
			d.applyEvm(a, genEvm(r, true), "late")
		}
		h.evmOnly = true
		for i, n := 0, 2+r.Intn(5); i < n || len(h.ops) == 0; i++ {
			h.op()
		}
		h.flush()
		cfg.blocksAfter, cfg.early = 0, false
	} else if cfg.timing != "genesis" {
		a.RunBlock(nil)
		if cfg.early {
			// the history itself runs under params governance has changed
			d.applyFm(a, genFm(r, true), "early")
			a.RunBlock(nil)
		}
		nops := 3 + r.Intn(12)
		if cfg.timing == "same-block" {
			nops = 2 + r.Intn(8)
		}
		for i := 0; i < nops; i++ {
			h.op()
		}
		h.flush()
		// configuration changes (what governance sets): parameters of the three modules, through the MsgUpdateParams handlers
		txOK := cfg.timing == "same-block"
		if r.Chance(90) {
			d.applyFm(a, genFm(r, txOK), "late")
		}
		if r.Chance(60) {
			d.applyEvm(a, genEvm(r, txOK), "late")
		}
		if r.Chance(50) {
			d.applyCpc(a, r, "late")
		}
		if cfg.timing == "same-block" {
			// the export follows the block that deploys / writes / destroys
			h.evmOnly = true
			h.ops = append(h.ops, "|")
			before := len(h.ops)
			for i, n := 0, 2+r.Intn(4); i < n || len(h.ops) == before; i++ {
				h.op()
			}
			h.flush()
			cfg.blocksAfter = 0
		} else {
			for i := 0; i < cfg.blocksAfter; i++ {
				a.RunBlock(nil) // EndBlock: the fee market moves the base fee and applies its floor
			}
		}
	}
	d.side.Count("timing:" + cfg.timing)
	d.side.Count("A initial height:" + cfg.aHeight)
	where := where0(ci, d.seed, cfg, h.ops)

	// ---- export A (twice), import into B, export B
	sA := readState(t, appA, a.QueryCtx())
	exp1, err := appA.ExportAppStateAndValidators(false, nil, nil)
	require.NoError(t, err)
	g1 := projectGen(t, a, exp1.AppState)
	if exp1.Height != appA.LastBlockHeight()+1 {
		d.hit(sigHeight, fmt.Sprintf("export height %d, last block %d", exp1.Height, appA.LastBlockHeight()), where)
	}
	if cfg.export == "zero-height" {
		// the zero-height export rewrites staking / distribution; the custom modules' sections are the same document
		var exp0 servertypes.ExportedApp
		var err0 error
		if p := CatchPanic(func() { exp0, err0 = appA.ExportAppStateAndValidators(true, nil, nil) }); p != nil || err0 != nil {
			d.side.Count("export:zero-height export not possible (outside the custom modules), exported at height instead")
			cfg.export = "at-height"
		} else {
			g0 := projectGen(t, a, exp0.AppState)
			for _, m := range []string{"evm", "feemarket", "cpc", "vauth"} {
				if g1.canon[m] != g0.canon[m] {
					d.hit(sigZeroHeight+"/"+m, "the zero-height export differs from the export at height in module "+m, where)
				}
			}
			if exp0.Height != 0 {
				d.hit(sigHeight, fmt.Sprintf("zero-height export says height %d", exp0.Height), where)
			}
			exp0.Height = 1 // the chain restarts at its first height
			exp1, g1 = exp0, g0
		}
	}
	d.side.Count("export:" + cfg.export)
	{ // the export reads, it does not write; exporting again gives the same document
		if sA2 := readState(t, appA, a.QueryCtx()); sA2.coq() != sA.coq() {
			d.hit(sigExportWrites, "the custom modules' stores differ after ExportAppStateAndValidators", where)
		}
		exp1b, err := appA.ExportAppStateAndValidators(cfg.export == "zero-height", nil, nil)
		require.NoError(t, err)
		g1b := projectGen(t, a, exp1b.AppState)
		for _, m := range []string{"evm", "feemarket", "cpc", "vauth"} {
			if g1.canon[m] != g1b.canon[m] {
				d.hit(sigNondet+"/"+m, "two exports of the same state differ in module "+m, where)
			}
		}
	}
	// the exported params are the params of the state, field by field
	for _, m := range []string{"evm", "feemarket", "cpc"} {
		if df := diffLeaves(sA.leaves[m], g1.leaves[m]); len(df) > 0 {
			d.hit(sigExportState+"/"+m+"-params", "exported "+m+" params differ from the state: "+strings.Join(df, "; "), where)
		}
	}
	d.fmHistogram(sA)
	interest := interestAddrs(h, sA, ep)
	var extra []common.Address
	for _, tg := range interest {
		extra = append(extra, tg.Addr)
	}
	env := envFromDoc(t, a, exp1.AppState, g1, d.bond, extra)
	for _, ak := range env.accts {
		d.side.Count("env:imported document holds " + ak.Kind + " at an address of interest")
	}
	viewsA := map[common.Address]acctView{}
	for _, tg := range interest {
		viewsA[tg.Addr] = viewAccount(appA, a.QueryCtx(), tg.Addr)
	}
	for id, code := range sA.codes {
		env.hashes[id] = code
	}
	for m, e := range g1.invalid {
		d.hit(sigInvalid+"/"+m, "the exported "+m+" genesis does not pass the module's own validation: "+e, where)
	}
	for _, u := range sA.Unknown {
		d.hit(sigUnknown, "chain A: "+u, where)
	}
	cp1 := exp1.ConsensusParams
	switch cfg.bCons {
	case "unlimited-gas":
		cp1.Block.MaxGas = -1
	case "small-blocks":
		cp1.Block.MaxGas, cp1.Block.MaxBytes = 2000000, 1<<20
	}
	hB := map[string]int64{"export": exp1.Height, "1": 1, "later": exp1.Height + 1000}[cfg.bHeight]
	chainB := a.S.ChainConstantsConfig.GetCosmosChainID()
	wantChainID := sA.ChainID
	if cfg.bChain == "other" {
		chainB, wantChainID = otherChainID, 424242
	}
	d.side.Count("B:" + cfg.bHeight + "/" + cfg.bCons + "/" + cfg.bChain)
	appB, failure := newAppWith(a, exp1.AppState, &cp1, hB, a.Time, chainB)
	imp, g2t := "None", "None"
	if failure != nil {
		d.hit(sigImportFails, fmt.Sprintf("InitChain on the exported state failed: %v", failure), where)
	} else {
		sB := readState(t, appB, appB.NewUncachedContext(false, tmproto.Header{Height: hB}))
		imp = "(Some " + sB.coq() + ")"
		d.compare(h, sA, sB, where)
		d.docVsState(g1, sB, where)
		// the accounts and balances at the custom modules' addresses are what they were
		bctx := appB.NewUncachedContext(false, tmproto.Header{Height: hB})
		for _, tg := range interest {
			va, vb := viewsA[tg.Addr], viewAccount(appB, bctx, tg.Addr)
			cls := strings.SplitN(tg.Class, "(", 2)[0]
			d.side.Count("env:compared account at " + cls)
			if va.auth != vb.auth {
				d.hit(sigEnvAuth, fmt.Sprintf("account at %s (%s): %s -> %s", tg.Addr, tg.Class, va.auth, vb.auth), where)
			}
			if va.bank != vb.bank {
				d.hit(sigEnvBank, fmt.Sprintf("balances at %s (%s): %s -> %s", tg.Addr, tg.Class, va.bank, vb.bank), where)
			}
		}
		if sB.ChainID != wantChainID {
			d.hit(sigChainID, fmt.Sprintf("x/evm of chain B holds EIP-155 chain id %d, its chain id says %d", sB.ChainID, wantChainID), where)
		}
		for _, u := range sB.Unknown {
			d.hit(sigUnknown, "chain B: "+u, where)
		}
		exp2, err := appB.ExportAppStateAndValidators(false, nil, nil)
		require.NoError(t, err)
		g2 := projectGen(t, a, exp2.AppState)
		g2t = "(Some " + g2.coq() + ")"
		for _, m := range []string{"evm", "feemarket", "cpc", "vauth"} {
			if g1.canon[m] != g2.canon[m] {
				msg := "the export of the re-imported state differs from the first export in module " + m
				if df := diffLeaves(g1.leaves[m], g2.leaves[m]); len(df) > 0 {
					msg += " (params: " + strings.Join(df, "; ") + ")"
				}
				d.hit(sigSecondExport+"/"+m, msg, where)
			}
		}
		// the account environment (x/auth, x/bank sections): B has run no block, its export lists the very same accounts
		// and balances; the remaining sections are outside the property (histogram only)
		for m := range g1.canon {
			if g1.canon[m] == g2.canon[m] || m == "evm" || m == "feemarket" || m == "cpc" || m == "vauth" {
				continue
			}
			if m == "auth" || m == "bank" {
				d.hit(sigSecondExport+"/"+m, "the export of the re-imported state differs from the first export in section "+m+" (accounts / balances)", where)
			} else {
				d.side.Count("other-sections:second export differs in section " + m)
			}
		}
	}
	nontrivial := len(sA.Storage) > 0 || len(sA.Allow) > 0 || len(sA.Proofs) > 0 || len(sA.Metas) > 1 || cfg.timing == "genesis"
	idx := d.cases.Len()
	d.cases.Add(fmt.Sprintf("GRound %s %s %s %s %s %s", d.consts(), env.coq(), sA.coq(), g1.coq(), imp, g2t))
	d.side.Count(fmt.Sprintf("case:GRound flags=%v/%v", cfg.erc20Flag, cfg.stakingFlag))
	d.side.Count(fmt.Sprintf("state:contracts=%d", min(len(sA.CodeHash), 5)))
	d.side.Count(fmt.Sprintf("state:slots=%s", bucket(len(sA.Storage))))
	d.side.Case(idx, fmt.Sprintf("GRound/%s/%s", cfg, strings.Join(h.ops, ",")), nontrivial, where)
}

func bucket(n int) string {
	switch {
	case n == 0:
		return "0"
	case n < 5:
		return "1-4"
	case n < 20:
		return "5-19"
	default:
		return "20+"
	}
}

// fmHistogram: where the exported fee-market state sits (the classes the property's "current base fee" clause is sensitive to)
func (d *gdriver) fmHistogram(s *cState) {
	prec := new(big.Int).Exp(big.NewInt(10), big.NewInt(18), nil)
	floor, rem := new(big.Int).QuoRem(s.MinGasPrice, prec, new(big.Int))
	frac := "integral"
	if rem.Sign() != 0 {
		frac = "fractional"
	}
	if s.MinGasPrice.Sign() == 0 {
		frac = "zero"
	}
	rel := "above-floor"
	switch c := s.BaseFee.Cmp(floor); {
	case c == 0:
		rel = "on-floor"
	case c < 0:
		rel = "below-floor"
	case new(big.Int).Sub(s.BaseFee, floor).Cmp(big.NewInt(8)) <= 0:
		rel = "just-above-floor"
	}
	d.side.Count("export:min_gas_price " + frac + ", base_fee " + rel)
}

func where0(ci int, seed uint64, cfg roundCfg, ops []string) map[string]interface{} {
	return map[string]interface{}{"case": ci, "seed": seed, "config": cfg.String(), "ops": ops}
}

func min(a, b int) int {
	if a < b {
		return a
	}
	return b
}

// compare: the oracle. Everything observable in the four modules' stores of A must be in B, and nothing else. The five
// known losses are reported under their own signature ONLY in the exact form they have today (the entry is absent in B,
// resp. the staking metadata equals the genesis default); any other deviation - an entry that survives changed, a
// further entry lost, an entry B has and A has not - is reported under a signature that is not known.
func (d *gdriver) compare(h *hist, a, b *cState, where map[string]interface{}) {
	hit := func(sig, msg string) { d.hit(sig, msg, where) }
	idx := func(l []zz) map[string]*big.Int {
		m := map[string]*big.Int{}
		for _, e := range l {
			m[e.K.String()] = e.V
		}
		return m
	}
	slot := Pow2(256)
	contract := map[string]bool{}
	for _, e := range a.CodeHash {
		contract[e.K.String()] = true
	}
	// ---- evm: params field by field, code hash, code and storage entry by entry, both directions
	if df := diffLeaves(a.leaves["evm"], b.leaves["evm"]); len(df) > 0 || a.EvmParams != b.EvmParams {
		hit(sigEvmParams, "evm params differ after the round trip: "+strings.Join(df, "; "))
	}
	bch, bcode, bst := idx(b.CodeHash), idx(b.Code), idx(b.Storage)
	acode := idx(a.Code)
	for _, e := range a.CodeHash {
		if v, ok := bch[e.K.String()]; !ok || v.Cmp(e.V) != 0 {
			hit(sigContract, fmt.Sprintf("code hash of contract %s differs or is missing", common.BigToAddress(e.K)))
			continue
		}
		ca, cb := acode[e.V.String()], bcode[e.V.String()]
		if ca == nil || cb == nil || ca.Cmp(cb) != 0 {
			hit(sigContract, fmt.Sprintf("code of contract %s differs or is missing", common.BigToAddress(e.K)))
		}
	}
	for _, e := range a.Storage {
		addr := new(big.Int).Div(e.K, slot)
		v, ok := bst[e.K.String()]
		if ok && v.Cmp(e.V) == 0 {
			continue
		}
		if contract[addr.String()] {
			hit(sigContract, fmt.Sprintf("storage slot of contract %s lost or changed (value %s)", common.BigToAddress(addr), e.V))
		} else {
			hit(sigCodeless, fmt.Sprintf("storage slot of code-less account %s lost or changed by export -> InitChain (value %s)", common.BigToAddress(addr), e.V))
		}
	}
	ach, ast := idx(a.CodeHash), idx(a.Storage)
	for _, e := range b.CodeHash {
		if _, ok := ach[e.K.String()]; !ok {
			hit(sigAdds+"/evm-codehash", "B has a contract A has not")
		}
	}
	for _, e := range b.Storage {
		if _, ok := ast[e.K.String()]; !ok {
			hit(sigAdds+"/evm-storage", "B has a storage slot A has not")
		}
	}
	for _, e := range b.Code {
		if v, ok := acode[e.K.String()]; !ok || v.Cmp(e.V) != 0 {
			hit(sigAdds+"/evm-code", "B has code A has not")
		}
	}
	// ---- fee market: every field, and the base fee as x/evm reads it
	if df := diffLeaves(a.leaves["feemarket"], b.leaves["feemarket"]); len(df) > 0 || a.BaseFee.Cmp(b.BaseFee) != 0 || a.MinGasPrice.Cmp(b.MinGasPrice) != 0 || a.EvmBase.Cmp(b.EvmBase) != 0 {
		hit(sigFm, fmt.Sprintf("base fee %s -> %s, min gas price (x 10^18) %s -> %s; fields: %s", a.BaseFee, b.BaseFee, a.MinGasPrice, b.MinGasPrice, strings.Join(df, "; ")))
	}
	// ---- cpc
	if df := diffLeaves(a.leaves["cpc"], b.leaves["cpc"]); len(df) > 0 || a.CpcParams != b.CpcParams {
		hit(sigCpcParams, "cpc params differ after the round trip: "+strings.Join(df, "; "))
	}
	same := func(x, y *metaV) bool {
		return x.Type == y.Type && x.Digest == y.Digest && x.raw.Name == y.raw.Name && x.raw.TypedMeta == y.raw.TypedMeta && x.raw.Disabled == y.raw.Disabled
	}
	for i := range a.Metas {
		m := &a.Metas[i]
		addr := common.BigToAddress(m.Addr)
		mb := findMeta(b, m.Addr)
		switch {
		case mb != nil && same(m, mb):
			// survives
		case mb == nil && m.Type == uint64(cpctypes.CpcTypeErc20) && h.erc20Msg[addr]:
			hit(sigErc20Msg, fmt.Sprintf("ERC-20 precompile %s (%s), deployed by message, is gone", addr, m.raw.Name))
		case mb == nil && m.Type == uint64(cpctypes.CpcTypeErc20) && h.nativeGen != nil && *h.nativeGen == addr:
			hit(sigErc20Native, fmt.Sprintf("native ERC-20 precompile %s, deployed by the genesis flag, is gone (DeployErc20Native is exported as false)", addr))
		case mb != nil && m.Type == uint64(cpctypes.CpcTypeStaking) && h.stakingBy == "msg" && addr == cpctypes.CpcStakingFixedAddress && same(mb, &d.kStaking):
			hit(sigStakingMeta, fmt.Sprintf("staking precompile metadata %q replaced by the genesis default %q", m.raw.TypedMeta, mb.raw.TypedMeta))
		case mb == nil:
			hit(sigCpcOther, fmt.Sprintf("precompile %s (type %d, %s) is lost", addr, m.Type, m.raw.Name))
		default:
			hit(sigChanged+"/cpc-meta", fmt.Sprintf("precompile %s (type %d): name %q -> %q, typed meta %q -> %q, disabled %v -> %v, type -> %d", addr, m.Type, m.raw.Name, mb.raw.Name, m.raw.TypedMeta, mb.raw.TypedMeta, m.raw.Disabled, mb.raw.Disabled, mb.Type))
		}
	}
	for _, m := range b.Metas {
		if findMeta(a, m.Addr) == nil {
			hit(sigAdds+"/cpc-meta", fmt.Sprintf("B has a precompile A has not: %s", common.BigToAddress(m.Addr)))
		}
	}
	aden, bden := idx(a.Denoms), idx(b.Denoms)
	for _, e := range a.Denoms {
		ad := common.BigToAddress(e.V)
		v, ok := bden[e.K.String()]
		switch {
		case ok && v.Cmp(e.V) == 0:
		case !ok && h.erc20Msg[ad]:
			hit(sigErc20Msg, "denom index entry of "+a.denoms[e.K.Uint64()]+" is gone")
		case !ok && h.nativeGen != nil && *h.nativeGen == ad:
			hit(sigErc20Native, "denom index entry of "+a.denoms[e.K.Uint64()]+" is gone")
		case !ok:
			hit(sigCpcOther, "denom index entry of "+a.denoms[e.K.Uint64()]+" lost")
		default:
			hit(sigChanged+"/cpc-denom", fmt.Sprintf("denom index entry of %s points to %s, was %s", a.denoms[e.K.Uint64()], common.BigToAddress(v), ad))
		}
	}
	for _, e := range b.Denoms {
		if _, ok := aden[e.K.String()]; !ok {
			hit(sigAdds+"/cpc-denom", "B has a denom index entry A has not: "+b.denoms[e.K.Uint64()])
		}
	}
	aall, ball := idx(a.Allow), idx(b.Allow)
	for _, e := range a.Allow {
		v, ok := ball[e.K.String()]
		switch {
		case ok && v.Cmp(e.V) == 0:
		case !ok:
			hit(sigAllow, fmt.Sprintf("allowance of %s is not exported", e.V))
		default:
			hit(sigChanged+"/cpc-allowance", fmt.Sprintf("allowance %s -> %s", e.V, v))
		}
	}
	for _, e := range b.Allow {
		if _, ok := aall[e.K.String()]; !ok {
			hit(sigAdds+"/cpc-allowance", "B has an allowance A has not")
		}
	}
	// ---- vauth
	apr, bpr := idx(a.Proofs), idx(b.Proofs)
	for _, e := range a.Proofs {
		v, ok := bpr[e.K.String()]
		switch {
		case ok && v.Cmp(e.V) == 0:
		case !ok:
			hit(sigProofs, fmt.Sprintf("ownership proof of %s is not exported", common.BigToAddress(e.K)))
		default:
			hit(sigChanged+"/vauth-proof", fmt.Sprintf("ownership proof of %s changed", common.BigToAddress(e.K)))
		}
	}
	for _, e := range b.Proofs {
		if _, ok := apr[e.K.String()]; !ok {
			hit(sigAdds+"/vauth-proof", "B has a proof A has not")
		}
	}
}

var _ = chainapp.DefaultNodeHome
var _ = sort.Strings
