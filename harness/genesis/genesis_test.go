package genesis

// Driver `genesis` (C18).  For every case: a chain A is initialised from a genesis document with a chosen
// combination of the two cpc flags, a generated history is executed on it (contract deployments, storage writes
// incl. zero-valued and cleared slots, self-destructs, code-less accounts with storage, ERC-20 precompiles
// deployed by message, approvals, staking precompile deployed by message, vauth proofs, parameter changes,
// base fee drift), then:  real ExportAppStateAndValidators(A)  ->  fresh NewEvermint + real InitChain = B  ->
// the custom modules' stores of A and B compared entry by entry (oracle)  ->  real export of B compared with
// the first export (oracle).  The model gets the raw store content of A and must predict the exported document,
// B's store content and B's export.

import (
	"encoding/hex"
	"fmt"
	"math/big"
	"os"
	"sort"
	"strings"
	"testing"
	"time"

	sdkmath "cosmossdk.io/math"
	tmproto "github.com/cometbft/cometbft/proto/tendermint/types"
	sdk "github.com/cosmos/cosmos-sdk/types"
	"github.com/ethereum/go-ethereum/common"
	ethtypes "github.com/ethereum/go-ethereum/core/types"
	"github.com/ethereum/go-ethereum/crypto"
	"github.com/stretchr/testify/require"

	chainapp "github.com/EscanBE/evermint/v12/app"
	itutiltypes "github.com/EscanBE/evermint/v12/integration_test_util/types"
	cpctypes "github.com/EscanBE/evermint/v12/x/cpc/types"
	evmtypes "github.com/EscanBE/evermint/v12/x/evm/types"
	feemarkettypes "github.com/EscanBE/evermint/v12/x/feemarket/types"
	vauthtypes "github.com/EscanBE/evermint/v12/x/vauth/types"

	. "verifharness/hx"
)

type evmGenesis = evmtypes.GenesisState
type fmGenesis = feemarkettypes.GenesisState

func sdkIntFromBig(b *big.Int) sdkmath.Int { return sdkmath.NewIntFromBigInt(b) }

const (
	sigErc20Msg     = "C18/genesis/cpc-erc20-deployed-by-msg-lost"
	sigErc20Native  = "C18/genesis/cpc-erc20-native-deployed-by-genesis-flag-lost"
	sigAllow        = "C18/genesis/cpc-allowances-lost"
	sigStakingMeta  = "C18/genesis/cpc-staking-deployed-by-msg-metadata-reset"
	sigProofs       = "C18/genesis/vauth-proofs-lost"
	sigCodeless     = "C18/genesis/evm-storage-of-codeless-account-lost"
	sigContract     = "C18/genesis/evm-contract-code-or-storage-lost"
	sigEvmParams    = "C18/genesis/evm-params-changed"
	sigFm           = "C18/genesis/feemarket-params-or-base-fee-changed"
	sigCpcParams    = "C18/genesis/cpc-params-changed"
	sigCpcOther     = "C18/genesis/cpc-precompile-lost-or-changed"
	sigAdds         = "C18/genesis/import-adds-state"
	sigImportFails  = "C18/genesis/import-fails"
	sigSecondExport = "C18/genesis/second-export-differs"
	sigFlag         = "C18/genesis/genesis-flag-not-honoured"
	sigInvalid      = "C18/genesis/export-fails-validate-genesis"
)

// same Store contract as the indexer driver: calldata of (key,value) pairs -> SSTORE + LOG1; 1 byte -> SELFDESTRUCT; 2 bytes -> REVERT
var storeRuntime = common.FromHex("0x366001146034573660021460375760005b8036111560325780602001358135808290559060005260206000a16040016010565b005b33ff5b60006000fd")

func storeInit(pairs [][2]int64, variant int) []byte {
	// constructor: SSTORE the given pairs, then return the runtime code (variant: trailing STOP bytes, so that
	// contracts with different code and contracts sharing one code hash both occur)
	var pre []byte
	for _, p := range pairs {
		pre = append(pre, 0x60, byte(p[1]), 0x60, byte(p[0]), 0x55) // PUSH1 v PUSH1 k SSTORE
	}
	rt := append(append([]byte{}, storeRuntime...), make([]byte, variant)...)
	off := len(pre) + 11
	init := append(pre, 0x60, byte(len(rt)), 0x80, 0x60, byte(off), 0x60, 0x00, 0x39, 0x60, 0x00, 0xf3)
	return append(init, rt...)
}

// codelessInit: constructor that writes storage and returns NO code
func codelessInit(pairs [][2]int64) []byte {
	var pre []byte
	for _, p := range pairs {
		pre = append(pre, 0x60, byte(p[1]), 0x60, byte(p[0]), 0x55)
	}
	return append(pre, 0x00) // STOP: empty code
}

type hist struct {
	t       *testing.T
	c       *Chain // chain A
	r       *Rng
	side    *Sidecar
	pending map[common.Address]uint64
	txs     [][]byte
	after   []func(ok bool) // per tx: bookkeeping once the result is known

	stores    []common.Address // live Store contracts
	erc20s    []common.Address
	erc20Msg  map[common.Address]bool // deployed by message
	nativeGen *common.Address         // native ERC-20 deployed by the genesis flag
	stakingBy string                  // "", "genesis", "msg"
	ops       []string
}

func (h *hist) wallet() *itutiltypes.TestAccount { return h.c.S.WalletAccounts.Number(1 + h.r.Intn(5)) }

func (h *hist) nonce(a *itutiltypes.TestAccount) uint64 {
	addr := a.GetEthAddress()
	if _, ok := h.pending[addr]; !ok {
		h.pending[addr] = h.c.Nonce(h.c.QueryCtx(), addr)
	}
	return h.pending[addr]
}

func (h *hist) price() *big.Int { return new(big.Int).Mul(big.NewInt(2), h.c.BaseFee(h.c.QueryCtx())) }

func (h *hist) eth(a *itutiltypes.TestAccount, to *common.Address, gas uint64, data []byte, after func(ok bool)) {
	raw, _, err := h.c.EthTxBytes(a, &ethtypes.LegacyTx{Nonce: h.nonce(a), GasPrice: h.price(), Gas: gas, To: to, Data: data})
	require.NoError(h.t, err)
	h.pending[a.GetEthAddress()]++
	h.txs = append(h.txs, raw)
	h.after = append(h.after, after)
}

func (h *hist) cosmos(a *itutiltypes.TestAccount, after func(ok bool), msgs ...sdk.Msg) {
	raw, err := cosmosTx(h.c, a, h.nonce(a), 400000, h.price(), msgs...)
	require.NoError(h.t, err)
	h.pending[a.GetEthAddress()]++
	h.txs = append(h.txs, raw)
	h.after = append(h.after, after)
}

func pairs(r *Rng, n int) [][2]int64 {
	out := make([][2]int64, n)
	for i := range out {
		out[i] = [2]int64{int64(r.Intn(5)), int64(r.Intn(3))} // value 0 included: zero-valued and cleared slots
	}
	return out
}

func pairData(ps [][2]int64) []byte {
	var d []byte
	for _, p := range ps {
		d = append(d, common.BigToHash(big.NewInt(p[0])).Bytes()...)
		d = append(d, common.BigToHash(big.NewInt(p[1])).Bytes()...)
	}
	return d
}

func (h *hist) flush() {
	if len(h.txs) == 0 {
		h.c.RunBlock(nil)
		return
	}
	res := h.c.RunBlock(h.txs)
	for i, r := range res.TxResults {
		ok := r.Code == 0
		if ok {
			// an executed Ethereum tx may still have failed inside the VM
			for _, e := range r.Events {
				if e.Type == "tx_receipt" {
					for _, a := range e.Attributes {
						if a.Key == "error" {
							ok = false
						}
					}
				}
			}
		}
		if !ok {
			h.side.Count("op_tx_failed")
			if os.Getenv("VERIF_DEBUG") != "" {
				fmt.Println("FAILED TX", r.Code, r.Log, r.GasUsed, r.GasWanted)
				for _, e := range r.Events {
					if e.Type == "tx_receipt" {
						for _, a := range e.Attributes {
							if a.Key == "error" {
								fmt.Println("   vm error:", a.Value)
							}
						}
					}
				}
			}
		}
		if h.after[i] != nil {
			h.after[i](ok)
		}
	}
	h.txs, h.after = nil, nil
	h.pending = map[common.Address]uint64{}
}

func (h *hist) op() {
	r := h.r
	kinds := []string{"deploy_store", "deploy_store", "store_write", "store_write", "store_write", "store_write", "selfdestruct", "selfdestruct", "codeless_storage", "erc20_by_msg", "erc20_by_msg",
		"approve", "approve", "approve", "staking_by_msg", "vauth_proof", "transfer", "revert"}
	k := kinds[r.Intn(len(kinds))]
	if len(h.ops) == 0 && r.Chance(80) {
		k = "deploy_store"
	}
	a := h.wallet()
	switch k {
	case "deploy_store":
		n := h.nonce(a)
		addr := a.ComputeContractAddress(n)
		h.eth(a, nil, 400000, storeInit(pairs(r, r.Intn(3)), r.Intn(3)), func(ok bool) {
			if ok {
				h.stores = append(h.stores, addr)
			}
		})
	case "store_write":
		if len(h.stores) == 0 {
			return
		}
		to := h.stores[r.Intn(len(h.stores))]
		ps := pairs(r, 1+r.Intn(3))
		h.eth(a, &to, 60000+uint64(len(ps))*30000, pairData(ps), nil)
	case "selfdestruct":
		if len(h.stores) == 0 || !r.Chance(50) {
			return
		}
		i := r.Intn(len(h.stores))
		to := h.stores[i]
		h.stores = append(h.stores[:i:i], h.stores[i+1:]...)
		h.eth(a, &to, 60000, []byte{1}, nil)
	case "codeless_storage":
		h.eth(a, nil, 200000, codelessInit(pairs(r, 1+r.Intn(2))), nil)
	case "erc20_by_msg":
		denoms := []string{"utwo", "uthree"}
		d := denoms[r.Intn(2)]
		w1 := h.c.S.WalletAccounts.Number(1)
		before := h.c.App.CPCKeeper.GetErc20CustomPrecompiledContractAddressByMinDenom(h.c.QueryCtx(), d)
		if before != nil {
			return
		}
		h.flush() // the new address is read back from the state
		h.cosmos(w1, nil, &cpctypes.MsgDeployErc20ContractRequest{Authority: w1.GetCosmosAddress().String(), Name: strings.ToUpper(d[1:]), Symbol: strings.ToUpper(d[1:]), Decimals: uint32(6 + r.Intn(3)), MinDenom: d})
		h.flush()
		if ad := h.c.App.CPCKeeper.GetErc20CustomPrecompiledContractAddressByMinDenom(h.c.QueryCtx(), d); ad != nil {
			h.erc20s = append(h.erc20s, *ad)
			h.erc20Msg[*ad] = true
		}
	case "approve":
		if len(h.erc20s) == 0 {
			return
		}
		to := h.erc20s[r.Intn(len(h.erc20s))]
		sp := h.wallet().GetEthAddress()
		amt := big.NewInt(int64(r.Intn(4)) * 100) // zero clears the allowance
		if r.Chance(10) {
			amt = Bsub(Pow2(256), 1)
		}
		data := append(common.FromHex("0x095ea7b3"), common.LeftPadBytes(sp.Bytes(), 32)...)
		data = append(data, common.LeftPadBytes(amt.Bytes(), 32)...)
		h.eth(a, &to, 150000, data, nil)
	case "staking_by_msg":
		if h.stakingBy != "" {
			return
		}
		w1 := h.c.S.WalletAccounts.Number(1)
		sym, dec := "Staking-EVER", uint32(18)
		if r.Chance(70) {
			sym, dec = "sEVER", uint32(6+r.Intn(13))
		}
		h.stakingBy = "msg"
		h.cosmos(w1, func(ok bool) {
			if !ok {
				h.stakingBy = ""
			}
		}, &cpctypes.MsgDeployStakingContractRequest{Authority: w1.GetCosmosAddress().String(), Symbol: sym, Decimals: dec})
		h.flush()
	case "vauth_proof":
		acct := h.wallet()
		if acct == a {
			return
		}
		if h.c.App.VAuthKeeper.HasProofExternalOwnedAccount(h.c.QueryCtx(), acct.GetCosmosAddress()) {
			return
		}
		ek, err := acct.PrivateKey.ToECDSA()
		require.NoError(h.t, err)
		sig, err := crypto.Sign(crypto.Keccak256([]byte(vauthtypes.MessageToSign)), ek)
		require.NoError(h.t, err)
		h.cosmos(a, nil, &vauthtypes.MsgSubmitProofExternalOwnedAccount{Submitter: a.GetCosmosAddress().String(), Account: acct.GetCosmosAddress().String(), Signature: "0x" + hex.EncodeToString(sig)})
		h.flush()
	case "transfer":
		to := h.wallet().GetEthAddress()
		raw, _, err := h.c.EthTxBytes(a, &ethtypes.LegacyTx{Nonce: h.nonce(a), GasPrice: h.price(), Gas: 21000, To: &to, Value: big.NewInt(7)})
		require.NoError(h.t, err)
		h.pending[a.GetEthAddress()]++
		h.txs = append(h.txs, raw)
		h.after = append(h.after, nil)
	case "revert":
		if len(h.stores) == 0 {
			return
		}
		to := h.stores[r.Intn(len(h.stores))]
		h.eth(a, &to, 60000, []byte{1, 2}, nil)
	}
	h.ops = append(h.ops, k)
	h.side.Count("op:" + k)
	if r.Chance(40) || k == "deploy_store" {
		h.flush()
	}
}

type gdriver struct {
	t     *testing.T
	side  *Sidecar
	cases *CasesFile
	seed  uint64
	kc    string // Coq term of the cpc constants (from the reference import with both flags)
	haveK bool
	kNative, kStaking, kBech32 metaV
	bond                       string
}

func TestDriverGenesis(t *testing.T) {
	dir := OutDir(t)
	seed := EnvSeed()
	n := EnvInt("VERIF_N", 60)
	rng := NewRng(seed)
	side := NewSidecar("genesis", seed,
		"case = (cpc genesis flags, generated history of 3-14 operations on chain A) -> export -> fresh app B by InitChain -> stores compared -> second export; GImport cases = import of a document with each flag combination; "+
			"non-trivial = history leaves at least one contract with storage, or a precompile / allowance / proof / code-less storage, i.e. something that can be lost; distinct by flags and operation sequence")
	cases := NewCases(dir, "From Evm Require Import Genesis CorrGenesis.", "genesis_mismatches")
	d := &gdriver{t: t, side: side, cases: cases, seed: seed}
	d.reference()
	for i := 0; i < n; i++ {
		d.roundCase(i, rng.Fork(uint64(i)))
	}
	cases.Write(t, 10)
	side.Write(t, dir)
}

// patchGenesis sets the two cpc flags and the whitelisted deployer in an exported app state.
func patchGenesis(t *testing.T, c *Chain, appState []byte, erc20, staking bool) []byte {
	var gs map[string]jsonRaw
	require.NoError(t, jsonUnmarshal(appState, &gs))
	var cg cpctypes.GenesisState
	require.NoError(t, c.S.EncodingConfig.Codec.UnmarshalJSON(gs["cpc"], &cg))
	cg.DeployErc20Native = erc20
	cg.DeployStakingContract = staking
	cg.Params.WhitelistedDeployers = []string{c.S.WalletAccounts.Number(1).GetCosmosAddress().String()}
	gs["cpc"] = c.S.EncodingConfig.Codec.MustMarshalJSON(&cg)
	out, err := jsonMarshal(gs)
	require.NoError(t, err)
	return out
}

// base builds the suite chain A0 and its export (the genesis document all stage-A chains start from).
func (d *gdriver) base() (*Chain, []byte, *tmproto.ConsensusParams, int64) {
	c0 := NewChain(d.t, time.Time{})
	c0.RunBlock(nil)
	exp, err := c0.App.ExportAppStateAndValidators(false, nil, nil)
	require.NoError(d.t, err)
	cp := exp.ConsensusParams
	return c0, exp.AppState, &cp, exp.Height
}

func findMeta(s *cState, addr *big.Int) *metaV {
	for i := range s.Metas {
		if s.Metas[i].Addr.Cmp(addr) == 0 {
			return &s.Metas[i]
		}
	}
	return nil
}

func (d *gdriver) consts() string {
	return fmt.Sprintf("(CC %s %s (Meta %s %s) (Meta %s %s) (Meta %s %s) %s)", CqZ(bz(cpctypes.CpcStakingFixedAddress.Bytes())), CqZ(bz(cpctypes.CpcBech32FixedAddress.Bytes())),
		CqZu(d.kNative.Type), CqZu(d.kNative.Digest), CqZu(d.kStaking.Type), CqZu(d.kStaking.Digest), CqZu(d.kBech32.Type), CqZu(d.kBech32.Digest), CqZu(id64([]byte(d.bond))))
}

// reference: what InitGenesis deploys for each flag (the constants of x/cpc/genesis.go), read off a real import with
// both flags set; then one GImport case per flag combination.
func (d *gdriver) reference() {
	t := d.t
	c0, state0, cp, height := d.base()
	bond, err := c0.App.StakingKeeper.BondDenom(c0.QueryCtx())
	require.NoError(t, err)
	d.bond = bond
	for _, fl := range [][2]bool{{true, true}, {true, false}, {false, true}, {false, false}} {
		doc := patchGenesis(t, c0, state0, fl[0], fl[1])
		g := projectGen(t, c0, doc)
		env := envFor(c0, g)
		app, failure := newAppFrom(c0, doc, cp, height, c0.Time)
		imp := "None"
		var s *cState
		if failure == nil {
			s = readState(t, app, app.NewUncachedContext(false, tmproto.Header{Height: height}))
			imp = "(Some " + s.coq() + ")"
		} else {
			d.side.Hit(sigImportFails, fmt.Sprintf("InitChain failed on a default genesis with flags %v: %v", fl, failure), nil)
		}
		if failure == nil {
			// oracle: the flags decide which precompiles exist after InitChain, bech32 always does
			ictx := app.NewUncachedContext(false, tmproto.Header{Height: height})
			nat := app.CPCKeeper.GetErc20CustomPrecompiledContractAddressByMinDenom(ictx, bond)
			if (nat != nil) != fl[0] || (nat != nil && !app.CPCKeeper.HasCustomPrecompiledContract(ictx, *nat)) {
				d.side.Hit(sigFlag+"/deploy_erc20_native", fmt.Sprintf("flags %v: native ERC-20 precompile present = %v", fl, nat != nil), nil)
			}
			if app.CPCKeeper.HasCustomPrecompiledContract(ictx, cpctypes.CpcStakingFixedAddress) != fl[1] {
				d.side.Hit(sigFlag+"/deploy_staking_contract", fmt.Sprintf("flags %v: staking precompile present = %v", fl, !fl[1]), nil)
			}
			if !app.CPCKeeper.HasCustomPrecompiledContract(ictx, cpctypes.CpcBech32FixedAddress) {
				d.side.Hit(sigFlag+"/bech32", fmt.Sprintf("flags %v: bech32 precompile missing", fl), nil)
			}
		}
		if fl[0] && fl[1] {
			require.NotNil(t, s, "reference import failed")
			var nat *big.Int
			for _, e := range s.Denoms {
				if e.K.Uint64() == id64([]byte(bond)) {
					nat = e.V
				}
			}
			require.NotNil(t, nat, "no native ERC-20 precompile after import with DeployErc20Native")
			d.kNative = *findMeta(s, nat)
			d.kStaking = *findMeta(s, bz(cpctypes.CpcStakingFixedAddress.Bytes()))
			d.kBech32 = *findMeta(s, bz(cpctypes.CpcBech32FixedAddress.Bytes()))
		}
		idx := d.cases.Len()
		d.cases.Add(fmt.Sprintf("GImport %s %s %s %s", d.consts(), env.coq(), g.coq(), imp))
		d.side.Count(fmt.Sprintf("case:GImport flags=%v/%v", fl[0], fl[1]))
		d.side.Case(idx, fmt.Sprintf("GImport/%v/%v", fl[0], fl[1]), true, map[string]interface{}{"kind": "GImport", "deploy_erc20_native": fl[0], "deploy_staking_contract": fl[1]})
	}
}

func (d *gdriver) roundCase(ci int, r *Rng) {
	t := d.t
	c0, state0, cp, height := d.base()
	erc20Flag, stakingFlag := r.Bool(), r.Bool()
	doc := patchGenesis(t, c0, state0, erc20Flag, stakingFlag)
	appA, failure := newAppFrom(c0, doc, cp, height, c0.Time)
	require.Nil(t, failure, "stage A import failed")
	a := chainOn(t, c0, appA)
	h := &hist{t: t, c: a, r: r, side: d.side, pending: map[common.Address]uint64{}, erc20Msg: map[common.Address]bool{}}
	if erc20Flag {
		ad := appA.CPCKeeper.GetErc20CustomPrecompiledContractAddressByMinDenom(a.QueryCtx(), d.bond)
		require.NotNil(t, ad)
		h.nativeGen = ad
		h.erc20s = append(h.erc20s, *ad)
	}
	if stakingFlag {
		h.stakingBy = "genesis"
	}
	a.RunBlock(nil)
	for i, n := 0, 3+r.Intn(12); i < n; i++ {
		h.op()
	}
	h.flush()
	// configuration changes (what governance could have set): parameters of the three modules
	ctx := a.Ctx()
	if r.Chance(40) {
		p := appA.FeeMarketKeeper.GetParams(ctx)
		p.MinGasPrice = sdkmath.LegacyNewDecWithPrec(int64(1+r.Intn(1000)), int64(r.Intn(4)))
		require.NoError(t, appA.FeeMarketKeeper.SetParams(ctx, p))
		d.side.Count("config:feemarket_min_gas_price")
	}
	if r.Chance(30) {
		p := appA.EvmKeeper.GetParams(ctx)
		p.EnableCreate = r.Bool()
		p.EnableCall = r.Bool()
		require.NoError(t, appA.EvmKeeper.SetParams(ctx, p))
		d.side.Count("config:evm_enable_flags")
	}
	if r.Chance(30) {
		p := appA.CPCKeeper.GetParams(ctx)
		p.WhitelistedDeployers = append(p.WhitelistedDeployers, c0.S.WalletAccounts.Number(2).GetCosmosAddress().String())
		sort.Strings(p.WhitelistedDeployers)
		require.NoError(t, appA.CPCKeeper.SetParams(ctx, p))
		d.side.Count("config:cpc_whitelist")
	}
	a.RunBlock(nil) // commit the changes; the fee market moves the base fee once more

	// ---- export A, import into B, export B
	sA := readState(t, appA, a.QueryCtx())
	exp1, err := appA.ExportAppStateAndValidators(false, nil, nil)
	require.NoError(t, err)
	g1 := projectGen(t, a, exp1.AppState)
	env := envFor(a, g1)
	for id, code := range sA.codes {
		env.hashes[id] = code
	}
	for m, e := range g1.invalid {
		d.side.Hit(sigInvalid+"/"+m, "the exported "+m+" genesis does not pass the module's own validation: "+e, where0(ci, d.seed, erc20Flag, stakingFlag, h.ops))
	}
	cp1 := exp1.ConsensusParams
	appB, failure := newAppFrom(a, exp1.AppState, &cp1, exp1.Height, a.Time)
	imp, g2t := "None", "None"
	where := where0(ci, d.seed, erc20Flag, stakingFlag, h.ops)
	if failure != nil {
		d.side.Hit(sigImportFails, fmt.Sprintf("InitChain on the exported state failed: %v", failure), where)
	} else {
		sB := readState(t, appB, appB.NewUncachedContext(false, tmproto.Header{Height: exp1.Height}))
		imp = "(Some " + sB.coq() + ")"
		d.compare(h, sA, sB, where)
		exp2, err := appB.ExportAppStateAndValidators(false, nil, nil)
		require.NoError(t, err)
		g2 := projectGen(t, a, exp2.AppState)
		g2t = "(Some " + g2.coq() + ")"
		for _, m := range []string{"evm", "feemarket", "cpc", "vauth"} {
			if g1.canon[m] != g2.canon[m] {
				d.side.Hit(sigSecondExport+"/"+m, "the export of the re-imported state differs from the first export in module "+m, where)
			}
		}
	}
	nontrivial := len(sA.Storage) > 0 || len(sA.Allow) > 0 || len(sA.Proofs) > 0 || len(sA.Metas) > 1
	idx := d.cases.Len()
	d.cases.Add(fmt.Sprintf("GRound %s %s %s %s %s %s", d.consts(), env.coq(), sA.coq(), g1.coq(), imp, g2t))
	d.side.Count(fmt.Sprintf("case:GRound flags=%v/%v", erc20Flag, stakingFlag))
	d.side.Count(fmt.Sprintf("state:contracts=%d", min(len(sA.CodeHash), 5)))
	d.side.Case(idx, fmt.Sprintf("GRound/%v/%v/%s", erc20Flag, stakingFlag, strings.Join(h.ops, ",")), nontrivial, where)
}

func where0(ci int, seed uint64, erc20Flag, stakingFlag bool, ops []string) map[string]interface{} {
	return map[string]interface{}{"case": ci, "seed": seed, "deploy_erc20_native": erc20Flag, "deploy_staking_contract": stakingFlag, "ops": ops}
}

func min(a, b int) int {
	if a < b {
		return a
	}
	return b
}

// compare: the oracle. Everything observable in the four modules' stores of A must be in B, and nothing else.
func (d *gdriver) compare(h *hist, a, b *cState, where map[string]interface{}) {
	hit := func(sig, msg string) { d.side.Hit(sig, msg, where) }
	idx := func(l []zz) map[string]*big.Int {
		m := map[string]*big.Int{}
		for _, e := range l {
			m[e.K.String()] = e.V
		}
		return m
	}
	slot := Pow2(256)
	contract := map[string]bool{}
	for _, e := range a.CodeHash {
		contract[e.K.String()] = true
	}
	// evm
	if a.EvmParams != b.EvmParams {
		hit(sigEvmParams, "evm params differ after the round trip")
	}
	bch, bcode, bst := idx(b.CodeHash), idx(b.Code), idx(b.Storage)
	acode := idx(a.Code)
	for _, e := range a.CodeHash {
		if v, ok := bch[e.K.String()]; !ok || v.Cmp(e.V) != 0 {
			hit(sigContract, fmt.Sprintf("code hash of contract %s differs or is missing", common.BigToAddress(e.K)))
			continue
		}
		ca, cb := acode[e.V.String()], bcode[e.V.String()]
		if ca == nil || cb == nil || ca.Cmp(cb) != 0 {
			hit(sigContract, fmt.Sprintf("code of contract %s differs or is missing", common.BigToAddress(e.K)))
		}
	}
	for _, e := range a.Storage {
		addr := new(big.Int).Div(e.K, slot)
		v, ok := bst[e.K.String()]
		if ok && v.Cmp(e.V) == 0 {
			continue
		}
		if contract[addr.String()] {
			hit(sigContract, fmt.Sprintf("storage slot of contract %s lost or changed (value %s)", common.BigToAddress(addr), e.V))
		} else {
			hit(sigCodeless, fmt.Sprintf("storage slot of code-less account %s is not exported", common.BigToAddress(addr)))
		}
	}
	ach, ast := idx(a.CodeHash), idx(a.Storage)
	for _, e := range b.CodeHash {
		if _, ok := ach[e.K.String()]; !ok {
			hit(sigAdds+"/evm-codehash", "B has a contract A has not")
		}
	}
	for _, e := range b.Storage {
		if _, ok := ast[e.K.String()]; !ok {
			hit(sigAdds+"/evm-storage", "B has a storage slot A has not")
		}
	}
	// fee market
	if a.BaseFee.Cmp(b.BaseFee) != 0 || a.MinGasPrice.Cmp(b.MinGasPrice) != 0 {
		hit(sigFm, fmt.Sprintf("base fee %s -> %s, min gas price %s -> %s", a.BaseFee, b.BaseFee, a.MinGasPrice, b.MinGasPrice))
	}
	// cpc
	if a.CpcParams != b.CpcParams {
		hit(sigCpcParams, "cpc params differ after the round trip")
	}
	for _, m := range a.Metas {
		addr := common.BigToAddress(m.Addr)
		mb := findMeta(b, m.Addr)
		switch {
		case mb != nil && mb.Type == m.Type && mb.Digest == m.Digest:
		case m.Type == uint64(cpctypes.CpcTypeErc20) && h.erc20Msg[addr]:
			hit(sigErc20Msg, fmt.Sprintf("ERC-20 precompile %s (%s), deployed by message, is gone", addr, m.raw.Name))
		case m.Type == uint64(cpctypes.CpcTypeErc20) && h.nativeGen != nil && *h.nativeGen == addr:
			hit(sigErc20Native, fmt.Sprintf("native ERC-20 precompile %s, deployed by the genesis flag, is gone (DeployErc20Native is exported as false)", addr))
		case m.Type == uint64(cpctypes.CpcTypeStaking) && h.stakingBy == "msg" && mb != nil:
			hit(sigStakingMeta, fmt.Sprintf("staking precompile metadata %q replaced by the genesis default %q", m.raw.TypedMeta, mb.raw.TypedMeta))
		default:
			hit(sigCpcOther, fmt.Sprintf("precompile %s (type %d) lost or changed", addr, m.Type))
		}
	}
	for _, m := range b.Metas {
		if findMeta(a, m.Addr) == nil {
			hit(sigAdds+"/cpc-meta", "B has a precompile A has not")
		}
	}
	bden := idx(b.Denoms)
	for _, e := range a.Denoms {
		if v, ok := bden[e.K.String()]; !ok || v.Cmp(e.V) != 0 {
			ad := common.BigToAddress(e.V)
			switch {
			case h.erc20Msg[ad]:
				hit(sigErc20Msg, "denom index entry of "+a.denoms[e.K.Uint64()]+" is gone")
			case h.nativeGen != nil && *h.nativeGen == ad:
				hit(sigErc20Native, "denom index entry of "+a.denoms[e.K.Uint64()]+" is gone")
			default:
				hit(sigCpcOther, "denom index entry lost")
			}
		}
	}
	if len(b.Denoms) > len(a.Denoms) {
		hit(sigAdds+"/cpc-denom", "B has a denom index entry A has not")
	}
	ball := idx(b.Allow)
	for _, e := range a.Allow {
		if v, ok := ball[e.K.String()]; !ok || v.Cmp(e.V) != 0 {
			hit(sigAllow, fmt.Sprintf("allowance of %s is not exported", e.V))
		}
	}
	if len(b.Allow) > 0 && len(b.Allow) > len(a.Allow) {
		hit(sigAdds+"/cpc-allowance", "B has an allowance A has not")
	}
	// vauth
	bpr := idx(b.Proofs)
	for _, e := range a.Proofs {
		if v, ok := bpr[e.K.String()]; !ok || v.Cmp(e.V) != 0 {
			hit(sigProofs, fmt.Sprintf("ownership proof of %s is not exported", common.BigToAddress(e.K)))
		}
	}
	if len(b.Proofs) > len(a.Proofs) {
		hit(sigAdds+"/vauth-proof", "B has a proof A has not")
	}
}

var _ = chainapp.DefaultNodeHome
