package genesis

import "encoding/json"

type jsonRaw = json.RawMessage

func jsonUnmarshal(b []byte, v interface{}) error { return json.Unmarshal(b, v) }
func jsonMarshal(v interface{}) ([]byte, error)    { return json.Marshal(v) }
