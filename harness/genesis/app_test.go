package genesis

// Building applications from genesis documents (the way a node does: NewEvermint over a new mem-DB + InitChain)
// and reading the custom modules' stores raw.

import (
	"crypto/sha256"
	"encoding/binary"
	"encoding/json"
	"fmt"
	"math/big"
	"sort"
	"testing"
	"time"

	"cosmossdk.io/log"
	storetypes "cosmossdk.io/store/types"
	abci "github.com/cometbft/cometbft/abci/types"
	tmproto "github.com/cometbft/cometbft/proto/tendermint/types"
	sdkdb "github.com/cosmos/cosmos-db"
	"github.com/cosmos/cosmos-sdk/baseapp"
	"github.com/cosmos/cosmos-sdk/client"
	"github.com/cosmos/cosmos-sdk/codec"
	clienttx "github.com/cosmos/cosmos-sdk/client/tx"
	simtestutil "github.com/cosmos/cosmos-sdk/testutil/sims"
	sdk "github.com/cosmos/cosmos-sdk/types"
	"github.com/cosmos/cosmos-sdk/types/tx/signing"
	authsigning "github.com/cosmos/cosmos-sdk/x/auth/signing"
	"github.com/cosmos/gogoproto/proto"
	"github.com/ethereum/go-ethereum/common"
	"github.com/ethereum/go-ethereum/crypto"
	"github.com/stretchr/testify/require"

	chainapp "github.com/EscanBE/evermint/v12/app"
	itutiltypes "github.com/EscanBE/evermint/v12/integration_test_util/types"
	cpctypes "github.com/EscanBE/evermint/v12/x/cpc/types"

	. "verifharness/hx"
)

// newAppFrom builds a FRESH application over a new mem-DB and initialises it with the given app state
// (InitChain), then makes the genesis state the committed state WITHOUT running a block, so that what is read
// afterwards is exactly what InitGenesis wrote.  A panic or error of InitChain is returned.
func newAppFrom(c *Chain, appState []byte, cp *tmproto.ConsensusParams, height int64, tm time.Time) (app *chainapp.Evermint, failure interface{}) {
	return newAppWith(c, appState, cp, height, tm, c.S.ChainConstantsConfig.GetCosmosChainID())
}

// newAppWith: the same with a chosen chain id (InitChain of a node started with another chain id in its genesis file).
func newAppWith(c *Chain, appState []byte, cp *tmproto.ConsensusParams, height int64, tm time.Time, chainID string) (app *chainapp.Evermint, failure interface{}) {
	app = chainapp.NewEvermint(log.NewNopLogger(), sdkdb.NewMemDB(), nil, true, map[int64]bool{}, chainapp.DefaultNodeHome, 0,
		c.S.EncodingConfig, simtestutil.NewAppOptionsWithFlagHome(chainapp.DefaultNodeHome), baseapp.SetChainID(chainID))
	p := CatchPanic(func() {
		_, err := app.InitChain(&abci.RequestInitChain{
			ChainId: chainID, ConsensusParams: cp, Validators: []abci.ValidatorUpdate{}, AppStateBytes: appState, InitialHeight: height, Time: tm,
		})
		if err != nil {
			failure = err
			return
		}
		// FinalizeBlock would do this write at the end of the first block; do it now, with no block in between
		app.NewContextLegacy(false, tmproto.Header{Height: height}).MultiStore().(storetypes.CacheMultiStore).Write()
		if _, err := app.Commit(); err != nil {
			failure = err
		}
	})
	if p != nil {
		failure = p
	}
	if failure != nil {
		return nil, failure
	}
	return app, nil
}

// chainOn wraps an application into an hx.Chain (keys, signing and encoding come from the suite).
func chainOn(t *testing.T, base *Chain, app *chainapp.Evermint) *Chain {
	return &Chain{T: t, S: base.S, App: app, Height: app.LastBlockHeight() + 1, Time: base.Time.Add(time.Hour), Step: base.Step}
}

// cosmosTx signs msgs for the given application (the suite's helper is bound to the suite's own app).
func cosmosTx(c *Chain, a *itutiltypes.TestAccount, seq uint64, gas uint64, gasPrice *big.Int, msgs ...sdk.Msg) ([]byte, error) {
	txCfg := c.S.EncodingConfig.TxConfig
	txb := txCfg.NewTxBuilder()
	txb.SetGasLimit(gas)
	fee := new(big.Int).Mul(gasPrice, new(big.Int).SetUint64(gas))
	txb.SetFeeAmount(sdk.NewCoins(sdk.NewCoin(c.Denom(), sdkIntFromBig(fee))))
	if err := txb.SetMsgs(msgs...); err != nil {
		return nil, err
	}
	ctx := c.QueryCtx()
	acc := c.App.AccountKeeper.GetAccount(ctx, a.GetCosmosAddress())
	if acc == nil {
		return nil, fmt.Errorf("no account")
	}
	mode, err := authsigning.APISignModeToInternal(txCfg.SignModeHandler().DefaultMode())
	if err != nil {
		return nil, err
	}
	sig := signing.SignatureV2{PubKey: a.GetPubKey(), Data: &signing.SingleSignatureData{SignMode: mode}, Sequence: seq}
	if err := txb.SetSignatures(sig); err != nil {
		return nil, err
	}
	sd := authsigning.SignerData{ChainID: c.S.ChainConstantsConfig.GetCosmosChainID(), AccountNumber: acc.GetAccountNumber(), Sequence: seq}
	sig, err = clienttx.SignWithPrivKey(ctx, mode, sd, txb, a.PrivateKey, txCfg, seq)
	if err != nil {
		return nil, err
	}
	if err := txb.SetSignatures(sig); err != nil {
		return nil, err
	}
	return txCfg.TxEncoder()(txb.GetTx())
}

var _ = client.Context{}

// ------------------------------------------------------------------ raw store content of the custom modules

func id64(b []byte) uint64 {
	h := sha256.Sum256(b)
	return binary.BigEndian.Uint64(h[:8]) >> 1 // 63 bits, never negative
}

func codeID(code []byte) uint64 {
	if len(code) == 0 {
		return 0
	}
	return id64(code) | 1
}

type zz struct{ K, V *big.Int }

type metaV struct {
	Addr   *big.Int
	Type   uint64
	Digest uint64
	raw    cpctypes.CustomPrecompiledContractMeta
}

type cState struct {
	EvmParams   uint64
	CodeHash    []zz // address -> code hash
	Code        []zz // code hash -> code id
	Storage     []zz // address*2^256+slot -> value
	BaseFee     *big.Int
	MinGasPrice *big.Int
	CpcParams   uint64
	Metas       []metaV
	Denoms      []zz // denom id -> address
	Allow       []zz // owner*2^160+spender -> amount
	Proofs      []zz // address -> proof id
	// side tables
	codes  map[uint64][]byte
	denoms map[uint64]string
	// for the Go oracle only: every leaf of the three params values, the EIP-155 chain id x/evm stores, the base fee as
	// x/evm reads it, block hashes kept by x/evm (not part of any genesis), entries under prefixes nobody knows
	leaves   map[string]map[string]string
	ChainID  uint64
	EvmBase  *big.Int
	BlockHs  int
	Unknown  []string
}

// leavesOf flattens the JSON form of a params value (every field, defaults emitted) into path -> value.
func leavesOf(cdc codec.JSONCodec, m proto.Message) map[string]string {
	bz, err := cdc.MarshalJSON(m)
	if err != nil {
		panic(err)
	}
	var v interface{}
	if err := json.Unmarshal(bz, &v); err != nil {
		panic(err)
	}
	out := map[string]string{}
	var walk func(path string, v interface{})
	walk = func(path string, v interface{}) {
		switch x := v.(type) {
		case map[string]interface{}:
			for k, e := range x {
				walk(path+"."+k, e)
			}
		default:
			b, _ := json.Marshal(x) // lists stay whole: order and multiplicity matter
			out[path] = string(b)
		}
	}
	walk("", v)
	return out
}

// diffLeaves lists the fields in which two params values differ.
func diffLeaves(a, b map[string]string) []string {
	var out []string
	for k, va := range a {
		if vb, ok := b[k]; !ok {
			out = append(out, fmt.Sprintf("%s: %s -> (absent)", k, va))
		} else if va != vb {
			out = append(out, fmt.Sprintf("%s: %s -> %s", k, va, vb))
		}
	}
	for k, vb := range b {
		if _, ok := a[k]; !ok {
			out = append(out, fmt.Sprintf("%s: (absent) -> %s", k, vb))
		}
	}
	sort.Strings(out)
	return out
}

func bz(b []byte) *big.Int { return new(big.Int).SetBytes(b) }

func iter(ctx sdk.Context, key storetypes.StoreKey, prefix byte, f func(k, v []byte)) {
	it := storetypes.KVStorePrefixIterator(ctx.KVStore(key), []byte{prefix})
	defer it.Close()
	for ; it.Valid(); it.Next() {
		f(it.Key()[1:], it.Value())
	}
}

func mustMarshal(m proto.Message) []byte {
	b, err := proto.Marshal(m)
	if err != nil {
		panic(err)
	}
	return b
}

func readState(t *testing.T, app *chainapp.Evermint, ctx sdk.Context) *cState {
	keys := app.GetKVStoreKey()
	s := &cState{codes: map[uint64][]byte{}, denoms: map[uint64]string{}, leaves: map[string]map[string]string{}}
	cdc := app.AppCodec()
	ep := app.EvmKeeper.GetParams(ctx)
	s.EvmParams = id64(mustMarshal(&ep))
	s.leaves["evm"] = leavesOf(cdc, &ep)
	s.ChainID = app.EvmKeeper.GetEip155ChainId(ctx).BigInt().Uint64()
	s.EvmBase = app.EvmKeeper.GetBaseFee(ctx).BigInt()
	// every entry of the four stores belongs to a prefix this driver reads (anything else is reported)
	known := map[string]map[byte]bool{"evm": {1: true, 2: true, 3: true, 4: true, 5: true, 6: true}, "feemarket": {}, "cpc": {1: true, 2: true, 3: true, 4: true}, "vauth": {1: true}}
	for _, m := range []string{"evm", "feemarket", "cpc", "vauth"} {
		it := ctx.KVStore(keys[m]).Iterator(nil, nil)
		for ; it.Valid(); it.Next() {
			k := it.Key()
			if m == "feemarket" && string(k) == "Params" {
				continue
			}
			if m == "evm" && len(k) > 0 && k[0] == 5 {
				s.BlockHs++
			}
			if len(k) == 0 || !known[m][k[0]] {
				s.Unknown = append(s.Unknown, fmt.Sprintf("%s/%x", m, k))
			}
		}
		it.Close()
	}
	iter(ctx, keys["evm"], 4, func(k, v []byte) { s.CodeHash = append(s.CodeHash, zz{bz(k), bz(v)}) })
	iter(ctx, keys["evm"], 1, func(k, v []byte) {
		id := codeID(v)
		s.codes[id] = append([]byte{}, v...)
		s.Code = append(s.Code, zz{bz(k), new(big.Int).SetUint64(id)})
	})
	iter(ctx, keys["evm"], 2, func(k, v []byte) {
		require.Len(t, k, 52)
		s.Storage = append(s.Storage, zz{bz(k), bz(v)})
	})
	fp := app.FeeMarketKeeper.GetParams(ctx)
	s.BaseFee = fp.BaseFee.BigInt()
	s.MinGasPrice = fp.MinGasPrice.BigInt()
	s.leaves["feemarket"] = leavesOf(cdc, &fp)
	cp := app.CPCKeeper.GetParams(ctx)
	s.CpcParams = id64(mustMarshal(&cp))
	s.leaves["cpc"] = leavesOf(cdc, &cp)
	iter(ctx, keys["cpc"], 2, func(k, v []byte) {
		var m cpctypes.CustomPrecompiledContractMeta
		require.NoError(t, proto.Unmarshal(v, &m))
		dig := id64([]byte(fmt.Sprintf("%q|%q|%v", m.Name, m.TypedMeta, m.Disabled)))
		s.Metas = append(s.Metas, metaV{Addr: bz(k), Type: uint64(m.CustomPrecompiledType), Digest: dig, raw: m})
	})
	iter(ctx, keys["cpc"], 3, func(k, v []byte) {
		id := id64(k)
		s.denoms[id] = string(k)
		s.Denoms = append(s.Denoms, zz{new(big.Int).SetUint64(id), bz(v)})
	})
	sort.Slice(s.Denoms, func(i, j int) bool { return s.Denoms[i].K.Cmp(s.Denoms[j].K) < 0 })
	iter(ctx, keys["cpc"], 4, func(k, v []byte) {
		require.Len(t, k, 40)
		s.Allow = append(s.Allow, zz{bz(k), bz(v)})
	})
	iter(ctx, keys["vauth"], 1, func(k, v []byte) { s.Proofs = append(s.Proofs, zz{bz(k), new(big.Int).SetUint64(id64(v))}) })
	return s
}

func cqZZ(l []zz) string {
	out := make([]string, len(l))
	for i, e := range l {
		out[i] = "(" + CqZ(e.K) + ", " + CqZ(e.V) + ")"
	}
	return CqList(out)
}

func (s *cState) coq() string {
	ms := make([]string, len(s.Metas))
	for i, m := range s.Metas {
		ms[i] = fmt.Sprintf("(%s, Meta %s %s)", CqZ(m.Addr), CqZu(m.Type), CqZu(m.Digest))
	}
	return fmt.Sprintf("(St (Evm %s %s %s %s) (Fm %s %s) (Cpc %s %s %s %s) %s)", CqZu(s.EvmParams), cqZZ(s.CodeHash), cqZZ(s.Code), cqZZ(s.Storage),
		CqZ(s.BaseFee), CqZ(s.MinGasPrice), CqZu(s.CpcParams), CqList(ms), cqZZ(s.Denoms), cqZZ(s.Allow), cqZZ(s.Proofs))
}

// ------------------------------------------------------------------ projection of an exported genesis document

type genAcct struct {
	Addr    *big.Int
	Code    uint64
	Storage []zz
}

type genV struct {
	EvmParams   uint64
	Accounts    []genAcct
	BaseFee     *big.Int
	MinGasPrice *big.Int
	CpcParams   uint64
	Erc20Native bool
	Staking     bool
	codes       map[uint64][]byte
	canon       map[string]string // canonical JSON of the four module sections
	invalid     map[string]string // module -> error of the module's own GenesisState.Validate()
	leaves      map[string]map[string]string
}

func canonJSON(raw json.RawMessage) string {
	var v interface{}
	if err := json.Unmarshal(raw, &v); err != nil {
		return "!" + string(raw)
	}
	b, _ := json.Marshal(v) // maps are written with sorted keys
	return string(b)
}

func projectGen(t *testing.T, c *Chain, appState []byte) *genV {
	var gs map[string]json.RawMessage
	require.NoError(t, json.Unmarshal(appState, &gs))
	cdc := c.S.EncodingConfig.Codec
	g := &genV{codes: map[uint64][]byte{}, canon: map[string]string{}, invalid: map[string]string{}, leaves: map[string]map[string]string{}}
	for m, raw := range gs { // every section (the four custom modules' are the ones compared under the property's signatures)
		g.canon[m] = canonJSON(raw)
	}
	var eg evmGenesis
	require.NoError(t, cdc.UnmarshalJSON(gs["evm"], &eg))
	g.EvmParams = id64(mustMarshal(&eg.Params))
	g.leaves["evm"] = leavesOf(cdc, &eg.Params)
	if err := eg.Validate(); err != nil {
		g.invalid["evm"] = err.Error()
	}
	for _, a := range eg.Accounts {
		code := common.Hex2Bytes(a.Code)
		id := codeID(code)
		g.codes[id] = code
		ga := genAcct{Addr: bz(common.HexToAddress(a.Address).Bytes()), Code: id}
		for _, st := range a.Storage {
			ga.Storage = append(ga.Storage, zz{bz(common.HexToHash(st.Key).Bytes()), bz(common.HexToHash(st.Value).Bytes())})
		}
		g.Accounts = append(g.Accounts, ga)
	}
	var fg fmGenesis
	require.NoError(t, cdc.UnmarshalJSON(gs["feemarket"], &fg))
	if err := fg.Validate(); err != nil {
		g.invalid["feemarket"] = err.Error()
	}
	g.BaseFee = fg.Params.BaseFee.BigInt()
	g.MinGasPrice = fg.Params.MinGasPrice.BigInt()
	g.leaves["feemarket"] = leavesOf(cdc, &fg.Params)
	var cg cpctypes.GenesisState
	require.NoError(t, cdc.UnmarshalJSON(gs["cpc"], &cg))
	g.CpcParams = id64(mustMarshal(&cg.Params))
	g.leaves["cpc"] = leavesOf(cdc, &cg.Params)
	if err := cg.Validate(); err != nil {
		g.invalid["cpc"] = err.Error()
	}
	g.Erc20Native = cg.DeployErc20Native
	g.Staking = cg.DeployStakingContract
	// the vauth genesis type has no field; anything in the document would be ignored by InitGenesis
	require.Equal(t, "{}", g.canon["vauth"], "x/vauth genesis document is no longer empty: extend the model")
	return g
}

func (g *genV) coq() string {
	as := make([]string, len(g.Accounts))
	for i, a := range g.Accounts {
		as[i] = fmt.Sprintf("GA %s %s %s", CqZ(a.Addr), CqZu(a.Code), cqZZ(a.Storage))
	}
	return fmt.Sprintf("(Gen %s %s (Fm %s %s) %s %s %s)", CqZu(g.EvmParams), CqList(as), CqZ(g.BaseFee), CqZ(g.MinGasPrice), CqZu(g.CpcParams),
		CqBool(g.Erc20Native), CqBool(g.Staking))
}

// environment of an import: keccak on code ids, the accounts x/auth holds at the addresses the custom modules use,
// next dynamic precompile address, bond supply (read off the imported document: envFromDoc)
type envV struct {
	hashes  map[uint64][]byte
	accts   []acctK
	nextDyn *big.Int
	supply  bool
}

func (e *envV) coq() string {
	ids := make([]uint64, 0, len(e.hashes))
	for id := range e.hashes {
		ids = append(ids, id)
	}
	sort.Slice(ids, func(i, j int) bool { return ids[i] < ids[j] })
	hs := make([]string, 0, len(ids))
	for _, id := range ids {
		if id == 0 {
			continue
		}
		hs = append(hs, fmt.Sprintf("(%s, %s)", CqZu(id), CqZ(bz(crypto.Keccak256(e.hashes[id])))))
	}
	as := make([]string, len(e.accts))
	for i, a := range e.accts {
		as[i] = fmt.Sprintf("(%s, %s)", CqZ(a.Addr), a.Kind)
	}
	return fmt.Sprintf("%s %s %s %s", CqList(hs), CqList(as), CqZ(e.nextDyn), CqBool(e.supply))
}
