package genesis

// The account environment of the custom modules (C18): what x/auth and x/bank hold at the addresses the custom modules
// use - precompile addresses (bech32 0xcc02..02, staking 0xcc01..01, ERC-20 precompiles, the NEXT dynamic precompile
// address), contract addresses (existing, predicted, code-less, destroyed), module accounts.  x/auth and x/bank are
// initialised before x/evm and x/cpc, so at import time every one of these accounts is already there.
//
//   - histories vary it with real transactions: bank MsgSend of every denomination and EVM value transfers TO these addresses
//   - genesis documents vary it: accounts of every type (base, huge sequence, the four vesting types, module account with
//     balance) written into the auth / bank sections chain A starts from, the cpc module account's sequence
//   - oracle: the accounts at these addresses (type, number, sequence, vesting schedule, every balance) are the same after
//     export -> InitChain; the import itself must succeed whatever accounts exist (import-fails)
//   - model: the environment is the `env` argument of Model/Genesis.v (v_acct, v_next_dyn, v_bond_supply_pos), read off the
//     auth / bank sections of the very document that is imported

import (
	"encoding/json"
	"fmt"
	"math/big"
	"sort"
	"strings"
	"testing"

	sdkmath "cosmossdk.io/math"
	sdk "github.com/cosmos/cosmos-sdk/types"
	authtypes "github.com/cosmos/cosmos-sdk/x/auth/types"
	vestexported "github.com/cosmos/cosmos-sdk/x/auth/vesting/exported"
	vesttypes "github.com/cosmos/cosmos-sdk/x/auth/vesting/types"
	banktypes "github.com/cosmos/cosmos-sdk/x/bank/types"
	distrtypes "github.com/cosmos/cosmos-sdk/x/distribution/types"
	govtypes "github.com/cosmos/cosmos-sdk/x/gov/types"
	stakingtypes "github.com/cosmos/cosmos-sdk/x/staking/types"
	"github.com/ethereum/go-ethereum/common"
	ethtypes "github.com/ethereum/go-ethereum/core/types"
	"github.com/ethereum/go-ethereum/crypto"
	"github.com/stretchr/testify/require"

	chainapp "github.com/EscanBE/evermint/v12/app"
	itutiltypes "github.com/EscanBE/evermint/v12/integration_test_util/types"
	cpctypes "github.com/EscanBE/evermint/v12/x/cpc/types"
	evmtypes "github.com/EscanBE/evermint/v12/x/evm/types"
	vauthtypes "github.com/EscanBE/evermint/v12/x/vauth/types"

	. "verifharness/hx"
)

const (
	sigEnvAuth = "C18/genesis/account-environment-changed/auth"
	sigEnvBank = "C18/genesis/account-environment-changed/bank"
)

func cpcModuleAcc() sdk.AccAddress { return authtypes.NewModuleAddress(cpctypes.ModuleName) }

func nextDynAt(seq uint64) common.Address { return crypto.CreateAddress(cpctypes.CpcModuleAddress, seq) }

// ------------------------------------------------------------------ reading the environment off a genesis document

func kindOf(acc sdk.AccountI) string {
	switch acc.(type) {
	case nil:
		return "ANone"
	case *authtypes.BaseAccount:
		return "ABase"
	case *authtypes.ModuleAccount:
		return "AModule"
	}
	if _, ok := acc.(vestexported.VestingAccount); ok {
		return "AVesting"
	}
	panic(fmt.Sprintf("account type %T: extend acct_kind of Model/Genesis.v", acc))
}

type acctK struct {
	Addr *big.Int
	Kind string
}

func docSections(t *testing.T, appState []byte) map[string]json.RawMessage {
	var gs map[string]json.RawMessage
	require.NoError(t, json.Unmarshal(appState, &gs))
	return gs
}

func docAccounts(t *testing.T, c *Chain, gs map[string]json.RawMessage) (authtypes.GenesisState, authtypes.GenesisAccounts) {
	var ag authtypes.GenesisState
	require.NoError(t, c.S.EncodingConfig.Codec.UnmarshalJSON(gs["auth"], &ag))
	accs, err := authtypes.UnpackAccounts(ag.Accounts)
	require.NoError(t, err)
	return ag, accs
}

// envFromDoc: what the auth / bank sections of the document hand to the custom modules' InitGenesis.
func envFromDoc(t *testing.T, c *Chain, appState []byte, g *genV, bond string, extra []common.Address) *envV {
	gs := docSections(t, appState)
	_, accs := docAccounts(t, c, gs)
	by := map[string]sdk.AccountI{}
	for _, a := range accs {
		by[string(a.GetAddress())] = a
	}
	e := &envV{hashes: g.codes}
	seq := uint64(0)
	if acc := by[string(cpcModuleAcc())]; acc != nil {
		seq = acc.GetSequence()
	}
	e.nextDyn = bz(nextDynAt(seq).Bytes())
	seen := map[string]bool{}
	add := func(a common.Address) {
		if seen[string(a.Bytes())] {
			return
		}
		seen[string(a.Bytes())] = true
		e.accts = append(e.accts, acctK{bz(a.Bytes()), kindOf(by[string(a.Bytes())])})
	}
	for _, a := range g.Accounts {
		add(common.BigToAddress(a.Addr))
	}
	add(cpctypes.CpcStakingFixedAddress)
	add(cpctypes.CpcBech32FixedAddress)
	add(cpctypes.CpcModuleAddress)
	add(nextDynAt(seq))
	for _, a := range extra {
		add(a)
	}
	var bg banktypes.GenesisState
	require.NoError(t, c.S.EncodingConfig.Codec.UnmarshalJSON(gs["bank"], &bg))
	if len(bg.Supply) > 0 {
		e.supply = bg.Supply.AmountOf(bond).IsPositive()
	} else {
		tot := sdkmath.ZeroInt()
		for _, b := range bg.Balances {
			tot = tot.Add(b.Coins.AmountOf(bond))
		}
		e.supply = tot.IsPositive()
	}
	return e
}

// ------------------------------------------------------------------ writing accounts into a genesis document

type acctSpec struct {
	Addr  common.Address
	Kind  string // base, base-huge-seq, continuous-vesting, continuous-vested, delayed-vesting, permanent-locked, periodic-vesting
	Coins sdk.Coins
	Class string // what the address is to the custom modules
}

type envPatch struct {
	cpcSeq *uint64 // sequence of the cpc module account (the account is added if the document has none)
	cpcAs  string  // "module" (default), "base": a BaseAccount sits at the cpc module address
	cpcBal sdk.Coins
	specs  []acctSpec
}

func (p *envPatch) String() string {
	if p == nil {
		return "-"
	}
	var parts []string
	if p.cpcSeq != nil {
		parts = append(parts, fmt.Sprintf("cpc-seq=%d", *p.cpcSeq))
	}
	if p.cpcAs == "base" {
		parts = append(parts, "cpc-module-address-holds-base-account")
	}
	if !p.cpcBal.IsZero() {
		parts = append(parts, "cpc-module-balance="+p.cpcBal.String())
	}
	for _, s := range p.specs {
		parts = append(parts, fmt.Sprintf("%s@%s[%s]", s.Kind, s.Class, s.Coins))
	}
	return strings.Join(parts, ",")
}

const (
	tPast   = int64(1577836800) // 2020-01-01: before every block of the harness chains
	tFuture = int64(2208988800) // 2040-01-01: after every block
)

func patchAccounts(t *testing.T, c *Chain, appState []byte, p *envPatch) []byte {
	if p == nil {
		return appState
	}
	gs := docSections(t, appState)
	cdc := c.S.EncodingConfig.Codec
	ag, accs := docAccounts(t, c, gs)
	var bg banktypes.GenesisState
	require.NoError(t, cdc.UnmarshalJSON(gs["bank"], &bg))
	num := uint64(0)
	have := map[string]int{}
	for i, a := range accs {
		if a.GetAccountNumber() >= num {
			num = a.GetAccountNumber() + 1
		}
		have[string(a.GetAddress())] = i
	}
	credit := func(addr sdk.AccAddress, coins sdk.Coins) {
		if coins.IsZero() {
			return
		}
		found := false
		for i := range bg.Balances {
			if bg.Balances[i].Address == addr.String() {
				bg.Balances[i].Coins = bg.Balances[i].Coins.Add(coins...)
				found = true
			}
		}
		if !found {
			bg.Balances = append(bg.Balances, banktypes.Balance{Address: addr.String(), Coins: coins})
		}
		if len(bg.Supply) > 0 {
			bg.Supply = bg.Supply.Add(coins...)
		}
	}
	if p.cpcSeq != nil || p.cpcAs == "base" || !p.cpcBal.IsZero() {
		seq := uint64(0)
		if p.cpcSeq != nil {
			seq = *p.cpcSeq
		}
		i, ok := have[string(cpcModuleAcc())]
		if p.cpcAs == "base" {
			ba := authtypes.NewBaseAccount(cpcModuleAcc(), nil, num, seq)
			if ok {
				ba.AccountNumber = accs[i].GetAccountNumber()
				accs[i] = ba
			} else {
				num++
				accs = append(accs, ba)
				have[string(cpcModuleAcc())] = len(accs) - 1
			}
		} else if ok {
			require.NoError(t, accs[i].SetSequence(seq))
		} else {
			_, perms := c.App.AccountKeeper.GetModuleAddressAndPermissions(cpctypes.ModuleName)
			ma := authtypes.NewEmptyModuleAccount(cpctypes.ModuleName, perms...)
			ma.AccountNumber, ma.Sequence = num, seq
			num++
			accs = append(accs, ma)
			have[string(cpcModuleAcc())] = len(accs) - 1
		}
		credit(cpcModuleAcc(), p.cpcBal)
	}
	for _, s := range p.specs {
		addr := sdk.AccAddress(s.Addr.Bytes())
		if _, ok := have[string(addr)]; ok {
			continue
		}
		ba := authtypes.NewBaseAccount(addr, nil, num, 0)
		num++
		var acc authtypes.GenesisAccount = ba
		var err error
		switch s.Kind {
		case "base":
		case "base-huge-seq":
			ba.Sequence = ^uint64(0) - 1
		case "continuous-vesting":
			acc, err = vesttypes.NewContinuousVestingAccount(ba, s.Coins, tPast, tFuture)
		case "continuous-vested":
			acc, err = vesttypes.NewContinuousVestingAccount(ba, s.Coins, tPast-1000, tPast)
		case "delayed-vesting":
			acc, err = vesttypes.NewDelayedVestingAccount(ba, s.Coins, tFuture)
		case "permanent-locked":
			acc, err = vesttypes.NewPermanentLockedAccount(ba, s.Coins)
		case "periodic-vesting":
			acc, err = vesttypes.NewPeriodicVestingAccount(ba, s.Coins, tPast, vesttypes.Periods{{Length: tFuture - tPast, Amount: s.Coins}})
		default:
			t.Fatalf("account kind %q", s.Kind)
		}
		require.NoError(t, err)
		require.NoError(t, acc.Validate(), "spec %v", s)
		accs = append(accs, acc)
		have[string(addr)] = len(accs) - 1
		credit(addr, s.Coins)
	}
	packed, err := authtypes.PackAccounts(accs)
	require.NoError(t, err)
	ag.Accounts = packed
	gs["auth"] = cdc.MustMarshalJSON(&ag)
	bg.Balances = banktypes.SanitizeGenesisBalances(bg.Balances)
	gs["bank"] = cdc.MustMarshalJSON(&bg)
	out, err := json.Marshal(gs)
	require.NoError(t, err)
	return out
}

// patchEvmAccounts appends accounts to the x/evm section of a genesis document.
func patchEvmAccounts(t *testing.T, c *Chain, appState []byte, extra []evmtypes.GenesisAccount) []byte {
	gs := docSections(t, appState)
	var eg evmGenesis
	require.NoError(t, c.S.EncodingConfig.Codec.UnmarshalJSON(gs["evm"], &eg))
	eg.Accounts = append(eg.Accounts, extra...)
	gs["evm"] = c.S.EncodingConfig.Codec.MustMarshalJSON(&eg)
	out, err := json.Marshal(gs)
	require.NoError(t, err)
	return out
}

var vestingKinds = []string{"continuous-vesting", "continuous-vested", "delayed-vesting", "permanent-locked", "periodic-vesting"}

// genEnvPatch: the account environment a genesis document can give the custom modules' addresses.
func genEnvPatch(c0 *Chain, r *Rng, side *Sidecar) *envPatch {
	p := &envPatch{}
	seq := uint64(0)
	if acc := c0.App.AccountKeeper.GetAccount(c0.QueryCtx(), cpcModuleAcc()); acc != nil {
		seq = acc.GetSequence()
	}
	if r.Chance(65) {
		seqs := []uint64{0, 1, 7, 255, 1 << 32, 1 << 63, ^uint64(0) - 1, ^uint64(0)}
		s := seqs[r.Intn(len(seqs))]
		p.cpcSeq, seq = &s, s
		side.Count(fmt.Sprintf("envdoc:cpc module account sequence=%d", s))
		if r.Chance(30) {
			p.cpcBal = sdk.NewCoins(sdk.NewCoin(c0.Denom(), sdkmath.NewInt(int64(1+r.Intn(1000)))))
			if r.Bool() {
				p.cpcBal = p.cpcBal.Add(sdk.NewCoin("utwo", sdkmath.NewInt(9)))
			}
			side.Count("envdoc:cpc module account holds coins")
		}
	} else {
		side.Count("envdoc:cpc module account as the suite leaves it")
	}
	for i, n := 0, r.Intn(4); i < n; i++ {
		var s acctSpec
		switch r.Intn(10) {
		case 0, 1:
			s.Addr, s.Class = cpctypes.CpcBech32FixedAddress, "bech32-precompile"
		case 2, 3:
			s.Addr, s.Class = cpctypes.CpcStakingFixedAddress, "staking-precompile"
		case 4:
			s.Addr, s.Class = nextDynAt(seq), "next-dynamic-precompile"
		case 5:
			s.Addr, s.Class = nextDynAt(seq+1), "next-dynamic-precompile+1"
		case 6, 7, 8:
			w := c0.S.WalletAccounts.Number(1 + r.Intn(5))
			s.Addr, s.Class = w.ComputeContractAddress(c0.Nonce(c0.QueryCtx(), w.GetEthAddress())+uint64(r.Intn(3))), "predicted-contract"
		default:
			s.Addr, s.Class = common.BigToAddress(r.BigBits(160)), "fresh"
		}
		kinds := append([]string{"base", "base", "base-huge-seq"}, vestingKinds...)
		s.Kind = kinds[r.Intn(len(kinds))]
		coinSets := []sdk.Coins{
			sdk.NewCoins(sdk.NewCoin(c0.Denom(), sdkmath.NewInt(1))),
			sdk.NewCoins(sdk.NewCoin(c0.Denom(), sdkmath.NewIntFromBigInt(new(big.Int).Exp(big.NewInt(10), big.NewInt(18), nil)))),
			sdk.NewCoins(sdk.NewCoin("utwo", sdkmath.NewInt(5))),
			sdk.NewCoins(sdk.NewCoin(c0.Denom(), sdkmath.NewInt(3)), sdk.NewCoin("utwo", sdkmath.NewInt(2)), sdk.NewCoin("uthree", sdkmath.NewInt(1))),
		}
		s.Coins = coinSets[r.Intn(len(coinSets))]
		if strings.HasPrefix(s.Kind, "base") && r.Chance(30) {
			s.Coins = sdk.NewCoins() // an account without any balance
		}
		p.specs = append(p.specs, s)
		side.Count("envdoc:account " + s.Kind + " @ " + s.Class)
	}
	return p
}

// ------------------------------------------------------------------ history operations that change the environment

type target struct {
	Addr  common.Address
	Class string
}

func moduleTargets() []target {
	var out []target
	for _, m := range []string{cpctypes.ModuleName, evmtypes.ModuleName, vauthtypes.ModuleName, authtypes.FeeCollectorName, distrtypes.ModuleName, govtypes.ModuleName, stakingtypes.BondedPoolName} {
		out = append(out, target{common.BytesToAddress(authtypes.NewModuleAddress(m)), "module:" + m})
	}
	return out
}

func (h *hist) cpcSeq() uint64 {
	if acc := h.c.App.AccountKeeper.GetAccount(h.c.QueryCtx(), cpcModuleAcc()); acc != nil {
		return acc.GetSequence()
	}
	return 0
}

// target: an address the custom modules care about
func (h *hist) target() target {
	r := h.r
	for {
		switch r.Intn(16) {
		case 0, 1, 2:
			return target{cpctypes.CpcBech32FixedAddress, "bech32-precompile"}
		case 3, 4, 5:
			return target{cpctypes.CpcStakingFixedAddress, "staking-precompile(" + map[bool]string{true: "deployed", false: "not-deployed"}[h.stakingBy != ""] + ")"}
		case 6, 7:
			if len(h.erc20s) > 0 {
				ad := h.erc20s[r.Intn(len(h.erc20s))]
				return target{ad, "erc20-precompile(" + map[bool]string{true: "by-message", false: "by-genesis-flag"}[h.erc20Msg[ad]] + ")"}
			}
		case 8:
			return target{nextDynAt(h.cpcSeq() + uint64(r.Intn(2))), "next-dynamic-precompile"}
		case 9:
			ms := moduleTargets()
			return ms[r.Intn(len(ms))]
		case 10, 11:
			w := h.wallet()
			return target{w.ComputeContractAddress(h.nonce(w) + uint64(r.Intn(3))), "predicted-contract"}
		case 12:
			if len(h.stores) > 0 {
				return target{h.stores[r.Intn(len(h.stores))], "contract"}
			}
		case 13:
			if len(h.codeless) > 0 {
				return target{h.codeless[r.Intn(len(h.codeless))], "code-less-storage-owner"}
			}
		case 14:
			if len(h.dead) > 0 {
				return target{h.dead[r.Intn(len(h.dead))], "destroyed-contract"}
			}
		default:
			return target{common.BigToAddress(r.BigBits(160)), "fresh"}
		}
	}
}

func (h *hist) sendCoins() (sdk.Coins, string) {
	one := func(d string, n int64) sdk.Coin { return sdk.NewCoin(d, sdkmath.NewInt(n)) }
	switch h.r.Intn(6) {
	case 0:
		return sdk.NewCoins(one(h.c.Denom(), 1)), "evm-denom"
	case 1:
		return sdk.NewCoins(sdk.NewCoin(h.c.Denom(), sdkmath.NewIntFromBigInt(new(big.Int).Exp(big.NewInt(10), big.NewInt(18), nil)))), "evm-denom"
	case 2:
		return sdk.NewCoins(one("utwo", 5)), "utwo"
	case 3:
		return sdk.NewCoins(one("uthree", 3)), "uthree"
	case 4:
		return sdk.NewCoins(one("utwo", 1), one("uthree", 1)), "utwo+uthree"
	default:
		return sdk.NewCoins(one(h.c.Denom(), 1000), one("utwo", 2), one("uthree", 4)), "all-denominations"
	}
}

func (h *hist) opBankSend(a *itutiltypes.TestAccount) {
	tg := h.target()
	coins, cls := h.sendCoins()
	h.touched = append(h.touched, tg)
	h.cosmos(a, func(ok bool) {
		h.side.Count(fmt.Sprintf("env:bank-send %s -> %s: %s", cls, strings.SplitN(tg.Class, "(", 2)[0], map[bool]string{true: "ok", false: "refused"}[ok]))
	}, banktypes.NewMsgSend(a.GetCosmosAddress(), sdk.AccAddress(tg.Addr.Bytes()), coins))
}

func (h *hist) opEvmValue(a *itutiltypes.TestAccount) {
	tg := h.target()
	h.touched = append(h.touched, tg)
	vals := []*big.Int{big.NewInt(1), big.NewInt(7), new(big.Int).Exp(big.NewInt(10), big.NewInt(15), nil)}
	to := tg.Addr
	raw, _, err := h.c.EthTxBytes(a, &ethtypes.LegacyTx{Nonce: h.nonce(a), GasPrice: h.price(), Gas: 100000, To: &to, Value: vals[h.r.Intn(len(vals))]})
	require.NoError(h.t, err)
	h.pending[a.GetEthAddress()]++
	h.txs = append(h.txs, raw)
	h.after = append(h.after, func(ok bool) {
		h.side.Count(fmt.Sprintf("env:evm-value -> %s: %s", strings.SplitN(tg.Class, "(", 2)[0], map[bool]string{true: "ok", false: "failed"}[ok]))
	})
}

// edgeData: calldata for the Store contract with slot keys at the ends of the key space and full-width values
func edgeData(r *Rng, n int) []byte {
	max := Bsub(Pow2(256), 1)
	keys := []*big.Int{big.NewInt(0), max, Bsub(Pow2(256), 2), Pow2(255), Bsub(Pow2(255), 1), Pow2(160), Bsub(Pow2(160), 1), Pow2(64), Pow2(8), big.NewInt(255), big.NewInt(256)}
	vals := []*big.Int{big.NewInt(0), big.NewInt(1), max, Pow2(255), Pow2(248), big.NewInt(255)}
	var d []byte
	for i := 0; i < n; i++ {
		d = append(d, common.BigToHash(keys[r.Intn(len(keys))]).Bytes()...)
		d = append(d, common.BigToHash(vals[r.Intn(len(vals))]).Bytes()...)
	}
	return d
}

// minedDeployer: a fresh key whose FIRST contract address has a boundary byte (keys ending / starting 0x00 / 0xff sit
// at the ends of the per-address key ranges the export iterates)
func (h *hist) minedDeployer() (*itutiltypes.TestAccount, string) {
	pred := h.r.Intn(4)
	name := []string{"last-byte-ff", "last-byte-00", "first-byte-ff", "first-byte-00"}[pred]
	for n := int(h.r.U64()%1000000) * 4096; ; n++ {
		acct := h.c.NewKeyAccount(n)
		ad := crypto.CreateAddress(acct.GetEthAddress(), 0)
		if (pred == 0 && ad[19] == 0xff) || (pred == 1 && ad[19] == 0) || (pred == 2 && ad[0] == 0xff) || (pred == 3 && ad[0] == 0) {
			return acct, name
		}
	}
}

// ------------------------------------------------------------------ oracle: the environment survives the round trip

type acctView struct{ auth, bank string }

func viewAccount(app *chainapp.Evermint, ctx sdk.Context, a common.Address) acctView {
	acc := app.AccountKeeper.GetAccount(ctx, a.Bytes())
	v := acctView{auth: "(no account)", bank: app.BankKeeper.GetAllBalances(ctx, a.Bytes()).String()}
	if acc != nil {
		b, err := app.AppCodec().MarshalInterfaceJSON(acc)
		if err != nil {
			v.auth = "!" + err.Error()
		} else {
			v.auth = canonJSON(b)
		}
	}
	return v
}

// docViews: the same view taken from the auth / bank sections of a genesis document
func docViews(t *testing.T, c *Chain, appState []byte, addrs []common.Address) map[common.Address]acctView {
	gs := docSections(t, appState)
	_, accs := docAccounts(t, c, gs)
	var bg banktypes.GenesisState
	require.NoError(t, c.S.EncodingConfig.Codec.UnmarshalJSON(gs["bank"], &bg))
	out := map[common.Address]acctView{}
	for _, a := range addrs {
		v := acctView{auth: "(no account)", bank: sdk.NewCoins().String()}
		for _, acc := range accs {
			if string(acc.GetAddress()) == string(a.Bytes()) {
				b, err := c.S.EncodingConfig.Codec.MarshalInterfaceJSON(acc)
				require.NoError(t, err)
				v.auth = canonJSON(b)
			}
		}
		for _, b := range bg.Balances {
			if b.Address == sdk.AccAddress(a.Bytes()).String() {
				v.bank = b.Coins.String()
			}
		}
		out[a] = v
	}
	return out
}

func interestAddrs(h *hist, sA *cState, p *envPatch) []target {
	var out []target
	seen := map[common.Address]bool{}
	add := func(a common.Address, cls string) {
		if !seen[a] {
			seen[a] = true
			out = append(out, target{a, cls})
		}
	}
	add(cpctypes.CpcBech32FixedAddress, "bech32-precompile")
	add(cpctypes.CpcStakingFixedAddress, "staking-precompile")
	for _, m := range sA.Metas {
		add(common.BigToAddress(m.Addr), "precompile")
	}
	add(nextDynAt(h.cpcSeq()), "next-dynamic-precompile")
	for _, m := range []string{cpctypes.ModuleName, evmtypes.ModuleName, vauthtypes.ModuleName} {
		add(common.BytesToAddress(authtypes.NewModuleAddress(m)), "module:"+m)
	}
	for _, e := range sA.CodeHash {
		add(common.BigToAddress(e.K), "contract")
	}
	slot := Pow2(256)
	for _, e := range sA.Storage {
		add(common.BigToAddress(new(big.Int).Div(e.K, slot)), "storage-owner")
	}
	for _, tg := range h.touched {
		if !strings.HasPrefix(tg.Class, "module:") {
			add(tg.Addr, tg.Class)
		}
	}
	if p != nil {
		for _, s := range p.specs {
			add(s.Addr, s.Class)
		}
	}
	sort.Slice(out, func(i, j int) bool { return strings.Compare(out[i].Addr.Hex(), out[j].Addr.Hex()) < 0 })
	return out
}
