package query

// stepSameSender (C08, "tracing predicts execution"): ONE block with several transactions FROM THE SAME SENDER
// (consecutive nonces), some of which fail: in the EVM (REVERT, INVALID, out of gas, failing contract creation) or with a
// core error of the state transition (gas limit below the intrinsic gas: admitted by the deliver-mode ante handler, which
// consumes the nonce and the fee; refused by the state transition).  Transactions of a second sender may sit in between.
// Then EVERY transaction of the block is traced (Query/TraceTx with its real predecessors, exactly the request
// rpc/backend/tracing.go builds; Query/TraceBlock with the whole block) against the state before the block, and the
// trace (failed flag, return value, gas) must be what the block did.
//
// Oracle signatures (suffix = what the same sender did earlier in the block):
//   C08/query/prediction/TraceTx+predecessors/<class>   C08/query/prediction/TraceBlock/<class>
//   class = after-core-error-predecessor | after-core-error-predecessor-of-any-sender-with-later-tx |
//           after-vm-failed-predecessor | after-successful-predecessors | first-of-sender
//   (the second: another sender's core-error transaction followed by an executed one of that sender precedes the traced
//   transaction, so the replay has already lost an executed transaction; decided from the block prefix only)

import (
	"encoding/json"
	"fmt"
	"strings"

	"github.com/stretchr/testify/require"

	evmtypes "github.com/EscanBE/evermint/v12/x/evm/types"

	. "verifharness/hx"
)

type ssTx struct {
	si    int
	kind  string // ok | revert | invalid | oog | create-fail | core-intrinsic
	spec  callSpec
	gas   uint64
	nonce uint64
}

// failingCall: a call that is executed (nonce consumed, fee charged) and fails.
func (w *world) failingCall(r *Rng, kind string) (callSpec, uint64) {
	switch kind {
	case "revert":
		switch r.Intn(3) {
		case 0:
			return callSpec{name: "fwd>counter/revert", to: p(w.fwd), data: FwdInput(FwdRevert, w.counter, nil), predictable: true}, 300_000
		case 1:
			return callSpec{name: "fwd>erc20.transfer/revert", to: p(w.fwd), data: FwdInput(FwdRevert, w.erc20, abi2(selTransfer, w.rcpt, Bi(1234))), predictable: true}, 400_000
		default:
			// the 63/64 wrapper reverts when its inner call ran out of gas
			return callSpec{name: "outer63/64>sstore-worker/too-little-gas", to: p(w.outer), data: word(uint64(w.c.Height)<<24 | uint64(r.Intn(1<<16))<<4), predictable: true}, 90_000
		}
	case "invalid":
		if r.Bool() {
			return callSpec{name: "fwd>counter/invalid", to: p(w.fwd), data: FwdInput(FwdInvalid, w.counter, nil), predictable: true}, 120_000
		}
		return callSpec{name: "fwd>creator/invalid", to: p(w.fwd), data: FwdInput(FwdInvalid, w.creator, nil), predictable: true}, 250_000
	case "oog":
		if r.Bool() {
			return callSpec{name: "sstore-worker/out-of-gas", to: p(w.worker), data: word(uint64(w.c.Height)<<24 | uint64(r.Intn(1<<16))<<4), predictable: true}, 60_000
		}
		return callSpec{name: "fwd>counter/out-of-gas", to: p(w.fwd), data: FwdInput(FwdReturn, w.counter, nil), predictable: true}, 40_000
	case "create-fail":
		return callSpec{name: "create-tx/failing-init", data: []byte{0xfe}, predictable: true}, 100_000
	case "core-funds":
		// more value than the sender owns: the deliver-mode ante handler only looks at the fee; core.ErrInsufficientFundsForTransfer
		return callSpec{name: "value-transfer/more-than-balance", to: p(w.nobody), value: Pow2(120)}, 50_000
	default: // core-intrinsic: 21000 < intrinsic gas of a call with data
		return callSpec{name: "counter/gas-below-intrinsic", to: p(w.counter), data: []byte{1, 2, 3, 4}, predictable: true}, 21_000
	}
}

func (w *world) stepSameSender(r *Rng) stepOut {
	w.freshRound()
	order := perm4(r)
	main, other := order[0], order[1]
	k := 2 + r.Intn(4) // transactions of the main sender
	failKinds := []string{"revert", "revert", "invalid", "oog", "oog", "create-fail", "core-intrinsic", "core-funds"}
	createOn := w.c.App.EvmKeeper.GetParams(w.c.QueryCtx()).EnableCreate
	var plan []ssTx
	nonces := map[int]uint64{}
	q := w.c.QueryCtx()
	for _, si := range []int{main, other} {
		nonces[si] = w.c.Nonce(q, w.senders[si].GetEthAddress())
	}
	add := func(si int, kind string) {
		var s callSpec
		gas := uint64(900_000)
		if kind == "create-fail" && !createOn {
			kind = "revert" // contract creation is switched off: the ante handler would refuse the transaction
		}
		if kind == "ok" {
			s = w.genPredictable(r)
			if r.Chance(60) {
				s = w.sharedStateCall(r, len(plan))
			}
			for s.to == nil && !createOn {
				s = w.sharedStateCall(r, len(plan))
			}
		} else {
			s, gas = w.failingCall(r, kind)
		}
		plan = append(plan, ssTx{si: si, kind: kind, spec: s, gas: gas, nonce: nonces[si]})
		nonces[si]++
	}
	// at least one failing transaction of the main sender that is not its last one
	failAt := r.Intn(k - 1)
	for i := 0; i < k; i++ {
		switch {
		case i == failAt, r.Chance(30):
			add(main, failKinds[r.Intn(len(failKinds))])
		default:
			add(main, "ok")
		}
		if r.Chance(25) {
			if r.Chance(35) {
				add(other, failKinds[r.Intn(len(failKinds))])
			} else {
				add(other, "ok")
			}
		}
	}
	var txs [][]byte
	var msgs []*evmtypes.MsgEthereumTx
	var specs []callSpec
	var names []string
	base := map[int]uint64{main: w.c.Nonce(q, w.senders[main].GetEthAddress()), other: w.c.Nonce(q, w.senders[other].GetEthAddress())}
	for _, x := range plan {
		bz, msg := w.signedTx(x.spec, x.si, x.gas, x.nonce-base[x.si])
		txs, msgs, specs = append(txs, bz), append(msgs, msg), append(specs, x.spec)
		names = append(names, fmt.Sprintf("%d:%s[%s]", x.si, x.spec.name, x.kind))
	}
	cs := w.desc("samesender", "txs", names)
	results := w.runBlock(txs, msgs, specs)
	b := w.lastBlock

	// what the block did, per transaction.  A transaction with a non-zero code that carries events got through the
	// ante handler (nonce consumed, fee charged) and was refused by the state transition (core error); one without
	// events was refused by the ante handler (nothing happened).  Cross-checked with the nonces the block consumed.
	// class = what the same sender did before in this block
	class := make([]string, len(plan))
	worst := map[int]int{} // 0 none yet, 1 successful, 2 vm-failed, 3 core error
	outcomes := make([]string, len(plan))
	bclass := make([]string, len(plan))
	consumed := map[int]uint64{}
	skeletonOK := true
	diverged := false // the replay of the block prefix has lost an executed transaction (behind a core-error one of its sender)
	for i, x := range plan {
		class[i] = []string{"first-of-sender", "after-successful-predecessors", "after-vm-failed-predecessor", "after-core-error-predecessor"}[worst[x.si]]
		if worst[x.si] < 3 && diverged {
			// Some OTHER sender has, earlier in the block, a transaction refused by the state transition followed by one
			// the block executed: the replay skipped the first, answered "nonce too high" to the second and skipped it
			// too, so the state this transaction is traced on already differs from the block's (known finding).
			// Decided from the block prefix alone -- never from how the trace came out.
			class[i] = "after-core-error-predecessor-of-any-sender-with-later-tx"
		}
		lvl := 1
		switch {
		case results[i].Code != 0 && len(results[i].Events) == 0:
			lvl, outcomes[i], bclass[i] = 0, "ante-rejected", "BAnte"
		case results[i].Code != 0:
			lvl, outcomes[i], bclass[i] = 3, "core-error", "BCore"
		case results[i].VmError != "":
			lvl, outcomes[i], bclass[i] = 2, "vm:"+vmClass(results[i].VmError), "(BExec true)"
		default:
			outcomes[i], bclass[i] = "ok", "(BExec false)"
		}
		if lvl > 0 {
			consumed[x.si]++
		}
		if results[i].Code == 0 && worst[x.si] == 3 {
			diverged = true
		}
		if lvl > worst[x.si] {
			worst[x.si] = lvl
		}
		w.side.Count("samesender:block:" + x.kind + "->" + outcomes[i])
	}
	q2 := w.c.QueryCtx()
	for _, si := range []int{main, other} {
		got := w.c.Nonce(q2, w.senders[si].GetEthAddress())
		if base[si]+consumed[si] != got {
			// the events did not tell refused-by-ante from refused-by-the-state-transition: no model case for this block
			w.side.Count("samesender:block:classification-inconsistent-with-nonces")
			skeletonOK = false
		}
		if got != nonces[si] {
			w.side.Count("samesender:block:with-ante-rejected-tx")
		}
	}

	// TraceBlock
	breq := w.mustMarshal(w.traceBlockReq(b, nil))
	ab := w.twice(r, "TraceBlock", cs, func() answer { return w.query(pathEvm+"TraceBlock", breq, b.height-1) })
	agree := 0
	var obsBlock []string
	if ab.code != 0 {
		w.side.Hit("C08/query/prediction/TraceBlock/whole-block", fmt.Sprintf("tracing a block that was executed failed (code %d)", ab.code), cs)
	} else {
		var resp evmtypes.QueryTraceBlockResponse
		require.NoError(w.t, resp.Unmarshal(ab.value))
		var trs []struct {
			Result *structTrace `json:"result"`
			Error  string       `json:"error"`
		}
		require.NoError(w.t, json.Unmarshal(resp.Data, &trs))
		if len(trs) != len(results) {
			w.side.Hit("C08/query/prediction/TraceBlock/whole-block", fmt.Sprintf("traced %d transactions, block had %d", len(trs), len(results)), cs)
		}
		for i := range trs {
			if i >= len(results) {
				break
			}
			obsBlock = append(obsBlock, CqBool(trs[i].Result != nil))
			if results[i].Code != 0 {
				w.side.Count(fmt.Sprintf("samesender:traceblock:not-executed-tx:traced=%v", trs[i].Result != nil))
				continue
			}
			got := fromEthResult(results[i])
			w.side.Count("samesender:traceblock:" + class[i])
			if trs[i].Result == nil {
				w.side.Hit("C08/query/prediction/TraceBlock/"+class[i], fmt.Sprintf("tx %d (%s) executed in the block (%s) but tracing it failed: %s", i, names[i], outcomes[i], firstLine(trs[i].Error)), cs)
			} else if !trs[i].Result.agrees(got) {
				w.side.Hit("C08/query/prediction/TraceBlock/"+class[i], fmt.Sprintf("tx %d (%s): trace gas=%d failed=%v ret=%s, block %v", i, names[i], trs[i].Result.Gas, trs[i].Result.Failed, trs[i].Result.ReturnValue, got), cs)
			} else {
				agree++
			}
		}
	}

	// TraceTx of every transaction of the block, given its real predecessors
	var obsTx []string
	tw := r.Intn(len(plan)) // this one twice, with another operation in between
	for i := range plan {
		treq := w.mustMarshal(w.traceTxReq(msgs[i], msgs[:i], nil, b.height))
		var at answer
		if i == tw {
			at = w.twice(r, "TraceTx+predecessors", cs, func() answer { return w.query(pathEvm+"TraceTx", treq, b.height-1) })
		} else {
			before := w.observe()
			at = w.query(pathEvm+"TraceTx", treq, b.height-1)
			w.mustBePure(before, "TraceTx+predecessors", "TraceTx with predecessors", cs)
		}
		obsTx = append(obsTx, CqBool(at.code == 0))
		if results[i].Code != 0 {
			w.side.Count(fmt.Sprintf("samesender:tracetx:not-executed-tx:traced=%v", at.code == 0))
			continue
		}
		w.side.Count("samesender:tracetx:" + class[i])
		if at.code != 0 {
			w.side.Hit("C08/query/prediction/TraceTx+predecessors/"+class[i], fmt.Sprintf("tx %d (%s) executed in the block (%s) but tracing it with its %d predecessors failed (code %d)", i, names[i], outcomes[i], i, at.code), cs)
			continue
		}
		var resp evmtypes.QueryTraceTxResponse
		var tr structTrace
		require.NoError(w.t, resp.Unmarshal(at.value))
		require.NoError(w.t, json.Unmarshal(resp.Data, &tr))
		if got := fromEthResult(results[i]); !tr.agrees(got) {
			w.side.Hit("C08/query/prediction/TraceTx+predecessors/"+class[i], fmt.Sprintf("tx %d (%s): trace gas=%d failed=%v ret=%s, block %v", i, names[i], tr.Gas, tr.Failed, tr.ReturnValue, got), cs)
		} else {
			agree++
		}
	}
	// Coq case: the nonce skeleton of the block (sender, nonce, what the block did) and, per transaction, whether
	// TraceTx with its predecessors / TraceBlock produced a trace
	var btxs []string
	for i, x := range plan {
		btxs = append(btxs, fmt.Sprintf("mkBtx %s %s %s", CqN(uint64(x.si)), CqN(x.nonce), bclass[i]))
	}
	var nm []string
	for _, si := range []int{main, other} {
		nm = append(nm, fmt.Sprintf("(%s, %s)", CqN(uint64(si)), CqN(base[si])))
	}
	coq := ""
	if skeletonOK && len(obsBlock) == len(plan) && len(obsTx) == len(plan) {
		coq = fmt.Sprintf("QTrace %s %s %s %s", CqList(nm), CqList(btxs), CqList(obsTx), CqList(obsBlock))
	}
	return stepOut{kind: "samesender", canon: fmt.Sprintf("samesender|%v|%v|%d", names, outcomes, agree), nontrivial: agree > 0, desc: cs, coq: coq}
}

func vmClass(e string) string {
	switch {
	case strings.Contains(e, "revert"):
		return "revert"
	case strings.Contains(e, "out of gas"):
		return "oog"
	case strings.Contains(e, "invalid opcode"):
		return "invalid"
	default:
		return "other"
	}
}

func firstLine(s string) string {
	if i := strings.IndexByte(s, '\n'); i >= 0 {
		s = s[:i]
	}
	if len(s) > 160 {
		s = s[:160]
	}
	return s
}
