package query

// Driver `query` (C08): see steps_test.go for the oracles.  Coq cases (Corr/CorrQuery.v):
//   QEst  every EstimateGas step: the model's estimate_gas on the measured executable vs the real answer;
//   QGas  the gas limit an eth_call runs with (request gas vs node cap), read back from a GAS-reporting contract;
//   QBin  evmtypes.BinSearch driven directly with synthetic executables: probes in order and result.

import (
	"errors"
	"fmt"
	"sort"
	"testing"

	evmtypes "github.com/EscanBE/evermint/v12/x/evm/types"

	. "verifharness/hx"
)

func TestDriverQuery(t *testing.T) {
	dir := OutDir(t)
	seed := EnvSeed()
	n := EnvInt("VERIF_N", 200)
	rng := NewRng(seed)
	side := NewSidecar("query", seed, "nontrivial = the request was answered (query ok / estimate not rejected for its gas cap / a CheckTx accepted / block with transactions / history entry older than the latest height); distinct by (kind, call, data, gas parameters, outcome)")
	cases := NewCases(dir, "From Evm Require Import CacheStack Query CorrBase CorrQuery.", "query_mismatches")
	idx := 0
	emit := func(o stepOut) {
		coq := o.coq
		if coq == "" {
			// oracle-only step: a trivially consistent search so that case numbers line up with the sidecar
			coq = "QBin 5%N 6%N [] ExOk [] (BHi 6%N)"
		}
		cases.Add(coq)
		side.Case(idx, o.canon, o.nontrivial, o.desc)
		side.Count("step:" + o.kind)
		idx++
	}

	perWorld := 50
	worlds := (n + perWorld - 1) / perWorld
	for wi := 0; wi < worlds; wi++ {
		r := rng.Fork(uint64(wi))
		w := newWorld(t, side, r, wi)
		steps := perWorld
		if wi == worlds-1 {
			steps = n - wi*perWorld
		}
		for i := 0; i < steps; i++ {
			sr := r.Fork(uint64(1000 + i))
			var o stepOut
			switch k := sr.Intn(100); {
			case k < 13:
				o = w.stepEthCall(sr)
			case k < 28:
				o = w.stepEstimate(sr)
			case k < 34:
				o = w.stepTxArgs(sr)
			case k < 43:
				o = w.stepTrace(sr)
			case k < 50:
				o = w.stepReplay(sr)
			case k < 57:
				o = w.stepSameSender(sr)
			case k < 61:
				o = w.stepMempoolSeq(sr)
			case k < 69:
				o = w.stepCheckTx(sr)
			case k < 76:
				o = w.stepSimulate(sr)
			case k < 81:
				o = w.stepGrpc(sr)
			case k < 84:
				o = w.stepGasCap(sr)
			case k < 91:
				o = w.stepHistory(sr)
			default:
				o = w.stepBlock(sr)
			}
			emit(o)
		}
		// the world ends with a block: whatever the last queries did must not show up in it
		w.runBlock(nil, nil, nil)
	}

	// evmtypes.BinSearch driven directly
	br := rng.Fork(777777)
	for i := 0; i < 2*n; i++ {
		emit(binCase(br.Fork(uint64(i)), side))
	}

	cases.Write(t, 400)
	side.Write(t, dir)
}

var errBail = errors.New("bail")

func binCase(r *Rng, side *Sidecar) stepOut {
	classes := []string{"ExOk", "ExOOG", "ExRevert", "ExVmOther", "ExIntrinsic", "ExErr"}
	pickClass := func(errPct int) string {
		if r.Chance(errPct) {
			return "ExErr"
		}
		return classes[r.Intn(5)]
	}
	var lo, hi uint64
	shape := r.Intn(10)
	switch {
	case shape < 5:
		lo = 20_999
		hi = []uint64{21_000, 21_001, 25_000_000, 40_000_000, 100_000, 1 << 40, 1 << 62}[r.Intn(7)]
	case shape < 7:
		lo = r.U64() >> uint(1+r.Intn(63))
		hi = lo + (r.U64() >> uint(2+r.Intn(62)))
		if hi < lo {
			hi = lo
		}
		if hi > 1<<62 {
			hi = 1 << 62
		}
	case shape == 7:
		hi = uint64(r.Intn(5))
		lo = uint64(r.Intn(5))
	default:
		// bounds whose sum exceeds 2^64: the midpoint must not wrap around (fixed in /repo 81e4910), whatever the executable answers
		lo = []uint64{20_999, 20_999, 1 << 63, (1 << 63) + 12345, ^uint64(0) - 1000}[r.Intn(5)]
		hi = ^uint64(0) - uint64(r.Intn(3))
	}
	// step function of gas
	var bps []uint64
	nb := r.Intn(6)
	for j := 0; j < nb; j++ {
		switch {
		case hi > lo && r.Chance(70):
			bps = append(bps, lo+r.U64()%(hi-lo+1))
		default:
			bps = append(bps, r.U64()>>uint(r.Intn(64)))
		}
	}
	sort.Slice(bps, func(i, j int) bool { return bps[i] < bps[j] })
	errPct := 4
	d := pickClass(errPct)
	var outs []string
	for range bps {
		outs = append(outs, pickClass(errPct))
	}
	ex := func(g uint64) string {
		c := d
		for j, b := range bps {
			if b <= g {
				c = outs[j]
			}
		}
		return c
	}
	var probes []uint64
	got, err := evmtypes.BinSearch(lo, hi, func(g uint64) (bool, *evmtypes.MsgEthereumTxResponse, error) {
		probes = append(probes, g)
		if len(probes) > 150 {
			return true, nil, errBail
		}
		switch c := ex(g); c {
		case "ExOk":
			return false, &evmtypes.MsgEthereumTxResponse{}, nil
		case "ExErr":
			return true, nil, errBail
		case "ExIntrinsic":
			return true, nil, nil
		default:
			return true, &evmtypes.MsgEthereumTxResponse{VmError: c}, nil
		}
	})
	// the search of a uint64 interval needs at most 64 probes, each strictly inside the interval still open
	outside := false
	for _, g := range probes {
		if lo+1 < hi && (g <= lo || g >= hi) {
			outside = true
		}
	}
	if len(probes) > 150 || outside {
		cs := map[string]interface{}{"kind": "binsearch", "lo": lo, "hi": hi, "breakpoints": bps, "outcomes": outs, "default": d, "first_probes": probes[:min(len(probes), 12)]}
		side.Hit("C08/query/binsearch/midpoint-wraps", fmt.Sprintf("BinSearch(%d, %d): %d probes without an answer or a probe outside the bounds: the midpoint wrapped around uint64; an EstimateGas with such an allowance never returns", lo, hi, len(probes)), cs)
		if len(probes) > 150 {
			return stepOut{kind: "binsearch-skipped", canon: fmt.Sprintf("binskip|%d|%d", lo, hi), desc: cs}
		}
	}
	obs := "BErr"
	if err == nil {
		obs = "(BHi " + CqN(got) + ")"
	}
	var steps, ps []string
	for j, b := range bps {
		steps = append(steps, fmt.Sprintf("(%s, %s)", CqN(b), outs[j]))
	}
	for _, g := range probes {
		ps = append(ps, CqN(g))
	}
	side.Count(fmt.Sprintf("binsearch:probes<=%d:err=%v", (len(probes)+15)/16*16, err != nil))
	if shape >= 8 {
		side.Count("binsearch:bounds-sum-above-2^64")
	}
	return stepOut{kind: "binsearch", canon: fmt.Sprintf("bin|%d|%d|%v|%v|%s|%v", lo, hi, bps, outs, d, probes), nontrivial: len(probes) > 0,
		desc: map[string]interface{}{"kind": "binsearch", "lo": lo, "hi": hi, "breakpoints": bps, "outcomes": outs, "default": d, "probes": probes, "result": obs},
		coq:  fmt.Sprintf("QBin %s %s %s %s %s %s", CqN(lo), CqN(hi), CqList(steps), d, CqList(ps), obs)}
}
