package query

// World of the `query` driver (C08): two identical in-memory chains.  Chain `c` receives every query /
// simulation / CheckTx the driver generates; the twin `tw` executes the same blocks and nothing else.  After
// every block the application hashes must be identical: whatever the queries did, it did not reach committed
// state or the state blocks are executed on.

import (
	"bytes"
	"context"
	"crypto/sha256"
	"encoding/hex"
	"encoding/json"
	"fmt"
	"math/big"
	"sort"
	"testing"
	"time"

	abci "github.com/cometbft/cometbft/abci/types"
	sdk "github.com/cosmos/cosmos-sdk/types"
	"github.com/ethereum/go-ethereum/common"
	"github.com/ethereum/go-ethereum/common/hexutil"
	ethtypes "github.com/ethereum/go-ethereum/core/types"
	"github.com/stretchr/testify/require"

	itutiltypes "github.com/EscanBE/evermint/v12/integration_test_util/types"
	cpctypes "github.com/EscanBE/evermint/v12/x/cpc/types"
	evmtypes "github.com/EscanBE/evermint/v12/x/evm/types"
	evmvm "github.com/EscanBE/evermint/v12/x/evm/vm"

	. "verifharness/hx"
)

const (
	pathEvm       = "/ethermint.evm.v1.Query/"
	pathFeemarket = "/ethermint.feemarket.v1.Query/"
	pathCpc       = "/evermint.cpc.v1.Query/"
	pathVauth     = "/evermint.vauth.v1.Query/"
)

type world struct {
	t    *testing.T
	c    *Chain // queried chain
	tw   *Chain // twin: blocks only
	side *Sidecar
	r    *Rng
	wi   int

	fwd, counter, gasA, gasB, worker, outer, refunder, sd, creator, ctxr, balr, gasr common.Address
	erc20, staking, rcpt, nobody                                                common.Address
	val                                                                         sdk.ValAddress
	senders                                                                     []*itutiltypes.TestAccount
	pending                                                                     map[int]bool // senders with a CheckTx'd transaction since the last commit
	hist                                                                        []histEntry
	lastBlock                                                                   *blockRec
}

type blockRec struct {
	height   int64
	time     time.Time
	msgs     []*evmtypes.MsgEthereumTx
	results  []EthResult
	specs    []callSpec
	prevHash string
}

type histEntry struct {
	kind   string
	path   string
	data   []byte
	height int64
	answer string
}

func addr(s string) common.Address { return common.HexToAddress(s) }

func (w *world) both(f func(c *Chain)) { f(w.c); f(w.tw) }

func newWorld(t *testing.T, side *Sidecar, r *Rng, wi int) *world {
	w := newWorldNoCheck(t, side, r, wi)
	require.Equal(t, twinDigest(w.c), twinDigest(w.tw), "twin chains differ after set-up")
	return w
}

// twinDigest hashes every key/value of every store except the staking module's historical-info entries
// (prefix 0x50): they hold block headers, and the suite's genesis blocks carry wall-clock times, which then
// propagate through the previous-app-hash field of every later header.  Everything else must be byte-identical
// between the chain that is queried and the chain that only executes the blocks.
func twinDigest(c *Chain) string {
	ctx := c.Ctx()
	keys := c.App.GetKVStoreKey()
	names := make([]string, 0, len(keys))
	for n := range keys {
		names = append(names, n)
	}
	sort.Strings(names)
	h := sha256.New()
	for _, n := range names {
		it := ctx.MultiStore().GetKVStore(keys[n]).Iterator(nil, nil)
		for ; it.Valid(); it.Next() {
			k, v := it.Key(), it.Value()
			if n == "staking" && len(k) > 0 && k[0] == 0x50 {
				continue
			}
			fmt.Fprintf(h, "%s/%d/%x/%d/%x;", n, len(k), k, len(v), v)
		}
		it.Close()
	}
	return hex.EncodeToString(h.Sum(nil))
}

func twinDiff(a, b *Chain) []string {
	var out []string
	keys := a.App.GetKVStoreKey()
	for n := range keys {
		da, db := map[string]string{}, map[string]string{}
		for _, x := range []struct {
			c *Chain
			m map[string]string
		}{{a, da}, {b, db}} {
			it := x.c.Ctx().MultiStore().GetKVStore(x.c.App.GetKVStoreKey()[n]).Iterator(nil, nil)
			for ; it.Valid(); it.Next() {
				if n == "staking" && it.Key()[0] == 0x50 {
					continue
				}
				x.m[string(it.Key())] = string(it.Value())
			}
			it.Close()
		}
		for k, v := range da {
			if db[k] != v {
				out = append(out, fmt.Sprintf("%s/%x", n, k))
			}
		}
		for k := range db {
			if _, ok := da[k]; !ok {
				out = append(out, fmt.Sprintf("%s/%x", n, k))
			}
		}
	}
	sort.Strings(out)
	if len(out) > 8 {
		out = out[:8]
	}
	return out
}

func newWorldNoCheck(t *testing.T, side *Sidecar, r *Rng, wi int) *world {
	w := &world{t: t, side: side, r: r, wi: wi, pending: map[int]bool{}}
	w.c = NewChain(t, time.Time{})
	w.tw = NewChain(t, time.Time{})
	w.fwd = addr("0x1000000000000000000000000000000000000f01")
	w.counter = addr("0x1000000000000000000000000000000000000f02")
	w.gasA = addr("0x1000000000000000000000000000000000000f03")
	w.gasB = addr("0x1000000000000000000000000000000000000f04")
	w.worker = addr("0x1000000000000000000000000000000000000f05")
	w.outer = addr("0x1000000000000000000000000000000000000f06")
	w.refunder = addr("0x1000000000000000000000000000000000000f07")
	w.sd = addr("0x1000000000000000000000000000000000000f08")
	w.creator = addr("0x1000000000000000000000000000000000000f09")
	w.ctxr = addr("0x1000000000000000000000000000000000000f0a")
	w.balr = addr("0x1000000000000000000000000000000000000f0b")
	w.gasr = addr("0x1000000000000000000000000000000000000f0c")
	w.rcpt = addr("0x1000000000000000000000000000000000000b01")
	w.nobody = addr("0x1000000000000000000000000000000000000b02")
	w.staking = cpctypes.CpcStakingFixedAddress
	w.val = w.c.S.ValidatorAccounts.Number(1).GetValidatorAddress()
	for i := 1; i <= 5; i++ {
		w.senders = append(w.senders, w.c.S.WalletAccounts.Number(i))
	}
	w.both(func(c *Chain) {
		w.erc20 = c.DeployCpcs(c.Denom())[0]
		c.RepairConsAddrIndex()
		w.placeContracts(c)
		c.RunBlock(nil)
	})
	return w
}

func (w *world) placeContracts(c *Chain) {
	ctx := c.Ctx()
	sdb := evmvm.NewStateDB(ctx, common.Address{}, c.App.EvmKeeper, c.App.AccountKeeper, c.App.BankKeeper)
	put := func(a common.Address, code []byte, bal *big.Int) {
		sdb.SetCode(a, code)
		sdb.SetNonce(a, 1)
		if bal != nil {
			sdb.AddBalance(a, bal)
		}
	}
	e18 := new(big.Int).Exp(Bi(10), Bi(18), nil)
	put(w.fwd, BuildForwarder(), new(big.Int).Mul(e18, Bi(100)))
	put(w.counter, BuildCounter(), nil)
	put(w.gasA, BuildGasBranch(30_000, 60_000), nil)
	put(w.gasB, BuildGasBranch(100_000, 2_000_000), nil)
	put(w.worker, BuildSstoreWorker(6), nil)
	put(w.outer, BuildOuter6364(w.worker), nil)
	put(w.refunder, BuildRefunder(), nil)
	sdb.SetState(w.refunder, common.BigToHash(Bi(7)), common.BigToHash(Bi(1)))
	put(w.sd, BuildSelfDestruct(w.rcpt), e18)
	put(w.creator, BuildCreator(InitCode(BuildCounter())), nil)
	put(w.ctxr, buildCtxReader(), nil)
	put(w.balr, buildCallerBalance(), nil)
	put(w.gasr, buildGasReporter(), nil)
	require.NoError(w.t, sdb.CommitMultiStore(false))
}

// replaceSelfDestruct puts the self-destructing contract back (between blocks, on both chains).
func (w *world) replaceSelfDestruct() {
	w.both(func(c *Chain) {
		ctx := c.Ctx()
		sdb := evmvm.NewStateDB(ctx, common.Address{}, c.App.EvmKeeper, c.App.AccountKeeper, c.App.BankKeeper)
		if len(sdb.GetCode(w.sd)) == 0 {
			sdb.SetCode(w.sd, BuildSelfDestruct(w.rcpt))
			sdb.SetNonce(w.sd, 1)
			sdb.AddBalance(w.sd, Bi(1_000_000))
			require.NoError(w.t, sdb.CommitMultiStore(false))
		}
	})
}

// NUMBER + TIMESTAMP + BASEFEE + GASPRICE summed: reads block / tx-price context.
func buildCtxReader() []byte {
	a := NewAsm()
	a.Op(0x43, 0x42, 0x01, 0x48, 0x01, 0x3a, 0x01) // NUMBER TIMESTAMP ADD BASEFEE ADD GASPRICE ADD
	a.PushU(0).Op(OpMSTORE).PushU(32).PushU(0).Op(OpRETURN)
	return a.Bytes()
}

// GAS as the very first instruction, returned: the gas limit the call runs with minus intrinsic gas minus 2.
func buildGasReporter() []byte {
	a := NewAsm()
	a.Op(OpGAS)
	a.PushU(0).Op(OpMSTORE).PushU(32).PushU(0).Op(OpRETURN)
	return a.Bytes()
}

// BALANCE(CALLER): reads the sender's balance.
func buildCallerBalance() []byte {
	a := NewAsm()
	a.Op(0x33, 0x31) // CALLER BALANCE
	a.PushU(0).Op(OpMSTORE).PushU(32).PushU(0).Op(OpRETURN)
	return a.Bytes()
}

// ------------------------------------------------------------------ committed-state observation

type stateObs struct {
	digest string
	commit string
}

func (w *world) observe() stateObs {
	cid := w.c.App.LastCommitID()
	return stateObs{digest: w.c.StoreDigest(w.c.Ctx()), commit: fmt.Sprintf("%d/%x", cid.Version, cid.Hash)}
}

// mustBePure reports a hit when the committed stores or the last commit id moved between before and now.
func (w *world) mustBePure(before stateObs, kind, what string, cs interface{}) bool {
	now := w.observe()
	if now == before {
		return true
	}
	detail := ""
	if now.digest != before.digest {
		detail = "committed stores changed"
	}
	if now.commit != before.commit {
		detail += " last commit id changed"
	}
	w.side.Hit("C08/query/committed-state-modified/"+kind, fmt.Sprintf("%s: %s", what, detail), cs)
	return false
}

// ------------------------------------------------------------------ production query path

type answer struct {
	code  uint32
	space string
	value []byte
}

func (a answer) canon() string {
	h := sha256.Sum256(a.value)
	return fmt.Sprintf("%d/%s/%s", a.code, a.space, hex.EncodeToString(h[:12]))
}

// query goes through BaseApp.Query exactly as a gRPC / ABCI query of a node does.
func (w *world) query(path string, data []byte, height int64) answer {
	resp, err := w.c.App.BaseApp.Query(context.Background(), &abci.RequestQuery{Path: path, Data: data, Height: height})
	if err != nil || resp == nil {
		return answer{code: 99999, space: "transport"}
	}
	return answer{code: resp.Code, space: resp.Codespace, value: resp.Value}
}

type protoMsg interface{ Marshal() ([]byte, error) }

func (w *world) mustMarshal(m protoMsg) []byte {
	bz, err := m.Marshal()
	require.NoError(w.t, err)
	return bz
}

// ------------------------------------------------------------------ calls as requests / transactions

func (w *world) callArgs(s callSpec, from common.Address, gas uint64) []byte {
	args := evmtypes.TransactionArgs{From: &from, To: s.to}
	if gas != 0 {
		g := hexutil.Uint64(gas)
		args.Gas = &g
	}
	if s.value != nil && s.value.Sign() > 0 {
		args.Value = (*hexutil.Big)(s.value)
	}
	d := hexutil.Bytes(s.data)
	args.Data = &d
	q := w.c.QueryCtx()
	feeCap := new(big.Int).Mul(w.c.BaseFee(q), Bi(2))
	switch s.price {
	case "legacy":
		args.GasPrice = (*hexutil.Big)(feeCap)
	case "1559":
		args.MaxFeePerGas = (*hexutil.Big)(feeCap)
		args.MaxPriorityFeePerGas = (*hexutil.Big)(Bi(0))
	}
	if len(s.al) > 0 {
		al := s.al
		args.AccessList = &al
	}
	if s.extras {
		in := hexutil.Bytes(s.data)
		args.Input = &in
		n := hexutil.Uint64(w.c.Nonce(q, from))
		args.Nonce = &n
		args.ChainID = (*hexutil.Big)(w.c.EvmChainID())
	}
	bz, err := json.Marshal(args)
	require.NoError(w.t, err)
	return bz
}

func (w *world) ethCallReq(s callSpec, from common.Address, gas, gasCap uint64) []byte {
	return w.mustMarshal(&evmtypes.EthCallRequest{Args: w.callArgs(s, from, gas), GasCap: gasCap})
}

type callResult struct {
	ok      bool // the request was answered (no consensus / gRPC error)
	ret     []byte
	vmErr   string
	gasUsed uint64
	logs    string
}

func logsCanon(ls []*ethtypes.Log) string {
	var b bytes.Buffer
	for _, l := range ls {
		fmt.Fprintf(&b, "%x:", l.Address.Bytes())
		for _, tp := range l.Topics {
			fmt.Fprintf(&b, "%x,", tp.Bytes())
		}
		fmt.Fprintf(&b, ":%x;", l.Data)
	}
	return b.String()
}

func decodeCallResult(rsp *evmtypes.MsgEthereumTxResponse) callResult {
	out := callResult{ok: true, ret: rsp.Ret, vmErr: rsp.VmError, gasUsed: rsp.GasUsed}
	var rc ethtypes.Receipt
	if err := rc.UnmarshalBinary(rsp.MarshalledReceipt); err == nil {
		out.logs = logsCanon(rc.Logs)
	} else {
		out.logs = "undecodable"
	}
	return out
}

func (w *world) ethCall(s callSpec, from common.Address, gas, gasCap uint64, height int64) (callResult, answer) {
	a := w.query(pathEvm+"EthCall", w.ethCallReq(s, from, gas, gasCap), height)
	if a.code != 0 {
		return callResult{}, a
	}
	var rsp evmtypes.MsgEthereumTxResponse
	require.NoError(w.t, rsp.Unmarshal(a.value))
	return decodeCallResult(&rsp), a
}

func fromEthResult(r EthResult) callResult {
	return callResult{ok: r.Code == 0, ret: r.Ret, vmErr: r.VmError, gasUsed: r.GasUsed, logs: logsCanon(r.Logs)}
}

func (a callResult) same(b callResult) bool {
	return a.ok == b.ok && bytes.Equal(a.ret, b.ret) && a.vmErr == b.vmErr && a.gasUsed == b.gasUsed && a.logs == b.logs
}

func (a callResult) String() string {
	return fmt.Sprintf("{ok=%v ret=%x vmErr=%q gasUsed=%d logs=%s}", a.ok, a.ret, a.vmErr, a.gasUsed, a.logs)
}

// signedTx builds the signed Ethereum transaction for a call (fee cap = 2 x base fee, no tip), with the sender's
// committed nonce plus nonceOff.
func (w *world) signedTx(s callSpec, si int, gas uint64, nonceOff uint64) ([]byte, *evmtypes.MsgEthereumTx) {
	c := w.c
	q := c.QueryCtx()
	acct := w.senders[si]
	value := s.value
	if value == nil {
		value = Bi(0)
	}
	nonce := c.Nonce(q, acct.GetEthAddress()) + nonceOff
	feeCap := new(big.Int).Mul(c.BaseFee(q), Bi(2))
	var txData ethtypes.TxData
	switch {
	case s.price == "legacy" && len(s.al) > 0:
		txData = &ethtypes.AccessListTx{ChainID: c.EvmChainID(), Nonce: nonce, GasPrice: feeCap, Gas: gas, To: s.to, Value: value, Data: s.data, AccessList: s.al}
	case s.price == "legacy":
		txData = &ethtypes.LegacyTx{Nonce: nonce, GasPrice: feeCap, Gas: gas, To: s.to, Value: value, Data: s.data}
	default:
		txData = &ethtypes.DynamicFeeTx{ChainID: c.EvmChainID(), Nonce: nonce, GasTipCap: Bi(0), GasFeeCap: feeCap, Gas: gas, To: s.to, Value: value, Data: s.data, AccessList: s.al}
	}
	bz, msg, err := c.EthTxBytes(acct, txData)
	require.NoError(w.t, err)
	return bz, msg
}

// runBlock executes the same block on both chains and requires identical committed state.
func (w *world) runBlock(txs [][]byte, msgs []*evmtypes.MsgEthereumTx, specs []callSpec) []EthResult {
	rec := &blockRec{height: w.c.Height, time: w.c.Time, msgs: msgs, specs: specs, prevHash: w.c.AppHash()}
	res := w.c.RunBlock(txs)
	res2 := w.tw.RunBlock(txs)
	w.pending = map[int]bool{}
	require.Len(w.t, res.TxResults, len(txs))
	var out []EthResult
	for i, tr := range res.TxResults {
		out = append(out, w.c.DecodeEthResult(tr))
		if i < len(specs) {
			oc := "rejected"
			if tr.Code == 0 {
				oc = "ok"
				if out[i].VmError != "" {
					oc = "vmerror"
				}
			}
			w.side.Count("delivered:" + specs[i].name + ":" + oc)
			if oc == "ok" && len(out[i].Ret) == 32 && len(specs[i].name) > 4 && specs[i].name[:4] == "fwd>" {
				w.side.Count(fmt.Sprintf("delivered-inner-call-succeeded:%s=%v", specs[i].name, out[i].Ret[31] == 1))
			}
		}
		if tr.Code != res2.TxResults[i].Code || tr.GasUsed != res2.TxResults[i].GasUsed || !bytes.Equal(tr.Data, res2.TxResults[i].Data) {
			w.side.Hit("C08/query/twin-chain-diverged/tx-result", fmt.Sprintf("block %d tx %d: result differs from the chain that saw no queries", rec.height, i), nil)
		}
	}
	if twinDigest(w.c) != twinDigest(w.tw) {
		w.side.Hit("C08/query/twin-chain-diverged/state", fmt.Sprintf("block %d: committed state differs from the chain that saw no queries; keys %v", rec.height, twinDiff(w.c, w.tw)), nil)
	}
	rec.results = out
	w.lastBlock = rec
	w.side.Count("block:txs=" + fmt.Sprint(len(txs)))
	return out
}

func (w *world) deliverOne(s callSpec, si int, gas uint64) (EthResult, *evmtypes.MsgEthereumTx) {
	bz, msg := w.signedTx(s, si, gas, 0)
	res := w.runBlock([][]byte{bz}, []*evmtypes.MsgEthereumTx{msg}, []callSpec{s})
	return res[0], msg
}
