package query

// Generated calls: contract creation, self-destruct, SSTORE, state-changing precompile calls behind frames that
// return / revert / hit INVALID, contracts whose gas need depends on the gas supplied, and the calls the
// prediction clause excludes (block context, sender balance).

import (
	"math/big"

	"github.com/ethereum/go-ethereum/common"
	ethtypes "github.com/ethereum/go-ethereum/core/types"

	. "verifharness/hx"
)

type callSpec struct {
	name        string
	to          *common.Address
	data        []byte
	value       *big.Int
	predictable bool // reads neither block context nor the sender's balance
	gasDep      bool // gas need depends on the gas supplied / differs from gas used

	// shape of the request (x/evm/types TransactionArgs) and of the transaction the RPC backend would build from it:
	// price "" = no fee fields (dynamic-fee transaction with the driver's default fee cap when delivered),
	// "legacy" = gasPrice (legacy transaction, access-list transaction when al is set), "1559" = maxFeePerGas + maxPriorityFeePerGas
	price  string
	al     ethtypes.AccessList
	extras bool // "data" and "input" both set, nonce and chainId set
}

var (
	selTransfer = []byte{0xa9, 0x05, 0x9c, 0xbb}
	selApprove  = []byte{0x09, 0x5e, 0xa7, 0xb3}
	selDelegate = []byte{0x02, 0x6e, 0x40, 0x2b}
)

func abi2(sel []byte, a common.Address, amt *big.Int) []byte {
	out := append([]byte{}, sel...)
	out = append(out, common.LeftPadBytes(a.Bytes(), 32)...)
	return append(out, common.LeftPadBytes(amt.Bytes(), 32)...)
}

func word(v uint64) []byte { return common.LeftPadBytes(new(big.Int).SetUint64(v).Bytes(), 32) }

func p(a common.Address) *common.Address { return &a }

var modeName = map[byte]string{FwdReturn: "return", FwdRevert: "revert", FwdInvalid: "invalid"}

// genCall picks one call. kinds can restrict the choice (nil = all).
func (w *world) genCall(r *Rng) callSpec {
	mode := []byte{FwdReturn, FwdReturn, FwdRevert, FwdInvalid}[r.Intn(4)]
	amt := Bi(int64(1000 + r.Intn(100000)))
	switch r.Intn(26) {
	case 0:
		return callSpec{name: "counter", to: p(w.counter), predictable: true}
	case 1:
		return callSpec{name: "fwd>counter/" + modeName[mode], to: p(w.fwd), data: FwdInput(mode, w.counter, nil), predictable: true}
	case 2:
		return callSpec{name: "fwd>erc20.transfer/" + modeName[mode], to: p(w.fwd), data: FwdInput(mode, w.erc20, abi2(selTransfer, w.rcpt, amt)), predictable: true}
	case 3:
		return callSpec{name: "fwd>erc20.approve/" + modeName[mode], to: p(w.fwd), data: FwdInput(mode, w.erc20, abi2(selApprove, w.rcpt, amt)), predictable: true}
	case 4:
		return callSpec{name: "fwd>staking.delegate/" + modeName[mode], to: p(w.fwd),
			data: FwdInput(mode, w.staking, abi2(selDelegate, common.BytesToAddress(w.val.Bytes()), Badd(amt, 1_000_000))), predictable: true}
	case 5:
		inner := []byte{FwdReturn, FwdRevert, FwdInvalid}[r.Intn(3)]
		tgt, payload, n := w.erc20, abi2(selTransfer, w.rcpt, amt), "erc20.transfer"
		if r.Bool() {
			tgt, payload, n = w.staking, abi2(selDelegate, common.BytesToAddress(w.val.Bytes()), Badd(amt, 1_000_000)), "staking.delegate"
		}
		return callSpec{name: "fwd>fwd/" + modeName[inner] + ">" + n + "/" + modeName[mode], to: p(w.fwd),
			data: FwdInput(mode, w.fwd, FwdInput(inner, tgt, payload)), predictable: true}
	case 6:
		return callSpec{name: "gasbranch-A", to: p(w.gasA), predictable: true, gasDep: true}
	case 7:
		return callSpec{name: "gasbranch-B", to: p(w.gasB), predictable: true, gasDep: true}
	case 8, 9:
		return callSpec{name: "outer63/64>sstore-worker", to: p(w.outer), data: word(r.U64() >> 8), predictable: true, gasDep: true}
	case 10:
		return callSpec{name: "sstore-worker", to: p(w.worker), data: word(r.U64() >> 8), predictable: true}
	case 11, 24, 25:
		return w.refunderCall(r)
	case 12:
		return callSpec{name: "selfdestruct", to: p(w.sd), predictable: true}
	case 13:
		return callSpec{name: "fwd>selfdestruct/" + modeName[mode], to: p(w.fwd), data: FwdInput(mode, w.sd, nil), predictable: true}
	case 14:
		return callSpec{name: "creator", to: p(w.creator), predictable: true}
	case 15:
		return callSpec{name: "fwd>creator/" + modeName[mode], to: p(w.fwd), data: FwdInput(mode, w.creator, nil), predictable: true}
	case 16:
		code := [][]byte{BuildCounter(), BuildRefunder(), BuildSstoreWorker(2)}[r.Intn(3)]
		return callSpec{name: "create-tx", data: InitCode(code), predictable: true}
	case 17:
		return callSpec{name: "create-tx/failing-init", data: []byte{0xfe}, predictable: true}
	case 18:
		if r.Chance(35) {
			return callSpec{name: "value-transfer/more-than-balance", to: p(w.nobody), value: Pow2(120)}
		}
		return callSpec{name: "value-transfer", to: p(w.nobody), value: amt}
	case 19:
		if r.Chance(40) {
			return callSpec{name: "counter+value", to: p(w.counter), value: amt}
		}
		return callSpec{name: "ctx-reader", to: p(w.ctxr)}
	case 20:
		return callSpec{name: "caller-balance", to: p(w.balr)}
	case 21:
		return callSpec{name: "erc20.transfer/direct", to: p(w.erc20), data: abi2(selTransfer, w.rcpt, amt)}
	case 22:
		return callSpec{name: "cpc/bad-selector", to: p(w.erc20), data: []byte{0xde, 0xad, 0xbe, 0xef, byte(r.Intn(256))}, predictable: true}
	default:
		return callSpec{name: "fwd>nobody/" + modeName[mode], to: p(w.fwd), data: FwdInput(mode, w.nobody, []byte{byte(r.Intn(256))}), predictable: true}
	}
}

// refunderCall clears the refunder's slot when it is set (earning a refund: gas used < gas needed) and sets it when
// it is clear, most of the time.
func (w *world) refunderCall(r *Rng) callSpec {
	set := w.c.App.EvmKeeper.GetState(w.c.QueryCtx(), w.refunder, common.BigToHash(Bi(7))) != (common.Hash{})
	v := uint64(0)
	if set == r.Chance(15) {
		v = 1 + uint64(r.Intn(5))
	}
	n := "refunder/set"
	if v == 0 {
		n = "refunder/clear"
	}
	return callSpec{name: n, to: p(w.refunder), data: word(v), predictable: true, gasDep: true}
}

// sharedStateCall: calls whose result depends on what the earlier transactions of the same block did.
func (w *world) sharedStateCall(r *Rng, i int) callSpec {
	switch r.Intn(5) {
	case 0:
		return callSpec{name: "counter", to: p(w.counter), predictable: true}
	case 1:
		return callSpec{name: "fwd>counter/return", to: p(w.fwd), data: FwdInput(FwdReturn, w.counter, nil), predictable: true}
	case 2:
		// the same storage slots as the other workers of this block: fresh for the first, already set for the rest
		return callSpec{name: "sstore-worker/shared-slots", to: p(w.worker), data: word(uint64(w.c.Height) << 20), predictable: true}
	case 3:
		v := uint64(i % 2)
		return callSpec{name: "refunder/alternating", to: p(w.refunder), data: word(v), predictable: true, gasDep: true}
	default:
		return callSpec{name: "creator", to: p(w.creator), predictable: true}
	}
}

func (w *world) genPredictable(r *Rng) callSpec {
	for {
		s := w.genCall(r)
		if s.predictable {
			return s
		}
	}
}

func (w *world) genGasDependent(r *Rng) callSpec {
	for {
		s := w.genCall(r)
		if s.gasDep || r.Chance(15) {
			return s
		}
	}
}

func pickGas(r *Rng) uint64 {
	return []uint64{60_000, 75_000, 120_000, 250_000, 400_000, 900_000, 3_000_000}[r.Intn(7)]
}
