package query

// stepTxArgs (C08, "they predict execution ... and a returned gas estimate is a gas limit with which it does not run out
// of gas"): the product of request shapes of x/evm/types TransactionArgs
//   {gasPrice | maxFeePerGas+maxPriorityFeePerGas | no fee field}
//   x {no access list | entries the call touches | entries it never touches | with and without storage keys | mixed}
//   x {plain | value / "data" and "input" both set / nonce and chainId set}
// answered by eth_call and by EstimateGas, and then DELIVERED as the typed transaction the RPC backend builds from the
// same arguments (legacy, access-list, dynamic-fee): same return data / VM error / gas used as the eth_call (for the
// same gas limit), and the delivery with the returned estimate as gas limit must not run out of gas.
// Signatures  C08/query/prediction/EthCall/args:<fee style>+<access list class>   C08/query/estimate-runs-out-of-gas/deliver/args:...

import (
	"encoding/hex"
	"fmt"

	"github.com/ethereum/go-ethereum/common"
	ethtypes "github.com/ethereum/go-ethereum/core/types"
	corevm "github.com/ethereum/go-ethereum/core/vm"
	"github.com/stretchr/testify/require"

	evmtypes "github.com/EscanBE/evermint/v12/x/evm/types"

	. "verifharness/hx"
)

func (w *world) stepTxArgs(r *Rng) stepOut {
	w.freshRound()
	si := r.Intn(4)
	from := w.senders[si].GetEthAddress()
	// the call and the storage it touches
	var s callSpec
	var touched ethtypes.AccessList
	switch r.Intn(4) {
	case 0:
		s = callSpec{name: "counter", to: p(w.counter), predictable: true}
		touched = ethtypes.AccessList{{Address: w.counter, StorageKeys: []common.Hash{{}}}}
	case 1:
		base := r.U64() >> 8
		s = callSpec{name: "sstore-worker", to: p(w.worker), data: word(base), predictable: true}
		var keys []common.Hash
		for i := uint64(0); i < 6; i++ {
			keys = append(keys, common.BytesToHash(word(base+i)))
		}
		touched = ethtypes.AccessList{{Address: w.worker, StorageKeys: keys[:1+r.Intn(6)]}}
	case 2:
		s = callSpec{name: "fwd>counter/return", to: p(w.fwd), data: FwdInput(FwdReturn, w.counter, nil), predictable: true}
		touched = ethtypes.AccessList{{Address: w.counter, StorageKeys: []common.Hash{{}}}, {Address: w.fwd, StorageKeys: []common.Hash{}}}
	default:
		s = callSpec{name: "outer63/64>sstore-worker", to: p(w.outer), data: word(r.U64() >> 8), predictable: true, gasDep: true}
		touched = ethtypes.AccessList{{Address: w.worker, StorageKeys: []common.Hash{}}}
	}
	never := ethtypes.AccessList{{Address: w.nobody, StorageKeys: []common.Hash{common.BytesToHash(word(r.U64())), common.BytesToHash(word(7))}}, {Address: w.rcpt, StorageKeys: []common.Hash{}}}
	alClass := []string{"none", "touched", "never-touched", "touched-without-keys", "mixed"}[r.Intn(5)]
	switch alClass {
	case "touched":
		s.al = touched
	case "never-touched":
		s.al = never
	case "touched-without-keys":
		for _, e := range touched {
			s.al = append(s.al, ethtypes.AccessTuple{Address: e.Address, StorageKeys: []common.Hash{}}) // "storageKeys": [] as clients write it
		}
	case "mixed":
		s.al = append(append(ethtypes.AccessList{}, touched...), never...)
	}
	s.price = []string{"", "legacy", "1559"}[r.Intn(3)]
	s.extras = r.Chance(40)
	if r.Chance(25) && s.name == "counter" {
		s.value = Bi(int64(1 + r.Intn(1000)))
		s.name = "counter+value"
	}
	style := s.price
	if style == "" {
		style = "no-fee-field"
	}
	shape := fmt.Sprintf("args:%s+access-list-%s", style, alClass)
	gas := []uint64{250_000, 400_000, 900_000}[r.Intn(3)]
	cs := w.desc("txargs", "call", s.name, "sender", si, "gas", gas, "shape", shape, "extras", s.extras, "data", hex.EncodeToString(s.data))
	w.side.Count("txargs:" + shape)
	w.side.Count(fmt.Sprintf("txargs:extras=%v", s.extras))

	outcome := ""
	delivered := false
	if r.Bool() {
		// eth_call, then the same typed transaction with the same gas limit
		var first callResult
		a := w.twice(r, "EthCall", cs, func() answer {
			res, a := w.ethCall(s, from, gas, defaultGasCap, 0)
			first = res
			return a
		})
		outcome = fmt.Sprintf("ethcall:code=%d", a.code)
		if a.code == 0 {
			res, _ := w.deliverOne(s, si, gas)
			if res.Code != 0 {
				w.side.Count("txargs:deliver-rejected")
			} else {
				delivered = true
				w.side.Count("prediction:EthCall/" + shape)
				if got := fromEthResult(res); !got.same(first) {
					w.side.Hit("C08/query/prediction/EthCall/"+shape, fmt.Sprintf("%s: eth_call said %v, the same request delivered as a transaction %v", s.name, first, got), cs)
				}
			}
		}
	} else {
		// EstimateGas, then the typed transaction with the estimate as gas limit
		req := w.ethCallReq(s, from, 0, defaultGasCap)
		prod := w.twice(r, "EstimateGas", cs, func() answer { return w.query(pathEvm+"EstimateGas", req, 0) })
		outcome = fmt.Sprintf("estimate:code=%d", prod.code)
		if prod.code == 0 {
			var pr evmtypes.EstimateGasResponse
			require.NoError(w.t, pr.Unmarshal(prod.value))
			res, _ := w.deliverOne(s, si, pr.Gas)
			switch {
			case res.Code != 0:
				w.side.Count("txargs:deliver-rejected")
				w.side.Hit("C08/query/estimate-runs-out-of-gas/deliver/"+shape, fmt.Sprintf("%s: the transaction built from the request, with the estimate %d as gas limit, is refused (%s)", s.name, pr.Gas, firstLine(res.Log)), cs)
			case res.VmError == corevm.ErrOutOfGas.Error():
				w.side.Hit("C08/query/estimate-runs-out-of-gas/deliver/"+shape, fmt.Sprintf("%s: delivered with the estimate %d as gas limit: out of gas (gas used %d)", s.name, pr.Gas, res.GasUsed), cs)
			case res.VmError != "":
				w.side.Hit("C08/query/estimate-not-executable/deliver/"+shape, fmt.Sprintf("%s: delivered with the estimate %d as gas limit: %s", s.name, pr.Gas, res.VmError), cs)
			default:
				delivered = true
				w.side.Count("prediction:estimate-delivered/" + shape)
			}
		}
	}
	w.side.Count("txargs:" + outcome + ":" + alClass)
	return stepOut{kind: "txargs", canon: fmt.Sprintf("txargs|%s|%x|%s|%v|%d|%s|%v", s.name, s.data, shape, s.extras, gas, outcome, delivered), nontrivial: delivered, desc: cs}
}
