package query

// One step = one case of the `query` driver.  Oracles (the property text, independent of the Coq model):
//   purity        committed stores + last commit id identical before/after every query, simulation and CheckTx
//                 (and, for the keeper entry points that promise commit=false, the caller's own context too);
//                 the twin chain that saw no queries has the same application hash after every block;
//   determinism   the same request twice, with another query / simulation / CheckTx in between, gives the same bytes;
//                 asked again later at the same height it still gives the same bytes; plain queries equal what the
//                 keepers read from committed state;
//   prediction    for calls reading neither block context nor sender balance: delivered as the next transaction
//                 (same sender, nonce, gas limit) -> same return data, logs, VM error, gas used;
//   estimate      the returned gas limit executes without running out of gas, in the query and when delivered.

import (
	"encoding/hex"
	"encoding/json"
	"errors"
	"fmt"
	"math/big"
	"sort"
	"strings"

	sdkmath "cosmossdk.io/math"
	cmtproto "github.com/cometbft/cometbft/proto/tendermint/types"
	sdk "github.com/cosmos/cosmos-sdk/types"
	"github.com/ethereum/go-ethereum/common"
	"github.com/ethereum/go-ethereum/common/hexutil"
	"github.com/ethereum/go-ethereum/core"
	ethtypes "github.com/ethereum/go-ethereum/core/types"
	corevm "github.com/ethereum/go-ethereum/core/vm"
	"github.com/stretchr/testify/require"
	"google.golang.org/grpc/codes"
	"google.golang.org/grpc/status"

	evutils "github.com/EscanBE/evermint/v12/utils"
	cpctypes "github.com/EscanBE/evermint/v12/x/cpc/types"
	evmtypes "github.com/EscanBE/evermint/v12/x/evm/types"
	feemarkettypes "github.com/EscanBE/evermint/v12/x/feemarket/types"
	vauthtypes "github.com/EscanBE/evermint/v12/x/vauth/types"

	. "verifharness/hx"
)

const defaultGasCap = 25_000_000

type stepOut struct {
	kind, canon string
	nontrivial  bool
	desc        map[string]interface{}
	coq         string // Coq case term, "" for oracle-only steps
}

func (w *world) desc(kind string, kv ...interface{}) map[string]interface{} {
	m := map[string]interface{}{"world": w.wi, "kind": kind, "height": w.c.Height}
	for i := 0; i+1 < len(kv); i += 2 {
		m[fmt.Sprint(kv[i])] = kv[i+1]
	}
	return m
}

// ------------------------------------------------------------------ interleaved operations

// interleave runs one other query / simulation / CheckTx between two identical requests.
func (w *world) interleave(r *Rng) string {
	before := w.observe()
	kind := ""
	switch r.Intn(7) {
	case 0:
		s := w.genCall(r)
		kind = "EthCall"
		w.ethCall(s, w.senders[r.Intn(4)].GetEthAddress(), pickGas(r), defaultGasCap, 0)
	case 1:
		s := w.genCall(r)
		kind = "EstimateGas"
		w.query(pathEvm+"EstimateGas", w.ethCallReq(s, w.senders[r.Intn(4)].GetEthAddress(), 0, 400_000), 0)
	case 2:
		s := w.genCall(r)
		kind = "TraceTx"
		_, msg := w.signedTx(s, r.Intn(4), pickGas(r), 0)
		w.query(pathEvm+"TraceTx", w.mustMarshal(w.traceTxReq(msg, nil, w.genTraceConfig(r), w.c.Height)), 0)
	case 3:
		// the mempool sender (index 4) is used for nothing else
		s := w.genCall(r)
		kind = "CheckTx"
		bz, _ := w.signedTx(s, 4, pickGas(r), 0)
		_, _ = w.c.CheckTx(bz, false)
	case 4:
		s := w.genCall(r)
		kind = "Simulate"
		bz, _ := w.signedTx(s, 4, pickGas(r), 0)
		_, _, _ = w.c.App.BaseApp.Simulate(bz)
	case 5:
		kind = "grpc"
		g := w.genGrpc(r)
		w.query(g.path, g.data, 0)
	default:
		kind = "TraceBlock"
		if b := w.lastBlock; b != nil && len(b.msgs) > 0 {
			w.query(pathEvm+"TraceBlock", w.mustMarshal(w.traceBlockReq(b, w.genTraceConfig(r))), b.height-1)
		}
	}
	w.side.Count("interleaved:" + kind)
	w.mustBePure(before, kind, "interleaved "+kind, nil)
	return kind
}

// twice runs the same request twice with another operation in between and checks purity and determinism.
func (w *world) twice(r *Rng, kind string, cs interface{}, run func() answer) answer {
	before := w.observe()
	a1 := run()
	w.mustBePure(before, kind, kind, cs)
	il := w.interleave(r)
	a2 := run()
	w.mustBePure(before, kind, kind+" (second time)", cs)
	if a1.canon() != a2.canon() {
		w.side.Hit("C08/query/nondeterministic/"+kind, fmt.Sprintf("same request, same committed state, different answers (%s vs %s) with a %s in between", a1.canon(), a2.canon(), il), cs)
	}
	return a1
}

// keeperPure: entry points that run with commit=false must leave the context they are handed unchanged.
func (w *world) keeperPure(kind string, cs interface{}, run func(ctx sdk.Context)) {
	ctx := w.c.QueryCtx()
	d0 := w.c.StoreDigest(ctx)
	run(ctx)
	if d1 := w.c.StoreDigest(ctx); d0 != d1 {
		w.side.Hit("C08/query/caller-context-modified/"+kind, kind+" wrote into the context it was called with (commit=false promised)", cs)
	}
}

func (w *world) remember(kind, path string, data []byte, a answer) {
	if a.code != 0 && a.space == "transport" {
		return
	}
	w.hist = append(w.hist, histEntry{kind: kind, path: path, data: data, height: w.c.Height - 1, answer: a.canon()})
	if len(w.hist) > 60 {
		w.hist = w.hist[1:]
	}
}

// ------------------------------------------------------------------ eth_call

func (w *world) stepEthCall(r *Rng) stepOut {
	s := w.genCall(r)
	si := r.Intn(4)
	from := w.senders[si].GetEthAddress()
	gas := pickGas(r)
	gasCap := []uint64{defaultGasCap, defaultGasCap, 0, 50_000_000}[r.Intn(4)]
	if r.Chance(12) {
		// a sender nobody holds the key of: an account that does not exist, or a contract
		si = -1
		from = []common.Address{w.nobody, {}, w.counter}[r.Intn(3)]
	} else if r.Chance(6) {
		gasCap = 50_000 // the node's cap below the requested gas: executed with the cap
	}
	cs := w.desc("ethcall", "call", s.name, "sender", si, "gas", gas, "gasCap", gasCap, "data", hex.EncodeToString(s.data))
	req := w.ethCallReq(s, from, gas, gasCap)
	var first callResult
	a := w.twice(r, "EthCall", cs, func() answer {
		res, a := w.ethCall(s, from, gas, gasCap, 0)
		first = res
		return a
	})
	w.keeperPure("EthCall", cs, func(ctx sdk.Context) {
		var rq evmtypes.EthCallRequest
		require.NoError(w.t, rq.Unmarshal(req))
		_, _ = w.c.App.EvmKeeper.EthCall(ctx, &rq)
	})
	outcome := "error"
	if a.code == 0 {
		outcome = "ok"
		if first.vmErr != "" {
			outcome = "vmerror"
		}
	}
	w.side.Count("ethcall:" + outcome)
	w.side.Count("call:" + strings.SplitN(s.name, "/", 2)[0])
	w.remember("EthCall", pathEvm+"EthCall", req, a)
	predicted := false
	if s.predictable && a.code == 0 && si >= 0 && (gasCap == 0 || gasCap >= gas) && r.Chance(70) {
		res, _ := w.deliverOne(s, si, gas)
		if res.Code != 0 {
			w.side.Count("deliver:rejected")
		} else {
			predicted = true
			got := fromEthResult(res)
			w.side.Count("prediction:EthCall")
			if !got.same(first) {
				w.side.Hit("C08/query/prediction/EthCall", fmt.Sprintf("%s: eth_call said %v, delivered as the next transaction %v", s.name, first, got), cs)
			}
		}
	}
	return stepOut{kind: "ethcall", canon: fmt.Sprintf("ethcall|%s|%x|%d|%s|%v", s.name, s.data, gas, outcome, predicted), nontrivial: a.code == 0, desc: cs}
}

// stepGasCap: which gas limit an eth_call really runs with (request gas vs the node's cap), read back from a
// contract that returns GAS.
func (w *world) stepGasCap(r *Rng) stepOut {
	gasCap := []uint64{0, defaultGasCap, 50_000_000, 100_000, 21_017, 21_016, 21_002, 21_000, 20_000, 1}[r.Intn(10)]
	argsGas := []uint64{0, 0, 21_000, 21_002, 21_016, 21_017, 21_018, 30_000, 100_000, 100_001, 26_000_000, 1 << 40, 1 << 62}[r.Intn(13)]
	s := callSpec{name: "gas-reporter", to: p(w.gasr)}
	from := w.senders[r.Intn(4)].GetEthAddress()
	cs := w.desc("gascap", "gasCap", gasCap, "argsGas", argsGas)
	var res callResult
	a := w.twice(r, "EthCall", cs, func() answer {
		x, a := w.ethCall(s, from, argsGas, gasCap, 0)
		res = x
		return a
	})
	obs := "None"
	if a.code == 0 && res.vmErr == "" && len(res.ret) == 32 {
		obs = "(Some " + CqN(new(big.Int).SetBytes(res.ret).Uint64()) + ")"
	}
	ag := "None"
	if argsGas != 0 {
		ag = "(Some " + CqN(argsGas) + ")"
	}
	w.side.Count(fmt.Sprintf("gascap:answered=%v", obs != "None"))
	return stepOut{kind: "gascap", canon: fmt.Sprintf("gascap|%d|%d|%s", gasCap, argsGas, obs), nontrivial: obs != "None", desc: cs,
		coq: fmt.Sprintf("QGas %s %s %s", CqN(gasCap), ag, obs)}
}

// ------------------------------------------------------------------ gas estimation

// probe = executable(gas) of EstimateGas: the real ApplyMessageWithConfig(commit=false) on a fresh query context.
func (w *world) probe(s callSpec, from common.Address, argsGas, gasCap, gas uint64) string {
	k := w.c.App.EvmKeeper
	ctx, err := w.c.App.BaseApp.CreateQueryContext(0, false)
	require.NoError(w.t, err)
	ctx = evutils.UseZeroGasConfig(ctx)
	cfg, err := k.EVMConfig(ctx, nil)
	require.NoError(w.t, err)
	cfg.NoBaseFee = true
	var args evmtypes.TransactionArgs
	require.NoError(w.t, json.Unmarshal(w.callArgs(s, from, argsGas), &args))
	nonce := k.GetNonce(ctx, from)
	args.Nonce = (*hexutil.Uint64)(&nonce)
	m0, err := args.ToMessage(gasCap, cfg.BaseFee)
	require.NoError(w.t, err)
	msg := ethtypes.NewMessage(m0.From(), m0.To(), m0.Nonce(), m0.Value(), gas, m0.GasPrice(), m0.GasFeeCap(), m0.GasTipCap(), m0.Data(), m0.AccessList(), m0.IsFake())
	rsp, err := k.ApplyMessageWithConfig(ctx, msg, nil, false, cfg, k.NewTxConfigFromMessage(ctx, msg))
	switch {
	case err != nil && errors.Is(err, core.ErrIntrinsicGas):
		return "ExIntrinsic"
	case err != nil:
		return "ExErr"
	case rsp.VmError == "":
		return "ExOk"
	case rsp.VmError == corevm.ErrOutOfGas.Error():
		return "ExOOG"
	case rsp.VmError == corevm.ErrExecutionReverted.Error():
		return "ExRevert"
	default:
		return "ExVmOther"
	}
}

var consensusErrs = []error{core.ErrNonceTooLow, core.ErrNonceTooHigh, core.ErrNonceMax, core.ErrGasLimitReached, core.ErrInsufficientFundsForTransfer,
	core.ErrInsufficientFunds, core.ErrGasUintOverflow, core.ErrIntrinsicGas, core.ErrTxTypeNotSupported, core.ErrTipAboveFeeCap, core.ErrTipVeryHigh,
	core.ErrFeeCapVeryHigh, core.ErrFeeCapTooLow, core.ErrSenderNoEOA, evmtypes.ErrCreateDisabled, evmtypes.ErrCallDisabled}

// classify the outcome of the real EstimateGas (classes of the model's estres).
func classifyEstimate(rsp *evmtypes.EstimateGasResponse, err error) (string, uint64) {
	if err == nil {
		return "EstOk", rsp.Gas
	}
	if st, ok := status.FromError(err); ok && st.Code() == codes.InvalidArgument {
		return "EstInvalidArg", 0
	}
	var rev *evmtypes.RevertError
	if errors.As(err, &rev) {
		return "EstVmError", 0
	}
	for _, ce := range consensusErrs {
		if errors.Is(err, ce) {
			return "EstBail", 0
		}
	}
	if strings.HasPrefix(err.Error(), "gas required exceeds allowance") {
		return "EstAllowance", 0
	}
	return "EstVmError", 0
}

func (w *world) stepEstimate(r *Rng) stepOut {
	s := w.genGasDependent(r)
	si := r.Intn(4)
	from := w.senders[si].GetEthAddress()
	gasCap := []uint64{defaultGasCap, defaultGasCap, defaultGasCap, 30_000_000, 1_000_000, 300_000, 100_000, 70_000, 21_000, 20_999, 0}[r.Intn(11)]
	argsGas := []uint64{0, 0, 0, 20_000, 50_000, 65_000, 200_000, 5_000_000}[r.Intn(8)]
	// consensus MaxGas as seen by the keeper: absent (what BaseApp's query context carries), or a value
	maxGasAbsent := r.Chance(45)
	maxGas := []int64{40_000_000, -1, 0, 25_000, 1_000_000, 150_000}[r.Intn(6)]
	if maxGasAbsent {
		maxGas = 0
	}
	cs := w.desc("estimate", "call", s.name, "sender", si, "gasCap", gasCap, "argsGas", argsGas, "maxGas", maxGas, "maxGasAbsent", maxGasAbsent, "data", hex.EncodeToString(s.data))
	req := w.ethCallReq(s, from, argsGas, gasCap)

	// production path
	prod := w.twice(r, "EstimateGas", cs, func() answer { return w.query(pathEvm+"EstimateGas", req, 0) })
	w.remember("EstimateGas", pathEvm+"EstimateGas", req, prod)
	w.keeperPure("EstimateGas", cs, func(ctx sdk.Context) {
		var rq evmtypes.EthCallRequest
		require.NoError(w.t, rq.Unmarshal(req))
		_, _ = w.c.App.EvmKeeper.EstimateGas(ctx, &rq)
	})

	// the keeper's answer with an error value we can classify
	kctx, err := w.c.App.BaseApp.CreateQueryContext(0, false)
	require.NoError(w.t, err)
	if !maxGasAbsent {
		kctx = kctx.WithConsensusParams(cmtproto.ConsensusParams{Block: &cmtproto.BlockParams{MaxBytes: 1 << 20, MaxGas: maxGas}})
	}
	var rq evmtypes.EthCallRequest
	require.NoError(w.t, rq.Unmarshal(req))
	rsp, kerr := w.c.App.EvmKeeper.EstimateGas(kctx, &rq)
	class, est := classifyEstimate(rsp, kerr)
	w.side.Count("estimate:" + class)
	if maxGasAbsent {
		var pr evmtypes.EstimateGasResponse
		if (prod.code == 0) != (class == "EstOk") || (prod.code == 0 && (pr.Unmarshal(prod.value) != nil || pr.Gas != est)) {
			w.side.Hit("C08/query/nondeterministic/EstimateGas-paths", "gRPC route and keeper disagree on the same request and state", cs)
		}
	}

	// measured table of the executable: bisection paths towards every value the cap could be, plus the caps
	tab := map[uint64]string{}
	probe := func(g uint64) string {
		if c, ok := tab[g]; ok {
			return c
		}
		c := w.probe(s, from, argsGas, gasCap, g)
		tab[g] = c
		return c
	}
	caps := map[uint64]bool{}
	for _, c := range []uint64{gasCap, argsGas} {
		if c >= 21_000 {
			caps[c] = true
		}
	}
	if maxGas >= 21_000 {
		caps[uint64(maxGas)] = true
	}
	if gasCap >= 21_000 {
		for hi0 := range caps {
			lo, hi := uint64(20_999), hi0
			probe(hi0)
			for lo+1 < hi {
				mid := (hi + lo) / 2
				c := probe(mid)
				if c == "ExErr" {
					break
				}
				if c == "ExOk" {
					hi = mid
				} else {
					lo = mid
				}
			}
		}
	}
	w.side.Count(fmt.Sprintf("estimate:probes<=%d", (len(tab)+24)/25*25))

	delivered := false
	if class == "EstOk" {
		// property text: the estimate is a gas limit with which the call does not run out of gas
		at := probe(est)
		if at == "ExOOG" || at == "ExIntrinsic" {
			w.side.Hit("C08/query/estimate-runs-out-of-gas/query", fmt.Sprintf("%s: estimate %d, executing with exactly that gas limit: %s", s.name, est, at), cs)
		} else if at != "ExOk" {
			w.side.Hit("C08/query/estimate-not-executable/query", fmt.Sprintf("%s: estimate %d, executing with exactly that gas limit: %s", s.name, est, at), cs)
		}
		if s.predictable && r.Chance(75) {
			res, _ := w.deliverOne(s, si, est)
			if res.Code != 0 {
				w.side.Count("deliver:rejected")
				if strings.Contains(res.Log, "out of gas") {
					w.side.Hit("C08/query/estimate-runs-out-of-gas/deliver", fmt.Sprintf("%s: delivered with the estimate %d: rejected, out of gas", s.name, est), cs)
				}
			} else {
				delivered = true
				w.side.Count("prediction:estimate-delivered")
				if res.VmError == corevm.ErrOutOfGas.Error() {
					w.side.Hit("C08/query/estimate-runs-out-of-gas/deliver", fmt.Sprintf("%s: delivered with the estimate %d as gas limit: out of gas (gas used %d)", s.name, est, res.GasUsed), cs)
				} else if res.VmError != "" {
					w.side.Hit("C08/query/estimate-not-executable/deliver", fmt.Sprintf("%s: delivered with the estimate %d as gas limit: %s", s.name, est, res.VmError), cs)
				}
			}
		}
	}

	// Coq case
	keys := make([]uint64, 0, len(tab))
	for g := range tab {
		keys = append(keys, g)
	}
	sort.Slice(keys, func(i, j int) bool { return keys[i] < keys[j] })
	var items []string
	for _, g := range keys {
		items = append(items, fmt.Sprintf("(%s, %s)", CqN(g), tab[g]))
	}
	ag := "None"
	if argsGas != 0 {
		ag = "(Some " + CqN(argsGas) + ")"
	}
	obs := class
	if class == "EstOk" {
		obs = "(EstOk " + CqN(est) + ")"
	}
	coq := fmt.Sprintf("QEst %s %s %s %s %s", CqN(gasCap), ag, CqZi(maxGas), CqList(items), obs)
	return stepOut{kind: "estimate", canon: fmt.Sprintf("estimate|%s|%x|%d|%d|%d|%s|%d|%v", s.name, s.data, gasCap, argsGas, maxGas, class, est, delivered),
		nontrivial: class != "EstInvalidArg", desc: cs, coq: coq}
}

// ------------------------------------------------------------------ tracing

func (w *world) genTraceConfig(r *Rng) *evmtypes.TraceConfig {
	switch r.Intn(13) {
	case 8:
		// JavaScript tracer reading state through the tracer's db handle
		return &evmtypes.TraceConfig{Tracer: `{n: 0, bal: "", step: function(log, db) { this.n++; if (this.n == 1) { this.bal = db.getBalance(log.contract.getAddress()).toString() + "/" + db.getNonce(log.contract.getCaller()) + "/" + db.exists(log.contract.getAddress()) } }, fault: function(log, db) {}, result: function(ctx, db) { return {steps: this.n, bal: this.bal, gasUsed: ctx.gasUsed} }}`}
	case 9:
		return &evmtypes.TraceConfig{Tracer: `{ops: [], step: function(log, db) { if (this.ops.length < 50) this.ops.push(log.op.toString() + ":" + log.getGas()) }, fault: function(log, db) { this.ops.push("fault") }, result: function(ctx, db) { return this.ops }}`, Timeout: "2s"}
	case 10:
		return &evmtypes.TraceConfig{Tracer: "noSuchTracer"}
	case 11:
		return &evmtypes.TraceConfig{Timeout: "not-a-duration"}
	case 12:
		return &evmtypes.TraceConfig{Limit: -1}
	case 0:
		return nil
	case 1:
		return &evmtypes.TraceConfig{Tracer: "callTracer"}
	case 2:
		return &evmtypes.TraceConfig{Tracer: "prestateTracer"}
	case 3:
		return &evmtypes.TraceConfig{Tracer: "4byteTracer"}
	case 4:
		return &evmtypes.TraceConfig{Tracer: "callTracer", TracerJsonConfig: `{"withLog":true}`}
	case 5:
		return &evmtypes.TraceConfig{EnableMemory: true, EnableReturnData: true, DisableStorage: r.Bool(), Limit: int32(r.Intn(40))}
	default:
		return &evmtypes.TraceConfig{DisableStack: r.Bool(), DisableStorage: r.Bool()}
	}
}

func structLogger(cfg *evmtypes.TraceConfig) bool { return cfg == nil || cfg.Tracer == "" }

// plainStruct: the default struct logger with a well-formed configuration (its result carries gas / failed / returnValue)
func plainStruct(cfg *evmtypes.TraceConfig) bool {
	return cfg == nil || (cfg.Tracer == "" && cfg.Timeout == "" && cfg.Limit >= 0)
}

func (w *world) traceTxReq(msg *evmtypes.MsgEthereumTx, preds []*evmtypes.MsgEthereumTx, cfg *evmtypes.TraceConfig, blockNumber int64) *evmtypes.QueryTraceTxRequest {
	rq := &evmtypes.QueryTraceTxRequest{Msg: msg, Predecessors: preds, TraceConfig: cfg, BlockNumber: blockNumber,
		BlockHash:       "00000000000000000000000000000000000000000000000000000000000000" + fmt.Sprintf("%02x", blockNumber%251),
		ProposerAddress: w.c.S.ValidatorAccounts.Number(1).GetConsensusAddress()}
	rq.BlockTime = w.c.Time
	if b := w.lastBlock; b != nil && b.height == blockNumber {
		rq.BlockTime = b.time
	}
	return rq
}

func (w *world) traceBlockReq(b *blockRec, cfg *evmtypes.TraceConfig) *evmtypes.QueryTraceBlockRequest {
	return &evmtypes.QueryTraceBlockRequest{Txs: b.msgs, TraceConfig: cfg, BlockNumber: b.height, BlockTime: b.time,
		BlockHash:       "00000000000000000000000000000000000000000000000000000000000000" + fmt.Sprintf("%02x", b.height%251),
		ProposerAddress: w.c.S.ValidatorAccounts.Number(1).GetConsensusAddress()}
}

type structTrace struct {
	Gas         uint64 `json:"gas"`
	Failed      bool   `json:"failed"`
	ReturnValue string `json:"returnValue"`
}

func (t structTrace) agrees(res callResult) bool {
	return t.Gas == res.gasUsed && t.Failed == (res.vmErr != "") && t.ReturnValue == hex.EncodeToString(res.ret)
}

func (w *world) stepTrace(r *Rng) stepOut {
	s := w.genCall(r)
	si := r.Intn(4)
	gas := pickGas(r)
	cfg := w.genTraceConfig(r)
	tracer := "struct"
	if !structLogger(cfg) {
		tracer = cfg.Tracer
		if len(tracer) > 14 {
			tracer = "js:" + tracer[1:6]
		}
	} else if cfg != nil && (cfg.Timeout != "" || cfg.Limit < 0) {
		tracer = "struct/bad-config"
	}
	cs := w.desc("tracetx", "call", s.name, "sender", si, "gas", gas, "tracer", tracer, "data", hex.EncodeToString(s.data))
	bz, msg := w.signedTx(s, si, gas, 0)
	rq := w.traceTxReq(msg, nil, cfg, w.c.Height)
	req := w.mustMarshal(rq)
	a := w.twice(r, "TraceTx", cs, func() answer { return w.query(pathEvm+"TraceTx", req, 0) })
	outcome := "error"
	if a.code == 0 {
		outcome = "ok"
	}
	w.side.Count("tracetx:" + outcome + ":" + tracer)
	w.remember("TraceTx", pathEvm+"TraceTx", req, a)
	predicted := false
	if s.predictable && a.code == 0 && plainStruct(cfg) && r.Chance(70) {
		var resp evmtypes.QueryTraceTxResponse
		var tr structTrace
		require.NoError(w.t, resp.Unmarshal(a.value))
		require.NoError(w.t, json.Unmarshal(resp.Data, &tr))
		res := w.runBlock([][]byte{bz}, []*evmtypes.MsgEthereumTx{msg}, []callSpec{s})[0]
		if res.Code != 0 {
			w.side.Count("deliver:rejected")
		} else {
			predicted = true
			w.side.Count("prediction:TraceTx")
			if got := fromEthResult(res); !tr.agrees(got) {
				w.side.Hit("C08/query/prediction/TraceTx", fmt.Sprintf("%s: trace said gas=%d failed=%v ret=%s, delivered as the next transaction %v", s.name, tr.Gas, tr.Failed, tr.ReturnValue, got), cs)
			}
		}
	}
	return stepOut{kind: "tracetx", canon: fmt.Sprintf("tracetx|%s|%x|%d|%s|%s|%v", s.name, s.data, gas, tracer, outcome, predicted), nontrivial: a.code == 0, desc: cs}
}

// stepReplay: a block of several transactions, then TraceBlock and TraceTx (with predecessors) of that block
// against the state before it.
func (w *world) stepReplay(r *Rng) stepOut {
	n := 1 + r.Intn(3)
	var txs [][]byte
	var msgs []*evmtypes.MsgEthereumTx
	var specs []callSpec
	var names []string
	shared := r.Chance(55)
	if shared {
		n = 2 + r.Intn(3)
	}
	for i, si := range perm4(r)[:n] {
		s := w.genPredictable(r)
		if shared {
			s = w.sharedStateCall(r, i)
		}
		bz, msg := w.signedTx(s, si, 900_000, 0)
		txs, msgs, specs = append(txs, bz), append(msgs, msg), append(specs, s)
		names = append(names, s.name)
		_ = i
	}
	cs := w.desc("replay", "calls", names, "sharedState", shared)
	w.side.Count(fmt.Sprintf("replay:shared-state=%v", shared))
	results := w.runBlock(txs, msgs, specs)
	b := w.lastBlock
	cfg := w.genTraceConfig(r)
	if r.Chance(60) {
		cfg = nil
	}
	breq := w.mustMarshal(w.traceBlockReq(b, cfg))
	ab := w.twice(r, "TraceBlock", cs, func() answer { return w.query(pathEvm+"TraceBlock", breq, b.height-1) })
	w.side.Count(fmt.Sprintf("traceblock:code=%d", ab.code))
	agree := 0
	if ab.code == 0 && plainStruct(cfg) {
		var resp evmtypes.QueryTraceBlockResponse
		require.NoError(w.t, resp.Unmarshal(ab.value))
		var trs []struct {
			Result *structTrace `json:"result"`
			Error  string       `json:"error"`
		}
		require.NoError(w.t, json.Unmarshal(resp.Data, &trs))
		if len(trs) != len(results) {
			w.side.Hit("C08/query/prediction/TraceBlock", fmt.Sprintf("traced %d transactions, block had %d", len(trs), len(results)), cs)
		}
		for i := range trs {
			if i >= len(results) || results[i].Code != 0 {
				continue
			}
			got := fromEthResult(results[i])
			if trs[i].Result == nil {
				w.side.Hit("C08/query/prediction/TraceBlock", fmt.Sprintf("tx %d (%s) executed in the block but tracing it failed", i, names[i]), cs)
			} else if !trs[i].Result.agrees(got) {
				w.side.Hit("C08/query/prediction/TraceBlock", fmt.Sprintf("tx %d (%s): trace gas=%d failed=%v ret=%s, block %v", i, names[i], trs[i].Result.Gas, trs[i].Result.Failed, trs[i].Result.ReturnValue, got), cs)
			} else {
				agree++
			}
		}
		w.side.Count("prediction:TraceBlock")
	}
	// one transaction of the block with its predecessors
	i := r.Intn(n)
	treq := w.mustMarshal(w.traceTxReq(msgs[i], msgs[:i], nil, b.height))
	at := w.twice(r, "TraceTx+predecessors", cs, func() answer { return w.query(pathEvm+"TraceTx", treq, b.height-1) })
	if at.code == 0 && results[i].Code == 0 {
		var resp evmtypes.QueryTraceTxResponse
		var tr structTrace
		require.NoError(w.t, resp.Unmarshal(at.value))
		require.NoError(w.t, json.Unmarshal(resp.Data, &tr))
		w.side.Count("prediction:TraceTx+predecessors")
		if got := fromEthResult(results[i]); !tr.agrees(got) {
			w.side.Hit("C08/query/prediction/TraceTx+predecessors", fmt.Sprintf("tx %d (%s): trace gas=%d failed=%v ret=%s, block %v", i, names[i], tr.Gas, tr.Failed, tr.ReturnValue, got), cs)
		}
	} else if results[i].Code == 0 {
		w.side.Hit("C08/query/prediction/TraceTx+predecessors", fmt.Sprintf("tx %d (%s) executed in the block but tracing it failed (code %d)", i, names[i], at.code), cs)
	}
	return stepOut{kind: "replay", canon: fmt.Sprintf("replay|%v|%d|%d", names, ab.code, agree), nontrivial: ab.code == 0, desc: cs}
}

func perm4(r4 *Rng) []int {
	p := []int{0, 1, 2, 3}
	for i := 3; i > 0; i-- {
		j := r4.Intn(i + 1)
		p[i], p[j] = p[j], p[i]
	}
	return p
}

// ------------------------------------------------------------------ mempool admission and simulation

type simOut struct {
	err     bool
	gasUsed uint64
	res     callResult
}

func (w *world) simulate(bz []byte) simOut {
	gi, res, err := w.c.App.BaseApp.Simulate(bz)
	if err != nil || res == nil || len(res.MsgResponses) != 1 {
		return simOut{err: true}
	}
	var rsp evmtypes.MsgEthereumTxResponse
	if rsp.Unmarshal(res.MsgResponses[0].Value) != nil {
		return simOut{err: true}
	}
	return simOut{gasUsed: gi.GasUsed, res: decodeCallResult(&rsp)}
}

func (a simOut) same(b simOut) bool { return a.err == b.err && a.gasUsed == b.gasUsed && a.res.same(b.res) }

func (w *world) freshRound() {
	if len(w.pending) > 0 {
		w.runBlock(nil, nil, nil)
	}
}

func (w *world) stepCheckTx(r *Rng) stepOut {
	w.freshRound()
	order := perm4(r)
	n := 1 + r.Intn(3)
	watcher := order[3] // simulates a state-reading call before and after the others' CheckTx
	watch := callSpec{name: "fwd>counter/return", to: p(w.fwd), data: FwdInput(FwdReturn, w.counter, nil), predictable: true}
	wbz, _ := w.signedTx(watch, watcher, 300_000, 0)
	sim0 := w.simulate(wbz)
	type sub struct {
		bz   []byte
		msg  *evmtypes.MsgEthereumTx
		spec callSpec
		si   int
		code uint32
	}
	var subs []sub
	var names []string
	for i := 0; i < n; i++ {
		s := w.genCall(r)
		if i == 0 {
			s = callSpec{name: "counter", to: p(w.counter), predictable: true}
			if r.Bool() {
				s = callSpec{name: "fwd>counter/return", to: p(w.fwd), data: FwdInput(FwdReturn, w.counter, nil), predictable: true}
			}
		}
		bz, msg := w.signedTx(s, order[i], pickGas(r), 0)
		subs = append(subs, sub{bz: bz, msg: msg, spec: s, si: order[i]})
		names = append(names, s.name)
	}
	cs := w.desc("checktx", "calls", names)
	accepted := 0
	for i := range subs {
		before := w.observe()
		resp, err := w.c.CheckTx(subs[i].bz, false)
		require.NoError(w.t, err)
		subs[i].code = resp.Code
		w.pending[subs[i].si] = true
		w.mustBePure(before, "CheckTx", "CheckTx(new) of "+subs[i].spec.name, cs)
		w.side.Count(fmt.Sprintf("checktx:new:accepted=%v", resp.Code == 0))
		if resp.Code == 0 {
			accepted++
		}
	}
	sim1 := w.simulate(wbz)
	if !sim0.same(sim1) {
		w.side.Hit("C08/query/checktx-trial-execution-leaked", fmt.Sprintf("simulating %s from an uninvolved sender: before the CheckTx of %v %+v, after %+v", watch.name, names, sim0, sim1), cs)
	}
	// an eth_call answers from committed state, whatever the mempool state holds
	w.stepEthCallQuiet(r, cs)
	// part of them goes into the next block; the rest is re-checked after the commit and delivered later
	var txs [][]byte
	var msgs []*evmtypes.MsgEthereumTx
	var specs []callSpec
	var rest []sub
	for _, sb := range subs {
		if r.Bool() {
			txs, msgs, specs = append(txs, sb.bz), append(msgs, sb.msg), append(specs, sb.spec)
		} else {
			rest = append(rest, sb)
		}
	}
	w.runBlock(txs, msgs, specs)
	for _, sb := range rest {
		before := w.observe()
		resp, err := w.c.CheckTx(sb.bz, true)
		require.NoError(w.t, err)
		w.pending[sb.si] = true
		w.mustBePure(before, "ReCheckTx", "CheckTx(recheck) of "+sb.spec.name, cs)
		w.side.Count(fmt.Sprintf("checktx:recheck:same-verdict=%v", (resp.Code == 0) == (sb.code == 0)))
	}
	if len(rest) > 0 {
		txs, msgs, specs = nil, nil, nil
		for _, sb := range rest {
			txs, msgs, specs = append(txs, sb.bz), append(msgs, sb.msg), append(specs, sb.spec)
		}
		w.runBlock(txs, msgs, specs)
	}
	return stepOut{kind: "checktx", canon: fmt.Sprintf("checktx|%v|%d|%d", names, accepted, len(rest)), nontrivial: accepted > 0, desc: cs}
}

// an eth_call whose answer must not depend on what CheckTx left in the mempool state: compared with the same
// call asked through a fresh branch of the committed store by the keeper itself.
func (w *world) stepEthCallQuiet(r *Rng, cs interface{}) {
	s := callSpec{name: "counter", to: p(w.counter), predictable: true}
	from := w.senders[r.Intn(4)].GetEthAddress()
	res, a := w.ethCall(s, from, 100_000, defaultGasCap, 0)
	var rq evmtypes.EthCallRequest
	require.NoError(w.t, rq.Unmarshal(w.ethCallReq(s, from, 100_000, defaultGasCap)))
	rsp, err := w.c.App.EvmKeeper.EthCall(w.c.QueryCtx(), &rq)
	if (err == nil) != (a.code == 0) || (err == nil && !decodeCallResult(rsp).same(res)) {
		w.side.Hit("C08/query/nondeterministic/EthCall-after-CheckTx", "eth_call through the query route differs from the keeper's answer on committed state", cs)
	}
}

func (w *world) stepSimulate(r *Rng) stepOut {
	w.freshRound()
	s := w.genCall(r)
	si := r.Intn(4)
	gas := pickGas(r)
	cs := w.desc("simulate", "call", s.name, "sender", si, "gas", gas, "data", hex.EncodeToString(s.data))
	bz, msg := w.signedTx(s, si, gas, 0)
	before := w.observe()
	s1 := w.simulate(bz)
	w.mustBePure(before, "Simulate", "Simulate", cs)
	il := w.interleave(r)
	s2 := w.simulate(bz)
	w.mustBePure(before, "Simulate", "Simulate (second time)", cs)
	if !s1.same(s2) {
		w.side.Hit("C08/query/nondeterministic/Simulate", fmt.Sprintf("same transaction simulated twice with a %s in between: %+v vs %+v", il, s1, s2), cs)
	}
	w.side.Count(fmt.Sprintf("simulate:ok=%v", !s1.err))
	predicted := false
	if s.predictable && !s1.err && r.Chance(70) {
		res := w.runBlock([][]byte{bz}, []*evmtypes.MsgEthereumTx{msg}, []callSpec{s})[0]
		if res.Code != 0 {
			w.side.Count("deliver:rejected")
		} else {
			predicted = true
			w.side.Count("prediction:Simulate")
			if got := fromEthResult(res); !got.same(s1.res) {
				w.side.Hit("C08/query/prediction/Simulate", fmt.Sprintf("%s: simulation said %v, delivered as the next transaction %v", s.name, s1.res, got), cs)
			}
		}
	}
	return stepOut{kind: "simulate", canon: fmt.Sprintf("simulate|%s|%x|%d|%v|%v", s.name, s.data, gas, s1.err, predicted), nontrivial: !s1.err, desc: cs}
}

// ------------------------------------------------------------------ plain gRPC queries

type grpcReq struct {
	name, path string
	data       []byte
	expect     []byte // what the answer must be, computed from committed state through the keepers (nil = not computed)
}

func (w *world) genGrpc(r *Rng) grpcReq {
	c := w.c
	ctx := c.QueryCtx()
	addrs := []common.Address{w.fwd, w.counter, w.refunder, w.sd, w.creator, w.rcpt, w.nobody, w.erc20, w.senders[0].GetEthAddress(), w.senders[2].GetEthAddress()}
	a := addrs[r.Intn(len(addrs))]
	k := c.App.EvmKeeper
	switch r.Intn(15) {
	case 0:
		var nonce uint64
		if acc := c.App.AccountKeeper.GetAccount(ctx, a.Bytes()); acc != nil {
			nonce = acc.GetSequence()
		}
		exp := &evmtypes.QueryAccountResponse{Nonce: nonce, Balance: c.EvmBal(ctx, a).String(), CodeHash: k.GetCodeHash(ctx, a.Bytes()).Hex()}
		return grpcReq{"evm/Account", pathEvm + "Account", w.mustMarshal(&evmtypes.QueryAccountRequest{Address: a.Hex()}), w.mustMarshal(exp)}
	case 1:
		exp := &evmtypes.QueryCosmosAccountResponse{CosmosAddress: sdk.AccAddress(a.Bytes()).String()}
		if acc := c.App.AccountKeeper.GetAccount(ctx, a.Bytes()); acc != nil {
			exp.Sequence, exp.AccountNumber = acc.GetSequence(), acc.GetAccountNumber()
		}
		return grpcReq{"evm/CosmosAccount", pathEvm + "CosmosAccount", w.mustMarshal(&evmtypes.QueryCosmosAccountRequest{Address: a.Hex()}), w.mustMarshal(exp)}
	case 2:
		cons := sdk.ConsAddress(c.S.ValidatorAccounts.Number(1 + r.Intn(2)).GetConsensusAddress())
		return grpcReq{"evm/ValidatorAccount", pathEvm + "ValidatorAccount", w.mustMarshal(&evmtypes.QueryValidatorAccountRequest{ConsAddress: cons.String()}), nil}
	case 3:
		exp := &evmtypes.QueryBalanceResponse{Balance: c.EvmBal(ctx, a).String()}
		return grpcReq{"evm/Balance", pathEvm + "Balance", w.mustMarshal(&evmtypes.QueryBalanceRequest{Address: a.Hex()}), w.mustMarshal(exp)}
	case 4:
		key := common.BigToHash(Bi(int64(r.Intn(9))))
		if r.Chance(30) {
			key = common.BigToHash(Bi(int64(21 + r.Intn(60))))
		}
		exp := &evmtypes.QueryStorageResponse{Value: k.GetState(ctx, a, key).Hex()}
		return grpcReq{"evm/Storage", pathEvm + "Storage", w.mustMarshal(&evmtypes.QueryStorageRequest{Address: a.Hex(), Key: key.Hex()}), w.mustMarshal(exp)}
	case 5:
		exp := &evmtypes.QueryCodeResponse{}
		if ch := k.GetCodeHash(ctx, a.Bytes()); !evmtypes.IsEmptyCodeHash(ch) {
			exp.Code = k.GetCode(ctx, ch)
		}
		return grpcReq{"evm/Code", pathEvm + "Code", w.mustMarshal(&evmtypes.QueryCodeRequest{Address: a.Hex()}), w.mustMarshal(exp)}
	case 6:
		exp := &evmtypes.QueryParamsResponse{Params: k.GetParams(ctx)}
		return grpcReq{"evm/Params", pathEvm + "Params", w.mustMarshal(&evmtypes.QueryParamsRequest{}), w.mustMarshal(exp)}
	case 7:
		bf := sdkmath.NewIntFromBigInt(c.BaseFee(ctx))
		exp := &evmtypes.QueryBaseFeeResponse{BaseFee: bf}
		return grpcReq{"evm/BaseFee", pathEvm + "BaseFee", w.mustMarshal(&evmtypes.QueryBaseFeeRequest{}), w.mustMarshal(exp)}
	case 8:
		exp := &feemarkettypes.QueryParamsResponse{Params: c.App.FeeMarketKeeper.GetParams(ctx)}
		return grpcReq{"feemarket/Params", pathFeemarket + "Params", w.mustMarshal(&feemarkettypes.QueryParamsRequest{}), w.mustMarshal(exp)}
	case 9:
		return grpcReq{"feemarket/BaseFee", pathFeemarket + "BaseFee", w.mustMarshal(&feemarkettypes.QueryBaseFeeRequest{}), nil}
	case 10:
		return grpcReq{"cpc/CustomPrecompiledContracts", pathCpc + "CustomPrecompiledContracts", w.mustMarshal(&cpctypes.QueryCustomPrecompiledContractsRequest{}), nil}
	case 11:
		t := []common.Address{w.erc20, w.staking, w.nobody}[r.Intn(3)]
		return grpcReq{"cpc/CustomPrecompiledContract", pathCpc + "CustomPrecompiledContract", w.mustMarshal(&cpctypes.QueryCustomPrecompiledContractRequest{Address: t.Hex()}), nil}
	case 12:
		d := []string{c.Denom(), "nosuchdenom"}[r.Intn(2)]
		return grpcReq{"cpc/Erc20ByDenom", pathCpc + "Erc20CustomPrecompiledContractByDenom", w.mustMarshal(&cpctypes.QueryErc20CustomPrecompiledContractByDenomRequest{MinDenom: d}), nil}
	case 13:
		return grpcReq{"cpc/Params", pathCpc + "Params", w.mustMarshal(&cpctypes.QueryParamsRequest{}), nil}
	default:
		acc := sdk.AccAddress(a.Bytes())
		return grpcReq{"vauth/ProofExternalOwnedAccount", pathVauth + "ProofExternalOwnedAccount", w.mustMarshal(&vauthtypes.QueryProofExternalOwnedAccountRequest{Account: acc.String()}), nil}
	}
}

func (w *world) stepGrpc(r *Rng) stepOut {
	g := w.genGrpc(r)
	cs := w.desc("grpc", "query", g.name, "request", hex.EncodeToString(g.data))
	a := w.twice(r, "grpc:"+g.name, cs, func() answer { return w.query(g.path, g.data, 0) })
	w.side.Count(fmt.Sprintf("grpc:%s:ok=%v", g.name, a.code == 0))
	if g.expect != nil && (a.code != 0 || hex.EncodeToString(a.value) != hex.EncodeToString(g.expect)) {
		w.side.Hit("C08/query/answer-is-not-committed-state/"+g.name, fmt.Sprintf("answer %x (code %d), committed state says %x", a.value, a.code, g.expect), cs)
	}
	w.remember("grpc:"+g.name, g.path, g.data, a)
	return stepOut{kind: "grpc", canon: "grpc|" + g.name + "|" + hex.EncodeToString(g.data) + "|" + a.canon(), nontrivial: a.code == 0, desc: cs}
}

// ------------------------------------------------------------------ history: the same request at its old height

func (w *world) stepHistory(r *Rng) stepOut {
	if len(w.hist) == 0 {
		return w.stepGrpc(r)
	}
	e := w.hist[r.Intn(len(w.hist))]
	cs := w.desc("history", "query", e.kind, "at", e.height, "request", hex.EncodeToString(e.data))
	before := w.observe()
	a := w.query(e.path, e.data, e.height)
	w.mustBePure(before, e.kind, e.kind+" at an old height", cs)
	same := a.canon() == e.answer
	w.side.Count(fmt.Sprintf("history:%s:age>0=%v", strings.SplitN(e.kind, ":", 2)[0], e.height < w.c.Height-1))
	if !same {
		w.side.Hit("C08/query/answer-changed-for-the-same-height/"+strings.SplitN(e.kind, ":", 2)[0],
			fmt.Sprintf("%s asked at height %d answered %s when that was the latest height and %s now (latest %d)", e.kind, e.height, e.answer, a.canon(), w.c.Height-1), cs)
	}
	return stepOut{kind: "history", canon: fmt.Sprintf("history|%s|%x|%d|%d", e.kind, e.data, e.height, w.c.Height), nontrivial: e.height < w.c.Height-1, desc: cs}
}

// ------------------------------------------------------------------ block execution in between

func (w *world) stepBlock(r *Rng) stepOut {
	n := r.Intn(4)
	var txs [][]byte
	var msgs []*evmtypes.MsgEthereumTx
	var specs []callSpec
	var names []string
	for _, si := range perm4(r)[:n] {
		s := w.genCall(r)
		bz, msg := w.signedTx(s, si, pickGas(r), 0)
		txs, msgs, specs = append(txs, bz), append(msgs, msg), append(specs, s)
		names = append(names, s.name)
	}
	res := w.runBlock(txs, msgs, specs)
	okc := 0
	for _, x := range res {
		if x.Code == 0 && x.VmError == "" {
			okc++
		}
	}
	extra := ""
	switch r.Intn(5) {
	case 0:
		w.replaceSelfDestruct()
		w.runBlock(nil, nil, nil)
		extra = "redeploy-selfdestruct"
	case 1:
		// governance-style parameter change between blocks (both chains): contract creation off / on
		w.both(func(c *Chain) {
			ctx := c.Ctx()
			p := c.App.EvmKeeper.GetParams(ctx)
			p.EnableCreate = !p.EnableCreate
			require.NoError(w.t, c.App.EvmKeeper.SetParams(ctx, p))
		})
		w.runBlock(nil, nil, nil)
		extra = "toggle-enable-create"
	}
	if extra != "" {
		w.side.Count("between-blocks:" + extra)
	}
	cs := w.desc("block", "calls", names, "between", extra)
	return stepOut{kind: "block", canon: fmt.Sprintf("block|%v|%d|%s|%d", names, okc, extra, w.c.Height), nontrivial: n > 0, desc: cs}
}

