package query

// stepMempoolSeq (C08, "mempool admission (including its trial execution of Ethereum transactions) ... results depend only
// on the committed state ... and the request"): SEQUENCES of CheckTx calls of ONE sender between two commits, and the
// check state they leave behind.
//
//   CheckTx(A, nonce n)                 admitted
//   check state == committed state + the ante handler's effects of A only:  sender sequence n+1, fee moved from the sender to
//                  the fee collector, nothing else in any store (the trial execution ran on a branch that is dropped:
//                  neither its EVM writes nor its sequence roll-back may be seen)
//   CheckTx(B, nonce n again)           must be refused
//   CheckTx(C, nonce n+1)               must be admitted; check state sequence n+2
//   block with A (and sometimes C); ReCheckTx of what was left: C admitted (sequence n+2 again), B refused
//
// Oracle signatures:
//   C08/query/checktx-trial-execution-leaked-into-check-state      the check state is not "committed + ante effects"
//   C08/query/checktx-admission/same-nonce-admitted-twice          /next-nonce-refused   /recheck-...
// Model case QTrial (Corr/CorrQuery.v): the sender sequence in the check state after each admitted CheckTx, computed by
// the model's trial_exec (ante increment, roll-back on the branch, arbitrary program, branch dropped).

import (
	"encoding/hex"
	"fmt"
	"math/big"
	"sort"
	"strings"

	sdk "github.com/cosmos/cosmos-sdk/types"
	authtypes "github.com/cosmos/cosmos-sdk/x/auth/types"
	"github.com/ethereum/go-ethereum/common"
	"github.com/stretchr/testify/require"

	evmtypes "github.com/EscanBE/evermint/v12/x/evm/types"

	. "verifharness/hx"
)

func (w *world) checkCtx() sdk.Context { return w.c.App.BaseApp.NewContext(true) }

// storeDiff lists "store/key" of every entry that differs between two views of the chain's stores.
func (w *world) storeDiff(a, b sdk.Context) []string {
	var out []string
	for n, key := range w.c.App.GetKVStoreKey() {
		da, db := map[string]string{}, map[string]string{}
		for _, x := range []struct {
			ctx sdk.Context
			m   map[string]string
		}{{a, da}, {b, db}} {
			it := x.ctx.MultiStore().GetKVStore(key).Iterator(nil, nil)
			for ; it.Valid(); it.Next() {
				x.m[string(it.Key())] = string(it.Value())
			}
			it.Close()
		}
		for k, v := range da {
			if vb, ok := db[k]; !ok || vb != v {
				out = append(out, fmt.Sprintf("%s/%x", n, k))
			}
		}
		for k := range db {
			if _, ok := da[k]; !ok {
				out = append(out, fmt.Sprintf("%s/%x", n, k))
			}
		}
	}
	sort.Strings(out)
	return out
}

// checkStateIs: the check state must be the committed state plus the ante handler's effects of `admitted` transactions
// of the sender: sequence n0+admitted, fees moved to the fee collector, nothing else.
func (w *world) checkStateIs(si int, n0 uint64, admitted int, when string, cs interface{}) (seq uint64) {
	q, ck := w.c.QueryCtx(), w.checkCtx()
	from := w.senders[si].GetEthAddress()
	seq = w.c.Nonce(ck, from)
	w.side.Count(fmt.Sprintf("mempool:check-state-sequence-offset=%d", int64(seq)-int64(n0)))
	bad := ""
	if seq != n0+uint64(admitted) {
		bad = fmt.Sprintf("sender sequence in the check state is %d, committed %d + %d admitted transaction(s)", seq, n0, admitted)
	}
	diff := w.storeDiff(q, ck)
	collector := authtypes.NewModuleAddress(authtypes.FeeCollectorName)
	paid := new(big.Int).Sub(w.c.Bal(q, sdk.AccAddress(from.Bytes()), w.c.Denom()), w.c.Bal(ck, sdk.AccAddress(from.Bytes()), w.c.Denom()))
	got := new(big.Int).Sub(w.c.Bal(ck, collector, w.c.Denom()), w.c.Bal(q, collector, w.c.Denom()))
	// every differing entry must belong to the sender (account, balance, balance indexes) or to the fee collector's balance
	var foreign []string
	for _, d := range diff {
		st := d[:strings.Index(d, "/")]
		key := d[len(st)+1:]
		mine := strings.Contains(key, hex.EncodeToString(from.Bytes()))
		coll := strings.Contains(key, hex.EncodeToString(collector))
		if !(st == "acc" && mine) && !(st == "bank" && (mine || coll)) {
			foreign = append(foreign, d)
		}
	}
	if bad == "" {
		switch {
		case len(foreign) > 0:
			bad = fmt.Sprintf("check state differs from committed state in entries that are neither the sender's account / balance nor the fee collector's balance: %v", foreign)
		case admitted > 0 && (paid.Sign() <= 0 || paid.Cmp(got) != 0):
			bad = fmt.Sprintf("fee bookkeeping of the check state: sender paid %s, fee collector got %s", paid, got)
		case admitted == 0 && len(diff) > 0:
			bad = fmt.Sprintf("check state differs from committed state although nothing was admitted: %v", diff)
		}
	}
	if bad != "" {
		w.side.Hit("C08/query/checktx-trial-execution-leaked-into-check-state", when+": "+bad, cs)
	}
	return seq
}

func (w *world) stepMempoolSeq(r *Rng) stepOut {
	// a commit resets the check state to the committed state (earlier steps may have left admitted transactions of the
	// mempool sender in it)
	w.runBlock(nil, nil, nil)
	si := r.Intn(4)
	from := w.senders[si].GetEthAddress()
	n0 := w.c.Nonce(w.c.QueryCtx(), from)
	pickCall := func() callSpec {
		switch r.Intn(6) {
		case 0:
			return callSpec{name: "fwd>counter/return", to: p(w.fwd), data: FwdInput(FwdReturn, w.counter, nil), predictable: true}
		case 1:
			return callSpec{name: "fwd>erc20.transfer/revert", to: p(w.fwd), data: FwdInput(FwdRevert, w.erc20, abi2(selTransfer, w.rcpt, Bi(777))), predictable: true}
		case 2:
			return callSpec{name: "creator", to: p(w.creator), predictable: true}
		case 3:
			return callSpec{name: "fwd>staking.delegate/return", to: p(w.fwd), data: FwdInput(FwdReturn, w.staking, abi2(selDelegate, common.BytesToAddress(w.val.Bytes()), Bi(2_000_000))), predictable: true}
		case 4:
			return callSpec{name: "sstore-worker", to: p(w.worker), data: word(r.U64() >> 8), predictable: true}
		default:
			return callSpec{name: "counter", to: p(w.counter), predictable: true}
		}
	}
	a, b, c := pickCall(), pickCall(), pickCall()
	bzA, msgA := w.signedTx(a, si, 400_000, 0)
	bzB, _ := w.signedTx(b, si, 400_000+uint64(1+r.Intn(1000)), 0) // same nonce, another transaction
	bzC, msgC := w.signedTx(c, si, 400_000, 1)
	cs := w.desc("mempoolseq", "sender", si, "nonce", n0, "calls", []string{a.name, b.name, c.name})
	w.pending[si] = true
	var seqs []string
	check := func(bz []byte, recheck bool, what string) bool {
		before := w.observe()
		resp, err := w.c.CheckTx(bz, recheck)
		require.NoError(w.t, err)
		w.mustBePure(before, "CheckTx", what, cs)
		return resp.Code == 0
	}
	w.checkStateIs(si, n0, 0, "before any CheckTx", cs)
	okA := check(bzA, false, "CheckTx(A, nonce n)")
	w.side.Count(fmt.Sprintf("mempool:A-admitted=%v", okA))
	if !okA {
		return stepOut{kind: "mempoolseq", canon: fmt.Sprintf("mempoolseq|%s|not-admitted", a.name), desc: cs}
	}
	seqs = append(seqs, CqN(w.checkStateIs(si, n0, 1, "after CheckTx(A, nonce n)", cs)))
	admitted := 1
	// B (nonce n again) and C (nonce n+1), in either order
	bFirst := r.Bool()
	okC := false
	for k := 0; k < 2; k++ {
		if (k == 0) == bFirst {
			if check(bzB, false, "CheckTx(B, nonce n again)") {
				w.side.Hit("C08/query/checktx-admission/same-nonce-admitted-twice", fmt.Sprintf("after CheckTx admitted a transaction with nonce %d, another transaction of that sender with the same nonce is admitted too", n0), cs)
				admitted++
			}
			w.side.Count("mempool:same-nonce-again")
			w.checkStateIs(si, n0, admitted, "after CheckTx(B, nonce n again)", cs)
		} else {
			okC = check(bzC, false, "CheckTx(C, nonce n+1)")
			if !okC {
				w.side.Hit("C08/query/checktx-admission/next-nonce-refused", fmt.Sprintf("after CheckTx admitted a transaction with nonce %d, the sender's next transaction (nonce %d) is refused", n0, n0+1), cs)
			} else {
				admitted++
				seqs = append(seqs, CqN(w.checkStateIs(si, n0, admitted, "after CheckTx(C, nonce n+1)", cs)))
			}
			w.side.Count(fmt.Sprintf("mempool:next-nonce-admitted=%v", okC))
		}
	}
	// an uninvolved query in between must not see any of it
	w.stepEthCallQuiet(r, cs)
	// the block: A alone, or A and C
	txs, msgs, specs := [][]byte{bzA}, []*evmtypes.MsgEthereumTx{msgA}, []callSpec{a}
	withC := r.Chance(40)
	if withC {
		txs, msgs, specs = append(txs, bzC), append(msgs, msgC), append(specs, c)
	}
	res := w.runBlock(txs, msgs, specs)
	n1 := w.c.Nonce(w.c.QueryCtx(), from)
	w.checkStateIs(si, n1, 0, "after the commit", cs)
	if res[0].Code == 0 && !withC {
		w.pending[si] = true
		// re-check what is left in the mempool: C is the sender's next transaction, B is stale
		if !check(bzC, true, "ReCheckTx(C)") {
			w.side.Hit("C08/query/checktx-admission/recheck-next-nonce-refused", "after the block with A, the re-check of C (the sender's next nonce) is refused", cs)
		} else {
			w.checkStateIs(si, n1, 1, "after ReCheckTx(C)", cs)
		}
		if check(bzB, true, "ReCheckTx(B)") {
			w.side.Hit("C08/query/checktx-admission/recheck-stale-nonce-admitted", "after the block with A, the re-check of B (A's nonce) is admitted", cs)
		}
		w.side.Count("mempool:recheck")
	}
	coq := fmt.Sprintf("QTrial %s %s", CqN(n0), CqList(seqs))
	return stepOut{kind: "mempoolseq", canon: fmt.Sprintf("mempoolseq|%s|%s|%s|%v|%v|%v", a.name, b.name, c.name, bFirst, okC, withC), nontrivial: okC, desc: cs, coq: coq}
}
