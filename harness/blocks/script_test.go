package blocks

// Destruction scenarios for the `blocks` driver (C04): straight-line "scripts" compiled to init code
// (a contract-creation transaction executes the script in its creation frame) and an independent reference
// interpreter of their effect on balances, written from the Yellow-Paper / go-ethereum semantics of CALL,
// CREATE, CREATE2, REVERT and SELFDESTRUCT (pre-Cancun).  Nothing here reads x/evm/vm.

import (
	"fmt"
	"math/big"
	"sort"
	"strings"

	"github.com/ethereum/go-ethereum/common"
	"github.com/ethereum/go-ethereum/crypto"

	. "verifharness/hx"
)

const (
	opcADDRESS      byte = 0x30
	opcCALLVALUE    byte = 0x34
	opcCALLDATALOAD byte = 0x35
	opcLOG1         byte = 0xa1
	opcCREATE       byte = 0xf0
	opcCREATE2      byte = 0xf5
	opcSELFDESTRUCT byte = 0xff
)

// rtK: empty calldata -> STOP (accepts value); otherwise SELFDESTRUCT(address in calldata word 0).
var rtK = []byte{0x36, 0x60, 0x05, 0x57, 0x00, 0x5b, 0x60, 0x00, 0x35, 0xff}

func initK() []byte { return InitCode(rtK) }

// factory: CREATE2(value = CALLVALUE, init = initK, salt = calldata word 0); REVERT when the creation failed
// (address collision), so that the value goes back to the caller.
func buildFactory() []byte {
	ik := initK()
	a := NewAsm()
	a.Data("ki", ik)
	a.PushU(uint64(len(ik))).PushLabel("ki").PushU(0).Op(OpCODECOPY)
	a.PushU(0).Op(opcCALLDATALOAD).PushU(uint64(len(ik))).PushU(0).Op(opcCALLVALUE, opcCREATE2)
	a.Op(OpISZERO).PushLabel("rev").Op(OpJUMPI).Op(OpSTOP)
	a.Label("rev").PushU(0).PushU(0).Op(OpREVERT)
	return a.Bytes()
}

func c2Address(factory common.Address, salt uint64) common.Address {
	var s [32]byte
	new(big.Int).SetUint64(salt).FillBytes(s[:])
	return crypto.CreateAddress2(factory, s, crypto.Keccak256(initK()))
}

type sopKind int

const (
	sSD   sopKind = iota // CALL target (a K) with value and calldata = beneficiary: target self-destructs
	sFund                // CALL target with value, empty calldata
	sC2                  // CALL factory with value, calldata = salt: CREATE2 of a K
	sSub                 // CREATE a child frame running a sub-script, with value
	sLog                 // LOG1
)

const (
	endStop = iota
	endRevert
	endSD
)

type sop struct {
	kind      sopKind
	target    common.Address
	value     *big.Int
	benef     common.Address
	benefSelf bool // beneficiary = the executing frame
	salt      uint64
	sub       *script
}

type script struct {
	ops       []sop
	end       int
	endBenef  common.Address
	endToSelf bool
}

func (s *script) size() int {
	n := len(s.ops)
	for _, o := range s.ops {
		if o.kind == sSub {
			n += o.sub.size()
		}
	}
	return n
}

func (s *script) String() string {
	var parts []string
	for _, o := range s.ops {
		switch o.kind {
		case sSD:
			b := o.benef.Hex()[:10]
			if o.benefSelf {
				b = "frame"
			}
			parts = append(parts, fmt.Sprintf("sd(%s,v=%s,to=%s)", o.target.Hex()[:10], o.value, b))
		case sFund:
			parts = append(parts, fmt.Sprintf("fund(%s,v=%s)", o.target.Hex()[:10], o.value))
		case sC2:
			parts = append(parts, fmt.Sprintf("create2(salt=%d,v=%s)", o.salt, o.value))
		case sSub:
			parts = append(parts, fmt.Sprintf("sub(v=%s){%s}", o.value, o.sub.String()))
		case sLog:
			parts = append(parts, "log")
		}
	}
	switch s.end {
	case endRevert:
		parts = append(parts, "REVERT")
	case endSD:
		if s.endToSelf {
			parts = append(parts, "SELFDESTRUCT(frame)")
		} else {
			parts = append(parts, "SELFDESTRUCT("+s.endBenef.Hex()[:10]+")")
		}
	default:
		parts = append(parts, "STOP")
	}
	return strings.Join(parts, ";")
}

// compile to init code executed by a creation frame
func (s *script) compile(factory common.Address) []byte {
	a := NewAsm()
	for i, o := range s.ops {
		switch o.kind {
		case sSD:
			if o.benefSelf {
				a.Op(opcADDRESS)
			} else {
				a.PushAddr(o.benef)
			}
			a.PushU(0).Op(OpMSTORE)
			a.PushU(0).PushU(0).PushU(32).PushU(0).Push(o.value).PushAddr(o.target).Op(OpGAS, OpCALL, OpPOP)
		case sFund:
			a.PushU(0).PushU(0).PushU(0).PushU(0).Push(o.value).PushAddr(o.target).Op(OpGAS, OpCALL, OpPOP)
		case sC2:
			a.PushU(o.salt).PushU(0).Op(OpMSTORE)
			a.PushU(0).PushU(0).PushU(32).PushU(0).Push(o.value).PushAddr(factory).PushU(150000).Op(OpCALL, OpPOP)
		case sSub:
			code := o.sub.compile(factory)
			lbl := fmt.Sprintf("sub%d", i)
			a.Data(lbl, code)
			a.PushU(uint64(len(code))).PushLabel(lbl).PushU(64).Op(OpCODECOPY)
			a.PushU(uint64(len(code))).PushU(64).Push(o.value).Op(opcCREATE, OpPOP)
		case sLog:
			a.PushU(uint64(0xabc0 + i)).PushU(0).PushU(0).Op(opcLOG1)
		}
	}
	switch s.end {
	case endRevert:
		a.PushU(0).PushU(0).Op(OpREVERT)
	case endSD:
		if s.endToSelf {
			a.Op(opcADDRESS)
		} else {
			a.PushAddr(s.endBenef)
		}
		a.Op(opcSELFDESTRUCT)
	default:
		a.Op(OpSTOP)
	}
	return a.Bytes()
}

// addresses a script may touch when run in `frame` (superset: child frames for every possible nonce)
func (s *script) addresses(frame common.Address, factory common.Address, out map[common.Address]bool) {
	out[frame] = true
	nsub := 0
	for _, o := range s.ops {
		switch o.kind {
		case sSD:
			out[o.target] = true
			if !o.benefSelf {
				out[o.benef] = true
			}
		case sFund:
			out[o.target] = true
		case sC2:
			out[factory] = true
			out[c2Address(factory, o.salt)] = true
		case sSub:
			nsub++
		}
	}
	if s.end == endSD && !s.endToSelf {
		out[s.endBenef] = true
	}
	k := 0
	for _, o := range s.ops {
		if o.kind == sSub {
			k++
			// the child's address depends on how many earlier CREATEs passed the balance check: nonce in 1..k
			for n := 1; n <= k; n++ {
				o.sub.addresses(crypto.CreateAddress(frame, uint64(n)), factory, out)
			}
		}
	}
}

// ---------------------------------------------------------------- reference state

// balances in the denominations other than the EVM one (never mutated in place)
type coins map[string]*big.Int

func (c coins) get(d string) *big.Int {
	if v, ok := c[d]; ok {
		return v
	}
	return big.NewInt(0)
}

func (c coins) isZero() bool {
	for _, v := range c {
		if v.Sign() != 0 {
			return false
		}
	}
	return true
}

type refState struct {
	bal        map[common.Address]*big.Int // values are never mutated in place
	// balances in every other denomination: the interpreter has no instruction that reads or moves them, so a frame
	// (reverted or not) cannot change them; only the deletion of a self-destructed account at the end of the
	// transaction destroys them, together with the account.  A created account keeps what its address held.
	fbal          map[common.Address]coins
	fburn         coins                   // destroyed so far, per denomination
	created       map[common.Address]bool // accounts (re-)created by surviving frames of the current tx
	lastCreated   []common.Address        // ... of the last finished tx, sorted
	lastDestroyed []common.Address        // accounts deleted at the end of the last finished tx (self-destructed), sorted
	isK        map[common.Address]bool     // accounts whose code is rtK (including self-destructed ones until the tx ends)
	nonce      map[common.Address]uint64   // nonces of contracts created in the current tx
	destructed map[common.Address]bool
	burn       *big.Int
	logs       int
	factory    common.Address
	stats      map[string]int // what the executed scenarios reached (shared by clones; never restored)
	// module accounts (app/modules.go maccPerms): the bank refuses to credit their addresses, and the guard of
	// x/evm/vm DestroyAccount refuses to delete them.  x/evm/vm has no error channel for either: AddBalance (mintCoins)
	// and CommitMultiStore (DestroyAccount of a touched account that is empty) PANIC, which aborts the whole
	// transaction wherever it happens (a REVERT of the frame cannot catch it).
	blocked    map[common.Address]bool // addresses of module accounts (shared, read-only)
	modNames   map[common.Address]string // their names, for the statistics (shared, read-only)
	isModAcc   map[common.Address]bool // ... that exist as module accounts in the state before the block (shared, read-only)
	modTouched map[common.Address]bool // module-account addresses touched by surviving frames of the current tx (journaled like every other change)
	panicked   string                  // "" or why the current transaction is aborted by a panic (never restored by a revert)
}

func newRefState(factory common.Address) *refState {
	return &refState{bal: map[common.Address]*big.Int{}, isK: map[common.Address]bool{}, nonce: map[common.Address]uint64{},
		destructed: map[common.Address]bool{}, burn: big.NewInt(0), factory: factory, stats: map[string]int{},
		fbal: map[common.Address]coins{}, fburn: coins{}, created: map[common.Address]bool{},
		blocked: map[common.Address]bool{}, modNames: map[common.Address]string{}, isModAcc: map[common.Address]bool{}, modTouched: map[common.Address]bool{}}
}

// an independent copy on which a transaction can be tried out (own statistics)
func (st *refState) trial() *refState {
	c := st.clone()
	c.stats = map[string]int{}
	c.fbal = make(map[common.Address]coins, len(st.fbal))
	for k, v := range st.fbal {
		c.fbal[k] = v
	}
	c.fburn = coins{}
	for k, v := range st.fburn {
		c.fburn[k] = v
	}
	return c
}

func (st *refState) abort(reason string) {
	if st.panicked == "" {
		st.panicked = reason
	}
}

// the address is credited with v (CALL value, SELFDESTRUCT balance): AddBalance touches it and, for v > 0, mints to it
func (st *refState) credit(a common.Address, v *big.Int) {
	if !st.blocked[a] {
		return
	}
	st.modTouched[a] = true
	if v.Sign() > 0 {
		st.stats["module-account-credited-with-value:"+st.modNames[a]]++
		st.abort("value-credited-to-module-account")
	} else {
		st.stats["module-account-touched-with-zero-value:"+st.modNames[a]]++
	}
}

func (st *refState) clone() *refState {
	c := &refState{bal: make(map[common.Address]*big.Int, len(st.bal)), isK: make(map[common.Address]bool, len(st.isK)),
		nonce: make(map[common.Address]uint64, len(st.nonce)), destructed: make(map[common.Address]bool, len(st.destructed)),
		burn: new(big.Int).Set(st.burn), logs: st.logs, factory: st.factory, stats: st.stats,
		fbal: st.fbal, fburn: st.fburn, created: make(map[common.Address]bool, len(st.created)),
		blocked: st.blocked, modNames: st.modNames, isModAcc: st.isModAcc, modTouched: make(map[common.Address]bool, len(st.modTouched)), panicked: st.panicked}
	for k, v := range st.modTouched {
		c.modTouched[k] = v
	}
	for k, v := range st.created {
		c.created[k] = v
	}
	for k, v := range st.bal {
		c.bal[k] = v
	}
	for k, v := range st.isK {
		c.isK[k] = v
	}
	for k, v := range st.nonce {
		c.nonce[k] = v
	}
	for k, v := range st.destructed {
		c.destructed[k] = v
	}
	return c
}

func (st *refState) restore(c *refState) {
	st.bal, st.isK, st.nonce, st.destructed, st.burn, st.logs, st.created = c.bal, c.isK, c.nonce, c.destructed, c.burn, c.logs, c.created
	st.modTouched = c.modTouched // the touched set is part of a snapshot; a panic is not undone by anything
}

func (st *refState) get(a common.Address) *big.Int {
	if v, ok := st.bal[a]; ok {
		return v
	}
	return big.NewInt(0)
}

func (st *refState) add(a common.Address, d *big.Int) { st.bal[a] = new(big.Int).Add(st.get(a), d) }

// value transfer of a CALL / CREATE: false (and no effect) when the payer cannot afford it
func (st *refState) transfer(from, to common.Address, v *big.Int) bool {
	if st.get(from).Cmp(v) < 0 {
		return false
	}
	st.credit(to, v) // core.Transfer: SubBalance(from, v); AddBalance(to, v), also for v = 0 (an existing module account is touched)
	if st.panicked != "" {
		return true
	}
	if v.Sign() != 0 {
		st.add(from, new(big.Int).Neg(v))
		st.add(to, v)
		if st.destructed[to] {
			st.stats["destroyed-account-refunded"]++
		}
	}
	return true
}

// a CREATE/CREATE2 that passed the collision check makes a new account object at the address; whatever the address
// already held (in any denomination) is carried over
func (st *refState) markCreated(a common.Address) {
	st.created[a] = true
	if !st.fbal[a].isZero() {
		st.stats["created-at-address-holding-other-denoms"]++
	}
}

// SELFDESTRUCT executed by account a with beneficiary b: only the EVM denomination moves
func (st *refState) selfdestruct(a, b common.Address) {
	amt := st.get(a)
	if st.destructed[a] {
		st.stats["selfdestruct-repeated"]++
		if amt.Sign() > 0 {
			st.stats["selfdestruct-repeated-with-balance"]++
		}
	}
	if st.destructed[b] && amt.Sign() > 0 {
		st.stats["destroyed-account-refunded"]++
	}
	st.credit(b, amt) // opSuicide: AddBalance(beneficiary, balance) comes first
	if st.panicked != "" {
		return
	}
	if a == b {
		st.stats["selfdestruct-to-self"]++
		st.burn = new(big.Int).Add(st.burn, amt) // the balance vanishes
	} else {
		st.add(b, amt)
	}
	st.bal[a] = big.NewInt(0)
	st.destructed[a] = true
}

// a message call with value to target with (non-)empty calldata, from `from`
func (st *refState) callK(from, target common.Address, v *big.Int, withData bool, benef common.Address) {
	if !st.transfer(from, target, v) || st.panicked != "" {
		return
	}
	if st.isK[target] && withData {
		st.selfdestruct(target, benef)
	}
}

// run a script in frame `frame` (already created, endowment already transferred); reports whether the frame reverted
func (st *refState) run(frame common.Address, s *script) (reverted bool) {
	for _, o := range s.ops {
		if st.panicked != "" {
			return false // the transaction is gone
		}
		switch o.kind {
		case sSD:
			b := o.benef
			if o.benefSelf {
				b = frame
			}
			st.callK(frame, o.target, o.value, true, b)
		case sFund:
			st.callK(frame, o.target, o.value, false, common.Address{})
		case sC2:
			snap := st.clone()
			if !st.transfer(frame, st.factory, o.value) {
				break
			}
			ka := c2Address(st.factory, o.salt)
			if st.isK[ka] || !st.transfer(st.factory, ka, o.value) { // collision: CREATE2 fails, the factory reverts
				st.restore(snap)
				break
			}
			st.isK[ka] = true
			st.markCreated(ka)
			st.stats["create2-in-script"]++
		case sSub:
			if st.get(frame).Cmp(o.value) < 0 {
				break // CREATE fails before the nonce is touched
			}
			n := st.nonce[frame]
			st.nonce[frame] = n + 1
			child := crypto.CreateAddress(frame, n)
			snap := st.clone()
			st.nonce[child] = 1
			st.markCreated(child)
			st.transfer(frame, child, o.value)
			if st.run(child, o.sub) && st.panicked == "" {
				if len(st.destructed) > len(snap.destructed) {
					st.stats["selfdestruct-in-reverted-frame"]++
				}
				st.restore(snap)
			}
		case sLog:
			st.logs++
		}
	}
	if st.panicked != "" {
		return false
	}
	switch s.end {
	case endRevert:
		return true
	case endSD:
		b := s.endBenef
		if s.endToSelf {
			b = frame
		}
		st.selfdestruct(frame, b)
	}
	return false
}

// end of a committed transaction: self-destructed accounts are deleted, whatever they still hold is destroyed
func (st *refState) finishTx() {
	// CommitMultiStore(true): every touched account that is self-destructed or EMPTY goes through DestroyAccount,
	// whose guard panics for a module account (x/evm/utils CheckIfAccountIsSuitableForDestroyingAt)
	for a := range st.modTouched {
		if st.panicked == "" && st.isModAcc[a] && st.get(a).Sign() == 0 && st.fbal[a].isZero() {
			st.stats["module-account-empty-at-commit:"+st.modNames[a]]++
			st.abort("touched-empty-module-account")
		}
	}
	st.modTouched = map[common.Address]bool{}
	if st.panicked != "" {
		return
	}
	ds := make([]common.Address, 0, len(st.destructed))
	for a := range st.destructed {
		ds = append(ds, a)
	}
	sort.Slice(ds, func(i, j int) bool { return ds[i].Hex() < ds[j].Hex() })
	for _, a := range ds {
		st.burn = new(big.Int).Add(st.burn, st.get(a))
		st.bal[a] = big.NewInt(0)
		delete(st.isK, a)
		// the account is deleted with everything it holds: every denomination
		if f := st.fbal[a]; !f.isZero() {
			st.stats["destroyed-account-held-other-denoms"]++
			nb := coins{}
			for d, v := range st.fburn {
				nb[d] = v
			}
			for d, v := range f {
				nb[d] = new(big.Int).Add(nb.get(d), v)
			}
			st.fburn = nb
			st.fbal[a] = coins{}
		}
	}
	st.lastDestroyed = ds
	st.lastCreated = st.lastCreated[:0:0]
	for a := range st.created {
		st.lastCreated = append(st.lastCreated, a)
	}
	sort.Slice(st.lastCreated, func(i, j int) bool { return st.lastCreated[i].Hex() < st.lastCreated[j].Hex() })
	st.created = map[common.Address]bool{}
	st.destructed = map[common.Address]bool{}
	st.nonce = map[common.Address]uint64{}
}

// a bank send of other denominations (Cosmos transaction, already known to have succeeded)
func (st *refState) bankSend(from, to common.Address, d string, amt *big.Int) {
	f := coins{}
	for k, v := range st.fbal[from] {
		f[k] = v
	}
	f[d] = new(big.Int).Sub(f.get(d), amt)
	st.fbal[from] = f
	t := coins{}
	for k, v := range st.fbal[to] {
		t[k] = v
	}
	t[d] = new(big.Int).Add(t.get(d), amt)
	st.fbal[to] = t
}
