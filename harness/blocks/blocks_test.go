package blocks

// Driver `blocks` (C04 C05 C06 C13, + C09 history/admission): blocks of mixed Ethereum / Cosmos
// transactions through FinalizeBlock/Commit on the real application, all outcome classes; per-transaction
// consensus results + events + per-block state are handed to the Coq model (coq/Model/TxPipe.v),
// and a direct oracle written from the property texts scans the same observations.

import (
	"fmt"
	"math/big"
	"sort"
	"strconv"
	"strings"
	"testing"
	"time"

	sdkmath "cosmossdk.io/math"
	abci "github.com/cometbft/cometbft/abci/types"
	tmproto "github.com/cometbft/cometbft/proto/tendermint/types"
	sdk "github.com/cosmos/cosmos-sdk/types"
	authtypes "github.com/cosmos/cosmos-sdk/x/auth/types"
	banktypes "github.com/cosmos/cosmos-sdk/x/bank/types"
	"github.com/ethereum/go-ethereum/common"
	"github.com/ethereum/go-ethereum/common/hexutil"
	"github.com/ethereum/go-ethereum/core"
	ethtypes "github.com/ethereum/go-ethereum/core/types"
	"github.com/ethereum/go-ethereum/crypto"
	"github.com/stretchr/testify/require"

	itu "github.com/EscanBE/evermint/v12/integration_test_util"
	itutiltypes "github.com/EscanBE/evermint/v12/integration_test_util/types"
	evmtypes "github.com/EscanBE/evermint/v12/x/evm/types"
	feemarkettypes "github.com/EscanBE/evermint/v12/x/feemarket/types"

	. "verifharness/hx"
)

// ---------------------------------------------------------------- tiny contracts (hand-assembled runtime code)

func deployer(runtime []byte) []byte {
	// PUSH1 len DUP1 PUSH1 0x0b PUSH1 0 CODECOPY PUSH1 0 RETURN <runtime>
	if len(runtime) > 255 {
		panic("runtime too long")
	}
	return append([]byte{0x60, byte(len(runtime)), 0x80, 0x60, 0x0b, 0x60, 0x00, 0x39, 0x60, 0x00, 0xf3}, runtime...)
}

var (
	rtSink     = []byte{0x00}                         // STOP (accepts value)
	rtReverter = []byte{0x60, 0x00, 0x60, 0x00, 0xfd} // REVERT(0,0)
	rtInvalid  = []byte{0xfe}                         // INVALID: consumes all gas
	rtSuicide  = []byte{0x30, 0xff}                   // SELFDESTRUCT(ADDRESS): destroys its own balance
	// n = calldata[0]; n times LOG0(0,0)
	rtLogger = []byte{0x60, 0x00, 0x35, 0x60, 0xf8, 0x1c, 0x5b, 0x80, 0x15, 0x60, 0x18, 0x57, 0x60, 0x00, 0x60, 0x00, 0xa0, 0x60, 0x01, 0x90, 0x03, 0x60, 0x06, 0x56, 0x5b, 0x00}
	// n = calldata[0], v = calldata[1]; for k = n..1: SSTORE(k, v)
	rtStore = []byte{0x60, 0x00, 0x35, 0x80, 0x60, 0xf8, 0x1c, 0x90, 0x60, 0xf0, 0x1c, 0x60, 0xff, 0x16, 0x5b, 0x81, 0x15, 0x60, 0x20, 0x57, 0x80, 0x82, 0x55, 0x90, 0x60, 0x01, 0x90, 0x03, 0x90, 0x60, 0x0e, 0x56, 0x5b, 0x00}
)

type kind int

const (
	kTransfer kind = iota
	kSink
	kRevert
	kInvalid
	kLogger
	kStoreSet
	kStoreClear
	kSuicide
	kCreateOK
	kCreateFail
	kCosmosSend
	nKinds
)

var kindNames = []string{"transfer", "call-sink", "call-revert", "call-invalid", "call-logger", "store-set", "store-clear", "selfdestruct", "create-ok", "create-fail", "cosmos-send"}

// malformations of the C06 stream
const (
	mNone = iota
	mWrongChainID
	mUnprotected
	mFromNotSigner
	mTamperedSig
	mStaleNonce
	mFutureNonce
	mReplay
	mContractSender
	mLowPrice
	mPoor
	nMal
)

var malNames = []string{"none", "wrong-chain-id", "unprotected", "from!=signer", "tampered-sig", "stale-nonce", "future-nonce", "replay", "contract-sender", "price-below-floor", "cannot-pay-fee"}

type world struct {
	t       *testing.T
	c       *Chain
	ids     map[common.Address]int64
	addrs   []common.Address
	wallets []*itutiltypes.TestAccount
	sink, reverter, invalid, logger, store common.Address
	suicides                              []common.Address
	codeWallet                            *itutiltypes.TestAccount // a wallet whose address was given code (contract-as-sender)
	poor                                  *itutiltypes.TestAccount
	chainID                               *big.Int
	accepted                              [][]byte // raw bytes of previously accepted eth txs (for replays)
	maxGas                                int64
	eoa                                   map[common.Address]bool
}

func (w *world) id(a common.Address) int64 {
	if v, ok := w.ids[a]; ok {
		return v
	}
	v := int64(len(w.addrs))
	w.ids[a] = v
	w.addrs = append(w.addrs, a)
	return v
}

func feeCollector() common.Address {
	return common.BytesToAddress(authtypes.NewModuleAddress(authtypes.FeeCollectorName))
}

func newWorld(t *testing.T) *world {
	c := NewChain(t, time.Time{})
	w := &world{t: t, c: c, ids: map[common.Address]int64{}, maxGas: -1}
	ctx := c.Ctx()
	if cp, err := c.App.ConsensusParamsKeeper.ParamsStore.Get(ctx); err == nil && cp.Block != nil {
		w.maxGas = cp.Block.MaxGas
	}
	w.chainID = c.App.EvmKeeper.GetEip155ChainId(ctx).BigInt()
	// no inflation: supply then changes only through transactions
	mp, err := c.App.MintKeeper.Params.Get(ctx)
	require.NoError(t, err)
	mp.InflationMax, mp.InflationMin, mp.InflationRateChange = sdkmath.LegacyZeroDec(), sdkmath.LegacyZeroDec(), sdkmath.LegacyZeroDec()
	require.NoError(t, c.App.MintKeeper.Params.Set(ctx, mp))
	m, err := c.App.MintKeeper.Minter.Get(ctx)
	require.NoError(t, err)
	m.Inflation = sdkmath.LegacyZeroDec()
	m.AnnualProvisions = sdkmath.LegacyZeroDec()
	require.NoError(t, c.App.MintKeeper.Minter.Set(ctx, m))

	for i := 1; i <= 5; i++ {
		w.wallets = append(w.wallets, c.S.WalletAccounts.Number(i))
		w.id(c.S.WalletAccounts.Number(i).GetEthAddress())
	}
	w.wallets = append(w.wallets, c.NewFundedAccount(1, new(big.Int).Mul(big.NewInt(3), pow10(18))))
	w.id(w.wallets[5].GetEthAddress())
	w.poor = c.NewFundedAccount(2, big.NewInt(1_000_000)) // keeps only dust
	w.codeWallet = c.NewFundedAccount(3, pow10(18))
	w.id(w.poor.GetEthAddress())
	w.id(w.codeWallet.GetEthAddress())
	w.eoa = map[common.Address]bool{w.poor.GetEthAddress(): true, w.codeWallet.GetEthAddress(): true}
	for _, x := range w.wallets {
		w.eoa[x.GetEthAddress()] = true
	}
	c.RunBlock(nil)

	// deploy the contracts with real transactions from wallet 6 (kept out of the generator's senders for nonce simplicity? no: it is a sender too)
	dep := w.wallets[5]
	deploy := func(rt []byte) common.Address {
		ctx := c.QueryCtx()
		nonce := c.Nonce(ctx, dep.GetEthAddress())
		bz, _, err := c.EthTxBytes(dep, &ethtypes.LegacyTx{Nonce: nonce, GasPrice: new(big.Int).Mul(c.BaseFee(ctx), big.NewInt(2)), Gas: 300000, Data: deployer(rt)})
		require.NoError(t, err)
		res := c.RunBlock([][]byte{bz})
		require.Equal(t, uint32(0), res.TxResults[0].Code, res.TxResults[0].Log)
		a := crypto.CreateAddress(dep.GetEthAddress(), nonce)
		require.NotEmpty(t, c.App.EvmKeeper.GetCode(c.QueryCtx(), c.App.EvmKeeper.GetCodeHash(c.QueryCtx(), a.Bytes())), "contract not deployed")
		w.id(a)
		return a
	}
	w.sink, w.reverter, w.invalid, w.logger, w.store = deploy(rtSink), deploy(rtReverter), deploy(rtInvalid), deploy(rtLogger), deploy(rtStore)
	// give the code wallet some code directly (an EOA key whose account has code: "contract as sender")
	{
		ctx := c.Ctx()
		ch := crypto.Keccak256Hash(rtSink)
		c.App.EvmKeeper.SetCode(ctx, ch.Bytes(), rtSink)
		c.App.EvmKeeper.SetCodeHash(ctx, w.codeWallet.GetEthAddress(), ch)
	}
	w.id(feeCollector())
	c.RunBlock(nil)
	return w
}

func (w *world) ensureSuicides(n int) {
	dep := w.wallets[5]
	for len(w.suicides) < n {
		ctx := w.c.QueryCtx()
		nonce := w.c.Nonce(ctx, dep.GetEthAddress())
		bz, _, err := w.c.EthTxBytes(dep, &ethtypes.LegacyTx{Nonce: nonce, GasPrice: new(big.Int).Mul(w.c.BaseFee(ctx), big.NewInt(2)), Gas: 300000, Data: deployer(rtSuicide), Value: big.NewInt(12345)})
		require.NoError(w.t, err)
		res := w.c.RunBlock([][]byte{bz})
		require.Equal(w.t, uint32(0), res.TxResults[0].Code, res.TxResults[0].Log)
		a := crypto.CreateAddress(dep.GetEthAddress(), nonce)
		w.id(a)
		w.suicides = append(w.suicides, a)
	}
}

// ---------------------------------------------------------------- generated transactions

type genTx struct {
	Kind    string `json:"kind"`
	Mal     string `json:"malformation"`
	Sender  int64  `json:"sender"`
	Dyn     bool   `json:"dynamic_fee"`
	Price   string `json:"price_or_cap"`
	Tip     string `json:"tip"`
	Gas     uint64 `json:"gas"`
	Nonce   uint64 `json:"nonce"`
	Value   string `json:"value"`
	raw     []byte
	coq     string // Coq term `Eth (mkTx ...) (mkOut ...)` with observation holes filled later
	isEth   bool
	txd     string
	moves   [][2]string // scenario moves on success (address id, signed amount)
	burnOK  *big.Int
	hash    common.Hash
	from    common.Address
	create  bool
	nonce   uint64
	value   *big.Int
	limit   uint64
	price   *big.Int // effective price
	intr    uint64
	senderK *itutiltypes.TestAccount
}

type obsTx struct {
	Class   string // DROPPED REJ FAILED EXEC_OK EXEC_VMERR
	Code    uint32
	GW, GU  int64
	TxIdx   int64
	RGas    int64
	Cum     int64
	LogIdx  int64
	Status  int64
	NLogs   int64
	HasCA   bool
	CA      string
	Bloom   ethtypes.Bloom
	LogsRlp []*ethtypes.Log
	// per-tx bank flows from events
	delta      map[string]*big.Int // bech32 -> net
	minted     *big.Int
	burned     *big.Int
	ethTxEvent bool
}

func (w *world) localNonce(pending map[common.Address]uint64, a common.Address) uint64 {
	if n, ok := pending[a]; ok {
		return n
	}
	n := w.c.Nonce(w.c.QueryCtx(), a)
	pending[a] = n
	return n
}

func (w *world) genBlock(r *Rng, n int) []*genTx {
	c := w.c
	ctx := c.QueryCtx()
	base := c.BaseFee(ctx)
	gmin := c.App.FeeMarketKeeper.GetParams(ctx).MinGasPrice.TruncateInt().BigInt()
	floor := base
	if gmin.Cmp(floor) > 0 {
		floor = gmin
	}
	pending := map[common.Address]uint64{}
	spent := map[common.Address]*big.Int{}
	var out []*genTx
	nSui := 0
	for i := 0; i < n; i++ {
		k := kind(r.Intn(int(nKinds)))
		mal := mNone
		if r.Chance(22) {
			mal = 1 + r.Intn(nMal-1)
		}
		if k == kCosmosSend {
			mal = mNone
		}
		if mal == mReplay && len(w.accepted) == 0 {
			mal = mStaleNonce
		}
		sender := w.wallets[r.Intn(len(w.wallets))]
		if mal == mContractSender {
			sender = w.codeWallet
		}
		if mal == mPoor {
			sender = w.poor
		}
		from := sender.GetEthAddress()
		g := &genTx{Kind: kindNames[k], Mal: malNames[mal], Sender: w.id(from), senderK: sender, from: from}

		if k == kCosmosSend {
			to := w.wallets[r.Intn(len(w.wallets))]
			msg := banktypes.NewMsgSend(sdk.AccAddress(from.Bytes()), sdk.AccAddress(to.GetEthAddress().Bytes()), sdk.NewCoins(sdk.NewCoin("utwo", sdkmath.NewInt(int64(1+r.Intn(1000))))))
			// the Cosmos signature needs the sequence the account will have when the tx runs
			seq := w.localNonce(pending, from)
			bz, err := w.cosmosTx(sender, seq, 200000, new(big.Int).Mul(floor, big.NewInt(2)), msg)
			require.NoError(w.t, err)
			pending[from] = seq + 1
			g.raw, g.isEth = bz, false
			out = append(out, g)
			continue
		}

		// fee fields relative to the floor
		dyn := r.Bool()
		var price, tip *big.Int
		switch r.Intn(6) {
		case 0:
			price = new(big.Int).Set(floor) // exactly at the floor
		case 1:
			price = Badd(floor, 1)
		case 2:
			price = new(big.Int).Mul(floor, big.NewInt(3))
		default:
			price = new(big.Int).Add(floor, r.BigBits(28))
		}
		tip = big.NewInt(0)
		if dyn {
			switch r.Intn(4) {
			case 0:
				tip = big.NewInt(0)
			case 1:
				tip = new(big.Int).Set(price) // tip = cap
			default:
				tip = new(big.Int).Rsh(r.BigBits(28), uint(r.Intn(20)))
				if tip.Cmp(price) > 0 {
					tip = new(big.Int).Set(price)
				}
			}
		}
		if mal == mLowPrice {
			if floor.Sign() == 0 {
				mal = mNone
				g.Mal = malNames[mNone]
			} else {
				price = Bsub(floor, int64(1+r.Intn(3)))
				if price.Sign() < 0 {
					price = big.NewInt(0)
				}
				if tip.Cmp(price) > 0 {
					tip = new(big.Int).Set(price)
				}
			}
		}

		var to *common.Address
		var data []byte
		value := big.NewInt(0)
		switch r.Intn(5) {
		case 0:
			value = big.NewInt(int64(1 + r.Intn(1000)))
		case 1:
			value = new(big.Int).Add(pow10(15), r.BigBits(40))
		case 2:
			if r.Chance(30) { // more than the sender owns
				value = new(big.Int).Add(c.EvmBal(ctx, from), big.NewInt(1))
			}
		}
		gasExec := uint64(0) // rough execution gas above intrinsic
		switch k {
		case kTransfer:
			var a common.Address
			if r.Chance(50) {
				a = w.wallets[r.Intn(len(w.wallets))].GetEthAddress()
			} else {
				a = common.BigToAddress(new(big.Int).Add(big.NewInt(0x100000), r.BigBits(20))) // fresh
				w.id(a)
			}
			to = &a
		case kSink:
			to = &w.sink
			gasExec = 100
		case kRevert:
			to = &w.reverter
			gasExec = 100
		case kInvalid:
			to = &w.invalid
			gasExec = 30000
		case kLogger:
			to = &w.logger
			nl := r.Intn(5)
			data = []byte{byte(nl)}
			gasExec = 600 + uint64(nl)*600
			value = big.NewInt(0)
		case kStoreSet:
			to = &w.store
			ns := 1 + r.Intn(6)
			data = []byte{byte(ns), byte(1 + r.Intn(200))}
			gasExec = 1000 + uint64(ns)*23000
			value = big.NewInt(0)
		case kStoreClear:
			to = &w.store
			ns := 1 + r.Intn(6)
			data = []byte{byte(ns), 0}
			gasExec = 1000 + uint64(ns)*23000
			value = big.NewInt(0)
		case kSuicide:
			if nSui >= len(w.suicides) {
				k = kSink
				g.Kind = kindNames[k]
				to = &w.sink
			} else {
				a := w.suicides[nSui]
				nSui++
				to = &a
			}
			gasExec = 8000
		case kCreateOK:
			data = deployer(rtSink)
			gasExec = 40000
		case kCreateFail:
			data = []byte{0xfe}
			gasExec = 40000
		}
		intr, err := core.IntrinsicGas(data, nil, to == nil, true, true)
		require.NoError(w.t, err)
		var gas uint64
		switch r.Intn(8) {
		case 0:
			gas = intr - 1 // admitted by the deliver-mode ante, core error
			if gas < 20999 {
				gas = 20999
			}
		case 1:
			gas = intr
		case 2:
			gas = intr + gasExec/2
		case 3:
			gas = 3_000_000
		default:
			gas = intr + gasExec + uint64(r.Intn(50000))
		}
		nonce := w.localNonce(pending, from)
		switch mal {
		case mStaleNonce:
			if nonce == 0 {
				nonce = 5
			} else {
				nonce = nonce - 1 - uint64(r.Intn(int(nonce)))
			}
		case mFutureNonce:
			nonce = nonce + 1 + uint64(r.Intn(3))
		}

		chainID := w.chainID
		if mal == mWrongChainID {
			chainID = new(big.Int).Add(w.chainID, big.NewInt(int64(1+r.Intn(5))))
		}
		var txData ethtypes.TxData
		if dyn {
			txData = &ethtypes.DynamicFeeTx{ChainID: chainID, Nonce: nonce, GasTipCap: tip, GasFeeCap: price, Gas: gas, To: to, Value: value, Data: data}
		} else if r.Bool() {
			txData = &ethtypes.AccessListTx{ChainID: chainID, Nonce: nonce, GasPrice: price, Gas: gas, To: to, Value: value, Data: data}
		} else {
			txData = &ethtypes.LegacyTx{Nonce: nonce, GasPrice: price, Gas: gas, To: to, Value: value, Data: data}
		}
		if mal == mUnprotected {
			dyn = false
			txData = &ethtypes.LegacyTx{Nonce: nonce, GasPrice: price, Gas: gas, To: to, Value: value, Data: data}
		}

		// sign
		var signer ethtypes.Signer = ethtypes.LatestSignerForChainID(chainID)
		if mal == mUnprotected {
			signer = ethtypes.HomesteadSigner{}
		}
		signKey := sender
		if mal == mFromNotSigner {
			signKey = w.wallets[(r.Intn(len(w.wallets)-1)+1+indexOf(w.wallets, sender))%len(w.wallets)]
		}
		ecdsaKey, err := signKey.PrivateKey.ToECDSA()
		require.NoError(w.t, err)
		ethTx, err := ethtypes.SignTx(ethtypes.NewTx(txData), signer, ecdsaKey)
		require.NoError(w.t, err)
		msg := &evmtypes.MsgEthereumTx{}
		require.NoError(w.t, msg.FromEthereumTx(ethTx, from))
		if mal == mTamperedSig {
			// flip a bit in the payload after signing: change the value by 1 keeping V,R,S
			signed := msg.AsTransaction()
			v, rr, ss := signed.RawSignatureValues()
			nv := new(big.Int).Add(value, big.NewInt(1))
			var td ethtypes.TxData
			switch signed.Type() {
			case ethtypes.DynamicFeeTxType:
				td = &ethtypes.DynamicFeeTx{ChainID: chainID, Nonce: nonce, GasTipCap: tip, GasFeeCap: price, Gas: gas, To: to, Value: nv, Data: data, V: v, R: rr, S: ss}
			case ethtypes.AccessListTxType:
				td = &ethtypes.AccessListTx{ChainID: chainID, Nonce: nonce, GasPrice: price, Gas: gas, To: to, Value: nv, Data: data, V: v, R: rr, S: ss}
			default:
				td = &ethtypes.LegacyTx{Nonce: nonce, GasPrice: price, Gas: gas, To: to, Value: nv, Data: data, V: v, R: rr, S: ss}
			}
			value = nv
			require.NoError(w.t, msg.FromEthereumTx(ethtypes.NewTx(td), from))
		}
		var raw []byte
		if mal == mReplay {
			raw = w.accepted[r.Intn(len(w.accepted))]
			// decode the replayed tx to describe it
			tx, err := c.S.EncodingConfig.TxConfig.TxDecoder()(raw)
			require.NoError(w.t, err)
			msg = tx.GetMsgs()[0].(*evmtypes.MsgEthereumTx)
			from = common.BytesToAddress(msg.GetFrom())
			g.from = from
			g.Sender = w.id(from)
		} else {
			raw, err = c.WrapEthMsg(msg)
			require.NoError(w.t, err)
		}
		final := msg.AsTransaction()
		// facts about the encoding, established independently of the ante handler
		rec, recErr := ethtypes.LatestSignerForChainID(w.chainID).Sender(final)
		recS := "None"
		if recErr == nil {
			recS = fmt.Sprintf("(Some %s)", CqZi(w.id(rec)))
		}
		isDyn := final.Type() == ethtypes.DynamicFeeTxType
		gp, tp, cp := final.GasPrice(), big.NewInt(0), big.NewInt(0)
		if isDyn {
			gp, tp, cp = big.NewInt(0), final.GasTipCap(), final.GasFeeCap()
		}
		fintr, err := core.IntrinsicGas(final.Data(), final.AccessList(), final.To() == nil, true, true)
		require.NoError(w.t, err)
		g.txd = fmt.Sprintf("(mkTx %s %s %s %s %s %s %s %s %s %s %s %s)", CqZi(w.id(from)), recS, CqBool(final.Protected()), CqBool(isDyn),
			CqZ(gp), CqZ(tp), CqZ(cp), CqZu(final.Gas()), CqZu(final.Nonce()), CqZ(final.Value()), CqBool(final.To() == nil), CqZu(fintr))
		g.isEth, g.raw, g.hash = true, raw, final.Hash()
		g.Dyn, g.Gas, g.Nonce, g.Value = isDyn, final.Gas(), final.Nonce(), final.Value().String()
		g.Price, g.Tip = gp.String(), tp.String()
		if isDyn {
			g.Price = cp.String()
		}
		g.create, g.nonce, g.value, g.limit, g.intr = final.To() == nil, final.Nonce(), final.Value(), final.Gas(), fintr
		if isDyn {
			e := new(big.Int).Add(tp, base)
			if e.Cmp(cp) > 0 {
				e = cp
			}
			g.price = e
		} else {
			g.price = gp
		}
		// scenario moves on success
		v := final.Value()
		neg := new(big.Int).Neg(v)
		switch {
		case final.To() == nil:
			na := crypto.CreateAddress(from, final.Nonce())
			g.moves = [][2]string{{CqZi(w.id(from)), CqZ(neg)}, {CqZi(w.id(na)), CqZ(v)}}
			g.burnOK = big.NewInt(0)
		case isSuicide(w, *final.To()):
			cb := c.EvmBal(ctx, *final.To())
			tot := new(big.Int).Add(cb, v)
			g.moves = [][2]string{{CqZi(w.id(from)), CqZ(neg)}, {CqZi(w.id(*final.To())), CqZ(new(big.Int).Neg(cb))}}
			g.burnOK = tot
		default:
			g.moves = [][2]string{{CqZi(w.id(from)), CqZ(neg)}, {CqZi(w.id(*final.To())), CqZ(v)}}
			g.burnOK = big.NewInt(0)
		}
		if mal == mNone || mal == mLowPrice || mal == mPoor || mal == mFutureNonce || mal == mStaleNonce {
			// optimistic local nonce tracking (only exact for admitted txs; rejected ones do not advance):
			if mal == mNone {
				cost := new(big.Int).Mul(g.price, new(big.Int).SetUint64(g.limit))
				if spent[from] == nil {
					spent[from] = big.NewInt(0)
				}
				if new(big.Int).Add(spent[from], cost).Cmp(c.EvmBal(ctx, from)) <= 0 {
					spent[from].Add(spent[from], cost)
					pending[from] = nonce + 1
				}
			}
		}
		out = append(out, g)
	}
	return out
}

func isSuicide(w *world, a common.Address) bool {
	for _, s := range w.suicides {
		if s == a {
			return true
		}
	}
	return false
}

func indexOf(ws []*itutiltypes.TestAccount, a *itutiltypes.TestAccount) int {
	for i, x := range ws {
		if x == a {
			return i
		}
	}
	return 0
}

func cosmosArgs(gas uint64, gp *sdkmath.Int, msgs []sdk.Msg) itu.CosmosTxArgs {
	return itu.CosmosTxArgs{Gas: gas, GasPrice: gp, Msgs: msgs}
}

func pow10(n int64) *big.Int { return new(big.Int).Exp(big.NewInt(10), big.NewInt(n), nil) }

func (w *world) cosmosTx(acct *itutiltypes.TestAccount, seq uint64, gas uint64, gasPrice *big.Int, msgs ...sdk.Msg) ([]byte, error) {
	// PrepareCosmosTx reads the sequence from the context: give it a context whose account has the wanted sequence
	ctx := w.c.QueryCtx()
	acc := w.c.App.AccountKeeper.GetAccount(ctx, sdk.AccAddress(acct.GetEthAddress().Bytes()))
	if acc != nil && acc.GetSequence() != seq {
		_ = acc.SetSequence(seq)
		w.c.App.AccountKeeper.SetAccount(ctx, acc)
	}
	gp := sdkmath.NewIntFromBigInt(gasPrice)
	tx, err := w.c.S.PrepareCosmosTx(ctx, acct, cosmosArgs(gas, &gp, msgs))
	if err != nil {
		return nil, err
	}
	return w.c.S.EncodingConfig.TxConfig.TxEncoder()(tx)
}

// ---------------------------------------------------------------- observation

func (w *world) observe(res *abci.ExecTxResult, g *genTx) *obsTx {
	o := &obsTx{Code: res.Code, GW: res.GasWanted, GU: res.GasUsed, TxIdx: -1, RGas: -1, Cum: -1, LogIdx: -1, Status: -1,
		delta: map[string]*big.Int{}, minted: big.NewInt(0), burned: big.NewInt(0)}
	add := func(who string, amt *big.Int) {
		if o.delta[who] == nil {
			o.delta[who] = big.NewInt(0)
		}
		o.delta[who].Add(o.delta[who], amt)
	}
	denom := w.c.Denom()
	amountOf := func(s string) *big.Int {
		coins, err := sdk.ParseCoinsNormalized(s)
		if err != nil {
			return big.NewInt(0)
		}
		return coins.AmountOf(denom).BigInt()
	}
	for _, ev := range res.Events {
		at := EventAttrs(ev)
		switch ev.Type {
		case evmtypes.EventTypeEthereumTx:
			o.ethTxEvent = true
			if v, err := strconv.ParseInt(at[evmtypes.AttributeKeyTxIndex], 10, 64); err == nil {
				o.TxIdx = v
			}
		case evmtypes.EventTypeTxReceipt:
			bz, err := hexutil.Decode(at[evmtypes.AttributeKeyReceiptMarshalled])
			require.NoError(w.t, err)
			rc := &ethtypes.Receipt{}
			require.NoError(w.t, rc.UnmarshalBinary(bz))
			o.Status, o.Cum, o.NLogs, o.Bloom, o.LogsRlp = int64(rc.Status), int64(rc.CumulativeGasUsed), int64(len(rc.Logs)), rc.Bloom, rc.Logs
			o.RGas, _ = strconv.ParseInt(at[evmtypes.AttributeKeyReceiptGasUsed], 10, 64)
			if v, err := strconv.ParseInt(at[evmtypes.AttributeKeyReceiptTxIndex], 10, 64); err == nil && o.TxIdx != v {
				o.TxIdx = -100 - v // disagreement between the two events: make it visible
			}
			if s, ok := at[evmtypes.AttributeKeyReceiptStartLogIndex]; ok {
				o.LogIdx, _ = strconv.ParseInt(s, 10, 64)
			}
			o.CA = at[evmtypes.AttributeKeyReceiptContractAddress]
			o.HasCA = o.CA != ""
		case banktypes.EventTypeCoinSpent:
			add(at[banktypes.AttributeKeySpender], new(big.Int).Neg(amountOf(at[sdk.AttributeKeyAmount])))
		case banktypes.EventTypeCoinReceived:
			add(at[banktypes.AttributeKeyReceiver], amountOf(at[sdk.AttributeKeyAmount]))
		case banktypes.EventTypeCoinMint:
			o.minted.Add(o.minted, amountOf(at[sdk.AttributeKeyAmount]))
		case banktypes.EventTypeCoinBurn:
			o.burned.Add(o.burned, amountOf(at[sdk.AttributeKeyAmount]))
		}
	}
	switch {
	case res.Code == 0 && o.Status == 1:
		o.Class = "EXEC_OK"
	case res.Code == 0 && o.Status == 0:
		o.Class = "EXEC_VMERR"
	case res.Code == 0:
		o.Class = "OK_NO_RECEIPT"
	case !o.ethTxEvent && res.Code == 11 && res.Codespace == "sdk":
		o.Class = "DROPPED"
	case !o.ethTxEvent:
		o.Class = "REJ"
	default:
		o.Class = "FAILED"
	}
	return o
}

func (o *obsTx) coq(codespace string) string {
	var out string
	switch o.Class {
	case "EXEC_OK":
		out = "(OExec false)"
	case "EXEC_VMERR":
		out = "(OExec true)"
	case "DROPPED":
		out = "ODropped"
	case "REJ":
		code := int64(o.Code)
		if codespace != "sdk" {
			code += 1000
		}
		out = fmt.Sprintf("(ORej %s)", CqZi(code))
	case "FAILED":
		out = "OFailed"
	default:
		out = "OOther"
	}
	return fmt.Sprintf("(mkObs %s %s %s %s %s %s %s %s)", out, CqZi(o.GW), CqZi(o.GU), CqZi(o.TxIdx), CqZi(o.RGas), CqZi(o.Cum), CqZi(o.LogIdx), CqZi(o.Status))
}

type snap struct {
	bal, seq     []string
	exists, code []string
	supply       *big.Int
	base         *big.Int
	gminDec      *big.Int
}

func (w *world) snapshot(ctx sdk.Context, eoaOnly bool) *snap {
	s := &snap{supply: w.c.Supply(ctx, w.c.Denom()), base: w.c.BaseFee(ctx)}
	s.gminDec = w.c.App.FeeMarketKeeper.GetParams(ctx).MinGasPrice.BigInt()
	for i, a := range w.addrs {
		id := CqZi(int64(i))
		if a == feeCollector() {
			id = "FEE_COLLECTOR"
		}
		s.bal = append(s.bal, fmt.Sprintf("(%s, %s)", id, CqZ(w.c.EvmBal(ctx, a))))
		if w.eoa[a] || !eoaOnly { // sequences of contracts follow EIP-161/selfdestruct rules of the interpreter: not modelled
			s.seq = append(s.seq, fmt.Sprintf("(%s, %s)", id, CqZu(w.c.Nonce(ctx, a))))
		}
		acc := w.c.App.AccountKeeper.GetAccount(ctx, sdk.AccAddress(a.Bytes()))
		if acc != nil {
			s.exists = append(s.exists, id)
		}
		if !evmtypes.IsEmptyCodeHash(w.c.App.EvmKeeper.GetCodeHash(ctx, a.Bytes())) {
			s.code = append(s.code, id)
		}
	}
	return s
}

func (s *snap) coq() string {
	return fmt.Sprintf("(mkSnap %s %s %s %s %s %s %s)", CqList(s.bal), CqList(s.seq), CqList(s.exists), CqList(s.code), CqZ(s.supply), CqZ(s.base), CqZ(s.gminDec))
}

// ---------------------------------------------------------------- the driver

type blockDesc struct {
	Height int64    `json:"height"`
	MaxGas int64    `json:"max_gas"`
	Txs    []*genTx `json:"txs"`
	Obs    []string `json:"observed_classes"`
}

func TestDriverBlocks(t *testing.T) {
	dir := OutDir(t)
	seed := EnvSeed()
	nBlocks := EnvInt("VERIF_N", 120)
	rng := NewRng(seed)
	side := NewSidecar("blocks", seed,
		"case = one block of 0-10 generated transactions (11 kinds x fee variants x gas limits x values x 10 malformations, consensus max_gas varied) executed by FinalizeBlock/Commit on the real app, "+
			"with the committed pre/post state of the address universe; non-trivial = block with >= 2 Ethereum txs that passed the ante handler and >= 2 distinct outcome classes; distinct by (kinds, malformations, classes, gas limits)")
	cases := NewCases(dir, "From Evm Require Import TxPipe CorrTxPipe.", "tp_mismatches")
	w := newWorld(t)
	c := w.c
	fc := feeCollector()
	fcBech := sdk.AccAddress(fc.Bytes()).String()

	for b := 0; b < nBlocks; b++ {
		r := rng.Fork(uint64(b))
		if len(w.suicides) < 2 {
			w.setMaxGas(-1)
			w.ensureSuicides(2)
		}
		// consensus max_gas for this block: mostly unlimited, sometimes tight
		switch r.Intn(6) {
		case 0:
			w.setMaxGas(int64(60_000 + r.Intn(400_000)))
		case 1:
			w.setMaxGas(int64(21_000 + r.Intn(60_000)))
		case 2:
			w.setMaxGas(40_000_000)
		default:
			w.setMaxGas(-1)
		}
		// feemarket min gas price now and then (a governance action between blocks)
		if r.Chance(10) {
			ctx := c.Ctx()
			p := c.App.FeeMarketKeeper.GetParams(ctx)
			switch r.Intn(3) {
			case 0:
				p.MinGasPrice = sdkmath.LegacyZeroDec()
			case 1:
				p.MinGasPrice = sdkmath.LegacyNewDecFromBigIntWithPrec(new(big.Int).Add(new(big.Int).Mul(c.BaseFee(ctx), pow10(18)), r.BigBits(70)), 18)
			default:
				p.MinGasPrice = feemarkettypes.DefaultMinGasPrice
			}
			require.NoError(t, c.App.FeeMarketKeeper.SetParams(ctx, p))
		}
		nTx := r.Intn(11)
		// the set-up above ran blocks: state to start from is whatever is committed now
		gen := w.genBlock(r, nTx)
		pre := w.snapshot(c.QueryCtx(), false)
		var raws [][]byte
		for _, g := range gen {
			raws = append(raws, g.raw)
		}
		height := c.Height
		res := c.RunBlock(raws)
		require.Equal(t, len(raws), len(res.TxResults))
		post := w.snapshot(c.QueryCtx(), true)

		// ---- observations
		var items []string
		var obsStr []string
		classes := map[string]bool{}
		passedAnte := 0
		var blockLogs, blockReceipts int
		blockBloom := ethtypes.Bloom{}
		cumExpected := int64(0)
		logExpected := int64(0)
		idxExpected := int64(0)
		for i, g := range gen {
			tr := res.TxResults[i]
			if !g.isEth {
				// the SDK lane is observed, not modelled: fee actually charged (bank events) and whether the sequence advanced
				co := w.observe(tr, g)
				paid := big.NewInt(0)
				if d := co.delta[fcBech]; d != nil {
					paid = d
				}
				inc := paid.Sign() > 0 || tr.Code == 0
				items = append(items, fmt.Sprintf("ICosmos %s %s %s %s", CqZi(cosmosBlockGas(tr)), CqZi(w.id(g.from)), CqZ(paid), CqBool(inc)))
				side.Count("class:cosmos:" + fmt.Sprint(tr.Code == 0))
				obsStr = append(obsStr, "COSMOS")
				continue
			}
			o := w.observe(tr, g)
			obsStr = append(obsStr, o.Class)
			classes[o.Class] = true
			side.Count("class:" + o.Class)
			side.Count("kind:" + g.Kind)
			side.Count("mal:" + g.Mal)
			if o.Class == "REJ" {
				side.Count(fmt.Sprintf("rej:%s/%d", tr.Codespace, tr.Code))
			}
			if o.ethTxEvent {
				passedAnte++
			}
			vmerr := o.Class == "EXEC_VMERR"
			used := o.GU
			if o.Class != "EXEC_OK" && o.Class != "EXEC_VMERR" && o.Class != "FAILED" {
				used = 0
			}
			mv := make([]string, 0, len(g.moves))
			for _, m := range g.moves {
				mv = append(mv, fmt.Sprintf("(%s, %s)", m[0], m[1]))
			}
			// commit error is visible as a FAILED tx whose log mentions the commit: class only, by code 'evm' codespace? keep false
			eo := fmt.Sprintf("(mkOut %s %s %s %s %s false)", CqZi(used), CqBool(vmerr), CqZi(o.NLogs), CqList(mv), CqZ(g.burnOK))
			items = append(items, fmt.Sprintf("IEth %s %s %s", g.txd, eo, o.coq(tr.Codespace)))

			// ---------------- direct oracle (property texts), independent of the model
			desc := map[string]interface{}{"height": height, "pos": i, "tx": g, "class": o.Class, "code": tr.Code, "codespace": tr.Codespace, "gas_wanted": o.GW, "gas_used": o.GU, "log": trunc(tr.Log, 200)}
			senderBech := sdk.AccAddress(g.from.Bytes()).String()
			sd := o.delta[senderBech]
			if sd == nil {
				sd = big.NewInt(0)
			}
			net := new(big.Int).Sub(o.minted, o.burned)
			switch o.Class {
			case "EXEC_OK", "EXEC_VMERR":
				if o.ethTxEvent {
					// C04: supply change of this tx = -(destroyed), never positive
					wantBurn := big.NewInt(0)
					moved := big.NewInt(0)
					if !vmerr {
						wantBurn = g.burnOK
						moved = g.value
					}
					if net.Sign() > 0 {
						side.Hit("C04/blocks/tx-increases-supply", fmt.Sprintf("bank events of the tx: minted %s > burned %s", o.minted, o.burned), desc)
					} else if new(big.Int).Neg(net).Cmp(wantBurn) != 0 {
						side.Hit("C04/blocks/supply-delta-not-equal-destroyed", fmt.Sprintf("net burn %s, explicitly destroyed %s", new(big.Int).Neg(net), wantBurn), desc)
					}
					// C04/C05: fee collector gains exactly gas used x effective price; sender pays that plus value moved
					fee := new(big.Int).Mul(g.price, big.NewInt(o.RGas))
					fd := o.delta[fcBech]
					if fd == nil {
						fd = big.NewInt(0)
					}
					if fd.Cmp(fee) != 0 {
						side.Hit("C04/blocks/fee-collector-gain-not-fee", fmt.Sprintf("fee collector %s, gasUsed x price %s", fd, fee), desc)
					}
					wantSender := new(big.Int).Neg(new(big.Int).Add(fee, moved))
					if g.from == *orAddr(toOf(g, w)) && !vmerr { // self transfer: value returns
						wantSender = new(big.Int).Neg(fee)
					}
					if sd.Cmp(wantSender) != 0 {
						side.Hit("C05/blocks/sender-charge-not-exact", fmt.Sprintf("sender delta %s, want %s", sd, wantSender), desc)
					}
					// C05: gas bounds and consensus = receipt
					if o.RGas > int64(g.limit) || o.RGas < int64(g.intr) {
						side.Hit("C05/blocks/gas-used-out-of-bounds", fmt.Sprintf("gas used %d, intrinsic %d, limit %d", o.RGas, g.intr, g.limit), desc)
					}
					if o.RGas != o.GU {
						side.Hit("C05/blocks/consensus-gas-differs-from-receipt", fmt.Sprintf("consensus %d receipt %d", o.GU, o.RGas), desc)
					}
					// C13
					cumExpected += o.RGas
					if o.Cum != cumExpected {
						side.Hit("C13/blocks/cumulative-gas-not-running-sum", fmt.Sprintf("cumulative %d, running sum %d", o.Cum, cumExpected), desc)
					}
					if o.TxIdx != idxExpected {
						side.Hit("C13/blocks/tx-index-not-consecutive", fmt.Sprintf("txIndex %d, expected %d", o.TxIdx, idxExpected), desc)
					}
					if o.NLogs > 0 && o.LogIdx != logExpected {
						side.Hit("C13/blocks/log-index-not-consecutive", fmt.Sprintf("first log index %d, expected %d", o.LogIdx, logExpected), desc)
					}
					logExpected += o.NLogs
					if (o.Status == 1) == vmerr {
						side.Hit("C13/blocks/status-vs-vmerror", "status does not reflect the VM error", desc)
					}
					wantCA := g.create && !vmerr
					if o.HasCA != wantCA || (wantCA && !strings.EqualFold(o.CA, crypto.CreateAddress(g.from, g.nonce).Hex())) {
						side.Hit("C13/blocks/contract-address", fmt.Sprintf("contract address %q, creation succeeded %v", o.CA, wantCA), desc)
					}
					rb := ethtypes.BytesToBloom(ethtypes.LogsBloom(o.LogsRlp))
					if rb != o.Bloom {
						side.Hit("C13/blocks/receipt-bloom", "receipt bloom does not cover exactly its logs", desc)
					}
					orBloom(&blockBloom, o.Bloom)
					blockLogs += int(o.NLogs)
					blockReceipts++
					if vmerr && o.NLogs != 0 {
						side.Hit("C03/blocks/logs-of-failed-execution", "a failed execution kept logs", desc)
					}
				}
				idxExpected++
			case "FAILED":
				// failed after admission: full gas limit charged, nothing else moves
				fee := new(big.Int).Mul(g.price, new(big.Int).SetUint64(g.limit))
				if sd.Cmp(new(big.Int).Neg(fee)) != 0 {
					side.Hit("C05/blocks/failed-tx-not-charged-full-limit", fmt.Sprintf("sender delta %s, want %s", sd, new(big.Int).Neg(fee)), desc)
				}
				if net.Sign() != 0 {
					side.Hit("C04/blocks/failed-tx-changes-supply", fmt.Sprintf("minted %s burned %s", o.minted, o.burned), desc)
				}
				cumExpected += int64(g.limit)
				if o.TxIdx != idxExpected {
					side.Hit("C13/blocks/tx-index-not-consecutive", fmt.Sprintf("txIndex %d, expected %d", o.TxIdx, idxExpected), desc)
				}
				idxExpected++
			case "REJ", "DROPPED":
				if len(o.delta) != 0 || o.minted.Sign() != 0 || o.burned.Sign() != 0 {
					side.Hit("C05/blocks/rejected-tx-moves-coins", "a rejected transaction has bank events", desc)
				}
			default:
				side.Hit("C05/blocks/unclassified-result", "result class "+o.Class, desc)
			}
			// C06: authorisation of anything that passed the ante handler
			if o.ethTxEvent {
				if g.Mal == "wrong-chain-id" || g.Mal == "unprotected" || g.Mal == "from!=signer" || g.Mal == "tampered-sig" || g.Mal == "contract-sender" {
					side.Hit("C06/blocks/unauthorised-tx-admitted", "malformation "+g.Mal+" passed the ante handler", desc)
				}
				w.accepted = append(w.accepted, g.raw)
				if len(w.accepted) > 64 {
					w.accepted = w.accepted[1:]
				}
			}
			// C09: admitted price is at least the base fee and trunc(global min)
			if o.ethTxEvent {
				gmin := new(big.Int).Quo(pre.gminDec, pow10(18))
				if g.price.Cmp(pre.base) < 0 || g.price.Cmp(gmin) < 0 {
					side.Hit("C09/blocks/price-below-floor-executed", fmt.Sprintf("effective price %s, base fee %s, global min %s", g.price, pre.base, gmin), desc)
				}
			}
		}
		// C06 over the block: sequences move by exactly the number of admitted txs per sender (checked by the model on
		// the post state); direct oracle: no sequence decreased
		// block bloom (C13): union of receipt blooms, from the block_bloom event
		for _, ev := range res.Events {
			if ev.Type == evmtypes.EventTypeBlockBloom {
				at := EventAttrs(ev)
				bz, _ := hexutil.Decode(hexPrefixed(at[evmtypes.AttributeKeyEthereumBloom]))
				if ethtypes.BytesToBloom(bz) != blockBloom {
					side.Hit("C13/blocks/block-bloom-not-union", "block bloom differs from the union of the receipt blooms", map[string]interface{}{"height": height})
				}
			}
		}
		// per-block balance truthfulness of the event-derived deltas is covered by the model comparison of the post state

		{ // self-destructed instances are gone
			var alive []common.Address
			for _, a := range w.suicides {
				if !evmtypes.IsEmptyCodeHash(c.App.EvmKeeper.GetCodeHash(c.QueryCtx(), a.Bytes())) {
					alive = append(alive, a)
				}
			}
			w.suicides = alive
		}
		item := fmt.Sprintf("(mkBlock %s %s %s %s)", pre.coq(), CqZi(w.maxGas), CqList(items), post.coq())
		cases.Add(item)
		sort.Strings(obsStr)
		kinds := []string{}
		for _, g := range gen {
			kinds = append(kinds, g.Kind+"/"+g.Mal+"/"+strconv.FormatUint(g.Gas, 10))
		}
		bd := blockDesc{Height: height, MaxGas: w.maxGas, Txs: gen, Obs: obsStr}
		side.Case(b, strings.Join(kinds, ",")+"|"+strings.Join(obsStr, ","), passedAnte >= 2 && len(classes) >= 2, bd)
		side.Count(fmt.Sprintf("block_txs:%d", len(gen)))
		side.Count("max_gas:" + mgClass(w.maxGas))
	}
	cases.Write(t, 40)
	side.Write(t, dir)
}

func mgClass(m int64) string {
	switch {
	case m < 0:
		return "unlimited"
	case m < 100_000:
		return "<100k"
	case m < 1_000_000:
		return "<1M"
	default:
		return ">=1M"
	}
}

func hexPrefixed(s string) string {
	if strings.HasPrefix(s, "0x") {
		return s
	}
	return "0x" + s
}

func trunc(s string, n int) string {
	if len(s) > n {
		return s[:n]
	}
	return s
}

func orBloom(dst *ethtypes.Bloom, b ethtypes.Bloom) {
	for i := range dst {
		dst[i] |= b[i]
	}
}

func toOf(g *genTx, w *world) *common.Address {
	// recipient id is the second move's address unless creation; we only need "is it a self transfer"
	tx, err := w.c.S.EncodingConfig.TxConfig.TxDecoder()(g.raw)
	if err != nil {
		return nil
	}
	return tx.GetMsgs()[0].(*evmtypes.MsgEthereumTx).AsTransaction().To()
}

func orAddr(a *common.Address) *common.Address {
	if a == nil {
		return &common.Address{0xff, 0xff, 0xff, 0xff, 0xff, 0xff, 0xff, 0xff, 0xff, 0xff, 0xff, 0xff, 0xff, 0xff, 0xff, 0xff, 0xff, 0xff, 0xfe, 0x01}
	}
	return a
}

// gas a Cosmos tx adds to the block gas meter: GasConsumedToLimit of its tx meter = min(used, wanted)
func cosmosBlockGas(tr *abci.ExecTxResult) int64 {
	if tr.GasWanted > 0 && tr.GasUsed > tr.GasWanted {
		return tr.GasWanted
	}
	return tr.GasUsed
}

func (w *world) setMaxGas(m int64) {
	if m == w.maxGas {
		return
	}
	ctx := w.c.Ctx()
	cp, err := w.c.App.ConsensusParamsKeeper.ParamsStore.Get(ctx)
	require.NoError(w.t, err)
	if cp.Block == nil {
		cp.Block = &tmproto.BlockParams{MaxBytes: 22020096}
	}
	cp.Block.MaxGas = m
	require.NoError(w.t, w.c.App.ConsensusParamsKeeper.ParamsStore.Set(ctx, cp))
	w.maxGas = m
}
