package blocks

// Driver `blocks` (C04 C05 C06 C13, + C09 history/admission): blocks of mixed Ethereum / Cosmos
// transactions through FinalizeBlock/Commit on the real application, all outcome classes; per-transaction
// consensus results + events + per-block state are handed to the Coq model (coq/Model/TxPipe.v, TxPipeExt.v),
// and a direct oracle written from the property texts scans the same observations.  The expected balance
// movements / destroyed amounts of every generated transaction come from the reference interpreter of
// script_test.go (EVM semantics of value transfer, CREATE/CREATE2, REVERT, SELFDESTRUCT), never from the code under test.
//
// Every denomination (C04): the universe holds coins of the chain's other denominations (utwo, uthree, ufour) as well:
// Cosmos bank sends inside the blocks and mints between the blocks put them on wallets, living and destroyed contracts,
// passive beneficiaries and, above all, on the PREDICTABLE addresses at which the block's transactions create contracts
// (CREATE address of (sender, nonce), first child frame, CREATE2 addresses of the factory).  The reference interpreter
// says which accounts a successful execution deletes; the oracle states per transaction and per denomination:
// supply change = -(balances of the deleted accounts), every other account keeps its balance (bank events), and per
// block the same from the committed balances and supplies.  The Coq model is coq/Model/TxPipeDenom.v.

import (
	"crypto/sha256"
	"encoding/hex"
	"fmt"
	"math/big"
	"runtime/debug"
	"sort"
	"strconv"
	"strings"
	"testing"
	"time"

	sdkmath "cosmossdk.io/math"
	abci "github.com/cometbft/cometbft/abci/types"
	tmproto "github.com/cometbft/cometbft/proto/tendermint/types"
	sdk "github.com/cosmos/cosmos-sdk/types"
	authtypes "github.com/cosmos/cosmos-sdk/x/auth/types"
	banktypes "github.com/cosmos/cosmos-sdk/x/bank/types"
	"github.com/ethereum/go-ethereum/common"
	"github.com/ethereum/go-ethereum/common/hexutil"
	"github.com/ethereum/go-ethereum/core"
	ethtypes "github.com/ethereum/go-ethereum/core/types"
	"github.com/ethereum/go-ethereum/crypto"

	itu "github.com/EscanBE/evermint/v12/integration_test_util"
	itutiltypes "github.com/EscanBE/evermint/v12/integration_test_util/types"
	evmtypes "github.com/EscanBE/evermint/v12/x/evm/types"
	feemarkettypes "github.com/EscanBE/evermint/v12/x/feemarket/types"

	. "verifharness/hx"
)

// ---------------------------------------------------------------- tiny contracts (hand-assembled runtime code)

func deployer(runtime []byte) []byte {
	// PUSH1 len DUP1 PUSH1 0x0b PUSH1 0 CODECOPY PUSH1 0 RETURN <runtime>
	if len(runtime) > 255 {
		panic("runtime too long")
	}
	return append([]byte{0x60, byte(len(runtime)), 0x80, 0x60, 0x0b, 0x60, 0x00, 0x39, 0x60, 0x00, 0xf3}, runtime...)
}

var (
	rtSink     = []byte{0x00}                         // STOP (accepts value)
	rtReverter = []byte{0x60, 0x00, 0x60, 0x00, 0xfd} // REVERT(0,0)
	rtInvalid  = []byte{0xfe}                         // INVALID: consumes all gas
	// n = calldata[0]; n times LOG0(0,0)
	rtLogger = []byte{0x60, 0x00, 0x35, 0x60, 0xf8, 0x1c, 0x5b, 0x80, 0x15, 0x60, 0x18, 0x57, 0x60, 0x00, 0x60, 0x00, 0xa0, 0x60, 0x01, 0x90, 0x03, 0x60, 0x06, 0x56, 0x5b, 0x00}
	// n = calldata[0], v = calldata[1]; for k = n..1: SSTORE(k, v)
	rtStore = []byte{0x60, 0x00, 0x35, 0x80, 0x60, 0xf8, 0x1c, 0x90, 0x60, 0xf0, 0x1c, 0x60, 0xff, 0x16, 0x5b, 0x81, 0x15, 0x60, 0x20, 0x57, 0x80, 0x82, 0x55, 0x90, 0x60, 0x01, 0x90, 0x03, 0x90, 0x60, 0x0e, 0x56, 0x5b, 0x00}
)

// denominations other than the EVM one that the chain knows (utwo, uthree: genesis; ufour: minted by the harness
// before the first case, like an IBC voucher); Coq index = position + 1, the EVM denomination is 0
var otherDenoms = []string{"utwo", "uthree", "ufour"}

func denomID(d string) int64 {
	for i, x := range otherDenoms {
		if x == d {
			return int64(i + 1)
		}
	}
	return -1
}

type kind int

const (
	kTransfer kind = iota
	kSink
	kRevert
	kInvalid
	kLogger
	kStoreSet
	kStoreClear
	kSuicide
	kFundK
	kCreateOK
	kCreateFail
	kDeployK
	kFactory
	kScript
	kCosmosSend
	nKinds
)

var kindNames = []string{"transfer", "call-sink", "call-revert", "call-invalid", "call-logger", "store-set", "store-clear", "selfdestruct", "fund-K",
	"create-ok", "create-fail", "deploy-K", "factory-create2", "script", "cosmos-send"}

// relative frequencies of the kinds
var kindWeights = []int{8, 5, 5, 4, 7, 6, 8, 8, 3, 6, 4, 7, 5, 20, 14}

// malformations of the C06 stream
const (
	mNone = iota
	mWrongChainID
	mUnprotected
	mFromNotSigner
	mTamperedSig
	mStaleNonce
	mFutureNonce
	mReplay
	mContractSender
	mLowPrice
	mPoor
	nMal
)

var malNames = []string{"none", "wrong-chain-id", "unprotected", "from!=signer", "tampered-sig", "stale-nonce", "future-nonce", "replay", "contract-sender", "price-below-floor", "cannot-pay-fee"}

type world struct {
	d                                               *driver // the driver: set-up blocks run through its per-tx / per-block oracles
	c                                               *Chain
	ids                                             map[common.Address]int64
	addrs                                           []common.Address
	wallets                                         []*itutiltypes.TestAccount
	sink, reverter, invalid, logger, store, factory common.Address
	ks                                              []common.Address         // instances of rtK ever deployed (alive or destroyed)
	bens                                            []common.Address         // passive beneficiaries
	core                                            []common.Address         // addresses in every block's universe
	codeWallet                                      *itutiltypes.TestAccount // a wallet whose address was given code (contract-as-sender)
	poor                                            *itutiltypes.TestAccount
	chainID                                         *big.Int
	accepted                                        []*genTx         // previously admitted eth txs (for replays)
	failedAcc                                       []*genTx         // previously admitted eth txs that failed afterwards (core error, block gas, VM error)
	cosmosAcc                                       []*genTx         // previously accepted Cosmos txs
	abortedAcc                                      []*genTx         // previously admitted eth txs whose execution, by the reference, is aborted by a panic (module accounts)
	admitted                                        map[string]int64 // sha256(raw) of every admitted tx -> height
	lastSeq                                         map[common.Address]uint64
	maxGas                                          int64
	eoa                                             map[common.Address]bool
	static                                          map[common.Address]bool // contracts whose nonce never moves
	kHash                                           common.Hash
	kAlive                                          map[common.Address]bool // instances of rtK alive in the committed state
	evmModule                                       common.Address
	foreignOnly                                     []common.Address // code-less accounts (sequence 0) that hold other denominations and no EVM coins: not empty, must survive a touch
	mods                                            []common.Address // addresses of the module accounts (app/modules.go maccPerms): the bank refuses to credit them
	modName                                         map[common.Address]string
	distr                                           common.Address // x/distribution's module account: receives the fee collector's balance at BeginBlock
	usable                                          bool           // the set-up ran to its end
}

// the module accounts of the application by name (written down here, not read from the application: the list of
// addresses that must never receive coins from an Ethereum transaction is part of what is checked)
var moduleAccountNames = []string{"evm", "fee_collector", "distribution", "gov", "mint", "bonded_tokens_pool", "not_bonded_tokens_pool", "cpc", "vauth", "transfer", "interchainaccounts"}

func (w *world) isMod(a common.Address) bool { _, ok := w.modName[a]; return ok }

// a module account as recipient / beneficiary: mostly the EVM module's own account and the fee collector
func (w *world) pickMod(r *Rng) common.Address {
	switch r.Intn(10) {
	case 0, 1, 2, 3:
		return w.evmModule
	case 4, 5:
		return feeCollector()
	default:
		return w.mods[r.Intn(len(w.mods))]
	}
}

func (w *world) id(a common.Address) int64 {
	if v, ok := w.ids[a]; ok {
		return v
	}
	v := int64(len(w.addrs))
	w.ids[a] = v
	w.addrs = append(w.addrs, a)
	return v
}

func feeCollector() common.Address {
	return common.BytesToAddress(authtypes.NewModuleAddress(authtypes.FeeCollectorName))
}

func (w *world) cqID(a common.Address) string {
	if a == feeCollector() {
		return "FEE_COLLECTOR"
	}
	return CqZi(w.id(a))
}

// newWorld builds the universe of the driver.  Nothing here may abort the test: every expectation about the behaviour
// of the code under test (a set-up transaction is executed, a contract exists afterwards, an account holds what it was
// given) is an oracle hit `<property>/blocks/setup/<what>`; the blocks of the set-up (empty ones, the block of ten
// deployments, later blocks of fresh rtK instances) go through driver.runBlock like every generated block, so their
// transactions meet the same per-transaction and per-block oracles and are cases of the model as well.
func newWorld(d *driver) *world {
	t := d.t
	c := NewChain(t, time.Time{})
	w := &world{d: d, c: c, ids: map[common.Address]int64{}, maxGas: -1, kAlive: map[common.Address]bool{}, admitted: map[string]int64{}, lastSeq: map[common.Address]uint64{}, static: map[common.Address]bool{}}
	d.w = w
	ctx := c.Ctx()
	if cp, err := c.App.ConsensusParamsKeeper.ParamsStore.Get(ctx); err == nil && cp.Block != nil {
		w.maxGas = cp.Block.MaxGas
	}
	w.chainID = c.App.EvmKeeper.GetEip155ChainId(ctx).BigInt()
	w.kHash = crypto.Keccak256Hash(rtK)
	w.evmModule = common.BytesToAddress(authtypes.NewModuleAddress(evmtypes.ModuleName))
	w.modName = map[common.Address]string{}
	for _, n := range moduleAccountNames {
		a := common.BytesToAddress(authtypes.NewModuleAddress(n))
		w.mods = append(w.mods, a)
		w.modName[a] = n
	}
	w.distr = common.BytesToAddress(authtypes.NewModuleAddress("distribution"))
	// no inflation: supply then changes only through transactions
	mp, err := c.App.MintKeeper.Params.Get(ctx)
	must("mint-params", err)
	mp.InflationMax, mp.InflationMin, mp.InflationRateChange = sdkmath.LegacyZeroDec(), sdkmath.LegacyZeroDec(), sdkmath.LegacyZeroDec()
	must("mint-params", c.App.MintKeeper.Params.Set(ctx, mp))
	m, err := c.App.MintKeeper.Minter.Get(ctx)
	must("mint-params", err)
	m.Inflation = sdkmath.LegacyZeroDec()
	m.AnnualProvisions = sdkmath.LegacyZeroDec()
	must("mint-params", c.App.MintKeeper.Minter.Set(ctx, m))

	for i := 1; i <= 5; i++ {
		w.wallets = append(w.wallets, c.S.WalletAccounts.Number(i))
		w.id(c.S.WalletAccounts.Number(i).GetEthAddress())
	}
	w.wallets = append(w.wallets, w.newFundedAccount(1, new(big.Int).Mul(big.NewInt(3), pow10(18))))
	w.id(w.wallets[5].GetEthAddress())
	w.poor = w.newFundedAccount(2, big.NewInt(1_000_000)) // keeps only dust
	w.codeWallet = w.newFundedAccount(3, pow10(18))
	w.id(w.poor.GetEthAddress())
	w.id(w.codeWallet.GetEthAddress())
	w.eoa = map[common.Address]bool{w.poor.GetEthAddress(): true, w.codeWallet.GetEthAddress(): true}
	for _, x := range w.wallets {
		w.eoa[x.GetEthAddress()] = true
	}
	for i := 0; i < 3; i++ {
		b := common.BigToAddress(big.NewInt(int64(0xBE0000 + i)))
		w.bens = append(w.bens, b)
	}
	// the part of the universe that exists before any contract does: the set-up blocks are judged on it
	for _, x := range w.wallets {
		w.core = append(w.core, x.GetEthAddress())
	}
	w.core = append(w.core, w.poor.GetEthAddress(), w.codeWallet.GetEthAddress(), feeCollector(), w.evmModule)
	w.id(feeCollector())
	w.id(w.evmModule)
	w.core = append(w.core, w.bens...)
	for _, a := range w.mods {
		if a != feeCollector() && a != w.evmModule {
			w.id(a)
			w.core = append(w.core, a)
		}
	}
	d.runBlock("setup:first-empty-block", nil, true)

	// deploy the fixed contracts with real transactions from wallet 6 (one block of ten transactions)
	dep := w.wallets[5]
	inits := [][]byte{deployer(rtSink), deployer(rtReverter), deployer(rtInvalid), deployer(rtLogger), deployer(rtStore), InitCode(buildFactory())}
	vals := []int64{0, 0, 0, 0, 0, 0, 12345, 0, 777, 1_000_000_007}
	kinds := []kind{kCreateOK, kCreateOK, kCreateOK, kCreateOK, kCreateOK, kCreateOK}
	names := []string{"sink", "reverter", "invalid", "logger", "store", "factory"}
	for i := 0; i < 4; i++ {
		inits = append(inits, initK())
		kinds = append(kinds, kDeployK)
		names = append(names, fmt.Sprintf("K%d", i))
	}
	var gen []*genTx
	made := make([]common.Address, len(inits))
	{
		qctx := c.QueryCtx()
		nonce := c.Nonce(qctx, dep.GetEthAddress())
		for i, ic := range inits {
			gen = append(gen, w.setupCreate(dep, nonce, ic, vals[i], kinds[i], names[i], c.BaseFee(qctx)))
			made[i] = crypto.CreateAddress(dep.GetEthAddress(), nonce)
			nonce++
		}
	}
	d.runBlock("setup:deploy-fixed-contracts", gen, true)
	hasCode := func(a common.Address) bool {
		q := c.QueryCtx()
		return len(c.App.EvmKeeper.GetCode(q, c.App.EvmKeeper.GetCodeHash(q, a.Bytes()))) > 0
	}
	for i := range made {
		if hasCode(made[i]) {
			continue
		}
		// reported; then once more alone in a block (what failed at a later position of a block may work at the first),
		// so that the generated blocks can still run and show the defect in their own observations
		d.hitAll("setup/contract-not-deployed", fmt.Sprintf("set-up contract %q (transaction %d of the set-up block of %d deployments) has no code after the block", names[i], i, len(made)),
			map[string]interface{}{"contract": names[i], "pos": i, "tx": gen[i]})
		qctx := c.QueryCtx()
		nonce := c.Nonce(qctx, dep.GetEthAddress())
		g := w.setupCreate(dep, nonce, inits[i], vals[i], kinds[i], names[i], c.BaseFee(qctx))
		made[i] = crypto.CreateAddress(dep.GetEthAddress(), nonce)
		d.runBlock("setup:deploy-again-alone:"+names[i], []*genTx{g}, true)
		if !hasCode(made[i]) {
			panic(setupFailure{"contract-not-deployed-even-alone", fmt.Sprintf("set-up contract %q has no code after a block holding only its deployment", names[i])})
		}
	}
	for _, a := range made {
		w.id(a)
	}
	w.sink, w.reverter, w.invalid, w.logger, w.store, w.factory = made[0], made[1], made[2], made[3], made[4], made[5]
	w.ks = nil
	for _, a := range made[6:] {
		w.ks = append(w.ks, a)
		w.kAlive[a] = true
	}
	for _, a := range made[:5] { // the factory's nonce moves with every CREATE2
		w.static[a] = true
	}
	// give the code wallet some code directly (an EOA key whose account has code: "contract as sender")
	{
		ctx := c.Ctx()
		ch := crypto.Keccak256Hash(rtSink)
		c.App.EvmKeeper.SetCode(ctx, ch.Bytes(), rtSink)
		c.App.EvmKeeper.SetCodeHash(ctx, w.codeWallet.GetEthAddress(), ch)
	}
	w.core = append(w.core, w.sink, w.reverter, w.invalid, w.logger, w.store, w.factory)
	for s := uint64(0); s < nSalts; s++ {
		w.core = append(w.core, c2Address(w.factory, s))
	}
	// other denominations: every wallet owns all of them; some contracts, future CREATE2 addresses and passive
	// beneficiaries hold them from the start
	for i, x := range w.wallets {
		a := x.GetEthAddress()
		w.fund(a, "ufour", big.NewInt(int64(1_000_000_000+i)))
		if i == 5 {
			w.fund(a, "utwo", pow10(12))
			w.fund(a, "uthree", pow10(12))
		}
	}
	for i, a := range w.ks {
		w.fund(a, otherDenoms[i%len(otherDenoms)], big.NewInt(int64(1000+i)))
		if i%2 == 0 {
			w.fund(a, otherDenoms[(i+1)%len(otherDenoms)], big.NewInt(int64(50+i)))
		}
	}
	w.fund(c2Address(w.factory, 0), "utwo", big.NewInt(31))
	w.fund(c2Address(w.factory, 1), "ufour", big.NewInt(47))
	w.fund(w.bens[0], "uthree", big.NewInt(5)) // holds nothing else: not empty, although its EVM balance is zero
	d.runBlock("setup:empty-block-after-funding", nil, true)
	w.usable = true
	return w
}

// one contract creation of the set-up as a generated transaction (described like any other: the reference
// interpreter, the oracles and the model see a creation of kind k)
func (w *world) setupCreate(dep *itutiltypes.TestAccount, nonce uint64, init []byte, value int64, k kind, name string, base *big.Int) *genTx {
	from := dep.GetEthAddress()
	g := &genTx{Kind: "setup:" + kindNames[k] + ":" + name, kind: k, Mal: malNames[mNone], Sender: w.id(from), from: from, From: from.Hex()}
	bz, msg, err := w.c.EthTxBytes(dep, &ethtypes.LegacyTx{Nonce: nonce, GasPrice: new(big.Int).Mul(base, big.NewInt(2)), Gas: 400000, Data: init, Value: big.NewInt(value)})
	must("build-deployment-tx", err)
	w.describe(g, msg, bz, base)
	return g
}

// fund mints coins to an address directly in the commit multistore (between blocks); a refusal is a set-up hit
func (w *world) fund(a common.Address, denom string, amt *big.Int) bool {
	c := w.c
	ctx := c.Ctx()
	cs := sdk.NewCoins(sdk.NewCoin(denom, sdkmath.NewIntFromBigInt(amt)))
	acc := sdk.AccAddress(a.Bytes())
	before := c.Bal(ctx, acc, denom)
	err := c.App.BankKeeper.MintCoins(ctx, evmtypes.ModuleName, cs)
	if err == nil {
		if err = c.App.BankKeeper.SendCoinsFromModuleToAccount(ctx, evmtypes.ModuleName, acc, cs); err != nil {
			_ = c.App.BankKeeper.BurnCoins(ctx, evmtypes.ModuleName, cs) // leave nothing behind on the module account
		}
	}
	desc := map[string]interface{}{"account": a.Hex(), "denom": denom, "amount": amt.String()}
	if err != nil {
		w.d.hitAll("setup/fund-refused", "minting "+amt.String()+denom+" to "+a.Hex()+" between blocks: "+trunc(err.Error(), 200), desc)
		return false
	}
	if got := new(big.Int).Sub(c.Bal(c.Ctx(), acc, denom), before); got.Cmp(amt) != 0 {
		w.d.hitAll("setup/funded-balance-not-as-given", fmt.Sprintf("%s was given %s%s between blocks, its balance changed by %s", a.Hex(), amt, denom, got), desc)
		return false
	}
	return true
}

// newFundedAccount: a deterministic key, an auth account and amt of the EVM denomination (between blocks)
func (w *world) newFundedAccount(n int, amt *big.Int) *itutiltypes.TestAccount {
	c := w.c
	a := c.NewKeyAccount(n)
	ctx := c.Ctx()
	addr := sdk.AccAddress(a.GetEthAddress().Bytes())
	if c.App.AccountKeeper.GetAccount(ctx, addr) == nil {
		c.App.AccountKeeper.SetAccount(ctx, c.App.AccountKeeper.NewAccountWithAddress(ctx, addr))
	}
	w.fund(a.GetEthAddress(), c.Denom(), amt)
	if c.App.AccountKeeper.GetAccount(c.Ctx(), addr) == nil {
		panic(setupFailure{"account-not-created", "the auth keeper does not return the account it was just given: " + a.GetEthAddress().Hex()})
	}
	return a
}

// recipient of a bank send of other denominations: wherever a later Ethereum transaction will create, destroy or touch
func (w *world) pickBankRecipient(r *Rng, pending map[common.Address]uint64) common.Address {
	wallet := func() common.Address { return w.wallets[r.Intn(len(w.wallets))].GetEthAddress() }
	switch r.Intn(14) {
	case 0, 1:
		return wallet()
	case 2, 3, 4, 5: // the address of a coming creation of some wallet
		x := wallet()
		return crypto.CreateAddress(x, w.localNonce(pending, x)+uint64(r.Intn(3)))
	case 6: // the first child frame of such a creation (a new contract's nonce starts at 1)
		x := wallet()
		return crypto.CreateAddress(crypto.CreateAddress(x, w.localNonce(pending, x)+uint64(r.Intn(2))), 1)
	case 7, 8:
		return c2Address(w.factory, uint64(r.Intn(nSalts)))
	case 9, 10:
		return w.pickK(r)
	case 11:
		return w.bens[r.Intn(len(w.bens))]
	case 12:
		return []common.Address{w.sink, w.store, w.factory, w.logger, w.reverter}[r.Intn(5)]
	default:
		if r.Chance(25) {
			return w.pickMod(r) // a blocked address: the bank refuses
		}
		return w.freshAddr(r)
	}
}

// between blocks: mint other denominations straight to addresses the coming block creates, destroys or touches
func (w *world) prefund(r *Rng, gen []*genTx, count func(string)) {
	var cand []common.Address
	seen := map[common.Address]bool{}
	for _, a := range w.mods { // the bank refuses to credit them
		seen[a] = true
	}
	for _, g := range gen {
		if !g.isEth {
			continue
		}
		for _, a := range g.addrs {
			if !seen[a] && !w.eoa[a] {
				seen[a] = true
				cand = append(cand, a)
			}
		}
	}
	if len(cand) == 0 {
		return
	}
	// the addresses at which the block creates contracts: top-level frames, their first child frame, CREATE2 instances
	var targets []common.Address
	for _, g := range gen {
		if !g.isEth || g.inadm != "" {
			continue
		}
		if g.create {
			f := crypto.CreateAddress(g.from, g.nonce)
			targets = append(targets, f)
			if g.scr != nil {
				targets = append(targets, crypto.CreateAddress(f, 1))
				for _, o := range g.scr.ops {
					if o.kind == sC2 {
						targets = append(targets, c2Address(w.factory, o.salt))
					}
				}
			}
		} else if g.to != nil && *g.to == w.factory && len(g.data) == 32 {
			targets = append(targets, c2Address(w.factory, new(big.Int).SetBytes(g.data).Uint64()))
		}
	}
	for n := 1 + r.Intn(4); n > 0; n-- {
		a := cand[r.Intn(len(cand))]
		if len(targets) > 0 && r.Chance(60) {
			a = targets[r.Intn(len(targets))]
		}
		if w.isMod(a) {
			continue
		}
		for m := 1 + r.Intn(2); m > 0; m-- {
			w.c.Fund(sdk.AccAddress(a.Bytes()), otherDenoms[r.Intn(len(otherDenoms))], big.NewInt(int64(1+r.Intn(5000))))
		}
		count("setup:prefund-other-denoms")
	}
}

// ---------------------------------------------------------------- generated transactions

type genTx struct {
	Kind       string     `json:"kind"`
	Mal        string     `json:"malformation"`
	Sender     int64      `json:"sender"`
	From       string     `json:"from"`
	To         string     `json:"to,omitempty"`
	Dyn        bool       `json:"dynamic_fee"`
	Price      string     `json:"price_or_cap"`
	Tip        string     `json:"tip"`
	Gas        uint64     `json:"gas"`
	Nonce      uint64     `json:"nonce"`
	Value      string     `json:"value"`
	Script     string     `json:"script,omitempty"`
	Raw        string     `json:"raw_tx,omitempty"`
	AccessList int        `json:"access_list_entries,omitempty"`
	Sends      []bankSend `json:"bank_sends,omitempty"` // Cosmos bank MsgSend coins, in execution order

	raw    []byte
	coqT   string // Coq term mkTx ...
	isEth  bool
	kind   kind
	hash   common.Hash
	from   common.Address
	to     *common.Address
	create bool
	nonce  uint64
	value  *big.Int
	limit  uint64
	price  *big.Int // effective price
	intr   uint64
	data   []byte
	scr    *script
	addrs  []common.Address // every address the tx may touch
	inadm  string           // reason the encoding can never be admitted ("" = it may be)
	// cosmos
	cosmosSeq uint64
}

// one coin of a bank MsgSend of a Cosmos transaction
type bankSend struct {
	Msg    int    `json:"msg"`
	Denom  string `json:"denom"`
	To     string `json:"to"`
	Amount string `json:"amount"`
	to     common.Address
	amt    *big.Int
}

type obsTx struct {
	Class    string // DROPPED REJ FAILED EXEC_OK EXEC_VMERR
	Code     uint32
	GW, GU   int64
	TxIdx    int64
	RGas     int64
	Cum      int64
	LogIdx   int64
	Status   int64
	NLogs    int64
	HasCA    bool
	CA       string
	EffPrice string
	Bloom    ethtypes.Bloom
	LogsRlp  []*ethtypes.Log
	// per-tx bank flows from events
	delta      map[common.Address]*big.Int // account -> net
	minted     *big.Int
	burned     *big.Int
	ethTxEvent bool
	badReceipt string // the receipt event could not be decoded
	// the same for every other denomination
	fdelta           map[string]map[common.Address]*big.Int
	fminted, fburned coins
}

func (w *world) localNonce(pending map[common.Address]uint64, a common.Address) uint64 {
	if n, ok := pending[a]; ok {
		return n
	}
	n := w.c.Nonce(w.c.QueryCtx(), a)
	pending[a] = n
	return n
}

func pickWeighted(r *Rng, ws []int) int {
	tot := 0
	for _, x := range ws {
		tot += x
	}
	n := r.Intn(tot)
	for i, x := range ws {
		if n < x {
			return i
		}
		n -= x
	}
	return len(ws) - 1
}

func word(a common.Address) []byte { return common.LeftPadBytes(a.Bytes(), 32) }

const nSalts = 5

func (w *world) pickK(r *Rng) common.Address {
	if r.Chance(70) { // a living instance
		var alive []common.Address
		for _, a := range w.ks {
			if w.kAlive[a] {
				alive = append(alive, a)
			}
		}
		for s := uint64(0); s < nSalts; s++ {
			if a := c2Address(w.factory, s); w.kAlive[a] {
				alive = append(alive, a)
			}
		}
		if len(alive) > 0 {
			return alive[r.Intn(len(alive))]
		}
	}
	if r.Chance(30) || len(w.ks) == 0 {
		return c2Address(w.factory, uint64(r.Intn(nSalts)))
	}
	return w.ks[r.Intn(len(w.ks))]
}

// salt of a CREATE2 instance address, -1 if a is none
func (w *world) saltOf(a common.Address) int {
	for s := uint64(0); s < nSalts; s++ {
		if c2Address(w.factory, s) == a {
			return int(s)
		}
	}
	return -1
}

// one set-up block deploying n fresh instances of rtK: a block like any other (oracles, model case); the instances
// that exist afterwards are picked up by runBlock's bookkeeping of rtK instances
func (w *world) deployKs(n int) {
	c := w.c
	dep := w.wallets[5]
	qctx := c.QueryCtx()
	nonce := c.Nonce(qctx, dep.GetEthAddress())
	vals := []int64{12345, 0, 777, 1_000_000_007, 5}
	var gen []*genTx
	for i := 0; i < n; i++ {
		gen = append(gen, w.setupCreate(dep, nonce, initK(), vals[i%len(vals)], kDeployK, "K", c.BaseFee(qctx)))
		nonce++
	}
	w.d.runBlock("setup:deploy-K-block", gen, true)
}

func (w *world) freshAddr(r *Rng) common.Address {
	return common.BigToAddress(new(big.Int).Add(big.NewInt(0x100000), r.BigBits(20)))
}

// beneficiary of a self-destruct of target (self = the executing frame, resolved when the script runs)
func (w *world) pickBenef(r *Rng, target, sender common.Address) (b common.Address, self bool) {
	switch r.Intn(10) {
	case 9: // a module account: crediting it with anything aborts the transaction; with nothing, it is only touched
		return w.pickMod(r), false
	case 0, 1:
		return common.Address{}, true
	case 2:
		return target, false
	case 3:
		return w.pickK(r), false
	case 4:
		return sender, false
	case 5:
		return w.wallets[r.Intn(len(w.wallets))].GetEthAddress(), false
	case 6:
		return w.freshAddr(r), false
	case 7:
		return c2Address(w.factory, uint64(r.Intn(nSalts))), false
	default:
		if len(w.foreignOnly) > 0 && r.Chance(40) {
			return w.foreignOnly[r.Intn(len(w.foreignOnly))], false
		}
		return w.bens[r.Intn(len(w.bens))], false
	}
}

func (w *world) genScript(r *Rng, depth int, sender common.Address, unit *big.Int, budget *int) *script {
	s := &script{}
	val := func() *big.Int {
		switch r.Intn(8) {
		case 0, 1, 2:
			return big.NewInt(0)
		case 3:
			return new(big.Int).Mul(unit, big.NewInt(100000)) // more than the frame can hold
		default:
			return new(big.Int).Mul(unit, big.NewInt(int64(1+r.Intn(4))))
		}
	}
	n := 1 + r.Intn(5)
	for i := 0; i < n && *budget > 0; i++ {
		if depth < 2 && *budget >= 2 && r.Chance(12) { // a self-destruct inside a frame that reverts: the contract must survive
			*budget -= 2
			k := w.pickK(r)
			b, self := w.pickBenef(r, k, sender)
			sub := &script{ops: []sop{{kind: sSD, target: k, value: val(), benef: b, benefSelf: self}}, end: endRevert}
			if r.Chance(30) {
				sub.ops = append(sub.ops, sop{kind: sFund, target: k, value: val()})
			}
			if r.Chance(50) && *budget > 0 { // ... and is also touched outside that frame
				*budget--
				s.ops = append(s.ops, sop{kind: sFund, target: k, value: val()})
			}
			s.ops = append(s.ops, sop{kind: sSub, value: val(), sub: sub})
			if r.Chance(25) && *budget > 0 {
				*budget--
				s.ops = append(s.ops, sop{kind: sFund, target: k, value: val()})
			}
			continue
		}
		switch r.Intn(10) {
		case 0, 1, 2: // repeated self-destruct of one contract, value arriving in between
			k := w.pickK(r)
			if sl := w.saltOf(k); sl >= 0 && !w.kAlive[k] && r.Chance(75) && *budget > 0 {
				*budget--
				s.ops = append(s.ops, sop{kind: sC2, salt: uint64(sl), value: val()})
			}
			m := 2 + r.Intn(3)
			b, self := w.pickBenef(r, k, sender)
			for j := 0; j < m && *budget > 0; j++ {
				*budget--
				if r.Chance(25) {
					b, self = w.pickBenef(r, k, sender)
				}
				s.ops = append(s.ops, sop{kind: sSD, target: k, value: val(), benef: b, benefSelf: self})
				if r.Chance(25) && *budget > 0 {
					*budget--
					s.ops = append(s.ops, sop{kind: sFund, target: k, value: val()})
				}
			}
		case 3, 4:
			*budget--
			k := w.pickK(r)
			b, self := w.pickBenef(r, k, sender)
			s.ops = append(s.ops, sop{kind: sSD, target: k, value: val(), benef: b, benefSelf: self})
		case 5:
			*budget--
			var t common.Address
			switch r.Intn(4) {
			case 0:
				t = w.sink
			case 1:
				t = w.bens[r.Intn(len(w.bens))]
			default:
				t = w.pickK(r)
			}
			v := val()
			if v.Sign() == 0 && t != w.sink && r.Chance(70) {
				v = new(big.Int).Set(unit)
			}
			if len(w.foreignOnly) > 0 && r.Chance(15) { // a zero-value call to an account holding only other denominations
				t, v = w.foreignOnly[r.Intn(len(w.foreignOnly))], big.NewInt(0)
			}
			if r.Chance(14) { // an inner CALL to a module account, with or without value
				t, v = w.pickMod(r), val()
				if r.Chance(40) {
					v = big.NewInt(0)
				}
			}
			s.ops = append(s.ops, sop{kind: sFund, target: t, value: v})
		case 6:
			*budget--
			s.ops = append(s.ops, sop{kind: sC2, salt: uint64(r.Intn(nSalts)), value: val()})
		case 7, 8:
			if depth < 2 {
				*budget--
				s.ops = append(s.ops, sop{kind: sSub, value: val(), sub: w.genScript(r, depth+1, sender, unit, budget)})
			}
		default:
			*budget--
			s.ops = append(s.ops, sop{kind: sLog})
		}
	}
	e := r.Intn(100)
	revertPct, sdPct := 12, 18
	if depth > 0 {
		revertPct, sdPct = 35, 20
	}
	switch {
	case e < revertPct:
		s.end = endRevert
	case e < revertPct+sdPct:
		s.end = endSD
		s.endBenef, s.endToSelf = w.pickBenef(r, common.Address{}, sender)
		if !s.endToSelf && s.endBenef == (common.Address{}) {
			s.endToSelf = true
		}
	}
	return s
}

// describe fills the fields derived from the final signed transaction (independently of the ante handler)
func (w *world) describe(g *genTx, msg *evmtypes.MsgEthereumTx, raw []byte, base *big.Int) {
	final := msg.AsTransaction()
	from := g.from
	rec, recErr := ethtypes.LatestSignerForChainID(w.chainID).Sender(final)
	recS := "None"
	if recErr == nil {
		recS = fmt.Sprintf("(Some %s)", CqZi(w.id(rec)))
	}
	isDyn := final.Type() == ethtypes.DynamicFeeTxType
	gp, tp, cp := final.GasPrice(), big.NewInt(0), big.NewInt(0)
	if isDyn {
		gp, tp, cp = big.NewInt(0), final.GasTipCap(), final.GasFeeCap()
	}
	fintr, err := core.IntrinsicGas(final.Data(), final.AccessList(), final.To() == nil, true, true)
	must("intrinsic-gas", err)
	g.coqT = fmt.Sprintf("(mkTx %s %s %s %s %s %s %s %s %s %s %s %s)", CqZi(w.id(from)), recS, CqBool(final.Protected()), CqBool(isDyn),
		CqZ(gp), CqZ(tp), CqZ(cp), CqZu(final.Gas()), CqZu(final.Nonce()), CqZ(final.Value()), CqBool(final.To() == nil), CqZu(fintr))
	g.isEth, g.raw, g.hash = true, raw, final.Hash()
	g.Raw = hex.EncodeToString(raw)
	g.Dyn, g.Gas, g.Nonce, g.Value = isDyn, final.Gas(), final.Nonce(), final.Value().String()
	g.Price, g.Tip = gp.String(), tp.String()
	if isDyn {
		g.Price = cp.String()
	}
	g.From = from.Hex()
	g.to = final.To()
	if g.to != nil {
		g.To = g.to.Hex()
	}
	g.create, g.nonce, g.value, g.limit, g.intr, g.data = final.To() == nil, final.Nonce(), final.Value(), final.Gas(), fintr, final.Data()
	if isDyn {
		e := new(big.Int).Add(tp, base)
		if e.Cmp(cp) > 0 {
			e = cp
		}
		g.price = e
	} else {
		g.price = gp
	}
	// address universe of the tx
	set := map[common.Address]bool{from: true}
	if recErr == nil {
		set[rec] = true
	}
	frame := crypto.CreateAddress(from, final.Nonce())
	set[frame] = true
	if g.to != nil {
		set[*g.to] = true
		if len(g.data) == 32 {
			if *g.to == w.factory {
				set[c2Address(w.factory, new(big.Int).SetBytes(g.data).Uint64())] = true
			} else {
				set[common.BytesToAddress(g.data[12:])] = true // beneficiary
			}
		}
	}
	if g.scr != nil {
		g.scr.addresses(frame, w.factory, set)
	}
	g.addrs = g.addrs[:0]
	for a := range set {
		g.addrs = append(g.addrs, a)
	}
	sort.Slice(g.addrs, func(i, j int) bool { return g.addrs[i].Hex() < g.addrs[j].Hex() })
	for _, a := range g.addrs {
		w.id(a)
	}
}

func (w *world) genBlock(r *Rng, n int) []*genTx {
	c := w.c
	ctx := c.QueryCtx()
	base := c.BaseFee(ctx)
	gmin := c.App.FeeMarketKeeper.GetParams(ctx).MinGasPrice.TruncateInt().BigInt()
	floor := base
	if gmin.Cmp(floor) > 0 {
		floor = gmin
	}
	pending := map[common.Address]uint64{}
	spent := map[common.Address]*big.Int{}
	var out []*genTx
	// block template "numbering after a receipt-less transaction" (C13/C05): the first transaction fails after admission
	// (owns an Ethereum index, leaves no receipt), the next `burst` ones each emit logs
	burst := -1
	if n >= 3 && r.Chance(15) {
		burst = 2 + r.Intn(3)
	}
	for i := 0; i < n; i++ {
		inTemplate := burst >= 0 && i <= burst
		// replays first: of this very block, of earlier blocks (with priority to txs that failed after admission)
		if !inTemplate && r.Chance(12) {
			var pool []*genTx
			switch r.Intn(6) {
			case 0, 1:
				pool = out
			case 2:
				pool = w.failedAcc
			case 3:
				pool = w.accepted
			case 4:
				pool = w.abortedAcc
			default:
				pool = w.cosmosAcc
			}
			if len(pool) == 0 {
				pool = out
			}
			if len(pool) > 0 {
				cp := *pool[r.Intn(len(pool))]
				if cp.Mal == malNames[mNone] {
					cp.Mal = malNames[mReplay]
				} else if !strings.HasPrefix(cp.Mal, "replay") {
					cp.Mal = "replay+" + cp.Mal
				}
				out = append(out, &cp)
				continue
			}
		}
		k := kind(pickWeighted(r, kindWeights))
		mal := mNone
		if r.Chance(20) {
			mal = 1 + r.Intn(nMal-1)
			if mal == mReplay {
				mal = mFutureNonce // replays are generated above
			}
		}
		forceUnaffordable, forceLogs := false, false
		if inTemplate {
			mal = mNone
			if i == 0 {
				k, forceUnaffordable = kTransfer, true
			} else {
				k, forceLogs = kLogger, true
			}
		}
		sender := w.wallets[r.Intn(len(w.wallets))]
		if mal == mContractSender {
			sender = w.codeWallet
		}
		if mal == mPoor {
			sender = w.poor
		}
		from := sender.GetEthAddress()
		g := &genTx{Kind: kindNames[k], kind: k, Mal: malNames[mal], Sender: w.id(from), from: from, From: from.Hex()}

		if k == kCosmosSend {
			g.Mal = malNames[mNone]
			seq := w.localNonce(pending, from)
			useSeq := seq
			failing := false
			switch r.Intn(12) {
			case 0: // the message fails (more than the account owns): fee charged, sequence consumed
				g.Kind = "cosmos-send-failing"
				failing = true
			case 1:
				if seq > 0 {
					g.Kind, g.Mal = "cosmos-send", "stale-nonce"
					useSeq = seq - 1
				}
			case 2:
				g.Kind, g.Mal = "cosmos-send", "future-nonce"
				useSeq = seq + 1
			}
			// one or two bank sends of one to three other denominations each
			nMsg := 1
			if r.Chance(25) {
				nMsg = 2
			}
			var msgs []sdk.Msg
			set := map[common.Address]bool{from: true}
			for mi := 0; mi < nMsg; mi++ {
				to := w.pickBankRecipient(r, pending)
				if mi == 0 && r.Chance(35) {
					to = w.wallets[r.Intn(len(w.wallets))].GetEthAddress()
				}
				set[to] = true
				perm := []int{0, 1, 2}
				for j := 2; j > 0; j-- {
					q := r.Intn(j + 1)
					perm[j], perm[q] = perm[q], perm[j]
				}
				nd := []int{1, 1, 2, 3}[r.Intn(4)]
				var cs sdk.Coins
				for j := 0; j < nd; j++ {
					d := otherDenoms[perm[j]]
					amt := sdkmath.NewInt(int64(1 + r.Intn(1000)))
					if failing && mi == nMsg-1 && j == nd-1 {
						amt = c.App.BankKeeper.GetBalance(ctx, sdk.AccAddress(from.Bytes()), d).Amount.AddRaw(1)
					}
					cs = cs.Add(sdk.NewCoin(d, amt))
				}
				for _, coin := range cs { // sorted by denomination: the order x/bank processes them in
					g.Sends = append(g.Sends, bankSend{Msg: mi, Denom: coin.Denom, To: to.Hex(), Amount: coin.Amount.String(), to: to, amt: coin.Amount.BigInt()})
				}
				msgs = append(msgs, banktypes.NewMsgSend(sdk.AccAddress(from.Bytes()), sdk.AccAddress(to.Bytes()), cs))
			}
			bz, err := w.cosmosTx(sender, useSeq, 400000, new(big.Int).Mul(floor, big.NewInt(2)), msgs...)
			must("build-cosmos-tx", err)
			if useSeq == seq {
				pending[from] = seq + 1
			}
			g.raw, g.isEth, g.cosmosSeq, g.Nonce = bz, false, useSeq, useSeq
			g.Raw = hex.EncodeToString(bz)
			for a := range set {
				g.addrs = append(g.addrs, a)
			}
			sort.Slice(g.addrs, func(i, j int) bool { return g.addrs[i].Hex() < g.addrs[j].Hex() })
			for _, a := range g.addrs {
				w.id(a)
			}
			out = append(out, g)
			continue
		}

		// fee fields relative to the floor
		dyn := r.Bool()
		var price, tip *big.Int
		switch r.Intn(6) {
		case 0:
			price = new(big.Int).Set(floor) // exactly at the floor
		case 1:
			price = Badd(floor, 1)
		case 2:
			price = new(big.Int).Mul(floor, big.NewInt(3))
		default:
			price = new(big.Int).Add(floor, r.BigBits(28))
		}
		tip = big.NewInt(0)
		if dyn {
			switch r.Intn(4) {
			case 0:
				tip = big.NewInt(0)
			case 1:
				tip = new(big.Int).Set(price) // tip = cap
			default:
				tip = new(big.Int).Rsh(r.BigBits(28), uint(r.Intn(20)))
				if tip.Cmp(price) > 0 {
					tip = new(big.Int).Set(price)
				}
			}
		}
		if mal == mLowPrice {
			if floor.Sign() == 0 {
				mal = mNone
				g.Mal = malNames[mNone]
			} else {
				price = Bsub(floor, int64(1+r.Intn(3)))
				if price.Sign() < 0 {
					price = big.NewInt(0)
				}
				if tip.Cmp(price) > 0 {
					tip = new(big.Int).Set(price)
				}
			}
		}

		var to *common.Address
		var data []byte
		value := big.NewInt(0)
		senderBal := c.EvmBal(ctx, from)
		switch r.Intn(8) {
		case 0, 1:
			value = big.NewInt(int64(1 + r.Intn(1000)))
		case 2:
			value = new(big.Int).Add(pow10(15), r.BigBits(40))
		case 3:
			switch r.Intn(3) { // the sender cannot afford the value: core error after admission
			case 0:
				value = new(big.Int).Add(senderBal, big.NewInt(1))
			case 1:
				value = new(big.Int).Set(senderBal) // the whole balance: unaffordable once the fee is taken
			}
		}
		if forceUnaffordable {
			value = new(big.Int).Add(senderBal, big.NewInt(1))
		}
		gasExec := uint64(0) // rough execution gas above intrinsic
		ample := false       // the reference needs the execution to run to completion or to fail at top level
		switch k {
		case kTransfer:
			var a common.Address
			switch r.Intn(6) {
			case 0, 1, 2:
				a = w.wallets[r.Intn(len(w.wallets))].GetEthAddress()
			case 3:
				a = w.freshAddr(r)
			case 4: // the address a later creation of some wallet will use
				x := w.wallets[r.Intn(len(w.wallets))].GetEthAddress()
				a = crypto.CreateAddress(x, w.localNonce(pending, x)+uint64(r.Intn(2)))
			default:
				a = c2Address(w.factory, uint64(r.Intn(nSalts)))
			}
			if len(w.foreignOnly) > 0 && r.Chance(18) { // touch an account that holds only other denominations
				a = w.foreignOnly[r.Intn(len(w.foreignOnly))]
				if r.Chance(65) {
					value = big.NewInt(0)
				}
			}
			if r.Chance(15) { // a module account as recipient of the transaction itself (value zero, affordable or not)
				a = w.pickMod(r)
				if r.Chance(45) {
					value = big.NewInt(0) // only touched: aborted at commit when the module account is empty
				}
			}
			to = &a
		case kSink:
			to = &w.sink
			gasExec = 100
		case kRevert:
			to = &w.reverter
			gasExec = 100
		case kInvalid:
			to = &w.invalid
			gasExec = 30000
		case kLogger:
			to = &w.logger
			nl := r.Intn(5)
			if forceLogs && nl == 0 {
				nl = 1 + r.Intn(3)
			}
			data = []byte{byte(nl)}
			gasExec = 600 + uint64(nl)*600
			value = big.NewInt(0)
		case kStoreSet:
			to = &w.store
			ns := 1 + r.Intn(6)
			data = []byte{byte(ns), byte(1 + r.Intn(200))}
			gasExec = 1000 + uint64(ns)*23000
			value = big.NewInt(0)
		case kStoreClear:
			to = &w.store
			ns := 1 + r.Intn(6)
			data = []byte{byte(ns), 0}
			gasExec = 1000 + uint64(ns)*23000
			value = big.NewInt(0)
		case kSuicide:
			a := w.pickK(r)
			to = &a
			b, self := w.pickBenef(r, a, from)
			if self {
				b = from
			}
			data = word(b)
			gasExec = 60000
			ample = true
		case kFundK:
			a := w.pickK(r)
			to = &a
			gasExec = 3000
		case kCreateOK:
			data = deployer(rtSink)
			gasExec = 40000
		case kCreateFail:
			data = []byte{0xfe}
			gasExec = 40000
		case kDeployK:
			data = initK()
			gasExec = 60000
		case kFactory:
			to = &w.factory
			data = common.LeftPadBytes([]byte{byte(r.Intn(nSalts))}, 32)
			gasExec = 120000
			ample = true
		case kScript:
			unit := []*big.Int{big.NewInt(1), big.NewInt(1000), pow10(12)}[r.Intn(3)]
			budget := 9
			g.scr = w.genScript(r, 0, from, unit, &budget)
			g.Script = g.scr.String()
			data = g.scr.compile(w.factory)
			if value.Cmp(senderBal) < 0 || r.Chance(60) {
				value = new(big.Int).Mul(unit, big.NewInt(int64(r.Intn(40))))
			}
			gasExec = 150000 + 230000*uint64(g.scr.size())
			ample = true
		}
		// EIP-2930 access list (typed transactions only): changes the intrinsic gas
		useAL := !dyn && r.Bool()
		var al ethtypes.AccessList
		if (dyn || useAL) && mal != mUnprotected && k != kStoreSet && k != kStoreClear && r.Chance(30) {
			for j := 0; j <= r.Intn(2); j++ {
				t := ethtypes.AccessTuple{Address: []common.Address{w.sink, w.logger, from, w.pickK(r), w.freshAddr(r)}[r.Intn(5)]}
				for q := r.Intn(3); q > 0; q-- {
					t.StorageKeys = append(t.StorageKeys, common.BigToHash(big.NewInt(int64(r.Intn(4)))))
				}
				al = append(al, t)
			}
			g.AccessList = len(al)
		}
		intr, err := core.IntrinsicGas(data, al, to == nil, true, true)
		must("intrinsic-gas", err)
		var gas uint64
		if ample {
			switch r.Intn(8) {
			case 0:
				gas = intr + uint64(r.Intn(200)) // fails in the top frame
			case 1:
				gas = intr + gasExec + 1_000_000
			default:
				gas = intr + gasExec + uint64(r.Intn(50000))
			}
		} else {
			switch r.Intn(8) {
			case 0:
				gas = intr - 1 // admitted by the deliver-mode ante, core error
				if gas < 20999 {
					gas = 20999
				}
			case 1:
				gas = intr
			case 2:
				gas = intr + gasExec/2
			case 3:
				gas = 3_000_000
			default:
				gas = intr + gasExec + uint64(r.Intn(50000))
			}
		}
		if forceLogs {
			gas = intr + gasExec + 20000
		}
		nonce := w.localNonce(pending, from)
		switch mal {
		case mStaleNonce:
			if nonce == 0 {
				nonce = 5
			} else {
				nonce = nonce - 1 - uint64(r.Intn(int(nonce)))
			}
		case mFutureNonce:
			nonce = nonce + 1 + uint64(r.Intn(3))
		}

		chainID := w.chainID
		if mal == mWrongChainID {
			chainID = new(big.Int).Add(w.chainID, big.NewInt(int64(1+r.Intn(5))))
		}
		var txData ethtypes.TxData
		if dyn {
			txData = &ethtypes.DynamicFeeTx{ChainID: chainID, Nonce: nonce, GasTipCap: tip, GasFeeCap: price, Gas: gas, To: to, Value: value, Data: data, AccessList: al}
		} else if useAL {
			txData = &ethtypes.AccessListTx{ChainID: chainID, Nonce: nonce, GasPrice: price, Gas: gas, To: to, Value: value, Data: data, AccessList: al}
		} else {
			txData = &ethtypes.LegacyTx{Nonce: nonce, GasPrice: price, Gas: gas, To: to, Value: value, Data: data}
		}
		if mal == mUnprotected {
			dyn = false
			txData = &ethtypes.LegacyTx{Nonce: nonce, GasPrice: price, Gas: gas, To: to, Value: value, Data: data}
		}

		// sign
		var signer ethtypes.Signer = ethtypes.LatestSignerForChainID(chainID)
		if mal == mUnprotected {
			signer = ethtypes.HomesteadSigner{}
		}
		signKey := sender
		if mal == mFromNotSigner {
			signKey = w.wallets[(r.Intn(len(w.wallets)-1)+1+indexOf(w.wallets, sender))%len(w.wallets)]
		}
		ecdsaKey, err := signKey.PrivateKey.ToECDSA()
		must("sign-eth-tx", err)
		ethTx, err := ethtypes.SignTx(ethtypes.NewTx(txData), signer, ecdsaKey)
		must("sign-eth-tx", err)
		msg := &evmtypes.MsgEthereumTx{}
		must("wrap-eth-tx", msg.FromEthereumTx(ethTx, from))
		if mal == mTamperedSig {
			// change the payload after signing: the value by 1, keeping V,R,S
			signed := msg.AsTransaction()
			v, rr, ss := signed.RawSignatureValues()
			nv := new(big.Int).Add(value, big.NewInt(1))
			var td ethtypes.TxData
			switch signed.Type() {
			case ethtypes.DynamicFeeTxType:
				td = &ethtypes.DynamicFeeTx{ChainID: chainID, Nonce: nonce, GasTipCap: tip, GasFeeCap: price, Gas: gas, To: to, Value: nv, Data: data, AccessList: al, V: v, R: rr, S: ss}
			case ethtypes.AccessListTxType:
				td = &ethtypes.AccessListTx{ChainID: chainID, Nonce: nonce, GasPrice: price, Gas: gas, To: to, Value: nv, Data: data, AccessList: al, V: v, R: rr, S: ss}
			default:
				td = &ethtypes.LegacyTx{Nonce: nonce, GasPrice: price, Gas: gas, To: to, Value: nv, Data: data, V: v, R: rr, S: ss}
			}
			must("wrap-eth-tx", msg.FromEthereumTx(ethtypes.NewTx(td), from))
		}
		raw, err := c.WrapEthMsg(msg)
		must("wrap-eth-tx", err)
		w.describe(g, msg, raw, base)
		switch mal {
		case mWrongChainID, mUnprotected, mFromNotSigner, mTamperedSig, mContractSender:
			g.inadm = malNames[mal]
		}
		if mal == mNone {
			// optimistic local nonce tracking (only exact for admitted txs; rejected ones do not advance)
			cost := new(big.Int).Mul(g.price, new(big.Int).SetUint64(g.limit))
			if spent[from] == nil {
				spent[from] = big.NewInt(0)
			}
			if new(big.Int).Add(spent[from], cost).Cmp(senderBal) <= 0 {
				spent[from].Add(spent[from], cost)
				pending[from] = nonce + 1
			}
		}
		out = append(out, g)
		// a transaction that names a module account is now and then followed at once by its own replay: whatever became
		// of its execution (aborted by a panic, executed with nothing to commit), the sequence moved and the replay must be refused
		if mal == mNone && !inTemplate && i+1 < n && r.Chance(30) {
			names := false
			for _, a := range g.addrs {
				names = names || w.isMod(a)
			}
			if names {
				cp := *g
				cp.Mal = malNames[mReplay]
				out = append(out, &cp)
				i++
			}
		}
	}
	return out
}

func indexOf(ws []*itutiltypes.TestAccount, a *itutiltypes.TestAccount) int {
	for i, x := range ws {
		if x == a {
			return i
		}
	}
	return 0
}

func cosmosArgs(gas uint64, gp *sdkmath.Int, msgs []sdk.Msg) itu.CosmosTxArgs {
	return itu.CosmosTxArgs{Gas: gas, GasPrice: gp, Msgs: msgs}
}

func pow10(n int64) *big.Int { return new(big.Int).Exp(big.NewInt(10), big.NewInt(n), nil) }

func (w *world) cosmosTx(acct *itutiltypes.TestAccount, seq uint64, gas uint64, gasPrice *big.Int, msgs ...sdk.Msg) ([]byte, error) {
	// PrepareCosmosTx reads the sequence from the context: give it a context whose account has the wanted sequence
	ctx := w.c.QueryCtx()
	acc := w.c.App.AccountKeeper.GetAccount(ctx, sdk.AccAddress(acct.GetEthAddress().Bytes()))
	if acc != nil && acc.GetSequence() != seq {
		_ = acc.SetSequence(seq)
		w.c.App.AccountKeeper.SetAccount(ctx, acc)
	}
	gp := sdkmath.NewIntFromBigInt(gasPrice)
	tx, err := w.c.S.PrepareCosmosTx(ctx, acct, cosmosArgs(gas, &gp, msgs))
	if err != nil {
		return nil, err
	}
	return w.c.S.EncodingConfig.TxConfig.TxEncoder()(tx)
}

// ---------------------------------------------------------------- the reference effect of a committed successful execution

func (w *world) applyRef(st *refState, g *genTx) (consistent bool) {
	consistent = true
	switch {
	case g.create:
		frame := crypto.CreateAddress(g.from, g.nonce)
		st.nonce[frame] = 1
		st.markCreated(frame)
		if !st.transfer(g.from, frame, g.value) {
			consistent = false
		}
		switch {
		case g.scr != nil:
			if st.run(frame, g.scr) {
				consistent = false // a reverting top frame is a VM error, not a success
			}
		case g.kind == kDeployK:
			st.isK[frame] = true
		}
	case *g.to == w.factory && len(g.data) == 32:
		ka := c2Address(w.factory, new(big.Int).SetBytes(g.data).Uint64())
		if st.isK[ka] || !st.transfer(g.from, w.factory, g.value) {
			consistent = false // collision: the factory reverts (VM error)
		} else {
			st.transfer(w.factory, ka, g.value)
			st.isK[ka] = true
			st.markCreated(ka)
		}
	default:
		if st.get(g.from).Cmp(g.value) < 0 {
			consistent = false
		}
		b := common.Address{}
		if len(g.data) >= 32 {
			b = common.BytesToAddress(g.data[12:32])
		}
		st.callK(g.from, *g.to, g.value, len(g.data) > 0, b)
	}
	st.finishTx()
	return
}

// ---------------------------------------------------------------- observation

func (w *world) observe(res *abci.ExecTxResult) *obsTx {
	o := &obsTx{Code: res.Code, GW: res.GasWanted, GU: res.GasUsed, TxIdx: -1, RGas: -1, Cum: -1, LogIdx: -1, Status: -1,
		delta: map[common.Address]*big.Int{}, minted: big.NewInt(0), burned: big.NewInt(0),
		fdelta: map[string]map[common.Address]*big.Int{}, fminted: coins{}, fburned: coins{}}
	denom := w.c.Denom()
	// every coin of a bank event: the EVM denomination into delta/minted/burned, any other one into the f* maps
	each := func(s string, f func(d string, amt *big.Int)) {
		cs, err := sdk.ParseCoinsNormalized(s)
		if err != nil {
			return
		}
		for _, coin := range cs {
			if !coin.Amount.IsZero() {
				f(coin.Denom, coin.Amount.BigInt())
			}
		}
	}
	add := func(who string, sign int64, s string) {
		acc, err := sdk.AccAddressFromBech32(who)
		if err != nil {
			return
		}
		a := common.BytesToAddress(acc.Bytes())
		each(s, func(d string, amt *big.Int) {
			m := o.delta
			if d != denom {
				if o.fdelta[d] == nil {
					o.fdelta[d] = map[common.Address]*big.Int{}
				}
				m = o.fdelta[d]
			}
			if m[a] == nil {
				m[a] = big.NewInt(0)
			}
			m[a].Add(m[a], new(big.Int).Mul(amt, big.NewInt(sign)))
		})
	}
	tot := func(evm *big.Int, other coins, s string) {
		each(s, func(d string, amt *big.Int) {
			if d == denom {
				evm.Add(evm, amt)
			} else {
				other[d] = new(big.Int).Add(other.get(d), amt)
			}
		})
	}
	for _, ev := range res.Events {
		at := EventAttrs(ev)
		switch ev.Type {
		case evmtypes.EventTypeEthereumTx:
			o.ethTxEvent = true
			if v, err := strconv.ParseInt(at[evmtypes.AttributeKeyTxIndex], 10, 64); err == nil {
				o.TxIdx = v
			}
		case evmtypes.EventTypeTxReceipt:
			bz, err := hexutil.Decode(at[evmtypes.AttributeKeyReceiptMarshalled])
			rc := &ethtypes.Receipt{}
			if err == nil {
				err = rc.UnmarshalBinary(bz)
			}
			if err != nil { // an observation about the code under test, not a reason to stop: no usable receipt
				o.badReceipt = trunc(err.Error(), 160)
				continue
			}
			o.Status, o.Cum, o.NLogs, o.Bloom, o.LogsRlp = int64(rc.Status), int64(rc.CumulativeGasUsed), int64(len(rc.Logs)), rc.Bloom, rc.Logs
			o.RGas, _ = strconv.ParseInt(at[evmtypes.AttributeKeyReceiptGasUsed], 10, 64)
			if v, err := strconv.ParseInt(at[evmtypes.AttributeKeyReceiptTxIndex], 10, 64); err == nil && o.TxIdx != v {
				o.TxIdx = -100 - v // disagreement between the two events: make it visible
			}
			if s, ok := at[evmtypes.AttributeKeyReceiptStartLogIndex]; ok {
				o.LogIdx, _ = strconv.ParseInt(s, 10, 64)
			}
			o.CA = at[evmtypes.AttributeKeyReceiptContractAddress]
			o.HasCA = o.CA != ""
			o.EffPrice = at[evmtypes.AttributeKeyReceiptEffectiveGasPrice]
		case banktypes.EventTypeCoinSpent:
			add(at[banktypes.AttributeKeySpender], -1, at[sdk.AttributeKeyAmount])
		case banktypes.EventTypeCoinReceived:
			add(at[banktypes.AttributeKeyReceiver], 1, at[sdk.AttributeKeyAmount])
		case banktypes.EventTypeCoinMint:
			tot(o.minted, o.fminted, at[sdk.AttributeKeyAmount])
		case banktypes.EventTypeCoinBurn:
			tot(o.burned, o.fburned, at[sdk.AttributeKeyAmount])
		}
	}
	for a, d := range o.delta {
		if d.Sign() == 0 {
			delete(o.delta, a)
		}
	}
	for dn, m := range o.fdelta {
		for a, d := range m {
			if d.Sign() == 0 {
				delete(m, a)
			}
		}
		if len(m) == 0 {
			delete(o.fdelta, dn)
		}
	}
	switch {
	case res.Code == 0 && o.Status == 1:
		o.Class = "EXEC_OK"
	case res.Code == 0 && o.Status == 0:
		o.Class = "EXEC_VMERR"
	case res.Code == 0:
		o.Class = "OK_NO_RECEIPT"
	case !o.ethTxEvent && res.Code == 11 && res.Codespace == "sdk":
		o.Class = "DROPPED"
	case !o.ethTxEvent:
		o.Class = "REJ"
	case res.Codespace == "undefined" && res.Code == 111222:
		// baseapp.runTx recovered a panic raised inside the message handler (errorsmod.ErrPanic): the ante handler's
		// effects stay, the handler's are dropped, the gas meter shows whatever it held when the panic was raised
		o.Class = "PANIC"
	default:
		o.Class = "FAILED"
	}
	return o
}

func (o *obsTx) coq(codespace string) string {
	var out string
	switch o.Class {
	case "EXEC_OK":
		out = "(OExec false)"
	case "EXEC_VMERR":
		out = "(OExec true)"
	case "DROPPED":
		out = "ODropped"
	case "REJ":
		code := int64(o.Code)
		if codespace != "sdk" {
			code += 1000
		}
		out = fmt.Sprintf("(ORej %s)", CqZi(code))
	case "FAILED":
		out = "OFailed"
	case "PANIC":
		out = "OPanic"
	default:
		out = "OOther"
	}
	return fmt.Sprintf("(mkObs %s %s %s %s %s %s %s %s)", out, CqZi(o.GW), CqZi(o.GU), CqZi(o.TxIdx), CqZi(o.RGas), CqZi(o.Cum), CqZi(o.LogIdx), CqZi(o.Status))
}

// bloom bit positions (0..2047) of one log: three per item (address, each topic), from keccak256 of the item
func logBits(l *ethtypes.Log) []int64 {
	var out []int64
	item := func(b []byte) {
		h := crypto.Keccak256(b)
		for i := 0; i < 6; i += 2 {
			out = append(out, int64((uint(h[i])<<8|uint(h[i+1]))&2047))
		}
	}
	item(l.Address.Bytes())
	for _, t := range l.Topics {
		item(t.Bytes())
	}
	return out
}

// set bits of a 2048-bit bloom, ascending (bit b lives in byte 255-b/8, mask 1<<(b%8))
func bloomBits(b ethtypes.Bloom) []int64 {
	var out []int64
	for bit := 0; bit < 2048; bit++ {
		if b[ethtypes.BloomByteLength-1-bit/8]&(1<<uint(bit%8)) != 0 {
			out = append(out, int64(bit))
		}
	}
	return out
}

func cqZs(xs []int64) string {
	ss := make([]string, len(xs))
	for i, x := range xs {
		ss[i] = CqZi(x)
	}
	return CqList(ss)
}

type snap struct {
	addrs   []common.Address
	bal     map[common.Address]*big.Int
	seq     map[common.Address]uint64
	exists  map[common.Address]bool
	code    map[common.Address]common.Hash
	supply  *big.Int
	base    *big.Int
	gminDec *big.Int
	allSup  sdk.Coins                // total supply of every denomination
	isMod   map[common.Address]bool  // the account exists and is a module account
	fbal    map[common.Address]coins // balances in the other denominations
}

func (w *world) snapshot(ctx sdk.Context, addrs []common.Address) *snap {
	s := &snap{addrs: addrs, supply: w.c.Supply(ctx, w.c.Denom()), base: w.c.BaseFee(ctx), bal: map[common.Address]*big.Int{}, seq: map[common.Address]uint64{},
		exists: map[common.Address]bool{}, code: map[common.Address]common.Hash{}, fbal: map[common.Address]coins{}, isMod: map[common.Address]bool{}}
	s.gminDec = w.c.App.FeeMarketKeeper.GetParams(ctx).MinGasPrice.BigInt()
	w.c.App.BankKeeper.IterateTotalSupply(ctx, func(coin sdk.Coin) bool {
		s.allSup = s.allSup.Add(coin)
		return false
	})
	for _, a := range addrs {
		s.bal[a] = w.c.EvmBal(ctx, a)
		f := coins{}
		for _, coin := range w.c.App.BankKeeper.GetAllBalances(ctx, sdk.AccAddress(a.Bytes())) {
			if coin.Denom != w.c.Denom() && !coin.Amount.IsZero() {
				f[coin.Denom] = coin.Amount.BigInt()
			}
		}
		s.fbal[a] = f
		s.seq[a] = w.c.Nonce(ctx, a)
		acc := w.c.App.AccountKeeper.GetAccount(ctx, sdk.AccAddress(a.Bytes()))
		s.exists[a] = acc != nil
		if _, ok := acc.(sdk.ModuleAccountI); ok && acc != nil {
			s.isMod[a] = true
		}
		ch := w.c.App.EvmKeeper.GetCodeHash(ctx, a.Bytes())
		if !evmtypes.IsEmptyCodeHash(ch) {
			s.code[a] = common.BytesToHash(ch.Bytes())
		}
	}
	return s
}

func (w *world) snapCoq(s *snap, eoaOnly bool) string {
	var bal, seq, exists, code []string
	for _, a := range s.addrs {
		id := w.cqID(a)
		bal = append(bal, fmt.Sprintf("(%s, %s)", id, CqZ(s.bal[a])))
		if w.eoa[a] || !eoaOnly { // sequences of contracts follow the interpreter's CREATE / EIP-161 / selfdestruct rules: not modelled
			seq = append(seq, fmt.Sprintf("(%s, %s)", id, CqZu(s.seq[a])))
		}
		if s.exists[a] {
			exists = append(exists, id)
		}
		if _, ok := s.code[a]; ok {
			code = append(code, id)
		}
	}
	return fmt.Sprintf("(mkSnap %s %s %s %s %s %s %s)", CqList(bal), CqList(seq), CqList(exists), CqList(code), CqZ(s.supply), CqZ(s.base), CqZ(s.gminDec))
}

// the other denominations of a snapshot as a Coq dsnap: balances (all of them, or only the non-zero ones) and supplies
func (w *world) dsnapCoq(s *snap, all bool) string {
	var bal, sup []string
	for _, a := range s.addrs {
		for _, d := range otherDenoms {
			if v := s.fbal[a].get(d); all || v.Sign() != 0 {
				bal = append(bal, fmt.Sprintf("(%s, %s, %s)", CqZi(denomID(d)), w.cqID(a), CqZ(v)))
			}
		}
	}
	for _, d := range otherDenoms {
		sup = append(sup, fmt.Sprintf("(%s, %s)", CqZi(denomID(d)), CqZ(s.allSup.AmountOf(d).BigInt())))
	}
	return fmt.Sprintf("(mkDSnap %s %s)", CqList(bal), CqList(sup))
}

// ---------------------------------------------------------------- the driver

type blockDesc struct {
	Height int64    `json:"height"`
	MaxGas int64    `json:"max_gas"`
	Txs    []*genTx `json:"txs"`
	Obs    []string `json:"observed_classes"`
}

func rawKey(raw []byte) string {
	h := sha256.Sum256(raw)
	return string(h[:])
}

// ---------------------------------------------------------------- robustness: nothing the code under test does stops the driver

type driver struct {
	t     *testing.T
	side  *Sidecar
	cases *CasesFile
	w     *world
}

// the properties this driver serves: a failed expectation of the set-up, or a panic coming out of code of the repository
// that the harness calls directly, weakens every one of their checks and is reported under each
var servedProps = []string{"C04", "C05", "C06", "C13", "C09"}

func (d *driver) hitAll(suffix, msg string, desc interface{}) {
	for _, p := range servedProps {
		d.side.Hit(p+"/blocks/"+suffix, msg, desc)
	}
}

// an expectation about the code under test that the set-up or the generator relies on did not hold
type setupFailure struct{ what, msg string }

func must(what string, err error) {
	if err != nil {
		panic(setupFailure{what, trunc(err.Error(), 300)})
	}
}

// guard runs one unit of work (the world set-up, one generated block).  A failed set-up expectation becomes the hit
// <property>/blocks/setup/<what>, any other panic <property>/blocks/driver-panic/<message class>; the unit is skipped
// and the driver goes on.  Only the harness' own output files may stop the test.
func (d *driver) guard(where string, f func()) (ok bool) {
	defer func() {
		p := recover()
		if p == nil {
			return
		}
		ok = false
		if sf, is := p.(setupFailure); is {
			d.hitAll("setup/"+sf.what, where+": "+sf.msg, map[string]interface{}{"where": where})
			return
		}
		msg := fmt.Sprint(p)
		if e, is := p.(error); is {
			msg = e.Error()
		}
		d.hitAll("driver-panic/"+panicClass(msg), where+": panic: "+trunc(msg, 300), map[string]interface{}{"where": where, "stack": trunc(string(debug.Stack()), 3000)})
	}()
	f()
	return true
}

// class of a panic message: its first words without numbers, addresses and punctuation
func panicClass(msg string) string {
	if i := strings.IndexByte(msg, '\n'); i >= 0 {
		msg = msg[:i]
	}
	var words []string
	for _, wd := range strings.FieldsFunc(msg, func(r rune) bool {
		return !(r >= 'a' && r <= 'z' || r >= 'A' && r <= 'Z' || r >= '0' && r <= '9')
	}) {
		hasDigit := strings.IndexAny(wd, "0123456789") >= 0
		if hasDigit || len(wd) > 24 {
			continue
		}
		words = append(words, strings.ToLower(wd))
		if len(words) == 7 {
			break
		}
	}
	if len(words) == 0 {
		return "unnamed"
	}
	return strings.Join(words, "-")
}

func TestDriverBlocks(t *testing.T) {
	dir := OutDir(t)
	seed := EnvSeed()
	nBlocks := EnvInt("VERIF_N", 120)
	rng := NewRng(seed)
	side := NewSidecar("blocks", seed,
		"case = one block of 0-10 generated transactions, and one closing block of 440-480 of them (positions >= 256) (15 kinds incl. destruction scripts and Cosmos bank sends of 1-3 other denominations to wallets / contracts / coming CREATE and CREATE2 addresses x fee variants x gas limits x values x 10 malformations + replays of admitted bytes, consensus max_gas varied; other denominations minted to addresses of the coming block between blocks) executed by FinalizeBlock/Commit on the real app, "+
			"with the committed pre/post state (every denomination) of the block's address universe; non-trivial = block with >= 2 Ethereum txs that passed the ante handler and >= 2 distinct outcome classes; distinct by (kinds, malformations, classes, gas limits)")
	cases := NewCases(dir, "From Evm Require Import TxPipe TxPipeExt TxPipeDenom CorrTxPipe.", "tp_mismatches")
	d := &driver{t: t, side: side, cases: cases}
	// whatever the code under test does, the observations made so far are written out
	d.guard("world set-up", func() { newWorld(d) })
	failedInARow := 0
	for b := 0; b < nBlocks && d.w != nil && d.w.usable; b++ {
		r := rng.Fork(uint64(b))
		if d.guard(fmt.Sprintf("generated block %d", b), func() { d.genCase(r) }) {
			failedInARow = 0
			continue
		}
		side.Count("case-skipped")
		if failedInARow++; failedInARow >= 6 {
			d.hitAll("setup/world-abandoned", fmt.Sprintf("%d blocks in a row could not be generated or executed; stopped after generated block %d of %d", failedInARow, b, nBlocks), nil)
			break
		}
	}
	// one wide block at the end of the history: more Ethereum transactions than a byte can count, so that per-position
	// state keyed by a narrowed index (transient per-index gas, log counts, event attributes) meets positions >= 256.
	// Own fork of the generator: the blocks above are the same with and without it.
	if d.w != nil && d.w.usable && EnvInt("VERIF_BLOCKS_WIDE", 1) != 0 {
		r := rng.Fork(1_000_003)
		if !d.guard("wide block", func() {
			d.w.setMaxGas(-1)
			gen := d.w.genBlock(r, 440+r.Intn(40)) // about two thirds reach execution
			side.Count("wide-block")
			d.runBlock("wide", gen, false)
		}) {
			side.Count("case-skipped")
		}
	}
	cases.Write(t, 25)
	side.Write(t, dir)
}

// one generated block: governance actions between blocks, generation, execution and oracles
func (d *driver) genCase(r *Rng) {
	side, w := d.side, d.w
	c := w.c
	{
		{
			alive := 0
			for _, a := range w.ks {
				if w.kAlive[a] {
					alive++
				}
			}
			if alive < 3 {
				w.setMaxGas(-1)
				w.deployKs(4)
				side.Count("setup:deploy-K-block")
			}
		}
		// consensus max_gas for this block: mostly unlimited, sometimes tight
		switch r.Intn(8) {
		case 0:
			w.setMaxGas(int64(60_000 + r.Intn(400_000)))
		case 1:
			w.setMaxGas(int64(21_000 + r.Intn(60_000)))
		case 2:
			w.setMaxGas(40_000_000)
		case 3:
			w.setMaxGas(int64(1_000_000 + r.Intn(4_000_000)))
		default:
			w.setMaxGas(-1)
		}
		// feemarket min gas price now and then (a governance action between blocks)
		if r.Chance(10) {
			ctx := c.Ctx()
			p := c.App.FeeMarketKeeper.GetParams(ctx)
			switch r.Intn(3) {
			case 0:
				p.MinGasPrice = sdkmath.LegacyZeroDec()
			case 1:
				p.MinGasPrice = sdkmath.LegacyNewDecFromBigIntWithPrec(new(big.Int).Add(new(big.Int).Mul(c.BaseFee(ctx), pow10(18)), r.BigBits(70)), 18)
			default:
				p.MinGasPrice = feemarkettypes.DefaultMinGasPrice
			}
			must("feemarket-params", c.App.FeeMarketKeeper.SetParams(ctx, p))
		}
		nTx := r.Intn(11)
		gen := w.genBlock(r, nTx)
		if r.Chance(60) {
			w.prefund(r, gen, side.Count)
		}
		d.runBlock("generated", gen, false)
	}
}

// runBlock executes one block of described transactions on the real application and holds every observation against
// the reference: per transaction (supply, fee collector, EVM module account, admission, gas, indices) and per block
// (committed balances, supplies, sequences, bloom); the block becomes a case of the model.  Set-up blocks (setup = true)
// come through here too: a position-dependent defect shows first in their multi-transaction blocks.
func (d *driver) runBlock(label string, gen []*genTx, setup bool) {
	side, cases, w := d.side, d.cases, d.w
	c := w.c
	fc := feeCollector()
	{
		// the block's address universe
		var uni []common.Address
		{
			seen := map[common.Address]bool{}
			addU := func(a common.Address) {
				if !seen[a] {
					seen[a] = true
					uni = append(uni, a)
					w.id(a)
				}
			}
			for _, a := range w.core {
				addU(a)
			}
			for _, a := range w.ks {
				addU(a)
			}
			for _, g := range gen {
				for _, a := range g.addrs {
					addU(a)
				}
			}
		}
		prectx := c.QueryCtx()
		pre := w.snapshot(prectx, uni)
		// storage of the store contract (slots 1..6) for the refund oracle
		var slots [7]bool
		for k := 1; k <= 6; k++ {
			slots[k] = c.App.EvmKeeper.GetState(prectx, w.store, common.BigToHash(big.NewInt(int64(k)))) != (common.Hash{})
		}
		var raws [][]byte
		for _, g := range gen {
			raws = append(raws, g.raw)
		}
		height := c.Height
		res, err := c.RunBlockE(raws)
		if err != nil {
			panic(setupFailure{"block-not-executed", fmt.Sprintf("%s at height %d (%d transactions): FinalizeBlock/Commit returned an error: %s", label, height, len(raws), trunc(err.Error(), 300))})
		}
		if len(raws) != len(res.TxResults) {
			panic(setupFailure{"block-results-incomplete", fmt.Sprintf("%s at height %d: %d transactions, %d results", label, height, len(raws), len(res.TxResults))})
		}
		postctx := c.QueryCtx()
		post := w.snapshot(postctx, uni)

		// ---- reference state of the block: balances, which accounts carry rtK, expected sequences
		st := newRefState(w.factory)
		for _, a := range uni {
			st.bal[a] = pre.bal[a]
			st.fbal[a] = pre.fbal[a]
			if pre.code[a] == w.kHash {
				st.isK[a] = true
			}
		}
		st.bal[fc] = big.NewInt(0)                                        // x/distribution sweeps the fee collector at BeginBlock ...
		st.bal[w.distr] = new(big.Int).Add(pre.bal[w.distr], pre.bal[fc]) // ... into its own module account
		for _, a := range w.mods {
			st.blocked[a] = true
			st.modNames[a] = w.modName[a]
			if pre.isMod[a] {
				st.isModAcc[a] = true
			}
		}
		expSeq := map[common.Address]uint64{}
		for _, a := range uni {
			expSeq[a] = pre.seq[a]
		}
		burnTotal := big.NewInt(0)
		burnOther := coins{}
		// C04 for the other denominations, per transaction: bank-event flows of every account and the net of mint and
		// burn events must equal what the reference says (expF: denomination -> account -> expected change)
		checkOther := func(o *obsTx, expF map[string]map[common.Address]*big.Int, sigPrefix string, desc interface{}) {
			for _, d := range sortedDenoms(o, expF) {
				all := map[common.Address]bool{}
				expBurn := big.NewInt(0)
				for a, v := range expF[d] {
					all[a] = true
					expBurn.Sub(expBurn, v)
				}
				for a := range o.fdelta[d] {
					all[a] = true
				}
				var as []common.Address
				for a := range all {
					as = append(as, a)
				}
				sort.Slice(as, func(i, j int) bool { return as[i].Hex() < as[j].Hex() })
				for _, a := range as {
					want, got := zeroIfNil(expF[d][a]), zeroIfNil(o.fdelta[d][a])
					if want.Cmp(got) != 0 {
						side.Hit(sigPrefix+"other-denom-balance-change-not-as-expected", fmt.Sprintf("account %s, denomination %s: bank events net %s, expected %s", a.Hex(), d, got, want), desc)
					}
				}
				netBurn := new(big.Int).Sub(o.fburned.get(d), o.fminted.get(d))
				if netBurn.Sign() < 0 {
					side.Hit("C04/blocks/tx-increases-supply", fmt.Sprintf("denomination %s: minted %s > burned %s", d, o.fminted.get(d), o.fburned.get(d)), desc)
				} else if netBurn.Cmp(expBurn) != 0 {
					side.Hit(sigPrefix+"other-denom-supply-delta-not-equal-destroyed", fmt.Sprintf("denomination %s: net burn %s, balances of the accounts explicitly destroyed %s", d, netBurn, expBurn), desc)
				}
			}
		}

		// ---- observations
		var items []string
		var obsStr []string
		classes := map[string]bool{}
		passedAnte := 0
		blockBloom := ethtypes.Bloom{}
		failedSeen, logTxsAfterFailed := false, 0
		cumExpected := int64(0)
		logExpected := int64(0)
		idxExpected := int64(0)
		inBlock := map[string]bool{} // raw bytes admitted earlier in this block
		for i, g := range gen {
			tr := res.TxResults[i]
			o := w.observe(tr)
			key := rawKey(g.raw)
			desc := map[string]interface{}{"block": label, "height": height, "pos": i, "block_txs": len(gen), "tx": g, "class": o.Class, "code": tr.Code, "codespace": tr.Codespace, "gas_wanted": o.GW, "gas_used": o.GU, "log": trunc(tr.Log, 200), "max_gas": w.maxGas}
			if o.badReceipt != "" {
				side.Hit("C13/blocks/receipt-event-undecodable", "the receipt carried by the transaction's events cannot be decoded: "+o.badReceipt, desc)
			}
			if setup && o.Class != "EXEC_OK" {
				// the set-up only sends transactions that must be executed successfully wherever they stand in their block
				d.hitAll("setup/tx-not-executed", fmt.Sprintf("%s: transaction %d of %d (%s) ended in class %s: %s", label, i, len(gen), g.Kind, o.Class, trunc(tr.Log, 240)), desc)
			}
			if !g.isEth {
				// the SDK lane is observed, not modelled: fee actually charged (bank events) and whether the sequence advanced
				paid := big.NewInt(0)
				if d := o.delta[fc]; d != nil {
					paid = d
				}
				inc := paid.Sign() > 0 || tr.Code == 0
				okMsgs := tr.Code == 0 // the messages were executed and committed
				var sendsCq []string
				expF := map[string]map[common.Address]*big.Int{}
				for _, sd := range g.Sends {
					sendsCq = append(sendsCq, fmt.Sprintf("mkSend %s %s %s %s", CqZi(denomID(sd.Denom)), w.cqID(g.from), w.cqID(sd.to), CqZ(sd.amt)))
					if okMsgs {
						if expF[sd.Denom] == nil {
							expF[sd.Denom] = map[common.Address]*big.Int{}
						}
						m := expF[sd.Denom]
						m[g.from] = new(big.Int).Sub(zeroIfNil(m[g.from]), sd.amt)
						m[sd.to] = new(big.Int).Add(zeroIfNil(m[sd.to]), sd.amt)
						st.bankSend(g.from, sd.to, sd.Denom, sd.amt)
					}
				}
				for _, m := range expF {
					for a, v := range m {
						if v.Sign() == 0 {
							delete(m, a)
						}
					}
				}
				// a bank send moves exactly the declared coins and never changes a supply; a failed transaction moves nothing but the fee
				checkOther(o, expF, "C04/blocks/cosmos-", desc)
				// the EVM module's own account holds nothing after ANY transaction (a bank send to its address is refused)
				for _, dn := range append([]string{c.Denom()}, sortedDenoms(o, nil)...) {
					d := o.delta[w.evmModule]
					if dn != c.Denom() {
						d = o.fdelta[dn][w.evmModule]
					}
					if d != nil && d.Sign() != 0 {
						side.Hit("C04/blocks/evm-module-balance-nonzero", fmt.Sprintf("bank events of the Cosmos transaction leave %s%s on the EVM module account", d, dn), desc)
					}
				}
				if okMsgs {
					side.Count(fmt.Sprintf("cosmos-send:coins=%d", len(g.Sends)))
					for _, sd := range g.Sends {
						side.Count("cosmos-send-to:" + w.addrClass(sd.to, pre))
					}
				}
				items = append(items, fmt.Sprintf("ICosmos %s %s %s %s %s %s", CqZi(cosmosBlockGas(tr)), CqZi(w.id(g.from)), CqZ(paid), CqBool(inc), CqBool(okMsgs), CqList(sendsCq)))
				side.Count("class:cosmos:" + fmt.Sprint(tr.Code == 0))
				if tr.Code != 0 {
					side.Count(fmt.Sprintf("cosmos-rej:%s/%d", tr.Codespace, tr.Code))
				}
				side.Count("kind:" + g.Kind)
				if g.Mal != "none" {
					side.Count("mal:cosmos:" + g.Mal)
				}
				obsStr = append(obsStr, "COSMOS")
				// C06 for the Cosmos lane: accepted only with the account's current sequence, never twice
				if inc {
					if _, again := w.admitted[key]; again || inBlock[key] {
						side.Hit("C06/blocks/replay-accepted", "the same signed Cosmos transaction bytes were accepted a second time", desc)
					}
					if g.cosmosSeq != expSeq[g.from] {
						side.Hit("C06/blocks/inadmissible-tx-changed-state/cosmos-wrong-sequence", fmt.Sprintf("signed for sequence %d, account sequence %d", g.cosmosSeq, expSeq[g.from]), desc)
					}
					inBlock[key] = true
					expSeq[g.from]++
					st.add(g.from, new(big.Int).Neg(paid))
					st.add(fc, paid)
					cp := *g
					w.cosmosAcc = append(w.cosmosAcc, &cp)
					if len(w.cosmosAcc) > 16 {
						w.cosmosAcc = w.cosmosAcc[1:]
					}
				} else if len(o.delta) != 0 {
					side.Hit("C06/blocks/inadmissible-tx-changed-state/cosmos-rejected", "a rejected Cosmos transaction has bank events", desc)
				}
				continue
			}
			obsStr = append(obsStr, o.Class)
			classes[o.Class] = true
			side.Count("class:" + o.Class)
			side.Count("kind:" + g.Kind)
			side.Count("mal:" + g.Mal)
			if g.AccessList > 0 {
				side.Count("access-list:" + o.Class)
			}
			if o.Class == "REJ" {
				side.Count(fmt.Sprintf("rej:%s/%d", tr.Codespace, tr.Code))
			}
			if o.ethTxEvent {
				passedAnte++
			}
			vmerr := o.Class == "EXEC_VMERR"
			used := o.GU
			if o.Class != "EXEC_OK" && o.Class != "EXEC_VMERR" && o.Class != "FAILED" {
				used = 0
			}
			net := new(big.Int).Sub(o.minted, o.burned)
			limitFee := new(big.Int).Mul(g.price, new(big.Int).SetUint64(g.limit))

			// ---------------- C06: admission (independent of the model)
			admittedNow := o.ethTxEvent || len(o.delta) != 0 || (o.Class != "REJ" && o.Class != "DROPPED")
			reason := g.inadm
			if reason == "" && g.nonce != expSeq[g.from] {
				reason = "stale-nonce"
				if g.nonce > expSeq[g.from] {
					reason = "future-nonce"
				}
			}
			_, seenBefore := w.admitted[key]
			replayed := seenBefore || inBlock[key]
			if admittedNow {
				if replayed {
					side.Hit("C06/blocks/replay-accepted", fmt.Sprintf("the same signed transaction bytes passed admission a second time (class %s)", o.Class), desc)
				}
				if reason != "" {
					side.Hit("C06/blocks/inadmissible-tx-changed-state/"+reason, fmt.Sprintf("nonce %d, account sequence %d, class %s: the transaction passed admission / changed state", g.nonce, expSeq[g.from], o.Class), desc)
				}
				if g.inadm != "" {
					side.Hit("C06/blocks/unauthorised-tx-admitted", "malformation "+g.inadm+" passed the ante handler", desc)
				}
				inBlock[key] = true
				expSeq[g.from]++
			}

			// ---------------- reference effect and expected bank flows of this tx
			var moves [][2]string
			burn := big.NewInt(0)
			expF := map[string]map[common.Address]*big.Int{} // other denominations: expected change per account
			var createdCq, destroyedCq []string
			expDelta := map[common.Address]*big.Int{}
			addExp := func(a common.Address, d *big.Int) {
				if expDelta[a] == nil {
					expDelta[a] = big.NewInt(0)
				}
				expDelta[a].Add(expDelta[a], d)
			}
			// does the execution, run to its end, hit a module account in a way that aborts the transaction (value credited
			// to a blocked address; touched empty module account at commit)?  Tried out on a copy of the reference state.
			refPanic := ""
			if o.Class == "EXEC_OK" || o.Class == "PANIC" {
				tr := st.trial()
				tr.add(g.from, new(big.Int).Neg(limitFee))
				tr.add(fc, limitFee)
				w.applyRef(tr, g)
				refPanic = tr.panicked
				if o.Class == "PANIC" {
					for k, v := range tr.stats {
						if strings.HasPrefix(k, "module-account-") {
							side.Histogram["reached:"+k] += v
						}
					}
				}
			}
			effClass := o.Class // the class whose accounting the reference follows
			switch {
			case o.Class == "EXEC_OK" && refPanic != "":
				// the implementation executed what must abort: accounted as aborted, the flow oracles below show the difference
				effClass = "PANIC"
				side.Count("ref:panic-expected-but-executed:" + refPanic)
			case o.Class == "PANIC" && refPanic == "":
				side.Count("ref:panic-not-predicted") // the model is given an ordinary execution: it will disagree
			case o.Class == "PANIC":
				side.Count("panic:" + refPanic + ":" + g.Kind)
				side.Count(fmt.Sprintf("panic:consensus-gas-used=%d", o.GU))
			}
			switch effClass {
			case "EXEC_OK", "EXEC_VMERR":
				fee := new(big.Int).Mul(g.price, big.NewInt(o.RGas))
				st.add(g.from, new(big.Int).Neg(limitFee)) // the execution sees the sender after the ante deduction ...
				st.add(fc, limitFee)                       // ... and the fee collector holding the fee for the whole limit
				if !vmerr {
					before := st.bal
					st.bal = make(map[common.Address]*big.Int, len(before))
					for k, v := range before {
						st.bal[k] = v
					}
					b0 := st.burn
					fbefore := make(map[common.Address]coins, len(st.fbal))
					for k, v := range st.fbal {
						fbefore[k] = v
					}
					if !w.applyRef(st, g) {
						side.Count("ref:inconsistent-with-success")
					}
					burn = new(big.Int).Sub(st.burn, b0)
					// the accounts deleted at the end of the transaction lose what they hold in EVERY denomination:
					// that is the only way a transaction's execution reaches another denomination
					for _, a := range st.lastDestroyed {
						destroyedCq = append(destroyedCq, w.cqID(a))
						for d, v := range fbefore[a] {
							if v.Sign() != 0 {
								if expF[d] == nil {
									expF[d] = map[common.Address]*big.Int{}
								}
								expF[d][a] = new(big.Int).Neg(v)
								burnOther[d] = new(big.Int).Add(burnOther.get(d), v)
								side.Count("other-denom:destroyed-with-account:" + d)
							}
						}
					}
					for _, a := range st.lastCreated {
						createdCq = append(createdCq, w.cqID(a))
						if !fbefore[a].isZero() {
							side.Count("other-denom:carried-over-by-creation:" + w.addrClass(a, pre))
						}
					}
					var ch []common.Address
					for a, v := range st.bal {
						if v.Cmp(zeroIfNil(before[a])) != 0 {
							ch = append(ch, a)
						}
					}
					sort.Slice(ch, func(i, j int) bool { return w.id(ch[i]) < w.id(ch[j]) })
					for _, a := range ch {
						d := new(big.Int).Sub(st.bal[a], zeroIfNil(before[a]))
						moves = append(moves, [2]string{w.cqID(a), CqZ(d)})
						addExp(a, d)
					}
				}
				st.add(g.from, new(big.Int).Sub(limitFee, fee))
				st.add(fc, new(big.Int).Sub(fee, limitFee))
				addExp(g.from, new(big.Int).Neg(fee))
				addExp(fc, fee)
				burnTotal.Add(burnTotal, burn)
			case "FAILED", "PANIC":
				st.add(g.from, new(big.Int).Neg(limitFee))
				st.add(fc, limitFee)
				addExp(g.from, new(big.Int).Neg(limitFee))
				addExp(fc, limitFee)
			}
			mv := make([]string, 0, len(moves))
			for _, m := range moves {
				mv = append(mv, fmt.Sprintf("(%s, %s)", m[0], m[1]))
			}
			eo := fmt.Sprintf("(mkOut %s %s %s %s %s false)", CqZi(used), CqBool(vmerr), CqZi(o.NLogs), CqList(mv), CqZ(burn))
			// gas consumed before the refund and the refund counter of a call to the store contract, from the SSTORE cost table
			// (EIP-2929/3529: no-op 2200, 0 -> x 22100, x -> y / x -> 0 5000 with 4800 refunded for a clear; slots are cold)
			haveRefund, rfLB, rfUB, rfCounter := false, int64(0), int64(0), int64(0)
			if o.Class == "EXEC_OK" && (g.kind == kStoreSet || g.kind == kStoreClear) && len(g.data) == 2 && g.to != nil && *g.to == w.store {
				n, v := int(g.data[0]), g.data[1] != 0
				haveRefund, rfLB = true, int64(g.intr)
				for k := n; k >= 1 && k <= 6; k-- {
					switch {
					case !slots[k] && !v: // 0 -> 0
						rfLB += 2200
					case slots[k] && v: // non-zero -> non-zero (the same value is a no-op at 2200, another value costs 5000)
						rfLB += 2200
					case !slots[k] && v:
						rfLB += 22100
					default: // clear
						rfLB += 5000
						rfCounter += 4800
					}
					slots[k] = v
				}
				rfUB = rfLB + 400 + 150*int64(n) + 2800*int64(n) // loop overhead; x -> y costs 2800 more than the no-op
			}
			rfS := "None"
			if haveRefund {
				rfS = fmt.Sprintf("(Some (%s, %s, %s))", CqZi(rfLB), CqZi(rfUB), CqZi(rfCounter))
			}
			// receipt extension: CREATE address of (sender, nonce), bloom bit positions of each log; observed address and bloom
			var lb []string
			for _, l := range o.LogsRlp {
				lb = append(lb, cqZs(logBits(l)))
			}
			obCA := "None"
			if o.HasCA {
				obCA = fmt.Sprintf("(Some %s)", CqZi(w.id(common.HexToAddress(o.CA))))
			}
			obBloom := "[]"
			if o.Status >= 0 {
				obBloom = cqZs(bloomBits(o.Bloom))
			}
			ext := fmt.Sprintf("(mkExt %s %s %s %s %s)", CqZi(w.id(crypto.CreateAddress(g.from, g.nonce))), CqList(lb), rfS, obCA, obBloom)
			if refPanic != "" {
				// the model's part: TxPipeExt.deliver_panic, given the consensus gas used as observed
				items = append(items, fmt.Sprintf("IEthPanic %s %s %s %s", g.coqT, CqZi(o.GU), o.coq(tr.Codespace), ext))
			} else {
				items = append(items, fmt.Sprintf("IEth %s %s %s %s (mkDx %s %s)", g.coqT, eo, o.coq(tr.Codespace), ext, CqList(createdCq), CqList(destroyedCq)))
			}
			for _, a := range g.addrs {
				if w.isMod(a) {
					side.Count("tx-naming-module-account:" + w.modName[a] + ":" + o.Class)
				}
			}
			// C04, every transaction in every class: "the EVM module's own account always ends with a zero balance" (it starts
			// every block with none, see the block-level oracle: the net of its bank events must be nothing, in every
			// denomination) and "never creates coins" (mint events never exceed burn events, in every denomination)
			if d := o.delta[w.evmModule]; d != nil && d.Sign() != 0 {
				side.Hit("C04/blocks/evm-module-balance-nonzero", fmt.Sprintf("bank events of the transaction leave %s on the EVM module account", d), desc)
			}
			for _, dn := range sortedDenoms(o, nil) {
				if d := o.fdelta[dn][w.evmModule]; d != nil && d.Sign() != 0 {
					side.Hit("C04/blocks/evm-module-balance-nonzero", fmt.Sprintf("bank events of the transaction leave %s%s on the EVM module account", d, dn), desc)
				}
			}
			if net.Sign() > 0 && o.Class != "EXEC_OK" && o.Class != "EXEC_VMERR" {
				side.Hit("C04/blocks/tx-increases-supply", fmt.Sprintf("bank events of the tx (class %s): minted %s > burned %s", o.Class, o.minted, o.burned), desc)
			}
			// C04, every other denomination, every outcome class: the supply falls by exactly the balances of the accounts the
			// execution explicitly destroyed, every other account (sender, fee collector, created contracts, ...) keeps its balance
			checkOther(o, expF, "C04/blocks/", desc)

			// ---------------- direct oracle (property texts), independent of the model
			checkFlows := func() {
				// every account named by a bank event or expected to move: observed net flow = expected
				all := map[common.Address]bool{}
				for a := range expDelta {
					all[a] = true
				}
				for a := range o.delta {
					all[a] = true
				}
				var as []common.Address
				for a := range all {
					as = append(as, a)
				}
				sort.Slice(as, func(i, j int) bool { return as[i].Hex() < as[j].Hex() })
				for _, a := range as {
					want, got := zeroIfNil(expDelta[a]), zeroIfNil(o.delta[a])
					if want.Cmp(got) == 0 {
						continue
					}
					msg := fmt.Sprintf("account %s: bank events net %s, expected %s", a.Hex(), got, want)
					switch a {
					case g.from:
						if o.Class == "FAILED" || o.Class == "PANIC" {
							side.Hit("C05/blocks/failed-tx-not-charged-full-limit", msg, desc)
						} else {
							side.Hit("C05/blocks/sender-charge-not-exact", msg, desc)
						}
					case fc:
						side.Hit("C04/blocks/fee-collector-gain-not-fee", msg, desc)
					case w.evmModule:
						side.Hit("C04/blocks/evm-module-balance-nonzero", msg, desc)
					default:
						side.Hit("C04/blocks/balance-change-not-as-expected", msg, desc)
					}
				}
			}
			switch o.Class {
			case "EXEC_OK", "EXEC_VMERR":
				// C04: supply change of this tx = -(destroyed), never positive
				if net.Sign() > 0 {
					side.Hit("C04/blocks/tx-increases-supply", fmt.Sprintf("bank events of the tx: minted %s > burned %s", o.minted, o.burned), desc)
				} else if new(big.Int).Neg(net).Cmp(burn) != 0 {
					side.Hit("C04/blocks/supply-delta-not-equal-destroyed", fmt.Sprintf("net burn %s, explicitly destroyed %s", new(big.Int).Neg(net), burn), desc)
				}
				// C04/C05: fee collector gains exactly gas used x effective price; sender pays that plus what the execution moved; nobody else moves otherwise
				checkFlows()
				if o.EffPrice != g.price.String() {
					side.Hit("C05/blocks/effective-price", fmt.Sprintf("receipt event says %s, min(tip+base,cap) = %s", o.EffPrice, g.price), desc)
				}
				// C05: gas bounds and consensus = receipt
				if o.RGas > int64(g.limit) || o.RGas < int64(g.intr) {
					side.Hit("C05/blocks/gas-used-out-of-bounds", fmt.Sprintf("gas used %d, intrinsic %d, limit %d", o.RGas, g.intr, g.limit), desc)
				}
				if o.RGas != o.GU {
					side.Hit("C05/blocks/consensus-gas-differs-from-receipt", fmt.Sprintf("consensus %d receipt %d", o.GU, o.RGas), desc)
				}
				if o.GW != int64(g.limit) {
					side.Hit("C05/blocks/gas-wanted-not-limit", fmt.Sprintf("gas wanted %d, limit %d", o.GW, g.limit), desc)
				}
				// C05: storage refund <= consumed/5 (and the refund counter), on the store contract whose cost is known
				if haveRefund {
					f := func(consumed int64) int64 {
						rf := consumed / 5
						if rfCounter < rf {
							rf = rfCounter
						}
						return consumed - rf
					}
					if o.RGas < f(rfLB) || o.RGas > f(rfUB) {
						side.Hit("C05/blocks/refund-not-capped-at-one-fifth", fmt.Sprintf("gas used %d; gas consumed within [%d,%d], refund counter %d => gas used within [%d,%d]", o.RGas, rfLB, rfUB, rfCounter, f(rfLB), f(rfUB)), desc)
					}
					side.Count(fmt.Sprintf("refund:counter>cap=%v", rfCounter > rfLB/5))
				}
				// C13 (and the cumulative clause of C05)
				cumExpected += o.RGas
				if o.Cum != cumExpected {
					side.Hit("C13/blocks/cumulative-gas-not-running-sum", fmt.Sprintf("cumulative %d, running sum %d", o.Cum, cumExpected), desc)
					side.Hit("C05/blocks/cumulative-gas-not-running-sum", fmt.Sprintf("cumulative %d, running sum %d", o.Cum, cumExpected), desc)
				}
				if o.TxIdx != idxExpected {
					side.Hit("C13/blocks/tx-index-not-consecutive", fmt.Sprintf("txIndex %d, expected %d", o.TxIdx, idxExpected), desc)
				}
				if o.NLogs > 0 && o.LogIdx != logExpected {
					side.Hit("C13/blocks/log-index-not-consecutive", fmt.Sprintf("first log index %d, expected %d", o.LogIdx, logExpected), desc)
				}
				logExpected += o.NLogs
				if failedSeen && o.NLogs > 0 {
					logTxsAfterFailed++
				}
				if (o.Status == 1) == vmerr {
					side.Hit("C13/blocks/status-vs-vmerror", "status does not reflect the VM error", desc)
				}
				wantCA := g.create && !vmerr
				if o.HasCA != wantCA || (wantCA && !strings.EqualFold(o.CA, crypto.CreateAddress(g.from, g.nonce).Hex())) {
					side.Hit("C13/blocks/contract-address", fmt.Sprintf("contract address %q, creation succeeded %v", o.CA, wantCA), desc)
				}
				rb := ethtypes.BytesToBloom(ethtypes.LogsBloom(o.LogsRlp))
				if rb != o.Bloom {
					side.Hit("C13/blocks/receipt-bloom", "receipt bloom does not cover exactly its logs", desc)
				}
				orBloom(&blockBloom, o.Bloom)
				if vmerr && o.NLogs != 0 {
					side.Hit("C03/blocks/logs-of-failed-execution", "a failed execution kept logs", desc)
				}
				if g.scr != nil {
					side.Count(fmt.Sprintf("script:%s:ops=%d", o.Class, g.scr.size()))
				}
				if !vmerr && g.kind == kTransfer && g.value.Sign() == 0 && containsAddr(w.foreignOnly, *g.to) && !st.fbal[*g.to].isZero() && st.get(*g.to).Sign() == 0 {
					side.Count("reached:zero-value-touch-of-account-holding-only-other-denoms")
				}
				if burn.Sign() > 0 {
					side.Count("burn:positive")
				}
				idxExpected++
			case "FAILED":
				// failed after admission: full gas limit charged, nothing else moves
				checkFlows()
				if net.Sign() != 0 {
					side.Hit("C04/blocks/failed-tx-changes-supply", fmt.Sprintf("minted %s burned %s", o.minted, o.burned), desc)
				}
				blockGas := tr.Codespace == "sdk" && tr.Code == 11
				if !blockGas && o.GU != int64(g.limit) {
					side.Hit("C05/blocks/failed-tx-gas-not-full-limit", fmt.Sprintf("consensus gas used %d, limit %d", o.GU, g.limit), desc)
				}
				side.Count(fmt.Sprintf("failed:block-gas=%v", blockGas))
				failedSeen = true
				cumExpected += int64(g.limit)
				if o.TxIdx != idxExpected {
					side.Hit("C13/blocks/tx-index-not-consecutive", fmt.Sprintf("txIndex %d, expected %d", o.TxIdx, idxExpected), desc)
				}
				idxExpected++
			case "PANIC":
				// aborted by a panic inside the handler (value credited to a module account, touched empty module account):
				// a failure outside EVM execution, after admission - the fee for the whole gas limit is kept, nothing else
				// moves, no coin is created or destroyed; the transaction owns an Ethereum index and has no receipt.  The
				// consensus gas used is whatever the meter held (handed to the model as observed; C05 speaks about the gas
				// used "as shown by its Ethereum receipt": the later receipts' cumulative gas count the whole limit for it,
				// which the running sum below requires)
				checkFlows()
				if net.Sign() != 0 {
					side.Hit("C04/blocks/failed-tx-changes-supply", fmt.Sprintf("minted %s burned %s", o.minted, o.burned), desc)
				}
				if o.GW != int64(g.limit) {
					side.Hit("C05/blocks/gas-wanted-not-limit", fmt.Sprintf("gas wanted %d, limit %d", o.GW, g.limit), desc)
				}
				failedSeen = true
				cumExpected += int64(g.limit)
				if o.TxIdx != idxExpected {
					side.Hit("C13/blocks/tx-index-not-consecutive", fmt.Sprintf("txIndex %d, expected %d", o.TxIdx, idxExpected), desc)
				}
				idxExpected++
			case "REJ", "DROPPED":
				if len(o.delta) != 0 || o.minted.Sign() != 0 || o.burned.Sign() != 0 {
					side.Hit("C05/blocks/rejected-tx-moves-coins", "a rejected transaction has bank events", desc)
				}
				if o.GU != 0 && o.Class == "REJ" {
					side.Hit("C05/blocks/rejected-tx-uses-gas", fmt.Sprintf("a transaction rejected at admission reports gas used %d", o.GU), desc)
				}
				side.Count(fmt.Sprintf("rejected-tx-events:%d", len(tr.Events)))
			default:
				side.Hit("C05/blocks/unclassified-result", "result class "+o.Class, desc)
			}
			if o.ethTxEvent {
				w.admitted[key] = height
				cp := *g
				w.accepted = append(w.accepted, &cp)
				if len(w.accepted) > 48 {
					w.accepted = w.accepted[1:]
				}
				if refPanic != "" {
					w.abortedAcc = append(w.abortedAcc, &cp)
					if len(w.abortedAcc) > 6 {
						w.abortedAcc = w.abortedAcc[1:]
					}
				}
				if o.Class == "FAILED" || o.Class == "EXEC_VMERR" || o.Class == "PANIC" || refPanic != "" {
					w.failedAcc = append(w.failedAcc, &cp)
					if len(w.failedAcc) > 24 {
						w.failedAcc = w.failedAcc[1:]
					}
				}
				if replayed {
					side.Count("replay:admitted")
				}
			} else if replayed {
				side.Count("replay:rejected:" + map[bool]string{true: "same-block", false: "later-block"}[inBlock[key]])
			}
			// C09: admitted price is at least the base fee and trunc(global min)
			if o.ethTxEvent {
				gmin := new(big.Int).Quo(pre.gminDec, pow10(18))
				if g.price.Cmp(pre.base) < 0 || g.price.Cmp(gmin) < 0 {
					side.Hit("C09/blocks/price-below-floor-executed", fmt.Sprintf("effective price %s, base fee %s, global min %s", g.price, pre.base, gmin), desc)
				}
			}
		}

		for k, v := range st.stats {
			side.Histogram["reached:"+k] += v
		}
		if logTxsAfterFailed >= 2 {
			side.Count("reached:two-logging-txs-after-a-receiptless-tx")
		}
		// ---------------- block-level oracles
		bdesc := func(extra map[string]interface{}) map[string]interface{} {
			m := map[string]interface{}{"block": label, "height": height, "max_gas": w.maxGas, "txs": gen, "observed_classes": obsStr}
			for k, v := range extra {
				m[k] = v
			}
			return m
		}
		// C06: every sequence moved by exactly the number of admitted transactions of that account; no sequence ever decreases
		for _, a := range uni {
			if !w.eoa[a] && !w.static[a] {
				continue
			}
			if post.seq[a] != expSeq[a] {
				var mine []map[string]interface{}
				for i, g := range gen {
					if g.from == a {
						mine = append(mine, map[string]interface{}{"pos": i, "tx": g, "class": obsStr[i]})
					}
				}
				sig := "C06/blocks/nonce-not-advanced-by-one"
				if len(mine) == 0 {
					sig = "C06/blocks/foreign-sequence-moved"
				}
				side.Hit(sig, fmt.Sprintf("account %s: sequence %d before the block, %d after, %d transaction(s) of it passed admission", a.Hex(), pre.seq[a], post.seq[a], expSeq[a]-pre.seq[a]),
					bdesc(map[string]interface{}{"account": a.Hex(), "its_txs": mine}))
			}
			if last, ok := w.lastSeq[a]; ok && post.seq[a] < last {
				side.Hit("C06/blocks/sequence-decreased", fmt.Sprintf("account %s: sequence %d -> %d", a.Hex(), last, post.seq[a]), bdesc(map[string]interface{}{"account": a.Hex()}))
			}
			if pre.seq[a] < w.lastSeq[a] {
				side.Hit("C06/blocks/sequence-decreased", fmt.Sprintf("account %s: sequence %d -> %d between blocks", a.Hex(), w.lastSeq[a], pre.seq[a]), bdesc(map[string]interface{}{"account": a.Hex()}))
			}
			w.lastSeq[a] = post.seq[a]
		}
		// C04: supply, balances, EVM module account
		dSupply := new(big.Int).Sub(post.supply, pre.supply)
		if dSupply.Sign() > 0 {
			side.Hit("C04/blocks/supply-increased", fmt.Sprintf("total supply grew by %s over the block", dSupply), bdesc(nil))
		} else if new(big.Int).Neg(dSupply).Cmp(burnTotal) != 0 {
			side.Hit("C04/blocks/block-supply-delta-not-minus-burns", fmt.Sprintf("supply changed by %s, explicitly destroyed %s", dSupply, burnTotal), bdesc(nil))
		}
		for _, coin := range post.allSup { // "for every denomination the total supply after ... is at most the supply before"
			if coin.Amount.GT(pre.allSup.AmountOf(coin.Denom)) {
				side.Hit("C04/blocks/supply-increased", fmt.Sprintf("total supply of %s grew from %s to %s over the block", coin.Denom, pre.allSup.AmountOf(coin.Denom), coin.Amount), bdesc(nil))
			}
		}
		for _, d := range otherDenoms { // ... and it decreases only by amounts explicitly destroyed
			dS := new(big.Int).Sub(post.allSup.AmountOf(d).BigInt(), pre.allSup.AmountOf(d).BigInt())
			if new(big.Int).Neg(dS).Cmp(burnOther.get(d)) != 0 {
				side.Hit("C04/blocks/other-denom-block-supply-delta-not-minus-destroyed", fmt.Sprintf("supply of %s changed by %s over the block, balances of explicitly destroyed accounts %s", d, dS, burnOther.get(d)), bdesc(nil))
			}
		}
		for _, coin := range pre.allSup {
			if denomID(coin.Denom) < 0 && coin.Denom != c.Denom() && !post.allSup.AmountOf(coin.Denom).Equal(coin.Amount) {
				side.Hit("C04/blocks/other-denom-block-supply-delta-not-minus-destroyed", fmt.Sprintf("supply of %s changed from %s to %s", coin.Denom, coin.Amount, post.allSup.AmountOf(coin.Denom)), bdesc(nil))
			}
		}
		for _, a := range uni {
			for _, d := range otherDenoms {
				if got, want := post.fbal[a].get(d), st.fbal[a].get(d); got.Cmp(want) != 0 {
					side.Hit("C04/blocks/other-denom-post-balance-not-as-expected", fmt.Sprintf("account %s holds %s%s after the block, expected %s", a.Hex(), got, d, want), bdesc(map[string]interface{}{"account": a.Hex()}))
				}
			}
			if !pre.fbal[a].isZero() {
				side.Count("universe-account-with-other-denoms:" + w.addrClass(a, pre))
			}
		}
		if !post.fbal[w.evmModule].isZero() || !post.fbal[fc].isZero() {
			side.Hit("C04/blocks/evm-module-balance-nonzero", "the EVM module account or the fee collector holds another denomination after the block", bdesc(nil))
		}
		if post.bal[w.evmModule].Sign() != 0 {
			side.Hit("C04/blocks/evm-module-balance-nonzero", fmt.Sprintf("EVM module account holds %s after the block", post.bal[w.evmModule]), bdesc(nil))
		}
		for _, a := range uni {
			if post.bal[a].Cmp(st.get(a)) != 0 {
				side.Hit("C04/blocks/post-balance-not-as-expected", fmt.Sprintf("account %s holds %s after the block, expected %s", a.Hex(), post.bal[a], st.get(a)), bdesc(map[string]interface{}{"account": a.Hex()}))
			}
		}
		// block bloom (C13): union of receipt blooms, from the block_bloom event
		obsBlockBloom := "[]"
		for _, ev := range res.Events {
			if ev.Type == evmtypes.EventTypeBlockBloom {
				at := EventAttrs(ev)
				bz, _ := hexutil.Decode(hexPrefixed(at[evmtypes.AttributeKeyEthereumBloom]))
				bb := ethtypes.BytesToBloom(bz)
				if bb != blockBloom {
					side.Hit("C13/blocks/block-bloom-not-union", "block bloom differs from the union of the receipt blooms", bdesc(nil))
				}
				obsBlockBloom = cqZs(bloomBits(bb))
			}
		}

		{ // accounts that hold other denominations only
			for _, a := range uni {
				_, hasCode := post.code[a]
				if !post.fbal[a].isZero() && post.bal[a].Sign() == 0 && !hasCode && post.seq[a] == 0 && !w.eoa[a] && !w.isMod(a) && !containsAddr(w.foreignOnly, a) {
					w.foreignOnly = append(w.foreignOnly, a)
				}
			}
			keep := w.foreignOnly[:0:0]
			for _, a := range w.foreignOnly { // still so?
				_, hasCode := post.code[a]
				if f, ok := post.fbal[a]; ok && (f.isZero() || post.bal[a].Sign() != 0 || hasCode || post.seq[a] != 0) {
					continue
				}
				keep = append(keep, a)
			}
			if len(keep) > 10 {
				keep = keep[len(keep)-10:]
			}
			w.foreignOnly = keep
			side.Count(fmt.Sprintf("accounts-holding-only-other-denoms:%d", min(len(keep), 10)))
		}
		{ // K instances: keep the living ones, a few destroyed ones, add the new ones
			var keep []common.Address
			dead := 0
			for _, a := range w.ks {
				if post.code[a] == w.kHash {
					keep = append(keep, a)
				} else if dead < 2 {
					dead++
					keep = append(keep, a)
				}
			}
			for i, g := range gen {
				if g.isEth && g.kind == kDeployK && obsStr[i] == "EXEC_OK" {
					a := crypto.CreateAddress(g.from, g.nonce)
					if post.code[a] == w.kHash && !containsAddr(keep, a) {
						keep = append(keep, a)
					}
				}
			}
			if len(keep) > 12 {
				keep = keep[len(keep)-12:]
			}
			w.ks = keep
			w.kAlive = map[common.Address]bool{}
			alive := 0
			for _, a := range w.ks {
				if post.code[a] == w.kHash {
					alive++
					w.kAlive[a] = true
				}
			}
			for s := uint64(0); s < nSalts; s++ {
				if a := c2Address(w.factory, s); post.code[a] == w.kHash {
					w.kAlive[a] = true
				}
			}
			side.Count(fmt.Sprintf("K-alive:%d", min(alive, 6)))
		}
		item := fmt.Sprintf("(mkBlock %s %s %s %s %s %s %s %s)", w.snapCoq(pre, false), CqZi(w.maxGas), CqList(items), w.snapCoq(post, true), obsBlockBloom, w.dsnapCoq(pre, false), w.dsnapCoq(post, true), w.cqID(w.distr))
		cases.Add(item)
		sorted := append([]string{}, obsStr...)
		sort.Strings(sorted)
		kinds := []string{}
		for _, g := range gen {
			kinds = append(kinds, g.Kind+"/"+g.Mal+"/"+strconv.FormatUint(g.Gas, 10))
		}
		bd := blockDesc{Height: height, MaxGas: w.maxGas, Txs: gen, Obs: obsStr}
		side.Case(cases.Len()-1, strings.Join(kinds, ",")+"|"+strings.Join(sorted, ","), passedAnte >= 2 && len(classes) >= 2, bd) // index = position among the emitted cases
		if setup {
			side.Count("setup-block-as-case:" + strings.SplitN(strings.TrimPrefix(label, "setup:"), ":", 2)[0])
		}
		side.Count(fmt.Sprintf("block_txs:%d", len(gen)))
		side.Count("max_gas:" + mgClass(w.maxGas))
	}
}

// denominations named by the observation or the expectation, sorted
func sortedDenoms(o *obsTx, expF map[string]map[common.Address]*big.Int) []string {
	set := map[string]bool{}
	for d := range expF {
		set[d] = true
	}
	for d := range o.fdelta {
		set[d] = true
	}
	for d := range o.fminted {
		set[d] = true
	}
	for d := range o.fburned {
		set[d] = true
	}
	var out []string
	for d := range set {
		out = append(out, d)
	}
	sort.Strings(out)
	return out
}

// coarse class of an address for the histogram
func (w *world) addrClass(a common.Address, pre *snap) string {
	switch {
	case w.eoa[a]:
		return "wallet"
	case w.isMod(a):
		return "module-account"
	case pre.code[a] == w.kHash:
		return "K-alive"
	case w.saltOf(a) >= 0:
		return "create2-address-without-code"
	case containsAddr(w.ks, a):
		return "K-destroyed"
	case containsAddr(w.bens, a):
		return "beneficiary"
	case len(pre.code[a].Bytes()) > 0 && pre.code[a] != (common.Hash{}):
		return "other-contract"
	default:
		return "codeless-address"
	}
}

func zeroIfNil(x *big.Int) *big.Int {
	if x == nil {
		return big.NewInt(0)
	}
	return x
}

func containsAddr(l []common.Address, a common.Address) bool {
	for _, x := range l {
		if x == a {
			return true
		}
	}
	return false
}

func mgClass(m int64) string {
	switch {
	case m < 0:
		return "unlimited"
	case m < 100_000:
		return "<100k"
	case m < 1_000_000:
		return "<1M"
	default:
		return ">=1M"
	}
}

func hexPrefixed(s string) string {
	if strings.HasPrefix(s, "0x") {
		return s
	}
	return "0x" + s
}

func trunc(s string, n int) string {
	if len(s) > n {
		return s[:n]
	}
	return s
}

func orBloom(dst *ethtypes.Bloom, b ethtypes.Bloom) {
	for i := range dst {
		dst[i] |= b[i]
	}
}

// gas a Cosmos tx adds to the block gas meter: GasConsumedToLimit of its tx meter = min(used, wanted)
func cosmosBlockGas(tr *abci.ExecTxResult) int64 {
	if tr.GasWanted > 0 && tr.GasUsed > tr.GasWanted {
		return tr.GasWanted
	}
	return tr.GasUsed
}

func (w *world) setMaxGas(m int64) {
	if m == w.maxGas {
		return
	}
	ctx := w.c.Ctx()
	cp, err := w.c.App.ConsensusParamsKeeper.ParamsStore.Get(ctx)
	must("consensus-params", err)
	if cp.Block == nil {
		cp.Block = &tmproto.BlockParams{MaxBytes: 22020096}
	}
	cp.Block.MaxGas = m
	must("consensus-params", w.c.App.ConsensusParamsKeeper.ParamsStore.Set(ctx, cp))
	w.maxGas = m
}
